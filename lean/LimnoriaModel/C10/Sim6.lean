/-
C10 — simulation, part 6: numerics from the server; reconnect; NAMES and WHO replies.
-/
import LimnoriaModel.C10.Sim5
namespace C10
open Py

/-- a numeric reply (first parameter = the bot's nick) from the server: only the `IrcState` handler acts -/
theorem feed_server {b : Bot} {p : Str} (hi : IsupOK b.isup) (hp : ServerOK p) (hne : p ≠ b.nick) (cmd : Str) (rest : List Str)
    (hirc : b.ircCmd ⟨p, cmd, b.nick :: rest⟩ = (b, false)) :
    (b.feed ⟨p, cmd, b.nick :: rest⟩).1 = (b.stateCmd ⟨p, cmd, b.nick :: rest⟩).1 := by
  have hpu : b.pfxUpd ⟨p, cmd, b.nick :: rest⟩ = b := pfxUpd_server hp.noBang hne _ _
  by_cases hs : cmd ∈ Gen.nickSetters
  · rw [feed_setter b _ (tagOK_of_ok hi _) hne hs b.nick rest rfl rfl (by rw [hpu]) (by rw [hpu, hirc])]
    rw [hpu, hirc, prelude_server hp.noBang]
  · rw [feed_plain b _ (tagOK_of_ok hi _) hne hs (by rw [hpu, hirc])]
    rw [hpu, hirc, prelude_server hp.noBang]

/-! ### RPL_ISUPPORT -/

theorem cmdOf_005 : cmdOf "005".toList = .n005 := by decide

theorem token005_other (b : Bot) (name value : Str) (hn : '=' ∉ name)
    (h1 : asciiLower name ≠ "chantypes".toList) (h2 : asciiLower name ≠ "channellen".toList) :
    b.token005 (name ++ '=' :: value) = b := by
  unfold Bot.token005
  rw [split1_append _ hn]
  dsimp only
  rw [if_neg h1, if_neg h2]

theorem token005_chantypes (b : Bot) (value : Str) :
    b.token005 ("CHANTYPES=".toList ++ value) = { b with isup := { b.isup with chantypes := some (some value) } } := by
  have e : "CHANTYPES=".toList ++ value = "CHANTYPES".toList ++ '=' :: value := by simp
  unfold Bot.token005
  rw [e, split1_append _ (by decide)]
  have : asciiLower "CHANTYPES".toList = "chantypes".toList := by decide
  dsimp only
  rw [if_pos this]

theorem token005_channellen (b : Bot) (value : Str) (n : Int) (hv : pyInt value = some n) :
    b.token005 ("CHANNELLEN=".toList ++ value) = { b with isup := { b.isup with channellen := some (some n) } } := by
  have e : "CHANNELLEN=".toList ++ value = "CHANNELLEN".toList ++ '=' :: value := by simp
  unfold Bot.token005
  rw [e, split1_append _ (by decide)]
  have h1 : asciiLower "CHANNELLEN".toList = "channellen".toList := by decide
  have h2 : ¬ asciiLower "CHANNELLEN".toList = "chantypes".toList := by decide
  dsimp only
  rw [if_neg h2, if_pos h1, hv]

theorem isupOK_announced {s : Srv} (hw : SrvWF s) {n : Int} (hn : 50 ≤ n) :
    IsupOK { chantypes := some (some s.cfg.chantypes), channellen := some (some n) } := by
  have hcfg := cfgOK_of_valid hw.cfg
  exact ⟨Or.inr ⟨_, rfl, hcfg.hash, hcfg.amp⟩, Or.inr ⟨n, rfl, hn⟩⟩

/-- the server's RPL_ISUPPORT tells the bot CHANTYPES and CHANNELLEN (the other tokens are not read) -/
theorem recv_isupportEv {cfg : Cfg} {b : Bot} (hv : cfg.valid = true) (hbn : NickOK b.nick) (hi : IsupOK b.isup) :
    ∃ n, pyInt cfg.channellen = some n ∧ 50 ≤ n ∧
      b.recv (isupportEv cfg b.nick) = { b with isup := { chantypes := some (some cfg.chantypes), channellen := some (some n) } } := by
  have hcfg := cfgOK_of_valid hv
  obtain ⟨n, hpn, hn50⟩ := hcfg.len
  refine ⟨n, hpn, hn50, ?_⟩
  have hsv := serverOK_of_cfg hv
  have hne : cfg.server ≠ b.nick := server_ne_nick hsv hbn
  unfold isupportEv
  simp only [recv_emit]
  have hfeed := feed_server (b := b) hi hsv hne "005".toList
    ["CHANTYPES=".toList ++ cfg.chantypes, "CHANNELLEN=".toList ++ cfg.channellen,
     "PREFIX=(ohv)@%+".toList, "CHANMODES=beIq,k,l,imnpstrCR".toList, "CASEMAPPING=rfc1459".toList, "NICKLEN=30".toList,
     "are supported by this server".toList] (by simp only [Bot.ircCmd, cmdOf_005])
  rw [hfeed]
  simp only [Bot.stateCmd, cmdOf_005, Bot.do005, List.drop_succ_cons, List.drop_zero, List.dropLast, List.foldl_cons, List.foldl_nil]
  rw [token005_chantypes, token005_channellen _ _ n hpn]
  have t1 : ∀ b' : Bot, b'.token005 "PREFIX=(ohv)@%+".toList = b' := fun b' =>
    token005_other b' "PREFIX".toList "(ohv)@%+".toList (by decide) (by decide) (by decide)
  have t2 : ∀ b' : Bot, b'.token005 "CHANMODES=beIq,k,l,imnpstrCR".toList = b' := fun b' =>
    token005_other b' "CHANMODES".toList "beIq,k,l,imnpstrCR".toList (by decide) (by decide) (by decide)
  have t3 : ∀ b' : Bot, b'.token005 "CASEMAPPING=rfc1459".toList = b' := fun b' =>
    token005_other b' "CASEMAPPING".toList "rfc1459".toList (by decide) (by decide) (by decide)
  have t4 : ∀ b' : Bot, b'.token005 "NICKLEN=30".toList = b' := fun b' =>
    token005_other b' "NICKLEN".toList "30".toList (by decide) (by decide) (by decide)
  rw [t1, t2, t3, t4]

theorem recv_isupport {s : Srv} {b : Bot} (hw : SrvWF s) (hn : b.nick = s.bot) (hi : IsupOK b.isup) :
    ∃ n, pyInt s.cfg.channellen = some n ∧ 50 ≤ n ∧
      b.recv s.isupport = { b with isup := { chantypes := some (some s.cfg.chantypes), channellen := some (some n) } } := by
  have hbn : NickOK b.nick := by rw [hn]; exact hw.botNickOK
  obtain ⟨n, h1, h2, h3⟩ := recv_isupportEv hw.cfg hbn hi
  exact ⟨n, h1, h2, by unfold Srv.isupport; rw [← hn]; exact h3⟩

theorem coupled_isup {s : Srv} {b : Bot} (hc : Coupled s b) (i : Isup) (hi : IsupOK i) : Coupled s { b with isup := i } :=
  ⟨hc.nick, hc.chans, hc.hosts, hc.pfx, hc.cfgNick, hc.cfgIdent, hi⟩

theorem coupled_isupport {s : Srv} {b : Bot} (hw : SrvWF s) (hc : Coupled s b) :
    Coupled (s.step .isupport).1 (b.recvAll (s.step .isupport).2) := by
  simp only [Srv.step, recvAll_cons, recvAll_nil]
  obtain ⟨n, _, hn50, hr⟩ := recv_isupport hw hc.nick hc.isup
  rw [hr]
  exact coupled_isup hc _ (isupOK_announced hw hn50)

/-! ### reconnect -/

theorem coupled_reconnect {s : Srv} {b : Bot} (hw : SrvWF s) (hc : Coupled s b) :
    Coupled (s.step .reconnect).1 (b.recvAll (s.step .reconnect).2) := by
  simp only [Srv.step]
  split
  · exact hc
  · rename_i u hu
    split
    · exact hc
    · rename_i hcond
      simp only [Bool.and_eq_true, bne_iff_ne, ne_eq, not_and, Bool.not_eq_true, Option.isSome_eq_false_iff,
        Option.isNone_iff_eq_none] at hcond
      rw [Srv.user_eq] at hcond
      have hsv := serverOK_of_cfg hw.cfg
      have hcfg := cfgOK_of_valid hw.cfg
      have hbn : NickOK s.cfg.botNick := nickOK_of_valid hcfg.nick
      -- the bot after the reset and the welcome
      have hreset : b.reset = Bot.init s.cfg.botNick s.cfg.botIdent := by
        unfold Bot.reset; rw [hc.cfgNick, hc.cfgIdent]
      have hne : s.cfg.server ≠ (Bot.init s.cfg.botNick s.cfg.botIdent).nick := server_ne_nick hsv hbn
      have hi0 : IsupOK (Bot.init s.cfg.botNick s.cfg.botIdent).isup := ⟨Or.inl rfl, Or.inl rfl⟩
      have hfeed := feed_server (b := Bot.init s.cfg.botNick s.cfg.botIdent) hi0 hsv hne "001".toList ["Welcome".toList]
        (by simp only [Bot.ircCmd, cmdOf_001])
      have hrr : b.recv Ev.reset = b.reset := rfl
      simp only [recvAll_cons, recvAll_nil, hrr, hreset]
      have e : (Bot.init s.cfg.botNick s.cfg.botIdent).nick = s.cfg.botNick := rfl
      rw [e] at hfeed
      have e1 : ((Bot.init s.cfg.botNick s.cfg.botIdent).recv (emit s.cfg.server "001" [s.cfg.botNick, "Welcome".toList])) =
          Bot.init s.cfg.botNick s.cfg.botIdent := by
        simp only [recv_emit]
        rw [hfeed]
        simp only [Bot.stateCmd, cmdOf_001]
      rw [e1]
      obtain ⟨n5, _, hn50, hr⟩ := recv_isupportEv (cfg := s.cfg) (b := Bot.init s.cfg.botNick s.cfg.botIdent) hw.cfg hbn hi0
      rw [e] at hr
      rw [hr]
      refine ⟨rfl, ?_, ?_, ?_, rfl, rfl, isupOK_announced hw hn50⟩
      · intro kc
        show ChanRel _ kc (aget (s.dropEverywhere s.botKey).chans kc) none
        cases hsc' : aget (s.dropEverywhere s.botKey).chans kc with
        | none => trivial
        | some sc' =>
          obtain ⟨sc, hsc, rfl⟩ := dropEverywhere_chan hw.chansNodup hsc'
          simp only [ChanRel]
          show (sc.remove s.botKey).has (lower s.cfg.botNick) = false
          by_cases hsame : lower s.cfg.botNick = s.botKey
          · rw [hsame]; exact has_remove_self sc s.botKey
          · rw [← Bool.not_eq_true]; intro hcon
            have a := has_remove_of hcon
            rw [not_has_of_free hw hsc (hcond hsame)] at a; cases a
      · intro x ux _ hv
        have hv' : x ∈ ([] : List Str) := hv
        cases hv'
      · intro kc sc' hsc' hb'
        exfalso
        have hsc'' : aget (s.dropEverywhere s.botKey).chans kc = some sc' := hsc'
        obtain ⟨sc, hsc, rfl⟩ := dropEverywhere_chan hw.chansNodup hsc''
        have h1' : (sc.remove s.botKey).has (lower s.cfg.botNick) = true := hb'
        by_cases hsame : lower s.cfg.botNick = s.botKey
        · rw [hsame, has_remove_self] at h1'; cases h1'
        · have a := has_remove_of h1'
          rw [not_has_of_free hw hsc (hcond hsame)] at a; cases a

end C10
