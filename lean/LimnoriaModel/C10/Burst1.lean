/-
C10 — the replies a joining client gets, part 1: frames, and the effect of one NAMES item.
-/
import LimnoriaModel.C10.Sim8
namespace C10
open Py

/-- what a batch of server replies about channel `key` leaves alone -/
structure Frame (s : Srv) (key : Str) (b b' : Bot) : Prop where
  nick : b'.nick = b.nick
  pfx : b'.pfx = b.pfx
  cfgNick : b'.cfgNick = b.cfgNick
  cfgIdent : b'.cfgIdent = b.cfgIdent
  isup : b'.isup = b.isup
  others : ∀ k, k ≠ key → aget b'.channels k = aget b.channels k
  n2h : ∀ x, aget b'.n2h x = aget b.n2h x ∨ ∃ u, aget s.users x = some u ∧ aget b'.n2h x = some u.mask

theorem Frame.refl (s : Srv) (key : Str) (b : Bot) : Frame s key b b :=
  ⟨rfl, rfl, rfl, rfl, rfl, fun _ _ => rfl, fun _ => Or.inl rfl⟩

theorem Frame.trans {s : Srv} {key : Str} {b b' b'' : Bot} (h1 : Frame s key b b') (h2 : Frame s key b' b'') :
    Frame s key b b'' where
  nick := h2.nick.trans h1.nick
  pfx := h2.pfx.trans h1.pfx
  cfgNick := h2.cfgNick.trans h1.cfgNick
  cfgIdent := h2.cfgIdent.trans h1.cfgIdent
  isup := h2.isup.trans h1.isup
  others := fun k hk => (h2.others k hk).trans (h1.others k hk)
  n2h := fun x => by
    rcases h2.n2h x with e | ⟨u, hu, e⟩
    · rw [e]; exact h1.n2h x
    · exact Or.inr ⟨u, hu, e⟩

/-- the view-relevant effect of one NAMES item -/
def addMember (c : Chan) (p : Str × Flags) : Chan :=
  { c with users := sadd c.users p.1,
           ops := if p.2.o then sadd c.ops p.1 else c.ops,
           halfops := if p.2.h then sadd c.halfops p.1 else c.halfops,
           voices := if p.2.v then sadd c.voices p.1 else c.voices }

theorem foldl_addMember_users (ps : List (Str × Flags)) (c : Chan) (x : Str) :
    x ∈ (ps.foldl addMember c).users ↔ x ∈ c.users ∨ ∃ f, (x, f) ∈ ps := by
  induction ps generalizing c with
  | nil => simp
  | cons p ps ih =>
    rw [List.foldl_cons, ih]
    simp only [addMember, mem_sadd, List.mem_cons]
    constructor
    · rintro ((rfl | h) | ⟨f, hf⟩)
      · exact Or.inr ⟨p.2, Or.inl rfl⟩
      · exact Or.inl h
      · exact Or.inr ⟨f, Or.inr hf⟩
    · rintro (h | ⟨f, rfl | hf⟩)
      · exact Or.inl (Or.inr h)
      · exact Or.inl (Or.inl rfl)
      · exact Or.inr ⟨f, hf⟩

theorem foldl_addMember_ops (ps : List (Str × Flags)) (c : Chan) (x : Str) :
    x ∈ (ps.foldl addMember c).ops ↔ x ∈ c.ops ∨ ∃ f, (x, f) ∈ ps ∧ f.o = true := by
  induction ps generalizing c with
  | nil => simp
  | cons p ps ih =>
    rw [List.foldl_cons, ih]
    simp only [addMember, List.mem_cons]
    constructor
    · rintro (h | ⟨f, hf, ho⟩)
      · by_cases hp : p.2.o = true
        · simp only [hp, ↓reduceIte, mem_sadd] at h
          rcases h with rfl | h
          · exact Or.inr ⟨p.2, Or.inl rfl, hp⟩
          · exact Or.inl h
        · simp only [hp, Bool.false_eq_true, ↓reduceIte] at h; exact Or.inl h
      · exact Or.inr ⟨f, Or.inr hf, ho⟩
    · rintro (h | ⟨f, rfl | hf, ho⟩)
      · left; by_cases hp : p.2.o = true
        · simp only [hp, ↓reduceIte, mem_sadd]; exact Or.inr h
        · simp only [hp, Bool.false_eq_true, ↓reduceIte]; exact h
      · left; simp [ho]
      · exact Or.inr ⟨f, hf, ho⟩

theorem foldl_addMember_halfops (ps : List (Str × Flags)) (c : Chan) (x : Str) :
    x ∈ (ps.foldl addMember c).halfops ↔ x ∈ c.halfops ∨ ∃ f, (x, f) ∈ ps ∧ f.h = true := by
  induction ps generalizing c with
  | nil => simp
  | cons p ps ih =>
    rw [List.foldl_cons, ih]
    simp only [addMember, List.mem_cons]
    constructor
    · rintro (h | ⟨f, hf, ho⟩)
      · by_cases hp : p.2.h = true
        · simp only [hp, ↓reduceIte, mem_sadd] at h
          rcases h with rfl | h
          · exact Or.inr ⟨p.2, Or.inl rfl, hp⟩
          · exact Or.inl h
        · simp only [hp, Bool.false_eq_true, ↓reduceIte] at h; exact Or.inl h
      · exact Or.inr ⟨f, Or.inr hf, ho⟩
    · rintro (h | ⟨f, rfl | hf, ho⟩)
      · left; by_cases hp : p.2.h = true
        · simp only [hp, ↓reduceIte, mem_sadd]; exact Or.inr h
        · simp only [hp, Bool.false_eq_true, ↓reduceIte]; exact h
      · left; simp [ho]
      · exact Or.inr ⟨f, hf, ho⟩

theorem foldl_addMember_voices (ps : List (Str × Flags)) (c : Chan) (x : Str) :
    x ∈ (ps.foldl addMember c).voices ↔ x ∈ c.voices ∨ ∃ f, (x, f) ∈ ps ∧ f.v = true := by
  induction ps generalizing c with
  | nil => simp
  | cons p ps ih =>
    rw [List.foldl_cons, ih]
    simp only [addMember, List.mem_cons]
    constructor
    · rintro (h | ⟨f, hf, ho⟩)
      · by_cases hp : p.2.v = true
        · simp only [hp, ↓reduceIte, mem_sadd] at h
          rcases h with rfl | h
          · exact Or.inr ⟨p.2, Or.inl rfl, hp⟩
          · exact Or.inl h
        · simp only [hp, Bool.false_eq_true, ↓reduceIte] at h; exact Or.inl h
      · exact Or.inr ⟨f, Or.inr hf, ho⟩
    · rintro (h | ⟨f, rfl | hf, ho⟩)
      · left; by_cases hp : p.2.v = true
        · simp only [hp, ↓reduceIte, mem_sadd]; exact Or.inr h
        · simp only [hp, Bool.false_eq_true, ↓reduceIte]; exact h
      · left; simp [ho]
      · exact Or.inr ⟨f, hf, ho⟩

theorem foldl_addMember_rest (ps : List (Str × Flags)) (c : Chan) :
    (ps.foldl addMember c).topic = c.topic ∧ (ps.foldl addMember c).modes = c.modes ∧
    (ps.foldl addMember c).bans = c.bans ∧ (ps.foldl addMember c).created = c.created := by
  induction ps generalizing c with
  | nil => exact ⟨rfl, rfl, rfl, rfl⟩
  | cons p ps ih => rw [List.foldl_cons]; exact ih _

/-! ### pieces of a list, concatenated, give the list -/

theorem chunks_flatten {α : Type} (n : Nat) (l : List α) : (chunks n l).flatten = l := by
  fun_induction chunks n l with
  | case1 => rfl
  | case2 x xs ih =>
    simp only [List.flatten_cons, List.cons_append, List.cons.injEq, true_and, ih]
    exact List.take_append_drop _ _

theorem chunks_nonempty {α : Type} (n : Nat) (l : List α) : ∀ c ∈ chunks n l, c ≠ [] := by
  fun_induction chunks n l with
  | case1 => intro c hc; simp at hc
  | case2 x xs ih =>
    intro c hc
    simp only [List.mem_cons] at hc
    rcases hc with rfl | hc
    · simp
    · exact ih c hc

theorem chunks_map {α β : Type} (f : α → β) (n : Nat) (l : List α) : chunks n (l.map f) = (chunks n l).map (List.map f) := by
  fun_induction chunks n l with
  | case1 => simp [chunks]
  | case2 x xs ih =>
    simp only [List.map_cons]
    rw [chunks]
    simp only [List.cons.injEq]
    refine ⟨by simp [List.map_take], ?_⟩
    rw [← List.map_drop]
    exact ih

end C10
