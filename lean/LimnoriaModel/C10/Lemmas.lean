/-
C10 — helper lemmas (umbrella).  The development is split over
  CollLemmas, StrLemmas, FeedLemmas   collections, strings / hostmasks, decomposition of `Bot.feed`
  Inv, WF                             the invariants; the server keeps its own invariant
  Sim1 … Sim8                         simulation of connect, TOPIC, CHGHOST, KICK, PART, JOIN (others), QUIT,
                                      NICK, reconnect, MODE
  Burst1 … Burst7                     NAMES / WHO / 324 / 329 / 367 replies, the bot's own JOIN, `run_inv`
  BatchSim                            everything the server emits is an ordinary message; batches; `runB_inv`
  Complete                            every query of the bot is answered or still queued; `run_complete`
  FollowSim                           followIdentificationThroughNickChanges loses no NICK; `runF_eq_runB`
-/
import LimnoriaModel.C10.Burst7
import LimnoriaModel.C10.BatchSim
import LimnoriaModel.C10.Complete
import LimnoriaModel.C10.FollowSim
