/-
C10 — simulation, part 2: messages from a conformant source; TOPIC, connect, CHGHOST.
-/
import LimnoriaModel.C10.Sim1
namespace C10
open Py

@[simp] theorem recvAll_nil (b : Bot) : b.recvAll [] = b := rfl
@[simp] theorem recvAll_cons (b : Bot) (e : Ev) (es : List Ev) : b.recvAll (e :: es) = (b.recv e).recvAll es := rfl
theorem recvAll_append (b : Bot) (xs ys : List Ev) : b.recvAll (xs ++ ys) = (b.recvAll xs).recvAll ys := by
  simp [Bot.recvAll, List.foldl_append]
@[simp] theorem recv_msg (b : Bot) (m : Msg) : b.recv (.msg m) = (b.feed m).1 := rfl
@[simp] theorem recv_emit (b : Bot) (p : Str) (c : String) (a : List Str) :
    b.recv (emit p c a) = (b.feed ⟨p, c.toList, a⟩).1 := rfl

theorem cmdOf_TOPIC : cmdOf "TOPIC".toList = .topic := by decide
theorem cmdOf_JOIN : cmdOf "JOIN".toList = .join := by decide
theorem cmdOf_PART : cmdOf "PART".toList = .part := by decide
theorem cmdOf_KICK : cmdOf "KICK".toList = .kick := by decide
theorem cmdOf_QUIT : cmdOf "QUIT".toList = .quit := by decide
theorem cmdOf_NICK : cmdOf "NICK".toList = .nick := by decide
theorem cmdOf_MODE : cmdOf "MODE".toList = .mode := by decide
theorem cmdOf_CHGHOST : cmdOf "CHGHOST".toList = .chghost := by decide
theorem cmdOf_332 : cmdOf "332".toList = .n332 := by decide
theorem cmdOf_333 : cmdOf "333".toList = .other := by decide
theorem cmdOf_353 : cmdOf "353".toList = .n353 := by decide
theorem cmdOf_366 : cmdOf "366".toList = .other := by decide
theorem cmdOf_352 : cmdOf "352".toList = .n352 := by decide
theorem cmdOf_354 : cmdOf "354".toList = .n354 := by decide
theorem cmdOf_315 : cmdOf "315".toList = .n315 := by decide
theorem cmdOf_324 : cmdOf "324".toList = .n324 := by decide
theorem cmdOf_329 : cmdOf "329".toList = .n329 := by decide
theorem cmdOf_367 : cmdOf "367".toList = .n367 := by decide
theorem cmdOf_368 : cmdOf "368".toList = .other := by decide
theorem cmdOf_001 : cmdOf "001".toList = .other := by decide

theorem source_cases {s : Srv} {src pfx : Str} (h : s.source src = some pfx) :
    (pfx = s.cfg.server) ∨ (∃ u, aget s.users (lower src) = some u ∧ pfx = u.mask) := by
  unfold Srv.source at h
  split at h
  · cases h; exact Or.inl rfl
  · rw [Srv.user_eq] at h
    cases hu : aget s.users (lower src) with
    | none => simp [hu] at h
    | some u => simp [hu] at h; exact Or.inr ⟨u, rfl, h.symm⟩

theorem SrvWF.botNickOK {s : Srv} (h : SrvWF s) : NickOK s.bot := by
  obtain ⟨u, hu, hn⟩ := h.bot
  rw [← hn]; exact (h.uok hu).nick

/-- a message of a command without `Irc`-level handler from a known user -/
theorem feed_from_user {s : Srv} {b : Bot} (hw : SrvWF s) (hc : Coupled s b) {k : Str} {u : SUser}
    (hu : aget s.users k = some u) (cmd : Str) (args : List Str)
    (hns : cmd ∉ Gen.nickSetters) (hnn : cmd ≠ "NICK".toList)
    (hirc : ∀ b0 : Bot, b0.ircCmd ⟨u.mask, cmd, args⟩ = (b0, false)) :
    Coupled s (b.seen u) ∧ (b.feed ⟨u.mask, cmd, args⟩).1 = ((b.seen u).stateCmd ⟨u.mask, cmd, args⟩).1 := by
  have hbn : NickOK b.nick := by rw [hc.nick]; exact hw.botNickOK
  have huo := hw.uok hu
  have hne : u.mask ≠ b.nick := mask_ne_nick hbn
  refine ⟨coupled_seen hc hu (hw.userOK hu).1 (fun _ => trivial), ?_⟩
  rw [feed_plain b _ (tagOK_of_ok hc.isup _) hne hns (by rw [hirc])]
  rw [hirc, pfxUpd_user huo, prelude_user huo _ _ hnn]
  rfl

/-- a message of a command without `Irc`-level handler, from the server or from a known user:
the bot runs the `IrcState` handler on a state that is still coupled -/
theorem feed_from_source {s : Srv} {b : Bot} (hw : SrvWF s) (hc : Coupled s b) {src pfx : Str}
    (hs : s.source src = some pfx) (cmd : Str) (args : List Str)
    (hns : cmd ∉ Gen.nickSetters) (hnn : cmd ≠ "NICK".toList)
    (hirc : ∀ b0 : Bot, b0.ircCmd ⟨pfx, cmd, args⟩ = (b0, false)) :
    ∃ b0, Coupled s b0 ∧ b0.channels = b.channels ∧ b0.nick = b.nick ∧
      (b.feed ⟨pfx, cmd, args⟩).1 = (b0.stateCmd ⟨pfx, cmd, args⟩).1 := by
  have hbn : NickOK b.nick := by rw [hc.nick]; exact hw.botNickOK
  rcases source_cases hs with rfl | ⟨u, hu, rfl⟩
  · have hsv := serverOK_of_cfg hw.cfg
    have hne : s.cfg.server ≠ b.nick := server_ne_nick hsv hbn
    refine ⟨b, hc, rfl, rfl, ?_⟩
    rw [feed_plain b _ (tagOK_of_ok hc.isup _) hne hns (by rw [hirc])]
    rw [hirc, pfxUpd_server hsv.noBang hne, prelude_server hsv.noBang]
  · have huo := hw.uok hu
    have hne : u.mask ≠ b.nick := mask_ne_nick hbn
    refine ⟨b.seen u, coupled_seen hc hu (hw.userOK hu).1 (fun _ => trivial), rfl, rfl, ?_⟩
    rw [feed_plain b _ (tagOK_of_ok hc.isup _) hne hns (by rw [hirc])]
    rw [hirc, pfxUpd_user huo, prelude_user huo _ _ hnn]
    rfl

/-! ### TOPIC -/

theorem coupled_topic {s : Srv} {b : Bot} (hw : SrvWF s) (hc : Coupled s b) (src c t : Str) :
    Coupled (s.step (.topic src c t)).1 (b.recvAll (s.step (.topic src c t)).2) := by
  simp only [Srv.step]
  split
  · rename_i pfx sc hsrc hch
    split
    · exact hc
    · rw [Srv.chan_eq] at hch
      have hcw := hw.chans _ _ hch
      have hnd' : (akeys (aset s.chans (lower c) { sc with topic := t })).Nodup := nodup_akeys_aset hw.chansNodup _ _
      have hrel := hc.chans (lower c)
      rw [hch] at hrel
      by_cases hb : s.botIn sc = true
      · -- the bot sees the TOPIC
        simp only [hb, ↓reduceIte, recvAll_cons, recv_emit, recvAll_nil]
        obtain ⟨b0, hc0, hch0, hn0, hfeed⟩ := feed_from_source hw hc hsrc "TOPIC".toList [sc.name, t]
          (setters_out_ok _ (by decide)) (by decide) (fun b0 => by simp only [Bot.ircCmd, cmdOf_TOPIC])
        rw [hfeed]
        have hrel0 := hc0.chans (lower c)
        rw [hch] at hrel0
        cases hbc : aget b0.channels (lower c) with
        | none => rw [hbc] at hrel0; simp only [ChanRel] at hrel0; rw [Srv.botIn] at hb; rw [hb] at hrel0; cases hrel0
        | some ch =>
          rw [hbc] at hrel0
          have hchan : b0.chan sc.name = some ch := by rw [Bot.chan, hcw.key]; exact hbc
          simp only [Bot.stateCmd, cmdOf_TOPIC, Bot.doTopic, hchan]
          refine coupled_update' hc0 (lower c) rfl rfl rfl rfl rfl rfl ?_ ?_ ?_ rfl rfl rfl rfl rfl rfl ?_ ?_
          · intro k hk; exact aget_aset_ne _ _ (Ne.symm hk)
          · intro k hk; simp only [Bot.setChan, hcw.key]; exact aget_aset_ne _ _ (Ne.symm hk)
          · simp only [Bot.setChan, hcw.key, aget_aset_self, ChanRel]
            exact ⟨hrel0.1, { hrel0.2 with topic := rfl }⟩
          · intro sc0 sc' h0 h' hb'
            rw [hch] at h0; cases h0
            rw [aget_aset_self] at h'; cases h'
            exact hb'
          · intro sc' h0; rw [hch] at h0; cases h0
      · -- not on the channel: nothing is sent
        simp only [hb, Bool.false_eq_true, ↓reduceIte, recvAll_nil]
        refine coupled_update' hc (lower c) rfl rfl rfl rfl rfl rfl ?_ (fun _ _ => rfl) ?_ rfl rfl rfl rfl rfl rfl ?_ ?_
        · intro k hk; exact aget_aset_ne _ _ (Ne.symm hk)
        · simp only [aget_aset_self]
          have hb' : sc.has s.botKey = false := by simpa [Srv.botIn] using hb
          cases hbc : aget b.channels (lower c) with
          | none => simp only [ChanRel]; exact hb'
          | some ch => rw [hbc] at hrel; simp only [ChanRel] at hrel; rw [hb'] at hrel; exact absurd hrel.1 (by simp)
        · intro sc0 sc' h0 h' hb'
          rw [hch] at h0; cases h0
          rw [aget_aset_self] at h'; cases h'
          exact hb'
        · intro sc' h0; rw [hch] at h0; cases h0
  · exact hc

/-! ### connect, CHGHOST: only the users table (and what the bot has been told) changes -/

theorem coupled_users_update {s : Srv} {b b' : Bot} (hc : Coupled s b) (k : Str) (u' : SUser) (told' : List Str)
    (hnick : b'.nick = b.nick) (hch : b'.channels = b.channels)
    (hcn : b'.cfgNick = b.cfgNick) (hci : b'.cfgIdent = b.cfgIdent) (hsup : b'.isup = b.isup)
    (hn2h : ∀ k', k' ≠ k → aget b'.n2h k' = aget b.n2h k')
    (hsub : ∀ x, x ∈ told' → x ≠ k → x ∈ s.told)
    (hk : k ∈ told' → aget b'.n2h k = some u'.mask)
    (hpfx : k ≠ s.botKey → b'.pfx = b.pfx)
    (hpfx' : k = s.botKey → ∀ kc sc, aget s.chans kc = some sc → sc.has s.botKey = true → b'.pfx = u'.mask) :
    Coupled { s with users := aset s.users k u', told := told' } b' := by
  refine ⟨by rw [hnick]; exact hc.nick, ?_, ?_, ?_, by rw [hcn]; exact hc.cfgNick, by rw [hci]; exact hc.cfgIdent,
    by rw [hsup]; exact hc.isup⟩
  · intro kc; rw [hch]; exact hc.chans kc
  · intro k' u hu hv
    have hv' : k' ∈ told' := hv
    have hu' : aget (aset s.users k u') k' = some u := hu
    rw [aget_aset] at hu'
    by_cases e : k = k'
    · subst e
      simp only [↓reduceIte, Option.some.injEq] at hu'
      subst hu'; exact hk hv'
    · simp only [e, ↓reduceIte] at hu'
      rw [hn2h k' (Ne.symm e)]
      exact hc.hosts k' u hu' (hsub k' hv' (Ne.symm e))
  · intro kc sc hsc hb
    have hsc' : aget s.chans kc = some sc := hsc
    have hb' : sc.has s.botKey = true := hb
    show ∃ u, aget (aset s.users k u') s.botKey = some u ∧ b'.pfx = u.mask
    rw [aget_aset]
    by_cases e : k = s.botKey
    · simp only [e, ↓reduceIte]
      exact ⟨u', rfl, hpfx' e kc sc hsc' hb'⟩
    · simp only [e, ↓reduceIte]
      rw [hpfx e]
      exact hc.pfx kc sc hsc' hb'

theorem coupled_connect {s : Srv} {b : Bot} (hw : SrvWF s) (hc : Coupled s b) (n i ho : Str) :
    Coupled (s.step (.connect n i ho)).1 (b.recvAll (s.step (.connect n i ho)).2) := by
  simp only [Srv.step]
  split
  · rename_i hcond
    simp only [Bool.and_eq_true, Option.isNone_iff_eq_none] at hcond
    have hfree : aget s.users (lower n) = none := hcond.2
    simp only [recvAll_nil]
    refine coupled_users_update hc (lower n) ⟨n, i, ho⟩ _ rfl rfl rfl rfl rfl (fun _ _ => rfl) ?_ ?_ (fun _ => rfl) ?_
    · intro x hx _; exact (mem_sdel.mp hx).2
    · intro hx; exact absurd rfl (mem_sdel.mp hx).1
    · intro e
      obtain ⟨ub, hub, _⟩ := hw.bot
      rw [e] at hfree
      have hub' : aget s.users s.botKey = some ub := hub
      rw [hub'] at hfree; cases hfree
  · exact hc

/-- the user stored under the bot's key is the bot -/
theorem SrvWF.bot_user {s : Srv} (hw : SrvWF s) {u : SUser} (hu : aget s.users s.botKey = some u) : u.nick = s.bot := by
  obtain ⟨ub, hub, hn⟩ := hw.bot
  have hub' : aget s.users s.botKey = some ub := hub
  rw [hub'] at hu; cases hu; exact hn

theorem own_iff {s : Srv} {b : Bot} (hw : SrvWF s) (hc : Coupled s b) {k : Str} {u : SUser}
    (hu : aget s.users k = some u) : u.nick = b.nick ↔ k = s.botKey := by
  have hk := (hw.userOK hu).1
  constructor
  · intro e; rw [← hk, e, hc.nick]; rfl
  · intro e; subst e; rw [hc.nick]; exact hw.bot_user hu

theorem coupled_chghost {s : Srv} {b : Bot} (hw : SrvWF s) (hc : Coupled s b) (n i ho : Str) :
    Coupled (s.step (.chghost n i ho)).1 (b.recvAll (s.step (.chghost n i ho)).2) := by
  simp only [Srv.step]
  split
  · exact hc
  · rename_i u hu
    rw [Srv.user_eq] at hu
    split
    · exact hc
    · rename_i hcond
      simp only [Bool.or_eq_true, Bool.not_eq_eq_eq_not, Bool.not_true, not_or, Bool.not_eq_false] at hcond
      obtain ⟨hi, hh⟩ := hcond
      have huo := hw.uok hu
      have hio := wordOK_of_valid hi
      have hho := wordOK_of_valid hh
      have hkey := (hw.userOK hu).1
      have hbn : NickOK b.nick := by rw [hc.nick]; exact hw.botNickOK
      split
      · -- announced
        simp only [recvAll_cons, recv_emit, recvAll_nil]
        have hne : u.mask ≠ b.nick := mask_ne_nick hbn
        have hfeed : (b.feed ⟨u.mask, "CHGHOST".toList, [i, ho]⟩).1 =
            { b with pfx := if u.nick = b.nick then mkHostmask u.nick i ho else b.pfx,
                     n2h := aset (aset b.n2h (lower u.nick) u.mask) (lower u.nick) (mkHostmask u.nick i ho) } := by
          have hirc : ((b.pfxUpd ⟨u.mask, "CHGHOST".toList, [i, ho]⟩).ircCmd ⟨u.mask, "CHGHOST".toList, [i, ho]⟩) =
              ({ b with pfx := if u.nick = b.nick then mkHostmask u.nick i ho else b.pfx }, false) := by
            rw [pfxUpd_user huo]
            simp only [Bot.ircCmd, cmdOf_CHGHOST, Bot.ircChghost, msg_nick_user huo]
            by_cases e : u.nick = b.nick
            · have h1 : b.nick.isEmpty = false := by
                cases hb : b.nick with
                | nil => exact absurd hb hbn.ne
                | cons _ _ => rfl
              have h2 : i.isEmpty = false := by
                cases hb : i with
                | nil => exact absurd hb hio.ne
                | cons _ _ => rfl
              have h3 : ho.isEmpty = false := by
                cases hb : ho with
                | nil => exact absurd hb hho.ne
                | cons _ _ => rfl
              simp [e, h1, h2, h3]
            · simp [e]
          rw [feed_plain b _ (tagOK_of_ok hc.isup _) hne (setters_out_ok "CHGHOST".toList (by decide)) (by rw [hirc])]
          rw [hirc, prelude_user huo _ _ (by decide)]
          simp only [Bot.stateCmd, cmdOf_CHGHOST, Bot.doChghost, msg_nick_user huo]
        rw [hfeed]
        have hmask : mkHostmask u.nick i ho = ({ u with ident := i, host := ho } : SUser).mask := rfl
        refine coupled_users_update hc (lower n) { u with ident := i, host := ho } _ rfl rfl rfl rfl rfl ?_ ?_ ?_ ?_ ?_
        · intro k' hk'
          show aget (aset (aset b.n2h (lower u.nick) u.mask) (lower u.nick) (mkHostmask u.nick i ho)) k' = _
          rw [hkey, aget_aset_ne _ _ (Ne.symm hk'), aget_aset_ne _ _ (Ne.symm hk')]
        · intro x hx hne'
          rcases mem_sadd.mp hx with e | e
          · exact absurd e hne'
          · exact e
        · intro _
          show aget (aset (aset b.n2h (lower u.nick) u.mask) (lower u.nick) (mkHostmask u.nick i ho)) (lower n) = _
          rw [hkey, aget_aset_self, hmask]
        · intro hk
          show (if u.nick = b.nick then mkHostmask u.nick i ho else b.pfx) = b.pfx
          have : ¬ u.nick = b.nick := fun e => hk ((own_iff hw hc hu).mp e)
          simp [this]
        · intro hk _ _ _ _
          show (if u.nick = b.nick then mkHostmask u.nick i ho else b.pfx) = _
          have : u.nick = b.nick := (own_iff hw hc hu).mpr hk
          rw [if_pos this]; exact hmask
      · split
        · exact hc
        · -- nobody tells the bot
          rename_i hnb
          simp only [recvAll_nil]
          refine coupled_users_update hc (lower n) { u with ident := i, host := ho } _ rfl rfl rfl rfl rfl (fun _ _ => rfl) ?_ ?_ (fun _ => rfl) ?_
          · intro x hx _; exact (mem_sdel.mp hx).2
          · intro hx; exact absurd rfl (mem_sdel.mp hx).1
          · intro e; exact absurd e hnb

end C10
