/-
C10 — string lemmas: comma / blank separated lists survive `join` then `split`; hostmasks built
from valid parts are recognised and split back into their parts.
-/
import LimnoriaModel.C10.Bot
namespace C10
open Py

theorem split1_append {c : Char} {a : Str} (b : Str) (h : c ∉ a) : split1 c (a ++ c :: b) = some (a, b) := by
  induction a with
  | nil => simp [split1]
  | cons x a ih =>
    have hx : x ≠ c := fun e => h (by simp [e])
    have ha : c ∉ a := fun e => h (by simp [e])
    simp [split1, hx, ih ha]

theorem split1_none {c : Char} {a : Str} (h : c ∉ a) : split1 c a = none := by
  induction a with
  | nil => rfl
  | cons x a ih =>
    have hx : x ≠ c := fun e => h (by simp [e])
    have ha : c ∉ a := fun e => h (by simp [e])
    simp [split1, hx, ih ha]

theorem rsplit1_append {c : Char} (a : Str) {b : Str} (h : c ∉ b) : rsplit1 c (a ++ c :: b) = some (a, b) := by
  unfold rsplit1
  have : (a ++ c :: b).reverse = b.reverse ++ c :: a.reverse := by simp
  rw [this, split1_append _ (by simpa using h)]
  simp

/-! ### `split(c)` after `c.join` -/

theorem splitChar_single {c : Char} {a : Str} (h : c ∉ a) : splitChar c a = [a] := by
  induction a with
  | nil => rfl
  | cons x a ih =>
    have hx : x ≠ c := fun e => h (by simp [e])
    have ha : c ∉ a := fun e => h (by simp [e])
    simp [splitChar, hx, ih ha]

theorem splitChar_append {c : Char} {a : Str} (r : Str) (h : c ∉ a) :
    splitChar c (a ++ c :: r) = a :: splitChar c r := by
  induction a with
  | nil => simp [splitChar]
  | cons x a ih =>
    have hx : x ≠ c := fun e => h (by simp [e])
    have ha : c ∉ a := fun e => h (by simp [e])
    simp [splitChar, hx, ih ha]

theorem splitChar_joinChar {c : Char} {xs : List Str} (hne : xs ≠ []) (h : ∀ x ∈ xs, c ∉ x) :
    splitChar c (joinChar c xs) = xs := by
  induction xs with
  | nil => exact absurd rfl hne
  | cons p ps ih =>
    cases ps with
    | nil => simpa [joinChar] using splitChar_single (h p (by simp))
    | cons q r =>
      have hp : c ∉ p := h p (by simp)
      simp only [joinChar]
      rw [splitChar_append _ hp, ih (by simp) (fun x hx => h x (by simp [hx]))]

/-! ### `split()` after `' '.join` -/

def NoSp (s : Str) : Prop := ∀ c ∈ s, isSpace c = false

theorem splitWs_go_word {w : Str} (rest acc : Str) (h : NoSp w) :
    splitWs.go (w ++ rest) acc = splitWs.go rest (w.reverse ++ acc) := by
  induction w generalizing acc with
  | nil => simp
  | cons x w ih =>
    have hx : isSpace x = false := h x (by simp)
    have hw : NoSp w := fun c hc => h c (by simp [hc])
    simp only [List.cons_append, splitWs.go, hx, Bool.false_eq_true, ↓reduceIte]
    rw [ih _ hw]
    simp

theorem splitWs_joinChar {items : List Str} (hne : ∀ x ∈ items, x ≠ []) (hsp : ∀ x ∈ items, NoSp x) :
    splitWs (joinChar ' ' items) = items := by
  unfold splitWs
  induction items with
  | nil => simp [joinChar, splitWs.go]
  | cons p ps ih =>
    have hp : NoSp p := hsp p (by simp)
    have hpne : p ≠ [] := hne p (by simp)
    have hrev : p.reverse.isEmpty = false := by
      cases p with
      | nil => exact absurd rfl hpne
      | cons a t => simp
    cases ps with
    | nil =>
      have := splitWs_go_word [] [] hp
      simp only [List.append_nil] at this
      simp only [joinChar, this]
      simp [splitWs.go, hrev]
    | cons q r =>
      simp only [joinChar]
      rw [splitWs_go_word _ _ hp]
      have hsp' : isSpace ' ' = true := by decide
      simp only [List.append_nil, splitWs.go, hsp', ↓reduceIte, hrev, Bool.false_eq_true, List.reverse_reverse]
      rw [ih (fun x hx => hne x (by simp [hx])) (fun x hx => hsp x (by simp [hx]))]

theorem dropWhile_all {α : Type} {p : α → Bool} {l : List α} (h : ∀ x ∈ l, p x = true) : l.dropWhile p = [] := by
  induction l with
  | nil => rfl
  | cons a t ih =>
    rw [List.dropWhile_cons_of_pos (h a (by simp))]
    exact ih (fun x hx => h x (by simp [hx]))

theorem takeWhile_all {α : Type} {p : α → Bool} {l : List α} (h : ∀ x ∈ l, p x = true) : l.takeWhile p = l := by
  induction l with
  | nil => rfl
  | cons a t ih =>
    rw [List.takeWhile_cons_of_pos (h a (by simp))]
    rw [ih (fun x hx => h x (by simp [hx]))]

/-! ### hostmasks -/

theorem contains_iff {s : Str} {c : Char} : s.contains c = true ↔ c ∈ s := by
  simp

theorem endsWith_nl_false {s : Str} (hne : s ≠ []) (h : NoSp s) : endsWithChar '\n' s = false := by
  unfold endsWithChar
  cases hl : s.getLast? with
  | none => rfl
  | some x =>
    have hx : x ∈ s := List.mem_of_getLast? hl
    have : isSpace x = false := h x hx
    by_cases hxn : x = '\n'
    · subst hxn; exact absurd this (by decide)
    · simp [hxn]

theorem nosp_mask {n i h : Str} (hn : NoSp n) (hi : NoSp i) (hh : NoSp h) : NoSp (mkHostmask n i h) := by
  intro c hc
  simp only [mkHostmask, List.mem_append, List.mem_cons] at hc
  rcases hc with (hc | rfl | hc) | rfl | hc
  · exact hn c hc
  · decide
  · exact hi c hc
  · decide
  · exact hh c hc

theorem hmStruct_mask {n i h : Str} (hn : n ≠ []) (hbang : '!' ∉ n) (hi : i ≠ []) (hh : h ≠ []) :
    hmStruct (mkHostmask n i h) = true := by
  cases n with
  | nil => exact absurd rfl hn
  | cons n0 nt =>
    cases i with
    | nil => exact absurd rfl hi
    | cons i0 it =>
      have hnt : '!' ∉ nt := fun e => hbang (by simp [e])
      have e : mkHostmask (n0 :: nt) (i0 :: it) h = n0 :: (nt ++ '!' :: (i0 :: (it ++ '@' :: h))) := by
        simp [mkHostmask]
      rw [e]
      simp only [hmStruct, split1_append _ hnt]
      have : (it ++ '@' :: h).dropLast = it ++ '@' :: h.dropLast := by
        rw [List.dropLast_append_of_ne_nil (by simp)]
        cases h with
        | nil => exact absurd rfl hh
        | cons a t => simp [List.dropLast]
      rw [this]
      simp

theorem isUserHostmask_mask {n i h : Str} (hn : n ≠ []) (hbang : '!' ∉ n) (hi : i ≠ []) (hh : h ≠ [])
    (sn : NoSp n) (si : NoSp i) (sh : NoSp h) : isUserHostmask (mkHostmask n i h) = true := by
  have hs := nosp_mask sn si sh
  have hne : mkHostmask n i h ≠ [] := by
    cases n with
    | nil => exact absurd rfl hn
    | cons a t => simp [mkHostmask]
  unfold isUserHostmask
  simp only [endsWith_nl_false hne hs, Bool.false_eq_true, ↓reduceIte, hmStruct_mask hn hbang hi hh, Bool.and_true]
  rw [List.all_eq_true]
  intro c hc
  simp [hs c hc]

theorem splitHostmask_mask {n i h : Str} (hn : n ≠ []) (hbang : '!' ∉ n) (hi : i ≠ []) (hh : h ≠ [])
    (sn : NoSp n) (si : NoSp i) (sh : NoSp h) (hbi : '!' ∉ i) (hah : '@' ∉ h) :
    splitHostmask (mkHostmask n i h) = some (n, i, h) := by
  unfold splitHostmask
  rw [isUserHostmask_mask hn hbang hi hh sn si sh]
  have e : mkHostmask n i h = (n ++ '!' :: i) ++ '@' :: h := by simp [mkHostmask]
  simp only [↓reduceIte]
  rw [e, rsplit1_append _ hah]
  simp only [rsplit1_append _ hbi]

theorem hmStruct_noBang {w : Str} (h : '!' ∉ w) : hmStruct w = false := by
  cases w with
  | nil => rfl
  | cons a r =>
    have hr : '!' ∉ r := fun e => h (by simp [e])
    simp [hmStruct, split1_none hr]

theorem isUserHostmask_noBang {w : Str} (h : '!' ∉ w) : isUserHostmask w = false := by
  unfold isUserHostmask
  by_cases hl : endsWithChar '\n' w = true
  · have : '!' ∉ w.dropLast := fun e => h (List.dropLast_subset _ e)
    simp [hl, hmStruct_noBang this]
  · simp [hl, hmStruct_noBang h]

theorem splitHostmask_noBang {w : Str} (h : '!' ∉ w) : splitHostmask w = none := by
  unfold splitHostmask
  simp [isUserHostmask_noBang h]

end C10
