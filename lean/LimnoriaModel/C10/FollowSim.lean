/-
C10 — `followIdentificationThroughNickChanges`: the login-following branch of `Irc.doNick` never loses a NICK
the reference server sends, so the view of the bot with the switch on (whatever the user database holds) is the
view of the bot without it: `runF_eq_runB`.
-/
import LimnoriaModel.C10.BatchSim
import LimnoriaModel.C10.Follow
namespace C10
open Py

/-- not a NICK message -/
def Ev.nickFree : Ev → Prop
  | .msg m => cmdOf m.cmd ≠ .nick
  | .reset => True

theorem emit_nf (p : Str) (c : String) (a : List Str) (h : cmdOf c.toList ≠ .nick) : (emit p c a).nickFree := h

theorem namesReply_nf (s : Srv) (sc : SChan) : ∀ e ∈ s.namesReply sc, e.nickFree := by
  intro e he
  simp only [Srv.namesReply, List.mem_append, List.mem_map, List.mem_singleton] at he
  rcases he with ⟨_, _, rfl⟩ | rfl
  · exact emit_nf _ _ _ (by decide)
  · exact emit_nf _ _ _ (by decide)

theorem whoReply_nf (s : Srv) (sc : SChan) : ∀ e ∈ s.whoReply sc, e.nickFree := by
  intro e he
  simp only [Srv.whoReply, List.mem_append, List.mem_map, List.mem_singleton] at he
  rcases he with ⟨p, _, rfl⟩ | rfl
  · unfold Srv.whoLine
    split
    · exact emit_nf _ _ _ (by decide)
    · exact emit_nf _ _ _ (by decide)
  · exact emit_nf _ _ _ (by decide)

theorem banList_nf (s : Srv) (sc : SChan) : ∀ e ∈ s.banList sc, e.nickFree := by
  intro e he
  simp only [Srv.banList, List.mem_append, List.mem_map, List.mem_singleton] at he
  rcases he with ⟨_, _, rfl⟩ | rfl
  · exact emit_nf _ _ _ (by decide)
  · exact emit_nf _ _ _ (by decide)

theorem modeIs_nf (s : Srv) (sc : SChan) : (s.modeIs sc).nickFree := emit_nf _ _ _ (by decide)

theorem joinBurst_nf (s : Srv) (sc : SChan) : ∀ e ∈ s.joinBurst sc, e.nickFree := by
  intro e he
  simp only [Srv.joinBurst, List.mem_append] at he
  rcases he with he | he
  · split at he
    · cases he
    · simp only [List.mem_cons, List.not_mem_nil, or_false] at he
      rcases he with rfl | rfl
      · exact emit_nf _ _ _ (by decide)
      · exact emit_nf _ _ _ (by decide)
  · exact namesReply_nf s sc e he

theorem joinBot_nf (u : SUser) (cs : List Str) : ∀ (s : Srv), ∀ e ∈ (s.joinBot u cs).2, e.nickFree := by
  induction cs with
  | nil => intro s e he; cases he
  | cons c cs ih =>
    intro s e he
    unfold Srv.joinBot at he
    split at he
    · exact ih s e he
    · split at he
      · exact ih _ e he
      · simp only [List.mem_cons, List.mem_append] at he
        rcases he with (rfl | he) | he
        · exact emit_nf _ _ _ (by decide)
        · exact joinBurst_nf _ _ e he
        · exact ih _ e he

theorem replyWho_nf (s : Srv) (c : Str) : ∀ e ∈ (s.replyWho c).2, e.nickFree := by
  intro e he
  unfold Srv.replyWho at he
  split at he
  · exact whoReply_nf s _ e he
  · cases he

theorem replyMode_nf (s : Srv) (c : Str) : ∀ e ∈ (s.replyMode c).2, e.nickFree := by
  intro e he
  unfold Srv.replyMode at he
  split at he
  · simp only [List.mem_cons, List.not_mem_nil, or_false] at he
    rcases he with rfl | rfl
    · exact modeIs_nf s _
    · exact emit_nf _ _ _ (by decide)
  · cases he

theorem replyBans_nf (s : Srv) (c : Str) : ∀ e ∈ (s.replyBans c).2, e.nickFree := by
  intro e he
  unfold Srv.replyBans at he
  split at he
  · exact banList_nf s _ e he
  · cases he

/-- a list with at most one event, which is emitted with an ordinary command -/
theorem single_nf {cond : Bool} {p : Str} {c : String} {a : List Str} (h : cmdOf c.toList ≠ .nick) :
    ∀ e ∈ (if cond then [emit p c a] else ([] : List Ev)), e.nickFree := by
  intro e he
  split at he
  · simp only [List.mem_singleton] at he; subst he; exact emit_nf _ _ _ h
  · cases he

/-- only the `nick` action makes the server send a NICK -/
theorem step_nf (s : Srv) (a : Act) (ha : ∀ n n', a ≠ .nick n n') : ∀ e ∈ (s.step a).2, e.nickFree := by
  intro e he
  cases a with
  | reconnect =>
    simp only [Srv.step] at he
    split at he
    · cases he
    · split at he
      · cases he
      · simp only [List.mem_cons, List.not_mem_nil, or_false] at he
        rcases he with rfl | rfl | rfl
        · trivial
        · exact emit_nf _ _ _ (by decide)
        · exact emit_nf _ _ _ (by decide)
  | connect n i h =>
    simp only [Srv.step] at he
    split at he <;> cases he
  | join n cs =>
    simp only [Srv.step] at he
    split at he
    · cases he
    · split at he
      · exact joinBot_nf _ _ _ e he
      · split at he
        · cases he
        · simp only [List.mem_singleton] at he; subst he; exact emit_nf _ _ _ (by decide)
  | part n cs r =>
    simp only [Srv.step] at he
    split at he
    · cases he
    · split at he
      · cases he
      · split at he
        · cases he
        · simp only [List.mem_singleton] at he; subst he; exact emit_nf _ _ _ (by decide)
  | kick src c ts r =>
    simp only [Srv.step] at he
    split at he
    · split at he
      · cases he
      · split at he
        · cases he
        · exact single_nf (by decide) e he
    · cases he
  | quit n r =>
    simp only [Srv.step] at he
    split at he
    · cases he
    · split at he
      · cases he
      · exact single_nf (by decide) e he
  | nick n n' => exact absurd rfl (ha n n')
  | mode src c cs =>
    simp only [Srv.step] at he
    split at he
    · split at he
      · cases he
      · exact single_nf (by decide) e he
    · cases he
  | topic src c t =>
    simp only [Srv.step] at he
    split at he
    · split at he
      · cases he
      · exact single_nf (by decide) e he
    · cases he
  | chghost n i h =>
    simp only [Srv.step] at he
    split at he
    · cases he
    · split at he
      · cases he
      · split at he
        · simp only [List.mem_singleton] at he; subst he; exact emit_nf _ _ _ (by decide)
        · split at he <;> cases he
  | say n t x =>
    simp only [Srv.step] at he
    split at he
    · cases he
    · split at he
      · cases he
      · split at he
        · simp only [List.mem_singleton] at he; subst he; exact emit_nf _ _ _ (by decide)
        · cases he
  | isupport =>
    simp only [Srv.step, List.mem_singleton] at he; subst he; exact emit_nf _ _ _ (by decide)
  | names c =>
    simp only [Srv.step] at he
    split at he
    · split at he
      · exact namesReply_nf s _ e he
      · cases he
    · cases he
  | who c => exact replyWho_nf s c e he
  | modeis c => exact replyMode_nf s c e he
  | banlist c => exact replyBans_nf s c e he
  | serve =>
    simp only [Srv.step] at he
    split at he
    · cases he
    · exact replyWho_nf _ _ e he
    · exact replyMode_nf _ _ e he
    · exact replyBans_nf _ _ e he


/-! ### the bot with the switch -/

/-- for the somebody-else's-NICK branch to be entered the command has to be NICK -/
theorem followApplies_nick {fb : FBot} {m : Msg} (h : fb.followApplies m = true) : cmdOf m.cmd = .nick := by
  unfold FBot.followApplies at h
  simp only [Bool.and_eq_true, beq_iff_eq] at h
  exact h.1.2

/-- unless the branch raises, the bot proper (and the exception level) is that of the bot without the switch -/
theorem feed_transparent (fb : FBot) (tag : Option Str) (m : Msg)
    (h : fb.followApplies m = true → (followNick fb.db (fb.bb.bot.normMsg m)).2 = false) :
    (fb.feed tag m).1.bb = (fb.bb.feed tag m).1 ∧ (fb.feed tag m).2 = (fb.bb.feed tag m).2 ∧
      (fb.feed tag m).1.follow = fb.follow := by
  unfold FBot.feed
  by_cases ha : fb.followApplies m = true
  · simp only [ha, ↓reduceIte, h ha, Bool.false_eq_true, and_self]
  · simp only [ha, Bool.false_eq_true, ↓reduceIte, and_self]

/-- a message that is not a NICK never enters the branch -/
theorem feed_other (fb : FBot) (tag : Option Str) (m : Msg) (hm : cmdOf m.cmd ≠ .nick) :
    (fb.feed tag m).1.bb = (fb.bb.feed tag m).1 ∧ (fb.feed tag m).2 = (fb.bb.feed tag m).2 ∧
      (fb.feed tag m).1.follow = fb.follow :=
  feed_transparent fb tag m (fun h => absurd (followApplies_nick h) hm)

/-- the branch does not raise on a NICK as a server sends it: prefix the hostmask of a user, one non-empty argument;
whoever is or is not registered, identified once or several times -/
theorem followNick_user (db : List DbUser) {u : SUser} (hu : UserOK u) (cmd : Str) {n' : Str} (hn : n' ≠ []) (rest : List Str) :
    (followNick db ⟨u.mask, cmd, n' :: rest⟩).2 = false := by
  unfold followNick
  simp only [isu_mask hu, Bool.not_true, Bool.false_eq_true, ↓reduceIte, split_mask hu]
  have h1 : n'.isEmpty = false := by cases n' with | nil => exact absurd rfl hn | cons _ _ => rfl
  have h2 : u.ident.isEmpty = false := by
    cases hb : u.ident with | nil => exact absurd hb hu.ident.ne | cons _ _ => rfl
  have h3 : u.host.isEmpty = false := by
    cases hb : u.host with | nil => exact absurd hb hu.host.ne | cons _ _ => rfl
  split
  · simp only [h1, h2, h3, Bool.or_self, Bool.false_eq_true, ↓reduceIte]
  · rfl

/-- … so such a NICK reaches `IrcState.addMsg` exactly as without the switch -/
theorem feed_user_nick (fb : FBot) (tag : Option Str) {u : SUser} (hu : UserOK u) (hb : NickOK fb.bb.bot.nick)
    {n' : Str} (hn : n' ≠ []) :
    (fb.feed tag ⟨u.mask, "NICK".toList, [n']⟩).1.bb = (fb.bb.feed tag ⟨u.mask, "NICK".toList, [n']⟩).1 ∧
      (fb.feed tag ⟨u.mask, "NICK".toList, [n']⟩).2 = (fb.bb.feed tag ⟨u.mask, "NICK".toList, [n']⟩).2 ∧
      (fb.feed tag ⟨u.mask, "NICK".toList, [n']⟩).1.follow = fb.follow := by
  apply feed_transparent
  intro _
  have hne : u.mask ≠ fb.bb.bot.nick := mask_ne_nick hb
  have hnorm : fb.bb.bot.normMsg ⟨u.mask, "NICK".toList, [n']⟩ = ⟨u.mask, "NICK".toList, [n']⟩ := by
    unfold Bot.normMsg; simp only [hne, ↓reduceIte]
  rw [hnorm]
  exact followNick_user fb.db hu _ hn []

/-- the message an event carries -/
def BEv.nickFree : BEv → Prop
  | .plain e => e.nickFree
  | .tagged _ m => cmdOf m.cmd ≠ .nick

theorem tagWith_nf (ob : Option Str) {e : Ev} (h : e.nickFree) : (tagWith ob e).nickFree := by
  cases ob with
  | none => exact h
  | some ref =>
    cases e with
    | msg m => exact h
    | reset => exact h

theorem recv_nf (fb : FBot) {e : BEv} (h : e.nickFree) :
    (fb.recv e).bb = fb.bb.recv e ∧ (fb.recv e).follow = fb.follow := by
  cases e with
  | plain e =>
    cases e with
    | msg m => have := feed_other fb none m h; exact ⟨this.1, this.2.2⟩
    | reset => exact ⟨rfl, rfl⟩
  | tagged ref m => have := feed_other fb (some ref) m h; exact ⟨this.1, this.2.2⟩

theorem recvAll_nf (evs : List BEv) : ∀ fb : FBot, (∀ e ∈ evs, e.nickFree) →
    (fb.recvAll evs).bb = fb.bb.recvAll evs ∧ (fb.recvAll evs).follow = fb.follow := by
  induction evs with
  | nil => intro fb _; exact ⟨rfl, rfl⟩
  | cons e es ih =>
    intro fb h
    have h1 := recv_nf fb (h e (by simp))
    have h2 := ih (fb.recv e) (fun e' he' => h e' (by simp [he']))
    simp only [FBot.recvAll, BBot.recvAll, List.foldl_cons] at h2 ⊢
    rw [h1.1] at h2
    exact ⟨h2.1, h2.2.trans h1.2⟩

/-- what one (possibly batched) action makes the bot with the switch see: as without the switch -/
theorem bstep_follow {s : Srv} {fb : FBot} {ob : Option Str} (h : BInv s fb.bb ob) (a : BAct) :
    (fb.recvAll (bstep s ob a).2.2).bb = fb.bb.recvAll (bstep s ob a).2.2 ∧
      (fb.recvAll (bstep s ob a).2.2).follow = fb.follow := by
  cases a with
  | act a =>
    by_cases hn : ∃ n n', a = .nick n n'
    · obtain ⟨n, n', rfl⟩ := hn
      have hr : (Act.nick n n' = Act.reconnect) = False := by simp
      simp only [bstep, hr, ↓reduceIte, Srv.step]
      split
      · exact ⟨rfl, rfl⟩
      · rename_i u hu
        rw [Srv.user_eq] at hu
        split
        · exact ⟨rfl, rfl⟩
        · rename_i hcond
          simp only [Bool.or_eq_true, Bool.not_eq_eq_eq_not, Bool.not_true, not_or, Bool.not_eq_false] at hcond
          have hn' : n' ≠ [] := (nickOK_of_valid hcond.1.1).ne
          have huo := h.wf.uok hu
          have hb : NickOK fb.bb.bot.nick := by rw [h.coupled.nick]; exact h.wf.botNickOK
          by_cases hsee : (decide (lower n = s.botKey) || s.visible (lower n)) = true
          · simp only [hsee, ↓reduceIte, List.map_cons, List.map_nil, FBot.recvAll, BBot.recvAll, List.foldl_cons, List.foldl_nil]
            cases ob with
            | none =>
              have := feed_user_nick fb none huo hb hn'
              exact ⟨this.1, this.2.2⟩
            | some ref =>
              have := feed_user_nick fb (some ref) huo hb hn'
              exact ⟨this.1, this.2.2⟩
          · simp only [hsee, Bool.false_eq_true, ↓reduceIte, List.map_nil]
            exact ⟨rfl, rfl⟩
    · have hn2 : ∀ n n', a ≠ .nick n n' := fun n n' e => hn ⟨n, n', e⟩
      apply recvAll_nf
      intro e he
      simp only [bstep] at he
      split at he
      · simp only [List.mem_map] at he
        obtain ⟨e0, he0, rfl⟩ := he
        exact step_nf s a hn2 e0 he0
      · simp only [List.mem_map] at he
        obtain ⟨e0, he0, rfl⟩ := he
        exact tagWith_nf ob (step_nf s a hn2 e0 he0)
  | batchOpen ref ty args =>
    apply recvAll_nf
    intro e he
    simp only [bstep] at he
    split at he
    · simp only [List.mem_singleton] at he; subst he
      exact emit_nf _ _ _ (by decide)
    · cases he
  | batchClose =>
    apply recvAll_nf
    intro e he
    simp only [bstep] at he
    split at he
    · simp only [List.mem_singleton] at he; subst he
      exact emit_nf _ _ _ (by decide)
    · cases he

/-- the run of a batching server against the bot with the switch (it sends what the bot proper sends) -/
def runF (s : Srv) (fb : FBot) (ob : Option Str) : List BAct → Srv × FBot × Option Str
  | [] => (s, fb, ob)
  | a :: as =>
    let r := bstep s ob a
    runF (r.1.enqueue (fb.bb.outAll r.2.2)) (fb.recvAll r.2.2) r.2.1 as

theorem runF_eq_runB (acts : List BAct) : ∀ (s : Srv) (fb : FBot) (ob : Option Str), BInv s fb.bb ob → (∀ a ∈ acts, a.ok) →
    (runF s fb ob acts).1 = (runB s fb.bb ob acts).1 ∧ (runF s fb ob acts).2.1.bb = (runB s fb.bb ob acts).2.1 ∧
      (runF s fb ob acts).2.2 = (runB s fb.bb ob acts).2.2 ∧ (runF s fb ob acts).2.1.follow = fb.follow := by
  induction acts with
  | nil => intro s fb ob _ _; exact ⟨rfl, rfl, rfl, rfl⟩
  | cons a as ih =>
    intro s fb ob h hok
    unfold runF runB
    have hf := bstep_follow h a
    have hinv := bstep_inv h a (hok a (by simp))
    rw [← hf.1] at hinv
    have := ih _ _ _ hinv (fun a' ha' => hok a' (by simp [ha']))
    simp only []
    rw [hf.1] at this
    rw [← hf.1] at this
    refine ⟨this.1.trans ?_, this.2.1.trans ?_, this.2.2.1.trans ?_, this.2.2.2.trans hf.2⟩ <;> rw [hf.1]

end C10
