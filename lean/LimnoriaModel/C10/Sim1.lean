/-
C10 — simulation, part 1: how the prefix of a server message is seen by the bot, the generic
"one channel changed" coupling lemma, and the actions connect / topic / chghost.
-/
import LimnoriaModel.C10.WF
namespace C10
open Py

/-! ### prefixes -/

structure UserOK (u : SUser) : Prop where
  nick : NickOK u.nick
  ident : WordOK u.ident
  host : WordOK u.host

theorem SrvWF.uok {s : Srv} (h : SrvWF s) {k : Str} {u : SUser} (hu : aget s.users k = some u) : UserOK u :=
  let ⟨_, b, c, d⟩ := h.userOK hu
  ⟨b, c, d⟩

theorem split_mask {u : SUser} (h : UserOK u) : splitHostmask u.mask = some (u.nick, u.ident, u.host) :=
  splitHostmask_mask h.nick.ne h.nick.noBang h.ident.ne h.host.ne h.nick.nosp h.ident.nosp h.host.nosp
    h.ident.noBang h.host.noAt

theorem isu_mask {u : SUser} (h : UserOK u) : isUserHostmask u.mask = true :=
  isUserHostmask_mask h.nick.ne h.nick.noBang h.ident.ne h.host.ne h.nick.nosp h.ident.nosp h.host.nosp

theorem msg_nick_user {u : SUser} (h : UserOK u) (cmd : Str) (args : List Str) :
    (⟨u.mask, cmd, args⟩ : Msg).nick = u.nick := by simp [Msg.nick, Msg.nuh, split_mask h]
theorem msg_user_user {u : SUser} (h : UserOK u) (cmd : Str) (args : List Str) :
    (⟨u.mask, cmd, args⟩ : Msg).user = u.ident := by simp [Msg.user, Msg.nuh, split_mask h]
theorem msg_host_user {u : SUser} (h : UserOK u) (cmd : Str) (args : List Str) :
    (⟨u.mask, cmd, args⟩ : Msg).host = u.host := by simp [Msg.host, Msg.nuh, split_mask h]

theorem msg_nick_server {p : Str} (h : '!' ∉ p) (cmd : Str) (args : List Str) :
    (⟨p, cmd, args⟩ : Msg).nick = p := by simp [Msg.nick, Msg.nuh, splitHostmask_noBang h]

theorem mask_ne_nick {u : SUser} {n : Str} (hn : NickOK n) : u.mask ≠ n := by
  intro e
  have : '!' ∈ u.mask := by simp [SUser.mask]
  rw [e] at this
  exact hn.noBang this

/-- the server's own name: no `!`, and different from every nick -/
structure ServerOK (p : Str) : Prop where
  noBang : '!' ∉ p
  dot : '.' ∈ p

theorem serverOK_of_cfg {c : Cfg} (h : c.valid = true) : ServerOK c.server := by
  have hc := cfgOK_of_valid h
  exact ⟨(wordOK_of_valid hc.server).noBang, hc.dot⟩

theorem server_ne_nick {p n : Str} (hp : ServerOK p) (hn : NickOK n) : p ≠ n := by
  intro e; subst e; exact hn.noDot hp.dot

/-- what the bot records about the sender of a message that is not a NICK -/
def Bot.seen (b : Bot) (u : SUser) : Bot :=
  { b with pfx := if u.nick = b.nick then u.mask else b.pfx, n2h := aset b.n2h (lower u.nick) u.mask }

theorem pfxUpd_user {b : Bot} {u : SUser} (h : UserOK u) (cmd : Str) (args : List Str) :
    b.pfxUpd ⟨u.mask, cmd, args⟩ = { b with pfx := if u.nick = b.nick then u.mask else b.pfx } := by
  unfold Bot.pfxUpd
  rw [msg_nick_user h]
  by_cases hn : u.nick = b.nick
  · by_cases hp : b.pfx = u.mask
    · simp [hn, hp]
      cases b; simp_all
    · simp [hn, hp]
  · simp [hn]

theorem pfxUpd_server {b : Bot} {p : Str} (hp : '!' ∉ p) (hne : p ≠ b.nick) (cmd : Str) (args : List Str) :
    b.pfxUpd ⟨p, cmd, args⟩ = b := by
  unfold Bot.pfxUpd
  rw [msg_nick_server hp]
  simp [hne]

theorem prelude_user {b : Bot} {u : SUser} (h : UserOK u) (cmd : Str) (args : List Str)
    (hc : cmd ≠ "NICK".toList) :
    b.prelude ⟨u.mask, cmd, args⟩ = { b with n2h := aset b.n2h (lower u.nick) u.mask } := by
  unfold Bot.prelude
  rw [msg_nick_user h]
  have hc' : (cmd != "NICK".toList) = true := by simpa using hc
  simp only [isu_mask h, hc', Bool.and_self, ↓reduceIte]

theorem prelude_server {b : Bot} {p : Str} (hp : '!' ∉ p) (cmd : Str) (args : List Str) :
    b.prelude ⟨p, cmd, args⟩ = b := by
  unfold Bot.prelude
  simp [isUserHostmask_noBang hp]

/-! ### `Coupled` under changes that do not touch the server state -/

theorem coupled_seen {s : Srv} {b : Bot} (hc : Coupled s b) {k : Str} {u : SUser}
    (hu : aget s.users k = some u) (hk : lower u.nick = k) (hbot : k = s.botKey → True) :
    Coupled s (b.seen u) := by
  refine ⟨hc.nick, hc.chans, ?_, ?_, hc.cfgNick, hc.cfgIdent, hc.isup⟩
  · intro k' u' hu' hv
    show aget (aset b.n2h (lower u.nick) u.mask) k' = some u'.mask
    rw [aget_aset]
    by_cases e : lower u.nick = k'
    · rw [hk] at e; subst e; rw [hu] at hu'; cases hu'; simp [hk]
    · simp only [e, ↓reduceIte]; exact hc.hosts k' u' hu' hv
  · intro kc sc hsc hb
    obtain ⟨ub, hub, hp⟩ := hc.pfx kc sc hsc hb
    refine ⟨ub, hub, ?_⟩
    show (if u.nick = b.nick then u.mask else b.pfx) = ub.mask
    by_cases e : u.nick = b.nick
    · simp only [e, ↓reduceIte]
      have : k = s.botKey := by rw [← hk, e, hc.nick]; rfl
      subst this; rw [hu] at hub; cases hub; rfl
    · simp only [e, ↓reduceIte]; exact hp

/-- after a message from user `u` the bot knows `u`'s hostmask -/
theorem seen_n2h (b : Bot) (u : SUser) : aget (b.seen u).n2h (lower u.nick) = some u.mask := by
  show aget (aset b.n2h (lower u.nick) u.mask) (lower u.nick) = _
  rw [aget_aset_self]

theorem chanRel_congr {s s' : Srv} (h : s'.bot = s.bot) (hcfg : s'.cfg = s.cfg) (k : Str)
    (hms : s'.mSynced k = s.mSynced k) (hbs : s'.bSynced k = s.bSynced k) (a : Option SChan) (c : Option Chan) :
    ChanRel s' k a c = ChanRel s k a c := by
  cases a <;> cases c <;> simp [ChanRel, Srv.botKey, h, hcfg, hms, hbs]

/-- one channel of the server state and the bot's record of it change; everything else stays -/
theorem coupled_update {s s' : Srv} {b b' : Bot} (hc : Coupled s b) (kc : Str)
    (hu : s'.users = s.users) (hbot : s'.bot = s.bot) (hcfg : s'.cfg = s.cfg)
    (hsy : ∀ k, k ≠ kc → s'.mSynced k = s.mSynced k ∧ s'.bSynced k = s.bSynced k)
    (hchans : ∀ k, k ≠ kc → aget s'.chans k = aget s.chans k)
    (hbch : ∀ k, k ≠ kc → aget b'.channels k = aget b.channels k)
    (hrel : ChanRel s' kc (aget s'.chans kc) (aget b'.channels kc))
    (hnick : b'.nick = b.nick) (hcn : b'.cfgNick = b.cfgNick) (hci : b'.cfgIdent = b.cfgIdent) (hsup : b'.isup = b.isup)
    (hn2h : ∀ k u, aget s.users k = some u → k ∈ s'.told → aget b'.n2h k = some u.mask)
    (hpfx : ∀ u, aget s.users s.botKey = some u → b.pfx = u.mask → b'.pfx = u.mask)
    (hpfxnew : ∀ sc', aget s'.chans kc = some sc' → sc'.has s.botKey = true →
      ∃ u, aget s.users s.botKey = some u ∧ b'.pfx = u.mask) :
    Coupled s' b' := by
  have hbk : s'.botKey = s.botKey := by simp [Srv.botKey, hbot]
  refine ⟨by rw [hnick, hbot]; exact hc.nick, ?_, ?_, ?_, by rw [hcn, hcfg]; exact hc.cfgNick,
    by rw [hci, hcfg]; exact hc.cfgIdent, by rw [hsup]; exact hc.isup⟩
  · intro k
    by_cases hk : k = kc
    · subst hk; exact hrel
    · rw [hchans k hk, hbch k hk, chanRel_congr hbot hcfg k (hsy k hk).1 (hsy k hk).2]; exact hc.chans k
  · intro k u huk hv
    rw [hu] at huk
    exact hn2h k u huk hv
  · intro k sc hsc hb
    rw [hbk] at hb ⊢
    rw [hu]
    by_cases hk : k = kc
    · subst hk; exact hpfxnew sc hsc hb
    · rw [hchans k hk] at hsc
      obtain ⟨ub, hub, hp⟩ := hc.pfx k sc hsc hb
      exact ⟨ub, hub, hpfx ub hub hp⟩

/-- the same, when the bot's hostmask map and prefix and what the server has told are untouched -/
theorem coupled_update' {s s' : Srv} {b b' : Bot} (hc : Coupled s b) (kc : Str)
    (hu : s'.users = s.users) (hbot : s'.bot = s.bot) (hcfg : s'.cfg = s.cfg)
    (hms : s'.modesSynced = s.modesSynced) (hbs : s'.bansSynced = s.bansSynced) (htold : s'.told = s.told)
    (hchans : ∀ k, k ≠ kc → aget s'.chans k = aget s.chans k)
    (hbch : ∀ k, k ≠ kc → aget b'.channels k = aget b.channels k)
    (hrel : ChanRel s' kc (aget s'.chans kc) (aget b'.channels kc))
    (hnick : b'.nick = b.nick) (hcn : b'.cfgNick = b.cfgNick) (hci : b'.cfgIdent = b.cfgIdent) (hsup : b'.isup = b.isup)
    (hn2h : b'.n2h = b.n2h) (hp : b'.pfx = b.pfx)
    (hsub : ∀ sc sc', aget s.chans kc = some sc → aget s'.chans kc = some sc' →
       sc'.has s.botKey = true → sc.has s.botKey = true)
    (hnew : ∀ sc', aget s.chans kc = none → aget s'.chans kc = some sc' → sc'.has s.botKey = false) :
    Coupled s' b' := by
  refine coupled_update hc kc hu hbot hcfg (fun k _ => ⟨by simp [Srv.mSynced, hms], by simp [Srv.bSynced, hbs]⟩) hchans hbch hrel hnick hcn hci hsup ?_ ?_ ?_
  · intro k u hk ht; rw [hn2h]; rw [htold] at ht; exact hc.hosts k u hk ht
  · intro u _ h; rw [hp]; exact h
  · intro sc' hsc' h1
    rw [hp]
    cases hsc : aget s.chans kc with
    | none => rw [hnew sc' hsc hsc'] at h1; cases h1
    | some sc => exact hc.pfx kc sc hsc (hsub sc sc' hsc hsc' h1)

end C10
