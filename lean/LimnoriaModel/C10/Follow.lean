/-
C10 — `supybot.followIdentificationThroughNickChanges` as a layer around the bot with batches.
With the switch on, `Irc.doNick` handles somebody else's NICK by looking the sender up in the user database
(`ircdb.users.getUserId(msg.prefix)`) and, when he is identified from exactly that hostmask, rewriting the
identification to the new nick.  This runs inside `Irc.feedMsg` *before* `IrcState.addMsg`: if it raised, the
firewall around `feedMsg` would swallow the exception and the NICK would never reach the state.  The model keeps
the part of the database this branch reads (who is identified from which hostmask); hostmask *patterns* of
registered users and the identification timeout are not modelled (the harness registers users without patterns,
timeout 0 = the default).
-/
import LimnoriaModel.C10.Batch
namespace C10
open Py

/-- a registered user: name and the hostmasks he is currently identified from (`User.auth`, newest last) -/
structure DbUser where
  name : Str
  auth : List Str := []
deriving Repr, DecidableEq, Inhabited

/-- the bot, its open batches, the switch and the user database -/
structure FBot where
  bb : BBot
  follow : Bool := false
  db : List DbUser := []
deriving Repr, DecidableEq, Inhabited

/-- `u.auth` after the loop of `Irc.doNick`: every entry equal (as nicks are compared) to the old hostmask is
replaced by the new one -/
def rewriteAuth (old new : Str) (auth : List Str) : List Str :=
  auth.map (fun a => if strEqual old a then new else a)

/-- the login-following branch of `Irc.doNick` for somebody else's NICK `m`: the new database and whether an
exception leaves `doNick`.
* prefix not a user hostmask: `getUserId` takes it for a user name; no registered user is called like a server
  or a nick in the histories → `KeyError`, caught → return;
* nobody identified from this hostmask → `KeyError`, caught → return;
* several users: `getUserId` logs, tries `removeHostmask(True)` on each, which ends in the caught `KeyError`;
* exactly one: `msg.args[0]` (IndexError without argument), `joinHostmask` asserts its parts. -/
def followNick (db : List DbUser) (m : Msg) : List DbUser × Bool :=
  if !isUserHostmask m.pfx then (db, false) else
  match db.filter (fun u => u.auth.contains m.pfx) with
  | [u] =>
    match m.args, splitHostmask m.pfx with
    | newNick :: _, some (_, user, host) =>
      if newNick.isEmpty || user.isEmpty || host.isEmpty then (db, true)
      else (db.map (fun v => if v.name = u.name then { v with auth := rewriteAuth m.pfx (mkHostmask newNick user host) v.auth } else v), false)
    | _, _ => (db, true)
  | _ => (db, false)

/-- the message as `Irc.feedMsg` sees it after the "nick instead of prefix" substitution -/
def Bot.normMsg (b : Bot) (m0 : Msg) : Msg :=
  if m0.pfx = b.nick then { m0 with pfx := if b.pfx.isEmpty then m0.pfx else b.pfx } else m0

/-- is this a NICK of somebody else that reaches `Irc.doNick`? -/
def FBot.followApplies (fb : FBot) (m0 : Msg) : Bool :=
  fb.follow && !fb.bb.bot.tagRaises m0 && cmdOf m0.cmd == .nick && (fb.bb.bot.normMsg m0).nick != fb.bb.bot.nick

/-- `Irc.feedMsg` with the switch: an exception in the login-following branch loses the message -/
def FBot.feed (fb : FBot) (tag : Option Str) (m0 : Msg) : FBot × Exc :=
  if fb.followApplies m0 then
    let r := followNick fb.db (fb.bb.bot.normMsg m0)
    if r.2 then (fb, .irc)
    else
      let q := fb.bb.feed tag m0
      ({ fb with bb := q.1, db := r.1 }, q.2)
  else
    let q := fb.bb.feed tag m0
    ({ fb with bb := q.1 }, q.2)

def FBot.reset (fb : FBot) : FBot := { fb with bb := fb.bb.reset }

def FBot.recv (fb : FBot) : BEv → FBot
  | .plain (.msg m) => (fb.feed none m).1
  | .plain .reset => fb.reset
  | .tagged ref m => (fb.feed (some ref) m).1

def FBot.recvAll (fb : FBot) (es : List BEv) : FBot := es.foldl FBot.recv fb

end C10
