/-
C10 — what `Bot.feed` does with the messages a reference server emits: the generic decomposition
(`feed_plain`, `feed_setter`) and the facts about prefixes (`src_user`, `src_server`).
-/
import LimnoriaModel.C10.StrLemmas
import LimnoriaModel.C10.CollLemmas
import LimnoriaModel.C10.Srv
namespace C10
open Py

/-- `feedMsg`: "we know our nick but not yet our prefix" -/
def Bot.pfxUpd (b : Bot) (m : Msg) : Bot :=
  if m.nick = b.nick && b.pfx != m.pfx then { b with pfx := m.pfx } else b

/-- `addMsg`: hostmask bookkeeping -/
def Bot.prelude (b : Bot) (m : Msg) : Bot :=
  if isUserHostmask m.pfx && m.cmd != "NICK".toList
  then { b with n2h := aset b.n2h (lower m.nick) m.pfx } else b

/-- `_tagMsg` does not raise: `Irc.isChannel` of the first argument is defined -/
def Bot.tagOK (b : Bot) (m : Msg) : Prop := b.tagRaises m = false

theorem addMsg_eq (b : Bot) (m : Msg) : b.addMsgT false m = (b.prelude m).stateCmd m := rfl

theorem feed_plain (b : Bot) (m : Msg) (h0 : b.tagOK m) (h1 : m.pfx ≠ b.nick) (h2 : m.cmd ∉ Gen.nickSetters)
    (h3 : ((b.pfxUpd m).ircCmd m).2 = false) :
    (b.feed m).1 = ((((b.pfxUpd m).ircCmd m).1.prelude m).stateCmd m).1 := by
  unfold Bot.feed Bot.feedT
  unfold Bot.tagOK at h0
  simp only [h0, Bool.false_eq_true, h1, ↓reduceIte, h2]
  have e : (if (m.nick = b.nick && b.pfx != m.pfx) = true then { b with pfx := m.pfx } else b) = b.pfxUpd m := rfl
  rw [e]
  simp only [Bool.false_eq_true, ↓reduceIte, h3, addMsg_eq]

theorem feed_setter (b : Bot) (m : Msg) (h0 : b.tagOK m) (h1 : m.pfx ≠ b.nick) (h2 : m.cmd ∈ Gen.nickSetters)
    (a0 : Str) (rest : List Str) (ha : m.args = a0 :: rest) (hn : a0 = b.nick) (hp : (b.pfxUpd m).nick = b.nick)
    (h3 : ((b.pfxUpd m).ircCmd m).2 = false) :
    (b.feed m).1 = ((((b.pfxUpd m).ircCmd m).1.prelude m).stateCmd m).1 := by
  unfold Bot.feed Bot.feedT
  unfold Bot.tagOK at h0
  simp only [h0, Bool.false_eq_true, h1, ↓reduceIte, h2, ha]
  have e : (if (m.nick = b.nick && b.pfx != m.pfx) = true then { b with pfx := m.pfx } else b) = b.pfxUpd m := rfl
  rw [e]
  have hn' : (a0 != (b.pfxUpd m).nick) = false := by simp [hp, hn]
  simp only [hn', Bool.false_eq_true, ↓reduceIte, h3, addMsg_eq]

end C10
