/-
C10 — the replies a joining client gets, part 4: WHO reply, topic, mode, ban-list replies.
-/
import LimnoriaModel.C10.Burst3
namespace C10
open Py

/-- one WHO / WHOX line -/
theorem who_line {s : Srv} {b : Bot} (h : AtSrv s b) (sc : SChan) {p : Str × Flags} {u : SUser}
    (hu : aget s.users p.1 = some u) (hk : lower u.nick = p.1) :
    b.recv (s.whoLine sc p) = { b with n2h := aset b.n2h p.1 u.mask } := by
  obtain ⟨hsv, hne⟩ := h.server
  unfold Srv.whoLine
  simp only [Srv.displayUser, hu, Option.getD_some]
  by_cases hx : s.cfg.whox = true
  · simp only [hx, ↓reduceIte, recv_emit]
    have hfeed := feed_server (b := b) h.isup hsv hne "354".toList
      [['1'], u.ident, "255.255.255.255".toList, u.host, u.nick, 'H' :: sigils s.cfg p.2, ['0'], "real name".toList]
      (by simp only [Bot.ircCmd, cmdOf_354])
    rw [h.nick] at hfeed
    rw [hfeed]
    simp only [Bot.stateCmd, cmdOf_354, Bot.do354, ↓reduceIte, hk]
    rfl
  · simp only [hx, Bool.false_eq_true, ↓reduceIte, recv_emit]
    have hfeed := feed_server (b := b) h.isup hsv hne "352".toList
      [sc.name, u.ident, u.host, s.cfg.server, u.nick, 'H' :: sigils s.cfg p.2, "0 real name".toList]
      (by simp only [Bot.ircCmd, cmdOf_352])
    rw [h.nick] at hfeed
    rw [hfeed]
    simp only [Bot.stateCmd, cmdOf_352, Bot.do352, nth, List.getElem?_cons_succ, List.getElem?_cons_zero, hk]
    rfl

theorem who_lines {s : Srv} (sc : SChan) (key : Str) (ps : List (Str × Flags)) :
    ∀ {b : Bot}, AtSrv s b → MembersOK s ps →
      Frame s key b (b.recvAll (ps.map (s.whoLine sc))) ∧
      (b.recvAll (ps.map (s.whoLine sc))).channels = b.channels ∧
      ∀ p ∈ ps, ∃ u, aget s.users p.1 = some u ∧ aget (b.recvAll (ps.map (s.whoLine sc))).n2h p.1 = some u.mask := by
  induction ps with
  | nil => intro b _ _; exact ⟨Frame.refl _ _ _, rfl, by simp⟩
  | cons p ps ih =>
    intro b h hm
    obtain ⟨u, hu, _, hk⟩ := hm.user p (by simp)
    simp only [List.map_cons, recvAll_cons]
    rw [who_line h sc hu hk]
    have hf1 : Frame s key b { b with n2h := aset b.n2h p.1 u.mask } := by
      refine ⟨rfl, rfl, rfl, rfl, rfl, fun _ _ => rfl, fun x => ?_⟩
      show aget (aset b.n2h p.1 u.mask) x = _ ∨ _
      rw [aget_aset]
      by_cases hx : p.1 = x
      · subst hx; right; exact ⟨u, hu, by simp⟩
      · left; simp [hx]
    obtain ⟨hf2, hc2, hn2⟩ := ih (h.frame hf1) (hm.sub (fun q hq => by simp [hq]))
    refine ⟨hf1.trans hf2, hc2, ?_⟩
    intro q hq
    simp only [List.mem_cons] at hq
    rcases hq with rfl | hq
    · refine ⟨u, hu, ?_⟩
      rcases hf2.n2h q.1 with e | ⟨u', hu', e⟩
      · rw [e]; show aget (aset b.n2h q.1 u.mask) q.1 = _; rw [aget_aset_self]
      · rw [hu] at hu'; cases hu'; exact e
    · exact hn2 q hq

theorem who_reply {s : Srv} {b : Bot} (h : AtSrv s b) {k : Str} {sc : SChan} (hsc : aget s.chans k = some sc) :
    Frame s k b (b.recvAll (s.whoReply sc)) ∧ (b.recvAll (s.whoReply sc)).channels = b.channels ∧
    ∀ p ∈ sc.members, ∃ u, aget s.users p.1 = some u ∧ aget (b.recvAll (s.whoReply sc)).n2h p.1 = some u.mask := by
  unfold Srv.whoReply
  simp only [recvAll_append]
  obtain ⟨hf, hc, hn⟩ := who_lines (s := s) sc k sc.members h (membersOK_of_wf h.wf hsc)
  obtain ⟨hsv, hne⟩ := (h.frame hf).server
  have hfeed := feed_server (b := b.recvAll (sc.members.map (s.whoLine sc))) (h.frame hf).isup hsv hne "315".toList
    [sc.name, "End of /WHO list.".toList] (by simp only [Bot.ircCmd, cmdOf_315]; rfl)
  rw [(h.frame hf).nick] at hfeed
  simp only [recvAll_cons, recv_emit, recvAll_nil, hfeed, Bot.stateCmd, cmdOf_315]
  exact ⟨hf, hc, hn⟩

/-- replies that only touch the bot's record of channel `k` (and leave correct hostmasks correct) keep the
coupling; the server may at the same time mark channel `k` as synced and more users as told -/
theorem coupled_of_frame {s s' : Srv} {b b' : Bot} {k : Str} (hc : Coupled s b) (hf : Frame s k b b')
    (hu : s'.users = s.users) (hch : s'.chans = s.chans) (hbot : s'.bot = s.bot) (hcfg : s'.cfg = s.cfg)
    (hother : ∀ k', k' ≠ k → s'.mSynced k' = s.mSynced k' ∧ s'.bSynced k' = s.bSynced k')
    (hrel : ChanRel s' k (aget s.chans k) (aget b'.channels k))
    (htold : ∀ x u, aget s.users x = some u → x ∈ s'.told → x ∈ s.told ∨ aget b'.n2h x = some u.mask) :
    Coupled s' b' := by
  have hbk : s'.botKey = s.botKey := by simp [Srv.botKey, hbot]
  refine ⟨by rw [hbot]; exact hf.nick.trans hc.nick, ?_, ?_, ?_, by rw [hcfg]; exact hf.cfgNick.trans hc.cfgNick,
    by rw [hcfg]; exact hf.cfgIdent.trans hc.cfgIdent, by rw [hf.isup]; exact hc.isup⟩
  · intro k'
    rw [hch]
    by_cases hk : k' = k
    · subst hk; exact hrel
    · rw [hf.others k' hk]
      have := hc.chans k'
      obtain ⟨h1, h2⟩ := hother k' hk
      cases ha : aget s.chans k' <;> cases hb : aget b.channels k' <;> rw [ha, hb] at this <;>
        simp only [ChanRel, hbk, hcfg, h1, h2] at this ⊢ <;> exact this
  · intro x u hux ht
    rw [hu] at hux
    rcases htold x u hux ht with h | h
    · exact hf.keeps hux (hc.hosts x u hux h)
    · exact h
  · intro kc sc hsc hb
    rw [hch] at hsc; rw [hbk] at hb ⊢; rw [hu, hf.pfx]
    exact hc.pfx kc sc hsc hb

theorem secret_is_flag {modes : List (Char × Option Str)} (hm : ∀ e ∈ modes, ModeEntryOK e)
    (h : (aget modes 's').isSome = true) : aget modes 's' = some none := by
  cases hg : aget modes 's' with
  | none => rw [hg] at h; cases h
  | some v =>
    have := hm ('s', v) (aget_mem hg)
    rcases this with ⟨hcls, _⟩ | ⟨_, hv⟩
    · have hns : 's' ∉ keyModes ++ limitModes := by decide
      exact absurd hcls hns
    · simp only at hv; rw [hv]

theorem mem_shown {s : Srv} {ps : List (Str × Flags)} {x : Str} {f' : Flags} (h : (x, f') ∈ shownMembers s ps) :
    ∃ f, (x, f) ∈ ps ∧ f' = shown s.cfg f := by
  simp only [shownMembers, List.mem_map, Prod.mk.injEq] at h
  obtain ⟨p, hp, rfl, rfl⟩ := h
  exact ⟨p.2, hp, rfl⟩

/-- after NAMES lines for all members, a record that matched still matches -/
theorem matches_after_names {s : Srv} {ms bs : Bool} {sc : SChan} {ch ch' : Chan}
    (hm : ChanMatches s.cfg.multiPrefix ms bs sc ch) (hmodes : ∀ e ∈ sc.modes, ModeEntryOK e)
    (hr : NamesRel (if (aget sc.modes 's').isSome then ['@'] else if (aget sc.modes 'p').isSome then ['*'] else ['='])
      (shownMembers s sc.members) ch ch') :
    ChanMatches s.cfg.multiPrefix ms bs sc ch' := by
  have hsecret : ∀ m, aget ch'.modes m = aget ch.modes m ∨ (aget ch'.modes m = aget sc.modes m) := by
    intro m
    rcases hr.modes m with e | ⟨hty, rfl, e⟩
    · exact Or.inl e
    · right; rw [e]
      by_cases hs : (aget sc.modes 's').isSome = true
      · exact (secret_is_flag hmodes hs).symm
      · simp only [hs, Bool.false_eq_true, ↓reduceIte] at hty
        split at hty <;> simp at hty
  refine ⟨⟨?_, ?_⟩, ⟨?_, ?_⟩, ⟨?_, ?_⟩, ⟨?_, ?_⟩, hr.topic.trans hm.topic, ?_, ?_, ?_, ?_⟩
  · intro x hx
    rcases (hr.users x).mp hx with h | ⟨f', hf'⟩
    · exact hm.users.sub x h
    · obtain ⟨f, hf, _⟩ := mem_shown hf'; exact ⟨f, hf, trivial⟩
  · intro _ x hex; exact (hr.users x).mpr (Or.inl (hm.users.sup trivial x hex))
  · intro x hx
    rcases (hr.ops x).mp hx with h | ⟨f', hf', ho⟩
    · exact hm.ops.sub x h
    · obtain ⟨f, hf, rfl⟩ := mem_shown hf'; exact ⟨f, hf, show f.o = true from (shown_o s.cfg f).symm.trans ho⟩
  · intro _ x hex; exact (hr.ops x).mpr (Or.inl (hm.ops.sup trivial x hex))
  · intro x hx
    rcases (hr.halfops x).mp hx with h | ⟨f', hf', ho⟩
    · exact hm.halfops.sub x h
    · obtain ⟨f, hf, rfl⟩ := mem_shown hf'; exact ⟨f, hf, shown_h s.cfg f ho⟩
  · intro hmp x hex; exact (hr.halfops x).mpr (Or.inl (hm.halfops.sup hmp x hex))
  · intro x hx
    rcases (hr.voices x).mp hx with h | ⟨f', hf', ho⟩
    · exact hm.voices.sub x h
    · obtain ⟨f, hf, rfl⟩ := mem_shown hf'; exact ⟨f, hf, shown_v s.cfg f ho⟩
  · intro hmp x hex; exact (hr.voices x).mpr (Or.inl (hm.voices.sup hmp x hex))
  · intro m
    rcases hsecret m with e | e
    · rw [e]; exact hm.modes m
    · exact Or.inl e
  · intro hs m
    rcases hsecret m with e | e
    · rw [e]; exact hm.modesFull hs m
    · exact e
  · intro x hx; rw [hr.bans] at hx; exact hm.bans x hx
  · intro hs x hx; rw [hr.bans]; exact hm.bansFull hs x hx

theorem mem_addAll {l xs : List Str} {x : Str} : x ∈ addAll l xs ↔ x ∈ l ∨ x ∈ xs := by
  unfold addAll
  induction xs generalizing l with
  | nil => simp
  | cons a as ih =>
    rw [List.foldl_cons, ih]
    simp only [mem_sadd, List.mem_cons]
    constructor
    · rintro ((rfl | h) | h)
      · exact Or.inr (Or.inl rfl)
      · exact Or.inl h
      · exact Or.inr (Or.inr h)
    · rintro (h | rfl | h)
      · exact Or.inl (Or.inr h)
      · exact Or.inl (Or.inl rfl)
      · exact Or.inr h

theorem mem_keys {sc : SChan} {x : Str} : x ∈ sc.keys ↔ ∃ f, (x, f) ∈ sc.members := by
  simp only [SChan.keys, List.mem_map]
  constructor
  · rintro ⟨⟨a, f⟩, hp, rfl⟩; exact ⟨f, hp⟩
  · rintro ⟨f, hp⟩; exact ⟨(x, f), hp, rfl⟩

theorem coupled_names {s : Srv} {b : Bot} (hw : SrvWF s) (hc : Coupled s b) (c : Str) :
    Coupled (s.step (.names c)).1 (b.recvAll (s.step (.names c)).2) := by
  simp only [Srv.step]
  split
  · rename_i sc hch
    rw [Srv.chan_eq] at hch
    by_cases hb : s.botIn sc = true
    · simp only [hb, ↓reduceIte]
      have hrel := hc.chans (lower c)
      rw [hch] at hrel
      cases hbc : aget b.channels (lower c) with
      | none => rw [hbc] at hrel; simp only [ChanRel] at hrel; rw [Srv.botIn] at hb; rw [hb] at hrel; cases hrel
      | some ch =>
        rw [hbc] at hrel
        obtain ⟨hf, ⟨ch', hch', hr⟩, hn⟩ := names_reply ⟨hw, hc.nick, hc.isup⟩ hch hbc
        refine coupled_of_frame hc hf rfl rfl rfl rfl (fun _ _ => ⟨rfl, rfl⟩) ?_ ?_
        · rw [hch, hch']
          exact ⟨hrel.1, matches_after_names hrel.2 (hw.chans _ _ hch).modes hr⟩
        · intro x u hux ht
          by_cases huh : s.cfg.uhnames = true
          · have ht' : x ∈ addAll s.told sc.keys := by simpa [huh] using ht
            rcases mem_addAll.mp ht' with h | h
            · exact Or.inl h
            · obtain ⟨f, hf'⟩ := mem_keys.mp h
              obtain ⟨u', hu', hn'⟩ := hn huh (x, f) hf'
              rw [hux] at hu'; cases hu'
              exact Or.inr hn'
          · left; simpa [huh] using ht
    · simp only [hb, Bool.false_eq_true, ↓reduceIte, recvAll_nil]; exact hc
  · simp only [recvAll_nil]; exact hc

/-- a WHO reply, solicited or not, whether or not the bot is still on the channel -/
theorem coupled_replyWho {s : Srv} {b : Bot} (hw : SrvWF s) (hc : Coupled s b) (c : Str) :
    Coupled (s.replyWho c).1 (b.recvAll (s.replyWho c).2) := by
  unfold Srv.replyWho
  split
  · rename_i sc hch
    rw [Srv.chan_eq] at hch
    obtain ⟨hf, hcs, hn⟩ := who_reply (b := b) ⟨hw, hc.nick, hc.isup⟩ hch
    refine coupled_of_frame hc hf rfl rfl rfl rfl (fun _ _ => ⟨rfl, rfl⟩) ?_ ?_
    · rw [hcs]; exact hc.chans (lower c)
    · intro x u hux ht
      have ht' : x ∈ addAll s.told sc.keys := ht
      rcases mem_addAll.mp ht' with h | h
      · exact Or.inl h
      · obtain ⟨f, hf'⟩ := mem_keys.mp h
        obtain ⟨u', hu', hn'⟩ := hn (x, f) hf'
        rw [hux] at hu'; cases hu'
        exact Or.inr hn'
  · simp only [recvAll_nil]; exact hc

end C10
