/-
C10 — the replies a joining client gets, part 4: WHO reply, topic, mode, ban-list replies.
-/
import LimnoriaModel.C10.Burst3
namespace C10
open Py

/-- one WHO / WHOX line -/
theorem who_line {s : Srv} {b : Bot} (h : AtSrv s b) (sc : SChan) {p : Str × Flags} {u : SUser}
    (hu : aget s.users p.1 = some u) (hk : lower u.nick = p.1) :
    b.recv (s.whoLine sc p) = { b with n2h := aset b.n2h p.1 u.mask } := by
  obtain ⟨hsv, hne⟩ := h.server
  unfold Srv.whoLine
  simp only [Srv.displayUser, hu, Option.getD_some]
  by_cases hx : s.cfg.whox = true
  · simp only [hx, ↓reduceIte, recv_emit]
    have hfeed := feed_server (b := b) hsv hne "354".toList
      [['1'], u.ident, "255.255.255.255".toList, u.host, u.nick, 'H' :: sigils s.cfg p.2, ['0'], "real name".toList]
      (by simp only [Bot.ircCmd, cmdOf_354])
    rw [h.nick] at hfeed
    rw [hfeed]
    simp only [Bot.stateCmd, cmdOf_354, Bot.do354, ↓reduceIte, hk]
    rfl
  · simp only [hx, Bool.false_eq_true, ↓reduceIte, recv_emit]
    have hfeed := feed_server (b := b) hsv hne "352".toList
      [sc.name, u.ident, u.host, s.cfg.server, u.nick, 'H' :: sigils s.cfg p.2, "0 real name".toList]
      (by simp only [Bot.ircCmd, cmdOf_352])
    rw [h.nick] at hfeed
    rw [hfeed]
    simp only [Bot.stateCmd, cmdOf_352, Bot.do352, nth, List.getElem?_cons_succ, List.getElem?_cons_zero, hk]
    rfl

theorem who_lines {s : Srv} (sc : SChan) (key : Str) (ps : List (Str × Flags)) :
    ∀ {b : Bot}, AtSrv s b → MembersOK s ps →
      Frame s key b (b.recvAll (ps.map (s.whoLine sc))) ∧
      (b.recvAll (ps.map (s.whoLine sc))).channels = b.channels ∧
      ∀ p ∈ ps, ∃ u, aget s.users p.1 = some u ∧ aget (b.recvAll (ps.map (s.whoLine sc))).n2h p.1 = some u.mask := by
  induction ps with
  | nil => intro b _ _; exact ⟨Frame.refl _ _ _, rfl, by simp⟩
  | cons p ps ih =>
    intro b h hm
    obtain ⟨u, hu, _, hk⟩ := hm.user p (by simp)
    simp only [List.map_cons, recvAll_cons]
    rw [who_line h sc hu hk]
    have hf1 : Frame s key b { b with n2h := aset b.n2h p.1 u.mask } := by
      refine ⟨rfl, rfl, rfl, rfl, fun _ _ => rfl, fun x => ?_⟩
      show aget (aset b.n2h p.1 u.mask) x = _ ∨ _
      rw [aget_aset]
      by_cases hx : p.1 = x
      · subst hx; right; exact ⟨u, hu, by simp⟩
      · left; simp [hx]
    obtain ⟨hf2, hc2, hn2⟩ := ih (h.frame hf1) (hm.sub (fun q hq => by simp [hq]))
    refine ⟨hf1.trans hf2, hc2, ?_⟩
    intro q hq
    simp only [List.mem_cons] at hq
    rcases hq with rfl | hq
    · refine ⟨u, hu, ?_⟩
      rcases hf2.n2h q.1 with e | ⟨u', hu', e⟩
      · rw [e]; show aget (aset b.n2h q.1 u.mask) q.1 = _; rw [aget_aset_self]
      · rw [hu] at hu'; cases hu'; exact e
    · exact hn2 q hq

theorem who_reply {s : Srv} {b : Bot} (h : AtSrv s b) {k : Str} {sc : SChan} (hsc : aget s.chans k = some sc) :
    Frame s k b (b.recvAll (s.whoReply sc)) ∧ (b.recvAll (s.whoReply sc)).channels = b.channels ∧
    ∀ p ∈ sc.members, ∃ u, aget s.users p.1 = some u ∧ aget (b.recvAll (s.whoReply sc)).n2h p.1 = some u.mask := by
  unfold Srv.whoReply
  simp only [recvAll_append]
  obtain ⟨hf, hc, hn⟩ := who_lines (s := s) sc k sc.members h (membersOK_of_wf h.wf hsc)
  obtain ⟨hsv, hne⟩ := (h.frame hf).server
  have hfeed := feed_server (b := b.recvAll (sc.members.map (s.whoLine sc))) hsv hne "315".toList
    [sc.name, "End of /WHO list.".toList] (by simp only [Bot.ircCmd, cmdOf_315]; rfl)
  rw [(h.frame hf).nick] at hfeed
  simp only [recvAll_cons, recv_emit, recvAll_nil, hfeed, Bot.stateCmd, cmdOf_315]
  exact ⟨hf, hc, hn⟩

/-- replies that only touch the bot's record of channel `k` (and leave correct hostmasks correct) keep the coupling -/
theorem coupled_of_frame {s : Srv} {b b' : Bot} {k : Str} (hc : Coupled s b) (hf : Frame s k b b')
    (hrel : ChanRel s (aget s.chans k) (aget b'.channels k)) : Coupled s b' := by
  refine ⟨hf.nick.trans hc.nick, ?_, ?_, ?_, hf.cfgNick.trans hc.cfgNick, hf.cfgIdent.trans hc.cfgIdent⟩
  · intro k'
    by_cases hk : k' = k
    · subst hk; exact hrel
    · rw [hf.others k' hk]; exact hc.chans k'
  · intro x u hu hv
    have := hc.hosts x u hu hv
    rcases hf.n2h x with e | ⟨u', hu', e⟩
    · rw [e]; exact this
    · rw [hu] at hu'; cases hu'; exact e
  · intro kc sc hsc hb
    rw [hf.pfx]; exact hc.pfx kc sc hsc hb

theorem secret_is_flag {modes : List (Char × Option Str)} (hm : ∀ e ∈ modes, ModeEntryOK e)
    (h : (aget modes 's').isSome = true) : aget modes 's' = some none := by
  cases hg : aget modes 's' with
  | none => rw [hg] at h; cases h
  | some v =>
    have := hm ('s', v) (aget_mem hg)
    rcases this with ⟨hcls, _⟩ | ⟨_, hv⟩
    · have hns : 's' ∉ keyModes ++ limitModes := by decide
      exact absurd hcls hns
    · simp only at hv; rw [hv]

/-- after NAMES lines for all members, a record that matched still matches -/
theorem matches_after_names {sc : SChan} {ch ch' : Chan} (hm : ChanMatches sc ch)
    (hmodes : ∀ e ∈ sc.modes, ModeEntryOK e)
    (hr : NamesRel (if (aget sc.modes 's').isSome then ['@'] else if (aget sc.modes 'p').isSome then ['*'] else ['=']) sc.members ch ch') :
    ChanMatches sc ch' := by
  refine ⟨?_, ?_, ?_, ?_, hr.topic.trans hm.topic, ?_, ?_⟩
  · intro x; rw [hr.users, hm.users]; simp
  · intro x; rw [hr.ops, hm.ops]; simp
  · intro x; rw [hr.halfops, hm.halfops]; simp
  · intro x; rw [hr.voices, hm.voices]; simp
  · intro m
    rcases hr.modes m with e | ⟨hty, rfl, e⟩
    · rw [e]; exact hm.modes m
    · rw [e]
      by_cases hs : (aget sc.modes 's').isSome = true
      · exact (secret_is_flag hmodes hs).symm
      · simp only [hs, Bool.false_eq_true, ↓reduceIte] at hty
        split at hty <;> simp at hty
  · intro x; rw [hr.bans]; exact hm.bans x

theorem coupled_names {s : Srv} {b : Bot} (hw : SrvWF s) (hc : Coupled s b) (c : Str) :
    Coupled (s.step (.names c)).1 (b.recvAll (s.step (.names c)).2) := by
  simp only [Srv.step]
  split
  · rename_i sc hch
    rw [Srv.chan_eq] at hch
    by_cases hb : s.botIn sc = true
    · simp only [hb, ↓reduceIte]
      have hrel := hc.chans (lower c)
      rw [hch] at hrel
      cases hbc : aget b.channels (lower c) with
      | none => rw [hbc] at hrel; simp only [ChanRel] at hrel; rw [Srv.botIn] at hb; rw [hb] at hrel; cases hrel
      | some ch =>
        rw [hbc] at hrel
        obtain ⟨hf, ch', hch', hr⟩ := names_reply ⟨hw, hc.nick⟩ hch hbc
        apply coupled_of_frame hc hf
        rw [hch, hch']
        exact ⟨hrel.1, matches_after_names hrel.2 (hw.chans _ _ hch).modes hr⟩
    · simp only [hb, Bool.false_eq_true, ↓reduceIte, recvAll_nil]; exact hc
  · simp only [recvAll_nil]; exact hc

theorem coupled_who {s : Srv} {b : Bot} (hw : SrvWF s) (hc : Coupled s b) (c : Str) :
    Coupled (s.step (.who c)).1 (b.recvAll (s.step (.who c)).2) := by
  simp only [Srv.step]
  split
  · rename_i sc hch
    rw [Srv.chan_eq] at hch
    obtain ⟨hf, hcs, _⟩ := who_reply (b := b) ⟨hw, hc.nick⟩ hch
    apply coupled_of_frame hc hf
    rw [hcs]; exact hc.chans (lower c)
  · simp only [recvAll_nil]; exact hc

end C10
