import LimnoriaModel.C10.Model
import LimnoriaModel.Driver.Core
namespace C10
open Py Wire

def sortS (l : List String) : List String := l.mergeSort (fun a b => decide (a ≤ b))

def encSet (l : List Str) : String := ",".intercalate (sortS (l.map enc))

/-- first-match semantics of the association lists: keep the first entry of every key -/
def dedup {α : Type} : List (Str × α) → List Str → List (Str × α)
  | [], _ => []
  | (k, v) :: r, seen => if seen.contains k then dedup r seen else (k, v) :: dedup r (k :: seen)

def dedupC {α : Type} : List (Char × α) → List Char → List (Char × α)
  | [], _ => []
  | (k, v) :: r, seen => if seen.contains k then dedupC r seen else (k, v) :: dedupC r (k :: seen)

def dumpChan (k : Str) (c : Chan) : String :=
  enc k ++ "(u=" ++ encSet c.users ++ ";o=" ++ encSet c.ops ++ ";h=" ++ encSet c.halfops ++
    ";v=" ++ encSet c.voices ++ ";b=" ++ encSet c.bans ++ ";t=" ++ enc c.topic ++ ";m=" ++
    ",".intercalate (sortS ((dedupC c.modes []).map fun (m, v) => enc [m] ++ ":" ++ encOpt v)) ++
    ";c=" ++ toString c.created ++ ")"

def dumpBot (b : Bot) : String :=
  "N=" ++ enc b.nick ++ " P=" ++ enc b.pfx ++ " C=" ++
    " ".intercalate (sortS ((dedup b.channels []).map fun (k, c) => dumpChan k c)) ++ " H=" ++
    ",".intercalate (sortS ((dedup b.n2h []).map fun (k, v) => enc k ++ "=" ++ enc v)) ++
    " I=" ++ (match b.isup.chantypes with | none => "~" | some v => "s" ++ encOpt v) ++ "/" ++
      (match b.isup.channellen with | none => "~" | some none => "n" | some (some n) => toString n)

/-- the projection of the server state the bot's view has to equal -/
def viewChan (k : Str) (sc : SChan) : String :=
  let ms := sc.members
  enc k ++ "(u=" ++ encSet (ms.map (·.1)).eraseDups ++
    ";o=" ++ encSet ((ms.filter (·.2.o)).map (·.1)).eraseDups ++
    ";h=" ++ encSet ((ms.filter (·.2.h)).map (·.1)).eraseDups ++
    ";v=" ++ encSet ((ms.filter (·.2.v)).map (·.1)).eraseDups ++
    ";b=" ++ encSet (sc.bans.map lower).eraseDups ++ ";t=" ++ enc sc.topic ++ ";m=" ++
    ",".intercalate (sortS ((dedup (sc.modes.map fun (m, v) => ([m], v)) []).map fun (m, v) => enc m ++ ":" ++ encOpt v)) ++ ")"

def dumpSrv (s : Srv) : String :=
  let mine := (dedup s.chans []).filter (fun p => s.botIn p.2)
  let vis := (dedup s.users []).filter (fun p => s.visible p.1)
  "N=" ++ enc s.bot ++ " C=" ++ " ".intercalate (sortS (mine.map fun (k, sc) => viewChan k sc)) ++
    " H=" ++ ",".intercalate (sortS (vis.map fun (k, u) => enc k ++ "=" ++ enc u.mask)) ++
    " T=" ++ encSet s.told.eraseDups ++ " MS=" ++ encSet s.modesSynced.eraseDups ++ " BS=" ++ encSet s.bansSynced.eraseDups ++
    " Q=" ++ ",".intercalate (s.pending.map fun
      | .who c => "w" ++ enc c
      | .mode c => "m" ++ enc c
      | .bans c => "b" ++ enc c)

def encEv : Ev → String
  | .reset => "R"
  | .msg m => "M" ++ enc m.pfx ++ ":" ++ enc m.cmd ++ ":" ++ encList m.args

def decBool (f : String) : Option Bool :=
  if f = "1" then some true else if f = "0" then some false else none

def decChange (f : String) : Option MChange :=
  match f.splitOn ":" with
  | [sc, a] =>
    match sc.toList with
    | [sg, c] =>
      if sg = '+' ∨ sg = '-' then (decOpt a).map (fun a => ⟨sg = '+', c, a⟩) else none
    | _ => none
  | _ => none

def decChanges (f : String) : Option (List MChange) :=
  if f = "-" then some [] else (f.splitOn ",").mapM decChange

def decAct : List String → Option Act
  | ["connect", n, i, h] => do pure (.connect (← dec n) (← dec i) (← dec h))
  | ["join", n, cs] => do pure (.join (← dec n) (← decList cs))
  | ["part", n, cs, r] => do pure (.part (← dec n) (← decList cs) (← decOpt r))
  | ["kick", s, c, ts, r] => do pure (.kick (← dec s) (← dec c) (← decList ts) (← dec r))
  | ["quit", n, r] => do pure (.quit (← dec n) (← dec r))
  | ["nick", n, n'] => do pure (.nick (← dec n) (← dec n'))
  | ["mode", s, c, ch] => do pure (.mode (← dec s) (← dec c) (← decChanges ch))
  | ["topic", s, c, t] => do pure (.topic (← dec s) (← dec c) (← dec t))
  | ["chghost", n, i, h] => do pure (.chghost (← dec n) (← dec i) (← dec h))
  | ["say", n, t, x] => do pure (.say (← dec n) (← dec t) (← dec x))
  | ["isupport"] => some .isupport
  | ["names", c] => do pure (.names (← dec c))
  | ["who", c] => do pure (.who (← dec c))
  | ["modeis", c] => do pure (.modeis (← dec c))
  | ["banlist", c] => do pure (.banlist (← dec c))
  | ["serve"] => some .serve
  | ["reconnect"] => some .reconnect
  | _ => none

structure DState where
  srv : Srv
  fb : FBot
  ob : Option Str := none

def excStr : Exc → String
  | .none => "ok"
  | .irc => "irc-exc"
  | .state => "state-exc"

def encMsgs (ms : List Msg) : String :=
  if ms.isEmpty then "-" else ";".intercalate (ms.map fun m => enc m.cmd ++ ":" ++ encList m.args)

def dumpBB (bb : BBot) : String := dumpBot bb.bot ++ " B=" ++ encSet bb.batches.eraseDups

/-- … and who is identified from where -/
def dumpFB (fb : FBot) : String :=
  dumpBB fb.bb ++ " A=" ++ ";".intercalate (sortS (fb.db.map fun u => enc u.name ++ ":" ++ encSet u.auth))

/-- a database entry `name mask` (identified from `mask`) -/
def decDbUser (e : Str) : DbUser :=
  match splitChar ' ' e with
  | [n, m] => ⟨n, [m]⟩
  | n :: _ => ⟨n, []⟩
  | [] => ⟨[], []⟩

def encBEv : BEv → String
  | .plain e => encEv e
  | .tagged ref m => "T" ++ enc ref ++ ":" ++ enc m.pfx ++ ":" ++ enc m.cmd ++ ":" ++ encList m.args

/-- feed the events one by one, collecting the bot dump (and what the bot sends) after each -/
def feedDump (fb : FBot) : List BEv → FBot × List String × List Msg
  | [] => (fb, [], [])
  | e :: es =>
    let out := match e with
      | .plain (.msg m) => fb.bb.bot.out m
      | .tagged _ m => fb.bb.bot.out m
      | .plain .reset => []
    let b1 := fb.recv e
    let r := feedDump b1 es
    (r.1, (dumpFB b1 ++ " O=" ++ encMsgs out) :: r.2.1, out ++ r.2.2)

def defaultCfg : Cfg :=
  { server := "irc.srv".toList, multiPrefix := true, uhnames := false, extJoin := false, chghost := true,
    whox := true, batch := true, botNick := "test".toList, botIdent := "limnoria".toList, botHost := "bot.host".toList,
    namesPerLine := 3, chantypes := "#&".toList, channellen := "50".toList }

def runBAct (st : DState) (a : BAct) : DState × String :=
  let r := bstep st.srv st.ob a
  let fd := feedDump st.fb r.2.2
  let s1 := r.1.enqueue fd.2.2
  (⟨s1, fd.1, r.2.1⟩,
    (if r.2.2.isEmpty then "-" else "|".intercalate (r.2.2.map encBEv)) ++ "\t" ++
    (if fd.2.1.isEmpty then "-" else "|".intercalate fd.2.1) ++ "\t" ++ dumpSrv s1 ++
    " OB=" ++ encOpt r.2.1)

def step (st : DState) : List String → DState × String
  | ["init", server, mp, uh, ej, ch, wx, bt, n, i, h, npl, ct, cl, fo, db] =>
    match dec server, decBool mp, decBool uh, decBool ej, decBool ch, decBool wx, decBool bt, dec n, dec i, dec h, npl.toNat?, dec ct, dec cl,
        decBool fo, decList db with
    | some server, some mp, some uh, some ej, some ch, some wx, some bt, some n, some i, some h, some npl, some ct, some cl, some fo, some db =>
      let cfg : Cfg := ⟨server, mp, uh, ej, ch, wx, bt, n, i, h, npl, ct, cl⟩
      let fb : FBot := ⟨⟨Bot.init n i, []⟩, fo, db.map decDbUser⟩
      if cfg.valid then (⟨Srv.init cfg, fb, none⟩, "ok " ++ dumpFB fb ++ "\t" ++ dumpSrv (Srv.init cfg) ++ " OB=~")
      else (st, "bad-cfg")
    | _, _, _, _, _, _, _, _, _, _, _, _, _, _, _ => (st, "bad-op")
  | ["act", "batchopen", ref, ty, args] =>
    match dec ref, dec ty, decList args with
    | some ref, some ty, some args => runBAct st (.batchOpen ref ty args)
    | _, _, _ => (st, "bad-op")
  | ["act", "batchclose"] => runBAct st .batchClose
  | "act" :: rest =>
    match decAct rest with
    | none => (st, "bad-op")
    | some a => runBAct st (.act a)
  | ["msg", p, c, a, t] =>
    match dec p, dec c, decList a, decOpt t with
    | some p, some c, some a, some t =>
      let r := st.fb.feed t ⟨p, c, a⟩
      (⟨st.srv, r.1, st.ob⟩, excStr r.2 ++ "\t" ++ dumpFB r.1 ++ " O=" ++ encMsgs (st.fb.bb.bot.out ⟨p, c, a⟩))
    | _, _, _, _ => (st, "bad-op")
  | ["lower", s] => (st, match dec s with | some s => enc (lower s) | none => "bad-op")
  | ["ishm", s] => (st, match dec s with
      | some s => (if isUserHostmask s then "1" else "0") ++ "\t" ++
          (match splitHostmask s with | some (n, u, h) => enc n ++ ":" ++ enc u ++ ":" ++ enc h | none => "~")
      | none => "bad-op")
  | "sep" :: [a] => (st, match decList a with
      | some a => if (separateModes a).isEmpty then "-" else
          ",".intercalate ((separateModes a).map fun (s, c, v) => enc [s, c] ++ ":" ++ encOpt v)
      | none => "bad-op")
  | ["ischan", s] => (st, match dec s with | some s => (if isChannel s then "1" else "0") | none => "bad-op")
  | _ => (st, "bad-op")

def handler : Driver.Handler :=
  { σ := DState, init := ⟨Srv.init defaultCfg, ⟨⟨Bot.init defaultCfg.botNick defaultCfg.botIdent, []⟩, false, []⟩, none⟩, step := step }
end C10
