/-
C10 — simulation, part 4: JOIN of another user (multi-target), QUIT, NICK.
-/
import LimnoriaModel.C10.Sim3
namespace C10
open Py

theorem nick_noSigil {n : Str} (h : NickOK n) : (∀ c ∈ n, c ∉ Gen.sigilsStrip) ∧ (∀ c ∈ n, c ∉ Gen.sigilsLoop) ∧
    (∀ c ∈ n, c ∉ Gen.sigils353) :=
  ⟨fun c hc hs => h.nobad c hc (sigils_not_in_nicks.1 c hs),
   fun c hc hs => h.nobad c hc (sigils_not_in_nicks.2.1 c hs),
   fun c hc hs => h.nobad c hc (sigils_not_in_nicks.2.2 c hs)⟩

/-- `addUser` of a bare nick only adds it to `users` -/
theorem addUser_plain {n : Str} (h : NickOK n) (c : Chan) : c.addUser n = { c with users := sadd c.users (lower n) } := by
  cases n with
  | nil => exact absurd rfl h.ne
  | cons a t =>
    have h1 : decide (a ∈ Gen.sigilsStrip) = false := by simpa using (nick_noSigil h).1 a (by simp)
    have h2 : decide (a ∈ Gen.sigilsLoop) = false := by simpa using (nick_noSigil h).2.1 a (by simp)
    unfold Chan.addUser
    simp only [lstripP, List.dropWhile_cons, h1, Bool.false_eq_true, ↓reduceIte, List.isEmpty_cons,
      List.takeWhile_cons, h2, List.foldl_nil]

theorem joinOne_fields (nick : Str) (b : Bot) (name : Str) :
    (Bot.joinOne nick b name).nick = b.nick ∧ (Bot.joinOne nick b name).pfx = b.pfx ∧
    (Bot.joinOne nick b name).n2h = b.n2h ∧ (Bot.joinOne nick b name).cfgNick = b.cfgNick ∧
    (Bot.joinOne nick b name).cfgIdent = b.cfgIdent := by
  unfold Bot.joinOne
  split
  · exact ⟨rfl, rfl, rfl, rfl, rfl⟩
  · split <;> exact ⟨rfl, rfl, rfl, rfl, rfl⟩

theorem foldl_joinOne_n2h (nick : Str) (names : List Str) (b : Bot) :
    (names.foldl (Bot.joinOne nick) b).n2h = b.n2h := by
  induction names generalizing b with
  | nil => rfl
  | cons n ns ih => rw [List.foldl_cons, ih, (joinOne_fields nick b n).2.2.1]

/-- JOIN of user `k` (not the bot), channel by channel, against the bot executing the JOIN for the
channels it is on -/
theorem joinOthers_sim (k : Str) (u : SUser) (hk : lower u.nick = k) (cs : List Str) :
    ∀ (s : Srv) (b : Bot), SrvWF s → Coupled s b → aget s.users k = some u → k ≠ s.botKey →
      ((s.joinOthers k cs).2 ≠ [] → aget b.n2h k = some u.mask) →
      Coupled (s.joinOthers k cs).1 ((s.joinOthers k cs).2.foldl (Bot.joinOne u.nick) b) ∧
      (∀ n ∈ (s.joinOthers k cs).2, ',' ∉ n) := by
  induction cs with
  | nil => intro s b _ hc _ _ _; exact ⟨hc, by simp [Srv.joinOthers]⟩
  | cons c cs ih =>
    intro s b hw hc hu hkb hn2h
    unfold Srv.joinOthers at hn2h ⊢
    have huo := hw.uok hu
    cases he : s.enter k c with
    | none =>
      simp only [he] at hn2h ⊢
      exact ih s b hw hc hu hkb hn2h
    | some r =>
      obtain ⟨s1, name⟩ := r
      simp only [he] at hn2h ⊢
      have hw1 : SrvWF s1 := enter_wf hw (by simp [hu]) he
      have hus1 := enter_users he
      have hu1 : aget s1.users k = some u := by rw [hus1.1]; exact hu
      have hkb1 : k ≠ s1.botKey := by simp only [Srv.botKey, hus1.2.1]; exact hkb
      -- what `enter` did
      unfold Srv.enter at he
      split at he
      · cases he
      · rename_i hvalid
        simp only [Bool.not_eq_eq_eq_not, Bool.not_true, Bool.not_eq_false] at hvalid
        have hrel := hc.chans (lower c)
        cases hch : s.chan c with
        | none =>
          -- a new channel: the bot is not on it
          rw [Srv.chan_eq] at hch
          simp only [Srv.chan_eq, hch] at he
          cases he
          simp only [Srv.chan_eq, hch, Option.any_none, Bool.false_eq_true, ↓reduceIte] at hn2h ⊢
          rw [hch] at hrel
          have hbn : aget b.channels (lower c) = none := by
            cases hbc : aget b.channels (lower c) with
            | none => rfl
            | some ch => rw [hbc] at hrel; simp only [ChanRel] at hrel
          have hcoup : Coupled { s with chans := aset s.chans (lower c) { name := c, members := [(k, { o := true })] } } b := by
            refine coupled_update' hc hw.chansNodup (lower c) rfl rfl rfl (nodup_akeys_aset hw.chansNodup _ _)
              (fun k' hk' => aget_aset_ne _ _ (Ne.symm hk')) (fun _ _ => rfl) ?_ rfl rfl rfl rfl rfl ?_ ?_
            · rw [aget_aset_self, hbn]
              simp only [ChanRel]
              rw [has_false_iff]
              intro f hf
              simp only [List.mem_singleton, Prod.mk.injEq] at hf
              exact hkb hf.1.symm
            · intro sc0 _ h0; rw [hch] at h0; cases h0
            · intro sc' _ h'
              rw [aget_aset_self] at h'; cases h'
              rw [has_false_iff]
              intro f hf
              simp only [List.mem_singleton, Prod.mk.injEq] at hf
              exact hkb hf.1.symm
          exact ih _ b hw1 hcoup hu1 hkb1 hn2h
        | some sc =>
          rw [Srv.chan_eq] at hch
          simp only [Srv.chan_eq, hch] at he
          split at he
          · cases he
          · rename_i hnot
            cases he
            have hcw := hw.chans _ _ hch
            rw [hch] at hrel
            have hnot' : sc.has k = false := by simpa using hnot
            simp only [Srv.chan_eq, hch, Option.any_some] at hn2h ⊢
            by_cases hb : s.botIn sc = true
            · -- the bot is on the channel and sees the JOIN
              simp only [hb, ↓reduceIte, List.foldl_cons] at hn2h ⊢
              have hb' : sc.has s.botKey = true := hb
              have hn := hn2h (by simp)
              cases hbc : aget b.channels (lower c) with
              | none => rw [hbc] at hrel; simp only [ChanRel] at hrel; rw [hb'] at hrel; cases hrel
              | some ch =>
                rw [hbc] at hrel
                have hchan : b.chan sc.name = some ch := by rw [Bot.chan, hcw.key]; exact hbc
                have hcoup : Coupled { s with chans := aset s.chans (lower c) { sc with members := sc.members ++ [(k, {})] } }
                    (Bot.joinOne u.nick b sc.name) := by
                  unfold Bot.joinOne
                  simp only [hchan, Bot.setChan, hcw.key, addUser_plain huo.nick, hk]
                  refine coupled_update hc (lower c) rfl rfl rfl (nodup_akeys_aset hw.chansNodup _ _)
                    (fun k' hk' => aget_aset_ne _ _ (Ne.symm hk')) (fun k' hk' => aget_aset_ne _ _ (Ne.symm hk')) ?_ rfl rfl rfl
                    (fun _ _ _ h => h) ?_ (fun _ _ h => h) ?_
                  · simp only [aget_aset_self, ChanRel]
                    refine ⟨?_, ?_⟩
                    · rw [has_iff] at hb' ⊢
                      obtain ⟨f, hf⟩ := hb'
                      exact ⟨f, List.mem_append_left _ hf⟩
                    · have hm := hrel.2
                      refine ⟨?_, ?_, ?_, ?_, hm.topic, hm.modes, hm.bans⟩
                      · intro x
                        simp only [mem_sadd, hm.users, List.mem_append, List.mem_singleton, Prod.mk.injEq]
                        constructor
                        · rintro (rfl | ⟨f, hf⟩)
                          · exact ⟨{}, Or.inr ⟨rfl, rfl⟩⟩
                          · exact ⟨f, Or.inl hf⟩
                        · rintro ⟨f, hf | ⟨rfl, _⟩⟩
                          · exact Or.inr ⟨f, hf⟩
                          · exact Or.inl rfl
                      · intro x
                        simp only [hm.ops, List.mem_append, List.mem_singleton, Prod.mk.injEq]
                        constructor
                        · rintro ⟨f, hf, ho⟩; exact ⟨f, Or.inl hf, ho⟩
                        · rintro ⟨f, hf | ⟨_, rfl⟩, ho⟩
                          · exact ⟨f, hf, ho⟩
                          · cases ho
                      · intro x
                        simp only [hm.halfops, List.mem_append, List.mem_singleton, Prod.mk.injEq]
                        constructor
                        · rintro ⟨f, hf, ho⟩; exact ⟨f, Or.inl hf, ho⟩
                        · rintro ⟨f, hf | ⟨_, rfl⟩, ho⟩
                          · exact ⟨f, hf, ho⟩
                          · cases ho
                      · intro x
                        simp only [hm.voices, List.mem_append, List.mem_singleton, Prod.mk.injEq]
                        constructor
                        · rintro ⟨f, hf, ho⟩; exact ⟨f, Or.inl hf, ho⟩
                        · rintro ⟨f, hf | ⟨_, rfl⟩, ho⟩
                          · exact ⟨f, hf, ho⟩
                          · cases ho
                  · intro sc' k' u' h' _ hk' hu'
                    rw [aget_aset_self] at h'; cases h'
                    rw [has_iff] at hk'
                    obtain ⟨f, hf⟩ := hk'
                    simp only [List.mem_append, List.mem_singleton, Prod.mk.injEq] at hf
                    rcases hf with hf | ⟨rfl, _⟩
                    · apply hc.hosts k' u' hu'
                      exact (visible_iff hw.chansNodup).mpr ⟨lower c, sc, hch, hb', has_iff.mpr ⟨f, hf⟩⟩
                    · rw [hu] at hu'; cases hu'; exact hn
                  · intro sc' h' _
                    exact hc.pfx (lower c) sc hch hb'
                obtain ⟨ih1, ih2⟩ := ih _ _ hw1 hcoup hu1 hkb1
                  (fun _ => by rw [(joinOne_fields u.nick b sc.name).2.2.1]; exact hn)
                refine ⟨ih1, ?_⟩
                intro n hn'
                simp only [List.mem_cons] at hn'
                rcases hn' with rfl | hn'
                · exact chan_noComma_of_valid hcw.name
                · exact ih2 n hn'
            · -- the bot is not on that channel
              simp only [hb, Bool.false_eq_true, ↓reduceIte] at hn2h ⊢
              have hb' : sc.has s.botKey = false := by simpa [Srv.botIn] using hb
              have hbn : aget b.channels (lower c) = none := by
                cases hbc : aget b.channels (lower c) with
                | none => rfl
                | some ch => rw [hbc] at hrel; simp only [ChanRel] at hrel; rw [hb'] at hrel; exact absurd hrel.1 (by simp)
              have hnb : ({ sc with members := sc.members ++ [(k, {})] } : SChan).has s.botKey = false := by
                rw [has_false_iff] at hb' ⊢
                intro f hf
                simp only [List.mem_append, List.mem_singleton, Prod.mk.injEq] at hf
                rcases hf with hf | ⟨e, _⟩
                · exact hb' f hf
                · exact hkb e.symm
              have hcoup : Coupled { s with chans := aset s.chans (lower c) { sc with members := sc.members ++ [(k, {})] } } b := by
                refine coupled_update' hc hw.chansNodup (lower c) rfl rfl rfl (nodup_akeys_aset hw.chansNodup _ _)
                  (fun k' hk' => aget_aset_ne _ _ (Ne.symm hk')) (fun _ _ => rfl) ?_ rfl rfl rfl rfl rfl ?_ ?_
                · rw [aget_aset_self, hbn]; simp only [ChanRel]; exact hnb
                · intro sc0 sc' h0 h' hb''
                  rw [aget_aset_self] at h'; cases h'
                  rw [hnb] at hb''; cases hb''
                · intro sc' h0; rw [hch] at h0; cases h0
              exact ih _ b hw1 hcoup hu1 hkb1 hn2h

theorem joinArgs_cons (cfg : Cfg) (names : Str) : ∃ rest, joinArgs cfg names = names :: rest := by
  unfold joinArgs; split <;> exact ⟨_, rfl⟩

theorem coupled_join_others {s : Srv} {b : Bot} (hw : SrvWF s) (hc : Coupled s b) (n : Str) (cs : List Str)
    {u : SUser} (hu : aget s.users (lower n) = some u) (hnb : lower n ≠ s.botKey) :
    Coupled (s.joinOthers (lower n) cs).1
      (b.recvAll (if (s.joinOthers (lower n) cs).2.isEmpty then []
        else [emit u.mask "JOIN" (joinArgs s.cfg (commaJoin (s.joinOthers (lower n) cs).2))])) := by
  have hkey := (hw.userOK hu).1
  by_cases hemp : (s.joinOthers (lower n) cs).2.isEmpty = true
  · simp only [hemp, ↓reduceIte, recvAll_nil]
    have he : (s.joinOthers (lower n) cs).2 = [] := by simpa using hemp
    have := (joinOthers_sim (lower n) u hkey cs s b hw hc hu hnb (fun h => absurd he h)).1
    rw [he] at this; exact this
  · simp only [hemp, Bool.false_eq_true, ↓reduceIte, recvAll_cons, recv_emit, recvAll_nil]
    obtain ⟨rest, hargs⟩ := joinArgs_cons s.cfg (commaJoin (s.joinOthers (lower n) cs).2)
    obtain ⟨hc0, hfeed⟩ := feed_from_user hw hc hu "JOIN".toList (joinArgs s.cfg (commaJoin (s.joinOthers (lower n) cs).2))
      (setters_out_ok "JOIN".toList (by decide)) (by decide)
      (fun b0 => by simp only [Bot.ircCmd, cmdOf_JOIN, hargs]; split <;> rfl)
    rw [hfeed]
    have hn2h : aget (b.seen u).n2h (lower n) = some u.mask := by
      show aget (aset b.n2h (lower u.nick) u.mask) (lower n) = _
      rw [hkey, aget_aset_self]
    obtain ⟨h1, h2⟩ := joinOthers_sim (lower n) u hkey cs s (b.seen u) hw hc0 hu hnb (fun _ => hn2h)
    have hsplit : splitChar ',' (commaJoin (s.joinOthers (lower n) cs).2) = (s.joinOthers (lower n) cs).2 := by
      apply splitChar_joinChar
      · intro e; apply hemp; simp [e]
      · exact h2
    simp only [Bot.stateCmd, cmdOf_JOIN, Bot.doJoin, hargs, hsplit, msg_nick_user (hw.uok hu)]
    exact h1

end C10
