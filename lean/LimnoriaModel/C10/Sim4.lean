/-
C10 — simulation, part 4: JOIN of another user (multi-target), QUIT, NICK.
-/
import LimnoriaModel.C10.Sim3
namespace C10
open Py

theorem nick_noSigil {n : Str} (h : NickOK n) : (∀ c ∈ n, c ∉ Gen.sigilsStrip) ∧ (∀ c ∈ n, c ∉ Gen.sigilsLoop) ∧
    (∀ c ∈ n, c ∉ Gen.sigils353) :=
  ⟨fun c hc hs => h.nobad c hc (sigils_not_in_nicks.1 c hs),
   fun c hc hs => h.nobad c hc (sigils_not_in_nicks.2.1 c hs),
   fun c hc hs => h.nobad c hc (sigils_not_in_nicks.2.2 c hs)⟩

/-- `addUser` of a bare nick only adds it to `users` -/
theorem addUser_plain {n : Str} (h : NickOK n) (c : Chan) : c.addUser n = { c with users := sadd c.users (lower n) } := by
  cases n with
  | nil => exact absurd rfl h.ne
  | cons a t =>
    have h1 : decide (a ∈ Gen.sigilsStrip) = false := by simpa using (nick_noSigil h).1 a (by simp)
    have h2 : decide (a ∈ Gen.sigilsLoop) = false := by simpa using (nick_noSigil h).2.1 a (by simp)
    unfold Chan.addUser
    simp only [lstripP, List.dropWhile_cons, h1, Bool.false_eq_true, ↓reduceIte, List.isEmpty_cons,
      List.takeWhile_cons, h2, List.foldl_nil]

theorem joinOne_fields (nick : Str) (b : Bot) (name : Str) :
    (Bot.joinOne nick b name).nick = b.nick ∧ (Bot.joinOne nick b name).pfx = b.pfx ∧
    (Bot.joinOne nick b name).n2h = b.n2h ∧ (Bot.joinOne nick b name).cfgNick = b.cfgNick ∧
    (Bot.joinOne nick b name).cfgIdent = b.cfgIdent ∧ (Bot.joinOne nick b name).isup = b.isup := by
  unfold Bot.joinOne
  split
  · exact ⟨rfl, rfl, rfl, rfl, rfl, rfl⟩
  · split <;> exact ⟨rfl, rfl, rfl, rfl, rfl, rfl⟩

theorem foldl_joinOne_n2h (nick : Str) (names : List Str) (b : Bot) :
    (names.foldl (Bot.joinOne nick) b).n2h = b.n2h := by
  induction names generalizing b with
  | nil => rfl
  | cons n ns ih => rw [List.foldl_cons, ih, (joinOne_fields nick b n).2.2.1]

theorem Tracks.append_true {full : Prop} {S : List Str} {ms : List (Str × Flags)} {P : Flags → Prop}
    (h : Tracks full S ms P) (k : Str) (f0 : Flags) (hp : P f0) : Tracks full (sadd S k) (ms ++ [(k, f0)]) P where
  sub := fun x hx => by
    rcases mem_sadd.mp hx with rfl | hx
    · exact ⟨f0, by simp, hp⟩
    · obtain ⟨f, hf, hpf⟩ := h.sub x hx
      exact ⟨f, List.mem_append_left _ hf, hpf⟩
  sup := fun hfull x ⟨f, hf, hpf⟩ => by
    rcases List.mem_append.mp hf with hf | hf
    · exact mem_sadd.mpr (Or.inr (h.sup hfull x ⟨f, hf, hpf⟩))
    · simp only [List.mem_singleton, Prod.mk.injEq] at hf
      exact mem_sadd.mpr (Or.inl hf.1)

theorem Tracks.append_false {full : Prop} {S : List Str} {ms : List (Str × Flags)} {P : Flags → Prop}
    (h : Tracks full S ms P) (k : Str) (f0 : Flags) (hp : ¬ P f0) : Tracks full S (ms ++ [(k, f0)]) P where
  sub := fun x hx => by
    obtain ⟨f, hf, hpf⟩ := h.sub x hx
    exact ⟨f, List.mem_append_left _ hf, hpf⟩
  sup := fun hfull x ⟨f, hf, hpf⟩ => by
    rcases List.mem_append.mp hf with hf | hf
    · exact h.sup hfull x ⟨f, hf, hpf⟩
    · simp only [List.mem_singleton, Prod.mk.injEq] at hf
      rw [hf.2] at hpf; exact absurd hpf hp

/-- what the bot knows about users the server has shown it stays right when one more is shown -/
theorem coupled_told_add {s : Srv} {b : Bot} (hc : Coupled s b) {k : Str}
    (hk : ∀ u, aget s.users k = some u → aget b.n2h k = some u.mask) :
    Coupled { s with told := sadd s.told k } b := by
  refine ⟨hc.nick, hc.chans, ?_, hc.pfx, hc.cfgNick, hc.cfgIdent, hc.isup⟩
  intro k' u hu ht
  have ht' : k' ∈ sadd s.told k := ht
  rcases mem_sadd.mp ht' with rfl | h
  · exact hk u hu
  · exact hc.hosts k' u hu h

/-- JOIN of user `k` (not the bot), channel by channel, against the bot executing the JOIN for the
channels it is on -/
theorem joinOthers_sim (k : Str) (u : SUser) (hk : lower u.nick = k) (cs : List Str) :
    ∀ (s : Srv) (b : Bot), SrvWF s → Coupled s b → aget s.users k = some u → k ≠ s.botKey →
      Coupled (s.joinOthers k cs).1 ((s.joinOthers k cs).2.foldl (Bot.joinOne u.nick) b) ∧
      (∀ n ∈ (s.joinOthers k cs).2, ',' ∉ n) ∧ (s.joinOthers k cs).1.users = s.users := by
  induction cs with
  | nil => intro s b _ hc _ _; exact ⟨hc, by simp [Srv.joinOthers], rfl⟩
  | cons c cs ih =>
    intro s b hw hc hu hkb
    unfold Srv.joinOthers
    have huo := hw.uok hu
    cases he : s.enter k c with
    | none =>
      simp only []
      exact ih s b hw hc hu hkb
    | some r =>
      obtain ⟨s1, name⟩ := r
      simp only []
      have hw1 : SrvWF s1 := enter_wf hw (by simp [hu]) he
      have hus1 := enter_users he
      have hu1 : aget s1.users k = some u := by rw [hus1.1]; exact hu
      have hkb1 : k ≠ s1.botKey := by simp only [Srv.botKey, hus1.2.1]; exact hkb
      -- what `enter` did
      unfold Srv.enter at he
      split at he
      · cases he
      · rename_i hvalid
        simp only [Bool.not_eq_eq_eq_not, Bool.not_true, Bool.not_eq_false] at hvalid
        have hrel := hc.chans (lower c)
        cases hch : s.chan c with
        | none =>
          -- a new channel: the bot is not on it
          rw [Srv.chan_eq] at hch
          simp only [Srv.chan_eq, hch] at he
          cases he
          simp only [Srv.chan_eq, hch, Option.any_none, Bool.false_eq_true, ↓reduceIte]
          rw [hch] at hrel
          have hbn : aget b.channels (lower c) = none := by
            cases hbc : aget b.channels (lower c) with
            | none => rfl
            | some ch => rw [hbc] at hrel; simp only [ChanRel] at hrel
          have hcoup : Coupled { s with chans := aset s.chans (lower c) { name := c, members := [(k, { o := true })] } } b := by
            refine coupled_update' hc (lower c) rfl rfl rfl rfl rfl rfl
              (fun k' hk' => aget_aset_ne _ _ (Ne.symm hk')) (fun _ _ => rfl) ?_ rfl rfl rfl rfl rfl rfl ?_ ?_
            · rw [aget_aset_self, hbn]
              simp only [ChanRel]
              rw [has_false_iff]
              intro f hf
              simp only [List.mem_singleton, Prod.mk.injEq] at hf
              exact hkb hf.1.symm
            · intro sc0 _ h0; rw [hch] at h0; cases h0
            · intro sc' _ h'
              rw [aget_aset_self] at h'; cases h'
              rw [has_false_iff]
              intro f hf
              simp only [List.mem_singleton, Prod.mk.injEq] at hf
              exact hkb hf.1.symm
          obtain ⟨i1, i2, i3⟩ := ih _ b hw1 hcoup hu1 hkb1
          exact ⟨i1, i2, i3⟩
        | some sc =>
          rw [Srv.chan_eq] at hch
          simp only [Srv.chan_eq, hch] at he
          split at he
          · cases he
          · rename_i hnot
            cases he
            have hcw := hw.chans _ _ hch
            rw [hch] at hrel
            have hnot' : sc.has k = false := by simpa using hnot
            simp only [Srv.chan_eq, hch, Option.any_some]
            by_cases hb : s.botIn sc = true
            · -- the bot is on the channel and sees the JOIN
              simp only [hb, ↓reduceIte, List.foldl_cons]
              have hb' : sc.has s.botKey = true := hb
              cases hbc : aget b.channels (lower c) with
              | none => rw [hbc] at hrel; simp only [ChanRel] at hrel; rw [hb'] at hrel; cases hrel
              | some ch =>
                rw [hbc] at hrel
                have hchan : b.chan sc.name = some ch := by rw [Bot.chan, hcw.key]; exact hbc
                have hcoup : Coupled { s with chans := aset s.chans (lower c) { sc with members := sc.members ++ [(k, {})] } }
                    (Bot.joinOne u.nick b sc.name) := by
                  unfold Bot.joinOne
                  simp only [hchan, Bot.setChan, hcw.key, addUser_plain huo.nick, hk]
                  refine coupled_update' hc (lower c) rfl rfl rfl rfl rfl rfl
                    (fun k' hk' => aget_aset_ne _ _ (Ne.symm hk')) (fun k' hk' => aget_aset_ne _ _ (Ne.symm hk')) ?_ rfl rfl rfl rfl rfl rfl ?_ ?_
                  · simp only [aget_aset_self, ChanRel]
                    refine ⟨?_, ?_⟩
                    · rw [has_iff] at hb' ⊢
                      obtain ⟨f, hf⟩ := hb'
                      exact ⟨f, List.mem_append_left _ hf⟩
                    · have hm := hrel.2
                      exact ⟨hm.users.append_true k {} trivial, hm.ops.append_false k {} (by simp),
                        hm.halfops.append_false k {} (by simp), hm.voices.append_false k {} (by simp),
                        hm.topic, hm.modes, hm.modesFull, hm.bans, hm.bansFull⟩
                  · intro sc0 sc' h0 _ _
                    rw [hch] at h0; cases h0; exact hb'
                  · intro sc' h0; rw [hch] at h0; cases h0
                obtain ⟨ih1, ih2, ih3⟩ := ih _ _ hw1 hcoup hu1 hkb1
                refine ⟨ih1, ?_, ih3⟩
                intro n hn'
                simp only [List.mem_cons] at hn'
                rcases hn' with rfl | hn'
                · exact chan_noComma_of_valid hcw.name
                · exact ih2 n hn'
            · -- the bot is not on that channel
              simp only [hb, Bool.false_eq_true, ↓reduceIte]
              have hb' : sc.has s.botKey = false := by simpa [Srv.botIn] using hb
              have hbn : aget b.channels (lower c) = none := by
                cases hbc : aget b.channels (lower c) with
                | none => rfl
                | some ch => rw [hbc] at hrel; simp only [ChanRel] at hrel; rw [hb'] at hrel; exact absurd hrel.1 (by simp)
              have hnb : ({ sc with members := sc.members ++ [(k, {})] } : SChan).has s.botKey = false := by
                rw [has_false_iff] at hb' ⊢
                intro f hf
                simp only [List.mem_append, List.mem_singleton, Prod.mk.injEq] at hf
                rcases hf with hf | ⟨e, _⟩
                · exact hb' f hf
                · exact hkb e.symm
              have hcoup : Coupled { s with chans := aset s.chans (lower c) { sc with members := sc.members ++ [(k, {})] } } b := by
                refine coupled_update' hc (lower c) rfl rfl rfl rfl rfl rfl
                  (fun k' hk' => aget_aset_ne _ _ (Ne.symm hk')) (fun _ _ => rfl) ?_ rfl rfl rfl rfl rfl rfl ?_ ?_
                · rw [aget_aset_self, hbn]; simp only [ChanRel]; exact hnb
                · intro sc0 sc' h0 h' hb''
                  rw [aget_aset_self] at h'; cases h'
                  rw [hnb] at hb''; cases hb''
                · intro sc' h0; rw [hch] at h0; cases h0
              obtain ⟨i1, i2, i3⟩ := ih _ b hw1 hcoup hu1 hkb1
              exact ⟨i1, i2, i3⟩

theorem joinArgs_cons (cfg : Cfg) (names : Str) : ∃ rest, joinArgs cfg names = names :: rest := by
  unfold joinArgs; split <;> exact ⟨_, rfl⟩

theorem foldl_joinOne_fields (nick : Str) (names : List Str) (b : Bot) :
    (names.foldl (Bot.joinOne nick) b).n2h = b.n2h := by
  induction names generalizing b with
  | nil => rfl
  | cons n ns ih => rw [List.foldl_cons, ih, (joinOne_fields nick b n).2.2.1]

theorem coupled_join_others {s : Srv} {b : Bot} (hw : SrvWF s) (hc : Coupled s b) (n : Str) (cs : List Str)
    {u : SUser} (hu : aget s.users (lower n) = some u) (hnb : lower n ≠ s.botKey) :
    Coupled
      (if (s.joinOthers (lower n) cs).2.isEmpty then ((s.joinOthers (lower n) cs).1, ([] : List Ev))
        else ({ (s.joinOthers (lower n) cs).1 with told := sadd (s.joinOthers (lower n) cs).1.told (lower n) },
              [emit u.mask "JOIN" (joinArgs s.cfg (commaJoin (s.joinOthers (lower n) cs).2))])).1
      (b.recvAll (if (s.joinOthers (lower n) cs).2.isEmpty then ((s.joinOthers (lower n) cs).1, ([] : List Ev))
        else ({ (s.joinOthers (lower n) cs).1 with told := sadd (s.joinOthers (lower n) cs).1.told (lower n) },
              [emit u.mask "JOIN" (joinArgs s.cfg (commaJoin (s.joinOthers (lower n) cs).2))])).2) := by
  have hkey := (hw.userOK hu).1
  by_cases hemp : (s.joinOthers (lower n) cs).2.isEmpty = true
  · simp only [hemp, ↓reduceIte, recvAll_nil]
    have he : (s.joinOthers (lower n) cs).2 = [] := by simpa using hemp
    have := (joinOthers_sim (lower n) u hkey cs s b hw hc hu hnb).1
    rw [he] at this; exact this
  · simp only [hemp, Bool.false_eq_true, ↓reduceIte, recvAll_cons, recv_emit, recvAll_nil]
    obtain ⟨rest, hargs⟩ := joinArgs_cons s.cfg (commaJoin (s.joinOthers (lower n) cs).2)
    obtain ⟨hc0, hfeed⟩ := feed_from_user hw hc hu "JOIN".toList (joinArgs s.cfg (commaJoin (s.joinOthers (lower n) cs).2))
      (setters_out_ok "JOIN".toList (by decide)) (by decide)
      (fun b0 => by simp only [Bot.ircCmd, cmdOf_JOIN, hargs]; split <;> rfl)
    rw [hfeed]
    obtain ⟨h1, h2, h3⟩ := joinOthers_sim (lower n) u hkey cs s (b.seen u) hw hc0 hu hnb
    have hsplit : splitChar ',' (commaJoin (s.joinOthers (lower n) cs).2) = (s.joinOthers (lower n) cs).2 := by
      apply splitChar_joinChar
      · intro e; apply hemp; simp [e]
      · exact h2
    simp only [Bot.stateCmd, cmdOf_JOIN, Bot.doJoin, hargs, hsplit, msg_nick_user (hw.uok hu)]
    apply coupled_told_add h1
    intro u' hu'
    rw [h3, hu] at hu'; cases hu'
    rw [foldl_joinOne_fields, ← hkey]
    exact seen_n2h b u

/-! ### PRIVMSG: nothing changes but the sender's hostmask is recorded -/

theorem cmdOf_PRIVMSG : cmdOf "PRIVMSG".toList = .other := by decide

theorem coupled_say {s : Srv} {b : Bot} (hw : SrvWF s) (hc : Coupled s b) (n t x : Str) :
    Coupled (s.step (.say n t x)).1 (b.recvAll (s.step (.say n t x)).2) := by
  simp only [Srv.step]
  split
  · exact hc
  · rename_i u hu
    rw [Srv.user_eq] at hu
    split
    · exact hc
    · split
      · simp only [recvAll_cons, recv_emit, recvAll_nil]
        obtain ⟨hc0, hfeed⟩ := feed_from_user hw hc hu "PRIVMSG".toList
          [if lower t = s.botKey then s.bot else ((s.chan t).map (·.name)).getD t, x]
          (setters_out_ok "PRIVMSG".toList (by decide)) (by decide) (fun b0 => by simp only [Bot.ircCmd, cmdOf_PRIVMSG])
        rw [hfeed]
        simp only [Bot.stateCmd, cmdOf_PRIVMSG]
        apply coupled_told_add hc0
        intro u' hu'
        rw [hu] at hu'; cases hu'
        rw [← (hw.userOK hu).1]
        exact seen_n2h b u
      · exact hc

/-! ### QUIT -/

theorem Tracks.remove_absent {full : Prop} {S : List Str} {ms : List (Str × Flags)} {P : Flags → Prop}
    (h : Tracks full S ms P) {k : Str} (hk : ∀ f, (k, f) ∉ ms) : Tracks full S (ms.filter (fun p => p.1 != k)) P where
  sub := fun x hx => by
    obtain ⟨f, hf, hp⟩ := h.sub x hx
    refine ⟨f, List.mem_filter.mpr ⟨hf, ?_⟩, hp⟩
    simp only [bne_iff_ne, ne_eq]
    intro e; subst e; exact hk f hf
  sup := fun hfull x ⟨f, hf, hp⟩ => h.sup hfull x ⟨f, (List.mem_filter.mp hf).1, hp⟩

/-- removing a nick that is not on the channel changes nothing the view can see -/
theorem chanMatches_remove_absent {mp ms bs : Bool} {sc : SChan} {ch : Chan} (h : ChanMatches mp ms bs sc ch) {k : Str}
    (hk : sc.has k = false) : ChanMatches mp ms bs (sc.remove k) ch := by
  rw [has_false_iff] at hk
  exact ⟨h.users.remove_absent hk, h.ops.remove_absent hk, h.halfops.remove_absent hk, h.voices.remove_absent hk,
    h.topic, h.modes, h.modesFull, h.bans, h.bansFull⟩

theorem coupled_quit {s : Srv} {b : Bot} (hw : SrvWF s) (hc : Coupled s b) (n r : Str) :
    Coupled (s.step (.quit n r)).1 (b.recvAll (s.step (.quit n r)).2) := by
  simp only [Srv.step]
  split
  · exact hc
  · rename_i u hu
    rw [Srv.user_eq] at hu
    split
    · exact hc
    · rename_i hcond
      simp only [Bool.or_eq_true, decide_eq_true_eq, Bool.not_eq_eq_eq_not, Bool.not_true, not_or, Bool.not_eq_false] at hcond
      obtain ⟨hnb, _⟩ := hcond
      have hkey := (hw.userOK hu).1
      have huo := hw.uok hu
      have hnown : ¬ u.nick = b.nick := fun e => hnb ((own_iff hw hc hu).mp e)
      -- the generic argument: any bot state `b1` that is `b` with the quitter removed where the bot saw him
      have hgen : ∀ (b1 : Bot), b1.nick = b.nick → b1.pfx = b.pfx → b1.cfgNick = b.cfgNick → b1.cfgIdent = b.cfgIdent → b1.isup = b.isup →
          (∀ x, x ≠ lower n → aget b1.n2h x = aget b.n2h x) →
          (∀ kc, aget b1.channels kc = (aget b.channels kc).map (fun c => if lower n ∈ c.users then c.removeUser u.nick else c)) →
          Coupled { s.dropEverywhere (lower n) with users := adel s.users (lower n), told := sdel s.told (lower n) } b1 := by
        intro b1 h1 h2 h3 h4 hs h5 h6
        refine ⟨by rw [h1]; exact hc.nick, ?_, ?_, ?_, by rw [h3]; exact hc.cfgNick, by rw [h4]; exact hc.cfgIdent, by rw [hs]; exact hc.isup⟩
        · intro kc
          show ChanRel _ kc (aget (s.dropEverywhere (lower n)).chans kc) _
          rw [aget_dropEverywhere hw.chansNodup, h6 kc]
          have hrel := hc.chans kc
          have hbk : ({ s.dropEverywhere (lower n) with users := adel s.users (lower n), told := sdel s.told (lower n) } : Srv).botKey = s.botKey := rfl
          cases hsc : aget s.chans kc with
          | none =>
            rw [hsc] at hrel
            cases hbc : aget b.channels kc with
            | none => simp [ChanRel, Option.filter]
            | some ch => rw [hbc] at hrel; simp only [ChanRel] at hrel
          | some sc =>
            rw [hsc] at hrel
            cases hbc : aget b.channels kc with
            | none =>
              rw [hbc] at hrel
              simp only [ChanRel] at hrel
              simp only [Option.map_some, Option.filter, Option.map_none]
              split
              · simp only [ChanRel, hbk]
                rw [← Bool.not_eq_true]; intro hcon
                rw [has_remove_of hcon] at hrel; cases hrel
              · trivial
            | some ch =>
              rw [hbc] at hrel
              simp only [ChanRel] at hrel
              have hbin : (sc.remove (lower n)).has s.botKey = true := has_remove.mpr ⟨fun e => hnb e.symm, hrel.1⟩
              have hne : (sc.remove (lower n)).members.isEmpty = false := by
                cases he : (sc.remove (lower n)).members.isEmpty with
                | false => rfl
                | true => rw [has_of_nonempty_false he] at hbin; cases hbin
              simp only [Option.map_some, Option.filter, hne, Bool.not_false, ↓reduceIte, ChanRel, hbk]
              refine ⟨hbin, ?_⟩
              by_cases hin : lower n ∈ ch.users
              · simp only [hin, ↓reduceIte]
                rw [← hkey]; exact chanMatches_remove hrel.2 u.nick
              · simp only [hin, ↓reduceIte]
                apply chanMatches_remove_absent hrel.2
                rw [← Bool.not_eq_true, has_iff]
                intro hcon; exact hin ((hrel.2.users_iff _).mpr hcon)
        · intro x ux hux hv
          have hux' : aget (adel s.users (lower n)) x = some ux := hux
          have hv' : x ∈ sdel s.told (lower n) := hv
          rw [aget_adel] at hux'
          by_cases e : lower n = x
          · simp [e] at hux'
          · simp only [e, ↓reduceIte] at hux'
            rw [h5 x (Ne.symm e)]
            exact hc.hosts x ux hux' (mem_sdel.mp hv').2
        · intro kc sc' hsc' hb'
          obtain ⟨sc, hsc, rfl⟩ := dropEverywhere_chan hw.chansNodup hsc'
          obtain ⟨ub, hub, hp⟩ := hc.pfx kc sc hsc (has_remove_of hb')
          refine ⟨ub, ?_, by rw [h2]; exact hp⟩
          show aget (adel s.users (lower n)) s.botKey = some ub
          rw [aget_adel]; simp [hnb, hub]
      by_cases hv : s.visible (lower n) = true
      · simp only [hv, ↓reduceIte, recvAll_cons, recv_emit, recvAll_nil]
        obtain ⟨_, hfeed⟩ := feed_from_user hw hc hu "QUIT".toList [r]
          (setters_out_ok "QUIT".toList (by decide)) (by decide) (fun b0 => by simp only [Bot.ircCmd, cmdOf_QUIT])
        rw [hfeed]
        simp only [Bot.stateCmd, cmdOf_QUIT, Bot.doQuit, msg_nick_user huo]
        apply hgen
        · rfl
        · show (if u.nick = b.nick then u.mask else b.pfx) = b.pfx
          simp [hnown]
        · rfl
        · rfl
        · rfl
        · intro x hx
          show aget (adel (aset b.n2h (lower u.nick) u.mask) (lower u.nick)) x = _
          rw [hkey, aget_adel, aget_aset]
          simp [Ne.symm hx]
        · intro kc
          show aget (amapAll b.channels (fun c => if lower u.nick ∈ c.users then c.removeUser u.nick else c)) kc = _
          rw [aget_amapAll, hkey]
      · simp only [hv, Bool.false_eq_true, ↓reduceIte, recvAll_nil]
        apply hgen b rfl rfl rfl rfl rfl (fun _ _ => rfl)
        intro kc
        cases hbc : aget b.channels kc with
        | none => rfl
        | some ch =>
          simp only [Option.map_some, Option.some.injEq]
          have hrel := hc.chans kc
          rw [hbc] at hrel
          cases hsc : aget s.chans kc with
          | none => rw [hsc] at hrel; simp only [ChanRel] at hrel
          | some sc =>
            rw [hsc] at hrel
            simp only [ChanRel] at hrel
            have : lower n ∉ ch.users := by
              intro hin
              apply hv
              exact (visible_iff hw.chansNodup).mpr ⟨kc, sc, hsc, hrel.1, has_iff.mpr ((hrel.2.users_iff _).mp hin)⟩
            simp [this]

end C10
