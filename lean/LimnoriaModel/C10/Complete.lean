/-
C10 — completeness of what the server tells the bot: once every query of the bot has been answered, every
channel the bot is on has had its modes and ban list sent, and (with chghost negotiated, so that no host
change is silent for a visible user) the hostmask of every visible user has been shown.
Together with `Coupled` this gives back the plain reading of the property at quiescent moments.
-/
import LimnoriaModel.C10.BatchSim
namespace C10
open Py

/-- a query of kind `mk` for the channel with key `k` is among the unanswered ones `P` -/
def Pend (P : List Req) (mk : Str → Req) (k : Str) : Prop := ∃ c, lower c = k ∧ mk c ∈ P

/-- completeness relative to a list `P` of unanswered queries -/
structure CompleteP (s : Srv) (P : List Req) : Prop where
  modes : ∀ k sc, aget s.chans k = some sc → sc.has s.botKey = true → k ∈ s.modesSynced ∨ Pend P .mode k
  bans : ∀ k sc, aget s.chans k = some sc → sc.has s.botKey = true → k ∈ s.bansSynced ∨ Pend P .bans k
  hosts : s.cfg.chghost = true → ∀ x, s.visible x = true → x ∈ s.told ∨
    ∀ kc sc, aget s.chans kc = some sc → sc.has s.botKey = true → sc.has x = true → Pend P .who kc

/-- every channel the bot is on has had its modes and its ban list sent or the bot's query for them is still
in the server's queue; likewise (where no host change is silent) for the hostmask of every user the bot sees -/
abbrev Complete (s : Srv) : Prop := CompleteP s s.pending

/-- how an action that neither adds the bot to a channel nor renames anybody relates the states -/
structure CFrame0 (s s' : Srv) : Prop where
  cfg : s'.cfg = s.cfg
  bot : s'.bot = s.bot
  chans : ∀ k sc', aget s'.chans k = some sc' → sc'.has s.botKey = true →
    ∃ sc, aget s.chans k = some sc ∧ sc.has s.botKey = true ∧ ∀ x, sc'.has x = true → sc.has x = true ∨ x ∈ s'.told
  ms : ∀ k, k ∈ s.modesSynced → k ∈ s'.modesSynced
  bs : ∀ k, k ∈ s.bansSynced → k ∈ s'.bansSynced
  told : s.cfg.chghost = true → ∀ x, x ∈ s.told → s'.visible x = true → x ∈ s'.told

structure CFrame (s s' : Srv) : Prop extends CFrame0 s s' where
  pend : ∀ r, r ∈ s.pending → r ∈ s'.pending

theorem Pend.mono {P P' : List Req} {mk : Str → Req} {k : Str} (h : Pend P mk k) (hp : ∀ r, r ∈ P → r ∈ P') :
    Pend P' mk k := by
  obtain ⟨c, hc, hm⟩ := h; exact ⟨c, hc, hp _ hm⟩

theorem CompleteP.mono {s : Srv} {P P' : List Req} (hc : CompleteP s P) (hp : ∀ r, r ∈ P → r ∈ P') : CompleteP s P' :=
  ⟨fun k sc h1 h2 => (hc.modes k sc h1 h2).imp id (fun h => h.mono hp),
    fun k sc h1 h2 => (hc.bans k sc h1 h2).imp id (fun h => h.mono hp),
    fun hcg x hv => (hc.hosts hcg x hv).imp id (fun h kc sc a b c => (h kc sc a b c).mono hp)⟩

theorem completeP_of_frame {s s' : Srv} {P : List Req} (hc : CompleteP s P) (hn : (akeys s.chans).Nodup)
    (hn' : (akeys s'.chans).Nodup) (hf : CFrame0 s s') : CompleteP s' P := by
  have hbk : s'.botKey = s.botKey := by simp [Srv.botKey, hf.bot]
  refine ⟨?_, ?_, ?_⟩
  · intro k sc' hsc' hb
    rw [hbk] at hb
    obtain ⟨sc, hsc, hb0, _⟩ := hf.chans k sc' hsc' hb
    exact (hc.modes k sc hsc hb0).imp (hf.ms k) id
  · intro k sc' hsc' hb
    rw [hbk] at hb
    obtain ⟨sc, hsc, hb0, _⟩ := hf.chans k sc' hsc' hb
    exact (hc.bans k sc hsc hb0).imp (hf.bs k) id
  · intro hcg x hv
    rw [hf.cfg] at hcg
    obtain ⟨kc, sc', hsc', hb, hx⟩ := (visible_iff hn').mp hv
    rw [hbk] at hb
    obtain ⟨sc, hsc, hb0, hmem⟩ := hf.chans kc sc' hsc' hb
    rcases hmem x hx with hx0 | ht
    · have hv0 : s.visible x = true := (visible_iff hn).mpr ⟨kc, sc, hsc, hb0, hx0⟩
      rcases hc.hosts hcg x hv0 with ht | hall
      · exact Or.inl (hf.told hcg x ht hv)
      · by_cases hxt : x ∈ s'.told
        · exact Or.inl hxt
        · right
          intro kc2 sc2' hsc2' hb2 hx2
          rw [hbk] at hb2
          obtain ⟨sc2, hsc2, hb02, hmem2⟩ := hf.chans kc2 sc2' hsc2' hb2
          rcases hmem2 x hx2 with h | h
          · exact hall kc2 sc2 hsc2 hb02 h
          · exact absurd h hxt
    · exact Or.inl ht

theorem complete_of_frame {s s' : Srv} (hc : Complete s) (hn : (akeys s.chans).Nodup) (hn' : (akeys s'.chans).Nodup)
    (hf : CFrame s s') : Complete s' :=
  (completeP_of_frame hc hn hn' hf.toCFrame0).mono hf.pend

theorem complete_enqueue {s : Srv} (hc : Complete s) (out : List Msg) : Complete (s.enqueue out) := by
  have h : CompleteP s (s.enqueue out).pending := CompleteP.mono (s := s) hc (fun r hr => List.mem_append_left _ hr)
  exact ⟨h.modes, h.bans, h.hosts⟩

theorem visible_user {s : Srv} (hw : SrvWF s) {k : Str} (hv : s.visible k = true) : (aget s.users k).isSome := by
  obtain ⟨kc, sc, hsc, _, h2⟩ := (visible_iff hw.chansNodup).mp hv
  obtain ⟨f, hf⟩ := has_iff.mp h2
  exact (hw.chans kc sc hsc).members (k, f) hf

/-- the channels are untouched -/
theorem cframe_same {s s' : Srv} (hcfg : s'.cfg = s.cfg) (hbot : s'.bot = s.bot) (hch : s'.chans = s.chans)
    (hms : ∀ k, k ∈ s.modesSynced → k ∈ s'.modesSynced) (hbs : ∀ k, k ∈ s.bansSynced → k ∈ s'.bansSynced)
    (hp : ∀ r, r ∈ s.pending → r ∈ s'.pending)
    (ht : s.cfg.chghost = true → ∀ x, x ∈ s.told → s.visible x = true → x ∈ s'.told) : CFrame s s' where
  cfg := hcfg
  bot := hbot
  chans := fun k sc' hsc' hb => by rw [hch] at hsc'; exact ⟨sc', hsc', hb, fun x hx => Or.inl hx⟩
  ms := hms
  bs := hbs
  pend := hp
  told := fun hcg x hx hv => by
    apply ht hcg x hx
    have : s'.visible x = s.visible x := by simp [Srv.visible, hch, Srv.botKey, hbot]
    rw [← this]; exact hv

/-- one channel is replaced by one with the same members -/
theorem cframe_setChan {s : Srv} (k0 : Str) (sc0 sc1 : SChan) (h0 : aget s.chans k0 = some sc0)
    (hhas : ∀ x, sc1.has x = sc0.has x) : CFrame s { s with chans := aset s.chans k0 sc1 } where
  cfg := rfl
  bot := rfl
  chans := fun k sc' hsc' hb => by
    have hsc'' : aget (aset s.chans k0 sc1) k = some sc' := hsc'
    rw [aget_aset] at hsc''
    by_cases hk : k0 = k
    · subst hk
      simp only [↓reduceIte, Option.some.injEq] at hsc''
      subst hsc''
      exact ⟨sc0, h0, by rw [← hhas]; exact hb, fun x hx => Or.inl (by rw [← hhas]; exact hx)⟩
    · simp only [hk, ↓reduceIte] at hsc''
      exact ⟨sc', hsc'', hb, fun x hx => Or.inl hx⟩
  ms := fun _ h => h
  bs := fun _ h => h
  pend := fun _ h => h
  told := fun _ x hx _ => hx

theorem complete_connect {s : Srv} (hw : SrvWF s) (hc : Complete s) (n i h : Str) : Complete (s.step (.connect n i h)).1 := by
  have hw' := wf_connect hw n i h
  apply complete_of_frame hc hw.chansNodup hw'.chansNodup
  simp only [Srv.step]
  split
  · rename_i hcond
    simp only [Bool.and_eq_true, Option.isNone_iff_eq_none] at hcond
    have hfree : aget s.users (lower n) = none := hcond.2
    refine cframe_same rfl rfl rfl (fun _ h => h) (fun _ h => h) (fun _ h => h) ?_
    intro _ x hx hv
    show x ∈ sdel s.told (lower n)
    refine mem_sdel.mpr ⟨?_, hx⟩
    intro e; subst e
    have := visible_user hw hv
    rw [hfree] at this; cases this
  · exact cframe_same rfl rfl rfl (fun _ h => h) (fun _ h => h) (fun _ h => h) (fun _ _ h _ => h)

theorem complete_topic {s : Srv} (hw : SrvWF s) (hc : Complete s) (src c t : Str) : Complete (s.step (.topic src c t)).1 := by
  have hw' := wf_topic hw src c t
  apply complete_of_frame hc hw.chansNodup hw'.chansNodup
  simp only [Srv.step]
  split
  · rename_i pfx sc hsrc hch
    split
    · exact cframe_same rfl rfl rfl (fun _ h => h) (fun _ h => h) (fun _ h => h) (fun _ _ h _ => h)
    · exact cframe_setChan (lower c) sc _ hch (fun _ => rfl)
  · exact cframe_same rfl rfl rfl (fun _ h => h) (fun _ h => h) (fun _ h => h) (fun _ _ h _ => h)

theorem complete_mode {s : Srv} (hw : SrvWF s) (hc : Complete s) (src c : Str) (cs : List MChange) (hok : ∀ c ∈ cs, c.ok) :
    Complete (s.step (.mode src c cs)).1 := by
  have hw' := wf_mode hw src c cs hok
  apply complete_of_frame hc hw.chansNodup hw'.chansNodup
  simp only [Srv.step]
  split
  · rename_i pfx sc hsrc hch
    split
    · exact cframe_same rfl rfl rfl (fun _ h => h) (fun _ h => h) (fun _ h => h) (fun _ _ h _ => h)
    · exact cframe_setChan (lower c) sc _ hch (fun x => applyModes_has cs sc x)
  · exact cframe_same rfl rfl rfl (fun _ h => h) (fun _ h => h) (fun _ h => h) (fun _ _ h _ => h)

theorem complete_chghost {s : Srv} (hw : SrvWF s) (hc : Complete s) (n i h : Str) : Complete (s.step (.chghost n i h)).1 := by
  have hw' := wf_chghost hw n i h
  apply complete_of_frame hc hw.chansNodup hw'.chansNodup
  simp only [Srv.step]
  split
  · exact cframe_same rfl rfl rfl (fun _ h => h) (fun _ h => h) (fun _ h => h) (fun _ _ h _ => h)
  · split
    · exact cframe_same rfl rfl rfl (fun _ h => h) (fun _ h => h) (fun _ h => h) (fun _ _ h _ => h)
    · split
      · exact cframe_same rfl rfl rfl (fun _ h => h) (fun _ h => h) (fun _ h => h)
          (fun _ x hx _ => mem_sadd.mpr (Or.inr hx))
      · rename_i hsil
        split
        · exact cframe_same rfl rfl rfl (fun _ h => h) (fun _ h => h) (fun _ h => h) (fun _ _ h _ => h)
        · refine cframe_same rfl rfl rfl (fun _ h => h) (fun _ h => h) (fun _ h => h) ?_
          intro hcg x hx hv
          show x ∈ sdel s.told (lower n)
          refine mem_sdel.mpr ⟨?_, hx⟩
          intro e; subst e
          apply hsil
          simp [hcg, hv]

theorem complete_say {s : Srv} (hw : SrvWF s) (hc : Complete s) (n t x : Str) : Complete (s.step (.say n t x)).1 := by
  have hw' := wf_say hw n t x
  apply complete_of_frame hc hw.chansNodup hw'.chansNodup
  simp only [Srv.step]
  split
  · exact cframe_same rfl rfl rfl (fun _ h => h) (fun _ h => h) (fun _ h => h) (fun _ _ h _ => h)
  · split
    · exact cframe_same rfl rfl rfl (fun _ h => h) (fun _ h => h) (fun _ h => h) (fun _ _ h _ => h)
    · split
      · exact cframe_same rfl rfl rfl (fun _ h => h) (fun _ h => h) (fun _ h => h)
          (fun _ y hy _ => mem_sadd.mpr (Or.inr hy))
      · exact cframe_same rfl rfl rfl (fun _ h => h) (fun _ h => h) (fun _ h => h) (fun _ _ h _ => h)

theorem complete_names {s : Srv} (hw : SrvWF s) (hc : Complete s) (c : Str) : Complete (s.step (.names c)).1 := by
  have hw' := wf_names hw c
  apply complete_of_frame hc hw.chansNodup hw'.chansNodup
  simp only [Srv.step]
  split
  · split
    · refine cframe_same rfl rfl rfl (fun _ h => h) (fun _ h => h) (fun _ h => h) ?_
      intro _ y hy _
      show y ∈ (if s.cfg.uhnames then addAll s.told _ else s.told)
      split
      · exact mem_addAll.mpr (Or.inl hy)
      · exact hy
    · exact cframe_same rfl rfl rfl (fun _ h => h) (fun _ h => h) (fun _ h => h) (fun _ _ h _ => h)
  · exact cframe_same rfl rfl rfl (fun _ h => h) (fun _ h => h) (fun _ h => h) (fun _ _ h _ => h)

theorem cframe_replyWho (s : Srv) (c : Str) : CFrame s (s.replyWho c).1 := by
  unfold Srv.replyWho
  split
  · exact cframe_same rfl rfl rfl (fun _ h => h) (fun _ h => h) (fun _ h => h)
      (fun _ y hy _ => mem_addAll.mpr (Or.inl hy))
  · exact cframe_same rfl rfl rfl (fun _ h => h) (fun _ h => h) (fun _ h => h) (fun _ _ h _ => h)

theorem cframe_replyMode (s : Srv) (c : Str) : CFrame s (s.replyMode c).1 := by
  unfold Srv.replyMode
  split
  · refine cframe_same rfl rfl rfl ?_ (fun _ h => h) (fun _ h => h) (fun _ _ h _ => h)
    intro k hk
    show k ∈ (if s.botIn _ then sadd s.modesSynced (lower c) else s.modesSynced)
    split
    · exact mem_sadd.mpr (Or.inr hk)
    · exact hk
  · exact cframe_same rfl rfl rfl (fun _ h => h) (fun _ h => h) (fun _ h => h) (fun _ _ h _ => h)

theorem cframe_replyBans (s : Srv) (c : Str) : CFrame s (s.replyBans c).1 := by
  unfold Srv.replyBans
  split
  · refine cframe_same rfl rfl rfl (fun _ h => h) ?_ (fun _ h => h) (fun _ _ h _ => h)
    intro k hk
    show k ∈ (if s.botIn _ then sadd s.bansSynced (lower c) else s.bansSynced)
    split
    · exact mem_sadd.mpr (Or.inr hk)
    · exact hk
  · exact cframe_same rfl rfl rfl (fun _ h => h) (fun _ h => h) (fun _ h => h) (fun _ _ h _ => h)

end C10
