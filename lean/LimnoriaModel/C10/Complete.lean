/-
C10 — completeness of what the server tells the bot: once every query of the bot has been answered, every
channel the bot is on has had its modes and ban list sent, and (with chghost negotiated, so that no host
change is silent for a visible user) the hostmask of every visible user has been shown.
Together with `Coupled` this gives back the plain reading of the property at quiescent moments.
-/
import LimnoriaModel.C10.BatchSim
namespace C10
open Py

/-- a query of kind `mk` for the channel with key `k` is among the unanswered ones `P` -/
def Pend (P : List Req) (mk : Str → Req) (k : Str) : Prop := ∃ c, lower c = k ∧ mk c ∈ P

/-- completeness relative to a list `P` of unanswered queries -/
structure CompleteP (s : Srv) (P : List Req) : Prop where
  modes : ∀ k sc, aget s.chans k = some sc → sc.has s.botKey = true → k ∈ s.modesSynced ∨ Pend P .mode k
  bans : ∀ k sc, aget s.chans k = some sc → sc.has s.botKey = true → k ∈ s.bansSynced ∨ Pend P .bans k
  hosts : s.cfg.chghost = true → ∀ x, s.visible x = true → x ∈ s.told ∨
    ∀ kc sc, aget s.chans kc = some sc → sc.has s.botKey = true → sc.has x = true → Pend P .who kc

/-- every channel the bot is on has had its modes and its ban list sent or the bot's query for them is still
in the server's queue; likewise (where no host change is silent) for the hostmask of every user the bot sees -/
abbrev Complete (s : Srv) : Prop := CompleteP s s.pending

/-- how an action that neither adds the bot to a channel nor renames anybody relates the states -/
structure CFrame0 (s s' : Srv) : Prop where
  cfg : s'.cfg = s.cfg
  bot : s'.bot = s.bot
  chans : ∀ k sc', aget s'.chans k = some sc' → sc'.has s.botKey = true →
    ∃ sc, aget s.chans k = some sc ∧ sc.has s.botKey = true ∧ ∀ x, sc'.has x = true → sc.has x = true ∨ x ∈ s'.told
  ms : ∀ k, k ∈ s.modesSynced → k ∈ s'.modesSynced
  bs : ∀ k, k ∈ s.bansSynced → k ∈ s'.bansSynced
  told : s.cfg.chghost = true → ∀ x, x ∈ s.told → s'.visible x = true → x ∈ s'.told

structure CFrame (s s' : Srv) : Prop extends CFrame0 s s' where
  pend : ∀ r, r ∈ s.pending → r ∈ s'.pending

theorem Pend.mono {P P' : List Req} {mk : Str → Req} {k : Str} (h : Pend P mk k) (hp : ∀ r, r ∈ P → r ∈ P') :
    Pend P' mk k := by
  obtain ⟨c, hc, hm⟩ := h; exact ⟨c, hc, hp _ hm⟩

theorem CompleteP.mono {s : Srv} {P P' : List Req} (hc : CompleteP s P) (hp : ∀ r, r ∈ P → r ∈ P') : CompleteP s P' :=
  ⟨fun k sc h1 h2 => (hc.modes k sc h1 h2).imp id (fun h => h.mono hp),
    fun k sc h1 h2 => (hc.bans k sc h1 h2).imp id (fun h => h.mono hp),
    fun hcg x hv => (hc.hosts hcg x hv).imp id (fun h kc sc a b c => (h kc sc a b c).mono hp)⟩

theorem completeP_of_frame {s s' : Srv} {P : List Req} (hc : CompleteP s P) (hn : (akeys s.chans).Nodup)
    (hn' : (akeys s'.chans).Nodup) (hf : CFrame0 s s') : CompleteP s' P := by
  have hbk : s'.botKey = s.botKey := by simp [Srv.botKey, hf.bot]
  refine ⟨?_, ?_, ?_⟩
  · intro k sc' hsc' hb
    rw [hbk] at hb
    obtain ⟨sc, hsc, hb0, _⟩ := hf.chans k sc' hsc' hb
    exact (hc.modes k sc hsc hb0).imp (hf.ms k) id
  · intro k sc' hsc' hb
    rw [hbk] at hb
    obtain ⟨sc, hsc, hb0, _⟩ := hf.chans k sc' hsc' hb
    exact (hc.bans k sc hsc hb0).imp (hf.bs k) id
  · intro hcg x hv
    rw [hf.cfg] at hcg
    obtain ⟨kc, sc', hsc', hb, hx⟩ := (visible_iff hn').mp hv
    rw [hbk] at hb
    obtain ⟨sc, hsc, hb0, hmem⟩ := hf.chans kc sc' hsc' hb
    rcases hmem x hx with hx0 | ht
    · have hv0 : s.visible x = true := (visible_iff hn).mpr ⟨kc, sc, hsc, hb0, hx0⟩
      rcases hc.hosts hcg x hv0 with ht | hall
      · exact Or.inl (hf.told hcg x ht hv)
      · by_cases hxt : x ∈ s'.told
        · exact Or.inl hxt
        · right
          intro kc2 sc2' hsc2' hb2 hx2
          rw [hbk] at hb2
          obtain ⟨sc2, hsc2, hb02, hmem2⟩ := hf.chans kc2 sc2' hsc2' hb2
          rcases hmem2 x hx2 with h | h
          · exact hall kc2 sc2 hsc2 hb02 h
          · exact absurd h hxt
    · exact Or.inl ht

theorem complete_of_frame {s s' : Srv} (hc : Complete s) (hn : (akeys s.chans).Nodup) (hn' : (akeys s'.chans).Nodup)
    (hf : CFrame s s') : Complete s' :=
  (completeP_of_frame hc hn hn' hf.toCFrame0).mono hf.pend

theorem complete_enqueue {s : Srv} (hc : Complete s) (out : List Msg) : Complete (s.enqueue out) := by
  have h : CompleteP s (s.enqueue out).pending := CompleteP.mono (s := s) hc (fun r hr => List.mem_append_left _ hr)
  exact ⟨h.modes, h.bans, h.hosts⟩

theorem visible_user {s : Srv} (hw : SrvWF s) {k : Str} (hv : s.visible k = true) : (aget s.users k).isSome := by
  obtain ⟨kc, sc, hsc, _, h2⟩ := (visible_iff hw.chansNodup).mp hv
  obtain ⟨f, hf⟩ := has_iff.mp h2
  exact (hw.chans kc sc hsc).members (k, f) hf

/-- the channels are untouched -/
theorem cframe_same {s s' : Srv} (hcfg : s'.cfg = s.cfg) (hbot : s'.bot = s.bot) (hch : s'.chans = s.chans)
    (hms : ∀ k, k ∈ s.modesSynced → k ∈ s'.modesSynced) (hbs : ∀ k, k ∈ s.bansSynced → k ∈ s'.bansSynced)
    (hp : ∀ r, r ∈ s.pending → r ∈ s'.pending)
    (ht : s.cfg.chghost = true → ∀ x, x ∈ s.told → s.visible x = true → x ∈ s'.told) : CFrame s s' where
  cfg := hcfg
  bot := hbot
  chans := fun k sc' hsc' hb => by rw [hch] at hsc'; exact ⟨sc', hsc', hb, fun x hx => Or.inl hx⟩
  ms := hms
  bs := hbs
  pend := hp
  told := fun hcg x hx hv => by
    apply ht hcg x hx
    have : s'.visible x = s.visible x := by simp [Srv.visible, hch, Srv.botKey, hbot]
    rw [← this]; exact hv

/-- one channel is replaced by one with the same members -/
theorem cframe_setChan {s : Srv} (k0 : Str) (sc0 sc1 : SChan) (h0 : aget s.chans k0 = some sc0)
    (hhas : ∀ x, sc1.has x = sc0.has x) : CFrame s { s with chans := aset s.chans k0 sc1 } where
  cfg := rfl
  bot := rfl
  chans := fun k sc' hsc' hb => by
    have hsc'' : aget (aset s.chans k0 sc1) k = some sc' := hsc'
    rw [aget_aset] at hsc''
    by_cases hk : k0 = k
    · subst hk
      simp only [↓reduceIte, Option.some.injEq] at hsc''
      subst hsc''
      exact ⟨sc0, h0, by rw [← hhas]; exact hb, fun x hx => Or.inl (by rw [← hhas]; exact hx)⟩
    · simp only [hk, ↓reduceIte] at hsc''
      exact ⟨sc', hsc'', hb, fun x hx => Or.inl hx⟩
  ms := fun _ h => h
  bs := fun _ h => h
  pend := fun _ h => h
  told := fun _ x hx _ => hx

theorem complete_connect {s : Srv} (hw : SrvWF s) (hc : Complete s) (n i h : Str) : Complete (s.step (.connect n i h)).1 := by
  have hw' := wf_connect hw n i h
  apply complete_of_frame hc hw.chansNodup hw'.chansNodup
  simp only [Srv.step]
  split
  · rename_i hcond
    simp only [Bool.and_eq_true, Option.isNone_iff_eq_none] at hcond
    have hfree : aget s.users (lower n) = none := hcond.2
    refine cframe_same rfl rfl rfl (fun _ h => h) (fun _ h => h) (fun _ h => h) ?_
    intro _ x hx hv
    show x ∈ sdel s.told (lower n)
    refine mem_sdel.mpr ⟨?_, hx⟩
    intro e; subst e
    have := visible_user hw hv
    rw [hfree] at this; cases this
  · exact cframe_same rfl rfl rfl (fun _ h => h) (fun _ h => h) (fun _ h => h) (fun _ _ h _ => h)

theorem complete_topic {s : Srv} (hw : SrvWF s) (hc : Complete s) (src c t : Str) : Complete (s.step (.topic src c t)).1 := by
  have hw' := wf_topic hw src c t
  apply complete_of_frame hc hw.chansNodup hw'.chansNodup
  simp only [Srv.step]
  split
  · rename_i pfx sc hsrc hch
    split
    · exact cframe_same rfl rfl rfl (fun _ h => h) (fun _ h => h) (fun _ h => h) (fun _ _ h _ => h)
    · exact cframe_setChan (lower c) sc _ hch (fun _ => rfl)
  · exact cframe_same rfl rfl rfl (fun _ h => h) (fun _ h => h) (fun _ h => h) (fun _ _ h _ => h)

theorem complete_mode {s : Srv} (hw : SrvWF s) (hc : Complete s) (src c : Str) (cs : List MChange) (hok : ∀ c ∈ cs, c.ok) :
    Complete (s.step (.mode src c cs)).1 := by
  have hw' := wf_mode hw src c cs hok
  apply complete_of_frame hc hw.chansNodup hw'.chansNodup
  simp only [Srv.step]
  split
  · rename_i pfx sc hsrc hch
    split
    · exact cframe_same rfl rfl rfl (fun _ h => h) (fun _ h => h) (fun _ h => h) (fun _ _ h _ => h)
    · exact cframe_setChan (lower c) sc _ hch (fun x => applyModes_has cs sc x)
  · exact cframe_same rfl rfl rfl (fun _ h => h) (fun _ h => h) (fun _ h => h) (fun _ _ h _ => h)

theorem complete_chghost {s : Srv} (hw : SrvWF s) (hc : Complete s) (n i h : Str) : Complete (s.step (.chghost n i h)).1 := by
  have hw' := wf_chghost hw n i h
  apply complete_of_frame hc hw.chansNodup hw'.chansNodup
  simp only [Srv.step]
  split
  · exact cframe_same rfl rfl rfl (fun _ h => h) (fun _ h => h) (fun _ h => h) (fun _ _ h _ => h)
  · split
    · exact cframe_same rfl rfl rfl (fun _ h => h) (fun _ h => h) (fun _ h => h) (fun _ _ h _ => h)
    · split
      · exact cframe_same rfl rfl rfl (fun _ h => h) (fun _ h => h) (fun _ h => h)
          (fun _ x hx _ => mem_sadd.mpr (Or.inr hx))
      · rename_i hsil
        split
        · exact cframe_same rfl rfl rfl (fun _ h => h) (fun _ h => h) (fun _ h => h) (fun _ _ h _ => h)
        · refine cframe_same rfl rfl rfl (fun _ h => h) (fun _ h => h) (fun _ h => h) ?_
          intro hcg x hx hv
          show x ∈ sdel s.told (lower n)
          refine mem_sdel.mpr ⟨?_, hx⟩
          intro e; subst e
          apply hsil
          simp [hcg, hv]

theorem complete_say {s : Srv} (hw : SrvWF s) (hc : Complete s) (n t x : Str) : Complete (s.step (.say n t x)).1 := by
  have hw' := wf_say hw n t x
  apply complete_of_frame hc hw.chansNodup hw'.chansNodup
  simp only [Srv.step]
  split
  · exact cframe_same rfl rfl rfl (fun _ h => h) (fun _ h => h) (fun _ h => h) (fun _ _ h _ => h)
  · split
    · exact cframe_same rfl rfl rfl (fun _ h => h) (fun _ h => h) (fun _ h => h) (fun _ _ h _ => h)
    · split
      · exact cframe_same rfl rfl rfl (fun _ h => h) (fun _ h => h) (fun _ h => h)
          (fun _ y hy _ => mem_sadd.mpr (Or.inr hy))
      · exact cframe_same rfl rfl rfl (fun _ h => h) (fun _ h => h) (fun _ h => h) (fun _ _ h _ => h)

theorem complete_names {s : Srv} (hw : SrvWF s) (hc : Complete s) (c : Str) : Complete (s.step (.names c)).1 := by
  have hw' := wf_names hw c
  apply complete_of_frame hc hw.chansNodup hw'.chansNodup
  simp only [Srv.step]
  split
  · split
    · refine cframe_same rfl rfl rfl (fun _ h => h) (fun _ h => h) (fun _ h => h) ?_
      intro _ y hy _
      show y ∈ (if s.cfg.uhnames then addAll s.told _ else s.told)
      split
      · exact mem_addAll.mpr (Or.inl hy)
      · exact hy
    · exact cframe_same rfl rfl rfl (fun _ h => h) (fun _ h => h) (fun _ h => h) (fun _ _ h _ => h)
  · exact cframe_same rfl rfl rfl (fun _ h => h) (fun _ h => h) (fun _ h => h) (fun _ _ h _ => h)

theorem cframe_replyWho (s : Srv) (c : Str) : CFrame s (s.replyWho c).1 := by
  unfold Srv.replyWho
  split
  · exact cframe_same rfl rfl rfl (fun _ h => h) (fun _ h => h) (fun _ h => h)
      (fun _ y hy _ => mem_addAll.mpr (Or.inl hy))
  · exact cframe_same rfl rfl rfl (fun _ h => h) (fun _ h => h) (fun _ h => h) (fun _ _ h _ => h)

theorem cframe_replyMode (s : Srv) (c : Str) : CFrame s (s.replyMode c).1 := by
  unfold Srv.replyMode
  split
  · refine cframe_same rfl rfl rfl ?_ (fun _ h => h) (fun _ h => h) (fun _ _ h _ => h)
    intro k hk
    show k ∈ (if s.botIn _ then sadd s.modesSynced (lower c) else s.modesSynced)
    split
    · exact mem_sadd.mpr (Or.inr hk)
    · exact hk
  · exact cframe_same rfl rfl rfl (fun _ h => h) (fun _ h => h) (fun _ h => h) (fun _ _ h _ => h)

theorem cframe_replyBans (s : Srv) (c : Str) : CFrame s (s.replyBans c).1 := by
  unfold Srv.replyBans
  split
  · refine cframe_same rfl rfl rfl (fun _ h => h) ?_ (fun _ h => h) (fun _ _ h _ => h)
    intro k hk
    show k ∈ (if s.botIn _ then sadd s.bansSynced (lower c) else s.bansSynced)
    split
    · exact mem_sadd.mpr (Or.inr hk)
    · exact hk
  · exact cframe_same rfl rfl rfl (fun _ h => h) (fun _ h => h) (fun _ h => h) (fun _ _ h _ => h)

theorem complete_isupport {s : Srv} (hc : Complete s) : Complete (s.step .isupport).1 := hc

theorem complete_who {s : Srv} (hw : SrvWF s) (hc : Complete s) (c : Str) : Complete (s.step (.who c)).1 :=
  complete_of_frame hc hw.chansNodup (wf_replyWho hw c).chansNodup (cframe_replyWho s c)

theorem complete_modeis {s : Srv} (hw : SrvWF s) (hc : Complete s) (c : Str) : Complete (s.step (.modeis c)).1 :=
  complete_of_frame hc hw.chansNodup (wf_replyMode hw c).chansNodup (cframe_replyMode s c)

theorem complete_banlist {s : Srv} (hw : SrvWF s) (hc : Complete s) (c : Str) : Complete (s.step (.banlist c)).1 :=
  complete_of_frame hc hw.chansNodup (wf_replyBans hw c).chansNodup (cframe_replyBans s c)

/-! ### `serve`: the oldest query is answered and leaves the queue -/

theorem pop_who {s : Srv} {c : Str} {rest : List Req} (hc : CompleteP s (.who c :: rest))
    (ha : ∀ sc, aget s.chans (lower c) = some sc → ∀ x, sc.has x = true → x ∈ s.told) : CompleteP s rest := by
  refine ⟨?_, ?_, ?_⟩
  · intro k sc h1 h2
    refine (hc.modes k sc h1 h2).imp id ?_
    rintro ⟨c', hk, hm⟩
    simp only [List.mem_cons, reduceCtorEq, false_or] at hm
    exact ⟨c', hk, hm⟩
  · intro k sc h1 h2
    refine (hc.bans k sc h1 h2).imp id ?_
    rintro ⟨c', hk, hm⟩
    simp only [List.mem_cons, reduceCtorEq, false_or] at hm
    exact ⟨c', hk, hm⟩
  · intro hcg x hv
    by_cases hxt : x ∈ s.told
    · exact Or.inl hxt
    · rcases hc.hosts hcg x hv with h | h
      · exact Or.inl h
      · right
        intro kc sc h1 h2 h3
        obtain ⟨c', hk, hm⟩ := h kc sc h1 h2 h3
        simp only [List.mem_cons, Req.who.injEq] at hm
        rcases hm with rfl | hm
        · subst hk; exact absurd (ha sc h1 x h3) hxt
        · exact ⟨c', hk, hm⟩

theorem pop_mode {s : Srv} {c : Str} {rest : List Req} (hc : CompleteP s (.mode c :: rest))
    (ha : ∀ sc, aget s.chans (lower c) = some sc → sc.has s.botKey = true → lower c ∈ s.modesSynced) : CompleteP s rest := by
  refine ⟨?_, ?_, ?_⟩
  · intro k sc h1 h2
    rcases hc.modes k sc h1 h2 with h | ⟨c', hk, hm⟩
    · exact Or.inl h
    · simp only [List.mem_cons, Req.mode.injEq] at hm
      rcases hm with rfl | hm
      · subst hk; exact Or.inl (ha sc h1 h2)
      · exact Or.inr ⟨c', hk, hm⟩
  · intro k sc h1 h2
    refine (hc.bans k sc h1 h2).imp id ?_
    rintro ⟨c', hk, hm⟩
    simp only [List.mem_cons, reduceCtorEq, false_or] at hm
    exact ⟨c', hk, hm⟩
  · intro hcg x hv
    refine (hc.hosts hcg x hv).imp id ?_
    intro h kc sc h1 h2 h3
    obtain ⟨c', hk, hm⟩ := h kc sc h1 h2 h3
    simp only [List.mem_cons, reduceCtorEq, false_or] at hm
    exact ⟨c', hk, hm⟩

theorem pop_bans {s : Srv} {c : Str} {rest : List Req} (hc : CompleteP s (.bans c :: rest))
    (ha : ∀ sc, aget s.chans (lower c) = some sc → sc.has s.botKey = true → lower c ∈ s.bansSynced) : CompleteP s rest := by
  refine ⟨?_, ?_, ?_⟩
  · intro k sc h1 h2
    refine (hc.modes k sc h1 h2).imp id ?_
    rintro ⟨c', hk, hm⟩
    simp only [List.mem_cons, reduceCtorEq, false_or] at hm
    exact ⟨c', hk, hm⟩
  · intro k sc h1 h2
    rcases hc.bans k sc h1 h2 with h | ⟨c', hk, hm⟩
    · exact Or.inl h
    · simp only [List.mem_cons, Req.bans.injEq] at hm
      rcases hm with rfl | hm
      · subst hk; exact Or.inl (ha sc h1 h2)
      · exact Or.inr ⟨c', hk, hm⟩
  · intro hcg x hv
    refine (hc.hosts hcg x hv).imp id ?_
    intro h kc sc h1 h2 h3
    obtain ⟨c', hk, hm⟩ := h kc sc h1 h2 h3
    simp only [List.mem_cons, reduceCtorEq, false_or] at hm
    exact ⟨c', hk, hm⟩

theorem complete_serve {s : Srv} (hw : SrvWF s) (hc : Complete s) : Complete (s.step .serve).1 := by
  simp only [Srv.step]
  split
  · exact hc
  · rename_i c rest hp
    have hc0 : CompleteP ({ s with pending := rest } : Srv) (.who c :: rest) := by
      have h : CompleteP s (.who c :: rest) := by rw [← hp]; exact hc
      exact ⟨h.modes, h.bans, h.hosts⟩
    have hw0 : SrvWF ({ s with pending := rest } : Srv) := wf_congr hw rfl rfl rfl rfl
    have h1 := completeP_of_frame hc0 hw0.chansNodup (wf_replyWho hw0 c).chansNodup (cframe_replyWho _ c).toCFrame0
    have h2 : CompleteP (({ s with pending := rest } : Srv).replyWho c).1 rest := by
      refine pop_who h1 ?_
      intro sc hsc x hx
      unfold Srv.replyWho at hsc ⊢
      have hch : ({ s with pending := rest } : Srv).chan c = aget s.chans (lower c) := rfl
      cases hg : aget s.chans (lower c) with
      | none => rw [hch, hg] at hsc; simp only [] at hsc; rw [hg] at hsc; cases hsc
      | some sc0 =>
        rw [hch, hg] at hsc ⊢
        simp only [] at hsc ⊢
        rw [hg] at hsc; cases hsc
        exact mem_addAll.mpr (Or.inr (mem_keys.mpr (has_iff.mp hx)))
    have hpe : (({ s with pending := rest } : Srv).replyWho c).1.pending = rest := by
      unfold Srv.replyWho; split <;> rfl
    show CompleteP _ _
    rw [hpe]; exact h2
  · rename_i c rest hp
    have hc0 : CompleteP ({ s with pending := rest } : Srv) (.mode c :: rest) := by
      have h : CompleteP s (.mode c :: rest) := by rw [← hp]; exact hc
      exact ⟨h.modes, h.bans, h.hosts⟩
    have hw0 : SrvWF ({ s with pending := rest } : Srv) := wf_congr hw rfl rfl rfl rfl
    have h1 := completeP_of_frame hc0 hw0.chansNodup (wf_replyMode hw0 c).chansNodup (cframe_replyMode _ c).toCFrame0
    have h2 : CompleteP (({ s with pending := rest } : Srv).replyMode c).1 rest := by
      refine pop_mode h1 ?_
      intro sc hsc hb
      unfold Srv.replyMode at hsc hb ⊢
      have hch : ({ s with pending := rest } : Srv).chan c = aget s.chans (lower c) := rfl
      cases hg : aget s.chans (lower c) with
      | none => rw [hch, hg] at hsc; simp only [] at hsc; rw [hg] at hsc; cases hsc
      | some sc0 =>
        rw [hch, hg] at hsc hb ⊢
        simp only [] at hsc hb ⊢
        rw [hg] at hsc; cases hsc
        have hb' : ({ s with pending := rest } : Srv).botIn sc = true := hb
        rw [hb']; exact mem_sadd.mpr (Or.inl rfl)
    have hpe : (({ s with pending := rest } : Srv).replyMode c).1.pending = rest := by
      unfold Srv.replyMode; split <;> rfl
    show CompleteP _ _
    rw [hpe]; exact h2
  · rename_i c rest hp
    have hc0 : CompleteP ({ s with pending := rest } : Srv) (.bans c :: rest) := by
      have h : CompleteP s (.bans c :: rest) := by rw [← hp]; exact hc
      exact ⟨h.modes, h.bans, h.hosts⟩
    have hw0 : SrvWF ({ s with pending := rest } : Srv) := wf_congr hw rfl rfl rfl rfl
    have h1 := completeP_of_frame hc0 hw0.chansNodup (wf_replyBans hw0 c).chansNodup (cframe_replyBans _ c).toCFrame0
    have h2 : CompleteP (({ s with pending := rest } : Srv).replyBans c).1 rest := by
      refine pop_bans h1 ?_
      intro sc hsc hb
      unfold Srv.replyBans at hsc hb ⊢
      have hch : ({ s with pending := rest } : Srv).chan c = aget s.chans (lower c) := rfl
      cases hg : aget s.chans (lower c) with
      | none => rw [hch, hg] at hsc; simp only [] at hsc; rw [hg] at hsc; cases hsc
      | some sc0 =>
        rw [hch, hg] at hsc hb ⊢
        simp only [] at hsc hb ⊢
        rw [hg] at hsc; cases hsc
        have hb' : ({ s with pending := rest } : Srv).botIn sc = true := hb
        rw [hb']; exact mem_sadd.mpr (Or.inl rfl)
    have hpe : (({ s with pending := rest } : Srv).replyBans c).1.pending = rest := by
      unfold Srv.replyBans; split <;> rfl
    show CompleteP _ _
    rw [hpe]; exact h2

/-! ### PART, KICK, QUIT: channels only lose members -/

/-- every channel of `s'` is a channel of `s` with (some of) the same members -/
def Shrinks (c c' : List (Str × SChan)) : Prop :=
  ∀ k sc', aget c' k = some sc' → ∃ sc, aget c k = some sc ∧ ∀ x, sc'.has x = true → sc.has x = true

theorem Shrinks.refl (c : List (Str × SChan)) : Shrinks c c := fun _ sc' h => ⟨sc', h, fun _ hx => hx⟩

theorem Shrinks.trans {a b c : List (Str × SChan)} (h1 : Shrinks a b) (h2 : Shrinks b c) : Shrinks a c := by
  intro k sc'' h
  obtain ⟨sc', hsc', hm'⟩ := h2 k sc'' h
  obtain ⟨sc, hsc, hm⟩ := h1 k sc' hsc'
  exact ⟨sc, hsc, fun x hx => hm x (hm' x hx)⟩

theorem putChan_shrinks {s : Srv} {k : Str} {sc sc1 : SChan} (h0 : aget s.chans k = some sc)
    (hm : ∀ x, sc1.has x = true → sc.has x = true) : Shrinks s.chans (s.putChan k sc1).chans := by
  intro k' sc' h
  unfold Srv.putChan at h
  split at h
  · have h' : aget (adel s.chans k) k' = some sc' := h
    rw [aget_adel] at h'
    split at h'
    · cases h'
    · exact ⟨sc', h', fun _ hx => hx⟩
  · have h' : aget (aset s.chans k sc1) k' = some sc' := h
    rw [aget_aset] at h'
    split at h'
    · rename_i hk; subst hk; cases h'; exact ⟨sc, h0, hm⟩
    · exact ⟨sc', h', fun _ hx => hx⟩

theorem cframe_shrink {s s' : Srv} (hcfg : s'.cfg = s.cfg) (hbot : s'.bot = s.bot) (hsh : Shrinks s.chans s'.chans)
    (hms : s'.modesSynced = s.modesSynced) (hbs : s'.bansSynced = s.bansSynced) (hp : s'.pending = s.pending)
    (ht : ∀ x, x ∈ s.told → s'.visible x = true → x ∈ s'.told) : CFrame s s' where
  cfg := hcfg
  bot := hbot
  chans := fun k sc' hsc' hb => by
    obtain ⟨sc, hsc, hm⟩ := hsh k sc' hsc'
    exact ⟨sc, hsc, hm _ hb, fun x hx => Or.inl (hm x hx)⟩
  ms := fun _ h => by rw [hms]; exact h
  bs := fun _ h => by rw [hbs]; exact h
  pend := fun _ h => by rw [hp]; exact h
  told := fun _ => ht

theorem putChan_fields (s : Srv) (k : Str) (sc : SChan) :
    (s.putChan k sc).cfg = s.cfg ∧ (s.putChan k sc).bot = s.bot ∧ (s.putChan k sc).modesSynced = s.modesSynced ∧
    (s.putChan k sc).bansSynced = s.bansSynced ∧ (s.putChan k sc).pending = s.pending ∧ (s.putChan k sc).told = s.told := by
  unfold Srv.putChan; split <;> exact ⟨rfl, rfl, rfl, rfl, rfl, rfl⟩

theorem leave_frame (k : Str) (cs : List Str) : ∀ s : Srv,
    (s.leave k cs).1.cfg = s.cfg ∧ (s.leave k cs).1.bot = s.bot ∧ (s.leave k cs).1.modesSynced = s.modesSynced ∧
    (s.leave k cs).1.bansSynced = s.bansSynced ∧ (s.leave k cs).1.pending = s.pending ∧ (s.leave k cs).1.told = s.told ∧
    Shrinks s.chans (s.leave k cs).1.chans := by
  induction cs with
  | nil => intro s; exact ⟨rfl, rfl, rfl, rfl, rfl, rfl, Shrinks.refl _⟩
  | cons c cs ih =>
    intro s
    unfold Srv.leave
    split
    · exact ih s
    · rename_i sc hch
      rw [Srv.chan_eq] at hch
      split
      · simp only []
        obtain ⟨a1, a2, a3, a4, a5, a6, a7⟩ := ih (s.putChan (lower c) (sc.remove k))
        obtain ⟨b1, b2, b3, b4, b5, b6⟩ := putChan_fields s (lower c) (sc.remove k)
        exact ⟨a1.trans b1, a2.trans b2, a3.trans b3, a4.trans b4, a5.trans b5, a6.trans b6,
          (putChan_shrinks hch (fun x hx => has_remove_of hx)).trans a7⟩
      · exact ih s

theorem complete_part {s : Srv} (hw : SrvWF s) (hc : Complete s) (n : Str) (cs : List Str) (r : Option Str) :
    Complete (s.step (.part n cs r)).1 := by
  have hw' := wf_part hw n cs r
  apply complete_of_frame hc hw.chansNodup hw'.chansNodup
  simp only [Srv.step]
  split
  · exact cframe_shrink rfl rfl (Shrinks.refl _) rfl rfl rfl (fun _ h _ => h)
  · split
    · exact cframe_shrink rfl rfl (Shrinks.refl _) rfl rfl rfl (fun _ h _ => h)
    · obtain ⟨a1, a2, a3, a4, a5, a6, a7⟩ := leave_frame (lower n) cs s
      exact cframe_shrink a1 a2 a7 a3 a4 a5 (fun x hx _ => by rw [a6]; exact hx)

theorem complete_kick {s : Srv} (hw : SrvWF s) (hc : Complete s) (src c : Str) (ts : List Str) (r : Str) :
    Complete (s.step (.kick src c ts r)).1 := by
  have hw' := wf_kick hw src c ts r
  apply complete_of_frame hc hw.chansNodup hw'.chansNodup
  simp only [Srv.step]
  split
  · rename_i pfx sc hsrc hch
    rw [Srv.chan_eq] at hch
    split
    · exact cframe_shrink rfl rfl (Shrinks.refl _) rfl rfl rfl (fun _ h _ => h)
    · split
      · exact cframe_shrink rfl rfl (Shrinks.refl _) rfl rfl rfl (fun _ h _ => h)
      · obtain ⟨b1, b2, b3, b4, b5, b6⟩ := putChan_fields s (lower c) (kickTargets sc ts).1
        exact cframe_shrink b1 b2 (putChan_shrinks hch (fun x hx => kickTargets_has hx)) b3 b4 b5
          (fun x hx _ => by rw [b6]; exact hx)
  · exact cframe_shrink rfl rfl (Shrinks.refl _) rfl rfl rfl (fun _ h _ => h)

theorem complete_quit {s : Srv} (hw : SrvWF s) (hc : Complete s) (n r : Str) : Complete (s.step (.quit n r)).1 := by
  have hw' := wf_quit hw n r
  apply complete_of_frame hc hw.chansNodup hw'.chansNodup
  simp only [Srv.step]
  split
  · exact cframe_shrink rfl rfl (Shrinks.refl _) rfl rfl rfl (fun _ h _ => h)
  · split
    · exact cframe_shrink rfl rfl (Shrinks.refl _) rfl rfl rfl (fun _ h _ => h)
    · have hn' : (akeys (s.dropEverywhere (lower n)).chans).Nodup := nodup_dropEverywhere hw.chansNodup _
      refine cframe_shrink rfl rfl ?_ rfl rfl rfl ?_
      · intro k sc' hsc'
        obtain ⟨sc, hsc, rfl⟩ := dropEverywhere_chan hw.chansNodup hsc'
        exact ⟨sc, hsc, fun x hx => has_remove_of hx⟩
      · intro x hx hv
        show x ∈ sdel s.told (lower n)
        refine mem_sdel.mpr ⟨?_, hx⟩
        rintro rfl
        have hv' : (s.dropEverywhere (lower n)).visible (lower n) = true := hv
        obtain ⟨kc, sc', hsc', _, hx'⟩ := (visible_iff hn').mp hv'
        obtain ⟨sc, _, rfl⟩ := dropEverywhere_chan hw.chansNodup hsc'
        rw [has_remove_self] at hx'; cases hx'

/-! ### NICK: the keys change, nothing else -/

theorem complete_nick {s : Srv} (hw : SrvWF s) (hc0 : Complete s) (n n' : Str) : Complete (s.step (.nick n n')).1 := by
  simp only [Srv.step]
  split
  · exact hc0
  · rename_i u hu
    rw [Srv.user_eq] at hu
    split
    · exact hc0
    · rename_i hcond
      simp only [Bool.or_eq_true, Bool.not_eq_eq_eq_not, Bool.not_true, decide_eq_true_eq, Bool.and_eq_true,
        bne_iff_ne, ne_eq, not_or, Bool.not_eq_false, not_and, Bool.not_eq_true, Option.isSome_eq_false_iff,
        Option.isNone_iff_eq_none] at hcond
      obtain ⟨⟨hvn, hne⟩, hfree⟩ := hcond
      rw [Srv.user_eq] at hfree
      have hkey := (hw.userOK hu).1
      have huo := hw.uok hu
      have hno := nickOK_of_valid hvn
      obtain ⟨ub, hub, hubn⟩ := hw.bot
      have hub' : aget s.users s.botKey = some ub := hub
      -- the new state
      generalize hs' : ({ s with users := aset (adel s.users (lower n)) (lower n') { u with nick := n' }, chans := s.chans.map (fun p => (p.1, { p.2 with members := renameKey p.2.members (lower n) (lower n') })), bot := if lower n = s.botKey then n' else s.bot, told := if (decide (lower n = s.botKey) || s.visible (lower n)) = true then sadd (sdel s.told (lower n)) (lower n') else sdel (sdel s.told (lower n)) (lower n') } : Srv) = s'
      have hchans' : ∀ kc, aget s'.chans kc = (aget s.chans kc).map
          (fun sc => { sc with members := renameKey sc.members (lower n) (lower n') }) := by
        intro kc; subst hs'
        exact aget_mapVal s.chans (fun _ sc => { sc with members := renameKey sc.members (lower n) (lower n') }) kc
      have husers' : ∀ x, aget s'.users x = if lower n' = x then some { u with nick := n' }
          else if lower n = x then none else aget s.users x := by
        intro x; subst hs'; show aget (aset (adel s.users (lower n)) (lower n') _) x = _
        rw [aget_aset, aget_adel]
      have hbk' : s'.botKey = if lower n = s.botKey then lower n' else s.botKey := by
        subst hs'
        show lower (if lower n = s.botKey then n' else s.bot) = _
        by_cases h : lower n = s.botKey
        · rw [if_pos h, if_pos h]
        · rw [if_neg h, if_neg h]; rfl
      have hcfg' : s'.cfg = s.cfg := by subst hs'; rfl
      have hms' : s'.modesSynced = s.modesSynced := by subst hs'; rfl
      have hbs' : s'.bansSynced = s.bansSynced := by subst hs'; rfl
      have htold' : s'.told = if (decide (lower n = s.botKey) || s.visible (lower n)) = true
          then sadd (sdel s.told (lower n)) (lower n') else sdel (sdel s.told (lower n)) (lower n') := by subst hs'; rfl
      have hnd' : (akeys s'.chans).Nodup := by
        subst hs'
        show (akeys (s.chans.map (fun p => (p.1, { p.2 with members := renameKey p.2.members (lower n) (lower n') })))).Nodup
        rw [akeys_mapVal s.chans (fun p => { p.2 with members := renameKey p.2.members (lower n) (lower n') })]
        exact hw.chansNodup
      -- the bot is on the renamed channel iff it was on the old one
      have hbotin : ∀ kc sc, aget s.chans kc = some sc →
          (({ sc with members := renameKey sc.members (lower n) (lower n') } : SChan).has s'.botKey = true ↔ sc.has s.botKey = true) := by
        intro kc sc hsc
        rw [hbk', has_rename]
        by_cases hown : lower n = s.botKey
        · simp only [hown, ↓reduceIte, true_and]
          constructor
          · rintro (h | ⟨hx, h⟩)
            · exact h
            · have hfr := hfree (by rw [hown]; exact hx)
              rw [not_has_of_free hw hsc hfr] at h; cases h
          · intro h; exact Or.inl h
        · simp only [hown, ↓reduceIte]
          constructor
          · rintro (⟨_, _⟩ | ⟨_, h⟩)
            · rename_i e _
              by_cases hsame : lower n' = lower n
              · exact absurd (e.trans hsame).symm hown
              · have hfr := hfree hsame
                rw [← e, hub'] at hfr; cases hfr
            · exact h
          · intro h; exact Or.inr ⟨fun e => hown e.symm, h⟩
      -- membership of other nicks is unchanged
      have hother : ∀ (sc : SChan) x, x ≠ lower n → x ≠ lower n' →
          (({ sc with members := renameKey sc.members (lower n) (lower n') } : SChan).has x = true ↔ sc.has x = true) := by
        intro sc x h1 h2
        rw [has_rename]; simp [h1, h2]
      have hnewkey : ∀ kc sc, aget s.chans kc = some sc →
          (({ sc with members := renameKey sc.members (lower n) (lower n') } : SChan).has (lower n') = true ↔ sc.has (lower n) = true) := by
        intro kc sc hsc
        rw [has_rename]
        constructor
        · rintro (⟨_, h⟩ | ⟨hx, h⟩)
          · exact h
          · rw [not_has_of_free hw hsc (hfree hx)] at h; cases h
        · intro h; exact Or.inl ⟨rfl, h⟩
      -- visibility in the new state comes from visibility in the old one
      have hvis_other : ∀ x, x ≠ lower n → x ≠ lower n' → s'.visible x = true → s.visible x = true := by
        intro x h1 h2 hv
        obtain ⟨kc, sc', hsc', hb1, hb2⟩ := (visible_iff hnd').mp hv
        rw [hchans'] at hsc'
        cases hsc : aget s.chans kc with
        | none => rw [hsc] at hsc'; cases hsc'
        | some sc =>
          rw [hsc] at hsc'; simp only [Option.map_some, Option.some.injEq] at hsc'; subst hsc'
          exact (visible_iff hw.chansNodup).mpr ⟨kc, sc, hsc, (hbotin kc sc hsc).mp hb1, (hother sc x h1 h2).mp hb2⟩
      have hvis_new : s'.visible (lower n') = true → s.visible (lower n) = true := by
        intro hv
        obtain ⟨kc, sc', hsc', hb1, hb2⟩ := (visible_iff hnd').mp hv
        rw [hchans'] at hsc'
        cases hsc : aget s.chans kc with
        | none => rw [hsc] at hsc'; cases hsc'
        | some sc =>
          rw [hsc] at hsc'; simp only [Option.map_some, Option.some.injEq] at hsc'; subst hsc'
          exact (visible_iff hw.chansNodup).mpr ⟨kc, sc, hsc, (hbotin kc sc hsc).mp hb1, (hnewkey kc sc hsc).mp hb2⟩
      have hpe' : s'.pending = s.pending := by subst hs'; rfl
      have hback : ∀ kc sc', aget s'.chans kc = some sc' → ∃ sc, aget s.chans kc = some sc ∧
          sc' = { sc with members := renameKey sc.members (lower n) (lower n') } := by
        intro kc sc' hsc'
        rw [hchans'] at hsc'
        cases hsc : aget s.chans kc with
        | none => rw [hsc] at hsc'; cases hsc'
        | some sc =>
          rw [hsc] at hsc'; simp only [Option.map_some, Option.some.injEq] at hsc'
          exact ⟨sc, rfl, hsc'.symm⟩
      show CompleteP s' s'.pending
      rw [hpe']
      refine ⟨?_, ?_, ?_⟩
      · intro k sc' hsc' hb
        obtain ⟨sc, hsc, rfl⟩ := hback k sc' hsc'
        rw [hms']; exact hc0.modes k sc hsc ((hbotin k sc hsc).mp hb)
      · intro k sc' hsc' hb
        obtain ⟨sc, hsc, rfl⟩ := hback k sc' hsc'
        rw [hbs']; exact hc0.bans k sc hsc ((hbotin k sc hsc).mp hb)
      · intro hcg x hv
        rw [hcfg'] at hcg
        by_cases h2 : x = lower n'
        · subst h2
          have hv0 := hvis_new hv
          left
          rw [htold', if_pos (by simp [hv0])]
          exact mem_sadd.mpr (Or.inl rfl)
        · by_cases h1 : x = lower n
          · subst h1
            exfalso
            obtain ⟨kc, sc', hsc', _, hx⟩ := (visible_iff hnd').mp hv
            obtain ⟨sc, _, rfl⟩ := hback kc sc' hsc'
            rw [has_rename] at hx
            rcases hx with ⟨e, _⟩ | ⟨e, _⟩
            · exact h2 e
            · exact e rfl
          · have hv0 := hvis_other x h1 h2 hv
            rcases hc0.hosts hcg x hv0 with ht | hall
            · left
              rw [htold']
              split
              · exact mem_sadd.mpr (Or.inr (mem_sdel.mpr ⟨h1, ht⟩))
              · exact mem_sdel.mpr ⟨h2, mem_sdel.mpr ⟨h1, ht⟩⟩
            · right
              intro kc sc' hsc' hb hx
              obtain ⟨sc, hsc, rfl⟩ := hback kc sc' hsc'
              exact hall kc sc hsc ((hbotin kc sc hsc).mp hb) ((hother sc x h1 h2).mp hx)

/-! ### reconnect: the bot is on no channel -/

theorem completeP_of_nowhere {s : Srv} (hn : (akeys s.chans).Nodup) (P : List Req)
    (h : ∀ k sc, aget s.chans k = some sc → sc.has s.botKey = false) : CompleteP s P := by
  refine ⟨?_, ?_, ?_⟩
  · intro k sc h1 h2; rw [h k sc h1] at h2; cases h2
  · intro k sc h1 h2; rw [h k sc h1] at h2; cases h2
  · intro _ x hv
    obtain ⟨kc, sc, h1, h2, _⟩ := (visible_iff hn).mp hv
    rw [h kc sc h1] at h2; cases h2

theorem complete_reconnect {s : Srv} (hw : SrvWF s) (hc : Complete s) : Complete (s.step .reconnect).1 := by
  have hw' := wf_reconnect hw
  revert hw'
  simp only [Srv.step]
  split
  · intro _; exact hc
  · rename_i u hu
    split
    · intro _; exact hc
    · rename_i hcond
      simp only [Bool.and_eq_true, bne_iff_ne, ne_eq, not_and, Bool.not_eq_true, Option.isSome_eq_false_iff,
        Option.isNone_iff_eq_none] at hcond
      rw [Srv.user_eq] at hcond
      intro hw'
      refine completeP_of_nowhere hw'.chansNodup _ ?_
      intro kc sc' hsc'
      have hsc'' : aget (s.dropEverywhere s.botKey).chans kc = some sc' := hsc'
      obtain ⟨sc, hsc, rfl⟩ := dropEverywhere_chan hw.chansNodup hsc''
      show (sc.remove s.botKey).has (lower s.cfg.botNick) = false
      by_cases hsame : lower s.cfg.botNick = s.botKey
      · rw [hsame]; exact has_remove_self sc s.botKey
      · rw [← Bool.not_eq_true]; intro hcon
        have a := has_remove_of hcon
        rw [not_has_of_free hw hsc (hcond hsame)] at a; cases a

theorem complete_init (cfg : Cfg) : Complete (Srv.init cfg) :=
  completeP_of_nowhere (by simp [Srv.init, akeys]) _ (fun k sc h => by simp [Srv.init, aget] at h)

/-! ### JOIN of somebody else -/

theorem has_append_new {sc : SChan} {k x : Str} {f : Flags} :
    ({ sc with members := sc.members ++ [(k, f)] } : SChan).has x = true ↔ sc.has x = true ∨ x = k := by
  simp only [has_iff, List.mem_append, List.mem_singleton, Prod.mk.injEq]
  constructor
  · rintro ⟨g, h | ⟨h, _⟩⟩
    · exact Or.inl ⟨g, h⟩
    · exact Or.inr h
  · rintro (⟨g, h⟩ | h)
    · exact ⟨g, Or.inl h⟩
    · exact ⟨f, Or.inr ⟨h, rfl⟩⟩

theorem joinOthers_frame (k : Str) (cs : List Str) : ∀ s : Srv, k ≠ s.botKey →
    (s.joinOthers k cs).1.cfg = s.cfg ∧ (s.joinOthers k cs).1.bot = s.bot ∧
    (s.joinOthers k cs).1.modesSynced = s.modesSynced ∧ (s.joinOthers k cs).1.bansSynced = s.bansSynced ∧
    (s.joinOthers k cs).1.pending = s.pending ∧ (s.joinOthers k cs).1.told = s.told ∧
    ∀ kc sc', aget (s.joinOthers k cs).1.chans kc = some sc' → sc'.has s.botKey = true →
      ∃ sc, aget s.chans kc = some sc ∧ sc.has s.botKey = true ∧
        ∀ x, sc'.has x = true → sc.has x = true ∨ (x = k ∧ (s.joinOthers k cs).2 ≠ []) := by
  induction cs with
  | nil => intro s _; exact ⟨rfl, rfl, rfl, rfl, rfl, rfl, fun kc sc' h hb => ⟨sc', h, hb, fun _ hx => Or.inl hx⟩⟩
  | cons c cs ih =>
    intro s hkb
    unfold Srv.joinOthers
    cases he : s.enter k c with
    | none => simp only []; exact ih s hkb
    | some r =>
      obtain ⟨s1, name⟩ := r
      simp only []
      obtain ⟨_, sc1, hs1, _, hcase⟩ := enter_spec he
      have hkb1 : k ≠ s1.botKey := by rw [hs1]; exact hkb
      obtain ⟨a1, a2, a3, a4, a5, a6, a7⟩ := ih s1 hkb1
      have e1 : s1.cfg = s.cfg := by rw [hs1]
      have e2 : s1.bot = s.bot := by rw [hs1]
      have e3 : s1.modesSynced = s.modesSynced := by rw [hs1]
      have e4 : s1.bansSynced = s.bansSynced := by rw [hs1]
      have e5 : s1.pending = s.pending := by rw [hs1]
      have e6 : s1.told = s.told := by rw [hs1]
      have ebk : s1.botKey = s.botKey := by rw [hs1]; rfl
      refine ⟨a1.trans e1, a2.trans e2, a3.trans e3, a4.trans e4, a5.trans e5, a6.trans e6, ?_⟩
      intro kc sc' hsc' hb
      rw [← ebk] at hb
      obtain ⟨scm, hscm, hbm, hmem⟩ := a7 kc sc' hsc' hb
      rw [ebk] at hbm
      have hscm' : aget (aset s.chans (lower c) sc1) kc = some scm := by rw [hs1] at hscm; exact hscm
      rw [aget_aset] at hscm'
      by_cases hk : lower c = kc
      · subst hk
        simp only [↓reduceIte, Option.some.injEq] at hscm'
        subst hscm'
        rcases hcase with ⟨_, _, hnew⟩ | ⟨sc, hsc, _, hext⟩
        · exfalso
          rw [hnew, has_iff] at hbm
          obtain ⟨f, hf⟩ := hbm
          simp only [List.mem_singleton, Prod.mk.injEq] at hf
          exact hkb hf.1.symm
        · have hb0 : sc.has s.botKey = true := by
            rw [hext, has_append_new] at hbm
            rcases hbm with h | h
            · exact h
            · exact absurd h.symm hkb
          have hany : (s.chan c).any s.botIn = true := by
            rw [Srv.chan_eq, hsc]; exact hb0
          refine ⟨sc, hsc, hb0, ?_⟩
          intro x hx
          rcases hmem x hx with h | ⟨h, _⟩
          · rw [hext, has_append_new] at h
            rcases h with h | h
            · exact Or.inl h
            · exact Or.inr ⟨h, by rw [hany]; simp⟩
          · exact Or.inr ⟨h, by rw [hany]; simp⟩
      · simp only [hk, ↓reduceIte] at hscm'
        refine ⟨scm, hscm', hbm, ?_⟩
        intro x hx
        rcases hmem x hx with h | ⟨h, hne⟩
        · exact Or.inl h
        · refine Or.inr ⟨h, ?_⟩
          split
          · simp
          · exact hne

theorem complete_join_others {s : Srv} (hw : SrvWF s) (hc : Complete s) (n : Str) (cs : List Str)
    (hnb : lower n ≠ s.botKey) : Complete (s.step (.join n cs)).1 := by
  have hw' := wf_join hw n cs
  apply complete_of_frame hc hw.chansNodup hw'.chansNodup
  simp only [Srv.step]
  split
  · exact cframe_shrink rfl rfl (Shrinks.refl _) rfl rfl rfl (fun _ h _ => h)
  · rw [if_neg hnb]
    obtain ⟨a1, a2, a3, a4, a5, a6, a7⟩ := joinOthers_frame (lower n) cs s hnb
    split
    · rename_i hemp
      refine ⟨⟨a1, a2, ?_, fun _ h => by rw [a3]; exact h, fun _ h => by rw [a4]; exact h,
        fun _ x hx _ => by rw [a6]; exact hx⟩, fun _ h => by rw [a5]; exact h⟩
      intro kc sc' hsc' hb
      obtain ⟨sc, hsc, hb0, hmem⟩ := a7 kc sc' hsc' hb
      refine ⟨sc, hsc, hb0, fun x hx => ?_⟩
      rcases hmem x hx with h | ⟨_, hne⟩
      · exact Or.inl h
      · exfalso; apply hne
        cases hl : (s.joinOthers (lower n) cs).2 with
        | nil => rfl
        | cons _ _ => rw [hl] at hemp; cases hemp
    · refine ⟨⟨a1, a2, ?_, fun _ h => by show _ ∈ (s.joinOthers (lower n) cs).1.modesSynced; rw [a3]; exact h,
        fun _ h => by show _ ∈ (s.joinOthers (lower n) cs).1.bansSynced; rw [a4]; exact h,
        fun _ x hx _ => mem_sadd.mpr (Or.inr (by rw [a6]; exact hx))⟩,
        fun _ h => by show _ ∈ (s.joinOthers (lower n) cs).1.pending; rw [a5]; exact h⟩
      intro kc sc' hsc' hb
      obtain ⟨sc, hsc, hb0, hmem⟩ := a7 kc sc' hsc' hb
      refine ⟨sc, hsc, hb0, fun x hx => ?_⟩
      rcases hmem x hx with h | ⟨h, _⟩
      · exact Or.inl h
      · exact Or.inr (mem_sadd.mpr (Or.inl h))

/-! ### the bot's own JOIN: it asks, the server queues -/

theorem outAll_append (xs ys : List Ev) : ∀ b : Bot, b.outAll (xs ++ ys) = b.outAll xs ++ (b.recvAll xs).outAll ys := by
  induction xs with
  | nil => intro b; rfl
  | cons e xs ih =>
    intro b
    cases e with
    | msg m =>
      show b.out m ++ (b.recv (.msg m)).outAll (xs ++ ys) = (b.out m ++ (b.recv (.msg m)).outAll xs) ++ _
      rw [ih, List.append_assoc]; rfl
    | reset =>
      show b.reset.outAll (xs ++ ys) = b.reset.outAll xs ++ _
      rw [ih]; rfl

/-- what the bot sends on seeing its own JOIN, as the server reads it -/
theorem out_own_join {s : Srv} {b : Bot} (hw : SrvWF s) (hc : Coupled s b) {ub : SUser}
    (hub : aget s.users s.botKey = some ub) (name : Str) (hcomma : ',' ∉ name) :
    (b.out ⟨ub.mask, "JOIN".toList, joinArgs s.cfg name⟩).filterMap reqOf = [Req.mode name, Req.bans name, Req.who name] := by
  have huo := hw.uok hub
  have hbn : NickOK b.nick := by rw [hc.nick]; exact hw.botNickOK
  have hne : ub.mask ≠ b.nick := mask_ne_nick hbn
  have hown : ub.nick = b.nick := by rw [hc.nick]; exact hw.bot_user hub
  obtain ⟨rest, hargs⟩ := joinArgs_cons s.cfg name
  have htag : b.tagRaises ⟨ub.mask, "JOIN".toList, name :: rest⟩ = false := tagOK_of_ok hc.isup _
  have hns : "JOIN".toList ∉ Gen.nickSetters := setters_out_ok _ (by decide)
  unfold Bot.out
  simp only [htag, Bool.false_eq_true, ↓reduceIte, hne, hns, cmdOf_JOIN, hargs, msg_nick_user huo, hown]
  simp only [joinRequests, splitChar_single hcomma, List.map_cons, List.map_nil, List.cons_append, List.nil_append]
  have h1 : ("MODE".toList = "WHO".toList) = False := by decide
  simp [reqOf, h1]

theorem joinBot_pending (u : SUser) (cs : List Str) : ∀ s : Srv, (s.joinBot u cs).1.pending = s.pending := by
  induction cs with
  | nil => intro s; rfl
  | cons c cs ih =>
    intro s
    unfold Srv.joinBot
    cases he : s.enter s.botKey c with
    | none => simp only []; exact ih s
    | some r =>
      obtain ⟨s1, name⟩ := r
      simp only []
      obtain ⟨_, sc1, hs1, _, _⟩ := enter_spec he
      have e5 : s1.pending = s.pending := by rw [hs1]
      split
      · rw [ih]; exact e5
      · simp only []; rw [ih]; exact e5

theorem complete_enter_aux {s s2 : Srv} {P P' : List Req} (hw : SrvWF s) (hc : CompleteP s P) {c name : Str} {sc1 : SChan}
    (hkey : lower name = lower c) (hch2 : s2.chans = aset s.chans (lower c) sc1) (hbot2 : s2.bot = s.bot)
    (hcfg2 : s2.cfg = s.cfg) (hms2 : s2.modesSynced = sdel s.modesSynced (lower c))
    (hbs2 : s2.bansSynced = sdel s.bansSynced (lower c)) (htold2 : ∀ x, x ∈ s.told → x ∈ s2.told)
    (hnd2 : (akeys s2.chans).Nodup)
    (hP : ∀ r, r ∈ P → r ∈ P') (h1 : Req.mode name ∈ P') (h2 : Req.bans name ∈ P') (h3 : Req.who name ∈ P') :
    CompleteP s2 P' := by
  have hbk2 : s2.botKey = s.botKey := by simp [Srv.botKey, hbot2]
  have hget : ∀ k, lower c ≠ k → aget s2.chans k = aget s.chans k := by
    intro k hk; rw [hch2, aget_aset_ne _ _ hk]
  refine ⟨?_, ?_, ?_⟩
  · intro k sc' hsc' hb
    by_cases hk : lower c = k
    · exact Or.inr ⟨name, hkey.trans hk, h1⟩
    · rw [hget k hk] at hsc'
      rw [hbk2] at hb
      rcases hc.modes k sc' hsc' hb with h | h
      · left; rw [hms2]; exact mem_sdel.mpr ⟨fun e => hk e.symm, h⟩
      · exact Or.inr (h.mono hP)
  · intro k sc' hsc' hb
    by_cases hk : lower c = k
    · exact Or.inr ⟨name, hkey.trans hk, h2⟩
    · rw [hget k hk] at hsc'
      rw [hbk2] at hb
      rcases hc.bans k sc' hsc' hb with h | h
      · left; rw [hbs2]; exact mem_sdel.mpr ⟨fun e => hk e.symm, h⟩
      · exact Or.inr (h.mono hP)
  · intro hcg x hv
    rw [hcfg2] at hcg
    by_cases hxt : x ∈ s2.told
    · exact Or.inl hxt
    · right
      intro kc sc' hsc' hb hx
      by_cases hk : lower c = kc
      · exact ⟨name, hkey.trans hk, h3⟩
      · rw [hget kc hk] at hsc'
        rw [hbk2] at hb
        have hv0 : s.visible x = true := (visible_iff hw.chansNodup).mpr ⟨kc, sc', hsc', hb, hx⟩
        rcases hc.hosts hcg x hv0 with h | h
        · exact absurd (htold2 x h) hxt
        · exact (h kc sc' hsc' hb hx).mono hP

/-- the bot enters one channel: whatever is told at once is told; the rest is covered by the three queries -/
theorem complete_enter {s s1 : Srv} {P P' : List Req} (hw : SrvWF s) {ub : SUser} (hub : aget s.users s.botKey = some ub)
    (hc : CompleteP s P) {c name : Str} (he : s.enter s.botKey c = some (s1, name)) {sc1 : SChan}
    (hsc1 : s1.chan c = some sc1) (hP : ∀ r, r ∈ P → r ∈ P') (h1 : Req.mode name ∈ P') (h2 : Req.bans name ∈ P')
    (h3 : Req.who name ∈ P') :
    CompleteP { s1 with modesSynced := sdel s1.modesSynced (lower c), bansSynced := sdel s1.bansSynced (lower c),
                        told := if s1.cfg.uhnames then addAll (sadd s1.told s1.botKey) sc1.keys else sadd s1.told s1.botKey } P' := by
  have hw1 : SrvWF s1 := enter_wf hw (by simp [hub]) he
  obtain ⟨_, sc1', hs1, hname, _⟩ := enter_spec he
  subst hs1
  have hsc1' : aget (aset s.chans (lower c) sc1') (lower c) = some sc1 := hsc1
  rw [aget_aset_self] at hsc1'
  cases hsc1'
  have hcw1 := hw1.chans (lower c) sc1 (aget_aset_self _ _ _)
  have hkey : lower name = lower c := by rw [← hname]; exact hcw1.key
  refine complete_enter_aux hw hc hkey rfl rfl rfl rfl rfl ?_ hw1.chansNodup hP h1 h2 h3
  intro x hx
  show x ∈ (if s.cfg.uhnames then addAll (sadd s.told s.botKey) sc1.keys else sadd s.told s.botKey)
  split
  · exact mem_addAll.mpr (Or.inl (mem_sadd.mpr (Or.inr hx)))
  · exact mem_sadd.mpr (Or.inr hx)

theorem outAll_emit_cons (b : Bot) (p : Str) (c : String) (a : List Str) (xs : List Ev) :
    b.outAll (emit p c a :: xs) = b.out ⟨p, c.toList, a⟩ ++ (b.recv (emit p c a)).outAll xs := rfl

theorem joinBot_complete (ub : SUser) (cs : List Str) :
    ∀ (s : Srv) (b : Bot) (P : List Req), SrvWF s → Coupled s b → aget s.users s.botKey = some ub → CompleteP s P →
      CompleteP (s.joinBot ub cs).1 (P ++ (b.outAll (s.joinBot ub cs).2).filterMap reqOf) := by
  induction cs with
  | nil => intro s b P _ _ _ hc; exact hc.mono (fun r hr => List.mem_append_left _ hr)
  | cons c cs ih =>
    intro s b P hw hcpl hub hc
    unfold Srv.joinBot
    cases he : s.enter s.botKey c with
    | none => simp only []; exact ih s b P hw hcpl hub hc
    | some r =>
      obtain ⟨s1, name⟩ := r
      simp only []
      have hw1 : SrvWF s1 := enter_wf hw (by simp [hub]) he
      have hus := enter_users he
      obtain ⟨_, sc1, hs1, hname, _⟩ := enter_spec he
      have hsc1 : s1.chan c = some sc1 := by
        rw [hs1]; show aget (aset s.chans (lower c) sc1) (lower c) = _; exact aget_aset_self _ _ _
      rw [hsc1]
      simp only []
      have hone := own_join_one hw hcpl hub he hsc1
      have hcw1 := hw1.chans (lower c) sc1 (by rw [hs1]; exact aget_aset_self _ _ _)
      have hcomma : ',' ∉ name := by rw [← hname]; exact chan_noComma_of_valid hcw1.name
      have hq := out_own_join hw hcpl hub name hcomma
      have hub2 : aget s1.users s1.botKey = some ub := by
        simp only [Srv.botKey, hus.1, hus.2.1]; exact hub
      rw [outAll_append, outAll_emit_cons]
      simp only [List.filterMap_append, hq]
      generalize List.filterMap reqOf ((b.recv (emit ub.mask "JOIN" (joinArgs s.cfg name))).outAll (s1.joinBurst sc1)) = Q2
      have hen := complete_enter (P' := P ++ ([Req.mode name, Req.bans name, Req.who name] ++ Q2)) hw hub hc he hsc1
        (fun r hr => List.mem_append_left _ hr) (by simp) (by simp) (by simp)
      have hrec := (fun hw2 => ih _ _ _ hw2 hone hub2 hen) (wf_congr hw1 rfl rfl rfl rfl)
      refine hrec.mono ?_
      intro r hr
      simpa [List.append_assoc] using hr

theorem complete_join {s : Srv} {b : Bot} (hw : SrvWF s) (hcpl : Coupled s b) (hc : Complete s) (n : Str) (cs : List Str) :
    Complete ((s.step (.join n cs)).1.enqueue (b.outAll (s.step (.join n cs)).2)) := by
  by_cases hnb : lower n = s.botKey
  · simp only [Srv.step]
    split
    · exact complete_enqueue hc _
    · rename_i u hu
      rw [Srv.user_eq, hnb] at hu
      rw [if_pos hnb]
      have h := joinBot_complete u cs s b s.pending hw hcpl hu hc
      show CompleteP _ ((s.joinBot u cs).1.pending ++ _)
      rw [joinBot_pending]
      exact ⟨h.modes, h.bans, h.hosts⟩
  · exact complete_enqueue (complete_join_others hw hc n cs hnb) _

/-- the invariant is kept by every action together with the bot's reaction to it -/
theorem complete_step {s : Srv} {b : Bot} (hw : SrvWF s) (hcpl : Coupled s b) (hc : Complete s) (a : Act) (ha : a.ok) :
    Complete ((s.step a).1.enqueue (b.outAll (s.step a).2)) := by
  cases a with
  | join n cs => exact complete_join hw hcpl hc n cs
  | connect n i h => exact complete_enqueue (complete_connect hw hc n i h) _
  | part n cs r => exact complete_enqueue (complete_part hw hc n cs r) _
  | kick src c ts r => exact complete_enqueue (complete_kick hw hc src c ts r) _
  | quit n r => exact complete_enqueue (complete_quit hw hc n r) _
  | nick n n' => exact complete_enqueue (complete_nick hw hc n n') _
  | mode src c cs => exact complete_enqueue (complete_mode hw hc src c cs ha) _
  | topic src c t => exact complete_enqueue (complete_topic hw hc src c t) _
  | chghost n i h => exact complete_enqueue (complete_chghost hw hc n i h) _
  | say n t x => exact complete_enqueue (complete_say hw hc n t x) _
  | isupport => exact complete_enqueue (complete_isupport hc) _
  | names c => exact complete_enqueue (complete_names hw hc c) _
  | who c => exact complete_enqueue (complete_who hw hc c) _
  | modeis c => exact complete_enqueue (complete_modeis hw hc c) _
  | banlist c => exact complete_enqueue (complete_banlist hw hc c) _
  | serve => exact complete_enqueue (complete_serve hw hc) _
  | reconnect => exact complete_enqueue (complete_reconnect hw hc) _

theorem run_complete (acts : List Act) : ∀ (s : Srv) (b : Bot), SrvWF s → Coupled s b → Complete s → (∀ a ∈ acts, a.ok) →
    Complete (run s b acts).1 := by
  induction acts with
  | nil => intro s b _ _ hc _; exact hc
  | cons a as ih =>
    intro s b hw hcpl hc hok
    unfold run
    have h1 := wf_step hw a (hok a (by simp))
    have h2 := coupled_step hw hcpl a (hok a (by simp))
    exact ih _ _ (wf_enqueue h1 _) (coupled_pending h2 _) (complete_step hw hcpl hc a (hok a (by simp)))
      (fun a' ha' => hok a' (by simp [ha']))

end C10
