/-
C10 — property theorems: the bot's view of channels and users equals the reference server's.
(Helper lemmas: `Lemmas.lean` and the files it lists.)
-/
import LimnoriaModel.C10.Lemmas
namespace C10
open Py

/-! ### table obligations on the extracted tables
`sigils_not_in_nicks`, `sigil_table_ok`, `mode_tables_ok`, `tracked_table_ok`, `chan_table_ok`,
`setters_in_ok`, `setters_out_ok` are stated and proved (by `decide`) in `Inv.lean`; the theorems below
rest on them and never unfold a generated table. -/

/-- RFC 1459 case mapping: A–Z ↦ a–z and `\ [ ] ~` ↦ `| { } ^` -/
def rfc1459Pairs : List (Char × Char) :=
  (List.range 26).map (fun i => (Char.ofNat (65 + i), Char.ofNat (97 + i))) ++
    [('\\', '|'), ('[', '{'), (']', '}'), ('~', '^')]

/-- the extracted `_rfc1459trans` table is the RFC 1459 case mapping (as a set of pairs: same keys, same images) -/
theorem rfc1459_table_ok :
    (∀ p ∈ Gen.rfc1459Trans, p ∈ rfc1459Pairs) ∧ (∀ p ∈ rfc1459Pairs, p ∈ Gen.rfc1459Trans) ∧
    (Gen.rfc1459Trans.map (·.1)).Nodup := by decide

/-! ### the simulation theorem -/

/-- **view_refines** — for every finite run of the reference server from the state where the bot has just
registered — the server acting, the bot receiving what the server emits, the server queueing the WHO / MODE /
MODE +b queries the bot sends and answering them later, in order (`serve`), or sending such replies
unsolicited — the bot's view is coupled to the server state (`Coupled`):
own nick; the set of joined channels; per channel users, ops and topic exactly; halfops and voices exactly
with multi-prefix and otherwise never wrong; modes a sub-map of the server's and bans a subset, both exact
once the corresponding reply has reached the bot since it joined; the hostmask of every user whose current
hostmask the server has shown to the bot; the bot's own prefix once it is on a channel.
No assumption on the negotiated capabilities.  Hypothesis: `Act.ok` for every action, i.e. no mode argument
that `int()` rewrites (`+k 0123`, `+l 007`) — the known finding C10-mode-arg-int, see `view_refines_fails_intarg`.

Full statement (false on the pinned tree, kept visible):
  `∀ cfg acts, cfg.valid → let r := run (Srv.init cfg) (Bot.init cfg.botNick cfg.botIdent) acts; Coupled r.1 r.2`
What is missing in the proved statement is exactly the hypothesis `∀ a ∈ acts, a.ok`. -/
theorem view_refines_partial (cfg : Cfg) (hv : cfg.valid = true) (acts : List Act) (hok : ∀ a ∈ acts, a.ok) :
    SrvWF (run (Srv.init cfg) (Bot.init cfg.botNick cfg.botIdent) acts).1 ∧
    Coupled (run (Srv.init cfg) (Bot.init cfg.botNick cfg.botIdent) acts).1
      (run (Srv.init cfg) (Bot.init cfg.botNick cfg.botIdent) acts).2 :=
  run_inv acts _ _ (wf_init cfg hv) (coupled_init cfg hv) hok

/-- **view_refines with batches** — the same for a server that negotiated `batch` and wraps what it sends
into IRCv3 batches (`BATCH +ref type …`, every following message tagged `batch=ref`, `BATCH -ref`; a netsplit or
netjoin is such a run of QUITs / JOINs): the bot (now with `irc.state.batches`) stays coupled, and the batch
the server is sending is always one the bot has open, so no tagged message is dropped. -/
theorem view_refines_batched_partial (cfg : Cfg) (hv : cfg.valid = true) (acts : List BAct) (hok : ∀ a ∈ acts, a.ok) :
    BInv (runB (Srv.init cfg) ⟨Bot.init cfg.botNick cfg.botIdent, []⟩ none acts).1
      (runB (Srv.init cfg) ⟨Bot.init cfg.botNick cfg.botIdent, []⟩ none acts).2.1
      (runB (Srv.init cfg) ⟨Bot.init cfg.botNick cfg.botIdent, []⟩ none acts).2.2 :=
  runB_inv acts _ _ _ ⟨wf_init cfg hv, coupled_init cfg hv, fun _ h => by cases h⟩ hok

/-- on seeing its own JOIN the bot sends `MODE <chan>`, `MODE <chan> +b` and `WHO <chan> %tuhnairf,1`, which the
server queues, in that order, as the queries it will answer (`serve`) -/
theorem bot_queries_on_join {s : Srv} {b : Bot} (hw : SrvWF s) (hc : Coupled s b) {ub : SUser}
    (hub : aget s.users s.botKey = some ub) (name : Str) (hcomma : ',' ∉ name) :
    (b.out ⟨ub.mask, "JOIN".toList, joinArgs s.cfg name⟩).filterMap reqOf = [Req.mode name, Req.bans name, Req.who name] :=
  out_own_join hw hc hub name hcomma

/-- one more step from any reachable pair of states (the inductive step, usable on its own) -/
theorem view_step (s : Srv) (b : Bot) (hw : SrvWF s) (hc : Coupled s b) (a : Act) (ha : a.ok) :
    SrvWF (s.step a).1 ∧ Coupled (s.step a).1 (b.recvAll (s.step a).2) :=
  ⟨wf_step hw a ha, coupled_step hw hc a ha⟩

/-! ### what `Coupled` says, spelled out -/

/-- the bot has a record of a channel exactly when the server has it on that channel -/
theorem view_channels {s : Srv} {b : Bot} (hc : Coupled s b) (k : Str) :
    (aget b.channels k).isSome ↔ ∃ sc, aget s.chans k = some sc ∧ sc.has s.botKey = true := by
  have h := hc.chans k
  cases hs : aget s.chans k with
  | none =>
    rw [hs] at h
    cases hb : aget b.channels k with
    | none => simp
    | some ch => rw [hb] at h; simp only [ChanRel] at h
  | some sc =>
    rw [hs] at h
    cases hb : aget b.channels k with
    | none => rw [hb] at h; simp only [ChanRel] at h; simp [h]
    | some ch => rw [hb] at h; simp only [ChanRel] at h; simp [h.1]

/-- the record of every channel the bot is on (see `ChanMatches`) -/
theorem view_channel {s : Srv} {b : Bot} (hc : Coupled s b) {k : Str} {sc : SChan} (hs : aget s.chans k = some sc)
    (hb : sc.has s.botKey = true) :
    ∃ ch, aget b.channels k = some ch ∧ ChanMatches s.cfg.multiPrefix (s.mSynced k) (s.bSynced k) sc ch :=
  view_channel' hc hs hb

/-- with multi-prefix, and once the MODE and MODE +b queries for the channel were answered, the bot's record
is the server's: members, ops, halfops, voices, topic, modes, bans -/
theorem view_channel_full {s : Srv} {b : Bot} (hc : Coupled s b) {k : Str} {sc : SChan} (hs : aget s.chans k = some sc)
    (hb : sc.has s.botKey = true) (hmp : s.cfg.multiPrefix = true) (hms : k ∈ s.modesSynced) (hbs : k ∈ s.bansSynced) :
    ∃ ch, aget b.channels k = some ch ∧
      (∀ x, x ∈ ch.users ↔ ∃ f, (x, f) ∈ sc.members) ∧
      (∀ x, x ∈ ch.ops ↔ ∃ f, (x, f) ∈ sc.members ∧ f.o = true) ∧
      (∀ x, x ∈ ch.halfops ↔ ∃ f, (x, f) ∈ sc.members ∧ f.h = true) ∧
      (∀ x, x ∈ ch.voices ↔ ∃ f, (x, f) ∈ sc.members ∧ f.v = true) ∧
      ch.topic = sc.topic ∧ (∀ m, aget ch.modes m = aget sc.modes m) ∧ (∀ x, x ∈ ch.bans ↔ x ∈ sc.bans.map lower) := by
  obtain ⟨ch, hch, hm⟩ := view_channel' hc hs hb
  refine ⟨ch, hch, hm.users_iff, hm.ops.iff, ?_, ?_, hm.topic, ?_, ?_⟩
  · intro x; exact ⟨hm.halfops.sub x, hm.halfops.sup hmp x⟩
  · intro x; exact ⟨hm.voices.sub x, hm.voices.sup hmp x⟩
  · exact hm.modesFull (by simp [Srv.mSynced, hms])
  · intro x; exact ⟨hm.bans x, hm.bansFull (by simp [Srv.bSynced, hbs]) x⟩

/-- when the bot is no longer on a channel (left, kicked, reconnected) its record of it is gone -/
theorem view_channel_gone {s : Srv} {b : Bot} (hc : Coupled s b) (k : Str)
    (h : ∀ sc, aget s.chans k = some sc → sc.has s.botKey = false) : aget b.channels k = none := by
  cases hb : aget b.channels k with
  | none => rfl
  | some ch =>
    have := (view_channels hc k).mp (by simp [hb])
    obtain ⟨sc, hs, hbot⟩ := this
    rw [h sc hs] at hbot; cases hbot



/-! ### supybot.followIdentificationThroughNickChanges -/

/-- **follow_switch_transparent** — with the switch on, `Irc.doNick` looks the sender of every foreign NICK up in
the user database before `IrcState.addMsg` sees the message (an exception there would lose the NICK).  For every
run as in `view_refines_batched_partial`, every setting of the switch and every user database (nobody registered,
the renamed user identified, several users identified from the same hostmask) the bot proper goes through
exactly the states it goes through without the switch — so `BInv` (server invariant, `Coupled`, batches) holds. -/
theorem follow_switch_transparent (cfg : Cfg) (hv : cfg.valid = true) (follow : Bool) (db : List DbUser) (acts : List BAct)
    (hok : ∀ a ∈ acts, a.ok) :
    BInv (runF (Srv.init cfg) ⟨⟨Bot.init cfg.botNick cfg.botIdent, []⟩, follow, db⟩ none acts).1
      (runF (Srv.init cfg) ⟨⟨Bot.init cfg.botNick cfg.botIdent, []⟩, follow, db⟩ none acts).2.1.bb
      (runF (Srv.init cfg) ⟨⟨Bot.init cfg.botNick cfg.botIdent, []⟩, follow, db⟩ none acts).2.2 := by
  have h0 : BInv (Srv.init cfg) (⟨⟨Bot.init cfg.botNick cfg.botIdent, []⟩, follow, db⟩ : FBot).bb none :=
    ⟨wf_init cfg hv, coupled_init cfg hv, fun _ h => by cases h⟩
  obtain ⟨e1, e2, e3, _⟩ := runF_eq_runB acts _ ⟨⟨Bot.init cfg.botNick cfg.botIdent, []⟩, follow, db⟩ none h0 hok
  rw [e1, e2, e3]
  exact runB_inv acts _ _ _ h0 hok

/-- the branch itself: a NICK with a user's hostmask as prefix and a non-empty new nick never raises -/
theorem follow_never_loses_nick (db : List DbUser) {u : SUser} (hu : UserOK u) {n' : Str} (hn : n' ≠ []) :
    (followNick db ⟨u.mask, "NICK".toList, [n']⟩).2 = false :=
  followNick_user db hu _ hn []

/-- non-vacuity: the branch does something — the identification follows the renamed user (and only him) -/
example :
    followNick [⟨"acct0".toList, ["Bob!b@host.one".toList]⟩, ⟨"acct1".toList, ["carl!c@h2".toList]⟩]
        ⟨"Bob!b@host.one".toList, "NICK".toList, ["Robert".toList]⟩ =
      ([⟨"acct0".toList, ["Robert!b@host.one".toList]⟩, ⟨"acct1".toList, ["carl!c@h2".toList]⟩], false) ∧
    followNick [⟨"acct0".toList, ["Bob!b@host.one".toList]⟩] ⟨"alice!a@ah".toList, "NICK".toList, ["alicia".toList]⟩ =
      ([⟨"acct0".toList, ["Bob!b@host.one".toList]⟩], false) ∧
    (followNick [⟨"acct0".toList, ["Bob!b@host.one".toList]⟩] ⟨"Bob!b@host.one".toList, "NICK".toList, []⟩).2 = true := by
  decide +kernel

/-! ### every query is answered or pending; at quiescence the view is exact -/

/-- **queries_cover** — along every such run: each channel the bot is on has had its modes sent since the bot
joined, or the bot's `MODE <chan>` query is still in the server's queue; the same for the ban list and
`MODE <chan> +b`; and, on a connection with chghost (no host change of a visible user goes unannounced), every
user the bot can see has had his current hostmask shown, or a `WHO` for every channel he shares with the bot
is still queued.  (What `Coupled` leaves open — "exact once the reply has arrived" — is therefore only ever
open while a query is in flight.) -/
theorem queries_cover (cfg : Cfg) (hv : cfg.valid = true) (acts : List Act) (hok : ∀ a ∈ acts, a.ok) :
    Complete (run (Srv.init cfg) (Bot.init cfg.botNick cfg.botIdent) acts).1 :=
  run_complete acts _ _ (wf_init cfg hv) (coupled_init cfg hv) (complete_init cfg) hok

/-- when the server's queue is empty (every query answered) and multi-prefix is negotiated, the bot's record
of every channel it is on **equals** the server's: members, ops, halfops, voices, topic, modes, bans -/
theorem view_exact_when_quiescent {s : Srv} {b : Bot} (hc : Coupled s b) (hcm : Complete s) (hq : s.pending = [])
    (hmp : s.cfg.multiPrefix = true) {k : Str} {sc : SChan} (hs : aget s.chans k = some sc) (hb : sc.has s.botKey = true) :
    ∃ ch, aget b.channels k = some ch ∧
      (∀ x, x ∈ ch.users ↔ ∃ f, (x, f) ∈ sc.members) ∧
      (∀ x, x ∈ ch.ops ↔ ∃ f, (x, f) ∈ sc.members ∧ f.o = true) ∧
      (∀ x, x ∈ ch.halfops ↔ ∃ f, (x, f) ∈ sc.members ∧ f.h = true) ∧
      (∀ x, x ∈ ch.voices ↔ ∃ f, (x, f) ∈ sc.members ∧ f.v = true) ∧
      ch.topic = sc.topic ∧ (∀ m, aget ch.modes m = aget sc.modes m) ∧ (∀ x, x ∈ ch.bans ↔ x ∈ sc.bans.map lower) := by
  have nopend : ∀ mk kk, ¬ Pend s.pending mk kk := by
    rintro mk kk ⟨c, _, hm⟩; rw [hq] at hm; cases hm
  have hms : k ∈ s.modesSynced := (hcm.modes k sc hs hb).resolve_right (nopend _ _)
  have hbs : k ∈ s.bansSynced := (hcm.bans k sc hs hb).resolve_right (nopend _ _)
  exact view_channel_full hc hs hb hmp hms hbs

/-- … and (with chghost) `nicksToHostmasks` has the current hostmask of every user the bot can see -/
theorem hostmasks_exact_when_quiescent {s : Srv} {b : Bot} (hw : SrvWF s) (hc : Coupled s b) (hcm : Complete s)
    (hq : s.pending = []) (hcg : s.cfg.chghost = true) {x : Str} {u : SUser} (hu : aget s.users x = some u)
    (hv : s.visible x = true) : aget b.n2h x = some u.mask := by
  rcases hcm.hosts hcg x hv with ht | hall
  · exact hc.hosts x u hu ht
  · exfalso
    obtain ⟨kc, sc, hsc, h1, h2⟩ := (visible_iff hw.chansNodup).mp hv
    obtain ⟨c, _, hmem⟩ := hall kc sc hsc h1 h2
    rw [hq] at hmem; cases hmem

/-! ### the bot leaves, is kicked, reconnects: the channel disappears from its view -/

/-- own PART -/
theorem own_part_removes {s : Srv} {b : Bot} (hw : SrvWF s) (hc : Coupled s b) (c : Str) (r : Option Str)
    (hr : r.all validText = true) {sc : SChan} (hsc : s.chan c = some sc) (hin : sc.has s.botKey = true) :
    aget (b.recvAll (s.step (.part s.bot [c] r)).2).channels (lower c) = none := by
  have hcoup := (view_step s b hw hc (.part s.bot [c] r) trivial).2
  apply view_channel_gone hcoup
  obtain ⟨ub, hub, _⟩ := hw.bot
  have hu : s.user s.bot = some ub := hub
  intro sc' hsc'
  simp only [Srv.step, hu, hr, Bool.not_true, Bool.false_eq_true, ↓reduceIte, Srv.leave, hsc] at hsc' ⊢
  have hin' : sc.has (lower s.bot) = true := hin
  simp only [hin', ↓reduceIte] at hsc' ⊢
  rw [putChan_get] at hsc'
  simp only [↓reduceIte] at hsc'
  split at hsc'
  · cases hsc'
  · cases hsc'
    rw [putChan_botKey]
    exact has_remove_self sc s.botKey

theorem kickTargets_removed (ts : List Str) (sc : SChan) {t : Str} (ht : t ∈ ts) :
    (kickTargets sc ts).1.has (lower t) = false := by
  induction ts generalizing sc with
  | nil => cases ht
  | cons t0 ts ih =>
    unfold kickTargets
    rcases List.mem_cons.mp ht with rfl | ht'
    · by_cases hm : sc.has (lower t) = true
      · simp only [hm, ↓reduceIte]
        rw [← Bool.not_eq_true]; intro hcon
        have := kickTargets_has hcon
        rw [has_remove_self] at this; cases this
      · simp only [hm, Bool.false_eq_true, ↓reduceIte]
        rw [← Bool.not_eq_true]; intro hcon
        exact hm (kickTargets_has hcon)
    · split
      · exact ih _ ht'
      · exact ih _ ht'

theorem kickTargets_kicked (ts : List Str) (sc : SChan) {t : Str} (ht : t ∈ ts) (hm : sc.has (lower t) = true) :
    (kickTargets sc ts).2 ≠ [] := by
  induction ts generalizing sc with
  | nil => cases ht
  | cons t0 ts ih =>
    unfold kickTargets
    by_cases hm0 : sc.has (lower t0) = true
    · simp [hm0]
    · simp only [hm0, Bool.false_eq_true, ↓reduceIte]
      rcases List.mem_cons.mp ht with rfl | ht'
      · exact absurd hm hm0
      · exact ih sc ht' hm

/-- the bot is among the targets of a KICK -/
theorem own_kick_removes {s : Srv} {b : Bot} (hw : SrvWF s) (hc : Coupled s b) (src c : Str) (ts : List Str) (r : Str)
    {pfx : Str} (hsrc : s.source src = some pfx) (hr : validText r = true) (hts : ts.all validNick = true)
    {sc : SChan} (hsc : s.chan c = some sc) (hin : sc.has s.botKey = true) {t : Str} (ht : t ∈ ts) (hbot : lower t = s.botKey) :
    aget (b.recvAll (s.step (.kick src c ts r)).2).channels (lower c) = none := by
  have hcoup := (view_step s b hw hc (.kick src c ts r) trivial).2
  apply view_channel_gone hcoup
  have hne : (kickTargets sc ts).2.isEmpty = false := by
    have := kickTargets_kicked ts sc ht (by rw [hbot]; exact hin)
    cases h : (kickTargets sc ts).2 with
    | nil => exact absurd h this
    | cons _ _ => rfl
  intro sc' hsc'
  simp only [Srv.step, hsrc, hsc, hr, hts, Bool.not_true, Bool.or_self, Bool.false_eq_true, ↓reduceIte, hne] at hsc' ⊢
  rw [putChan_get] at hsc'
  simp only [↓reduceIte] at hsc'
  split at hsc'
  · cases hsc'
  · cases hsc'
    rw [putChan_botKey, ← hbot]
    exact kickTargets_removed ts sc ht

/-- reconnect: every channel is gone -/
theorem reconnect_clears {s : Srv} {b : Bot} (hw : SrvWF s) (hc : Coupled s b)
    (hen : lower s.cfg.botNick = s.botKey ∨ s.user s.cfg.botNick = none) (k : Str) :
    aget (b.recvAll (s.step .reconnect).2).channels k = none := by
  have hcoup := (view_step s b hw hc .reconnect trivial).2
  apply view_channel_gone hcoup
  obtain ⟨ub, hub, _⟩ := hw.bot
  have hub' : aget s.users s.botKey = some ub := hub
  have hcond : (lower s.cfg.botNick != s.botKey && (s.user s.cfg.botNick).isSome) = false := by
    rcases hen with h | h
    · simp [h]
    · simp [h]
  intro sc' hsc'
  simp only [Srv.step, hub', hcond, Bool.false_eq_true, ↓reduceIte] at hsc' ⊢
  have hsc'' : aget (s.dropEverywhere s.botKey).chans k = some sc' := hsc'
  obtain ⟨sc, hsc, rfl⟩ := dropEverywhere_chan hw.chansNodup hsc''
  show (sc.remove s.botKey).has (lower s.cfg.botNick) = false
  rcases hen with h | h
  · rw [h]; exact has_remove_self sc s.botKey
  · rw [← Bool.not_eq_true]; intro hcon
    have a := has_remove_of hcon
    rw [not_has_of_free hw hsc h] at a; cases a

/-! ### the known finding: the full statement fails on this witness -/

def cfg0 : Cfg :=
  { server := "irc.srv".toList, multiPrefix := true, uhnames := false, extJoin := false, chghost := true, whox := true, batch := true,
    botNick := "test".toList, botIdent := "limnoria".toList, botHost := "bot.host".toList, namesPerLine := 3,
    chantypes := "#&".toList, channellen := "50".toList }

/-- is the bot's idea of mode letter `m` of channel `k` compatible with the server's (equal, or not known yet)? -/
def modesAgreeAt (s : Srv) (b : Bot) (k : Str) (m : Char) : Bool :=
  match aget s.chans k, aget b.channels k with
  | some sc, some ch => decide (aget ch.modes m = aget sc.modes m) || decide (aget ch.modes m = none)
  | _, _ => true

theorem modesAgree_of_coupled {s : Srv} {b : Bot} (hc : Coupled s b) (k : Str) (m : Char) : modesAgreeAt s b k m = true := by
  unfold modesAgreeAt
  have h := hc.chans k
  cases hs : aget s.chans k with
  | none => rfl
  | some sc =>
    cases hb : aget b.channels k with
    | none => rfl
    | some ch =>
      rw [hs, hb] at h
      simp only [ChanRel] at h
      rcases h.2.modes m with e | e <;> simp [e]

/-- finding C10-mode-arg-int: `MODE #c +k 0123` stores the key as the number 123 -/
def intargWitness : List Act :=
  [.join "test".toList ["#c".toList], .mode [] "#c".toList [⟨true, 'k', some "0123".toList⟩]]

set_option maxRecDepth 100000 in
theorem view_refines_fails_intarg :
    ¬ Coupled (run (Srv.init cfg0) (Bot.init cfg0.botNick cfg0.botIdent) intargWitness).1
        (run (Srv.init cfg0) (Bot.init cfg0.botNick cfg0.botIdent) intargWitness).2 := by
  intro hc
  have h := modesAgree_of_coupled hc "#c".toList 'k'
  revert h
  decide +kernel

/-- finding C10-param-modes-not-from-isupport: the reference server's mode classes are those of the bot's
tables (`mode_tables_ok`); a server whose CHANMODES has a further parameter mode (`+f 5:10` on many networks) is
outside the theorem, and the bot really mis-pairs its arguments: the letter tables are fixed, what the server
announced in 005 is not consulted. -/
theorem separateModes_ignores_isupport :
    separateModes ["+fo".toList, "5:10".toList, "bob".toList] =
      [('+', 'f', none), ('+', 'o', some "5:10".toList)] := by decide +kernel

set_option maxRecDepth 100000 in
/-- … on the bot model: after `:irc.srv MODE #c +fo 5:10 bob` the "op" is `5:10`, not bob -/
theorem param_mode_mispaired :
    (aget ((Bot.init "test".toList "limnoria".toList).feedAll
        [⟨"test!limnoria@bot.host".toList, "JOIN".toList, ["#c".toList]⟩,
         ⟨"bob!b@bh".toList, "JOIN".toList, ["#c".toList]⟩,
         ⟨"irc.srv".toList, "MODE".toList, ["#c".toList, "+fo".toList, "5:10".toList, "bob".toList]⟩]).channels
      "#c".toList).map (fun ch => (ch.ops, ch.modes)) = some (["5:10".toList], [('f', none)]) := by
  decide +kernel

/-! ### RPL_ISUPPORT: what is read, what is hard-coded
`recv_isupportEv` (Sim6): the server's 005 sets exactly CHANTYPES and CHANNELLEN in the modelled part of
`state.supported`, and `Irc.isChannel` uses them (`Bot.isChannel`); the simulation theorem holds for every
server whose CHANTYPES contains `#` and `&` and whose CHANNELLEN is at least 50 (`Cfg.valid`).  PREFIX, CHANMODES
and CASEMAPPING are stored by the real code but never consulted: the three facts below hold whatever a 005 said. -/

/-- CASEMAPPING is not consulted: nicks are always folded with the rfc1459 table, so on a server announcing
`CASEMAPPING=ascii` the distinct nicks `a[` and `a{` are one nick to the bot -/
theorem casemapping_hardcoded : strEqual "Nick[A]~".toList "nICK{a}^".toList = true := by decide +kernel

/-- PREFIX is not consulted: `&` (admin with `PREFIX=(qaohv)~&@%+`) and `~` (owner) in a NAMES item count as op -/
theorem prefix_hardcoded :
    (Chan.empty.addUser "&x".toList).ops = ["x".toList] ∧ (Chan.empty.addUser "~y".toList).ops = ["y".toList] := by
  decide +kernel

/-! ### non-vacuity -/

/-- a history that meets every hypothesis of `view_refines_partial` and exercises JOIN with burst, a case-only
nick change, MODE with mixed signs and parameters, a multi-target KICK that includes the bot -/
def sampleRun : List Act :=
  [.connect "Bob".toList "b".toList "host.one".toList,
   .join "bob".toList ["#Chan".toList],
   .join "test".toList ["#chan".toList, "&loc".toList],
   .nick "BOB".toList "bOB".toList,
   .mode [] "#CHAN".toList [⟨true, 'v', some "bob".toList⟩, ⟨false, 'o', some "Bob".toList⟩, ⟨true, 'k', some "key".toList⟩, ⟨true, 'l', some "10".toList⟩, ⟨true, 's', none⟩],
   .topic "bob".toList "#chan".toList "hello world".toList,
   .nick "test".toList "Test2".toList,
   .kick [] "#chan".toList ["bob".toList, "TEST2".toList] "bye".toList]

example : cfg0.valid = true ∧ cfg0.multiPrefix = true := by decide +kernel
example : ∀ a ∈ sampleRun, a.ok := by
  intro a ha
  simp only [sampleRun, List.mem_cons, List.not_mem_nil, or_false] at ha
  rcases ha with rfl | rfl | rfl | rfl | rfl | rfl | rfl | rfl <;> try trivial
  intro c hc
  simp only [List.mem_cons, List.not_mem_nil, or_false] at hc
  rcases hc with rfl | rfl | rfl | rfl | rfl <;> intro a ha <;>
    first | (cases ha; decide +kernel) | cases ha

def sampleBefore : Srv × Bot := run (Srv.init cfg0) (Bot.init cfg0.botNick cfg0.botIdent) sampleRun.dropLast

set_option maxRecDepth 100000 in
/-- … and the run is not trivial: before the KICK the bot sees the renamed, voiced, de-opped user; after it
the bot (kicked under a case variant of its new nick) has only the other channel left -/
example :
    (aget sampleBefore.2.channels "#chan".toList).map (·.users) = some ["bob".toList, "test2".toList] ∧
    (aget sampleBefore.2.channels "#chan".toList).map (·.ops) = some [] ∧
    (aget sampleBefore.2.channels "#chan".toList).map (·.voices) = some ["bob".toList] ∧
    (aget sampleBefore.2.channels "#chan".toList).map (·.topic) = some "hello world".toList ∧
    (aget sampleBefore.2.channels "#chan".toList).map (·.modes) =
      some [('k', some "key".toList), ('l', some "10".toList), ('s', none)] ∧
    sampleBefore.2.nick = "Test2".toList ∧ aget sampleBefore.2.n2h "bob".toList = some "bOB!b@host.one".toList := by
  decide +kernel

set_option maxRecDepth 100000 in
example :
    (run (Srv.init cfg0) (Bot.init cfg0.botNick cfg0.botIdent) sampleRun).2.channels.map (·.1) = ["&loc".toList] := by
  decide +kernel

/-- a run that ends quiescent with the bot on a channel it shares with somebody: first the three queries are
queued in the order the bot sent them, then `serve` answers them -/
def quietRun : List Act :=
  [.connect "Bob".toList "b".toList "host.one".toList, .join "bob".toList ["#Chan".toList],
   .join "test".toList ["#chan".toList], .mode [] "#chan".toList [⟨true, 'b', some "*!*@bad".toList⟩]]

set_option maxRecDepth 100000 in
example :
    (run (Srv.init cfg0) (Bot.init cfg0.botNick cfg0.botIdent) quietRun).1.pending =
      [.mode "#Chan".toList, .bans "#Chan".toList, .who "#Chan".toList] ∧
    (run (Srv.init cfg0) (Bot.init cfg0.botNick cfg0.botIdent) (quietRun ++ [.serve, .serve, .serve])).1.pending = [] ∧
    (run (Srv.init cfg0) (Bot.init cfg0.botNick cfg0.botIdent) (quietRun ++ [.serve, .serve, .serve])).1.visible "bob".toList = true ∧
    (aget (run (Srv.init cfg0) (Bot.init cfg0.botNick cfg0.botIdent) (quietRun ++ [.serve, .serve, .serve])).2.channels
      "#chan".toList).map (·.bans) = some ["*!*@bad".toList] := by
  decide +kernel

end C10
