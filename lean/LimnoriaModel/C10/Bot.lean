/-
C10 — bot side: `irclib.ChannelState`, `irclib.IrcState.addMsg` and the part of `irclib.Irc.feedMsg`
that maintains `irc.nick` / `irc.prefix`, written against the code as it is in /repo (after the
`fix:` commits for the case-only NICK, the userhost-in-names 353, the bot's own CHGHOST, the
invite-exception list and the late 324/329 replies).

Sets and dicts keyed by nicks / channel names are IRC-case-insensitive in the code
(`IrcSet`, `IrcDict`); here they hold the *lowered* key (`lower` = `ircutils.toLower`, table
extracted), the original spelling is not part of the model (the property compares names under
IRC case rules).  A handler that raises keeps the partial effects the Python has at that point;
the `Exc` component says whether (and at which level) an exception was logged.
-/
import LimnoriaModel.C10.Coll
import LimnoriaModel.Gen.ChanState
namespace C10
open Py

/-! ### case folding, hostmasks, `int()` -/

def lookupChar : List (Char × Char) → Char → Char
  | [], c => c
  | (a, b) :: r, c => if a = c then b else lookupChar r c

/-- `ircutils.toLower` (rfc1459): `_rfc1459trans` replaces every key character -/
def lowerChar (c : Char) : Char := lookupChar Gen.rfc1459Trans c
def lower (s : Str) : Str := s.map lowerChar

/-- `ircutils.strEqual` -/
def strEqual (a b : Str) : Bool := lower a = lower b

/-- the shape `\S+!\S+@\S+` on a blank-free string -/
def hmStruct : Str → Bool
  | [] => false
  | _ :: r =>
    match split1 '!' r with
    | none => false
    | some (_, r2) =>
      match r2 with
      | [] => false
      | _ :: r3 => r3.dropLast.contains '@'

/-- `ircutils.isUserHostmask`: `re.match(r'^\S+!\S+@\S+$', s)` (`$` also matches before one final LF) -/
def isUserHostmask (s : Str) : Bool :=
  let t := if endsWithChar '\n' s then s.dropLast else s
  t.all (fun c => !isSpace c) && hmStruct t

/-- `s.rsplit(c, 1)` when `c` occurs -/
def rsplit1 (c : Char) (s : Str) : Option (Str × Str) :=
  match split1 c s.reverse with
  | none => none
  | some (a, b) => some (b.reverse, a.reverse)

/-- `ircutils.splitHostmask` (`none` = the assertion / unpacking fails) -/
def splitHostmask (s : Str) : Option (Str × Str × Str) :=
  if isUserHostmask s then
    match rsplit1 '@' s with
    | none => none
    | some (rest, host) =>
      match rsplit1 '!' rest with
      | none => none
      | some (nick, user) => some (nick, user, host)
  else none

/-- `'%s!%s@%s' % (nick, user, host)` -/
def mkHostmask (n u h : Str) : Str := n ++ '!' :: u ++ '@' :: h

/-- digits with single underscores between digits (Python's `int` literal body, base 10, ASCII) -/
def parseDigits : Str → Bool → Nat → Option Nat
  | [], prevDigit, acc => if prevDigit then some acc else none
  | c :: cs, prevDigit, acc =>
    if isDigit c then parseDigits cs true (acc * 10 + (c.toNat - 48))
    else if c = '_' && prevDigit then parseDigits cs false acc
    else none

/-- `int(s)` for a `str` (ASCII digits; `none` = ValueError) -/
def pyInt (s : Str) : Option Int :=
  match strip s with
  | '+' :: r => (parseDigits r false 0).map Int.ofNat
  | '-' :: r => (parseDigits r false 0).map (fun n => - Int.ofNat n)
  | t => (parseDigits t false 0).map Int.ofNat

def intToStr (n : Int) : Str := (toString n).toList

/-- what `separateModes` makes of a mode argument: `int(arg)` when that works (rendered back as
decimal text: mode values are compared as strings), else the argument itself -/
def modeArg (a : Str) : Str :=
  match pyInt a with
  | some n => intToStr n
  | none => a

/-! ### messages -/

structure Msg where
  pfx : Str
  cmd : Str
  args : List Str
deriving Repr, DecidableEq, Inhabited

/-- `(msg.nick, msg.user, msg.host)` as computed by `IrcMsg.__init__` -/
def Msg.nuh (m : Msg) : Str × Str × Str :=
  match splitHostmask m.pfx with
  | some t => t
  | none => (m.pfx, m.pfx, m.pfx)
def Msg.nick (m : Msg) : Str := m.nuh.1
def Msg.user (m : Msg) : Str := m.nuh.2.1
def Msg.host (m : Msg) : Str := m.nuh.2.2

/-! ### `ChannelState` -/

structure Chan where
  users : List Str := []
  ops : List Str := []
  halfops : List Str := []
  voices : List Str := []
  bans : List Str := []
  topic : Str := []
  modes : List (Char × Option Str) := []
  created : Int := 0
deriving Repr, DecidableEq, Inhabited

def Chan.empty : Chan := {}

/-- one marker of `addUser`'s loop -/
def Chan.addMarker (nick : Str) (c : Chan) (marker : Char) : Chan :=
  if marker ∈ Gen.sigilsOp then { c with ops := sadd c.ops (lower nick) }
  else if marker = Gen.sigilHalfop then { c with halfops := sadd c.halfops (lower nick) }
  else if marker = Gen.sigilVoice then { c with voices := sadd c.voices (lower nick) }
  else c

/-- `ChannelState.addUser` -/
def Chan.addUser (c : Chan) (user : Str) : Chan :=
  let nick := lstripP (· ∈ Gen.sigilsStrip) user
  if nick.isEmpty then c
  else
    let c' := (user.takeWhile (· ∈ Gen.sigilsLoop)).foldl (Chan.addMarker nick) c
    { c' with users := sadd c'.users (lower nick) }

def replaceIn (s : List Str) (o n : Str) : List Str :=
  if o ∈ s then sadd (sdel s o) n else s

/-- `ChannelState.replaceUser` -/
def Chan.replaceUser (c : Chan) (oldNick newNick : Str) : Chan :=
  { c with users := replaceIn c.users (lower oldNick) (lower newNick),
           ops := replaceIn c.ops (lower oldNick) (lower newNick),
           halfops := replaceIn c.halfops (lower oldNick) (lower newNick),
           voices := replaceIn c.voices (lower oldNick) (lower newNick) }

/-- `ChannelState.removeUser` -/
def Chan.removeUser (c : Chan) (user : Str) : Chan :=
  { c with users := sdel c.users (lower user), ops := sdel c.ops (lower user),
           halfops := sdel c.halfops (lower user), voices := sdel c.voices (lower user) }

/-- `ircutils.separateModes` after the first element was taken: (sign, letter, value) -/
def sepGo : Str → Char → List Str → List (Char × Char × Option Str)
  | [], _, _ => []
  | c :: cs, last, args =>
    if c = '+' || c = '-' then sepGo cs c args
    else if c ∈ (if last = '+' then Gen.plusRequireArguments else Gen.minusRequireArguments) then
      match args with
      | [] => sepGo cs last []
      | a :: as => (last, c, some (modeArg a)) :: sepGo cs last as
    else (last, c, none) :: sepGo cs last args

def separateModes : List Str → List (Char × Char × Option Str)
  | [] => []
  | modes :: args => sepGo modes '+' args

/-- `IrcString(value)` of a mode value (`str(None)` when the table gave no argument) -/
def valStr : Option Str → Str
  | none => "None".toList
  | some s => s

def setAt (c : Chan) (which : Nat) (f : List Str → List Str) : Chan :=
  match which with
  | 0 => { c with ops := f c.ops }
  | 1 => { c with halfops := f c.halfops }
  | 2 => { c with voices := f c.voices }
  | 3 => { c with bans := f c.bans }
  | _ => c

/-- one `(mode, value)` of `ChannelState.doMode`; `none` = an assertion failed -/
def Chan.modeStep (c : Chan) (ch : Char × Char × Option Str) : Option Chan :=
  let (action, modeChar, value) := ch
  if modeChar ∈ Gen.trackedModes then
    match aget Gen.modeSets modeChar with
    | none => some c                       -- a throw-away `set()`
    | some w =>
      if action = '-' then some (setAt c w (fun s => sdel s (lower (valStr value))))
      else if action = '+' then some (setAt c w (fun s => sadd s (lower (valStr value))))
      else some c
  else if action = '+' then
    if modeChar ∈ Gen.setModeForbidden then none
    else some { c with modes := aset c.modes modeChar value }
  else
    if action = '-' then
      if modeChar ∈ Gen.unsetModeForbidden then none
      else some { c with modes := adel c.modes modeChar }
    else none

/-- run steps until one raises: partial effects are kept -/
def runSteps {σ ι : Type} (f : σ → ι → Option σ) : σ → List ι → σ × Bool
  | s, [] => (s, false)
  | s, i :: is =>
    match f s i with
    | none => (s, true)
    | some s' => runSteps f s' is

/-- `ChannelState.doMode` on `msg.args[1:]` -/
def Chan.doMode (c : Chan) (args : List Str) : Chan × Bool :=
  runSteps Chan.modeStep c (separateModes args)

/-- one `(mode, value)` of `IrcState.do324` -/
def Chan.step324 (c : Chan) (ch : Char × Char × Option Str) : Option Chan :=
  let (action, modeChar, value) := ch
  if modeChar ∈ Gen.skip324 then some c
  else if action = '+' then
    if modeChar ∈ Gen.setModeForbidden then none
    else some { c with modes := aset c.modes modeChar value }
  else if action = '-' then
    if modeChar ∈ Gen.unsetModeForbidden then none
    else some { c with modes := adel c.modes modeChar }
  else some c

/-! ### `Irc` / `IrcState` -/

/-- the part of `irc.state.supported` (RPL_ISUPPORT) the state tracking reads: CHANTYPES and CHANNELLEN
(`none` = never announced, `some none` = announced without a value).  PREFIX, CHANMODES and CASEMAPPING are
stored by the real code as well but never consulted: sigils, mode classes and case folding are hard-coded. -/
structure Isup where
  chantypes : Option (Option Str) := none
  channellen : Option (Option Int) := none
deriving Repr, DecidableEq, Inhabited

structure Bot where
  /-- `irc.nick` -/
  nick : Str
  /-- `irc.prefix` -/
  pfx : Str
  /-- `irc.state.channels` (lowered name ↦ state) -/
  channels : List (Str × Chan) := []
  /-- `irc.state.nicksToHostmasks` (lowered nick ↦ hostmask) -/
  n2h : List (Str × Str) := []
  /-- configured nick / ident (`_setNonResettingVariables`) -/
  cfgNick : Str
  cfgIdent : Str
  isup : Isup := {}
deriving Repr, DecidableEq, Inhabited

def unsetDomain : Str := "unset.domain".toList

/-- a fresh `Irc` object / the effect of `Irc.reset()` on the modelled fields -/
def Bot.init (nick ident : Str) : Bot :=
  { nick := nick, pfx := mkHostmask nick ident unsetDomain, cfgNick := nick, cfgIdent := ident }
def Bot.reset (b : Bot) : Bot := Bot.init b.cfgNick b.cfgIdent

/-- `ircutils.isChannel(s, chantypes, channellen)`; `none` = TypeError (a parameter is `None`) -/
def isChannelWith (chantypes : Option Str) (channellen : Option Int) (s : Str) : Option Bool :=
  match s with
  | [] => some false
  | c0 :: _ =>
    if s.contains ',' || s.contains (Char.ofNat 7) then some false
    else
      match chantypes with
      | none => none
      | some ct =>
        if !ct.contains c0 then some false
        else
          match channellen with
          | none => none
          | some n => some (decide ((s.length : Int) ≤ n) && splitWs s == [s])

/-- `Irc.isChannel`: `ircutils.isChannel` with CHANTYPES / CHANNELLEN from 005 when announced with a value,
else the defaults (a token announced without a value is stored as `None` and skipped) -/
def Bot.isChannel (b : Bot) (s : Str) : Option Bool :=
  isChannelWith (some ((b.isup.chantypes.bind id).getD Gen.chantypes))
    (some ((b.isup.channellen.bind id).getD (Gen.channellen : Int))) s

/-- `ircutils.isChannel` with the default `chantypes` / `channellen` -/
def isChannel (s : Str) : Bool := (isChannelWith (some Gen.chantypes) (some (Gen.channellen : Int)) s).getD false

def Bot.chan (b : Bot) (name : Str) : Option Chan := aget b.channels (lower name)
def Bot.setChan (b : Bot) (name : Str) (c : Chan) : Bot :=
  { b with channels := aset b.channels (lower name) c }
def Bot.chanOrNew (b : Bot) (name : Str) : Chan := (b.chan name).getD Chan.empty

/-- `IrcState.doJoin`, one channel of the comma list -/
def Bot.joinOne (nick : Str) (b : Bot) (channel : Str) : Bot :=
  match b.chan channel with
  | some c => b.setChan channel (c.addUser nick)
  | none => if nick.isEmpty then b else b.setChan channel (Chan.empty.addUser nick)

/-- `IrcState.doPart`, one channel of the comma list -/
def Bot.partOne (nick : Str) (b : Bot) (channel : Str) : Bot :=
  match b.chan channel with
  | none => b
  | some c =>
    if strEqual nick b.nick then { b with channels := adel b.channels (lower channel) }
    else b.setChan channel (c.removeUser nick)

/-- the loop of `IrcState.doKick` -/
def Bot.kickLoop (b : Bot) (key : Str) : List Str → Bot
  | [] => b
  | u :: us =>
    if strEqual u b.nick then { b with channels := adel b.channels key }
    else Bot.kickLoop { b with channels := amod b.channels key (fun c => c.removeUser u) } key us

/-- one NAMES item of `IrcState.do353` acting on the hostmask map -/
def item353Name (item : Str) : Str :=
  if isUserHostmask item then (splitHostmask item).map (·.1) |>.getD item else item

def n2h353 (n2h : List (Str × Str)) (item : Str) : List (Str × Str) :=
  if isUserHostmask item then
    aset n2h (lower (lstripP (· ∈ Gen.sigils353) (item353Name item))) (lstripP (· ∈ Gen.sigils353) item)
  else n2h

def nth (l : List Str) (i : Nat) : Option Str := l[i]?

/-- commands with a handler in the model (`dispatchCommand`: `'do' + command.upper().capitalize()`) -/
inductive Cmd
  | join | part | kick | quit | topic | n332 | nick | mode | n324 | n329 | n353 | n352 | n354 | n367
  | chghost | n315 | n005 | batch | other
deriving Repr, DecidableEq, Inhabited

def cmdOf (cmd : Str) : Cmd :=
  let key := cmd.map asciiUpperChar
  if key = "JOIN".toList then .join
  else if key = "PART".toList then .part
  else if key = "KICK".toList then .kick
  else if key = "QUIT".toList then .quit
  else if key = "TOPIC".toList then .topic
  else if key = "332".toList then .n332
  else if key = "NICK".toList then .nick
  else if key = "MODE".toList then .mode
  else if key = "324".toList then .n324
  else if key = "329".toList then .n329
  else if key = "353".toList then .n353
  else if key = "352".toList then .n352
  else if key = "354".toList then .n354
  else if key = "367".toList then .n367
  else if key = "CHGHOST".toList then .chghost
  else if key = "315".toList then .n315
  else if key = "005".toList then .n005
  else if key = "BATCH".toList then .batch
  else .other

/-! the handlers of `IrcState`; the Bool says "raised" -/

def Bot.doJoin (b : Bot) (m : Msg) : Bot × Bool :=
  match m.args with
  | [] => (b, true)
  | a0 :: _ => ((splitChar ',' a0).foldl (Bot.joinOne m.nick) b, false)

def Bot.doPart (b : Bot) (m : Msg) : Bot × Bool :=
  match m.args with
  | [] => (b, true)
  | a0 :: _ => ((splitChar ',' a0).foldl (Bot.partOne m.nick) b, false)

def Bot.doKick (b : Bot) (m : Msg) : Bot × Bool :=
  match m.args with
  | ch :: us :: _ =>
    match b.chan ch with
    | none => (b, true)
    | some _ => (b.kickLoop (lower ch) (splitChar ',' us), false)
  | _ => (b, true)

def Bot.doQuit (b : Bot) (m : Msg) : Bot × Bool :=
  ({ b with channels := amapAll b.channels (fun c => if lower m.nick ∈ c.users then c.removeUser m.nick else c),
            n2h := adel b.n2h (lower m.nick) }, false)

def Bot.doTopic (b : Bot) (m : Msg) : Bot × Bool :=
  match m.args with
  | [] => (b, true)
  | [_] => (b, false)
  | ch :: t :: _ =>
    match b.chan ch with
    | none => (b, false)
    | some c => (b.setChan ch { c with topic := t }, false)

def Bot.do332 (b : Bot) (m : Msg) : Bot × Bool :=
  match m.args with
  | _ :: ch :: rest =>
    match b.chan ch with
    | none => (b, true)
    | some c =>
      match rest with
      | [] => (b, true)
      | t :: _ => (b.setChan ch { c with topic := t }, false)
  | _ => (b, true)

def Bot.doNick (b : Bot) (m : Msg) : Bot × Bool :=
  match m.args with
  | [] => (b, true)
  | newNick :: _ =>
    let b1 := { b with n2h := adel b.n2h (lower m.nick) }
    if !m.user.isEmpty && !m.host.isEmpty then
      if newNick.isEmpty then (b1, true)
      else
        ({ b1 with n2h := aset b1.n2h (lower newNick) (mkHostmask newNick m.user m.host),
                   channels := amapAll b1.channels (fun c => c.replaceUser m.nick newNick) }, false)
    else ({ b1 with channels := amapAll b1.channels (fun c => c.replaceUser m.nick newNick) }, false)

def Bot.doMode (b : Bot) (m : Msg) : Bot × Bool :=
  match m.args with
  | [] => (b, true)
  | ch :: rest =>
    match b.isChannel ch with
    | none => (b, true)
    | some true =>
      let r := (b.chanOrNew ch).doMode rest
      (b.setChan ch r.1, r.2)
    | some false => (b, false)

/-- one token of RPL_ISUPPORT (`IrcState.do005`; a failing converter is logged, the token skipped) -/
def Bot.token005 (b : Bot) (arg : Str) : Bot :=
  match split1 '=' arg with
  | some (name, value) =>
    if asciiLower name = "chantypes".toList then { b with isup := { b.isup with chantypes := some (some value) } }
    else if asciiLower name = "channellen".toList then
      match pyInt value with
      | some n => { b with isup := { b.isup with channellen := some (some n) } }
      | none => b
    else b
  | none =>
    if asciiLower arg = "chantypes".toList then { b with isup := { b.isup with chantypes := some none } }
    else if asciiLower arg = "channellen".toList then { b with isup := { b.isup with channellen := some none } }
    else b

def Bot.do005 (b : Bot) (m : Msg) : Bot × Bool :=
  (((m.args.drop 1).dropLast).foldl Bot.token005 b, false)

def Bot.do324 (b : Bot) (m : Msg) : Bot × Bool :=
  match m.args with
  | _ :: ch :: rest =>
    match b.chan ch with
    | none => (b, false)
    | some c =>
      let r := runSteps Chan.step324 c (separateModes rest)
      (b.setChan ch r.1, r.2)
  | _ => (b, true)

def Bot.do329 (b : Bot) (m : Msg) : Bot × Bool :=
  match m.args with
  | _ :: ch :: rest =>
    match b.chan ch with
    | none => (b, false)
    | some c =>
      match rest with
      | [] => (b, true)
      | t :: _ =>
        match pyInt t with
        | none => (b, true)
        | some n => (b.setChan ch { c with created := n }, false)
  | _ => (b, true)

def Bot.do353 (b : Bot) (m : Msg) : Bot × Bool :=
  match m.args with
  | [_, type, ch, items] =>
    let its := splitWs items
    let c := its.foldl (fun c item => c.addUser (item353Name item)) (b.chanOrNew ch)
    let c := if type = ['@'] then { c with modes := aset c.modes 's' none } else c
    ({ b.setChan ch c with n2h := its.foldl n2h353 b.n2h }, false)
  | _ => (b, true)

def Bot.do352 (b : Bot) (m : Msg) : Bot × Bool :=
  match nth m.args 5, nth m.args 2, nth m.args 3 with
  | some nick, some user, some host =>
    ({ b with n2h := aset b.n2h (lower nick) (mkHostmask nick user host) }, false)
  | _, _, _ => (b, true)

def Bot.do354 (b : Bot) (m : Msg) : Bot × Bool :=
  match m.args with
  | [_, t, user, _, host, nick, _, _, _] =>
    if t = ['1'] then ({ b with n2h := aset b.n2h (lower nick) (mkHostmask nick user host) }, false)
    else (b, false)
  | _ => (b, false)

def Bot.do367 (b : Bot) (m : Msg) : Bot × Bool :=
  match m.args with
  | _ :: ch :: rest =>
    match b.chan ch with
    | none => (b, false)
    | some c =>
      match rest with
      | [] => (b, true)
      | mask :: _ => (b.setChan ch { c with bans := sadd c.bans (lower mask) }, false)
  | _ => (b, true)

def Bot.doChghost (b : Bot) (m : Msg) : Bot × Bool :=
  match m.args with
  | [user, host] =>
    ({ b with n2h := aset b.n2h (lower m.nick) (mkHostmask m.nick user host) }, false)
  | _ => (b, true)

/-- the command-specific part of `IrcState.addMsg` -/
def Bot.stateCmd (b : Bot) (m : Msg) : Bot × Bool :=
  match cmdOf m.cmd with
  | .join => b.doJoin m
  | .part => b.doPart m
  | .kick => b.doKick m
  | .quit => b.doQuit m
  | .topic => b.doTopic m
  | .n332 => b.do332 m
  | .nick => b.doNick m
  | .mode => b.doMode m
  | .n324 => b.do324 m
  | .n329 => b.do329 m
  | .n353 => b.do353 m
  | .n352 => b.do352 m
  | .n354 => b.do354 m
  | .n367 => b.do367 m
  | .chghost => b.doChghost m
  | .n315 => (b, false)
  | .n005 => b.do005 m
  | .batch => (b, false)      -- `doBatch` only touches `state.batches`, see `Batch.lean`
  | .other => (b, false)

/-- `IrcState.addMsg`: hostmask bookkeeping, the `batch` tag check, then the command handler.
`undeclared`: the message carries a `batch` tag that names no open batch; the assertion then fails after
the hostmask was recorded and before the handler runs. -/
def Bot.addMsgT (b : Bot) (undeclared : Bool) (m : Msg) : Bot × Bool :=
  let b1 := if isUserHostmask m.pfx && m.cmd != "NICK".toList
            then { b with n2h := aset b.n2h (lower m.nick) m.pfx } else b
  if undeclared then (b1, true) else b1.stateCmd m

def Bot.addMsg (b : Bot) (m : Msg) : Bot × Bool := b.addMsgT false m

inductive Exc | none | irc | state
deriving Repr, DecidableEq, Inhabited

/-- `Irc.doNick` (the bot's own nick change; `followIdentificationThroughNickChanges` off) -/
def Bot.ircNick (b : Bot) (m : Msg) : Bot × Bool :=
  if m.nick = b.nick then
    match m.args with
    | [] => (b, true)
    | newNick :: _ =>
      let b1 := { b with nick := newNick }
      match splitHostmask m.pfx with
      | none => (b1, true)
      | some (_, user, domain) =>
        if newNick.isEmpty || user.isEmpty || domain.isEmpty then (b1, true)
        else ({ b1 with pfx := mkHostmask newNick user domain }, false)
  else (b, false)

/-- `Irc.doChghost` (the bot's own host change) -/
def Bot.ircChghost (b : Bot) (m : Msg) : Bot × Bool :=
  if m.nick = b.nick then
    match m.args with
    | [user, host] =>
      if b.nick.isEmpty || user.isEmpty || host.isEmpty then (b, true)
      else ({ b with pfx := mkHostmask b.nick user host }, false)
    | _ => (b, true)
  else (b, false)

/-- the `Irc`-level handlers that exist for the modelled commands (`Irc.doJoin`, `Irc.doNick`,
`Irc.do315`, `Irc.doChghost`): state effect and whether they raise -/
def Bot.ircCmd (b : Bot) (m : Msg) : Bot × Bool :=
  match cmdOf m.cmd with
  | .join => if m.nick = b.nick then (b, m.args.isEmpty) else (b, false)
  | .n315 => (b, decide (m.args.length < 2))
  | .nick => b.ircNick m
  | .chghost => b.ircChghost m
  | _ => (b, false)

/-- `_tagMsg` / `_setMsgChannel`: `self.isChannel(msg.args[0])` raises when 005 announced CHANTYPES /
CHANNELLEN without a value -/
def Bot.tagRaises (b : Bot) (m : Msg) : Bool :=
  match m.args with
  | a0 :: _ => (b.isChannel a0).isNone
  | [] => false

/-- `Irc.feedMsg` restricted to `irc.nick`, `irc.prefix` and `irc.state` (`irc.server` is not modelled) -/
def Bot.feedT (b : Bot) (undeclared : Bool) (m0 : Msg) : Bot × Exc :=
  if b.tagRaises m0 then (b, .irc) else
  -- "odd nick-instead-of-prefix" messages
  let m := if m0.pfx = b.nick then { m0 with pfx := if b.pfx.isEmpty then m0.pfx else b.pfx } else m0
  let b := if m.nick = b.nick && b.pfx != m.pfx then { b with pfx := m.pfx } else b
  -- nick setters
  let r : Bot × Bool :=
    if m.cmd ∈ Gen.nickSetters then
      match m.args with
      | [] => (b, true)
      | a0 :: _ =>
        (if a0 != b.nick then { b with nick := a0 } else b, false)
    else (b, false)
  if r.2 then (r.1, .irc) else
  let r2 := r.1.ircCmd m
  if r2.2 then (r2.1, .irc) else
  let r3 := r2.1.addMsgT undeclared m
  (r3.1, if r3.2 then .state else .none)

/-- a message without `batch` tag, or with one naming an open batch -/
def Bot.feed (b : Bot) (m0 : Msg) : Bot × Exc := b.feedT false m0

def Bot.feedAll (b : Bot) (ms : List Msg) : Bot := ms.foldl (fun b m => (b.feed m).1) b

/-- the messages `Irc.doJoin` queues when the bot sees its own JOIN, in the order `takeMsg` hands them to
the driver (`IrcMsgQueue`: MODE is a normal-priority command, WHO a low-priority one):
`MODE <channels>`, `MODE <channel> +b` for each channel of the comma list, `WHO <channels> %tuhnairf,1` -/
def joinRequests (a0 : Str) : List Msg :=
  ⟨[], "MODE".toList, [a0]⟩ ::
    ((splitChar ',' a0).map (fun c => (⟨[], "MODE".toList, [c, "+b".toList]⟩ : Msg)) ++
      [⟨[], "WHO".toList, [a0, "%tuhnairf,1".toList]⟩])

/-- what `feedMsg` makes the bot send (only the requests of `Irc.doJoin` are modelled) -/
def Bot.out (b : Bot) (m0 : Msg) : List Msg :=
  if b.tagRaises m0 then [] else
  let m := if m0.pfx = b.nick then { m0 with pfx := if b.pfx.isEmpty then m0.pfx else b.pfx } else m0
  let nick := if m.cmd ∈ Gen.nickSetters then (match m.args with | a0 :: _ => a0 | [] => b.nick) else b.nick
  match cmdOf m.cmd, m.args with
  | .join, a0 :: _ => if m.nick = nick then joinRequests a0 else []
  | _, _ => []

end C10
