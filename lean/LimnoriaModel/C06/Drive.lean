import LimnoriaModel.C06.Model
import LimnoriaModel.C05.Drive
import LimnoriaModel.Driver.Core
namespace C06
open Py Wire

def decB (f : String) : Option Bool := if f = "1" then some true else if f = "0" then some false else none
def decOB (f : String) : Option (Option Bool) := if f = "~" then some none else (decB f).map some

def showBuilt : Built → String
  | .assertFail => "assert"
  | .ok m => "ok\t" ++ enc m.command ++ "\t" ++ encList m.args

def showLine (o : Option Str) : String :=
  match o with
  | none => "valueerror"
  | some l => "line\t" ++ enc l ++ "\t" ++ (if wellFormedLine l then "wf" else "notwf") ++ "\t" ++
      toString (utf8Len (nonTagPart l))

def drive : List String → String
  | ["ctor", p, c, a, t, lab] =>
    (match dec p, dec c, decList a, C05.decTags t, decOpt lab with
     | some p, some c, some a, some t, some lab =>
       (match ctor p c a t with
        | .assertFail => "assert"
        | .ok m => showLine (takeLine lab m))
     | _, _, _, _, _ => "bad-op")
  | ["copy", p, c, a, t, p2, c2, a2] =>
    (match dec p, dec c, decList a, C05.decTags t, dec p2, dec c2, decList a2 with
     | some p, some c, some a, some t, some p2, some c2, some a2 =>
       (match ctorCopy ⟨p, c, a, t⟩ p2 c2 a2 with
        | .assertFail => "assert"
        | .ok m => showLine (takeLine none m))
     | _, _, _, _, _, _, _ => "bad-op")
  | ["reply", cfg, s, reprS, pn, pr, no, to, act, err, strip, replyTo, nick, pubs] =>
    (match cfg.toList.map (· == '1'), dec s, dec reprS, decOB pn, decOB pr, decOB no, decOpt to, decB act, decB err,
        decB strip, dec replyTo, dec nick, pubs.toList.map (· == '1') with
     | [c1, c2, c3, c4, c5, c6], some s, some reprS, some pn, some pr, some no, some to, some act, some err,
        some strip, some replyTo, some nick, [p1, p2, p3] =>
       let isPublic : Str → Bool := fun x =>
         if x = replyTo then p1 else if some x = to then p2 else if x = nick then p3 else false
       showBuilt (makeReply isPublic ⟨c1, c2, c3, c4, c5, c6⟩
         { s := s, reprS := reprS, prefixNick := pn, priv := pr, notice := no, to := to, action := act,
           error := err, stripCtcp := strip, replyTo := replyTo, nick := nick })
     | _, _, _, _, _, _, _, _, _, _, _, _, _ => "bad-op")
  | ["cut", n, s] =>
    (match n.toNat?, dec s with
     | some n, some s => enc (cutToBytes n s)
     | _, _ => "bad-op")
  | ["trunc", l] => (match dec l with | some l => showLine (truncate l) | none => "bad-op")
  | ["safe", s, r] => (match dec s, dec r with | some s, some r => enc (safeArgument r s) | _, _ => "bad-op")
  | _ => "bad-op"

def handler : Driver.Handler := Driver.pureHandler drive
end C06
