import LimnoriaModel.C06.Model
import LimnoriaModel.C11.Utf8
namespace C06
open Py

/-! ### what the theorems need from the extracted tables -/

/-- raw / `msg=` constructions of an `IrcMsg` that are known and accounted for:
outFilter rewriters (enabled by a channel op; they substitute inside an already valid text),
owner-only raw senders (excluded by the property), plain copies, and the two incoming paths. -/
def allowedRawSites : List (String × String × String) :=
  [("plugins/BadWords/plugin.py", "BadWords.outFilter", "msg="),
   ("plugins/Filter/plugin.py", "Filter.outFilter", "msg="),
   ("plugins/Google/plugin.py", "Google.outFilter", "msg="),
   ("plugins/ShrinkUrl/plugin.py", "ShrinkUrl._outFilterThread", "msg="),
   ("plugins/Debug/plugin.py", "Debug.sendquote", "string"),
   ("plugins/Owner/plugin.py", "Owner.ircquote", "string"),
   ("plugins/Utilities/plugin.py", "Utilities.let", "msg="),
   ("plugins/Misc/plugin.py", "Misc.more", "msg="),
   ("src/drivers/__init__.py", "parseMsg", "string"),
   ("src/irclib.py", "Irc.feedMsg", "msg="),
   -- the emulated echo fed back to the plugins (fix b0e0eea): a plain copy, and it is not what is sent
   ("src/irclib.py", "Irc.takeMsg", "msg="),
   ("src/irclib.py", "Irc._takeMsg", "msg=")]

/-- the filter commands a channel op may install as an outFilter: each maps text without CR/LF/NUL
to text without CR/LF/NUL (letter substitutions, encoders, re-orderings; no decoder) -/
def allowedOutFilters : List String :=
  ["jeffk", "leet", "rot13", "hexlify", "binary", "scramble", "morse", "reverse", "colorize", "squish",
   "supa1337", "stripcolor", "aol", "rainbow", "spellit", "hebrew", "undup", "uwu", "gnu", "shrink", "uniud",
   "capwords", "caps", "vowelrot"]

def cleanChar (c : Char) : Bool := !(c = '\r' || c = '\n' || c = Char.ofNat 0)

/-- the tag-value escape table removes CR and LF and introduces no CR, LF or NUL -/
def escSafe (t : List (Char × Str)) : Bool :=
  t.all (fun p => p.2.all cleanChar) && (t.lookup '\r').isSome && (t.lookup '\n').isSome

structure TablesOk : Prop where
  chars : Gen.invalidArgChars = ['\r', '\n', Char.ofNat 0]
  maxLine : Gen.maxLineSize = 512
  reserve : Gen.truncateReserve = 2
  countsBytes : Gen.truncateCountsBytes = true
  cutsBytes : Gen.truncateCutsBytes = true
  sites : Gen.rawMsgSites.all (fun s => allowedRawSites.contains s) = true
  esc : escSafe Gen.serverTagEscape = true
  /-- the truncation sizes the line with the error handler the driver encodes with -/
  sameErrors : Gen.truncateErrors = Gen.driverErrors
  /-- nothing resets the serialisation after `_truncateMsg` stored the cut in it -/
  cutKept : Gen.strResetAfterTruncate = false
  /-- only known, CR/LF/NUL-preserving filter commands can become an outFilter -/
  outFilters : Gen.filterOutCommands.all (fun c => allowedOutFilters.contains c) = true

instance : Decidable TablesOk :=
  decidable_of_iff
    (Gen.invalidArgChars = ['\r', '\n', Char.ofNat 0] ∧ Gen.maxLineSize = 512 ∧ Gen.truncateReserve = 2 ∧
     Gen.truncateCountsBytes = true ∧ Gen.truncateCutsBytes = true ∧
     Gen.rawMsgSites.all (fun s => allowedRawSites.contains s) = true ∧ escSafe Gen.serverTagEscape = true ∧
     Gen.truncateErrors = Gen.driverErrors ∧ Gen.strResetAfterTruncate = false ∧
     Gen.filterOutCommands.all (fun c => allowedOutFilters.contains c) = true)
    ⟨fun ⟨a, b, c, d, e, f, g, h, i, j⟩ => ⟨a, b, c, d, e, f, g, h, i, j⟩,
     fun ⟨a, b, c, d, e, f, g, h, i, j⟩ => ⟨a, b, c, d, e, f, g, h, i, j⟩⟩

/-! ### clean strings -/

/-- no CR, LF, NUL -/
def Clean (s : Str) : Prop := ∀ c ∈ s, cleanChar c = true

instance (s : Str) : Decidable (Clean s) :=
  inferInstanceAs (Decidable (∀ c ∈ s, cleanChar c = true))

theorem bad_eq (tk : TablesOk) (c : Char) : bad c = !cleanChar c := by
  unfold bad cleanChar
  rw [tk.chars]
  simp [Bool.or_assoc]

theorem validArg_iff (tk : TablesOk) (s : Str) : validArg s = true ↔ Clean s := by
  unfold validArg Clean
  have : ∀ c, Gen.invalidArgChars.contains c = !cleanChar c := fun c => bad_eq tk c
  simp only [this, Bool.not_eq_true', List.any_eq_false]
  constructor
  · intro h c hc
    cases hcc : cleanChar c
    · exact absurd (by simp [hcc]) (h c hc)
    · rfl
  · intro h c hc
    simp [h c hc]

theorem clean_nil : Clean [] := by intro c h; cases h

theorem clean_append {a b : Str} : Clean (a ++ b) ↔ Clean a ∧ Clean b := by
  unfold Clean
  constructor
  · intro h
    exact ⟨fun c hc => h c (by simp [hc]), fun c hc => h c (by simp [hc])⟩
  · rintro ⟨h1, h2⟩ c hc
    rcases List.mem_append.1 hc with h | h
    · exact h1 c h
    · exact h2 c h

theorem clean_cons {c : Char} {s : Str} : Clean (c :: s) ↔ cleanChar c = true ∧ Clean s := by
  unfold Clean
  simp

theorem clean_joinChar (sep : Char) (hs : cleanChar sep = true) (l : List Str) (h : ∀ s ∈ l, Clean s) :
    Clean (joinChar sep l) := by
  induction l with
  | nil => exact clean_nil
  | cons a rest ih =>
    cases rest with
    | nil => simpa [joinChar] using h a (by simp)
    | cons b rest' =>
      simp only [joinChar]
      rw [clean_append, clean_cons]
      exact ⟨h a (by simp), hs, ih (fun s hs' => h s (by simp [hs']))⟩

/-! ### tag values: escaping leaves no CR / LF, and no NUL if there was none -/

theorem escChar_clean (t : List (Char × Str)) (ht : escSafe t = true) (c : Char) (hc : c ≠ Char.ofNat 0) :
    Clean (C05.escChar t c) := by
  unfold escSafe at ht
  simp only [Bool.and_eq_true, List.all_eq_true] at ht
  obtain ⟨⟨h1, h2⟩, h3⟩ := ht
  unfold C05.escChar
  cases hl : t.lookup c with
  | some r =>
    -- the image of a table entry
    have hmem : (c, r) ∈ t := by
      clear h1 h2 h3
      induction t with
      | nil => simp [List.lookup] at hl
      | cons p ps ih =>
        obtain ⟨a, b⟩ := p
        simp only [List.lookup] at hl
        split at hl
        · rename_i heq
          have : c = a := by simpa using heq
          subst this
          injection hl with hl; subst hl
          exact List.mem_cons_self
        · exact List.mem_cons_of_mem _ (ih hl)
    intro x hx
    exact h1 (c, r) hmem x hx
  | none =>
    intro x hx
    have : x = c := by simpa using hx
    subst this
    unfold cleanChar
    have hr : x ≠ '\r' := by intro h; subst h; rw [hl] at h2; simp at h2
    have hn : x ≠ '\n' := by intro h; subst h; rw [hl] at h3; simp at h3
    simp [hr, hn, hc]

theorem escapeTag_clean (tk : TablesOk) (v : Str) (hv : ∀ c ∈ v, c ≠ Char.ofNat 0) : Clean (C05.escapeTag v) := by
  unfold C05.escapeTag C05.escapeWith
  intro x hx
  rw [List.mem_flatMap] at hx
  obtain ⟨c, hc, hxc⟩ := hx
  exact escChar_clean _ tk.esc c (hv c hc) x hxc

/-- tag keys without CR/LF/NUL, tag values without NUL -/
def CleanTags (t : C05.Tags) : Prop := ∀ p ∈ t, Clean p.1 ∧ ∀ v, p.2 = some v → ∀ c ∈ v, c ≠ Char.ofNat 0

theorem formatTag_clean (tk : TablesOk) (p : Str × Option Str) (hk : Clean p.1)
    (hv : ∀ v, p.2 = some v → ∀ c ∈ v, c ≠ Char.ofNat 0) : Clean (C05.formatTag p) := by
  obtain ⟨k, v⟩ := p
  cases v with
  | none => exact hk
  | some v =>
    simp only [C05.formatTag]
    rw [clean_append, clean_cons]
    exact ⟨hk, by decide, escapeTag_clean tk v (hv v rfl)⟩

theorem formatTags_clean (tk : TablesOk) (t : C05.Tags) (ht : CleanTags t) : Clean (C05.formatTags t) := by
  unfold C05.formatTags
  rw [clean_cons]
  refine ⟨by decide, clean_joinChar ';' (by decide) _ ?_⟩
  intro s hs
  rw [List.mem_map] at hs
  obtain ⟨p, hp, rfl⟩ := hs
  exact formatTag_clean tk p (ht p hp).1 (ht p hp).2

/-! ### serialisation -/

theorem wellFormed_of_clean (body : Str) (h : Clean body) (tk : TablesOk) : WellFormedLine (body ++ CRLF) :=
  ⟨body, rfl, fun c hc => by rw [bad_eq tk, h c hc]; rfl⟩

theorem formatBody_eq (m : C05.Msg) (hp : Clean m.pfx) (hc : Clean m.command) (ha : ∀ a ∈ m.args, Clean a) :
    ∃ body, C05.formatBody m = body ++ CRLF ∧ Clean body := by
  have hpre : Clean (if m.pfx = [] then [] else ':' :: m.pfx ++ [' ']) := by
    split
    · exact clean_nil
    · rw [show (':' :: m.pfx ++ [' ']) = [':'] ++ m.pfx ++ [' '] by simp, clean_append, clean_append]
      exact ⟨⟨by intro c h; simp at h; subst h; decide, hp⟩, by intro c h; simp at h; subst h; decide⟩
  unfold C05.formatBody
  cases hargs : m.args with
  | nil =>
    exact ⟨_, by simp only [CRLF, List.append_assoc], clean_append.2 ⟨hpre, hc⟩⟩
  | cons a rest =>
    cases rest with
    | nil =>
      refine ⟨(if m.pfx = [] then [] else ':' :: m.pfx ++ [' ']) ++ m.command ++ [' ', ':'] ++ a, by simp [CRLF], ?_⟩
      rw [clean_append, clean_append, clean_append]
      exact ⟨⟨⟨hpre, hc⟩, by intro c h; simp at h; rcases h with rfl | rfl <;> decide⟩, ha a (by rw [hargs]; simp)⟩
    | cons b rest' =>
      simp only
      refine ⟨(if m.pfx = [] then [] else ':' :: m.pfx ++ [' ']) ++ m.command ++ [' '] ++
          joinChar ' ' (a :: b :: rest').dropLast ++ [' ', ':'] ++ (a :: b :: rest').getLast (by simp),
        by simp [CRLF], ?_⟩
      have hall : ∀ s ∈ (a :: b :: rest'), Clean s := fun s hs => ha s (by rw [hargs]; exact hs)
      rw [clean_append, clean_append, clean_append, clean_append, clean_append]
      refine ⟨⟨⟨⟨⟨hpre, hc⟩, by intro c h; simp at h; subst h; decide⟩, ?_⟩,
        by intro c h; simp at h; rcases h with rfl | rfl <;> decide⟩, hall _ (List.getLast_mem _)⟩
      exact clean_joinChar ' ' (by decide) _ (fun s hs => hall s (List.dropLast_subset _ hs))

theorem format_wellFormed (tk : TablesOk) (m : C05.Msg) (hp : Clean m.pfx) (hc : Clean m.command)
    (ha : ∀ a ∈ m.args, Clean a) (ht : CleanTags m.tags) : WellFormedLine (C05.format m) := by
  obtain ⟨body, hb, hcl⟩ := formatBody_eq m hp hc ha
  unfold C05.format
  split
  · rw [hb]; exact wellFormed_of_clean body hcl tk
  · rw [hb]
    have : C05.formatTags m.tags ++ ' ' :: (body ++ CRLF) = (C05.formatTags m.tags ++ ' ' :: body) ++ CRLF := by simp
    rw [this]
    apply wellFormed_of_clean _ _ tk
    rw [clean_append, clean_cons]
    exact ⟨formatTags_clean tk m.tags ht, by decide, hcl⟩

/-! ### the reply payload -/

theorem ctor_ok_iff (tk : TablesOk) (pfx command : Str) (args : List Str) (tags : C05.Tags) :
    (∀ a ∈ args, Clean a) → ctor pfx command args tags = .ok ⟨pfx, command, args, tags⟩ := by
  intro h
  unfold ctor
  have : args.all validArg = true := by
    rw [List.all_eq_true]
    intro a ha
    exact (validArg_iff tk a).2 (h a ha)
  rw [this]; rfl

theorem ctor_args_clean (tk : TablesOk) (pfx command : Str) (args : List Str) (tags : C05.Tags) (m : C05.Msg)
    (h : ctor pfx command args tags = .ok m) : m = ⟨pfx, command, args, tags⟩ ∧ ∀ a ∈ args, Clean a := by
  unfold ctor at h
  split at h
  · rename_i hall
    rw [List.all_eq_true] at hall
    injection h with h
    exact ⟨h.symm, fun a ha => (validArg_iff tk a).1 (hall a ha)⟩
  · cases h

theorem clean_stripCtcp (s : Str) (h : Clean s) : Clean (stripCtcpChars s) := by
  unfold stripCtcpChars rstripP lstripP
  intro c hc
  have h1 := List.mem_reverse.1 hc
  have h2 := (List.dropWhile_suffix _).subset h1
  have h3 := List.mem_reverse.1 h2
  exact h c ((List.dropWhile_suffix _).subset h3)

theorem safeArgument_clean (tk : TablesOk) (reprS s : Str) (hr : Clean reprS) : Clean (safeArgument reprS s) := by
  unfold safeArgument
  split
  · rename_i h; exact (validArg_iff tk s).1 h
  · exact hr

/-- the three constructors of the reply path, when target and text are clean -/
theorem privmsg_ok (tk : TablesOk) (t s : Str) (ht : Clean t) (hs : Clean s) :
    ∃ m, privmsg t s = .ok m := by
  refine ⟨_, ctor_ok_iff tk _ _ _ _ ?_⟩
  intro a ha; simp at ha; rcases ha with rfl | rfl <;> assumption

theorem notice_ok (tk : TablesOk) (t s : Str) (ht : Clean t) (hs : Clean s) :
    ∃ m, notice t s = .ok m := by
  refine ⟨_, ctor_ok_iff tk _ _ _ _ ?_⟩
  intro a ha; simp at ha; rcases ha with rfl | rfl <;> assumption

theorem action_ok (tk : TablesOk) (t s : Str) (ht : Clean t) (hs : Clean s) :
    ∃ m, action t s = .ok m := by
  unfold action
  apply privmsg_ok tk _ _ ht
  rw [clean_append, clean_append, clean_cons]
  exact ⟨⟨⟨by decide, by intro c h; simp at h; rcases h with rfl | rfl | rfl | rfl | rfl | rfl | rfl <;> decide⟩, hs⟩,
    by intro c h; simp at h; subst h; decide⟩

/-! ### the byte cut -/

theorem utf8Len_nil : utf8Len [] = 0 := rfl
theorem utf8Len_cons (c : Char) (s : Str) : utf8Len (c :: s) = c.utf8Size + utf8Len s := by
  simp [utf8Len]
theorem utf8Len_append (a b : Str) : utf8Len (a ++ b) = utf8Len a + utf8Len b := by
  simp [utf8Len]

theorem utf8Len_eq_bytes (s : Str) : utf8Len s = (C11.utf8 s).length := by
  induction s with
  | nil => rfl
  | cons c cs ih =>
    rw [utf8Len_cons, ih]
    simp [C11.utf8, C11.encChar_length]

theorem utf8Size_pos (c : Char) : 0 < c.utf8Size := Char.utf8Size_pos c

theorem length_le_utf8Len (s : Str) : s.length ≤ utf8Len s := by
  induction s with
  | nil => simp [utf8Len]
  | cons c cs ih =>
    rw [utf8Len_cons, List.length_cons]
    have := utf8Size_pos c
    omega

theorem append_eq_append_suffix {α : Type} {a b x y : List α} (h : a ++ b = x ++ y) (hl : y.length ≤ b.length) :
    ∃ r, b = r ++ y ∧ x = a ++ r := by
  rcases List.append_eq_append_iff.1 h with ⟨a', hx, hb⟩ | ⟨c', ha, hy⟩
  · exact ⟨a', hb, hx⟩
  · have hc : c' = [] := by
      have := congrArg List.length hy
      rw [List.length_append] at this
      exact List.eq_nil_of_length_eq_zero (by omega)
    subst hc
    simp only [List.append_nil, List.nil_append] at ha hy
    exact ⟨[], by simp [hy], by simp [ha]⟩

theorem utf8Len_le_four_mul (s : Str) : utf8Len s ≤ 4 * s.length := by
  induction s with
  | nil => simp [utf8Len]
  | cons c cs ih =>
    rw [utf8Len_cons, List.length_cons]
    have : c.utf8Size ≤ 4 := Char.utf8Size_le_four c
    omega

theorem cut_prefix (n : Nat) (s : Str) : cutToBytes n s <+: s := by
  induction s generalizing n with
  | nil => simp [cutToBytes]
  | cons c cs ih =>
    unfold cutToBytes
    split
    · exact List.cons_prefix_cons.2 ⟨rfl, ih _⟩
    · exact List.nil_prefix

theorem cut_len (n : Nat) (s : Str) : utf8Len (cutToBytes n s) ≤ n := by
  induction s generalizing n with
  | nil => simp [cutToBytes, utf8Len]
  | cons c cs ih =>
    unfold cutToBytes
    split
    · rw [utf8Len_cons]
      have := ih (n - c.utf8Size)
      omega
    · simp [utf8Len]

theorem clean_of_prefix {p s : Str} (h : p <+: s) (hs : Clean s) : Clean p :=
  fun c hc => hs c (h.subset hc)

/-- a prefix of `x ++ y` not longer (in bytes) than `x` is a prefix of `x` -/
theorem prefix_of_append_of_len {p x y : Str} (h : p <+: x ++ y) (hl : utf8Len p ≤ utf8Len x) : p <+: x := by
  induction x generalizing p with
  | nil =>
    have : p = [] := by
      have := length_le_utf8Len p
      rw [utf8Len_nil] at hl
      exact List.eq_nil_of_length_eq_zero (by omega)
    subst this; exact List.nil_prefix
  | cons a xs ih =>
    cases p with
    | nil => exact List.nil_prefix
    | cons b ps =>
      rw [List.cons_append, List.cons_prefix_cons] at h
      obtain ⟨rfl, h'⟩ := h
      rw [utf8Len_cons, utf8Len_cons] at hl
      exact List.cons_prefix_cons.2 ⟨rfl, ih h' (by omega)⟩

theorem split1_spec (c : Char) (l t rest : Str) (h : split1 c l = some (t, rest)) :
    l = t ++ c :: rest ∧ c ∉ t := by
  induction l generalizing t with
  | nil => simp [split1] at h
  | cons x xs ih =>
    unfold split1 at h
    split at h
    · rename_i hx
      injection h with h
      injection h with h1 h2
      subst h1 h2 hx
      simp
    · rename_i hx
      cases hr : split1 c xs with
      | none => rw [hr] at h; cases h
      | some p =>
        obtain ⟨a, b⟩ := p
        rw [hr] at h
        injection h with h
        injection h with h1 h2
        subst h1 h2
        obtain ⟨e1, e2⟩ := ih a hr
        refine ⟨by rw [e1]; rfl, ?_⟩
        simp only [List.mem_cons, not_or]
        exact ⟨fun hcx => hx hcx.symm, e2⟩

theorem split1_of_not_mem (c : Char) (t rest : Str) (h : c ∉ t) : split1 c (t ++ c :: rest) = some (t, rest) := by
  induction t with
  | nil => simp [split1]
  | cons x xs ih =>
    simp only [List.mem_cons, not_or] at h
    simp only [List.cons_append, split1]
    rw [if_neg (fun hx => h.1 hx.symm), ih h.2]

/-! ### lines of the reply constructors -/

theorem built_line (tk : TablesOk) (command : Str) (hc : Clean command) (t s : Str) (m : C05.Msg)
    (h : ctor [] command [t, s] [] = .ok m) : WellFormedLine (C05.format m) := by
  obtain ⟨rfl, ha⟩ := ctor_args_clean tk _ _ _ _ m h
  exact format_wellFormed tk _ clean_nil hc ha (by intro p hp; cases hp)

/-! ### truncation -/

theorem utf8Len_CRLF : utf8Len CRLF = 2 := by decide

theorem wellFormed_bool (tk : TablesOk) (l : Str) (h : WellFormedLine l) : wellFormedLine l = true := by
  obtain ⟨body, rfl, hb⟩ := h
  unfold wellFormedLine
  have hl : (body ++ CRLF).length - 2 = body.length := by simp [CRLF]
  rw [hl]
  simp only [List.drop_left', List.take_left', List.length_append, Bool.and_eq_true, decide_eq_true_eq,
    List.all_eq_true, Bool.not_eq_true']
  refine ⟨⟨by simp [CRLF], by simp⟩, fun c hc => hb c hc⟩

/-- the non-tag part of `tags ++ " " ++ rest` when `tags` starts with `@` and holds no blank -/
theorem nonTagPart_tagged (t rest : Str) (ht : t.head? = some '@') (hs : ' ' ∉ t) :
    nonTagPart (t ++ ' ' :: rest) = rest := by
  unfold nonTagPart
  have hh : (t ++ ' ' :: rest).head? = some '@' := by
    cases t with
    | nil => simp at ht
    | cons x xs => simpa using ht
  rw [if_pos hh, split1_of_not_mem ' ' t rest hs]

theorem nonTagPart_plain (l : Str) (h : l.head? ≠ some '@') : nonTagPart l = l := by
  unfold nonTagPart; rw [if_neg h]

/-! ### the bytes on the wire -/

theorem toNat_ne_of_ne (c : Char) (n : Nat) (h : c ≠ Char.ofNat n) : c.toNat ≠ n := by
  intro e
  apply h
  rw [← e, Char.ofNat_toNat]

theorem encChar_clean_bytes (c : Char) (hc : cleanChar c = true) :
    ∀ b ∈ C11.encChar c, b.toNat ≠ 13 ∧ b.toNat ≠ 10 ∧ b.toNat ≠ 0 := by
  unfold cleanChar at hc
  simp only [Bool.not_eq_true', Bool.or_eq_false_iff, decide_eq_false_iff_not] at hc
  obtain ⟨⟨h13, h10⟩, h0⟩ := hc
  have e13 := toNat_ne_of_ne c 13 h13
  have e10 := toNat_ne_of_ne c 10 h10
  have e0 := toNat_ne_of_ne c 0 h0
  have hr := C11.char_range c
  unfold C11.encChar
  simp only
  intro b hb
  by_cases h1 : c.toNat < 0x80
  · simp only [h1, ↓reduceIte, List.mem_singleton] at hb
    subst hb
    rw [C11.b8_toNat _ (by omega)]
    exact ⟨e13, e10, e0⟩
  · simp only [h1, ↓reduceIte] at hb
    by_cases h2 : c.toNat < 0x800
    · simp only [h2, ↓reduceIte, List.mem_cons, List.not_mem_nil, or_false] at hb
      rcases hb with rfl | rfl
      · rw [C11.b8_toNat _ (by omega)]; omega
      · rw [C11.b8_toNat _ (by omega)]; omega
    · simp only [h2, ↓reduceIte] at hb
      by_cases h3 : c.toNat < 0x10000
      · simp only [h3, ↓reduceIte, List.mem_cons, List.not_mem_nil, or_false] at hb
        rcases hb with rfl | rfl | rfl
        · rw [C11.b8_toNat _ (by omega)]; omega
        · rw [C11.b8_toNat _ (by omega)]; omega
        · rw [C11.b8_toNat _ (by omega)]; omega
      · simp only [h3, ↓reduceIte, List.mem_cons, List.not_mem_nil, or_false] at hb
        rcases hb with rfl | rfl | rfl | rfl
        · rw [C11.b8_toNat _ (by omega)]; omega
        · rw [C11.b8_toNat _ (by omega)]; omega
        · rw [C11.b8_toNat _ (by omega)]; omega
        · rw [C11.b8_toNat _ (by omega)]; omega

theorem utf8_CRLF : C11.utf8 CRLF = [13, 10] := by decide

end C06
