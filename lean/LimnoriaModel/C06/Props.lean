/-
C06 — property theorems.  (Helper lemmas: `Lemmas.lean`.)

"Whatever text users, channels or plugins feed into commands, each message the bot gives to its
network driver serialises to exactly one IRC line … at most 512 bytes excluding tags."
The theorems cover the two funnels every message passes — the `IrcMsg` keyword constructor (its
`isValidArgument` assertion) and `Irc.takeMsg` (`_truncateMsg`) — and the reply path
(`_makeReply` + `safeArgument`) for *every* text, flag combination and configuration.
-/
import LimnoriaModel.C06.Lemmas
namespace C06
open Py

/-- The facts about `/repo` the theorems rest on, re-checked against the extracted tables:
`isValidArgument` rejects exactly CR, LF, NUL; `MAX_LINE_SIZE = 512`; `_truncateMsg` measures and
cuts UTF-8 *bytes* and keeps 2 for CR LF; every construction of an `IrcMsg` from a raw string or
through `msg=` is one of the accounted-for sites; the tag-value escape table removes CR and LF;
`_truncateMsg` and the driver encode with the same error handler; `takeMsg` does not reset the
serialisation after the cut; only known CR/LF/NUL-preserving filters can be installed as outFilter. -/
theorem out_tables_ok : TablesOk := by decide

/-- **One line per constructed message**: a message accepted by the keyword constructor, with a
clean prefix, command and tag keys (and NUL-free tag values), serialises to a string with exactly
one CR LF, at its end, and no NUL. -/
theorem ctor_line (pfx command : Str) (args : List Str) (tags : C05.Tags) (m : C05.Msg)
    (h : ctor pfx command args tags = .ok m) (hp : Clean pfx) (hc : Clean command) (ht : CleanTags tags) :
    WellFormedLine (C05.format m) := by
  obtain ⟨rfl, ha⟩ := ctor_args_clean out_tables_ok _ _ _ _ m h
  exact format_wellFormed out_tables_ok _ hp hc ha ht

example : ctor [] "PRIVMSG".toList ["#c".toList, "héllo :) \x01".toList] [("label".toList, some "a b".toList)]
    = .ok ⟨[], "PRIVMSG".toList, ["#c".toList, "héllo :) \x01".toList], [("label".toList, some "a b".toList)]⟩ := by
  decide

/-- **Replies are one line or nothing**: for every reply text (any Unicode, any control
characters), every combination of notice / private / action / prefixNick / `to` / error / stripCtcp,
every configuration and every notion of "public target", `_makeReply` either raises the
constructor's `AssertionError` (no message) or yields a message that serialises to exactly one
well-formed line. -/
theorem reply_line (isPublic : Str → Bool) (cfg : ReplyCfg) (a : ReplyArgs) (m : C05.Msg)
    (h : makeReply isPublic cfg a = .ok m) : WellFormedLine (C05.format m) := by
  have tk := out_tables_ok
  unfold makeReply at h
  cases hk : replyKind isPublic cfg a <;> rw [hk] at h <;> simp only at h
  · unfold action privmsg at h
    exact built_line tk _ (by decide) _ _ m h
  · unfold notice at h
    exact built_line tk _ (by decide) _ _ m h
  · unfold privmsg at h
    exact built_line tk _ (by decide) _ _ m h

/-- **… and the text is never the reason for "nothing"**: when the nick, the reply target and the
explicit `to` are valid arguments and `repr` keeps its contract, `_makeReply` never asserts —
`safeArgument` makes every text sendable. -/
theorem reply_never_asserts (isPublic : Str → Bool) (cfg : ReplyCfg) (a : ReplyArgs)
    (hn : Clean a.nick) (hr : Clean a.replyTo) (hto : ∀ t, a.to = some t → Clean t)
    (hrepr : Clean a.reprS) (he : Clean a.emptyText) :
    ∃ m, makeReply isPublic cfg a = .ok m := by
  have tk := out_tables_ok
  have hpay : Clean (replyPayload a) := by
    unfold replyPayload
    simp only
    split
    · exact he
    · exact safeArgument_clean tk _ _ hrepr
  have hto' : Clean (a.to.getD a.nick) := by
    cases h : a.to with
    | none => exact hn
    | some t => exact hto t h
  have hct : Clean (replyTarget isPublic cfg a) := by
    unfold replyTarget
    split
    · cases h : a.to with
      | none => exact hn
      | some t => exact hto t h
    · cases h : a.to with
      | none => exact hr
      | some t =>
        simp only
        split
        · exact hto t h
        · exact hr
  have hcx : Clean (replyText isPublic cfg a) := by
    unfold replyText
    split
    · rw [clean_append, clean_append]
      exact ⟨⟨hto', by decide⟩, hpay⟩
    · exact hpay
  unfold makeReply
  cases replyKind isPublic cfg a
  · exact action_ok tk _ _ hct hcx
  · exact notice_ok tk _ _ hct hcx
  · exact privmsg_ok tk _ _ hct hcx

example : ∃ a : ReplyArgs, Clean a.nick ∧ Clean a.replyTo ∧ (∀ t, a.to = some t → Clean t) ∧ Clean a.reprS ∧
    Clean a.emptyText ∧ ¬ Clean a.s :=
  ⟨{ s := "a\r\nQUIT :x".toList, reprS := "'a\\r\\nQUIT :x'".toList, replyTo := "#c".toList, nick := "foo".toList },
   by decide, by decide, by intro t h; simp at h, by decide, by decide, by decide⟩

/-- the cut is a prefix of the text and fits the byte budget -/
theorem cut_is_prefix (n : Nat) (s : Str) : cutToBytes n s <+: s ∧ utf8Len (cutToBytes n s) ≤ n :=
  ⟨cut_prefix n s, cut_len n s⟩

/-- `utf8Len` is the number of bytes the driver writes for the text (`str.encode()`, C11) -/
theorem utf8Len_eq (s : Str) : utf8Len s = (C11.utf8 s).length := utf8Len_eq_bytes s

/-- **At most 512 bytes, tags excluded**: whatever the serialised message, after `_truncateMsg`
the non-tag part encodes to at most `MAX_LINE_SIZE` bytes. -/
theorem truncate_bound_bytes (l l' : Str) (h : truncate l = some l') :
    utf8Len (nonTagPart l') ≤ 512 := by
  have tk := out_tables_ok
  unfold truncate at h
  cases hs : splitTagPart l with
  | none => rw [hs] at h; cases h
  | some p =>
    obtain ⟨tags, rest⟩ := p
    rw [hs] at h
    simp only [tk.maxLine, tk.reserve] at h
    unfold splitTagPart at hs
    by_cases hat : l.head? = some '@'
    · -- tagged: `l = t ++ " " ++ rest`
      rw [if_pos hat] at hs
      cases h1 : split1 ' ' l with
      | none => rw [h1] at hs; cases hs
      | some q =>
        obtain ⟨t, r⟩ := q
        rw [h1] at hs
        injection hs with hs
        injection hs with e1 e2
        subst e1 e2
        obtain ⟨el, hnt⟩ := split1_spec ' ' l t r h1
        have hth : t.head? = some '@' := by
          cases t with
          | nil => rw [el] at hat; simp at hat
          | cons x xs => rw [el] at hat; simpa using hat
        split at h
        · injection h with h; subst h
          have : t ++ [' '] ++ cutToBytes (512 - 2) r ++ CRLF = t ++ ' ' :: (cutToBytes (512 - 2) r ++ CRLF) := by simp
          rw [this, nonTagPart_tagged t _ hth hnt, utf8Len_append, utf8Len_CRLF]
          have := cut_len (512 - 2) r
          omega
        · injection h with h; subst h
          rename_i hle
          rw [el, nonTagPart_tagged t r hth hnt]
          omega
    · rw [if_neg hat] at hs
      injection hs with hs
      injection hs with e1 e2
      subst e1 e2
      split at h
      · injection h with h; subst h
        simp only [List.nil_append]
        have hh : (cutToBytes (512 - 2) l ++ CRLF).head? ≠ some '@' := by
          have hp := cut_prefix (512 - 2) l
          cases hc : cutToBytes (512 - 2) l with
          | nil => simp [CRLF]
          | cons x xs =>
            rw [hc] at hp
            cases l with
            | nil => simp at hp
            | cons y ys =>
              rw [List.cons_prefix_cons] at hp
              obtain ⟨rfl, -⟩ := hp
              simpa using hat
        rw [nonTagPart_plain _ hh, utf8Len_append, utf8Len_CRLF]
        have := cut_len (512 - 2) l
        omega
      · injection h with h; subst h
        rename_i hle
        rw [nonTagPart_plain _ hat]
        omega

/-- **Truncation keeps the line well formed** (and never splits a character: the cut is a prefix
of the *text*, not of its bytes). -/
theorem truncate_keeps_line (l l' : Str) (hw : WellFormedLine l) (h : truncate l = some l') :
    WellFormedLine l' := by
  have tk := out_tables_ok
  obtain ⟨body, rfl, hb⟩ := hw
  have hbody : Clean body := fun c hc => by
    have := hb c hc
    rw [bad_eq tk] at this
    cases hcc : cleanChar c
    · rw [hcc] at this; cases this
    · rfl
  unfold truncate at h
  cases hs : splitTagPart (body ++ CRLF) with
  | none => rw [hs] at h; cases h
  | some p =>
    obtain ⟨tags, rest⟩ := p
    rw [hs] at h
    simp only [tk.maxLine, tk.reserve] at h
    split at h
    · rename_i hgt
      injection h with h; subst h
      -- `tags ++ rest = body ++ CRLF`, and the cut stays inside `body`
      have hcat : tags ++ rest = body ++ CRLF := by
        unfold splitTagPart at hs
        split at hs
        · cases h1 : split1 ' ' (body ++ CRLF) with
          | none => rw [h1] at hs; cases hs
          | some q =>
            obtain ⟨t, r⟩ := q
            rw [h1] at hs
            injection hs with hs
            injection hs with e1 e2
            subst e1 e2
            rw [(split1_spec ' ' _ t r h1).1]; simp
        · injection hs with hs
          injection hs with e1 e2
          subst e1 e2; rfl
      -- `rest` ends with CRLF because it is longer than 2 bytes
      have hrl : 2 ≤ rest.length ∨ rest.length < 2 := by omega
      have hlen : 512 < utf8Len rest := hgt
      obtain ⟨r', hr'⟩ : ∃ r', rest = r' ++ CRLF ∧ body = tags ++ r' := by
        have h2 : rest.length ≥ 2 := by
          have := utf8Len_le_four_mul rest
          omega
        exact append_eq_append_suffix hcat (by show 2 ≤ rest.length; exact h2)
      obtain ⟨hr1, hr2⟩ := hr'
      have hcr : Clean r' := fun c hc => hbody c (by rw [hr2]; simp [hc])
      have hct : Clean tags := fun c hc => hbody c (by rw [hr2]; simp [hc])
      have hpre : cutToBytes (512 - 2) rest <+: r' := by
        apply prefix_of_append_of_len (y := CRLF)
        · rw [← hr1]; exact cut_prefix _ _
        · have := cut_len (512 - 2) rest
          rw [hr1, utf8Len_append, utf8Len_CRLF] at hlen
          omega
      refine wellFormed_of_clean _ ?_ tk
      rw [clean_append]
      exact ⟨hct, clean_of_prefix hpre hcr⟩
    · injection h with h; subst h
      exact wellFormed_of_clean body hbody tk

/-- **What `takeMsg` hands to the driver**: a message accepted by the keyword constructor with a
clean header, optionally labelled, is serialised and truncated to one well-formed line whose
non-tag part has at most 512 bytes. -/
theorem take_line (pfx command : Str) (args : List Str) (tags : C05.Tags) (m : C05.Msg) (label : Option Str)
    (h : ctor pfx command args tags = .ok m) (hp : Clean pfx) (hc : Clean command) (ht : CleanTags tags)
    (hl : ∀ v, label = some v → ∀ c ∈ v, c ≠ Char.ofNat 0)
    (l' : Str) (hl' : takeLine label m = some l') :
    WellFormedLine l' ∧ utf8Len (nonTagPart l') ≤ 512 := by
  have tk := out_tables_ok
  obtain ⟨rfl, ha⟩ := ctor_args_clean tk _ _ _ _ m h
  unfold takeLine at hl'
  have hwf : WellFormedLine (C05.format (withLabel label ⟨pfx, command, args, tags⟩)) := by
    apply format_wellFormed tk
    · cases label <;> exact hp
    · cases label <;> exact hc
    · cases label <;> exact ha
    · cases hlab : label with
      | none => exact ht
      | some v =>
        simp only [withLabel]
        -- dictSet keeps clean tags clean
        have : ∀ (d : C05.Tags), CleanTags d → CleanTags (C05.dictSet d "label".toList (some v)) := by
          intro d hd
          induction d with
          | nil =>
            intro p hp'
            simp only [C05.dictSet, List.mem_singleton] at hp'
            subst hp'
            exact ⟨by show Clean "label".toList; decide, fun v' hv' => by injection hv' with hv'; subst hv'; exact hl v hlab⟩
          | cons q rest ih =>
            obtain ⟨k, val⟩ := q
            simp only [C05.dictSet]
            split
            · intro p hp'
              rcases List.mem_cons.1 hp' with rfl | hp''
              · exact ⟨by show Clean "label".toList; decide, fun v' hv' => by injection hv' with hv'; subst hv'; exact hl v hlab⟩
              · exact hd p (by simp [hp''])
            · intro p hp'
              rcases List.mem_cons.1 hp' with rfl | hp''
              · exact hd _ (by simp)
              · exact ih (fun p' hp3 => hd p' (by simp [hp3])) p hp''
        exact this tags ht
  exact ⟨truncate_keeps_line _ _ hwf hl', truncate_bound_bytes _ _ hl'⟩

/-- **On the wire**: the bytes the driver writes for a well-formed line (`str.encode()`, C11) end
with the bytes 13 10 and contain no other byte 13, 10 or 0 — multi-byte characters cannot smuggle
them in. -/
theorem wire_line (l : Str) (h : WellFormedLine l) :
    ∃ body, C11.utf8 l = body ++ [13, 10] ∧ ∀ b ∈ body, b.toNat ≠ 13 ∧ b.toNat ≠ 10 ∧ b.toNat ≠ 0 := by
  have tk := out_tables_ok
  obtain ⟨body, rfl, hb⟩ := h
  refine ⟨C11.utf8 body, by rw [← utf8_CRLF]; simp [C11.utf8], ?_⟩
  intro b hbm
  unfold C11.utf8 at hbm
  rw [List.mem_flatMap] at hbm
  obtain ⟨c, hc, hbc⟩ := hbm
  have hcl : cleanChar c = true := by
    have := hb c hc
    rw [bad_eq tk] at this
    cases hcc : cleanChar c
    · rw [hcc] at this; cases this
    · rfl
  exact encChar_clean_bytes c hcl b hbc

/-- a plain copy (`IrcMsg(msg=m)`, as `Misc.more`, `Utilities.let` and the emulated echo of `takeMsg`
make) is the message itself: it serialises to the same line, so `take_line` holds through it -/
theorem copy_without_overrides (m : C05.Msg) : ctorCopy m [] [] [] = .ok m := by
  cases m; rfl

/-- **The `msg=` form is a funnel too** (since its fix): a message rebuilt from a well-formed one with
new arguments — what the outFilter rewriters of Filter, BadWords, Google, ShrinkUrl do with text they
computed or fetched — either raises the `AssertionError` or serialises to exactly one line. -/
theorem copy_line (base : C05.Msg) (pfx command : Str) (args : List Str) (m : C05.Msg)
    (h : ctorCopy base pfx command args = .ok m)
    (hb : Clean base.pfx ∧ Clean base.command ∧ (∀ a ∈ base.args, Clean a) ∧ CleanTags base.tags)
    (hp : Clean pfx) (hc : Clean command) : WellFormedLine (C05.format m) := by
  have tk := out_tables_ok
  obtain ⟨hbp, hbc, hba, hbt⟩ := hb
  have hp' : Clean (if pfx = [] then base.pfx else pfx) := by split <;> assumption
  have hc' : Clean (if command = [] then base.command else command) := by split <;> assumption
  unfold ctorCopy at h
  split at h
  · injection h with h; subst h
    exact format_wellFormed tk _ hp' hc' hba hbt
  · split at h
    · rename_i hall
      injection h with h; subst h
      rw [List.all_eq_true] at hall
      exact format_wellFormed tk _ hp' hc' (fun a ha => (validArg_iff tk a).1 (hall a ha)) hbt
    · cases h

/-- … e.g. the smuggling attempt is refused -/
theorem copy_refuses_smuggling :
    ctorCopy ⟨[], "PRIVMSG".toList, ["#c".toList, "ok".toList], []⟩ [] []
      ["#c".toList, "a\r\nQUIT :bye".toList] = .assertFail := by decide

end C06
