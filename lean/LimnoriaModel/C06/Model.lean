/-
C06 — model of the funnels every outgoing message passes:
`IrcMsg.__init__` keyword branch with its `isValidArgument` assertion and the `msg=` branch without
it (src/ircmsgs.py:255-292), `IrcMsg.__str__` (C05.format), `ircutils.isValidArgument` /
`safeArgument` (src/ircutils.py:643-666), `callbacks._makeReply` (src/callbacks.py:184-256),
`ircmsgs.privmsg/notice/action`, and `Irc._truncateMsg` (src/irclib.py:1243-1270, since the fix that
makes it count and cut UTF-8 bytes).  The driver then writes `str(msg).encode()` (C11).
-/
import LimnoriaModel.C05.Model
import LimnoriaModel.C11.Model
import LimnoriaModel.Gen.Out
namespace C06
open Py

/-- `ircutils.isValidArgument` -/
def validArg (s : Str) : Bool := !(s.any (fun c => Gen.invalidArgChars.contains c))

/-! ### constructing messages -/

inductive Built where
  | ok (m : C05.Msg)
  | assertFail                         -- `assert all(ircutils.isValidArgument, args), args`
deriving DecidableEq, Repr

/-- `IrcMsg(prefix=…, command=…, args=…, server_tags=…)` (no `msg=`) -/
def ctor (pfx command : Str) (args : List Str) (tags : C05.Tags) : Built :=
  if args.all validArg then .ok ⟨pfx, command, args, tags⟩ else .assertFail

/-- `IrcMsg(msg=base, prefix=…, command=…, args=…)`: fields given override; given `args` are checked
like in the plain form (since the fix of the `msg=` branch) -/
def ctorCopy (base : C05.Msg) (pfx command : Str) (args : List Str) : Built :=
  if args = [] then
    .ok ⟨if pfx = [] then base.pfx else pfx, if command = [] then base.command else command, base.args, base.tags⟩
  else if args.all validArg then
    .ok ⟨if pfx = [] then base.pfx else pfx, if command = [] then base.command else command, args, base.tags⟩
  else .assertFail

def privmsg (target s : Str) : Built := ctor [] "PRIVMSG".toList [target, s] []
def notice (target s : Str) : Built := ctor [] "NOTICE".toList [target, s] []
/-- `ircmsgs.action`: `privmsg(recipient, '\x01ACTION %s\x01' % s)` -/
def action (target s : Str) : Built :=
  privmsg target ((Char.ofNat 1) :: "ACTION ".toList ++ s ++ [Char.ofNat 1])

/-! ### `ircutils.safeArgument` — Python's `repr` is a parameter (its value for this `s`) -/

def safeArgument (reprS : Str) (s : Str) : Str := if validArg s then s else reprS

/-! ### `callbacks._makeReply` -/

structure ReplyCfg where
  withNotice : Bool            -- supybot.reply.withNotice (resolved for the channel/network)
  inPrivate : Bool             -- supybot.reply.inPrivate
  withNickPrefix : Bool        -- supybot.reply.withNickPrefix
  errWithNotice : Bool         -- supybot.reply.error.withNotice
  errInPrivate : Bool          -- supybot.reply.error.inPrivate
  noticeWhenPrivate : Bool     -- supybot.reply.withNoticeWhenPrivate
deriving Repr

structure ReplyArgs where
  s : Str
  reprS : Str                  -- `repr(s')` of the text handed to safeArgument
  prefixNick : Option Bool := none
  priv : Option Bool := none
  notice : Option Bool := none
  to : Option Str := none
  action : Bool := false
  error : Bool := false
  stripCtcp : Bool := true
  replyTo : Str                -- `ircutils.replyTo(msg)`
  nick : Str                   -- `msg.nick`
  errPrefix : Str := "Error: ".toList
  emptyText : Str := "Error: I tried to send you an empty message.".toList
deriving Repr

/-- `s.strip('\x01')` -/
def stripCtcpChars (s : Str) : Str :=
  rstripP (fun c => c = Char.ofNat 1) (lstripP (fun c => c = Char.ofNat 1) s)

/-- the text handed to `safeArgument` (so that the harness can supply its `repr`) -/
def replyRawText (a : ReplyArgs) : Str :=
  let s := if a.error then a.errPrefix ++ a.s else a.s
  if a.stripCtcp then stripCtcpChars s else s

/-! `isPublic` = `irc.isChannel(irc.stripChannelPrefix(x))` is a parameter. -/

/-- `private` after the configuration and the `error` overrides -/
def replyPrivate (cfg : ReplyCfg) (a : ReplyArgs) : Bool :=
  if a.error then (cfg.errInPrivate || a.priv.getD cfg.inPrivate) else a.priv.getD cfg.inPrivate

/-- `target` -/
def replyTarget (isPublic : Str → Bool) (cfg : ReplyCfg) (a : ReplyArgs) : Str :=
  if replyPrivate cfg a then (match a.to with | none => a.nick | some t => t)
  else match a.to with
    | some t => if isPublic t then t else a.replyTo
    | none => a.replyTo

/-- `prefixNick` after `private` and `action` switched it off -/
def replyPrefixNick (cfg : ReplyCfg) (a : ReplyArgs) : Bool :=
  if a.action then false else if replyPrivate cfg a then false else a.prefixNick.getD cfg.withNickPrefix

/-- the payload before the nick prefix: `safeArgument`, then the empty-message replacement -/
def replyPayload (a : ReplyArgs) : Str :=
  let s1 := safeArgument a.reprS (replyRawText a)
  if s1 = [] && !a.action then a.emptyText else s1

/-- the text handed to the message constructor -/
def replyText (isPublic : Str → Bool) (cfg : ReplyCfg) (a : ReplyArgs) : Str :=
  if replyPrefixNick cfg a && isPublic (replyTarget isPublic cfg a) && !isPublic (a.to.getD a.nick)
  then a.to.getD a.nick ++ ": ".toList ++ replyPayload a else replyPayload a

inductive ReplyKind where | action | notice | privmsg
deriving DecidableEq, Repr

def replyKind (isPublic : Str → Bool) (cfg : ReplyCfg) (a : ReplyArgs) : ReplyKind :=
  let notice1 := if a.error then (cfg.errWithNotice || a.notice.getD cfg.withNotice) else a.notice.getD cfg.withNotice
  let notice2 := if !isPublic (replyTarget isPublic cfg a) && cfg.noticeWhenPrivate then true else notice1
  if a.action then .action else if notice2 then .notice else .privmsg

def makeReply (isPublic : Str → Bool) (cfg : ReplyCfg) (a : ReplyArgs) : Built :=
  match replyKind isPublic cfg a with
  | .action => action (replyTarget isPublic cfg a) (replyText isPublic cfg a)
  | .notice => notice (replyTarget isPublic cfg a) (replyText isPublic cfg a)
  | .privmsg => privmsg (replyTarget isPublic cfg a) (replyText isPublic cfg a)

/-! ### lines -/

def CRLF : Str := ['\r', '\n']

def bad (c : Char) : Bool := Gen.invalidArgChars.contains c

/-- exactly one CR LF, at the end, and no NUL (nor any other rejected character) before it -/
def wellFormedLine (l : Str) : Bool :=
  l.length ≥ 2 && l.drop (l.length - 2) == CRLF && (l.take (l.length - 2)).all (fun c => !bad c)

def WellFormedLine (l : Str) : Prop := ∃ body, l = body ++ CRLF ∧ ∀ c ∈ body, bad c = false

/-- the part of a serialised message the 512-byte limit applies to (`@tags ` excluded) -/
def nonTagPart (l : Str) : Str :=
  if l.head? = some '@' then (match split1 ' ' l with | some (_, rest) => rest | none => l) else l

def utf8Len (s : Str) : Nat := (s.map Char.utf8Size).sum

/-- `b[:n].decode('utf-8', 'ignore')` for `b = s.encode('utf-8')`: the longest prefix of `s` whose
encoding fits into `n` bytes -/
def cutToBytes : Nat → Str → Str
  | _, [] => []
  | n, c :: cs => if c.utf8Size ≤ n then c :: cutToBytes (n - c.utf8Size) cs else []

/-- `(msg_tags_str, msg_rest_str)` of `_truncateMsg`; `none` = the unpacking `ValueError`
(a tagged string without a blank; `takeMsg`'s firewall then drops the message) -/
def splitTagPart (l : Str) : Option (Str × Str) :=
  if l.head? = some '@' then
    match split1 ' ' l with
    | some (t, rest) => some (t ++ [' '], rest)
    | none => none
  else some ([], l)

/-- `Irc._truncateMsg`: the new `str(msg)` -/
def truncate (l : Str) : Option Str :=
  match splitTagPart l with
  | none => none
  | some (tags, rest) =>
    if utf8Len rest > Gen.maxLineSize then
      some (tags ++ cutToBytes (Gen.maxLineSize - Gen.truncateReserve) rest ++ CRLF)
    else some l

/-- `takeMsg`: optional `label` tag (`msg.server_tags['label'] = makeLabel()`), serialise, truncate -/
def withLabel (label : Option Str) (m : C05.Msg) : C05.Msg :=
  match label with
  | none => m
  | some v => { m with tags := C05.dictSet m.tags "label".toList (some v) }

def takeLine (label : Option Str) (m : C05.Msg) : Option Str := truncate (C05.format (withLabel label m))

end C06
