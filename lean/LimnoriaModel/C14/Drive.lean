/-
C14 — line-protocol driver (stateful: the loaded plugins and the configuration are sent first).
  reset
  plugin   <id> <parent id | -> <name> <threaded 0|1> <methods>     (top-level plugins in irc.callbacks order)
  disabled <canonical command> <everywhere 0|1> <plugins>
  dconf    <names>     supybot.commands.disabled
  odisable <top-level index | ~> <command>     Owner.disable
  oenable  <plugin name | ~> <command>         Owner.enable
  restart                                       rebuild the store from the registry value (DisabledCommands())
  default  <canonical command> <plugin>
  important <names>
  cfg      <maxNesting> <maxLen> <detailed 0|1> <errorText> <indexErrorText> <ignored 0|1>
  canon    <s>
  getcmd   <top-level index> <args>
  find     <args>
  disp     <args>
  eval     <tree>         tree = items joined by ',' : `L` `R` `S<hex>`  (`-` = empty)
The behaviour of a command body is fixed by the first letter of its name, as in harness/plugins/VtOrder*.
-/
import LimnoriaModel.C14.Model
import LimnoriaModel.C14.Machine
import LimnoriaModel.Driver.Core
namespace C14
open Py Wire

structure PRec where
  id : Nat
  parent : Option Nat
  name : Str
  threaded : Bool
  methods : List Str

structure DState where
  recs : List PRec := []
  disabled : Disabled := []
  conf : List ConfName := []
  defaults : List (Str × Str) := []
  important : List Str := []
  maxNesting : Nat := 10
  maxLen : Nat := 131072
  detailed : Bool := false
  errorText : Str := []
  indexErrorText : Str := []
  ignored0 : Bool := false
  whenNotCommand : Bool := true
  brackets : Str := ['[', ']']
  invOrder : List Str := []          -- plugins having invalidCommand, in irc.callbacks order

/-- plugin trees from the flat records (fuel = number of records: depth bound) -/
def build (recs : List PRec) : Nat → Option Nat → List Plugin
  | 0, _ => []
  | n + 1, parent =>
    (recs.filter fun r => r.parent = parent).map fun r =>
      .mk r.name r.methods (build recs n (some r.id)) r.threaded

def DState.dispCfg (s : DState) : DispCfg :=
  ⟨build s.recs (s.recs.length + 1) none, s.disabled, s.defaults, s.important⟩

def txt (s : String) : Str := s.toList

/-- behaviour of the synthetic commands (harness/plugins/VtOrder*/plugin.py) and of Utilities echo / ignore -/
def vtBeh (plugin : Str) (command rest : List Str) : Act :=
  let name := command.getLast?.getD []
  let text := name ++ txt "(" ++ joinStr (txt ", ") rest ++ txt ")"
  if plugin = txt "Utilities" then
    if name = txt "echo" then ⟨false, .reply (joinStr (txt " ") rest)⟩
    else if name = txt "ignore" then ⟨true, .noReply⟩
    else ⟨false, .silent⟩
  else
  match name.head? with
  | some 'r' | some 'b' | some 'v' | some 'l' | some 'h' => ⟨false, .reply text⟩
  | some 'n' => ⟨false, .noReply⟩
  | some 'o' => ⟨false, .reply []⟩
  | some 'w' => ⟨false, .reply (txt "  ")⟩
  | some 'e' => ⟨false, .error (txt "E:" ++ name)⟩
  | some 's' => ⟨false, .silent⟩
  | some 'i' => ⟨true, .noReply⟩
  | some 'j' => ⟨true, .reply text⟩
  | some 'x' => ⟨false, .raise (.other (txt "ValueError: boom " ++ name))⟩
  | some 'y' => ⟨false, .raise (.error (txt "Y:" ++ name))⟩
  | some 'z' => ⟨false, .raise .argument⟩
  | some 'q' => ⟨false, .raise .silent⟩
  | _ => ⟨false, .silent⟩

/-- what a command body / invalidCommand handler called `name` does, by its behaviour letter -/
def letterAct (k : Option Char) (name : Str) (text : Str) : Act :=
  match k with
  | some 'r' | some 'b' | some 'v' | some 'l' | some 'h' => ⟨false, .reply text⟩
  | some 'n' => ⟨false, .noReply⟩
  | some 'o' => ⟨false, .reply []⟩
  | some 'w' => ⟨false, .reply (txt "  ")⟩
  | some 'e' => ⟨false, .error (txt "E:" ++ name)⟩
  | some 's' => ⟨false, .silent⟩
  | some 'i' => ⟨true, .noReply⟩
  | some 'j' => ⟨true, .reply text⟩
  | some 'x' => ⟨false, .raise (.other (txt "ValueError: boom " ++ name))⟩
  | some 'y' => ⟨false, .raise (.error (txt "Y:" ++ name))⟩
  | some 'z' => ⟨false, .raise .argument⟩
  | some 'q' => ⟨false, .raise .silent⟩
  | _ => ⟨false, .silent⟩

/-- the synthetic invalidCommand handlers of VtOrderA ('a') and VtOrderB ('b'): the first token
`<h>inv<k>` is handled by plugin `<h>` with behaviour `<k>`; `cinv<kb><ka>` by both -/
def vtInvHandler (who : Char) (_nested : Nat) (tokens : List Str) : Act :=
  match tokens with
  | [] => ⟨false, .silent⟩
  | t :: rest =>
    let text := t ++ txt "(" ++ joinStr (txt ", ") rest ++ txt ")"
    match t with
    | h :: 'i' :: 'n' :: 'v' :: k :: more =>
      if h = who then letterAct (some k) t text
      else if h = 'c' then
        (match more with
         | k2 :: _ => letterAct (some (if who = 'b' then k else k2)) t text
         | [] => ⟨false, .silent⟩)
      else ⟨false, .silent⟩
    | _ => ⟨false, .silent⟩

def miscErrText (tokens : List Str) : Str :=
  txt "\"" ++ tokens.head?.getD [] ++ txt "\" is not a valid command."

def DState.invChainR (s : DState) (msgReplied : Bool) : Nat → List Str → Act :=
  invalidChain ((s.invOrder.filterMap fun n =>
      if n = txt "VtOrderA" then some (vtInvHandler 'a')
      else if n = txt "VtOrderB" then some (vtInvHandler 'b')
      else if n = txt "Misc" then
        -- `assert not msg.repliedTo` at the top of Misc.invalidCommand: an AssertionError the chain logs
        some (if msgReplied then fun _ _ => ⟨false, .raise (.other (txt "AssertionError"))⟩
              else miscInvalid s.whenNotCommand s.brackets miscErrText)
      else none))

def DState.invChain (s : DState) : Nat → List Str → Act := s.invChainR false

/-- bodies that use `irc` more than once (letters d m c p k u g f t of harness/plugins/VtOrder*), else the single-use ones -/
def vtBody (plugin : Str) (command rest : List Str) : Body :=
  let name := command.getLast?.getD []
  let text := name ++ txt "(" ++ joinStr (txt ", ") rest ++ txt ")"
  if plugin = txt "Utilities" then (vtBeh plugin command rest).toBody else
  match name.head? with
  | some 'd' => ⟨[.reply text, .reply (text ++ txt "!")], none⟩
  | some 'm' => ⟨[.reply (txt "m1"), .reply (txt "m2")], none⟩
  | some 'c' => ⟨[.reply (txt "c1 and c2")], none⟩
  | some 'p' => ⟨[.reply text, .error (txt "P:" ++ name)], none⟩
  | some 'k' => ⟨[.reply text, .noReply], none⟩
  | some 'u' => ⟨[.reply (txt "The operation succeeded.")], none⟩
  | some 'g' => ⟨[.send (txt "G:" ++ name), .reply text], none⟩
  | some 'f' => ⟨[.error (txt "F:" ++ name), .reply text], none⟩
  | some 't' => ⟨[.reply text], some (.other (txt "ValueError: boom " ++ name))⟩
  | _ => (vtBeh plugin command rest).toBody

def vtHelp (command : List Str) : Str :=
  txt "(\x02" ++ joinStr (txt " ") command ++ txt " <anything>\x02) -- Synthetic C14 command " ++
    command.getLast?.getD [] ++ txt "."

def DState.evCfg (s : DState) : EvCfg :=
  ⟨s.maxNesting, s.maxLen, s.detailed, s.errorText, vtHelp, s.indexErrorText⟩

/-- parse `L` `R` `S<hex>` items; returns the items up to the matching `R` (or the end) and the rest -/
def parseItems : Nat → List String → Option (List Arg × List String)
  | 0, _ => none
  | _ + 1, [] => some ([], [])
  | n + 1, t :: ts =>
    if t = "R" then some ([], ts)
    else if t = "L" then
      match parseItems n ts with
      | none => none
      | some (sub, ts') =>
        match parseItems n ts' with
        | none => none
        | some (rest, ts'') => some (.sub sub :: rest, ts'')
    else if t.startsWith "S" then
      match dec (t.drop 1).toString with
      | none => none
      | some s =>
        match parseItems n ts with
        | none => none
        | some (rest, ts') => some (.str s :: rest, ts')
    else none

def decTree (f : String) : Option (List Arg) :=
  if f = "-" then some [] else
  let items := f.splitOn ","
  match parseItems (items.length + 1) items with
  | some (l, []) => some l
  | _ => none

def decNat (f : String) : Option Nat := f.toNat?

def encIdxs (l : List Nat) : String := if l.isEmpty then "-" else ",".intercalate (l.map toString)

def encPath (p : List Nat) : String := if p.isEmpty then "-" else ".".intercalate (p.map toString)

def encCall (c : Call) : String :=
  encPath c.path ++ "/" ++ enc c.plugin ++ "/" ++ encList c.command ++ "/" ++ encList c.args

def encLog (l : List Call) : String := if l.isEmpty then "-" else "|".intercalate (l.map encCall)

def encStop : Stop → String
  | .error s => "error\t" ++ enc s
  | .silent => "silent"
  | .tooDeep => "tooDeep"
  | .ambiguous c names => "ambiguous\t" ++ encList c ++ "\t" ++ encList names

def encOutcome : Outcome → String
  | .replied s => "replied\t" ++ enc s
  | .noReply => "noReply"
  | .stopped w => "stopped\t" ++ encStop w

def encGet : Except GErr (List Str) → String
  | .ok l => "ok\t" ++ encList l
  | .error .indexError => "exc\tIndexError"

def decBool (f : String) : Option Bool :=
  if f = "1" then some true else if f = "0" then some false else none

def encStore (d : Disabled) : String :=
  if d.isEmpty then "-" else ";".intercalate (d.map fun e =>
    enc e.1 ++ ":" ++ (if e.2.1 then "1" else "0") ++ ":" ++ encList e.2.2)

def confStr : ConfName → Str
  | (none, k) => k
  | (some p, k) => p ++ '.' :: k

def confOfStr (x : Str) : ConfName :=
  match split1 '.' x with
  | some (p, k) => (some p, k)
  | none => (none, x)

def encOwner (r : OwnerSt × Bool) : String :=
  (if r.2 then "ok" else "err") ++ "\t" ++ encStore r.1.store ++ "\t" ++ encList (r.1.conf.map confStr)

def encOut : Out → String
  | .reply s => "r" ++ enc s
  | .error s => "e" ++ enc s
  | .sent s => "s" ++ enc s

def DState.mcfg (s : DState) : MCfg :=
  { ev := s.evCfg, disp := dispatch s.dispCfg, beh := vtBody, inv := s.invChainR,
    threaded := fun name => (s.recs.find? fun r => r.parent.isNone && r.name = name).any (·.threaded),
    nestText := txt "You've attempted more nesting than is currently allowed on this bot.",
    ambigText := fun cmd names => txt "AMBIGUOUS " ++ joinStr (txt " ") cmd ++ txt " : " ++ joinStr (txt ",") names,
    assertText := txt "AssertionError: finalEval called twice." }

def dstep (s : DState) : List String → DState × String
  | ["reset"] => ({}, "ok")
  | ["plugin", id, parent, name, thr, methods] =>
    match decNat id, (if parent = "-" then some none else (decNat parent).map some), dec name, decBool thr, decList methods with
    | some id, some parent, some name, some thr, some methods =>
      ({ s with recs := s.recs ++ [⟨id, parent, name, thr, methods⟩] }, "ok")
    | _, _, _, _, _ => (s, "bad-op")
  | ["disabled", cmd, ev, ps] =>
    match dec cmd, decBool ev, decList ps with
    | some cmd, some ev, some ps => ({ s with disabled := s.disabled ++ [(cmd, (ev, ps))] }, "ok")
    | _, _, _ => (s, "bad-op")
  | ["restart"] => ({ s with disabled := fromConf s.conf.reverse }, encStore (fromConf s.conf.reverse))
  | ["default", cmd, p] =>
    match dec cmd, dec p with
    | some cmd, some p => ({ s with defaults := s.defaults ++ [(cmd, p)] }, "ok")
    | _, _ => (s, "bad-op")
  | ["important", names] =>
    match decList names with
    | some names => ({ s with important := names }, "ok")
    | none => (s, "bad-op")
  | ["cfg", mn, ml, det, et, iet, ig] =>
    match decNat mn, decNat ml, decBool det, dec et, dec iet, decBool ig with
    | some mn, some ml, some det, some et, some iet, some ig =>
      ({ s with maxNesting := mn, maxLen := ml, detailed := det, errorText := et, indexErrorText := iet, ignored0 := ig }, "ok")
    | _, _, _, _, _, _ => (s, "bad-op")
  | ["canon", x] => (s, match dec x with | some x => enc (canonicalName x) | none => "bad-op")
  | ["getcmd", i, args] =>
    match decNat i, decList args with
    | some i, some args =>
      (s, match s.dispCfg.callbacks[i]? with
          | some p => encGet (getCommand s.disabled p args)
          | none => "bad-op")
    | _, _ => (s, "bad-op")
  | ["find", args] =>
    match decList args with
    | some args =>
      (s, match findCallbacks s.dispCfg args with
          | .ok (maxL, cbs) => "ok\t" ++ encList maxL ++ "\t" ++ encIdxs cbs
          | .error .indexError => "exc\tIndexError")
    | none => (s, "bad-op")
  | ["disp", args] =>
    match decList args with
    | some args =>
      (s, match dispatch s.dispCfg args with
          | .run i p c r => "run\t" ++ toString i ++ "\t" ++ enc p ++ "\t" ++ encList c ++ "\t" ++ encList r
          | .none => "none"
          | .ambiguous c names => "ambiguous\t" ++ encList c ++ "\t" ++ encList names
          | .exc .indexError => "exc\tIndexError")
    | none => (s, "bad-op")
  | ["dconf", names] =>
    match decList names with
    | some names => ({ s with conf := names.map confOfStr }, "ok")
    | none => (s, "bad-op")
  | ["odisable", pl, cmd] =>
    match (if pl = "~" then some none else (decNat pl).map some), dec cmd with
    | some pl, some cmd =>
      let plugin : Option (Option (Str × List Str)) :=
        match pl with
        | none => some none
        | some i => (s.dispCfg.callbacks[i]?).map fun p => some (p.name, p.methods)
      (match plugin with
       | none => (s, "bad-op")
       | some plugin =>
         let r := ownerDisable ⟨s.disabled, s.conf⟩ plugin cmd
         ({ s with disabled := r.1.store, conf := r.1.conf }, encOwner r))
    | _, _ => (s, "bad-op")
  | ["odefault", rm, cmd, pl] =>
    match decBool rm, dec cmd, (if pl = "~" then some none else (decNat pl).map some) with
    | some rm, some cmd, some pl =>
      let plugin : Option (Option (Str × List Str)) :=
        match pl with
        | none => some none
        | some i => (s.dispCfg.callbacks[i]?).map fun p => some (p.name, p.methods)
      (match plugin with
       | none => (s, "bad-op")
       | some plugin =>
         let r := ownerDefaultPlugin s.dispCfg rm cmd plugin
         ({ s with defaults := r.1.defaults },
          (match r.2 with | .ok => "ok" | .err => "err" | .value v => "val:" ++ enc v) ++ "\t" ++
            (if r.1.defaults.isEmpty then "-" else ",".intercalate (r.1.defaults.map fun e => enc e.1 ++ "=" ++ enc e.2))))
    | _, _, _ => (s, "bad-op")
  | ["oenable", pl, cmd] =>
    match (if pl = "~" then some none else (dec pl).map some), dec cmd with
    | some pl, some cmd =>
      let r := ownerEnable ⟨s.disabled, s.conf⟩ pl cmd
      ({ s with disabled := r.1.store, conf := r.1.conf }, encOwner r)
    | _, _ => (s, "bad-op")
  | ["invcfg", w, b, order] =>
    match decBool w, dec b, decList order with
    | some w, some b, some order => ({ s with whenNotCommand := w, brackets := b, invOrder := order }, "ok")
    | _, _, _ => (s, "bad-op")
  | ["meval", tree] =>
    match decTree tree with
    | some args =>
      let c := runFirst s.mcfg 100000 (initConfig s.mcfg args s.ignored0)
      (s, (if c.out.isEmpty then "-" else ",".intercalate (c.out.map encOut)) ++ "\t@\t" ++ encLog c.log ++ "\t" ++
          (if c.ignored then "1" else "0") ++ "\t" ++ (if c.threads.all (·.isEmpty) then "done" else "fuel"))
    | none => (s, "bad-op")
  | ["eval", tree] =>
    match decTree tree with
    | some args =>
      let (o, st) := evalTop s.evCfg (dispatch s.dispCfg) vtBeh s.invChain args ⟨[], s.ignored0, false⟩
      (s, encOutcome o ++ "\t@\t" ++ encLog st.log ++ "\t" ++ (if st.ignored then "1" else "0"))
    | none => (s, "bad-op")
  | _ => (s, "bad-op")

def handler : Driver.Handler := { σ := DState, init := {}, step := dstep }
end C14
