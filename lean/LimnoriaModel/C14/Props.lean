/-
C14 — property theorems (helper lemmas live in `Lemmas.lean`).
The evaluation theorems hold for *every* dispatch function `disp` and *every* behaviour `beh` of the
command bodies; the dispatch theorems are about the real decision procedure `dispatch`
(`findCallbacksForArgs` + `finalEval`).  `Call.path` is the position of a sub-command in the
original token tree (`[]` = the whole line, `[2, 0]` = first item of the third item).
-/
import LimnoriaModel.C14.Lemmas
import LimnoriaModel.C14.MachineLemmas
namespace C14
open Py

variable (cfg : EvCfg) (disp : List Str → Dispatch) (beh : Str → List Str → List Str → Act) (inv : Nat → List Str → Act)

/-- all sub-commands of a command line in left-to-right post-order (inner first), the line itself last -/
def postOrder (args : List Arg) : List (List Nat) := postPaths [] 0 args ++ [[]]

/-- the post-order lists every sub-command once -/
theorem postOrder_nodup (args : List Arg) : (postOrder args).Nodup := by
  unfold postOrder
  rw [List.nodup_append]
  refine ⟨postPaths_nodup args [] 0, by simp, ?_⟩
  intro a ha b hb
  simp at hb; subst hb
  obtain ⟨j, t, _, rfl⟩ := postPaths_below args [] 0 a ha
  simp

theorem evalTop_inv (args : List Arg) (st : St) :
    Inv cfg disp inv 0 [] 0 args st (evalTop cfg disp beh inv args st) := by
  unfold evalTop
  cases args with
  | nil =>
    exact ⟨[], by simp [performInvalid, perform_log], by simp, fun hne => ⟨by simp, fun hs => absurd (hne.2 _ _ _) hs⟩,
      fun h0 hd => by simp [depthL] at hd, by simp⟩
  | cons a l => exact evalArgs_inv cfg disp beh inv (a :: l) 0 [] [] 0 st (fun _ => Nat.zero_le _)

/-- **Exactly once, inner first, left to right** (every tree, every behaviour of the command bodies,
every dispatch function): the sub-commands that run are a sub-sequence of the left-to-right
post-order of the tree — so none runs twice, none runs before a sub-command inside it or to its
left that also runs. -/
theorem eval_order (args : List Arg) (st : St) :
    ∃ l, (evalTop cfg disp beh inv args st).2.log = st.log ++ l ∧
      (l.map (·.path)).Sublist (postOrder args) ∧ (l.map (·.path)).Nodup := by
  obtain ⟨l, h1, h2, _⟩ := evalTop_inv cfg disp beh inv args st
  exact ⟨l, h1, h2, h2.nodup (postOrder_nodup args)⟩

/-- **Nothing runs after a stop**: when dispatch raises nothing, the sub-commands that run are a
*prefix* of the post-order: evaluation proceeds strictly in that order and whatever ends it (an
error, a command that stays silent, an unknown or ambiguous command, too much nesting) ends it for
every later sub-command and for every enclosing command. -/
theorem eval_prefix (hne : NoExc cfg disp inv) (args : List Arg) (st : St) :
    ∃ l, (evalTop cfg disp beh inv args st).2.log = st.log ++ l ∧ (l.map (·.path)) <+: postOrder args := by
  obtain ⟨l, h1, _, h3, _⟩ := evalTop_inv cfg disp beh inv args st
  exact ⟨l, h1, (h3 hne).1⟩

/-- **Every sub-command runs**: when evaluation is not stopped (the line's command replied or
called noReply), every sub-command of the tree ran, exactly once, in post-order. -/
theorem eval_complete (hne : NoExc cfg disp inv) (args : List Arg) (st : St)
    (hs : ¬ (evalTop cfg disp beh inv args st).1.isStopped) :
    ∃ l, (evalTop cfg disp beh inv args st).2.log = st.log ++ l ∧ l.map (·.path) = postOrder args := by
  obtain ⟨l, h1, _, h3, _⟩ := evalTop_inv cfg disp beh inv args st
  exact ⟨l, h1, (h3 hne).2 hs⟩

/-- **Function application**: when every command replies (and no bracket pair is empty, nesting is
within the maximum), the line evaluates like nested function application — every sub-command is
called, in post-order, with each of its own sub-commands replaced by (the first `maximumLength`
characters of) that sub-command's reply text as a single argument, and the line's reply is the
reply of its command applied to the evaluated arguments. -/
theorem eval_postorder (hall : AllReply disp beh) (args : List Arg) (hne : args ≠ []) (hnoempty : NoEmpty args)
    (hdepth : cfg.maxNesting ≠ 0 → depthL args ≤ cfg.maxNesting) (log : List Call) :
    evalTop cfg disp beh inv args ⟨log, false, false⟩ =
      (.replied (textOf disp beh (values cfg disp beh args)),
       ⟨log ++ refCalls cfg disp beh [] 0 args ++ [callOf disp [] (values cfg disp beh args)], false, false⟩) := by
  unfold evalTop
  cases args with
  | nil => exact absurd rfl hne
  | cons a l =>
    have := evalArgs_reply (cfg := cfg) (inv := inv) hall (a :: l) 0 [] [] 0 log hnoempty (by simpa using hdepth)
    simpa using this

/-- **Function application, with sub-commands that answer nothing**: when every command either
replies or calls noReply (e.g. `Utilities.ignore`, which also tags the message `ignored`), every
sub-command is called, in post-order, with each of its own sub-commands replaced by that
sub-command's (truncated) reply text as a single argument — or by nothing at all when it did not
reply — and the line answers what its command answers for the evaluated arguments. -/
theorem eval_application (hall : AllAnswer disp beh) (args : List Arg) (hne : args ≠ []) (hnoempty : NoEmpty args)
    (hdepth : cfg.maxNesting ≠ 0 → depthL args ≤ cfg.maxNesting) (log : List Call) :
    (evalTop cfg disp beh inv args ⟨log, false, false⟩).1 = outcomeOf (answerOf disp beh (valuesO cfg disp beh args)) ∧
    (evalTop cfg disp beh inv args ⟨log, false, false⟩).2.log =
      log ++ refCallsO cfg disp beh [] 0 args ++ [callOf disp [] (valuesO cfg disp beh args)] := by
  unfold evalTop
  cases args with
  | nil => exact absurd rfl hne
  | cons a l =>
    obtain ⟨ig, h, _⟩ := evalArgs_answer (cfg := cfg) (inv := inv) hall (a :: l) 0 [] [] 0 log hnoempty (by simpa using hdepth)
    simp only [h, List.nil_append, and_self]

/-- **Nesting deeper than the maximum is refused**: no sub-command deeper than
`supybot.commands.nested.maximum` ever runs, and a line that contains one is always stopped (never
answered by its command) — for every behaviour of the command bodies. -/
theorem depth_refused (h0 : cfg.maxNesting ≠ 0) (args : List Arg) (st : St) :
    (∃ l, (evalTop cfg disp beh inv args st).2.log = st.log ++ l ∧ ∀ c ∈ l, c.path.length ≤ cfg.maxNesting) ∧
    (depthL args > cfg.maxNesting → (evalTop cfg disp beh inv args st).1.isStopped) := by
  obtain ⟨l, h1, _, _, h4, h5⟩ := evalTop_inv cfg disp beh inv args st
  refine ⟨⟨l, h1, fun c hc => by simpa using h5 c hc h0⟩, fun hd => h4 h0 (by omega)⟩

/-- … and when every command replies the user gets exactly the "more nesting than is currently
allowed" error. -/
theorem depth_error (hall : AllReply disp beh) (h0 : cfg.maxNesting ≠ 0) (args : List Arg)
    (hnoempty : NoEmpty args) (hd : depthL args > cfg.maxNesting) (log : List Call) :
    (evalTop cfg disp beh inv args ⟨log, false, false⟩).1 = .stopped .tooDeep := by
  have hs := (depth_refused cfg disp beh inv h0 args ⟨log, false, false⟩).2 hd
  unfold evalTop at hs ⊢
  cases args with
  | nil => simp [depthL] at hd
  | cons a l =>
    simp only at hs ⊢
    rcases evalArgs_reply_or_deep (cfg := cfg) (inv := inv) hall (a :: l) 0 [] [] 0 log hnoempty with ⟨s, log', h⟩ | ⟨st', h⟩
    · rw [h] at hs; exact absurd hs (fun h => h)
    · rw [h]

/-! ### dispatch -/

/-- fact about the *extracted* `special` string of `canonicalName` on which idempotence rests -/
theorem special_table_ok : SpecialOk Gen.canonicalSpecial := by decide

/-- `canonicalName` is idempotent: `findCallbacksForArgs` canonicalises every argument once, and the
`assert args == list(map(canonicalName, args))` at the top of `getCommand` can never fire. -/
theorem canonicalName_idem (s : Str) : canonicalName (canonicalName s) = canonicalName s :=
  canonicalName_idem' special_table_ok s


/-- `getCommand` returns a prefix of the arguments it was given (so comparing candidates with
`L >= maxL` is comparing lengths, as the source comments). -/
theorem getCommand_prefix (d : Disabled) (P : Plugin) (args L : List Str) (h : getCommand d P args = .ok L) :
    L <+: args := (getCommand_spec d P args L h).1

/-- **A disabled command is never returned by `getCommand`**: the last word of what `getCommand`
returns is a command method of the plugin (or of one of its command groups) that `isDisabled`
rejects neither globally nor for that plugin. -/
theorem getCommand_enabled (d : Disabled) (P : Plugin) (args L : List Str) (c : Str)
    (h : getCommand d P args = .ok L) (hc : L.getLast? = some c) : Owns d P c :=
  (getCommand_spec d P args L h).2 c hc

theorem owns_not_disabled (d : Disabled) (plugin : Str) (methods : List Str) (c : Str)
    (h : isCmd d plugin methods c = true) : isDisabled d c plugin = false := by
  unfold isCmd at h
  simp only [Bool.and_eq_true, Bool.not_eq_true'] at h
  exact h.1.1

/-- **What a history of `disable` / `enable` leaves disabled** (the semantics of the
`DisabledCommands` store since fix 8c1c1e9, starting empty; `h` lists the operations most recent
first, on canonical names): a command `c` is disabled for plugin `p` exactly when the last
`disable c` / `enable c` (no plugin given) was a disable, or the last `disable p c` / `enable p c`
was a disable.  The two are independent: disabling or enabling a command everywhere never touches
what was said about a single plugin, and operations about other commands or plugins never matter. -/
theorem disabled_history (h : List SOp) (command plugin : Str) :
    isDisabled (runK h) command plugin =
      (saysAll (canonicalName command) h || saysFor (canonicalName plugin) (canonicalName command) h) := by
  rw [isDisabled_eq, disabledK, evK_run, forK_run]

/-- **Disabled and not enabled again stays disabled**: after `disable p c`, whatever follows that is
not an `enable p c`, the command stays disabled for `p` — in particular through `disable c` /
`enable c` (before fix 8c1c1e9 `disable p c; disable c; enable c` left `p.c` running). -/
theorem disabled_until_enabled (before after : List SOp) (p c : Str)
    (hno : ∀ op ∈ after, op ≠ .enableFor p c) :
    disabledK (runK (after ++ .disableFor p c :: before)) c p = true := by
  have : saysFor p c (after ++ .disableFor p c :: before) = true := by
    induction after with
    | nil => simp [saysFor]
    | cons op rest ih =>
      have ih' := ih (fun o ho => hno o (by simp [ho]))
      cases op with
      | enableFor p' c' =>
        have hne : ¬ (c' = c ∧ p' = p) := by
          intro ⟨h1, h2⟩; exact hno (.enableFor p' c') (by simp) (by rw [h1, h2])
        simp [saysFor, hne, ih']
      | disableFor p' c' => simp only [List.cons_append, saysFor, ih']; split <;> rfl
      | disableAll c' => simpa [saysFor] using ih'
      | enableAll c' => simpa [saysFor] using ih'
  rw [disabledK, forK_run, this, Bool.or_true]

/-- one operation, from any store: `isDisabled` afterwards in terms of before -/
theorem disabled_step (d : Disabled) (op : SOp) (k p : Str) :
    disabledK (stepK d op) k p =
      ((match op with
        | .disableAll c => if k = c then true else evK d k
        | .enableAll c => if k = c then false else evK d k
        | _ => evK d k) ||
       (match op with
        | .disableFor p' c => if k = c ∧ p = p' then true else forK d k p
        | .enableFor p' c => if k = c ∧ p = p' then false else forK d k p
        | _ => forK d k p)) := by
  rw [disabledK, evK_step, forK_step]
  cases op <;> rfl

/-- **An `enable` that is answered with an error changes nothing** (since fix 6f88b83; before it,
`disable VtOrderB igno` then `enable igno` reported "That command wasn't disabled." but had already
deleted the whole store entry, per-plugin disables included). -/
theorem enable_error_changes_nothing (s : OwnerSt) (pl : Option Str) (c : Str)
    (h : (ownerEnable s pl c).2 = false) : (ownerEnable s pl c).1 = s := by
  unfold ownerEnable at h ⊢
  simp only at h ⊢
  split
  · rename_i hc; rw [if_pos hc] at h; cases h
  · rfl

/-- **The live store and the registry value always say the same** — so what is disabled now is what
is disabled after the next start: the coherence `Coh` holds for the store a (re)started bot builds
(`fromConf`) and is preserved by every `Owner.disable` and `Owner.enable`, successful or not. -/
theorem store_registry_coherent :
    (∀ conf, CanonConf conf → Coh ⟨fromConf conf, conf⟩) ∧
    (∀ s plugin c, Coh s → Coh (ownerDisable s plugin c).1) ∧
    (∀ s pl c, Coh s → Coh (ownerEnable s pl c).1) := by
  refine ⟨coh_fromConf, ?_, ?_⟩
  · intro s plugin c h
    unfold ownerDisable
    split
    · exact h
    · cases plugin with
      | none => simpa using coh_step_disable s none c h
      | some nm =>
        obtain ⟨name, methods⟩ := nm
        simp only
        split
        · simpa using coh_step_disable s (some name) c h
        · exact h
  · intro s pl c h
    unfold ownerEnable
    simp only
    split
    · exact coh_step_enable s pl c h
    · exact h

/-- … hence a restart changes nothing about what is disabled -/
theorem restart_same (s : OwnerSt) (h : Coh s) (hc : CanonConf s.conf) (k p : Str) :
    disabledK (fromConf s.conf) k p = disabledK s.store k p := by
  have h' := coh_fromConf s.conf hc
  simp only [disabledK, h.1 k, h.2 k p]
  rw [show evK (fromConf s.conf) k = s.conf.contains (none, k) from h'.1 k,
    show forK (fromConf s.conf) k p = s.conf.contains (some p, k) from h'.2 k p]

/-- the two former witnesses: after `disable VtOrderB igno`, `enable igno` reports an error and
`VtOrderB.igno` stays disabled; after `disable VtOrderB igno; disable igno; enable igno` it stays
disabled too -/
theorem enable_global_keeps_plugin_entry :
    let s0 : OwnerSt := ⟨[], []⟩
    let b : Str × List Str := (['V', 't', 'O', 'r', 'd', 'e', 'r', 'B'], [['i', 'g', 'n', 'o']])
    let igno : Str := ['i', 'g', 'n', 'o']
    let s1 := (ownerDisable s0 (some b) igno).1
    let s2 := (ownerDisable s1 none igno).1
    isDisabled s1.store igno b.1 = true ∧
    (ownerEnable s1 none igno).2 = false ∧
    isDisabled (ownerEnable s1 none igno).1.store igno b.1 = true ∧
    (ownerEnable s2 none igno).2 = true ∧
    isDisabled (ownerEnable s2 none igno).1.store igno b.1 = true := by
  decide

/-- **A plugin-qualified name reaches that plugin**: with the callbacks `pre ++ P :: post`, `P`
called `p` and having the enabled command `cmd`, and no *other* plugin called `p` or owning a
command group called `p` (nor `P` a group called `p` or `cmd`), the line `p cmd …` runs `cmd` in
`P`, whatever other plugins also have a command `cmd` or `p`, whatever defaultPlugins /
importantPlugins say. -/
theorem dispatch_qualified (c : DispCfg) (pre post : List Plugin) (P : Plugin) (p cmd : Str)
    (rest0 args0 : List Str) (hcb : c.callbacks = pre ++ P :: post)
    (hargs : args0.map canonicalName = p :: cmd :: rest0)
    (hP : Addressed c.disabled P p cmd) (hQ : ∀ Q ∈ pre ++ post, Foreign Q p) :
    dispatch c args0 = .run pre.length P.name [p, cmd] (args0.drop 2) := by
  unfold dispatch
  rw [findCallbacks_qualified c pre post P p cmd rest0 args0 hcb hargs hP hQ]
  simp [nameOf, hcb]

/-- **An ambiguous bare name runs nothing and is reported**: a command name that at least two
loaded plugins have (enabled), that no plugin and no command group is called after, that has no
default plugin, and for which the important plugins do not single out exactly one candidate, is
answered with the ambiguity error naming the candidates … -/
theorem dispatch_ambiguous (c : DispCfg) (cmd : Str) (rest args0 : List Str)
    (hargs : args0.map canonicalName = cmd :: rest)
    (hQ : ∀ Q ∈ c.callbacks, Foreign Q cmd)
    (hdef : c.defaults.lookup cmd = none)
    (himp : ((candsFrom c.disabled cmd c.callbacks 0).filter fun i =>
      (c.important.map canonicalName).contains (canonicalName (nameOf c.callbacks i))).length ≠ 1)
    (htwo : 2 ≤ (candsFrom c.disabled cmd c.callbacks 0).length) :
    dispatch c args0 = .ambiguous [cmd] ((candsFrom c.disabled cmd c.callbacks 0).map (nameOf c.callbacks)) := by
  unfold dispatch
  rw [findCallbacks_bare c cmd rest args0 hargs hQ hdef himp (by intro h; rw [h] at htwo; simp at htwo)]
  match hl : candsFrom c.disabled cmd c.callbacks 0, htwo with
  | a :: b :: t, _ => rfl

/-- … and no command body runs: the log is unchanged and evaluation stops. -/
theorem ambiguous_runs_nothing (nested : Nat) (path : List Nat) (done : List Str) (st : St)
    (cmd names : List Str) (h : disp done = .ambiguous cmd names) :
    finalEval cfg disp beh inv nested path done st = (.stopped (.ambiguous cmd names), st) := by
  simp [finalEval, h]

/-- at most one plugin runs per (sub-)command: `finalEval` adds at most one call to the log -/
theorem dispatch_unique (nested : Nat) (path : List Nat) (done : List Str) (st : St) :
    ∃ l, (finalEval cfg disp beh inv nested path done st).2.log = st.log ++ l ∧ l.length ≤ 1 := by
  obtain ⟨l, h1, h2, _⟩ := finalEval_spec cfg disp beh inv nested path done st
  refine ⟨l, h1, ?_⟩
  rcases h2 with rfl | ⟨c, rfl, _⟩ <;> simp

theorem lookup_setDefault (d : List (Str × Str)) (k v : Str) : (setDefault d k v).lookup k = some v := by
  induction d with
  | nil => simp [setDefault, List.lookup]
  | cons e d ih =>
    obtain ⟨k', v'⟩ := e
    by_cases h : k' = k
    · subst h; simp [setDefault]
    · have hb : (k == k') = false := by
        cases hkk : (k == k') with
        | false => rfl
        | true => exact absurd (by simpa using hkk : k = k').symm h
      rw [setDefault, if_neg h, List.lookup_cons, hb]
      exact ih

/-- **`defaultplugin <command> <plugin>` that reports success has made `<plugin>` the default**,
whether or not a default (another one, the same one, an empty one) was registered before — it is
`register` *and* `set` (a re-registration alone keeps the old value). -/
theorem defaultplugin_sets (c : DispCfg) (command name : Str) (methods : List Str)
    (h : (ownerDefaultPlugin c false command (some (name, methods))).2 = .ok) :
    (ownerDefaultPlugin c false command (some (name, methods))).1.defaults.lookup command = some name := by
  unfold ownerDefaultPlugin at h ⊢
  simp only [Bool.false_eq_true, if_false] at h ⊢
  cases hf : findCallbacks c [command] with
  | error e => simp [hf] at h
  | ok r =>
    obtain ⟨maxL, cbs⟩ := r
    cases cbs with
    | nil => simp [hf] at h
    | cons i rest =>
      simp only [hf] at h ⊢
      by_cases hc : isCmdOf c.disabled name methods command = true
      · simp only [hc, if_true]; exact lookup_setDefault _ _ _
      · simp [hc] at h

theorem lookup_filter_ne (l : List (Str × Str)) (k : Str) :
    (l.filter fun e => e.1 ≠ k).lookup k = none := by
  induction l with
  | nil => rfl
  | cons e rest ih =>
    by_cases h : e.1 = k
    · simp [List.filter, h]
      intro a b _ hne heq; exact hne heq.symm
    · obtain ⟨a, b⟩ := e
      have h' : (k == a) = false := by
        simp only [beq_eq_false_iff_ne, ne_eq]; exact fun hh => h hh.symm
      simp [List.filter, h, List.lookup, h']
      intro a b _ hne heq; exact hne heq.symm

/-- **`defaultplugin --remove <command>` that reports success leaves no default behind, and the
owner's next choice is the default** — whatever was registered before the removal (a value read from
the configuration file at start-up included: nothing of it survives the removal). -/
theorem defaultplugin_remove_then_set (c : DispCfg) (command name : Str) (methods : List Str)
    (hr : (ownerDefaultPlugin c true command none).2 = .ok)
    (h : (ownerDefaultPlugin (ownerDefaultPlugin c true command none).1 false command
            (some (name, methods))).2 = .ok) :
    (ownerDefaultPlugin c true command none).1.defaults.lookup command = none ∧
    (ownerDefaultPlugin (ownerDefaultPlugin c true command none).1 false command
        (some (name, methods))).1.defaults.lookup command = some name := by
  refine ⟨?_, defaultplugin_sets _ _ _ _ h⟩
  unfold ownerDefaultPlugin at hr ⊢
  simp only [if_true] at hr ⊢
  cases hl : c.defaults.lookup command with
  | none => simp [hl] at hr
  | some v => exact lookup_filter_ne _ _

/-! ### the small-step machine (`Machine.lean`): command bodies that use `irc` any number of times, threads -/

/-- **On the machine, under every thread schedule and for every command body** (any number of
replies, errors, noReplies, exceptions; threaded or not): the call log only grows, every logged
call belongs to a proxy that did its `finalEval`, and no sub-command deeper than
`supybot.commands.nested.maximum` ever runs. -/
theorem machine_safety (m : MCfg) (args : List Arg) (ig : Bool) (sched : List Nat) :
    let c := run m sched (initConfig m args ig)
    Covered c.heap c.log ∧ (m.ev.maxNesting ≠ 0 → ∀ call ∈ c.log, call.path.length ≤ m.ev.maxNesting) := by
  obtain ⟨hg0, hc0⟩ := init_inv m args ig
  obtain ⟨hg, hc, _⟩ := run_inv m sched _ hg0 hc0
  refine ⟨hc, fun h0 call hcall => ?_⟩
  obtain ⟨P, hP, hp, _⟩ := hc call hcall
  have := hg P hP
  rw [← hp, this.1]
  exact this.2 h0

theorem machine_log_grows (m : MCfg) (c : Config) (sched : List Nat) (hg : HeapGood m c.heap)
    (hc : Covered c.heap c.log) : c.log <+: (run m sched c).log :=
  (run_inv m sched c hg hc).2.2

/-! Full statement for the machine (FALSE on the pinned tree, known finding
`C14-extra-reply-resumes-enclosing`): "for every body, the sub-commands that run are a prefix of
the post-order (nothing runs after a stop)".  It holds for bodies that use `irc` once
(`eval_prefix`); a body that replies twice breaks it: -/

/-- the witness `rtwo [nosuch [duni]]`, `duni` replying twice: the group `nosuch …` is reported as
invalid (an error goes out), then `duni`'s second reply is passed up to the line's proxy, stands in
for the failed group, and `rtwo` runs — the calls `[1,1], []` are not a prefix of the post-order
`[1,1], [1], []`. -/
theorem extra_reply_witness :
    let c := runFirst exM 100 (initConfig exM exWitness false)
    c.log.map (·.path) = [[1, 1], []] ∧ c.out = [.error ['?'], .reply ['z']] ∧
    ¬ ([[1, 1], []] <+: postOrder exWitness) := by
  have hp : postOrder exWitness = [[1, 1], [1], []] := by simp [postOrder, postPaths, exWitness]
  refine ⟨by decide, by decide, ?_⟩
  rw [hp]; decide

/-- … and next to a threaded sub-command the same extra reply makes "exactly once" depend on the
schedule: in `a [b] [c] [d]` with `b` replying twice and `c` threaded there is a schedule under
which `d` runs twice (both threads resume the line's `evalArgs` and both find `[d]` unevaluated).
(A statement about the machine; the interleaving cannot be forced on the real threads from outside.) -/
theorem race_runs_twice :
    ((run exR exRaceSchedule (initConfig exR exRace false)).log.map (·.path)) = [[1], [2], [3], [3]] := by
  set_option maxRecDepth 2000 in decide

/-! ### non-vacuity: concrete instances meeting the hypotheses -/

section Examples

/-- a dispatch that raises nothing (`NoExc`), and one under which every command replies (`AllReply`) -/
def exDisp : List Str → Dispatch := fun a => .run 0 ['P'] (a.take 1) (a.drop 1)
def exBeh : Str → List Str → List Str → Act := fun _ c r => ⟨false, .reply (joinChar ',' (c ++ r))⟩
def exCfgE : EvCfg := ⟨2, 100, false, ['E'], fun _ => ['H'], ['I']⟩

def exInv : Nat → List Str → Act := fun _ _ => ⟨false, .error ['?']⟩
example : NoExc exCfgE exDisp exInv := ⟨fun _ _ h => by simp [exDisp] at h, fun _ _ _ => trivial⟩
example : AllReply exDisp exBeh := fun a => ⟨0, ['P'], a.take 1, a.drop 1, _, rfl, rfl⟩
example : AllAnswer exDisp (fun p c r => if c = [['n']] then ⟨true, .noReply⟩ else exBeh p c r) := fun a => by
  refine ⟨0, ['P'], a.take 1, a.drop 1, rfl, ?_⟩
  by_cases h : a.take 1 = [['n']]
  · exact Or.inr ⟨true, by simp [h]⟩
  · exact Or.inl ⟨joinChar ',' (a.take 1 ++ a.drop 1), by simp [h, exBeh]⟩

/-- `f [g x] y` : not empty, no empty brackets, depth 1 ≤ 2; evaluated by `eval_postorder` -/
def exLine : List Arg := [.str ['f'], .sub [.str ['g'], .str ['x']], .str ['y']]
example : exLine ≠ [] ∧ NoEmpty exLine ∧ (exCfgE.maxNesting ≠ 0 → depthL exLine ≤ exCfgE.maxNesting) := by
  refine ⟨by simp [exLine], by simp [exLine, NoEmpty], by simp [exLine, depthL, exCfgE]⟩
example : (evalTop exCfgE exDisp exBeh exInv exLine ⟨[], false, false⟩).1 = .replied ['f', ',', 'g', ',', 'x', ',', 'y'] := by
  rw [eval_postorder exCfgE exDisp exBeh exInv (fun a => ⟨0, ['P'], a.take 1, a.drop 1, _, rfl, rfl⟩) exLine
    (by simp [exLine]) (by simp [exLine, NoEmpty]) (by simp [exLine, depthL, exCfgE])]
  simp [exLine, values, textOf, exDisp, exBeh, exCfgE, joinChar]

/-- a line nested three deep under maximum 2 is refused (`depth_refused`, `depth_error`) -/
def exDeep : List Arg := [.str ['f'], .sub [.str ['g'], .sub [.str ['h'], .sub [.str ['k']]]]]
example : exCfgE.maxNesting ≠ 0 ∧ NoEmpty exDeep ∧ depthL exDeep > exCfgE.maxNesting := by
  refine ⟨by simp [exCfgE], by simp [exDeep, NoEmpty], by simp [exDeep, depthL, exCfgE]⟩

/-- two plugins with an overlapping command -/
def exA : Plugin := .mk ['A', 'a'] [['r', 'o', 'n', 'e'], ['r', 't', 'w', 'o']] [] false
def exB : Plugin := .mk ['B', 'b'] [['r', 'o', 'n', 'e'], ['r', 'b', 'e', 'e']] [] false
def exDC : DispCfg := ⟨[exA, exB], [], [], []⟩

/-- `aa rone x` reaches plugin `Aa` although `Bb` has `rone` too (hypotheses of `dispatch_qualified`) -/
example : dispatch exDC [['A', 'a'], ['r', 'o', 'n', 'e'], ['x']] =
    .run 0 ['A', 'a'] [['a', 'a'], ['r', 'o', 'n', 'e']] [['x']] :=
  dispatch_qualified exDC [] [exB] exA ['a', 'a'] ['r', 'o', 'n', 'e'] [['x']] _ rfl (by decide)
    ⟨by decide, by decide, by simp [exA, Plugin.subs]⟩
    (by intro Q hQ; simp at hQ; subst hQ; exact ⟨by decide, by simp [exB, Plugin.subs]⟩)

/-- bare `rone` is ambiguous between the two (hypotheses of `dispatch_ambiguous`) -/
example : dispatch exDC [['r', 'o', 'n', 'e'], ['x']] = .ambiguous [['r', 'o', 'n', 'e']] [['A', 'a'], ['B', 'b']] :=
  dispatch_ambiguous exDC ['r', 'o', 'n', 'e'] [['x']] _ (by decide)
    (by intro Q hQ; simp [exDC] at hQ; rcases hQ with rfl | rfl
        · exact ⟨by decide, by simp [exA, Plugin.subs]⟩
        · exact ⟨by decide, by simp [exB, Plugin.subs]⟩)
    rfl (by decide) (by decide)

/-- with `rone` disabled in `Bb`, `getCommand` of `Bb` no longer returns it (`getCommand_enabled`) -/
example : getCommand [(['r', 'o', 'n', 'e'], (false, [['b', 'b']]))] exB [['r', 'o', 'n', 'e']] = .ok [] := by
  rw [exB, getCommand_cons]
  simp only [getCommandSubs]
  rw [if_neg (by decide)]
  rw [if_neg (by decide)]

end Examples

end C14
