/-
C14 — model of nested-command evaluation and command dispatch (src/callbacks.py):
  * `canonicalName`                                                         (160-177)
  * `NestedCommandsIrcProxy.__init__/evalArgs/finalEval/reply/noReply/error` (669-749, 848-889, 1045-1097)
      as a big-step evaluator over token trees: one proxy per bracket level with its
      `args` / `counter` cursor, the `maximum` nesting check, the substitution rules
      (`args[counter] = s`, `pop` on noReply or when the message is tagged `ignored`,
      truncation to `reply.maximumLength`), errors travelling to the top, nothing running after a
      command that neither replies nor calls noReply;
  * `Commands._callCommand`'s mapping of exceptions raised by a command body           (1342-1397)
  * `Commands.getCommand / isCommandMethod / isDisabled`, `DisabledCommands.disabled`  (1168-1295)
  * `findCallbacksForArgs` (longest prefix, own-name rule, defaultPlugins, importantPlugins)
    and the three-way decision of `finalEval`                                          (782-889)
Command bodies are abstract: `beh plugin command args` says what the body does with its `irc`
(reply / noReply / error / nothing / raise, optionally after `msg.tag('ignored')`).
Not modelled: thread scheduling (a threaded command continues the same evaluation on its thread),
capability checks of `_callCommand` (C01), the bodies of `invalidCommand` handlers other than Misc's (abstract),
a command body that uses its `irc` more than once, non-ASCII case folding in `canonicalName`.
-/
import LimnoriaModel.Py.Basic
import LimnoriaModel.Gen.CanonicalName
namespace C14
open Py

/-! ## canonicalName -/

/-- `x in special` (the string is regenerated from the source on every run) -/
def isSpecial (c : Char) : Bool := Gen.canonicalSpecial.contains c

/-- `callbacks.canonicalName(command)` (ASCII case folding) -/
def canonicalName (s : Str) : Str :=
  let tail := (s.reverse.takeWhile isSpecial).reverse
  let body := (s.reverse.dropWhile isSpecial).reverse
  asciiLower (body.filter fun c => !isSpecial c) ++ tail

/-! ## plugins and `getCommand` -/

/-- a plugin instance: class name, the attribute names that are command methods, the nested
command groups (`self.cbs`), `threaded` -/
inductive Plugin where
  | mk (name : Str) (methods : List Str) (subs : List Plugin) (threaded : Bool)

def Plugin.name : Plugin → Str | .mk n _ _ _ => n
def Plugin.methods : Plugin → List Str | .mk _ m _ _ => m
def Plugin.subs : Plugin → List Plugin | .mk _ _ s _ => s
def Plugin.threaded : Plugin → Bool | .mk _ _ _ t => t

/-- `Commands._disabled.d` (since fix 8c1c1e9): canonical command name ↦ (disabled everywhere?,
canonical names of the plugins it is disabled in) -/
abbrev Disabled := List (Str × (Bool × List Str))

/-- `DisabledCommands.disabled(command, plugin)` -/
def isDisabled (d : Disabled) (command plugin : Str) : Bool :=
  match d.find? (fun e => e.1 = canonicalName command) with
  | none => false
  | some (_, (everywhere, ps)) => everywhere || ps.contains (canonicalName plugin)

/-- `isCommandMethod(name)` of the plugin called `plugin` whose command methods are `methods` -/
def isCmd (d : Disabled) (plugin : Str) (methods : List Str) (name : Str) : Bool :=
  !isDisabled d name plugin && name = canonicalName name && methods.contains name

/-! ### the disabled-commands store (`DisabledCommands`) and `Owner.disable` / `Owner.enable` -/

/-- `self.d[key]` / `key in self.d` on the canonical key -/
def lookupK (d : Disabled) (k : Str) : Option (Bool × List Str) :=
  (d.find? fun e => e.1 = k).map (·.2)

/-- `self.d[key] = v` -/
def setK : Disabled → Str → Bool × List Str → Disabled
  | [], k, v => [(k, v)]
  | (k', v') :: rest, k, v => if k' = k then (k, v) :: rest else (k', v') :: setK rest k v

/-- `del self.d[key]` -/
def delK (d : Disabled) (k : Str) : Disabled := d.filter fun e => e.1 ≠ k

/-- `DisabledCommands.add(command, plugin)` -/
def Disabled.add (d : Disabled) (command : Str) (plugin : Option Str) : Disabled :=
  let k := canonicalName command
  let e := (lookupK d k).getD (false, [])
  match plugin with
  | none => setK d k (true, e.2)
  | some p => setK d k (e.1, if e.2.contains (canonicalName p) then e.2 else e.2 ++ [canonicalName p])

/-- the end of `remove`: an entry that says nothing any more is deleted -/
def finK (d : Disabled) (k : Str) (e : Bool × List Str) : Disabled :=
  if !e.1 && e.2.isEmpty then delK d k else setK d k e

/-- `DisabledCommands.remove(command, plugin)`; `none` = KeyError -/
def Disabled.remove (d : Disabled) (command : Str) (plugin : Option Str) : Option Disabled :=
  let k := canonicalName command
  match lookupK d k with
  | none => none
  | some (everywhere, ps) =>
    match plugin with
    | none => if everywhere then some (finK d k (false, ps)) else none
    | some p =>
      if ps.contains (canonicalName p) then some (finK d k (everywhere, ps.filter fun q => q ≠ canonicalName p))
      else none

/-- `plugin.isCommand(command)` for a string (= `isCommandMethod`) of the plugin `name` with command methods `methods` -/
def isCmdOf (d : Disabled) (name : Str) (methods : List Str) (command : Str) : Bool :=
  !isDisabled d command name && command = canonicalName command && methods.contains command

/-- a name in `supybot.commands.disabled`: `command` (plugin = none) or `plugin.command`, canonical.
(The registry holds the strings; plugin and command names contain no dot, so the strings and these
pairs correspond one to one — the correspondence run compares the strings.) -/
abbrev ConfName := Option Str × Str

/-- what `Owner.disable/enable` change: the live store `Commands._disabled` and the registry value
`supybot.commands.disabled` (read again at the next start) -/
structure OwnerSt where
  store : Disabled
  conf : List ConfName

def confName (plugin : Option Str) (command : Str) : ConfName :=
  (plugin.map canonicalName, canonicalName command)

/-- `DisabledCommands.__init__`: the store a (re)started bot builds from the registry value -/
def fromConf : List ConfName → Disabled
  | [] => []
  | (pl, k) :: rest => (fromConf rest).add k pl

/-- `Owner.disable [<plugin>] <command>` (`command` already through the `commandName` converter);
`plugin` = (class name, command methods) of the named plugin; the Bool = replied success -/
def ownerDisable (s : OwnerSt) (plugin : Option (Str × List Str)) (command : Str) : OwnerSt × Bool :=
  if command = ['e', 'n', 'a', 'b', 'l', 'e'] ∨ command = ['i', 'd', 'e', 'n', 't', 'i', 'f', 'y'] then (s, false)
  else
    let pl := plugin.map (·.1)
    let ok := match plugin with
      | some (name, methods) => isCmdOf s.store name methods command
      | none => true
    if ok then
      (⟨s.store.add command pl,
        if s.conf.contains (confName pl command) then s.conf else s.conf ++ [confName pl command]⟩, true)
    else (s, false)

/-- `Owner.enable [<plugin>] <command>` (after fix 6f88b83): the name is looked up in the registry set
first — when it is not there the command answers "That command wasn't disabled." and nothing
changes; otherwise it is removed from the set and from the live store (a KeyError of the store is
ignored) and the command reports success -/
def ownerEnable (s : OwnerSt) (plugin : Option Str) (command : Str) : OwnerSt × Bool :=
  let name := confName plugin command
  if s.conf.contains name then
    (⟨(s.store.remove command plugin).getD s.store, s.conf.filter fun x => x ≠ name⟩, true)
  else (s, false)

inductive GErr where
  | indexError                -- `args[0]` on an empty list
deriving DecidableEq, Repr

mutual
/-- `Commands.getCommand(args)` (stripOwnName=True); the `stripOwnName=False` call on the tail is inlined -/
def getCommand (d : Disabled) : Plugin → List Str → Except GErr (List Str)
  | .mk name methods subs _, args =>
    match args with
    | [] => .error .indexError
    | first :: rest =>
      match getCommandSubs d subs first args with
      | some r => r
      | none =>
        let own : List Str := if isCmd d name methods first then [first] else []
        if first = canonicalName name ∧ rest ≠ [] then
          let ret : Except GErr (List Str) :=
            match rest with
            | [] => .ok []
            | first' :: _ =>
              match getCommandSubs d subs first' rest with
              | some r => r
              | none => .ok (if isCmd d name methods first' then [first'] else [])
          match ret with
          | .error e => .error e
          | .ok [] => .ok own
          | .ok (r :: rs) => .ok (first :: r :: rs)
        else .ok own
/-- `for cb in self.cbs: if first == cb.canonicalName(): return cb.getCommand(args)` -/
def getCommandSubs (d : Disabled) : List Plugin → Str → List Str → Option (Except GErr (List Str))
  | [], _, _ => none
  | cb :: cbs, first, args =>
    if first = canonicalName cb.name then some (getCommand d cb args)
    else getCommandSubs d cbs first args
end

/-! ## `findCallbacksForArgs` and `finalEval`'s decision -/

structure DispCfg where
  callbacks : List Plugin                 -- irc.callbacks that are plugins, in order
  disabled : Disabled
  defaults : List (Str × Str)             -- supybot.commands.defaultPlugins.<canonical command> = plugin
  important : List Str                    -- supybot.commands.defaultPlugins.importantPlugins

/-- the `for cb in self.irc.callbacks` loop: `(maxL, [(index of cb, L)])` -/
def scan (d : Disabled) (args : List Str) :
    List Plugin → Nat → List Str → List (Nat × List Str) → Except GErr (List Str × List (Nat × List Str))
  | [], _, maxL, acc => .ok (maxL, acc)
  | cb :: cbs, i, maxL, acc =>
    match getCommand d cb args with
    | .error e => .error e
    | .ok L =>
      if L ≠ [] ∧ maxL.length ≤ L.length then scan d args cbs (i + 1) L (acc ++ [(i, L)])
      else scan d args cbs (i + 1) maxL acc

def nameOf (cbs : List Plugin) (i : Nat) : Str := match cbs[i]? with | some p => p.name | none => []

/-- `irc.getCallback(name)`: first callback whose lower-cased name matches -/
def getCallbackIdx (cbs : List Plugin) (name : Str) : Option Nat :=
  cbs.findIdx? fun p => asciiLower p.name = asciiLower name

/-- `findCallbacksForArgs(args)`: `(command, indices of the plugins)` -/
def findCallbacks (c : DispCfg) (args0 : List Str) : Except GErr (List Str × List Nat) :=
  let args := args0.map canonicalName
  match scan c.disabled args c.callbacks 0 [] [] with
  | .error e => .error e
  | .ok (maxL, acc) =>
    let cbs := (acc.filter fun p => p.2 = maxL).map (·.1)
    match maxL with
    | [m] =>
      match cbs.find? fun i => canonicalName (nameOf c.callbacks i) = m with
      | some i => .ok (maxL, [i])
      | none =>
        let viaDefault : Option Nat :=
          match c.defaults.lookup m with
          | none => none
          | some dp =>
            if dp = [] then none else
            match getCallbackIdx c.callbacks dp with
            | some i => if cbs.contains i then some i else none
            | none => none
        match viaDefault with
        | some i => .ok (maxL, [i])
        | none =>
          let imp := c.important.map canonicalName
          match cbs.filter fun i => imp.contains (canonicalName (nameOf c.callbacks i)) with
          | [i] => .ok (maxL, [i])
          | _ => .ok (maxL, cbs)
    | _ => .ok (maxL, cbs)

/-! ### `Owner.defaultplugin` -/

inductive DpReply where
  | ok                      -- replySuccess
  | err                     -- an error reply (unknown command, not a command of that plugin, nothing set)
  | value (plugin : Str)    -- the current default plugin
deriving DecidableEq, Repr

/-- `registerDefaultPlugin(command, plugin)`: register the registry node (keeps an existing node) and
then `.set(plugin)` — so that the node holds `plugin` whether it existed before or not -/
def setDefault : List (Str × Str) → Str → Str → List (Str × Str)
  | [], k, v => [(k, v)]
  | (k', v') :: rest, k, v => if k' = k then (k, v) :: rest else (k', v') :: setDefault rest k v

/-- `Owner.defaultplugin [--remove] <command> [<plugin>]` (`command` through the `commandName`
converter; `plugin` = (class name, command methods) of the named plugin) -/
def ownerDefaultPlugin (c : DispCfg) (remove : Bool) (command : Str) (plugin : Option (Str × List Str)) :
    DispCfg × DpReply :=
  if remove then
    match c.defaults.lookup command with
    | some _ => ({ c with defaults := c.defaults.filter fun e => e.1 ≠ command }, .ok)
    | none => (c, .err)
  else
    match findCallbacks c [command] with
    | .error _ => (c, .err)
    | .ok (_, []) => (c, .err)                                   -- errorInvalid('command', command)
    | .ok _ =>
      match plugin with
      | some (name, methods) =>
        if isCmdOf c.disabled name methods command then
          ({ c with defaults := setDefault c.defaults command name }, .ok)
        else (c, .err)
      | none =>
        match c.defaults.lookup command with
        | some v => (c, .value v)
        | none => (c, .err)

inductive Dispatch where
  | run (idx : Nat) (plugin : Str) (command rest : List Str)
  | none                                              -- no plugin: `_callInvalidCommands`
  | ambiguous (command : List Str) (names : List Str)  -- error, nothing runs
  | exc (e : GErr)
deriving Repr

/-- the decision of `finalEval` for fully evaluated `args` -/
def dispatch (c : DispCfg) (args : List Str) : Dispatch :=
  match findCallbacks c args with
  | .error e => .exc e
  | .ok (_, []) => .none
  | .ok (command, [i]) => .run i (nameOf c.callbacks i) command (args.drop command.length)
  | .ok (command, cbs) => .ambiguous command (cbs.map (nameOf c.callbacks))

/-! ## evaluation of a token tree -/

/-- a token tree as returned by `callbacks.tokenize` -/
inductive Arg where
  | str (s : Str)
  | sub (l : List Arg)

/-- exceptions a command body may raise, as `_callCommand` distinguishes them -/
inductive Exc where
  | silent                 -- callbacks.SilentError
  | error (s : Str)        -- callbacks.Error(s) / SyntaxError
  | argument               -- callbacks.ArgumentError / getopt.GetoptError
  | other (desc : Str)     -- anything else; `desc` = utils.exnToString(e)
deriving Repr

inductive Behav where
  | reply (s : Str)
  | noReply
  | error (s : Str)
  | silent
  | raise (e : Exc)
deriving Repr

/-- what a command body does: optionally `msg.tag('ignored')` first -/
structure Act where
  tag : Bool
  b : Behav

structure EvCfg where
  maxNesting : Nat          -- supybot.commands.nested.maximum
  maxLen : Nat              -- supybot.reply.maximumLength
  detailed : Bool           -- supybot.reply.error.detailed
  errorText : Str           -- supybot.replies.error
  help : List Str → Str     -- getCommandHelp(command)
  indexErrorText : Str      -- exnToString(IndexError) as Python words it

/-- one entry of the call log; `path` = position of the sub-command in the original tree -/
structure Call where
  path : List Nat
  plugin : Str
  command : List Str
  args : List Str
deriving DecidableEq, Repr

structure St where
  log : List Call
  ignored : Bool            -- msg.tagged('ignored') is true
  handler : Bool            -- the last reply came out of an `except` clause of `_callCommand`
                            -- (replyError / the help text), not out of a command body

inductive Stop where
  | error (s : Str)                                   -- an error message went to the user
  | silent                                            -- a command did nothing
  | tooDeep                                           -- more nesting than `maximum`
  | ambiguous (command : List Str) (names : List Str)
deriving Repr

inductive Outcome where
  | replied (s : Str)
  | noReply
  | stopped (w : Stop)
deriving Repr

/-- what the command body's use of `irc` amounts to for the proxy it was called with -/
def perform (cfg : EvCfg) (nested : Nat) (command : List Str) (a : Act) (st : St) : Outcome × St :=
  let st1 : St := if a.tag then { st with ignored := true } else st
  match a.b with
  | .reply s => (.replied s, { st1 with handler := false })
  | .noReply =>
    if nested = 0 then (.noReply, { st1 with ignored := true, handler := false })
    else (.noReply, { st1 with handler := false })
  | .error s => (.stopped (.error s), st1)
  | .silent => (.stopped .silent, st1)
  | .raise .silent => (.stopped .silent, st1)
  | .raise (.error s) => (.stopped (.error s), st1)
  | .raise .argument => (.replied (cfg.help command), { st1 with handler := true })
  | .raise (.other desc) =>
    if cfg.detailed then (.stopped (.error desc), st1)
    else (.replied cfg.errorText, { st1 with handler := true })

/-! ### `_callInvalidCommands`: the chain of `invalidCommand` handlers -/

/-- does this use of the proxy set `repliedTo` (which ends the chain)?  reply / noReply / error do;
a handler that returns without touching `irc`, or raises something other than `callbacks.Error`
(logged), lets the next handler try -/
def Act.answers (a : Act) : Bool :=
  match a.b with
  | .reply _ => true
  | .noReply => true
  | .error _ => true
  | .silent => false
  | .raise (.error _) => true          -- `except Error as e: self.error(str(e))`
  | .raise _ => false                  -- `except Exception: log.exception(...)`

/-- `Misc.invalidCommand` (flood protection off): with `supybot.reply.whenNotCommand` an error
naming the command; otherwise, inside brackets, the bracketed text itself comes back as the reply
(`echo [foo bar]` echoes `[foo bar]`), and at top level nothing happens -/
def miscInvalid (whenNotCommand : Bool) (brackets : Str) (errText : List Str → Str) (nested : Nat)
    (tokens : List Str) : Act :=
  if whenNotCommand then ⟨false, .raise (.error (errText tokens))⟩       -- irc.error / errorInvalid (Raise=True)
  else if nested ≠ 0 then
    match brackets with
    | [l, r] => ⟨false, .reply (l :: joinStr [' '] tokens ++ [r])⟩
    | _ => ⟨false, .silent⟩
  else ⟨false, .silent⟩

/-- the `for cb in cbs:` loop of `callInvalidCommands`: the first handler that answers ends it;
`none` = nobody answered (the evaluation just stops there) -/
def invalidChain : List (Nat → List Str → Act) → Nat → List Str → Act
  | [], _, _ => ⟨false, .silent⟩
  | h :: hs, nested, tokens =>
    let a := h nested tokens
    if a.answers then a
    else
      -- a tag set by a handler that then passes stays on the message
      let rest := invalidChain hs nested tokens
      ⟨a.tag || rest.tag, rest.b⟩

/-- `_callInvalidCommands` for the proxy at level `nested`: what the chain's answer amounts to.  An
exception raised further up while that answer is being delivered is caught by the chain's own
`except Exception` (logged, nothing sent) — the same as for an answer made from an `except` clause
of `_callCommand`, hence the `handler` flag. -/
def performInvalid (cfg : EvCfg) (nested : Nat) (tokens : List Str) (a : Act) (st : St) : Outcome × St :=
  let r := perform cfg nested tokens a st
  (r.1, { r.2 with handler := true })

/-- `finalEval` once every argument is a string -/
def finalEval (cfg : EvCfg) (disp : List Str → Dispatch) (beh : Str → List Str → List Str → Act)
    (inv : Nat → List Str → Act) (nested : Nat) (path : List Nat) (done : List Str) (st : St) : Outcome × St :=
  -- an exception inside finalEval (`args[0]` on the emptied list): it unwinds into the `_callCommand`
  -- of the sub-command whose noReply emptied the list; that one answers `replyError` on its own
  -- (child) proxy, which truncates and hands the text to this proxy, now `finalEvaled`.  But when the
  -- emptying reply was itself made from an `except` clause of that `_callCommand` (replyError, help),
  -- nothing catches the exception before the firewall around `_callCommand`: logged, nothing sent.
  let crash : Outcome × St :=
    if st.handler then (.stopped .silent, st)
    else if cfg.detailed then (.stopped (.error cfg.indexErrorText), st)
    else (.replied (cfg.errorText.take cfg.maxLen), { st with handler := true })
  match disp done with
  | .exc _ => crash
  | .none => performInvalid cfg nested done (inv nested done) st   -- `_callInvalidCommands`
  | .ambiguous c names => (.stopped (.ambiguous c names), st)
  | .run _ plugin command rest =>
    perform cfg nested command (beh plugin command rest)
      { st with log := st.log ++ [⟨path, plugin, command, rest⟩] }

/-- `evalArgs` of the proxy at nesting level `nested` whose position in the tree is `path`:
`done` = `args[:counter]` (all strings), the list argument = `args[counter:]`, `i` = original index
of `args[counter]`.  A sub-list spawns the child proxy (`__init__`: nesting check, empty list →
invalid command, else its own `evalArgs`); its outcome is substituted as `reply` / `noReply` do. -/
def evalArgs (cfg : EvCfg) (disp : List Str → Dispatch) (beh : Str → List Str → List Str → Act)
    (inv : Nat → List Str → Act) (nested : Nat) (path : List Nat) (done : List Str) (i : Nat) : List Arg → St → Outcome × St
  | [], st => finalEval cfg disp beh inv nested path done st
  | .str s :: rest, st => evalArgs cfg disp beh inv nested path (done ++ [s]) (i + 1) rest st
  | .sub l :: rest, st =>
    let child : Outcome × St :=
      if cfg.maxNesting ≠ 0 ∧ nested + 1 > cfg.maxNesting then (.stopped .tooDeep, st)
      else match l with
        | [] => performInvalid cfg (nested + 1) [] (inv (nested + 1) []) st   -- `if not args: _callInvalidCommands()`
        | a :: l' => evalArgs cfg disp beh inv (nested + 1) (path ++ [i]) [] 0 (a :: l') st
    match child with
    | (.replied s, st') =>
      if st'.ignored then evalArgs cfg disp beh inv nested path done (i + 1) rest { st' with ignored := false }
      else evalArgs cfg disp beh inv nested path (done ++ [s.take cfg.maxLen]) (i + 1) rest st'
    | (.noReply, st') => evalArgs cfg disp beh inv nested path done (i + 1) rest { st' with ignored := false }
    | (.stopped w, st') => (.stopped w, st')

/-- `NestedCommandsIrcProxy(irc, msg, args)` for the top-level proxy (`nested = 0`) -/
def evalTop (cfg : EvCfg) (disp : List Str → Dispatch) (beh : Str → List Str → List Str → Act)
    (inv : Nat → List Str → Act) (args : List Arg) (st : St) : Outcome × St :=
  match args with
  | [] => performInvalid cfg 0 [] (inv 0 []) st
  | _ => evalArgs cfg disp beh inv 0 [] [] 0 args st

end C14
