/-
C14 — small-step machine for nested-command evaluation: the proxies as objects.

Where `Model.lean` evaluates a token tree in one recursive pass (every command body uses its `irc`
at most once), this file keeps what `NestedCommandsIrcProxy` really keeps — a heap of proxy objects
(`irc` = parent, `args`, `counter`, `nested`, `finalEvaled`, `repliedTo`) — and runs call stacks of
frames over it, one Python-level call per step:
  * a command body is a *list* of uses of `irc` (reply after reply, `replies()` with oneToOne off,
    `irc.error` after a reply, `noReply` after a reply, `replySuccess`, `queueMsg` from the body),
    optionally ending in an exception;
  * `reply` / `noReply` / `error` travel from proxy to proxy (`self.irc.reply(...)`), substitute into
    the first proxy that is still evaluating and resume its `evalArgs` — on the stack of whoever
    called, so the rest of a body runs *after* everything its reply set off;
  * exceptions unwind the stack to the nearest `_callCommand` (`except Exception` → replyError /
    error) — or, when raised while such a handler (or the invalidCommand chain) is already
    answering, to the firewall, which swallows them;
  * a threaded command is handed to a new thread: its body, and every evaluation its replies
    resume, run on that thread's stack; which thread steps next is the scheduler's choice.
-/
import LimnoriaModel.C14.Model
namespace C14
open Py

/-- one use of `irc` (or `msg`) by a command body -/
inductive Action where
  | reply (s : Str)
  | noReply
  | error (s : Str)
  | tag                      -- msg.tag('ignored')
  | send (s : Str)           -- irc.queueMsg(...) of the body's own making: goes out, touches nothing
deriving Repr

/-- a command body: its uses of `irc` in order, then possibly an exception -/
structure Body where
  acts : List Action
  final : Option Exc
deriving Repr

/-- a body in the sense of `Model.lean` (at most one use of `irc`) -/
def Act.toBody (a : Act) : Body :=
  let pre : List Action := if a.tag then [.tag] else []
  match a.b with
  | .reply s => ⟨pre ++ [.reply s], none⟩
  | .noReply => ⟨pre ++ [.noReply], none⟩
  | .error s => ⟨pre ++ [.error s], none⟩
  | .silent => ⟨pre, none⟩
  | .raise e => ⟨pre, some e⟩

structure Proxy where
  parent : Option Nat             -- `self.irc` when it is a proxy
  path : List Nat                 -- position in the original tree
  nested : Nat
  args : List (Nat × Arg)         -- `self.args` with the original index of every item
  counter : Nat
  finalEvaled : Bool
  repliedTo : Bool

/-- who called: decides what catches an exception -/
inductive Kind where
  | command                       -- inside `try:` of `_callCommand`
  | handler                       -- inside an `except` clause of `_callCommand` (then only the firewall is left)
  | invalid                       -- inside `callInvalidCommands` (`except Exception: log`)
deriving DecidableEq, Repr

inductive Frame where
  | evalArgs (p : Nat)
  | body (p : Nat) (command : List Str) (acts : List Action) (final : Option Exc) (k : Kind)
  | reply (p : Nat) (s : Str)
  | noReply (p : Nat)
  | error (p : Nat) (s : Str)

/-- what reaches the user -/
inductive Out where
  | reply (s : Str)
  | error (s : Str)
  | sent (s : Str)
deriving DecidableEq, Repr

structure Config where
  heap : List Proxy
  threads : List (List Frame)     -- call stacks, top first; thread 0 is the one that received the message
  log : List Call
  out : List Out
  ignored : Bool
  msgReplied : Bool               -- msg.tagged('repliedTo'): a reply or an error for this message was built
  lost : List String              -- exceptions that reached the bottom of a stack or a firewall (logged only)

structure MCfg where
  ev : EvCfg
  disp : List Str → Dispatch
  beh : Str → List Str → List Str → Body
  inv : Bool → Nat → List Str → Act   -- the invalidCommand chain; first argument: msg.tagged('repliedTo')
                                      -- (Misc.invalidCommand asserts it is not set)
  threaded : Str → Bool           -- cb.threaded of the plugin called `name`
  nestText : Str                  -- "You've attempted more nesting than is currently allowed on this bot."
  ambigText : List Str → List Str → Str
  assertText : Str                -- exnToString(AssertionError('finalEval called twice.'))

def setProxy (h : List Proxy) (p : Nat) (f : Proxy → Proxy) : List Proxy :=
  h.mapIdx fun i x => if i = p then f x else x

def indexArgs (l : List Arg) : List (Nat × Arg) := l.zipIdx.map fun (a, i) => (i, a)

def strsOf (args : List (Nat × Arg)) : List Str :=
  args.filterMap fun (_, a) => match a with | .str s => some s | .sub _ => none

/-- replace / remove the item under the cursor -/
def setAt (args : List (Nat × Arg)) (n : Nat) (a : Arg) : List (Nat × Arg) :=
  args.mapIdx fun i x => if i = n then (x.1, a) else x
def popAt (args : List (Nat × Arg)) (n : Nat) : List (Nat × Arg) := args.eraseIdx n

/-- an exception on thread `tid`: unwind its stack to whatever catches it -/
def unwind (m : MCfg) (desc : Str) : List Frame → List Frame × Bool
  | [] => ([], false)                                   -- nothing caught it: logged by the caller of the thread
  | .body p cmd _ _ .command :: rest =>
    -- `except Exception:` of `_callCommand`: the rest of the body is gone; it answers the error
    let answer : List Action := if m.ev.detailed then [.error desc] else [.reply m.ev.errorText]
    (.body p cmd answer none .handler :: rest, true)
  | .body _ _ _ _ .handler :: rest => (rest, true)      -- the firewall around `_callCommand`: logged, the caller goes on
  | .body _ _ _ _ .invalid :: rest => (rest, true)      -- `except Exception: log.exception(...)` of the chain
  | _ :: rest => unwind m desc rest

def setThread (ts : List (List Frame)) (tid : Nat) (st : List Frame) : List (List Frame) :=
  ts.mapIdx fun i x => if i = tid then st else x

/-- one step of thread `tid`: the call on top of its stack -/
def step (m : MCfg) (c : Config) (tid : Nat) : Config :=
  match c.threads[tid]? with
  | none => c
  | some [] => c
  | some (f :: stack) =>
    let put (c : Config) (st : List Frame) : Config := { c with threads := setThread c.threads tid st }
    let raise (c : Config) (desc : Str) : Config :=
      let (st, caught) := unwind m desc stack
      let c := put c st
      { c with lost := if caught && (match st with | .body _ _ _ _ .handler :: _ => true | _ => false)
                       then c.lost else c.lost ++ [String.ofList desc] }
    match f with
    | .evalArgs p =>
      match c.heap[p]? with
      | none => put c stack
      | some P =>
        match P.args[P.counter]? with
        | some (_, .str _) =>
          put { c with heap := setProxy c.heap p fun x => { x with counter := x.counter + 1, repliedTo := false } }
            (.evalArgs p :: stack)
        | some (i, .sub l) =>
          let c := { c with heap := setProxy c.heap p fun x => { x with repliedTo := false } }
          if m.ev.maxNesting ≠ 0 ∧ P.nested + 1 > m.ev.maxNesting then
            put c (.error p m.nestText :: stack)             -- the child's `self.error` = `self.irc.error`
          else
            let id := c.heap.length
            match l with
            | [] =>
              let child : Proxy := ⟨some p, P.path ++ [i], P.nested + 1, [], 0, true, false⟩
              put { c with heap := c.heap ++ [child] }
                (.body id [] (m.inv c.msgReplied (P.nested + 1) []).toBody.acts (m.inv c.msgReplied (P.nested + 1) []).toBody.final .invalid :: stack)
            | _ =>
              let child : Proxy := ⟨some p, P.path ++ [i], P.nested + 1, indexArgs l, 0, false, false⟩
              put { c with heap := c.heap ++ [child] } (.evalArgs id :: stack)
        | none =>
          -- finalEval
          if P.finalEvaled then raise c m.assertText
          else
            let c := { c with heap := setProxy c.heap p fun x => { x with finalEvaled := true } }
            let strs := strsOf P.args
            match m.disp strs with
            | .exc _ => raise c m.ev.indexErrorText
            | .none =>
              let b := (m.inv c.msgReplied P.nested strs).toBody
              put c (.body p strs b.acts b.final .invalid :: stack)
            | .ambiguous cmd names => put c (.error p (m.ambigText cmd names) :: stack)
            | .run _ plugin cmd rest =>
              let c := { c with log := c.log ++ [⟨P.path, plugin, cmd, rest⟩] }
              let b := m.beh plugin cmd rest
              if m.threaded plugin && tid == 0 then
                { put c stack with threads := (put c stack).threads ++ [[.body p cmd b.acts b.final .command]] }
              else put c (.body p cmd b.acts b.final .command :: stack)
    | .body p cmd (a :: acts) fin k =>
      let stack' := Frame.body p cmd acts fin k :: stack
      match a with
      | .reply s => put c (.reply p s :: stack')
      | .noReply => put c (.noReply p :: stack')
      | .error s => put c (.error p s :: stack')
      | .tag => put { c with ignored := true } stack'
      | .send s => put { c with out := c.out ++ [.sent s] } stack'
    | .body p cmd [] fin k =>
      match fin, k with
      | some .silent, .command => put c stack
      | some (.error s), .command => put c (.body p cmd [.error s] none .handler :: stack)
      | some .argument, .command => put c (.body p cmd [.reply (m.ev.help cmd)] none .handler :: stack)
      | some (.other d), .command =>
        put c (.body p cmd (if m.ev.detailed then [.error d] else [.reply m.ev.errorText]) none .handler :: stack)
      | some (.error s), .invalid => put c (.body p cmd [.error s] none .invalid :: stack)   -- `except Error as e: self.error(str(e))`
      | _, _ => put c stack
    | .reply p s =>
      match c.heap[p]? with
      | none => put c stack
      | some P =>
        let c := { c with heap := setProxy c.heap p fun x => { x with repliedTo := true } }
        if P.finalEvaled then
          match P.parent with
          | some q => put c (.reply q (s.take m.ev.maxLen) :: stack)
          | none => put { c with out := c.out ++ [.reply s], msgReplied := true } stack
        else if c.ignored then
          put { c with ignored := false, heap := setProxy c.heap p fun x => { x with args := popAt x.args x.counter } }
            (.evalArgs p :: stack)
        else
          put { c with heap := setProxy c.heap p fun x => { x with args := setAt x.args x.counter (.str s) } }
            (.evalArgs p :: stack)
    | .noReply p =>
      match c.heap[p]? with
      | none => put c stack
      | some P =>
        let c := { c with heap := setProxy c.heap p fun x => { x with repliedTo := true } }
        if P.finalEvaled then
          match P.parent with
          | some q => put c (.noReply q :: stack)
          | none => put { c with ignored := true } stack
        else
          put { c with ignored := false, heap := setProxy c.heap p fun x => { x with args := popAt x.args x.counter } }
            (.evalArgs p :: stack)
    | .error p s =>
      match c.heap[p]? with
      | none => put c stack
      | some P =>
        let c := { c with heap := setProxy c.heap p fun x => { x with repliedTo := true } }
        match P.parent with
        | some q => put c (.error q s :: stack)
        | none => put (if s.isEmpty then c else { c with out := c.out ++ [.error s], msgReplied := true }) stack

/-- `NestedCommandsIrcProxy(irc, msg, args)` for the top-level proxy -/
def initConfig (m : MCfg) (args : List Arg) (ignored0 : Bool) : Config :=
  match args with
  | [] =>
    let b := (m.inv false 0 []).toBody
    ⟨[⟨none, [], 0, [], 0, true, false⟩], [[.body 0 [] b.acts b.final .invalid]], [], [], ignored0, false, []⟩
  | _ => ⟨[⟨none, [], 0, indexArgs args, 0, false, false⟩], [[.evalArgs 0]], [], [], ignored0, false, []⟩

/-- run under a schedule: at each tick the scheduler names a thread (a tick for a finished thread is wasted) -/
def run (m : MCfg) : List Nat → Config → Config
  | [], c => c
  | tid :: sched, c => run m sched (step m c tid)

/-- the scheduler "first thread that has something to do", for `fuel` ticks -/
def runFirst (m : MCfg) : Nat → Config → Config
  | 0, c => c
  | n + 1, c =>
    match c.threads.findIdx? (fun st => !st.isEmpty) with
    | none => c
    | some tid => runFirst m n (step m c tid)

end C14
