/-
C14 — helper lemmas: what the evaluator adds to the call log (post-order invariant, depth).
-/
import LimnoriaModel.C14.Model
namespace C14
open Py

/-- paths of all sub-lists among the items (first item has index `i`), left-to-right post-order -/
def postPaths (path : List Nat) : Nat → List Arg → List (List Nat)
  | _, [] => []
  | i, .str _ :: rest => postPaths path (i + 1) rest
  | i, .sub l :: rest => postPaths (path ++ [i]) 0 l ++ [path ++ [i]] ++ postPaths path (i + 1) rest

/-- bracket depth below a list of items -/
def depthL : List Arg → Nat
  | [] => 0
  | .str _ :: rest => depthL rest
  | .sub l :: rest => max (depthL l + 1) (depthL rest)

def Outcome.isStopped : Outcome → Prop
  | .stopped _ => True
  | _ => False

theorem perform_log (cfg : EvCfg) (nested : Nat) (command : List Str) (a : Act) (st : St) :
    (perform cfg nested command a st).2.log = st.log := by
  unfold perform
  cases a.tag <;> simp only <;> (split <;> (try split) <;> rfl)

/-- the abstract dispatch function raises nothing, and an unknown command always ends the evaluation
(as with `supybot.reply.whenNotCommand` on: an error; no `invalidCommand` handler answers in its place) -/
def NoExc (cfg : EvCfg) (disp : List Str → Dispatch) (inv : Nat → List Str → Act) : Prop :=
  (∀ a e, disp a ≠ .exc e) ∧ ∀ n a st, (performInvalid cfg n a (inv n a) st).1.isStopped

theorem finalEval_spec (cfg : EvCfg) (disp : List Str → Dispatch) (beh : Str → List Str → List Str → Act) (inv : Nat → List Str → Act)
    (nested : Nat) (path : List Nat) (done : List Str) (st : St) :
    ∃ l, (finalEval cfg disp beh inv nested path done st).2.log = st.log ++ l ∧
      (l = [] ∨ ∃ c, l = [c] ∧ c.path = path) ∧
      (NoExc cfg disp inv → ¬ (finalEval cfg disp beh inv nested path done st).1.isStopped → ∃ c, l = [c] ∧ c.path = path) := by
  unfold finalEval
  cases h : disp done with
  | exc e =>
    refine ⟨[], ?_, Or.inl rfl, fun hne => absurd h (hne.1 _ _)⟩
    simp only; split <;> (try split) <;> simp
  | none => exact ⟨[], by simp [performInvalid, perform_log], Or.inl rfl, fun hne hs => absurd (hne.2 nested done st) hs⟩
  | ambiguous c names => exact ⟨[], by simp, Or.inl rfl, fun _ hs => absurd trivial hs⟩
  | run idx plugin command rest =>
    refine ⟨[⟨path, plugin, command, rest⟩], ?_, Or.inr ⟨_, rfl, rfl⟩, fun _ _ => ⟨_, rfl, rfl⟩⟩
    simp only [perform_log]

/-- everything the evaluator guarantees about the calls it adds to the log -/
def Inv (cfg : EvCfg) (disp : List Str → Dispatch) (inv : Nat → List Str → Act) (nested : Nat) (path : List Nat) (i : Nat)
    (todo : List Arg) (st : St) (r : Outcome × St) : Prop :=
  ∃ l, r.2.log = st.log ++ l ∧
    (l.map (·.path)).Sublist (postPaths path i todo ++ [path]) ∧
    (NoExc cfg disp inv → (l.map (·.path)) <+: (postPaths path i todo ++ [path]) ∧
      (¬ r.1.isStopped → l.map (·.path) = postPaths path i todo ++ [path])) ∧
    (cfg.maxNesting ≠ 0 → nested + depthL todo > cfg.maxNesting → r.1.isStopped) ∧
    (∀ c ∈ l, cfg.maxNesting ≠ 0 → c.path.length + nested ≤ cfg.maxNesting + path.length)

theorem evalArgs_sub (cfg : EvCfg) (disp : List Str → Dispatch) (beh : Str → List Str → List Str → Act) (inv : Nat → List Str → Act)
    (nested : Nat) (path : List Nat) (done : List Str) (i : Nat) (l rest : List Arg) (st : St) :
    evalArgs cfg disp beh inv nested path done i (.sub l :: rest) st =
      (match (if cfg.maxNesting ≠ 0 ∧ nested + 1 > cfg.maxNesting then ((.stopped .tooDeep, st) : Outcome × St)
              else match l with
                | [] => performInvalid cfg (nested + 1) [] (inv (nested + 1) []) st
                | a :: l' => evalArgs cfg disp beh inv (nested + 1) (path ++ [i]) [] 0 (a :: l') st) with
       | (.replied s, st') =>
         if st'.ignored then evalArgs cfg disp beh inv nested path done (i + 1) rest { st' with ignored := false }
         else evalArgs cfg disp beh inv nested path (done ++ [s.take cfg.maxLen]) (i + 1) rest st'
       | (.noReply, st') => evalArgs cfg disp beh inv nested path done (i + 1) rest { st' with ignored := false }
       | (.stopped w, st') => (.stopped w, st')) := by
  conv => lhs; unfold evalArgs
  rfl

theorem inv_stop (cfg : EvCfg) (disp : List Str → Dispatch) (inv : Nat → List Str → Act) (nested : Nat) (path : List Nat) (i : Nat)
    (todo : List Arg) (st : St) (w : Stop) : Inv cfg disp inv nested path i todo st (.stopped w, st) :=
  ⟨[], by simp, by simp, fun _ => ⟨by simp, fun h => absurd trivial h⟩, fun _ _ => trivial, by simp⟩

theorem inv_child_stop {cfg : EvCfg} {disp : List Str → Dispatch} {inv : Nat → List Str → Act} {nested : Nat} {path : List Nat} {i : Nat}
    {l rest : List Arg} {st st' : St} {w : Stop}
    (hc : Inv cfg disp inv (nested + 1) (path ++ [i]) 0 l st (.stopped w, st')) :
    Inv cfg disp inv nested path i (.sub l :: rest) st (.stopped w, st') := by
  obtain ⟨lc, h1, h2, h3, _, h5⟩ := hc
  refine ⟨lc, h1, ?_, ?_, fun _ _ => trivial, ?_⟩
  · simp only [postPaths, List.append_assoc]
    rw [← List.append_assoc]
    exact h2.trans (List.sublist_append_left _ _)
  · intro hne
    refine ⟨?_, fun h => absurd trivial h⟩
    simp only [postPaths, List.append_assoc]
    rw [← List.append_assoc]
    exact (h3 hne).1.trans (List.prefix_append _ _)
  · intro c hcm h0
    have := h5 c hcm h0
    simp at this; omega

theorem inv_seq {cfg : EvCfg} {disp : List Str → Dispatch} {inv : Nat → List Str → Act} {nested : Nat} {path : List Nat} {i : Nat}
    {l rest : List Arg} {st st' st'' : St} {o : Outcome} {r : Outcome × St}
    (hc : Inv cfg disp inv (nested + 1) (path ++ [i]) 0 l st (o, st')) (ho : ¬ o.isStopped)
    (hlog : st''.log = st'.log)
    (hr : Inv cfg disp inv nested path (i + 1) rest st'' r) :
    Inv cfg disp inv nested path i (.sub l :: rest) st r := by
  obtain ⟨lc, c1, c2, c3, c4, c5⟩ := hc
  obtain ⟨lr, r1, r2, r3, r4, r5⟩ := hr
  refine ⟨lc ++ lr, ?_, ?_, ?_, ?_, ?_⟩
  · rw [r1, hlog]; simp only at c1; rw [c1, List.append_assoc]
  · simp only [postPaths, List.append_assoc, List.map_append]
    rw [← List.append_assoc]
    exact List.Sublist.append c2 r2
  · intro hne
    have hfull := (c3 hne).2 ho
    simp only [postPaths, List.append_assoc, List.map_append]
    rw [← List.append_assoc, hfull]
    refine ⟨(List.prefix_append_right_inj _).2 (r3 hne).1, fun hs => ?_⟩
    rw [(r3 hne).2 hs]
  · intro h0 hd
    simp only [depthL] at hd
    by_cases hcd : nested + 1 + depthL l > cfg.maxNesting
    · exact absurd (c4 h0 hcd) ho
    · exact r4 h0 (by omega)
  · intro c hcm h0
    rcases List.mem_append.1 hcm with h | h
    · have := c5 c h h0; simp at this; omega
    · exact r5 c h h0

theorem evalArgs_inv (cfg : EvCfg) (disp : List Str → Dispatch) (beh : Str → List Str → List Str → Act) (inv : Nat → List Str → Act) :
    (todo : List Arg) → ∀ (nested : Nat) (path : List Nat) (done : List Str) (i : Nat) (st : St),
      (cfg.maxNesting ≠ 0 → nested ≤ cfg.maxNesting) →
      Inv cfg disp inv nested path i todo st (evalArgs cfg disp beh inv nested path done i todo st)
  | [], nested, path, done, i, st, hn => by
    rw [evalArgs]
    obtain ⟨l, h1, h2, h3⟩ := finalEval_spec cfg disp beh inv nested path done st
    refine ⟨l, h1, ?_, ?_, ?_, ?_⟩
    · rcases h2 with rfl | ⟨c, rfl, hc⟩
      · simp
      · simp [postPaths, hc]
    · intro hne
      refine ⟨?_, fun hs => ?_⟩
      · rcases h2 with rfl | ⟨c, rfl, hc⟩
        · simp
        · simp [postPaths, hc]
      · obtain ⟨c, rfl, hc⟩ := h3 hne hs; simp [postPaths, hc]
    · intro h0 hd; simp [depthL] at hd; have := hn h0; omega
    · intro c hc h0
      rcases h2 with rfl | ⟨c', rfl, hc'⟩
      · simp at hc
      · simp at hc; subst hc; rw [hc']; have := hn h0; omega
  | .str s :: rest, nested, path, done, i, st, hn => by
    rw [evalArgs]
    have := evalArgs_inv cfg disp beh inv rest nested path (done ++ [s]) (i + 1) st hn
    simpa only [Inv, postPaths, depthL] using this
  | .sub l :: rest, nested, path, done, i, st, hn => by
    rw [evalArgs_sub]
    by_cases hdeep : cfg.maxNesting ≠ 0 ∧ nested + 1 > cfg.maxNesting
    · rw [if_pos hdeep]; exact inv_stop cfg disp inv nested path i _ st _
    · rw [if_neg hdeep]
      cases l with
      | nil =>
        -- an empty bracket pair: the invalidCommand handlers get the child proxy; no command runs for it
        have ihc : Inv cfg disp inv (nested + 1) (path ++ [i]) 0 [] st
            (performInvalid cfg (nested + 1) [] (inv (nested + 1) []) st) :=
          ⟨[], by simp [performInvalid, perform_log], by simp, fun hne => ⟨by simp, fun hs => absurd (hne.2 _ _ _) hs⟩,
            fun h0 hd => by
              have : ¬ (nested + 1 > cfg.maxNesting) := fun hc => hdeep ⟨h0, hc⟩
              simp [depthL] at hd; omega,
            by simp⟩
        simp only
        generalize performInvalid cfg (nested + 1) [] (inv (nested + 1) []) st = rc at ihc
        obtain ⟨o, st'⟩ := rc
        cases o with
        | stopped w => exact inv_child_stop ihc
        | noReply =>
          exact inv_seq ihc (fun h => h) rfl
            (evalArgs_inv cfg disp beh inv rest nested path done (i + 1) { st' with ignored := false } hn)
        | replied s =>
          simp only
          split
          · exact inv_seq ihc (fun h => h) rfl
              (evalArgs_inv cfg disp beh inv rest nested path done (i + 1) { st' with ignored := false } hn)
          · exact inv_seq ihc (fun h => h) rfl
              (evalArgs_inv cfg disp beh inv rest nested path (done ++ [s.take cfg.maxLen]) (i + 1) st' hn)
      | cons a l' =>
        have hn' : cfg.maxNesting ≠ 0 → nested + 1 ≤ cfg.maxNesting := by
          intro h0; have : ¬ (nested + 1 > cfg.maxNesting) := fun hc => hdeep ⟨h0, hc⟩; omega
        have ihc := evalArgs_inv cfg disp beh inv (a :: l') (nested + 1) (path ++ [i]) [] 0 st hn'
        simp only
        generalize evalArgs cfg disp beh inv (nested + 1) (path ++ [i]) [] 0 (a :: l') st = rc at ihc
        obtain ⟨o, st'⟩ := rc
        cases o with
        | stopped w => exact inv_child_stop ihc
        | noReply =>
          exact inv_seq ihc (fun h => h) rfl
            (evalArgs_inv cfg disp beh inv rest nested path done (i + 1) { st' with ignored := false } hn)
        | replied s =>
          simp only
          split
          · exact inv_seq ihc (fun h => h) rfl
              (evalArgs_inv cfg disp beh inv rest nested path done (i + 1) { st' with ignored := false } hn)
          · exact inv_seq ihc (fun h => h) rfl
              (evalArgs_inv cfg disp beh inv rest nested path (done ++ [s.take cfg.maxLen]) (i + 1) st' hn)

/-! ### the post-order paths are pairwise distinct -/

/-- `p` lies below position `≥ i` of the list at `path` -/
def Below (path : List Nat) (i : Nat) (p : List Nat) : Prop := ∃ j t, i ≤ j ∧ p = path ++ j :: t

theorem postPaths_below : (todo : List Arg) → ∀ (path : List Nat) (i : Nat) (p : List Nat),
    p ∈ postPaths path i todo → Below path i p
  | [], _, _, _, h => by simp [postPaths] at h
  | .str _ :: rest, path, i, p, h => by
    simp only [postPaths] at h
    obtain ⟨j, t, hj, rfl⟩ := postPaths_below rest path (i + 1) p h
    exact ⟨j, t, by omega, rfl⟩
  | .sub l :: rest, path, i, p, h => by
    simp only [postPaths, List.mem_append, List.mem_singleton] at h
    rcases h with (h | h) | h
    · obtain ⟨j, t, _, rfl⟩ := postPaths_below l (path ++ [i]) 0 p h
      exact ⟨i, j :: t, Nat.le_refl _, by simp⟩
    · exact ⟨i, [], Nat.le_refl _, by simp [h]⟩
    · obtain ⟨j, t, hj, rfl⟩ := postPaths_below rest path (i + 1) p h
      exact ⟨j, t, by omega, rfl⟩

theorem below_ne {path : List Nat} {i : Nat} {t : List Nat} {p : List Nat} (h : Below path (i + 1) p) :
    p ≠ path ++ i :: t := by
  obtain ⟨k, u, hk, rfl⟩ := h
  intro e
  have := List.append_cancel_left e
  simp at this
  omega

theorem postPaths_nodup : (todo : List Arg) → ∀ (path : List Nat) (i : Nat), (postPaths path i todo).Nodup
  | [], _, _ => by simp [postPaths]
  | .str _ :: rest, path, i => by simp only [postPaths]; exact postPaths_nodup rest path (i + 1)
  | .sub l :: rest, path, i => by
    simp only [postPaths]
    rw [List.nodup_append, List.nodup_append]
    refine ⟨⟨postPaths_nodup l _ 0, by simp, ?_⟩, postPaths_nodup rest path (i + 1), ?_⟩
    · intro a ha b hb
      simp at hb; subst hb
      obtain ⟨j, t, _, rfl⟩ := postPaths_below l (path ++ [i]) 0 a ha
      intro e
      have := congrArg List.length e
      simp at this
    · intro a ha b hb
      have hb' := postPaths_below rest path (i + 1) b hb
      simp only [List.mem_append, List.mem_singleton] at ha
      rcases ha with ha | ha
      · obtain ⟨j, t, _, rfl⟩ := postPaths_below l (path ++ [i]) 0 a ha
        intro e
        exact below_ne (i := i) (t := j :: t) hb' (by rw [← e]; simp)
      · subst ha
        intro e
        exact below_ne (i := i) (t := []) hb' (by rw [← e])

/-! ### the reference semantics when every command replies: function application -/

/-- reply text of the command that `disp` selects for the evaluated arguments `a` -/
def textOf (disp : List Str → Dispatch) (beh : Str → List Str → List Str → Act) (a : List Str) : Str :=
  match disp a with
  | .run _ p c r => (match (beh p c r).b with | .reply s => s | _ => [])
  | _ => []

/-- the log entry of that call -/
def callOf (disp : List Str → Dispatch) (path : List Nat) (a : List Str) : Call :=
  match disp a with
  | .run _ p c r => ⟨path, p, c, r⟩
  | _ => ⟨path, [], [], []⟩

/-- the items with every sub-command replaced by (the first `maxLen` characters of) its reply text -/
def values (cfg : EvCfg) (disp : List Str → Dispatch) (beh : Str → List Str → List Str → Act) : List Arg → List Str
  | [] => []
  | .str s :: rest => s :: values cfg disp beh rest
  | .sub l :: rest => (textOf disp beh (values cfg disp beh l)).take cfg.maxLen :: values cfg disp beh rest

/-- calls made for the sub-commands among the items, in post-order, each with its evaluated arguments -/
def refCalls (cfg : EvCfg) (disp : List Str → Dispatch) (beh : Str → List Str → List Str → Act)
    (path : List Nat) : Nat → List Arg → List Call
  | _, [] => []
  | i, .str _ :: rest => refCalls cfg disp beh path (i + 1) rest
  | i, .sub l :: rest =>
    refCalls cfg disp beh (path ++ [i]) 0 l ++ [callOf disp (path ++ [i]) (values cfg disp beh l)] ++
      refCalls cfg disp beh path (i + 1) rest

/-- no empty bracket pair anywhere -/
def NoEmpty : List Arg → Prop
  | [] => True
  | .str _ :: rest => NoEmpty rest
  | .sub l :: rest => l ≠ [] ∧ NoEmpty l ∧ NoEmpty rest

/-- every evaluated argument list is dispatched to exactly one plugin whose command replies (once) -/
def AllReply (disp : List Str → Dispatch) (beh : Str → List Str → List Str → Act) : Prop :=
  ∀ a, ∃ idx p c r s, disp a = .run idx p c r ∧ beh p c r = ⟨false, .reply s⟩

theorem finalEval_reply {cfg : EvCfg} {disp : List Str → Dispatch} {beh : Str → List Str → List Str → Act} {inv : Nat → List Str → Act}
    (hall : AllReply disp beh) (nested : Nat) (path : List Nat) (done : List Str) (log : List Call) :
    finalEval cfg disp beh inv nested path done ⟨log, false, false⟩ =
      (.replied (textOf disp beh done), ⟨log ++ [callOf disp path done], false, false⟩) := by
  obtain ⟨idx, p, c, r, s, h1, h2⟩ := hall done
  simp [finalEval, textOf, callOf, h1, h2, perform]

theorem evalArgs_reply {cfg : EvCfg} {disp : List Str → Dispatch} {beh : Str → List Str → List Str → Act} {inv : Nat → List Str → Act}
    (hall : AllReply disp beh) :
    (todo : List Arg) → ∀ (nested : Nat) (path : List Nat) (done : List Str) (i : Nat) (log : List Call),
      NoEmpty todo → (cfg.maxNesting ≠ 0 → nested + depthL todo ≤ cfg.maxNesting) →
      evalArgs cfg disp beh inv nested path done i todo ⟨log, false, false⟩ =
        (.replied (textOf disp beh (done ++ values cfg disp beh todo)),
         ⟨log ++ refCalls cfg disp beh path i todo ++ [callOf disp path (done ++ values cfg disp beh todo)], false, false⟩)
  | [], nested, path, done, i, log, _, _ => by
    rw [evalArgs, finalEval_reply hall]
    simp [values, refCalls]
  | .str s :: rest, nested, path, done, i, log, hne, hd => by
    have hne' : NoEmpty rest := by simpa only [NoEmpty] using hne
    rw [evalArgs, evalArgs_reply hall rest nested path (done ++ [s]) (i + 1) log hne' (by simpa only [depthL] using hd)]
    simp [values, refCalls]
  | .sub l :: rest, nested, path, done, i, log, hne, hd => by
    obtain ⟨hl, hnl, hnr⟩ : l ≠ [] ∧ NoEmpty l ∧ NoEmpty rest := by simpa only [NoEmpty] using hne
    have hdeep : ¬ (cfg.maxNesting ≠ 0 ∧ nested + 1 > cfg.maxNesting) := by
      intro ⟨h0, h1⟩; have := hd h0; simp [depthL] at this; omega
    rw [evalArgs_sub, if_neg hdeep]
    cases l with
    | nil => exact absurd rfl hl
    | cons a l' =>
      simp only
      rw [evalArgs_reply hall (a :: l') (nested + 1) (path ++ [i]) [] 0 log hnl
        (by intro h0; have := hd h0; simp [depthL] at this; omega)]
      simp only [Bool.false_eq_true, if_false, List.nil_append]
      rw [evalArgs_reply hall rest nested path _ (i + 1) _ hnr
        (by intro h0; have := hd h0; simp [depthL] at this; omega)]
      simp [values, refCalls, List.append_assoc]

/-- when every command replies and no bracket pair is empty, the only way to stop is the nesting limit -/
theorem evalArgs_reply_or_deep {cfg : EvCfg} {disp : List Str → Dispatch} {beh : Str → List Str → List Str → Act} {inv : Nat → List Str → Act}
    (hall : AllReply disp beh) :
    (todo : List Arg) → ∀ (nested : Nat) (path : List Nat) (done : List Str) (i : Nat) (log : List Call),
      NoEmpty todo →
      (∃ s log', evalArgs cfg disp beh inv nested path done i todo ⟨log, false, false⟩ = (.replied s, ⟨log', false, false⟩)) ∨
      (∃ st', evalArgs cfg disp beh inv nested path done i todo ⟨log, false, false⟩ = (.stopped .tooDeep, st'))
  | [], nested, path, done, i, log, _ => by
    rw [evalArgs, finalEval_reply hall]; exact Or.inl ⟨_, _, rfl⟩
  | .str s :: rest, nested, path, done, i, log, hne => by
    rw [evalArgs]
    exact evalArgs_reply_or_deep hall rest nested path (done ++ [s]) (i + 1) log (by simpa only [NoEmpty] using hne)
  | .sub l :: rest, nested, path, done, i, log, hne => by
    obtain ⟨hl, hnl, hnr⟩ : l ≠ [] ∧ NoEmpty l ∧ NoEmpty rest := by simpa only [NoEmpty] using hne
    rw [evalArgs_sub]
    by_cases hdeep : cfg.maxNesting ≠ 0 ∧ nested + 1 > cfg.maxNesting
    · rw [if_pos hdeep]; exact Or.inr ⟨_, rfl⟩
    · rw [if_neg hdeep]
      cases l with
      | nil => exact absurd rfl hl
      | cons a l' =>
        simp only
        rcases evalArgs_reply_or_deep hall (a :: l') (nested + 1) (path ++ [i]) [] 0 log hnl with
          ⟨s, log', h⟩ | ⟨st', h⟩
        · rw [h]
          simp only [Bool.false_eq_true, if_false]
          exact evalArgs_reply_or_deep hall rest nested path _ (i + 1) log' hnr
        · rw [h]; exact Or.inr ⟨_, rfl⟩

/-! ### `getCommand` -/

theorem getCommandSubs_none (d : Disabled) : ∀ (subs : List Plugin) (first : Str) (args : List Str),
    (∀ S ∈ subs, first ≠ canonicalName S.name) → getCommandSubs d subs first args = none
  | [], _, _, _ => by rw [getCommandSubs]
  | S :: subs, first, args, h => by
    rw [getCommandSubs, if_neg (h S (by simp))]
    exact getCommandSubs_none d subs first args fun T hT => h T (by simp [hT])

theorem getCommand_cons (d : Disabled) (name : Str) (methods : List Str) (subs : List Plugin) (thr : Bool)
    (first : Str) (rest : List Str) :
    getCommand d (.mk name methods subs thr) (first :: rest) =
      (match getCommandSubs d subs first (first :: rest) with
       | some r => r
       | none =>
         if first = canonicalName name ∧ rest ≠ [] then
           (match (match rest with
                   | [] => (.ok [] : Except GErr (List Str))
                   | first' :: _ =>
                     match getCommandSubs d subs first' rest with
                     | some r => r
                     | none => .ok (if isCmd d name methods first' then [first'] else [])) with
            | .error e => .error e
            | .ok [] => .ok (if isCmd d name methods first then [first] else [])
            | .ok (r :: rs) => .ok (first :: r :: rs))
         else .ok (if isCmd d name methods first then [first] else [])) := by
  conv => lhs; unfold getCommand
  rfl

/-- `c` is an enabled command method of the plugin or of one of its (nested) command groups -/
inductive Owns (d : Disabled) : Plugin → Str → Prop
  | self (P : Plugin) (c : Str) : isCmd d P.name P.methods c = true → Owns d P c
  | sub (P Q : Plugin) (c : Str) : Q ∈ P.subs → Owns d Q c → Owns d P c

mutual
theorem getCommand_spec (d : Disabled) : (P : Plugin) → ∀ (args L : List Str), getCommand d P args = .ok L →
    L <+: args ∧ ∀ c, L.getLast? = some c → Owns d P c
  | .mk name methods subs thr, args, L, h => by
    cases args with
    | nil => simp [getCommand] at h
    | cons first rest =>
      rw [getCommand_cons] at h
      cases hs : getCommandSubs d subs first (first :: rest) with
      | some r =>
        rw [hs] at h
        simp only at h
        obtain ⟨Q, hQ, hp, ho⟩ := getCommandSubs_spec d subs first (first :: rest) r hs L h
        exact ⟨hp, fun c hc => .sub _ Q c hQ (ho c hc)⟩
      | none =>
        rw [hs] at h
        simp only at h
        have hown : ∀ L', (if isCmd d name methods first = true then [first] else []) = L' →
            L' <+: first :: rest ∧ ∀ c, L'.getLast? = some c → Owns d (.mk name methods subs thr) c := by
          intro L' hL'
          by_cases hc : isCmd d name methods first = true
          · rw [if_pos hc] at hL'; subst hL'
            refine ⟨by simp, fun c hcl => ?_⟩
            simp at hcl; subst hcl
            exact .self _ _ hc
          · rw [if_neg hc] at hL'; subst hL'
            exact ⟨by simp, fun c hcl => by simp at hcl⟩
        by_cases hname : first = canonicalName name ∧ rest ≠ []
        · rw [if_pos hname] at h
          cases rest with
          | nil => exact absurd rfl hname.2
          | cons first' rest' =>
            simp only at h
            cases hs2 : getCommandSubs d subs first' (first' :: rest') with
            | some r =>
              rw [hs2] at h
              simp only at h
              cases r with
              | error e => simp at h
              | ok R =>
                obtain ⟨Q, hQ, hp, ho⟩ := getCommandSubs_spec d subs first' (first' :: rest') (.ok R) hs2 R rfl
                cases R with
                | nil => simp only at h; injection h with h; exact hown L h
                | cons r0 rs =>
                  simp only at h; injection h with h; subst h
                  refine ⟨by simpa using hp, fun c hc => ?_⟩
                  have : (r0 :: rs).getLast? = some c := by simpa [List.getLast?_cons_cons] using hc
                  exact .sub _ Q c hQ (ho c this)
            | none =>
              rw [hs2] at h
              simp only at h
              by_cases hc2 : isCmd d name methods first' = true
              · rw [if_pos hc2] at h
                simp only at h; injection h with h; subst h
                refine ⟨by simp, fun c hc => ?_⟩
                simp at hc; subst hc
                exact .self _ _ hc2
              · rw [if_neg hc2] at h
                simp only at h; injection h with h; exact hown L h
        · rw [if_neg hname] at h
          injection h with h; exact hown L h
theorem getCommandSubs_spec (d : Disabled) : (subs : List Plugin) → ∀ (first : Str) (args : List Str)
    (r : Except GErr (List Str)), getCommandSubs d subs first args = some r → ∀ L, r = .ok L →
    ∃ Q ∈ subs, L <+: args ∧ ∀ c, L.getLast? = some c → Owns d Q c
  | [], _, _, _, h, _, _ => by simp [getCommandSubs] at h
  | S :: subs, first, args, r, h, L, hL => by
    rw [getCommandSubs] at h
    by_cases hf : first = canonicalName S.name
    · rw [if_pos hf] at h
      injection h with h
      subst hL
      obtain ⟨hp, ho⟩ := getCommand_spec d S args L h
      exact ⟨S, by simp, hp, ho⟩
    · rw [if_neg hf] at h
      obtain ⟨Q, hQ, hp⟩ := getCommandSubs_spec d subs first args r h L hL
      exact ⟨Q, by simp [hQ], hp⟩
end

/-! ### `findCallbacksForArgs`: a plugin-qualified command -/

/-- a plugin other than the addressed one: not called `p`, and no command group called `p` -/
def Foreign (Q : Plugin) (p : Str) : Prop :=
  p ≠ canonicalName Q.name ∧ ∀ S ∈ Q.subs, p ≠ canonicalName S.name

theorem getCommand_foreign (d : Disabled) (Q : Plugin) (p : Str) (rest : List Str) (h : Foreign Q p) :
    ∃ L, getCommand d Q (p :: rest) = .ok L ∧ L.length ≤ 1 := by
  obtain ⟨name, methods, subs, thr⟩ := Q
  rw [getCommand_cons, getCommandSubs_none d subs p _ h.2]
  simp only
  rw [if_neg (fun hh => h.1 hh.1)]
  refine ⟨_, rfl, ?_⟩
  split <;> simp

/-- the addressed plugin: called `p`, has the enabled command `c`, no group called `p` or `c` -/
def Addressed (d : Disabled) (P : Plugin) (p c : Str) : Prop :=
  p = canonicalName P.name ∧ isCmd d P.name P.methods c = true ∧
  ∀ S ∈ P.subs, p ≠ canonicalName S.name ∧ c ≠ canonicalName S.name

theorem getCommand_addressed (d : Disabled) (P : Plugin) (p c : Str) (rest : List Str) (h : Addressed d P p c) :
    getCommand d P (p :: c :: rest) = .ok [p, c] := by
  obtain ⟨name, methods, subs, thr⟩ := P
  obtain ⟨hp, hc, hs⟩ := h
  rw [getCommand_cons, getCommandSubs_none d subs p _ fun S hS => (hs S hS).1]
  simp only
  rw [if_pos ⟨hp, by simp⟩]
  rw [getCommandSubs_none d subs c _ fun S hS => (hs S hS).2]
  simp only [Plugin.name, Plugin.methods] at hc
  simp [hc]

theorem scan_short (d : Disabled) (args : List Str) : ∀ (cbs : List Plugin) (i : Nat) (maxL : List Str)
    (acc : List (Nat × List Str)), 2 ≤ maxL.length →
    (∀ Q ∈ cbs, ∃ L, getCommand d Q args = .ok L ∧ L.length ≤ 1) →
    scan d args cbs i maxL acc = .ok (maxL, acc)
  | [], _, _, _, _, _ => by rw [scan]
  | Q :: cbs, i, maxL, acc, hm, h => by
    obtain ⟨L, hL, hlen⟩ := h Q (by simp)
    rw [scan, hL]
    simp only
    rw [if_neg (by intro hh; omega)]
    exact scan_short d args cbs (i + 1) maxL acc hm fun R hR => h R (by simp [hR])

theorem scan_pre (d : Disabled) (args : List Str) : ∀ (pre tail : List Plugin) (i : Nat) (maxL : List Str)
    (acc : List (Nat × List Str)), maxL.length ≤ 1 → (∀ e ∈ acc, e.2.length ≤ 1) →
    (∀ Q ∈ pre, ∃ L, getCommand d Q args = .ok L ∧ L.length ≤ 1) →
    ∃ maxL' acc', scan d args (pre ++ tail) i maxL acc = scan d args tail (i + pre.length) maxL' acc' ∧
      maxL'.length ≤ 1 ∧ ∀ e ∈ acc', e.2.length ≤ 1
  | [], tail, i, maxL, acc, hm, ha, _ => ⟨maxL, acc, by simp, hm, ha⟩
  | Q :: pre, tail, i, maxL, acc, hm, ha, h => by
    obtain ⟨L, hL, hlen⟩ := h Q (by simp)
    rw [List.cons_append, scan, hL]
    simp only
    split
    · obtain ⟨m', a', h1, h2, h3⟩ := scan_pre d args pre tail (i + 1) L (acc ++ [(i, L)]) hlen
        (by intro e he; rcases List.mem_append.1 he with he | he
            · exact ha e he
            · simp at he; subst he; exact hlen)
        (fun R hR => h R (by simp [hR]))
      exact ⟨m', a', by rw [h1]; simp [Nat.add_assoc, Nat.add_comm 1], h2, h3⟩
    · obtain ⟨m', a', h1, h2, h3⟩ := scan_pre d args pre tail (i + 1) maxL acc hm ha
        (fun R hR => h R (by simp [hR]))
      exact ⟨m', a', by rw [h1]; simp [Nat.add_assoc, Nat.add_comm 1], h2, h3⟩

/-- the setting of "a plugin-qualified name": the callbacks are `pre ++ P :: post`, `P` is addressed,
every other callback is foreign -/
theorem findCallbacks_qualified (c : DispCfg) (pre post : List Plugin) (P : Plugin) (p cmd : Str)
    (rest0 args0 : List Str) (hcb : c.callbacks = pre ++ P :: post)
    (hargs : args0.map canonicalName = p :: cmd :: rest0)
    (hP : Addressed c.disabled P p cmd) (hQ : ∀ Q ∈ pre ++ post, Foreign Q p) :
    findCallbacks c args0 = .ok ([p, cmd], [pre.length]) := by
  unfold findCallbacks
  simp only [hargs, hcb]
  obtain ⟨m', a', h1, h2, h3⟩ := scan_pre c.disabled (p :: cmd :: rest0) pre (P :: post) 0 [] [] (by simp) (by simp)
    (fun Q hQm => getCommand_foreign _ Q p _ (hQ Q (by simp [hQm])))
  rw [h1, scan, getCommand_addressed _ P p cmd rest0 hP]
  simp only
  rw [if_pos ⟨by simp, by simp only [List.length_cons, List.length_nil]; omega⟩]
  rw [scan_short c.disabled _ post _ _ _ (by simp)
    (fun Q hQm => getCommand_foreign _ Q p _ (hQ Q (by simp [hQm])))]
  simp only
  have hf : (List.filter (fun p_1 => decide (p_1.2 = [p, cmd])) (a' ++ [(0 + pre.length, [p, cmd])])) =
      [(0 + pre.length, [p, cmd])] := by
    rw [List.filter_append]
    have : List.filter (fun p_1 => decide (p_1.2 = [p, cmd])) a' = [] := by
      rw [List.filter_eq_nil_iff]
      intro e he
      have := h3 e he
      intro hh
      simp at hh
      rw [hh] at this
      simp at this
    rw [this]
    simp
  rw [hf]
  simp

/-! ### `findCallbacksForArgs`: a bare command name -/

/-- indices (counted from `i`) of the callbacks that have the enabled command method `cmd` -/
def candsFrom (d : Disabled) (cmd : Str) : List Plugin → Nat → List Nat
  | [], _ => []
  | Q :: cbs, i =>
    if isCmd d Q.name Q.methods cmd then i :: candsFrom d cmd cbs (i + 1) else candsFrom d cmd cbs (i + 1)

theorem getCommand_bare (d : Disabled) (Q : Plugin) (cmd : Str) (rest : List Str) (h : Foreign Q cmd) :
    getCommand d Q (cmd :: rest) = .ok (if isCmd d Q.name Q.methods cmd then [cmd] else []) := by
  obtain ⟨name, methods, subs, thr⟩ := Q
  rw [getCommand_cons, getCommandSubs_none d subs cmd _ h.2]
  simp only
  rw [if_neg (fun hh => h.1 hh.1)]
  rfl

theorem scan_bare (d : Disabled) (cmd : Str) (rest : List Str) : ∀ (cbs : List Plugin) (i : Nat)
    (maxL : List Str) (acc : List (Nat × List Str)), (maxL = [] ∨ maxL = [cmd]) →
    (∀ Q ∈ cbs, Foreign Q cmd) →
    scan d (cmd :: rest) cbs i maxL acc =
      .ok (if candsFrom d cmd cbs i = [] then maxL else [cmd], acc ++ (candsFrom d cmd cbs i).map (·, [cmd]))
  | [], _, _, _, _, _ => by simp [scan, candsFrom]
  | Q :: cbs, i, maxL, acc, hm, h => by
    rw [scan, getCommand_bare d Q cmd rest (h Q (by simp))]
    simp only
    by_cases hc : isCmd d Q.name Q.methods cmd = true
    · rw [if_pos hc]
      rw [if_pos ⟨by simp, by rcases hm with rfl | rfl <;> simp⟩]
      rw [scan_bare d cmd rest cbs (i + 1) [cmd] _ (Or.inr rfl) fun R hR => h R (by simp [hR])]
      simp [candsFrom, hc]
    · rw [if_neg hc]
      rw [if_neg (by simp)]
      rw [scan_bare d cmd rest cbs (i + 1) maxL acc hm fun R hR => h R (by simp [hR])]
      simp [candsFrom, hc]

theorem mem_candsFrom (d : Disabled) (cmd : Str) : ∀ (cbs : List Plugin) (k j : Nat),
    j ∈ candsFrom d cmd cbs k → ∃ Q ∈ cbs, k ≤ j ∧ cbs[j - k]? = some Q
  | [], _, _, h => by simp [candsFrom] at h
  | R :: cbs, k, j, h => by
    rw [candsFrom] at h
    by_cases hc : isCmd d R.name R.methods cmd = true
    · rw [if_pos hc] at h
      rcases List.mem_cons.1 h with rfl | h
      · exact ⟨R, by simp, Nat.le_refl _, by simp⟩
      · obtain ⟨Q, hQ, hk, hj⟩ := mem_candsFrom d cmd cbs (k + 1) j h
        refine ⟨Q, by simp [hQ], by omega, ?_⟩
        have : j - k = (j - (k + 1)) + 1 := by omega
        rw [this]; simpa using hj
    · rw [if_neg hc] at h
      obtain ⟨Q, hQ, hk, hj⟩ := mem_candsFrom d cmd cbs (k + 1) j h
      refine ⟨Q, by simp [hQ], by omega, ?_⟩
      have : j - k = (j - (k + 1)) + 1 := by omega
      rw [this]; simpa using hj

/-- a bare command name that no plugin and no command group is called after, with no default plugin:
the candidates are exactly the plugins having that enabled command; unless exactly one of them is an
"important" plugin, all of them are returned -/
theorem findCallbacks_bare (c : DispCfg) (cmd : Str) (rest args0 : List Str)
    (hargs : args0.map canonicalName = cmd :: rest)
    (hQ : ∀ Q ∈ c.callbacks, Foreign Q cmd)
    (hdef : c.defaults.lookup cmd = none)
    (himp : ((candsFrom c.disabled cmd c.callbacks 0).filter fun i =>
      (c.important.map canonicalName).contains (canonicalName (nameOf c.callbacks i))).length ≠ 1)
    (hne : candsFrom c.disabled cmd c.callbacks 0 ≠ []) :
    findCallbacks c args0 = .ok ([cmd], candsFrom c.disabled cmd c.callbacks 0) := by
  unfold findCallbacks
  simp only [hargs]
  rw [scan_bare c.disabled cmd rest c.callbacks 0 [] [] (Or.inl rfl) hQ]
  simp only [hne, if_false, List.nil_append]
  have hf : (List.filter (fun p => decide (p.2 = [cmd]))
      (List.map (fun x => (x, [cmd])) (candsFrom c.disabled cmd c.callbacks 0))).map (·.1) =
      candsFrom c.disabled cmd c.callbacks 0 := by
    rw [List.filter_eq_self.2 (by intro e he; simp at he; obtain ⟨_, _, rfl⟩ := he; simp)]
    rw [List.map_map]
    simp [Function.comp_def]
  rw [hf]
  have hown : (candsFrom c.disabled cmd c.callbacks 0).find?
      (fun i => decide (canonicalName (nameOf c.callbacks i) = cmd)) = none := by
    rw [List.find?_eq_none]
    intro i hi
    obtain ⟨Q, hQm, _, hj⟩ := mem_candsFrom c.disabled cmd c.callbacks 0 i hi
    simp only [Nat.sub_zero] at hj
    simp only [nameOf, hj, decide_eq_true_eq]
    exact fun e => (hQ Q hQm).1 e.symm
  rw [hown]
  simp only [hdef]
  split
  · rename_i i heq
    rw [heq] at himp
    simp at himp
  · rfl

/-! ### canonicalName is idempotent (so the `assert args == map(canonicalName, args)` of getCommand holds) -/

theorem toNat_ofNat_small (n : Nat) (h : n < 0xD800) : (Char.ofNat n).toNat = n := by
  have hv : n.isValidChar := Or.inl h
  rw [Char.ofNat, dif_pos hv]
  simp [Char.ofNatAux, Char.toNat]

theorem asciiLowerChar_cases (c : Char) :
    (asciiLowerChar c = c ∧ ¬ ('A' ≤ c ∧ c ≤ 'Z')) ∨
    (('A' ≤ c ∧ c ≤ 'Z') ∧ 97 ≤ (asciiLowerChar c).toNat ∧ (asciiLowerChar c).toNat ≤ 122) := by
  unfold asciiLowerChar
  by_cases h : 'A' ≤ c ∧ c ≤ 'Z'
  · right
    rw [if_pos h]
    refine ⟨h, ?_⟩
    have h1 : 65 ≤ c.toNat := by have := h.1; rw [Char.le_def] at this; exact this
    have h2 : c.toNat ≤ 90 := by have := h.2; rw [Char.le_def] at this; exact this
    rw [toNat_ofNat_small _ (by omega)]
    omega
  · left; rw [if_neg h]; exact ⟨rfl, h⟩

/-- what `canonicalName_idem` needs from the extracted string: no ASCII letter is "special" -/
def SpecialOk (sp : Str) : Prop := ∀ c ∈ sp, ¬ (65 ≤ c.toNat ∧ c.toNat ≤ 90) ∧ ¬ (97 ≤ c.toNat ∧ c.toNat ≤ 122)

instance (sp : Str) : Decidable (SpecialOk sp) := by unfold SpecialOk; infer_instance

theorem takeWhile_append_all {α : Type} (p : α → Bool) : ∀ (l1 l2 : List α), (∀ a ∈ l1, p a = true) →
    (∀ a ∈ l2, p a = false) → (l1 ++ l2).takeWhile p = l1 ∧ (l1 ++ l2).dropWhile p = l2
  | [], l2, _, h2 => by
    cases l2 with
    | nil => simp
    | cons b l => simp [h2 b (by simp)]
  | a :: l1, l2, h1, h2 => by
    have := takeWhile_append_all p l1 l2 (fun b hb => h1 b (by simp [hb])) h2
    simp [h1 a (by simp), this.1, this.2]

theorem mem_takeWhile_true {α : Type} (p : α → Bool) : ∀ (l : List α) (a : α), a ∈ l.takeWhile p → p a = true
  | [], _, h => by simp at h
  | b :: l, a, h => by
    rw [List.takeWhile] at h
    cases hb : p b with
    | false => simp [hb] at h
    | true =>
      simp only [hb] at h
      rcases List.mem_cons.1 h with rfl | h
      · exact hb
      · exact mem_takeWhile_true p l a h

theorem canonicalName_split (x t : Str) (hx : ∀ c ∈ x, isSpecial c = false) (ht : ∀ c ∈ t, isSpecial c = true) :
    canonicalName (x ++ t) = asciiLower x ++ t := by
  unfold canonicalName
  have h := takeWhile_append_all isSpecial t.reverse x.reverse (by simpa using ht) (by simpa using hx)
  simp only [List.reverse_append, h.1, h.2, List.reverse_reverse]
  congr 2
  rw [List.filter_eq_self]
  intro c hc; simp [hx c hc]

theorem isSpecial_lower (hsp : SpecialOk Gen.canonicalSpecial) (d : Char) (hd : isSpecial d = false) :
    isSpecial (asciiLowerChar d) = false := by
  rcases asciiLowerChar_cases d with ⟨h, _⟩ | ⟨_, h1, h2⟩
  · rw [h]; exact hd
  · cases hs : isSpecial (asciiLowerChar d) with
    | false => rfl
    | true =>
      have hm : asciiLowerChar d ∈ Gen.canonicalSpecial := by simpa [isSpecial] using hs
      exact absurd ⟨h1, h2⟩ (hsp _ hm).2

theorem asciiLowerChar_idem (d : Char) : asciiLowerChar (asciiLowerChar d) = asciiLowerChar d := by
  rcases asciiLowerChar_cases d with ⟨h, _⟩ | ⟨_, h1, h2⟩
  · rw [h, h]
  · generalize asciiLowerChar d = e at h1 h2
    unfold asciiLowerChar
    rw [if_neg]
    intro ⟨_, hz⟩
    rw [Char.le_def] at hz
    have : e.toNat ≤ 90 := hz
    omega

theorem canonicalName_idem' (hsp : SpecialOk Gen.canonicalSpecial) (s : Str) :
    canonicalName (canonicalName s) = canonicalName s := by
  have hcn : canonicalName s =
      asciiLower ((s.reverse.dropWhile isSpecial).reverse.filter fun c => !isSpecial c) ++
        (s.reverse.takeWhile isSpecial).reverse := rfl
  rw [hcn, canonicalName_split]
  · congr 1
    simp only [asciiLower, List.map_map]
    apply List.map_congr_left
    intro d _
    exact asciiLowerChar_idem d
  · intro c hc
    simp only [asciiLower, List.mem_map, List.mem_filter] at hc
    obtain ⟨d, ⟨_, hd⟩, rfl⟩ := hc
    exact isSpecial_lower hsp d (by simpa using hd)
  · intro c hc
    exact mem_takeWhile_true isSpecial _ c (List.mem_reverse.1 hc)

/-! ### function application with sub-commands that may answer nothing -/

/-- the reply text of the command selected for `a`, if its body replies -/
def answerOf (disp : List Str → Dispatch) (beh : Str → List Str → List Str → Act) (a : List Str) : Option Str :=
  match disp a with
  | .run _ p c r => (match (beh p c r).b with | .reply s => some s | _ => none)
  | _ => none

/-- the items with every sub-command replaced by its (truncated) reply text, or dropped when it answers nothing -/
def valuesO (cfg : EvCfg) (disp : List Str → Dispatch) (beh : Str → List Str → List Str → Act) : List Arg → List Str
  | [] => []
  | .str s :: rest => s :: valuesO cfg disp beh rest
  | .sub l :: rest =>
    match answerOf disp beh (valuesO cfg disp beh l) with
    | some s => s.take cfg.maxLen :: valuesO cfg disp beh rest
    | none => valuesO cfg disp beh rest

def refCallsO (cfg : EvCfg) (disp : List Str → Dispatch) (beh : Str → List Str → List Str → Act)
    (path : List Nat) : Nat → List Arg → List Call
  | _, [] => []
  | i, .str _ :: rest => refCallsO cfg disp beh path (i + 1) rest
  | i, .sub l :: rest =>
    refCallsO cfg disp beh (path ++ [i]) 0 l ++ [callOf disp (path ++ [i]) (valuesO cfg disp beh l)] ++
      refCallsO cfg disp beh path (i + 1) rest

/-- every evaluated argument list goes to exactly one plugin whose command either replies (once) or
calls noReply (possibly after tagging the message `ignored`, as Utilities.ignore does) -/
def AllAnswer (disp : List Str → Dispatch) (beh : Str → List Str → List Str → Act) : Prop :=
  ∀ a, ∃ idx p c r, disp a = .run idx p c r ∧
    ((∃ s, beh p c r = ⟨false, .reply s⟩) ∨ (∃ t, beh p c r = ⟨t, .noReply⟩))

def outcomeOf (o : Option Str) : Outcome := match o with | some s => .replied s | none => .noReply

theorem finalEval_answer {cfg : EvCfg} {disp : List Str → Dispatch} {beh : Str → List Str → List Str → Act} {inv : Nat → List Str → Act}
    (hall : AllAnswer disp beh) (nested : Nat) (path : List Nat) (done : List Str) (log : List Call) :
    ∃ ig, finalEval cfg disp beh inv nested path done ⟨log, false, false⟩ =
      (outcomeOf (answerOf disp beh done), ⟨log ++ [callOf disp path done], ig, false⟩) ∧
      (answerOf disp beh done ≠ none → ig = false) := by
  obtain ⟨idx, p, c, r, h1, h2⟩ := hall done
  rcases h2 with ⟨s, h2⟩ | ⟨t, h2⟩
  · exact ⟨false, by simp [finalEval, answerOf, callOf, outcomeOf, h1, h2, perform], fun _ => rfl⟩
  · refine ⟨if nested = 0 then true else t, ?_, fun h => by simp [answerOf, h1, h2] at h⟩
    by_cases hn : nested = 0 <;> cases t <;>
      simp [finalEval, answerOf, callOf, outcomeOf, h1, h2, perform, hn]

theorem evalArgs_answer {cfg : EvCfg} {disp : List Str → Dispatch} {beh : Str → List Str → List Str → Act} {inv : Nat → List Str → Act}
    (hall : AllAnswer disp beh) :
    (todo : List Arg) → ∀ (nested : Nat) (path : List Nat) (done : List Str) (i : Nat) (log : List Call),
      NoEmpty todo → (cfg.maxNesting ≠ 0 → nested + depthL todo ≤ cfg.maxNesting) →
      ∃ ig, evalArgs cfg disp beh inv nested path done i todo ⟨log, false, false⟩ =
        (outcomeOf (answerOf disp beh (done ++ valuesO cfg disp beh todo)),
         ⟨log ++ refCallsO cfg disp beh path i todo ++ [callOf disp path (done ++ valuesO cfg disp beh todo)], ig, false⟩) ∧
        (answerOf disp beh (done ++ valuesO cfg disp beh todo) ≠ none → ig = false)
  | [], nested, path, done, i, log, _, _ => by
    rw [evalArgs]
    obtain ⟨ig, h1, h2⟩ := finalEval_answer (cfg := cfg) hall nested path done log
    exact ⟨ig, by simpa [valuesO, refCallsO] using h1, by simpa [valuesO] using h2⟩
  | .str s :: rest, nested, path, done, i, log, hne, hd => by
    have hne' : NoEmpty rest := by simpa only [NoEmpty] using hne
    obtain ⟨ig, h1, h2⟩ := evalArgs_answer hall rest nested path (done ++ [s]) (i + 1) log hne'
      (by simpa only [depthL] using hd)
    rw [evalArgs]
    exact ⟨ig, by simpa [valuesO, refCallsO] using h1, by simpa [valuesO] using h2⟩
  | .sub l :: rest, nested, path, done, i, log, hne, hd => by
    obtain ⟨hl, hnl, hnr⟩ : l ≠ [] ∧ NoEmpty l ∧ NoEmpty rest := by simpa only [NoEmpty] using hne
    have hdeep : ¬ (cfg.maxNesting ≠ 0 ∧ nested + 1 > cfg.maxNesting) := by
      intro ⟨h0, h1⟩; have := hd h0; simp [depthL] at this; omega
    rw [evalArgs_sub, if_neg hdeep]
    cases l with
    | nil => exact absurd rfl hl
    | cons a l' =>
      simp only
      obtain ⟨igc, hc1, hc2⟩ := evalArgs_answer hall (a :: l') (nested + 1) (path ++ [i]) [] 0 log hnl
        (by intro h0; have := hd h0; simp [depthL] at this; omega)
      rw [hc1]
      simp only [List.nil_append] at hc2 ⊢
      have hdr : cfg.maxNesting ≠ 0 → nested + depthL rest ≤ cfg.maxNesting := by
        intro h0; have := hd h0; simp [depthL] at this; omega
      cases ha : answerOf disp beh (valuesO cfg disp beh (a :: l')) with
      | some s =>
        have hig : igc = false := hc2 (by simp [ha])
        subst hig
        simp only [outcomeOf, Bool.false_eq_true, if_false]
        obtain ⟨ig, h1, h2⟩ := evalArgs_answer hall rest nested path (done ++ [s.take cfg.maxLen]) (i + 1) _ hnr hdr
        rw [h1]
        refine ⟨ig, ?_, ?_⟩
        · simp [valuesO, refCallsO, ha, List.append_assoc] <;> rfl
        · simpa [valuesO, ha, List.append_assoc] using h2
      | none =>
        simp only [outcomeOf]
        obtain ⟨ig, h1, h2⟩ := evalArgs_answer hall rest nested path done (i + 1) _ hnr hdr
        rw [h1]
        refine ⟨ig, ?_, ?_⟩
        · simp [valuesO, refCallsO, ha, List.append_assoc] <;> rfl
        · simpa [valuesO, ha] using h2

/-! ### the disabled-commands store: what a history of add / remove leaves behind -/

theorem lookupK_setK (d : Disabled) (k k' : Str) (v : Bool × List Str) :
    lookupK (setK d k v) k' = if k' = k then some v else lookupK d k' := by
  induction d with
  | nil =>
    by_cases h : k' = k
    · subst h; simp [setK, lookupK]
    · have : ¬ k = k' := fun e => h e.symm
      simp [setK, lookupK, h, this]
  | cons e d ih =>
    obtain ⟨ke, ve⟩ := e
    by_cases hk : ke = k
    · subst hk
      by_cases h : k' = ke
      · subst h; simp [setK, lookupK]
      · have : ¬ ke = k' := fun e => h e.symm
        simp [setK, lookupK, h, this]
    · simp only [setK, if_neg hk]
      by_cases h2 : ke = k'
      · subst h2
        have : ¬ ke = k := hk
        simp [lookupK, this]
      · have e1 : lookupK ((ke, ve) :: setK d k v) k' = lookupK (setK d k v) k' := by simp [lookupK, h2]
        have e2 : lookupK ((ke, ve) :: d) k' = lookupK d k' := by simp [lookupK, h2]
        rw [e1, e2, ih]

theorem lookupK_delK (d : Disabled) (k k' : Str) :
    lookupK (delK d k) k' = if k' = k then none else lookupK d k' := by
  induction d with
  | nil => simp [delK, lookupK]
  | cons e d ih =>
    obtain ⟨ke, ve⟩ := e
    simp only [delK] at ih ⊢
    by_cases hk : ke = k
    · subst hk
      by_cases h : k' = ke
      · subst h; simpa [lookupK] using ih
      · have : ¬ ke = k' := fun e => h e.symm
        simpa [lookupK, h, this] using ih
    · by_cases h2 : ke = k'
      · subst h2; simp [lookupK, hk]
      · simp only [List.filter, hk, ne_eq, not_false_eq_true, decide_true]
        have e1 : ∀ l, lookupK ((ke, ve) :: l) k' = lookupK l k' := by intro l; simp [lookupK, h2]
        rw [e1, e1, ih]

/-- the two things the store says about a command: disabled everywhere / disabled in plugin `p` -/
def evK (d : Disabled) (k : Str) : Bool := ((lookupK d k).getD (false, [])).1
def forK (d : Disabled) (k p : Str) : Bool := ((lookupK d k).getD (false, [])).2.contains p

def disabledK (d : Disabled) (k p : Str) : Bool := evK d k || forK d k p

theorem isDisabled_eq (d : Disabled) (command plugin : Str) :
    isDisabled d command plugin = disabledK d (canonicalName command) (canonicalName plugin) := by
  unfold isDisabled disabledK evK forK lookupK
  cases d.find? (fun e => e.1 = canonicalName command) with
  | none => rfl
  | some e => obtain ⟨_, ev, ps⟩ := e; rfl

/-- an entry that says nothing is as good as no entry -/
theorem obs_finK (d : Disabled) (k : Str) (e : Bool × List Str) (k' : Str) :
    (lookupK (finK d k e) k').getD (false, []) = (lookupK (setK d k e) k').getD (false, []) := by
  unfold finK
  obtain ⟨ev, ps⟩ := e
  by_cases h : (!ev && ps.isEmpty) = true
  · rw [if_pos h, lookupK_delK, lookupK_setK]
    by_cases hk : k' = k
    · simp only [hk, if_true, Option.getD_none, Option.getD_some]
      simp only [Bool.and_eq_true, Bool.not_eq_true', List.isEmpty_iff] at h
      rw [h.1, h.2]
    · simp [hk]
  · rw [if_neg h]

theorem contains_filter_ne (ps : List Str) (p q : Str) :
    (ps.filter fun x => x ≠ p).contains q = (ps.contains q && q ≠ p) := by
  induction ps with
  | nil => simp
  | cons a ps ih =>
    by_cases h : a = p
    · subst h
      by_cases hq : q = a
      · subst hq; simp [List.filter]
      · simp [List.filter, ih, hq]
    · by_cases hq : q = a
      · subst hq; simp [List.filter, h]
      · simp [List.filter, h, ih, hq]

/-- operations on canonical names: `add(c)`, `add(c, p)`, `remove(c)`, `remove(c, p)`; a KeyError leaves the store as it is -/
inductive SOp where
  | disableAll (c : Str) | disableFor (p c : Str) | enableAll (c : Str) | enableFor (p c : Str)

def stepK (d : Disabled) : SOp → Disabled
  | .disableAll c => setK d c (true, ((lookupK d c).getD (false, [])).2)
  | .disableFor p c =>
    let e := (lookupK d c).getD (false, [])
    setK d c (e.1, if e.2.contains p then e.2 else e.2 ++ [p])
  | .enableAll c =>
    match lookupK d c with
    | some (true, ps) => finK d c (false, ps)
    | _ => d
  | .enableFor p c =>
    match lookupK d c with
    | some (ev, ps) => if ps.contains p then finK d c (ev, ps.filter fun q => q ≠ p) else d
    | none => d

/-- every operation is a plain update of one of the two observations: nothing else changes -/
theorem evK_step (d : Disabled) (op : SOp) (k : Str) :
    evK (stepK d op) k =
      match op with
      | .disableAll c => if k = c then true else evK d k
      | .enableAll c => if k = c then false else evK d k
      | .disableFor _ _ => evK d k
      | .enableFor _ _ => evK d k := by
  cases op with
  | disableAll c =>
    simp only [stepK, evK, lookupK_setK]
    by_cases h : k = c <;> simp [h]
  | disableFor p c =>
    simp only [stepK, evK, lookupK_setK]
    by_cases h : k = c
    · subst h; simp
    · simp [h]
  | enableAll c =>
    simp only [stepK]
    cases hl : lookupK d c with
    | none =>
      by_cases h : k = c
      · subst h; simp [evK, hl]
      · simp [h]
    | some e =>
      obtain ⟨ev, ps⟩ := e
      cases ev with
      | true =>
        simp only [evK, obs_finK, lookupK_setK]
        by_cases h : k = c <;> simp [h]
      | false =>
        by_cases h : k = c
        · subst h; simp [evK, hl]
        · simp [h]
  | enableFor p c =>
    simp only [stepK]
    cases hl : lookupK d c with
    | none => rfl
    | some e =>
      obtain ⟨ev, ps⟩ := e
      by_cases hc : ps.contains p = true
      · simp only [hc, if_true, evK, obs_finK, lookupK_setK]
        by_cases h : k = c
        · subst h; simp [hl]
        · simp [h]
      · simp only [hc, Bool.false_eq_true, if_false]

theorem forK_step (d : Disabled) (op : SOp) (k q : Str) :
    forK (stepK d op) k q =
      match op with
      | .disableAll _ => forK d k q
      | .enableAll _ => forK d k q
      | .disableFor p c => if k = c ∧ q = p then true else forK d k q
      | .enableFor p c => if k = c ∧ q = p then false else forK d k q := by
  cases op with
  | disableAll c =>
    simp only [stepK, forK, lookupK_setK]
    by_cases h : k = c
    · subst h; simp
    · simp [h]
  | disableFor p c =>
    simp only [stepK, forK, lookupK_setK]
    by_cases h : k = c
    · subst h
      simp only [if_true, Option.getD_some, true_and]
      by_cases hq : q = p
      · subst hq; by_cases hc : q ∈ ((lookupK d k).getD (false, [])).2 <;> simp [hc]
      · by_cases hc : p ∈ ((lookupK d k).getD (false, [])).2 <;> simp [hc, hq]
    · simp [h]
  | enableAll c =>
    simp only [stepK]
    cases hl : lookupK d c with
    | none => rfl
    | some e =>
      obtain ⟨ev, ps⟩ := e
      cases ev with
      | true =>
        simp only [forK, obs_finK, lookupK_setK]
        by_cases h : k = c
        · subst h; simp [hl]
        · simp [h]
      | false => rfl
  | enableFor p c =>
    simp only [stepK]
    cases hl : lookupK d c with
    | none =>
      by_cases h : k = c ∧ q = p
      · obtain ⟨rfl, rfl⟩ := h; simp [forK, hl]
      · simp [h]
    | some e =>
      obtain ⟨ev, ps⟩ := e
      by_cases hc : ps.contains p = true
      · simp only [hc, if_true, forK, obs_finK, lookupK_setK]
        by_cases h : k = c
        · subst h
          simp only [if_true, Option.getD_some, contains_filter_ne, hl, true_and]
          by_cases hq : q = p
          · subst hq; simp
          · simp [hq]
        · simp [h]
      · simp only [hc, Bool.false_eq_true, if_false]
        by_cases h : k = c ∧ q = p
        · obtain ⟨rfl, rfl⟩ := h
          simp only [forK, hl, Option.getD_some, and_self, if_true]
          simpa using hc
        · simp [h]

/-- the store after a history of operations (most recent first), starting from the empty store -/
def runK : List SOp → Disabled
  | [] => []
  | op :: rest => stepK (runK rest) op

/-- the last `disable c` / `enable c` (no plugin) in the history, most recent first, is a disable -/
def saysAll (c : Str) : List SOp → Bool
  | [] => false
  | .disableAll c' :: rest => if c' = c then true else saysAll c rest
  | .enableAll c' :: rest => if c' = c then false else saysAll c rest
  | _ :: rest => saysAll c rest

/-- the last `disable p c` / `enable p c` in the history is a disable -/
def saysFor (p c : Str) : List SOp → Bool
  | [] => false
  | .disableFor p' c' :: rest => if c' = c ∧ p' = p then true else saysFor p c rest
  | .enableFor p' c' :: rest => if c' = c ∧ p' = p then false else saysFor p c rest
  | _ :: rest => saysFor p c rest

theorem evK_run (c : Str) : ∀ h : List SOp, evK (runK h) c = saysAll c h
  | [] => rfl
  | op :: rest => by
    have ih := evK_run c rest
    rw [runK, evK_step]
    cases op with
    | disableAll c' => simp only [saysAll, ih]; by_cases h : c = c' <;> simp [h, eq_comm]
    | enableAll c' => simp only [saysAll, ih]; by_cases h : c = c' <;> simp [h, eq_comm]
    | disableFor p' c' => simp only [saysAll, ih]
    | enableFor p' c' => simp only [saysAll, ih]

theorem forK_run (p c : Str) : ∀ h : List SOp, forK (runK h) c p = saysFor p c h
  | [] => rfl
  | op :: rest => by
    have ih := forK_run p c rest
    rw [runK, forK_step]
    cases op with
    | disableAll c' => simp only [saysFor, ih]
    | enableAll c' => simp only [saysFor, ih]
    | disableFor p' c' =>
      simp only [saysFor, ih]
      by_cases h : c = c' ∧ p = p'
      · obtain ⟨rfl, rfl⟩ := h; simp
      · have : ¬ (c' = c ∧ p' = p) := fun ⟨a, b⟩ => h ⟨a.symm, b.symm⟩
        simp [h, this]
    | enableFor p' c' =>
      simp only [saysFor, ih]
      by_cases h : c = c' ∧ p = p'
      · obtain ⟨rfl, rfl⟩ := h; simp
      · have : ¬ (c' = c ∧ p' = p) := fun ⟨a, b⟩ => h ⟨a.symm, b.symm⟩
        simp [h, this]

/-- `DisabledCommands.add` / `.remove` are these steps on the canonical names (a KeyError changes nothing) -/
theorem add_eq_step (d : Disabled) (command : Str) (plugin : Option Str) :
    d.add command plugin = stepK d (match plugin with
      | none => .disableAll (canonicalName command)
      | some p => .disableFor (canonicalName p) (canonicalName command)) := by
  cases plugin <;> rfl

theorem remove_eq_step (d : Disabled) (command : Str) (plugin : Option Str) :
    (d.remove command plugin).getD d = stepK d (match plugin with
      | none => .enableAll (canonicalName command)
      | some p => .enableFor (canonicalName p) (canonicalName command)) := by
  cases plugin with
  | none =>
    simp only [Disabled.remove, stepK]
    cases lookupK d (canonicalName command) with
    | none => rfl
    | some e => obtain ⟨ev, ps⟩ := e; cases ev <;> rfl
  | some p =>
    simp only [Disabled.remove, stepK]
    cases lookupK d (canonicalName command) with
    | none => rfl
    | some e =>
      obtain ⟨ev, ps⟩ := e
      simp only
      split <;> simp

/-! ### the live store and the registry value say the same -/

/-- what the live store says is exactly what `supybot.commands.disabled` lists -/
def Coh (s : OwnerSt) : Prop :=
  (∀ k, evK s.store k = s.conf.contains (none, k)) ∧ (∀ k p, forK s.store k p = s.conf.contains (some p, k))

/-- the names in the registry value are canonical (they went through `canonicalName`) -/
def CanonConf (conf : List ConfName) : Prop :=
  ∀ e ∈ conf, canonicalName e.2 = e.2 ∧ ∀ p, e.1 = some p → canonicalName p = p

theorem contains_insert (l : List ConfName) (x y : ConfName) :
    (if l.contains x then l else l ++ [x]).contains y = (l.contains y || decide (y = x)) := by
  by_cases h : l.contains x = true
  · rw [if_pos h]
    by_cases hy : y = x
    · subst hy; rw [h]; simp
    · simp [hy]
  · rw [if_neg h]
    by_cases hy : y = x <;> simp [List.contains_append, hy]

theorem contains_erase (l : List ConfName) (x y : ConfName) :
    (l.filter fun z => z ≠ x).contains y = (l.contains y && !decide (y = x)) := by
  by_cases hy : y = x
  · subst hy; simp
  · simp [hy]

theorem coh_step_disable (s : OwnerSt) (pl : Option Str) (c : Str) (h : Coh s) :
    Coh ⟨s.store.add c pl, if s.conf.contains (confName pl c) then s.conf else s.conf ++ [confName pl c]⟩ := by
  rw [add_eq_step]
  constructor
  · intro k
    rw [evK_step, contains_insert, ← h.1 k]
    cases pl with
    | none => by_cases hk : k = canonicalName c <;> simp [confName, hk]
    | some p => simp [confName]
  · intro k q
    rw [forK_step, contains_insert, ← h.2 k q]
    cases pl with
    | none => simp [confName]
    | some p =>
      by_cases hk : k = canonicalName c ∧ q = canonicalName p
      · obtain ⟨rfl, rfl⟩ := hk; simp [confName]
      · have : ¬ ((some q, k) : ConfName) = (some (canonicalName p), canonicalName c) := by
          intro e; injection e with e1 e2; injection e1 with e1; exact hk ⟨e2, e1⟩
        simp [confName, hk, this]

theorem coh_step_enable (s : OwnerSt) (pl : Option Str) (c : Str) (h : Coh s) :
    Coh ⟨(s.store.remove c pl).getD s.store, s.conf.filter fun x => x ≠ confName pl c⟩ := by
  rw [remove_eq_step]
  constructor
  · intro k
    rw [evK_step, contains_erase, ← h.1 k]
    cases pl with
    | none => by_cases hk : k = canonicalName c <;> simp [confName, hk]
    | some p => simp [confName]
  · intro k q
    rw [forK_step, contains_erase, ← h.2 k q]
    cases pl with
    | none => simp [confName]
    | some p =>
      by_cases hk : k = canonicalName c ∧ q = canonicalName p
      · obtain ⟨rfl, rfl⟩ := hk; simp [confName]
      · have : ¬ ((some q, k) : ConfName) = (some (canonicalName p), canonicalName c) := by
          intro e; injection e with e1 e2; injection e1 with e1; exact hk ⟨e2, e1⟩
        simp [confName, hk, this]

theorem coh_fromConf : ∀ (conf : List ConfName), CanonConf conf → Coh ⟨fromConf conf, conf⟩
  | [], _ => ⟨fun _ => rfl, fun _ _ => rfl⟩
  | (pl, k) :: rest, hc => by
    have ih := coh_fromConf rest (fun e he => hc e (by simp [he]))
    obtain ⟨hk, hp⟩ := hc (pl, k) (by simp)
    simp only at hk hp
    have ih1 : ∀ k', evK (fromConf rest) k' = rest.contains (none, k') := ih.1
    have ih2 : ∀ k' q, forK (fromConf rest) k' q = rest.contains (some q, k') := ih.2
    rw [fromConf, add_eq_step]
    cases pl with
    | none =>
      constructor
      · intro k'
        simp only [evK_step, hk, ih1]
        by_cases e : k' = k
        · subst e; simp
        · simp [e]
      · intro k' q
        simp only [forK_step, ih2]
        simp
    | some p =>
      constructor
      · intro k'
        simp only [evK_step, ih1]
        simp
      · intro k' q
        simp only [forK_step, hk, hp p rfl, ih2]
        by_cases e : k' = k ∧ q = p
        · obtain ⟨rfl, rfl⟩ := e; simp
        · have : ¬ (q = p ∧ k' = k) := fun ⟨a, b⟩ => e ⟨b, a⟩
          simp [e, this]
end C14
