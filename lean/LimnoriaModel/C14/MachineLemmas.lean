/-
C14 — invariants of the small-step machine that hold for every schedule and every command body.
-/
import LimnoriaModel.C14.Machine
namespace C14
open Py

/-- every proxy sits at the nesting level its position says, within the maximum -/
def Proxy.Good (m : MCfg) (P : Proxy) : Prop :=
  P.path.length = P.nested ∧ (m.ev.maxNesting ≠ 0 → P.nested ≤ m.ev.maxNesting)

def HeapGood (m : MCfg) (h : List Proxy) : Prop := ∀ P ∈ h, P.Good m

theorem mem_setProxy {h : List Proxy} {p : Nat} {f : Proxy → Proxy} {P' : Proxy} (hm : P' ∈ setProxy h p f) :
    ∃ P ∈ h, P' = P ∨ P' = f P := by
  unfold setProxy at hm
  rw [List.mem_mapIdx] at hm
  obtain ⟨i, hi, rfl⟩ := hm
  refine ⟨h[i], List.getElem_mem hi, ?_⟩
  split
  · exact Or.inr rfl
  · exact Or.inl rfl

/-- an update that leaves position and level alone -/
def Keeps (f : Proxy → Proxy) : Prop := ∀ P, (f P).path = P.path ∧ (f P).nested = P.nested

theorem heapGood_setProxy {m : MCfg} {h : List Proxy} (hg : HeapGood m h) (p : Nat) (f : Proxy → Proxy)
    (hk : Keeps f) : HeapGood m (setProxy h p f) := by
  intro P' hm
  obtain ⟨P, hP, e | e⟩ := mem_setProxy hm
  · rw [e]; exact hg P hP
  · rw [e]
    have := hg P hP
    unfold Proxy.Good at this ⊢
    rw [(hk P).1, (hk P).2]; exact this

theorem heapGood_append {m : MCfg} {h : List Proxy} (hg : HeapGood m h) (P : Proxy) (hP : P.Good m) :
    HeapGood m (h ++ [P]) := by
  intro Q hQ
  rcases List.mem_append.1 hQ with hQ | hQ
  · exact hg Q hQ
  · simp at hQ; subst hQ; exact hP

theorem step_heapGood (m : MCfg) (c : Config) (tid : Nat) (hg : HeapGood m c.heap) :
    HeapGood m (step m c tid).heap := by
  unfold step
  split
  · exact hg
  · exact hg
  · rename_i f stack _
    cases f with
    | evalArgs p =>
      simp only
      split
      · exact hg
      · rename_i P hP
        have hPg : P.Good m := hg P (List.mem_of_getElem? hP)
        split
        · exact heapGood_setProxy hg p _ (fun _ => ⟨rfl, rfl⟩)
        · rename_i i l _
          have h1 := heapGood_setProxy (f := fun x => { x with repliedTo := false }) hg p (fun _ => ⟨rfl, rfl⟩)
          split
          · exact h1
          · rename_i hdeep
            have hchild : ∀ a fe, (⟨some p, P.path ++ [i], P.nested + 1, a, 0, fe, false⟩ : Proxy).Good m := by
              intro a fe
              refine ⟨by simp [hPg.1], fun h0 => ?_⟩
              have : ¬ (P.nested + 1 > m.ev.maxNesting) := fun hc => hdeep ⟨h0, hc⟩
              show P.nested + 1 ≤ _
              omega
            split
            · exact heapGood_append h1 _ (hchild _ _)
            · exact heapGood_append h1 _ (hchild _ _)
        · -- finalEval
          have h1 := heapGood_setProxy (f := fun x => { x with finalEvaled := true }) hg p (fun _ => ⟨rfl, rfl⟩)
          repeat' split
          all_goals first | exact hg | exact h1
    | body p cmd acts fin k =>
      cases acts with
      | nil => simp only; repeat' split
               all_goals exact hg
      | cons a acts => simp only; cases a <;> exact hg
    | reply p s =>
      simp only
      split
      · exact hg
      · have h1 := heapGood_setProxy (f := fun x => { x with repliedTo := true }) hg p (fun _ => ⟨rfl, rfl⟩)
        repeat' split
        all_goals first
          | exact h1
          | exact heapGood_setProxy h1 p _ (fun _ => ⟨rfl, rfl⟩)
    | noReply p =>
      simp only
      split
      · exact hg
      · have h1 := heapGood_setProxy (f := fun x => { x with repliedTo := true }) hg p (fun _ => ⟨rfl, rfl⟩)
        repeat' split
        all_goals first
          | exact h1
          | exact heapGood_setProxy h1 p _ (fun _ => ⟨rfl, rfl⟩)
    | error p s =>
      simp only
      split
      · exact hg
      · have h1 := heapGood_setProxy (f := fun x => { x with repliedTo := true }) hg p (fun _ => ⟨rfl, rfl⟩)
        repeat' split
        all_goals exact h1

/-- every logged call belongs to a proxy that exists and has done its `finalEval` -/
def Covered (h : List Proxy) (log : List Call) : Prop :=
  ∀ call ∈ log, ∃ P ∈ h, P.path = call.path ∧ P.finalEvaled = true

/-- an update that leaves the position alone and never clears `finalEvaled` -/
def Mono (f : Proxy → Proxy) : Prop := ∀ P, (f P).path = P.path ∧ (P.finalEvaled = true → (f P).finalEvaled = true)

theorem setProxy_getElem? (h : List Proxy) (p : Nat) (f : Proxy → Proxy) (i : Nat) :
    (setProxy h p f)[i]? = (h[i]?).map fun x => if i = p then f x else x := by
  unfold setProxy
  simp [List.getElem?_mapIdx]

theorem covered_setProxy {h : List Proxy} {log : List Call} (hc : Covered h log) (p : Nat) (f : Proxy → Proxy)
    (hm : Mono f) : Covered (setProxy h p f) log := by
  intro call hcall
  obtain ⟨P, hP, h1, h2⟩ := hc call hcall
  obtain ⟨i, hi, rfl⟩ := List.getElem_of_mem hP
  have hi' : (setProxy h p f)[i]? = some (if i = p then f h[i] else h[i]) := by
    rw [setProxy_getElem?]; simp [hi]
  refine ⟨_, List.mem_of_getElem? hi', ?_⟩
  split
  · exact ⟨(hm _).1.trans h1, (hm _).2 h2⟩
  · exact ⟨h1, h2⟩

theorem covered_append_heap {h : List Proxy} {log : List Call} (hc : Covered h log) (P : Proxy) :
    Covered (h ++ [P]) log := by
  intro call hcall
  obtain ⟨Q, hQ, hq⟩ := hc call hcall
  exact ⟨Q, List.mem_append_left _ hQ, hq⟩

theorem step_covered (m : MCfg) (c : Config) (tid : Nat) (hc : Covered c.heap c.log) :
    Covered (step m c tid).heap (step m c tid).log := by
  have mono1 : ∀ (g : Proxy → Proxy), (∀ P, (g P).path = P.path ∧ (g P).finalEvaled = P.finalEvaled) → Mono g :=
    fun g hg P => ⟨(hg P).1, fun h => (hg P).2 ▸ h⟩
  unfold step
  split
  · exact hc
  · exact hc
  · rename_i f stack _
    cases f with
    | evalArgs p =>
      simp only
      split
      · exact hc
      · rename_i P hP
        split
        · exact covered_setProxy hc p _ (mono1 _ fun _ => ⟨rfl, rfl⟩)
        · have h1 := covered_setProxy (f := fun x => { x with repliedTo := false }) hc p (mono1 _ fun _ => ⟨rfl, rfl⟩)
          repeat' split
          all_goals first
            | exact h1
            | exact covered_append_heap h1 _
        · -- finalEval
          have h1 := covered_setProxy (f := fun x => { x with finalEvaled := true }) hc p (fun _ => ⟨rfl, fun _ => rfl⟩)
          have hnew : ∀ (pl : Str) (cmd rest : List Str),
              Covered (setProxy c.heap p fun x => { x with finalEvaled := true }) (c.log ++ [⟨P.path, pl, cmd, rest⟩]) := by
            intro pl cmd rest call hcall
            rcases List.mem_append.1 hcall with hcall | hcall
            · exact h1 call hcall
            · simp at hcall; subst hcall
              have hi' : (setProxy c.heap p fun x => { x with finalEvaled := true })[p]? =
                  some { P with finalEvaled := true } := by
                rw [setProxy_getElem?]; simp [hP]
              exact ⟨_, List.mem_of_getElem? hi', rfl, rfl⟩
          repeat' split
          all_goals first
            | exact hc
            | exact h1
            | exact hnew _ _ _
    | body p cmd acts fin k =>
      cases acts with
      | nil => simp only; repeat' split
               all_goals exact hc
      | cons a acts => simp only; cases a <;> exact hc
    | reply p s =>
      simp only
      split
      · exact hc
      · have h1 := covered_setProxy (f := fun x => { x with repliedTo := true }) hc p (mono1 _ fun _ => ⟨rfl, rfl⟩)
        repeat' split
        all_goals first
          | exact h1
          | exact covered_setProxy h1 p _ (mono1 _ fun _ => ⟨rfl, rfl⟩)
    | noReply p =>
      simp only
      split
      · exact hc
      · have h1 := covered_setProxy (f := fun x => { x with repliedTo := true }) hc p (mono1 _ fun _ => ⟨rfl, rfl⟩)
        repeat' split
        all_goals first
          | exact h1
          | exact covered_setProxy h1 p _ (mono1 _ fun _ => ⟨rfl, rfl⟩)
    | error p s =>
      simp only
      split
      · exact hc
      · have h1 := covered_setProxy (f := fun x => { x with repliedTo := true }) hc p (mono1 _ fun _ => ⟨rfl, rfl⟩)
        repeat' split
        all_goals exact h1

theorem step_log_prefix (m : MCfg) (c : Config) (tid : Nat) : c.log <+: (step m c tid).log := by
  unfold step
  split
  · exact List.prefix_refl _
  · exact List.prefix_refl _
  · rename_i f stack _
    cases f with
    | evalArgs p =>
      simp only
      repeat' split
      all_goals first
        | exact List.prefix_refl _
        | exact List.prefix_append _ _
    | body p cmd acts fin k =>
      cases acts with
      | nil => simp only; repeat' split
               all_goals exact List.prefix_refl _
      | cons a acts => simp only; cases a <;> exact List.prefix_refl _
    | reply p s => simp only; repeat' split
                   all_goals exact List.prefix_refl _
    | noReply p => simp only; repeat' split
                   all_goals exact List.prefix_refl _
    | error p s => simp only; repeat' split
                   all_goals exact List.prefix_refl _

/-- the invariants hold along every schedule -/
theorem run_inv (m : MCfg) : ∀ (sched : List Nat) (c : Config), HeapGood m c.heap → Covered c.heap c.log →
    HeapGood m (run m sched c).heap ∧ Covered (run m sched c).heap (run m sched c).log ∧ c.log <+: (run m sched c).log
  | [], c, hg, hc => ⟨hg, hc, List.prefix_refl _⟩
  | tid :: sched, c, hg, hc => by
    have := run_inv m sched (step m c tid) (step_heapGood m c tid hg) (step_covered m c tid hc)
    exact ⟨this.1, this.2.1, (step_log_prefix m c tid).trans this.2.2⟩

theorem init_inv (m : MCfg) (args : List Arg) (ig : Bool) :
    HeapGood m (initConfig m args ig).heap ∧ Covered (initConfig m args ig).heap (initConfig m args ig).log := by
  unfold initConfig
  split
  · refine ⟨?_, fun _ h => by simp at h⟩
    intro P hP; simp at hP; subst hP; exact ⟨rfl, fun _ => Nat.zero_le _⟩
  · refine ⟨?_, fun _ h => by simp at h⟩
    intro P hP; simp at hP; subst hP; exact ⟨rfl, fun _ => Nat.zero_le _⟩

/-- a concrete machine: `nosuch` is no command, `duni` replies twice, anything else replies once -/
def exM : MCfg :=
  { ev := ⟨10, 100, false, ['E'], fun _ => ['H'], ['I']⟩,
    disp := fun a => match a with
      | [] => .exc .indexError
      | cmd :: rest => if cmd = ['n', 'o', 's', 'u', 'c', 'h'] then .none else .run 0 ['P'] [cmd] rest,
    beh := fun _ c _ => if c = [['d', 'u', 'n', 'i']] then ⟨[.reply ['a'], .reply ['b']], none⟩ else ⟨[.reply ['z']], none⟩,
    inv := fun _ _ _ => ⟨false, .error ['?']⟩,
    threaded := fun _ => false, nestText := [], ambigText := fun _ _ => [], assertText := [] }

def exWitness : List Arg :=
  [.str ['r', 't', 'w', 'o'], .sub [.str ['n', 'o', 's', 'u', 'c', 'h'], .sub [.str ['d', 'u', 'n', 'i']]]]

theorem exWitness_run :
    let c := runFirst exM 100 (initConfig exM exWitness false)
    c.log.map (·.path) = [[1, 1], []] ∧ c.out = [.error ['?'], .reply ['z']] ∧ c.threads.all (·.isEmpty) = true := by
  refine ⟨by decide, by decide, by decide⟩

/-- a machine with a threaded plugin `T` (command `c`); `b` replies twice -/
def exR : MCfg :=
  { ev := ⟨10, 100, false, ['E'], fun _ => ['H'], ['I']⟩,
    disp := fun a => match a with
      | [] => .exc .indexError
      | cmd :: rest => .run 0 (if cmd = ['c'] then ['T'] else ['P']) [cmd] rest,
    beh := fun _ c _ => if c = [['b']] then ⟨[.reply ['x'], .reply ['y']], none⟩ else ⟨[.reply ['z']], none⟩,
    inv := fun _ _ _ => ⟨false, .error ['?']⟩,
    threaded := fun p => p = ['T'], nestText := [], ambigText := fun _ _ => [], assertText := ['A'] }

/-- `a [b] [c] [d]` -/
def exRace : List Arg := [.str ['a'], .sub [.str ['b']], .sub [.str ['c']], .sub [.str ['d']]]

/-- main thread up to the hand-off of `c`; then the thread's reply and `b`'s second reply reach the
line's proxy together, both resume its `evalArgs`, both find `[d]` unevaluated -/
def exRaceSchedule : List Nat :=
  [0, 0, 0, 0, 0, 0, 0, 0, 0, 0, 0, 1, 1, 0, 0, 1, 0, 1, 0, 1, 0, 0, 1, 1]
end C14
