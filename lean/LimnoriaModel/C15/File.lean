/-
C15 — the configuration file: `registry.close` (writer, one `name: value` line per set value,
preceded by `#` help lines), `registry.open_registry` (reader), and the name functions
`escape` / `unescape` / `split` / `join` (src/registry.py:81-196).
-/
import LimnoriaModel.C15.Values
namespace C15
open Py

/-! ### names -/

/-- `registry.escape(name)`: unicode_escape, then `:` → `\:` and `.` → `\.` (the encoder never
produces `:` or `.` by itself, so the two `str.replace` calls act character-wise) -/
def escNameChar (c : Char) : Str :=
  if c = ':' then ['\\', ':'] else if c = '.' then ['\\', '.'] else [c]

def escapeName (n : Str) : Str := (encodeUE n).flatMap escNameChar

/-- `s.replace(<a b>, <r>)` for a two-character pattern and a one-character replacement -/
def replace2 (a b r : Char) : Str → Str
  | [] => []
  | [x] => [x]
  | x :: y :: rest =>
    if x = a ∧ y = b then r :: replace2 a b r rest
    else x :: replace2 a b r (y :: rest)

/-- `registry.unescape(name)` -/
def unescapeName (n : Str) : Res :=
  decodeUE (replace2 '\\' ':' ':' (replace2 '\\' '.' '.' n))

/-- `registry.split`: the name is cut at every dot that is not escaped; a backslash escapes exactly
the character after it (`_unescapedFind`).  The Bool says "this character is escaped". -/
def splitDots : Bool → Str → List Str
  | _, [] => [[]]
  | esc, c :: cs =>
    if ¬ esc ∧ c = '.' then [] :: splitDots false cs
    else match splitDots (!esc && c = '\\') cs with
      | [] => [[c]]
      | p :: ps => (c :: p) :: ps

def resAll : List Res → Option (List Str)
  | [] => some []
  | .ok s :: rs => (resAll rs).map (s :: ·)
  | _ :: _ => none

/-- `registry.split(name)`; `none` = a component fails to decode -/
def splitName (n : Str) : Option (List Str) := resAll ((splitDots false n).map unescapeName)

/-- `registry.join(names)` -/
def joinName (ns : List Str) : Str := joinChar '.' (ns.map escapeName)

/-- `registry.isValidRegistryName` -/
def isValidRegistryName (n : Str) : Bool := (splitWs n).length = 1 && n.head? ≠ some '_'

/-! ### writer -/

/-- one value line of `registry.close`: `'%s: %s\n' % (name, s)` -/
def valueLine (name ser : Str) : Str := name ++ ':' :: ' ' :: (ser ++ ['\n'])

/-- an entry of the file: the help block (already rendered `#` lines, each ending in LF, possibly
preceded by a blank line) and the value line -/
structure Entry where
  help : List Str
  name : Str
  ser : Str
deriving DecidableEq, Repr

def Entry.text (e : Entry) : Str := e.help.flatten ++ valueLine e.name e.ser

def fileText (es : List Entry) : Str := Gen.Registry.confFileHeader ++ (es.map Entry.text).flatten

/-- the comment block `registry.close` writes above a value that has a help text (lines without
their LF): a blank line unless it is the first block of the file, `###`, the help as wrapped by
`textwrap.wrap` (a parameter), `#` and the serialized default when it is shown, `###` -/
def helpBlock (first : Bool) (wrapped : List Str) (dfltSer : Option Str) : List Str :=
  (if first then [] else [[]]) ++ ['#', '#', '#'] :: wrapped.map ('#' :: ' ' :: ·) ++
    (match dfltSer with
     | some d => [['#'], "# Default value: ".toList ++ d]
     | none => []) ++ [['#', '#', '#']]

/-- what `close` is told about one listed value -/
structure Spec where
  wrapped : Option (List Str)      -- `textwrap.wrap(help)` when the help is not empty
  dfltSer : Option Str             -- serialized default when `_showDefault`
  name : Str
  ser : Str                        -- `value.serialize()`
deriving DecidableEq, Repr

/-- the entries of the file; `first` = no help block has been written yet -/
def renderSpecs : Bool → List Spec → List Entry
  | _, [] => []
  | first, sp :: rest =>
    match sp.wrapped with
    | some w => ⟨(helpBlock first w sp.dfltSer).map (· ++ ['\n']), sp.name, sp.ser⟩ :: renderSpecs false rest
    | none => ⟨[], sp.name, sp.ser⟩ :: renderSpecs first rest

/-- the whole file `registry.close` writes -/
def closeText (specs : List Spec) : Str := fileText (renderSpecs true specs)

/-! ### reader -/

/-- number of trailing backslashes is odd (`slashEnd = re.compile(r'\\*$')`, `len(m.group(0)) % 2`) -/
def oddTrailingBackslashes (line : Str) : Bool :=
  (line.reverse.takeWhile (· = '\\')).length % 2 = 1

/-- `_unescapedFind(acc, ': ')`: the first `": "` that is not escaped (a backslash escapes exactly
the next character); `none` = no such place (ValueError → InvalidRegistryFile).  The Bool says
"this character is escaped". -/
def splitKV : Bool → Str → Option (Str × Str)
  | _, [] => none
  | esc, c :: cs =>
    if ¬ esc ∧ c = ':' ∧ cs.head? = some ' ' then some ([], cs.drop 1)
    else match splitKV (!esc && c = '\\') cs with
      | none => none
      | some (k, v) => some (c :: k, v)

def stripCRLF (s : Str) : Str := rstripP isCRLF (lstripP isCRLF s)

inductive ReadRes where
  | ok (assignments : List (Str × Str))     -- `_cache[key] = value` in file order
  | invalid                                   -- InvalidRegistryFile
  | unm
deriving DecidableEq, Repr

def ReadRes.cons (kv : Str × Str) : ReadRes → ReadRes
  | .ok l => .ok (kv :: l)
  | r => r

/-- the loop of `open_registry` over the non-comment non-empty lines -/
def readLoop : Str → List Str → ReadRes
  | _, [] => .ok []                             -- a dangling continuation is dropped silently
  | acc, l :: ls =>
    let line := rstripCRLF l
    if oddTrailingBackslashes line then readLoop (acc ++ line.dropLast) ls
    else
      let acc' := acc ++ line
      match splitKV false acc' with
      | none => .invalid
      | some (k, v) =>
        match decodeUE (stripCRLF v) with
        | .ok d => (readLoop [] ls).cons (strip k, d)
        | .bad => .invalid                      -- UnicodeDecodeError is a ValueError
        | .unm => .unm

/-- the lines a text-mode file object yields (universal newlines), without their terminator -/
def fileLines (text : Str) : List Str := splitChar '\n' (normNL text)

/-- `utils.file.nonCommentNonEmptyLines` -/
def keepLine (l : Str) : Bool := l.head? ≠ some '#' && !(strip l).isEmpty

/-- `open_registry(filename)` on the text of the file -/
def readRegistry (text : Str) : ReadRes := readLoop [] ((fileLines text).filter keepLine)

/-! ### the cache (`utils.InsensitivePreservingDict`, keys compared lower-cased) -/

abbrev Cache := List (Str × Str)

def cacheSet (c : Cache) (k v : Str) : Cache :=
  match c with
  | [] => [(k, v)]
  | (k', v') :: rest =>
    if asciiLower k' = asciiLower k then (k, v) :: rest else (k', v') :: cacheSet rest k v

def cacheGet (c : Cache) (k : Str) : Option Str :=
  match c with
  | [] => none
  | (k', v') :: rest => if asciiLower k' = asciiLower k then some v' else cacheGet rest k

def cacheOf (assignments : List (Str × Str)) : Cache :=
  assignments.foldl (fun c kv => cacheSet c kv.1 kv.2) []

end C15
