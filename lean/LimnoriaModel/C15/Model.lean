/-
C15 — model of the configuration registry (src/registry.py, the parts of src/conf.py,
src/utils/str.py, src/utils/gen.py and plugins/Config/plugin.py it relies on).

  Codec.lean   unicode_escape encoder/decoder, repr(str), evaluation of one string literal
  Values.lean  String family, Boolean, Integer family, Space/Comma separated lists
  File.lean    registry.close line format, open_registry, escape/unescape/split/join of names
  Wrap.lean    NormalizedString.serialize: textwrap word runs, line filling, continuation lines
  Validators.lean  OnlySomeStrings, guarded String classes, ValidQuotes, Json/Float/Regexp layers (engines = parameters)
  Lazy.lean    lazy re-reading of stale nodes after a second open_registry in the same process
  PerlRe.lean  utils.str.perlReToPythonRe: delimiter, body scan with escapes, flags (the re engine is a parameter)
  Tree.lean    the live value tree: _wasSet, _setValue(inherited), _makeChild, getSpecific,
               Config reset, which nodes are written, start-up registration from the cache

This file ties them together: what a save followed by a load gives.
-/
import LimnoriaModel.C15.Tree
import LimnoriaModel.C15.Wrap
import LimnoriaModel.C15.Validators
import LimnoriaModel.C15.PerlRe
import LimnoriaModel.C15.Lazy
namespace C15
open Py

/-- the value tagged with its class, as the driver and the tree instantiation use it -/
inductive Val where
  | s (x : Str)
  | b (x : Bool)
  | i (x : Int)
  | l (x : List Str)
deriving DecidableEq, Repr

inductive ClassId where
  | str (k : StrClass)
  | bool
  | int (k : IntClass)
  | list (k : ListClass)
  | sock (pn pd : Nat)          -- conf.SocketTimeout while supybot.drivers.poll = pn/pd
deriving DecidableEq, Repr

def SetRes.map {α β : Type} (f : α → β) : SetRes α → SetRes β
  | .ok v => .ok (f v)
  | .error => .error
  | .unm => .unm

/-- `node.set(text)` of class `c` on a node whose value is `cur` -/
def ClassId.set (pr : Char → Bool) (c : ClassId) (cur : Val) (text : Str) : SetRes Val :=
  match c with
  | .str k => (k.set pr text).map Val.s
  | .bool => (boolSet (match cur with | .b x => x | _ => false) text).map Val.b
  | .int k => (k.set text).map Val.i
  | .list k => (k.set text).map Val.l
  | .sock pn pd => (socketTimeoutSet pn pd text).map Val.i

/-- `node.setValue(v)`: the stored value or the rejection -/
def ClassId.setValue (c : ClassId) (v : Val) : SetRes Val :=
  match c, v with
  | .str k, .s x => .ok (.s (k.setValue x))
  | .bool, .b x => .ok (.b x)
  | .int k, .i x => (k.setValue x).map Val.i
  | .list k, .l x => (k.setValue x).map Val.l
  | .sock pn pd, .i x => (socketTimeoutSetValue pn pd x).map Val.i
  | _, _ => .unm

/-- `str(node)` -/
def ClassId.show (pr : Char → Bool) (c : ClassId) (v : Val) : Str :=
  match c, v with
  | .str _, .s x => strStr pr x
  | .bool, .b x => boolStr x
  | .int _, .i x => intStr x
  | .list k, .l x => k.str x
  | .sock _ _, .i x => intStr x
  | _, _ => []

/-- `Value.serialize()`: the escaped `str(node)` -/
def ClassId.serialize (pr : Char → Bool) (c : ClassId) (v : Val) : Str := encodeUE (c.show pr v)

/-- `node.serialize()` of the node called `name`: NormalizedString wraps the escaped text into
continuation lines whose width depends on the name -/
def ClassId.serializeAt (pr : Char → Bool) (c : ClassId) (name : Str) (v : Val) : Str :=
  if c = .str .normalized then nsSerialize name (c.serialize pr v) else c.serialize pr v

def ClassId.cls (pr : Char → Bool) (c : ClassId) (dflt : Val) : Cls Val :=
  { set := c.set pr, str := c.show pr, dflt := dflt }

/-- the text of the file `registry.close` writes for the listed nodes (help blocks omitted) -/
def saveText (pr : Char → Bool) (c : ClassId) (nodes : List (Str × Val)) : Str :=
  fileText (nodes.map fun nv => ⟨[], nv.1, c.serializeAt pr nv.1 nv.2⟩)

/-- save the variable, start a fresh process on the written file -/
def saveLoad (pr : Char → Bool) (c : ClassId) (dflt : Val) (K : Kind) (B : Str) (s : St Val) : Boot Val :=
  match readRegistry (saveText pr c (s.var.dump B)) with
  | .ok as => boot (c.cls pr dflt) K B (cacheOf as)
  | .invalid => .refused
  | .unm => .unm

/-- does `str(node)` go through `node()`?  (everything but the String family, whose `__str__`
reads `self.value`) -/
def ClassId.strCalls : ClassId → Bool
  | .str _ => false
  | _ => true

end C15
