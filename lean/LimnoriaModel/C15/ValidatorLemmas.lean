/-
C15 — lemmas about the validators of `Validators.lean`.
-/
import LimnoriaModel.C15.Validators
import LimnoriaModel.C15.Lemmas
namespace C15
open Py


theorem find?_mem_pred {α : Type} (p : α → Bool) (l : List α) (x : α) (h : l.find? p = some x) : x ∈ l ∧ p x = true :=
  ⟨List.mem_of_find?_eq_some h, List.find?_some h⟩

theorem ossNormalize_mem (valid : List Str) (s : Str) (hs : valid.contains s = true) :
    valid.contains (ossNormalize valid s) = true := by
  unfold ossNormalize
  cases h : valid.find? (fun x => asciiLower x == asciiLower s) with
  | none => exact hs
  | some x => simpa using (find?_mem_pred _ _ _ h).1

theorem ossNormalize_idem (valid : List Str) (s : Str) :
    ossNormalize valid (ossNormalize valid s) = ossNormalize valid s := by
  unfold ossNormalize
  cases h : valid.find? (fun x => asciiLower x == asciiLower s) with
  | none => simp only [h]
  | some x =>
    have hx := (find?_mem_pred _ _ _ h).2
    have : (fun y => asciiLower y == asciiLower x) = (fun y => asciiLower y == asciiLower s) := by
      funext y
      have : asciiLower x = asciiLower s := by simpa using hx
      rw [this]
    simp only [this, h]

theorem oss_roundtrip_aux (hq : QuotesOk Gen.Registry.stringQuotes) (pr : Char → Bool) (valid : List Str) (s : Str)
    (hs : valid.contains s = true) :
    ossSet pr valid (strStr pr (ossNormalize valid s)) = .ok (ossNormalize valid s) := by
  unfold ossSet
  rw [strSet_strStr hq]
  simp only [SetRes.bind, ossSetValue, ossNormalize_mem valid s hs, if_true, ossNormalize_idem]

theorem guarded_roundtrip_aux (hq : QuotesOk Gen.Registry.stringQuotes) (pr : Char → Bool) (ok : Str → Bool) (v : Str)
    (h : ok v = true) : guardedStrSet pr ok (strStr pr v) = .ok v := by
  unfold guardedStrSet
  rw [strSet_strStr hq]
  simp [SetRes.bind, guardedSetValue, h]

end C15
