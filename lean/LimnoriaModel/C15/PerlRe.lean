/-
C15 — `utils.str.perlReToPythonRe` (src/utils/str.py:203-253), the surface syntax of the texts a
`registry.Regexp` accepts: `m/…/flags` or `/…/flags` with any non-alphanumeric delimiter, braces
in pairs, backslash escapes inside, single-letter flags.  The `re` engine itself (does the pattern
compile?) is a parameter of `Validators.regexpSet`; what is modelled here is everything Limnoria
does before calling it.
-/
import LimnoriaModel.C15.Values
namespace C15
open Py

/-- outcome of the surface parse: the pattern text handed to `re.compile`, the flag letters; or
ValueError; or outside the model (non-ASCII or backslash delimiter, non-ASCII flag letters) -/
inductive PerlRe where
  | ok (pattern : Str) (flags : Str)
  | bad
  | unm
deriving DecidableEq, Repr

def isAsciiAlnum (c : Char) : Bool :=
  let n := c.toNat
  (48 ≤ n && n ≤ 57) || (65 ≤ n && n ≤ 90) || (97 ≤ n && n ≤ 122)

/-- the body `((?:\\.|[^\\])*)` followed by the closer, greedy: the units are "backslash + one
non-newline character" or "one non-backslash character"; the body ends at the LAST unit boundary
where the closer stands.  Returns the body and the text after the closer. -/
def lastCloser (cl : Char) : Str → Option (Str × Str)
  | [] => none
  | [c] => if c = cl then some ([], []) else none
  | c :: y :: rest =>
    if c = '\\' then
      if y = '\n' then none
      else match lastCloser cl rest with
        | some (b, a) => some (c :: y :: b, a)
        | none => none
    else match lastCloser cl (y :: rest) with
      | some (b, a) => some (c :: b, a)
      | none => if c = cl then some ([], y :: rest) else none

/-- `str.replace(pat, rep)`: left to right, non-overlapping (`pat` non-empty) -/
def replaceSub (pat rep : Str) : Nat → Str → Str
  | 0, s => s
  | _, [] => []
  | fuel + 1, c :: cs =>
    if pat.isPrefixOf (c :: cs) ∧ ¬ pat.isEmpty then rep ++ replaceSub pat rep fuel ((c :: cs).drop pat.length)
    else c :: replaceSub pat rep fuel cs

def reEscapeChar (c : Char) : Str := if Gen.Registry.reEscapeSpecials.contains c then ['\\', c] else [c]

/-- the closer that belongs to an opener -/
def closerOf (sep : Char) : Char :=
  match (Gen.Registry.reOpeners.zip Gen.Registry.reClosers).find? (fun p => p.1 = sep) with
  | some p => p.2
  | none => sep

/-- `perlReToPythonRe(s)` up to the call of `re.compile(regexp, flag)` -/
def perlRe (s : Str) : PerlRe :=
  match s with
  | [] => .bad
  | [_] => .bad                                           -- _getSep: too short
  | c0 :: c1 :: _ =>
    let sep := if c0 = 'm' ∨ c0 = 's' then c1 else c0
    if 128 ≤ sep.toNat ∨ sep = '\\' then .unm
    else if isAsciiAlnum sep ∨ Gen.Registry.reClosers.contains sep then .bad
    else
      -- the matcher: an optional `m`, the opener, the body, the closer, the flags up to the end of the line
      let afterM : Option Str :=
        if c0 = 'm' ∧ c1 = sep then some (s.drop 2)        -- `m?` takes the m (sep is never 'm')
        else if c0 = sep then some (s.drop 1)
        else none
      match afterM with
      | none => .bad
      | some rest =>
        match lastCloser (closerOf sep) rest with
        | none => .bad
        | some (body, after) =>
          let flags := after.takeWhile (· ≠ '\n')
          let eo := reEscapeChar sep
          let ec := reEscapeChar (closerOf sep)
          let r1 := replaceSub ('\\' :: eo) eo (body.length + 1) body
          let r2 := if eo ≠ ec then replaceSub ('\\' :: ec) ec (r1.length + 1) r1 else r1
          if flags.any (fun c => 128 ≤ c.toNat) then .unm
          else
            let up := flags.map asciiUpperChar
            if up.all (fun c => Gen.Registry.reFlagLetters.contains c) then .ok r2 up else .bad

/-- `Regexp.set(s)` with the surface syntax modelled and the engine (`re.compile(pattern, flags)`)
as the only parameter -/
def regexpSetSurface {R : Type} (engine : Str → Str → Option R) (s : Str) : SetRes (Option (Str × R)) :=
  if s = [] then .ok none
  else match perlRe s with
    | .ok pat fl =>
      (match engine pat fl with
       | some r => .ok (some (s, r))
       | none => .error)
    | .bad => .error
    | .unm => .unm

end C15
