/-
C15 — `NormalizedString.serialize` (src/registry.py:720-735): the escaped text is cut into lines by
`textwrap.wrap(s, width=max(1, 76-len(name)-2), break_long_words=False, break_on_hyphens=False)`,
every line but the last gets a trailing backslash, every line but the first is indented by
`len(name)+2` blanks.

With these options `textwrap` splits the text into runs of blanks and runs of non-blanks
(`wordsep_simple_re`) and fills lines greedily, never cutting a word (`_wrap_chunks`); both are
modelled here.  The escaped text is printable ASCII, so the only blank is the space.
-/
import LimnoriaModel.C15.Values
namespace C15
open Py

/-- `TextWrapper._split_chunks` with `break_on_hyphens=False`: maximal runs of blanks / non-blanks -/
def chunkRuns : Str → List Str
  | [] => []
  | c :: cs =>
    match chunkRuns cs with
    | [] => [[c]]
    | r :: rs => if (c == ' ') = (r.head? == some ' ') then (c :: r) :: rs else [c] :: r :: rs

def isBlankChunk (c : Str) : Bool := c.all isSpace

/-- take chunks while they fit: returns the chunks of the line (reversed), their length, the rest -/
def fillLine (width : Nat) : List Str → List Str → Nat → List Str × Nat × List Str
  | [], cur, len => (cur, len, [])
  | c :: rest, cur, len =>
    if len + c.length ≤ width then fillLine width rest (c :: cur) (len + c.length)
    else (cur, len, c :: rest)

/-- the loop of `_wrap_chunks` (`break_long_words=False`, `drop_whitespace`, no indent, width ≥ 1);
`fuel` bounds the iterations (each one consumes a chunk) -/
def wrapLoop (width : Nat) : Nat → List Str → List Str → List Str
  | 0, _, lines => lines.reverse
  | _, [], lines => lines.reverse
  | fuel + 1, c :: rest, lines =>
    let chunks1 := if isBlankChunk c ∧ ¬ lines.isEmpty then rest else c :: rest
    match fillLine width chunks1 [] 0 with
    | (cur, _, rest1) =>
      let (cur2, rest2) : List Str × List Str :=
        match rest1 with
        | big :: more =>
          -- `_handle_long_word` without `break_long_words`: a word longer than the width gets a line of its own
          if big.length > width ∧ cur.isEmpty then ([big], more) else (cur, rest1)
        | [] => (cur, rest1)
      let cur3 := match cur2 with
        | last :: before => if isBlankChunk last then before else cur2
        | [] => cur2
      let lines' := if cur3.isEmpty then lines else (cur3.reverse.flatten) :: lines
      wrapLoop width fuel rest2 lines'

/-- `textwrap.wrap(text, width, break_long_words=False, break_on_hyphens=False)` -/
def wrapText (width : Nat) (text : Str) : List Str :=
  let chunks := chunkRuns text
  wrapLoop width (chunks.length + 1) chunks []

/-! ### the same on words

The escaped text of a normalised value has single blanks only, so the chunks are its words
alternating with one blank; on such a text `_wrap_chunks` amounts to: a word joins the current line
when `len + 1 + |word|` still fits, the first word of a line is always taken (a word longer than
the width gets a line of its own).  `NormalizedString.serialize` is modelled through this
word-level form, proved equal to `wrapText` on such texts (`wrap_models_agree`, WrapEquivLemmas)
and compared with the real `textwrap.wrap` on every run. -/

/-- the words of a text: maximal blank-free runs -/
def wordsOf (t : Str) : List Str := (splitP (fun c => c = ' ') t).filter (fun x => !x.isEmpty)

/-- fill one line: returns its words and the words left -/
def fillWords (width : Nat) : List Str → List Str → Nat → List Str × List Str
  | [], cur, _ => (cur.reverse, [])
  | w :: rest, cur, len =>
    if cur.isEmpty then fillWords width rest [w] w.length
    else if len + 1 + w.length ≤ width then fillWords width rest (w :: cur) (len + 1 + w.length)
    else (cur.reverse, w :: rest)

def wrapWordsLoop (width : Nat) : Nat → List Str → List (List Str)
  | 0, _ => []
  | _, [] => []
  | fuel + 1, w :: rest =>
    match fillWords width (w :: rest) [] 0 with
    | (line, rest') => line :: wrapWordsLoop width fuel rest'

/-- the lines of `textwrap.wrap`, as groups of words -/
def wrapWords (width : Nat) (ws : List Str) : List (List Str) := wrapWordsLoop width ws.length ws

def decorateLines (prefixLen : Nat) : Nat → List Str → List Str
  | _, [] => []
  | i, [l] => [(if i = 0 then l else List.replicate prefixLen ' ' ++ l)]
  | i, l :: rest => ((if i = 0 then l else List.replicate prefixLen ' ' ++ l) ++ ['\\']) :: decorateLines prefixLen (i + 1) rest

def nsWidth (name : Str) : Nat :=
  max Gen.Registry.wrapMinWidth (Gen.Registry.wrapWidth - (name.length + Gen.Registry.wrapPrefixExtra))

/-- `NormalizedString.serialize()` given the escaped text `Value.serialize` produced -/
def nsSerialize (name : Str) (escaped : Str) : Str :=
  let prefixLen := name.length + Gen.Registry.wrapPrefixExtra
  joinChar '\n' (decorateLines prefixLen 0 ((wrapWords (nsWidth name) (wordsOf escaped)).map (joinChar ' ')))

end C15
