/-
C15 — `NormalizedString.serialize` (src/registry.py:720-732): the escaped text is cut into lines by
`textwrap.wrap(s, width=76-len(name)-2)`, every line but the last gets a trailing backslash, every
line but the first is indented by `len(name)+2` blanks.

`textwrap`'s word splitter (`TextWrapper._split_chunks`, a regular expression over hyphens and
blanks) is a parameter: the chunks are an input.  `_wrap_chunks` itself is modelled (defaults:
`break_long_words`, `break_on_hyphens`, `drop_whitespace`, no indent, no `max_lines`).
-/
import LimnoriaModel.C15.Values
namespace C15
open Py

def isBlankChunk (c : Str) : Bool := c.all isSpace

/-- take chunks while they fit: returns the chunks of the line (reversed), their length, the rest -/
def fillLine (width : Nat) : List Str → List Str → Nat → List Str × Nat × List Str
  | [], cur, len => (cur, len, [])
  | c :: rest, cur, len =>
    if len + c.length ≤ width then fillLine width rest (c :: cur) (len + c.length)
    else (cur, len, c :: rest)

/-- `chunk.rfind('-', 0, limit)` -/
def rfindHyphen (chunk : Str) (limit : Nat) : Option Nat :=
  ((List.range (min limit chunk.length)).reverse.find? fun i => chunk[i]? = some '-')

/-- `_handle_long_word`: where to cut the chunk that is longer than the width -/
def longWordCut (chunk : Str) (spaceLeft : Nat) : Nat :=
  if chunk.length > spaceLeft then
    match rfindHyphen chunk spaceLeft with
    | some h => if h > 0 ∧ (chunk.take h).any (· ≠ '-') then h + 1 else spaceLeft
    | none => spaceLeft
  else spaceLeft

/-- the loop of `_wrap_chunks` (width ≥ 1); `fuel` bounds the iterations -/
def wrapLoop (width : Nat) : Nat → List Str → List Str → List Str
  | 0, _, lines => lines.reverse
  | _, [], lines => lines.reverse
  | fuel + 1, c :: rest, lines =>
    let chunks1 := if isBlankChunk c ∧ ¬ lines.isEmpty then rest else c :: rest
    match fillLine width chunks1 [] 0 with
    | (cur, len, rest1) =>
      let (cur2, rest2) : List Str × List Str :=
        match rest1 with
        | big :: more =>
          if big.length > width then
            let cut := longWordCut big (width - len)
            (big.take cut :: cur, big.drop cut :: more)
          else (cur, rest1)
        | [] => (cur, rest1)
      let cur3 := match cur2 with
        | last :: before => if isBlankChunk last then before else cur2
        | [] => cur2
      let lines' := if cur3.isEmpty then lines else (cur3.reverse.flatten) :: lines
      wrapLoop width fuel rest2 lines'

/-- `textwrap.wrap` after the word splitter; `none` = `ValueError('invalid width')` -/
def wrapChunks (width : Int) (chunks : List Str) : Option (List Str) :=
  if width ≤ 0 then none
  else some (wrapLoop width.toNat (2 * ((chunks.map List.length).sum + chunks.length) + 2) chunks [])

def decorateLines (prefixLen : Nat) : Nat → List Str → List Str
  | _, [] => []
  | i, [l] => [(if i = 0 then l else List.replicate prefixLen ' ' ++ l)]
  | i, l :: rest => ((if i = 0 then l else List.replicate prefixLen ' ' ++ l) ++ ['\\']) :: decorateLines prefixLen (i + 1) rest

/-- `NormalizedString.serialize()` given the chunks of the escaped text; `none` = it raises (and
`registry.close` then skips the value) -/
def nsSerialize (name : Str) (chunks : List Str) : Option Str :=
  let prefixLen := name.length + Gen.Registry.wrapPrefixExtra
  (wrapChunks ((Gen.Registry.wrapWidth : Int) - prefixLen) chunks).map fun lines =>
    joinChar '\n' (decorateLines prefixLen 0 lines)

end C15
