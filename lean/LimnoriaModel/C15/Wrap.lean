/-
C15 — `NormalizedString.serialize` (src/registry.py:720-735): the escaped text is cut into lines by
`textwrap.wrap(s, width=max(1, 76-len(name)-2), break_long_words=False, break_on_hyphens=False)`,
every line but the last gets a trailing backslash, every line but the first is indented by
`len(name)+2` blanks.

With these options `textwrap` splits the text into runs of blanks and runs of non-blanks
(`wordsep_simple_re`) and fills lines greedily, never cutting a word (`_wrap_chunks`); both are
modelled here.  The escaped text is printable ASCII, so the only blank is the space.
-/
import LimnoriaModel.C15.Values
namespace C15
open Py

/-- `TextWrapper._split_chunks` with `break_on_hyphens=False`: maximal runs of blanks / non-blanks -/
def chunkRuns : Str → List Str
  | [] => []
  | c :: cs =>
    match chunkRuns cs with
    | [] => [[c]]
    | r :: rs => if (c == ' ') = (r.head? == some ' ') then (c :: r) :: rs else [c] :: r :: rs

def isBlankChunk (c : Str) : Bool := c.all isSpace

/-- take chunks while they fit: returns the chunks of the line (reversed), their length, the rest -/
def fillLine (width : Nat) : List Str → List Str → Nat → List Str × Nat × List Str
  | [], cur, len => (cur, len, [])
  | c :: rest, cur, len =>
    if len + c.length ≤ width then fillLine width rest (c :: cur) (len + c.length)
    else (cur, len, c :: rest)

/-- the loop of `_wrap_chunks` (`break_long_words=False`, `drop_whitespace`, no indent, width ≥ 1);
`fuel` bounds the iterations (each one consumes a chunk) -/
def wrapLoop (width : Nat) : Nat → List Str → List Str → List Str
  | 0, _, lines => lines.reverse
  | _, [], lines => lines.reverse
  | fuel + 1, c :: rest, lines =>
    let chunks1 := if isBlankChunk c ∧ ¬ lines.isEmpty then rest else c :: rest
    match fillLine width chunks1 [] 0 with
    | (cur, _, rest1) =>
      let (cur2, rest2) : List Str × List Str :=
        match rest1 with
        | big :: more =>
          -- `_handle_long_word` without `break_long_words`: a word longer than the width gets a line of its own
          if big.length > width ∧ cur.isEmpty then ([big], more) else (cur, rest1)
        | [] => (cur, rest1)
      let cur3 := match cur2 with
        | last :: before => if isBlankChunk last then before else cur2
        | [] => cur2
      let lines' := if cur3.isEmpty then lines else (cur3.reverse.flatten) :: lines
      wrapLoop width fuel rest2 lines'

/-- `textwrap.wrap(text, width, break_long_words=False, break_on_hyphens=False)` -/
def wrapText (width : Nat) (text : Str) : List Str :=
  let chunks := chunkRuns text
  wrapLoop width (chunks.length + 1) chunks []

def decorateLines (prefixLen : Nat) : Nat → List Str → List Str
  | _, [] => []
  | i, [l] => [(if i = 0 then l else List.replicate prefixLen ' ' ++ l)]
  | i, l :: rest => ((if i = 0 then l else List.replicate prefixLen ' ' ++ l) ++ ['\\']) :: decorateLines prefixLen (i + 1) rest

/-- `NormalizedString.serialize()` given the escaped text `Value.serialize` produced -/
def nsSerialize (name : Str) (escaped : Str) : Str :=
  let prefixLen := name.length + Gen.Registry.wrapPrefixExtra
  let width := max Gen.Registry.wrapMinWidth (Gen.Registry.wrapWidth - prefixLen)
  joinChar '\n' (decorateLines prefixLen 0 (wrapText width escaped))

end C15
