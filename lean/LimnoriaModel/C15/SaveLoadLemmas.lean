/-
C15 — composition for the end-to-end theorem: every listed value becomes a "unit" of physical
lines the reader turns into one cache entry whose text the class reads back (one line for most
classes, continuation lines for NormalizedString); the start-up loop then rebuilds the tree.
-/
import LimnoriaModel.C15.BootLemmas
import LimnoriaModel.C15.WrapLemmas
namespace C15
open Py

/-- the physical lines of one saved value and the cache entry the reader makes of them -/
structure RUnit where
  name : Str
  phys : List Str
  text : Str

def RUnitOk (u : RUnit) : Prop :=
  (∀ l ∈ u.phys, keepLine l = true ∧ NoNL l) ∧
  ∀ rest, readLoop [] (u.phys ++ rest) = (readLoop [] rest).cons (u.name, u.text)

theorem readLoop_units (us : List RUnit) (h : ∀ u ∈ us, RUnitOk u) :
    readLoop [] (us.flatMap (·.phys)) = .ok (us.map fun u => (u.name, u.text)) := by
  induction us with
  | nil => rfl
  | cons u rest ih =>
    simp only [List.flatMap_cons, List.map_cons]
    rw [(h u (by simp)).2, ih (fun u' hu' => h u' (by simp [hu']))]
    rfl

theorem read_units (hdr : Str) (hh : HeaderOk hdr) (us : List RUnit) (h : ∀ u ∈ us, RUnitOk u) :
    readRegistry (hdr ++ linesText (us.flatMap (·.phys))) = .ok (us.map fun u => (u.name, u.text)) := by
  have htext : hdr ++ linesText (us.flatMap (·.phys)) = linesText (headerLines hdr ++ us.flatMap (·.phys)) := by
    rw [linesText_append, hh.1]
  rw [htext]
  unfold readRegistry
  have hall : ∀ l ∈ us.flatMap (·.phys), keepLine l = true ∧ NoNL l := by
    intro l hl
    rw [List.mem_flatMap] at hl
    obtain ⟨u, hu, hl⟩ := hl
    exact (h u hu).1 l hl
  rw [fileLines_lines _ (by
    intro l hl
    rw [List.mem_append] at hl
    rcases hl with hl | hl
    · exact (hh.2 l hl).1
    · exact (hall l hl).2)]
  simp only [List.filter_append]
  have h1 : (headerLines hdr).filter keepLine = [] := by
    rw [List.filter_eq_nil_iff]; intro l hl; simp [(hh.2 l hl).2]
  have h3 : (us.flatMap (·.phys)).filter keepLine = us.flatMap (·.phys) := by
    rw [List.filter_eq_self]; intro l hl; exact (hall l hl).1
  have h4 : [([] : Str)].filter keepLine = [] := by decide
  rw [h1, h3, h4]
  simp only [List.nil_append, List.append_nil]
  exact readLoop_units us h

/-- an ordinary value line as a unit -/
theorem plain_unit (name text : Str) (hn : GoodName name) :
    RUnitOk ⟨name, [valueContent name (encodeUE text)], text⟩ := by
  refine ⟨?_, ?_⟩
  · intro l hl
    simp only [List.mem_singleton] at hl; subst hl
    exact ⟨keepLine_content _ _ hn, noNL_of_plain _ (content_plain name _ hn (encodeUE_plain text))⟩
  · intro rest
    simp only [List.cons_append, List.nil_append]
    exact readLoop_value name (encodeUE text) text rest hn (encodeUE_plain text) (encodeUE_evenTail text) (decodeUE_encodeUE text)

/-- a NormalizedString value (wrapped into continuation lines) as a unit -/
theorem ns_unit (hq : QuotesOk Gen.Registry.stringQuotes) (hedge : Gen.Registry.nwEdgeBlanks = [' ', '\n', '\t', '\r'])
    (pr : Char → Bool) (name : Str) (hn : GoodName name) (v : Str) :
    ∃ u : RUnit, u.name = name ∧ RUnitOk u ∧
      valueLine name (nsSerialize name (encodeUE (strStr pr (normalizeNS v)))) = linesText u.phys ∧
      StrClass.set .normalized pr u.text = .ok (normalizeNS v) := by
  have hx := norm_normalizeNS hedge v
  have hs := norm_strStr pr _ hx
  obtain ⟨⟨sw, hsw, hs_eq⟩, _, _⟩ := hs
  have hswsp := words_blank4_isSp hsw
  have he : encodeUE (strStr pr (normalizeNS v)) = joinChar ' ' (sw.map encodeUE) := by rw [hs_eq, encodeUE_join]
  have hwords : wordsOf (encodeUE (strStr pr (normalizeNS v))) = sw.map encodeUE := by
    rw [he]; exact wordsOf_join _ (words_map_encode sw hswsp)
  obtain ⟨hflat, hgne⟩ := wrapWords_spec (nsWidth name) (sw.map encodeUE)
  obtain ⟨sg, hsg1, hsg2⟩ := unmap_partition encodeUE _ sw hflat
  have hgroups : Groups sg := by
    intro g hg
    constructor
    · intro e
      have : g.map encodeUE ∈ wrapWords (nsWidth name) (sw.map encodeUE) := by
        rw [hsg2]; exact List.mem_map.mpr ⟨g, hg, rfl⟩
      exact hgne _ this (by rw [e]; rfl)
    · intro w hw
      exact hsw w (by rw [← hsg1]; exact List.mem_flatten.mpr ⟨g, hg, hw⟩)
  have hlines : (wrapWords (nsWidth name) (sw.map encodeUE)).map (joinChar ' ') = (sg.map (joinChar ' ')).map encodeUE := by
    rw [hsg2, List.map_map, List.map_map]
    apply List.map_congr_left
    intro g _
    simp only [Function.comp]
    rw [encodeUE_join]
  have hP : 1 ≤ name.length + Gen.Registry.wrapPrefixExtra := by
    have := hn.1; cases name with
    | nil => exact absurd rfl this
    | cons a as => simp; omega
  have hser : nsSerialize name (encodeUE (strStr pr (normalizeNS v))) =
      joinChar '\n' (decorateLines (name.length + Gen.Registry.wrapPrefixExtra) 0 ((sg.map (joinChar ' ')).map encodeUE)) := by
    unfold nsSerialize
    simp only [hwords, hlines]
  have hlok : ∀ l ∈ (sg.map (joinChar ' ')).map encodeUE, LineOk l := by
    intro l hl
    simp only [List.mem_map] at hl
    obtain ⟨p, ⟨g, hg, rfl⟩, rfl⟩ := hl
    refine ⟨encodeUE_plain _, ?_⟩
    obtain ⟨hgne', hgw⟩ := hgroups g hg
    cases g with
    | nil => exact absurd rfl hgne'
    | cons w rest =>
      have hw := words_map_encode (w :: rest) (words_blank4_isSp hgw) (encodeUE w) (by simp)
      cases hew : encodeUE w with
      | nil => exact absurd hew hw.1
      | cons c cs =>
        refine ⟨c, ?_, ?_⟩
        · rw [encodeUE_join]
          exact mem_joinChar_of_mem _ (encodeUE w) c (by simp) (by rw [hew]; simp)
        · have := hw.2 c (by rw [hew]; simp); unfold isSp at this; simpa using this
  refine ⟨⟨name, physLines name (List.replicate (name.length + Gen.Registry.wrapPrefixExtra) ' ') ((sg.map (joinChar ' ')).map encodeUE),
      joinStr (List.replicate (name.length + Gen.Registry.wrapPrefixExtra) ' ') (sg.map (joinChar ' '))⟩, rfl, ⟨?_, ?_⟩, ?_, ?_⟩
  · exact physLines_ok _ hP name hn _ hlok
  · intro rest
    exact readLoop_phys _ hP name hn rest (sg.map (joinChar ' '))
  · simp only
    rw [hser, valueLine_phys]
  · have hnorm : Norm (joinChar ' ' sg.flatten) := by rw [hsg1, ← hs_eq]; exact norm_strStr pr _ hx
    show StrClass.set .normalized pr (gapJoin _ sg) = _
    unfold StrClass.set
    simp only [if_true]
    rw [normalizeNS_gapJoin hedge _ hP sg hgroups hnorm, hsg1, ← hs_eq, strSet_strStr hq]
    simp only [SetRes.bind, StrClass.setValue, normalizeNS_norm hedge _ hx]

theorem valueLine_single (name ser : Str) : valueLine name ser = linesText [valueContent name ser] := by
  simp [valueLine, valueContent, linesText]

/-- every listed value, of whatever class, is written as a unit the reader turns into a cache
entry the class reads back as that value -/
theorem entry_unit (hq : QuotesOk Gen.Registry.stringQuotes) (hedge : Gen.Registry.nwEdgeBlanks = [' ', '\n', '\t', '\r'])
    (pr : Char → Bool) (c : ClassId) (dflt : Val) (name : Str) (hn : GoodName name) (v : Val)
    (hrt : RT (c.cls pr dflt) v) :
    ∃ u : RUnit, u.name = name ∧ RUnitOk u ∧ valueLine name (c.serializeAt pr name v) = linesText u.phys ∧
      ∀ cur, (c.cls pr dflt).set cur u.text = .ok v := by
  by_cases hc : c = .str .normalized
  · subst hc
    have h0 := hrt dflt
    simp only [ClassId.cls, ClassId.set] at h0
    -- the value is a string, and a fixed point of normalize
    cases hres : StrClass.set .normalized pr (ClassId.show pr (.str .normalized) v) with
    | ok x =>
      rw [hres] at h0
      simp only [SetRes.map, SetRes.ok.injEq] at h0
      subst h0
      simp only [ClassId.show] at hres
      have hfix : ∃ w, x = normalizeNS w := by
        unfold StrClass.set at hres
        simp only [if_true] at hres
        cases h1 : strSet pr (normalizeNS (strStr pr x)) with
        | ok w => rw [h1] at hres; simp only [SetRes.bind, StrClass.setValue, SetRes.ok.injEq] at hres; exact ⟨w, hres.symm⟩
        | error => rw [h1] at hres; simp [SetRes.bind] at hres
        | unm => rw [h1] at hres; simp [SetRes.bind] at hres
      obtain ⟨w, hw⟩ := hfix
      obtain ⟨u, hu1, hu2, hu3, hu4⟩ := ns_unit hq hedge pr name hn w
      rw [← hw] at hu3 hu4
      refine ⟨u, hu1, hu2, ?_, ?_⟩
      · simp only [ClassId.serializeAt, if_true, ClassId.serialize, ClassId.show]
        exact hu3
      · intro cur
        simp only [ClassId.cls, ClassId.set, hu4, SetRes.map]
    | error => rw [hres] at h0; simp [SetRes.map] at h0
    | unm => rw [hres] at h0; simp [SetRes.map] at h0
  · refine ⟨⟨name, [valueContent name (encodeUE (c.show pr v))], c.show pr v⟩, rfl, plain_unit name _ hn, ?_, ?_⟩
    · simp only [ClassId.serializeAt, if_neg hc, ClassId.serialize]
      exact valueLine_single name _
    · intro cur; exact hrt cur

/-- the same for a whole list of listed values -/
theorem entries_units (hq : QuotesOk Gen.Registry.stringQuotes) (hedge : Gen.Registry.nwEdgeBlanks = [' ', '\n', '\t', '\r'])
    (pr : Char → Bool) (c : ClassId) (dflt : Val) : ∀ (es : List (Str × Val)),
    (∀ kv ∈ es, GoodName kv.1 ∧ RT (c.cls pr dflt) kv.2) →
    ∃ us : List RUnit, us.map (·.name) = es.map (·.1) ∧ (∀ u ∈ us, RUnitOk u) ∧
      ((es.map fun nv => (⟨[], nv.1, c.serializeAt pr nv.1 nv.2⟩ : Entry)).map Entry.text).flatten = linesText (us.flatMap (·.phys)) ∧
      ∀ p ∈ es.zip us, ∀ cur, (c.cls pr dflt).set cur p.2.text = .ok p.1.2 := by
  intro es
  induction es with
  | nil => intro _; exact ⟨[], rfl, by intro u hu; simp at hu, rfl, by intro p hp; simp at hp⟩
  | cons kv rest ih =>
    intro h
    obtain ⟨us, h1, h2, h3, h4⟩ := ih (fun kv' hkv' => h kv' (by simp [hkv']))
    obtain ⟨u, hu1, hu2, hu3, hu4⟩ := entry_unit hq hedge pr c dflt kv.1 (h kv (by simp)).1 kv.2 (h kv (by simp)).2
    refine ⟨u :: us, by simp [hu1, h1], ?_, ?_, ?_⟩
    · intro u' hu'
      rcases List.mem_cons.mp hu' with rfl | hu'
      · exact hu2
      · exact h2 u' hu'
    · simp only [List.map_cons, List.flatten_cons, List.flatMap_cons, linesText_append]
      rw [← h3]
      simp only [Entry.text, List.flatten_nil, List.nil_append, hu3]
    · intro p hp
      simp only [List.zip_cons_cons, List.mem_cons] at hp
      rcases hp with rfl | hp
      · exact hu4
      · exact h4 p hp

theorem zip_of_maps {α β γ : Type} (f : β → γ) (g : α → γ) : ∀ (es : List α) (us : List β), us.map f = es.map g →
    ∀ kv ∈ es, ∃ u ∈ us, (kv, u) ∈ es.zip us ∧ f u = g kv := by
  intro es
  induction es with
  | nil => intro us _ kv hkv; simp at hkv
  | cons e rest ih =>
    intro us h kv hkv
    cases us with
    | nil => simp at h
    | cons u us' =>
      simp only [List.map_cons, List.cons.injEq] at h
      rcases List.mem_cons.mp hkv with rfl | hkv'
      · exact ⟨u, by simp, by simp, h.1⟩
      · obtain ⟨u2, hu2, hz, hf⟩ := ih us' h.2 kv hkv'
        exact ⟨u2, by simp [hu2], by simp [hz], hf⟩

theorem saveLoad_normal_aux (hh : HeaderOk Gen.Registry.confFileHeader)
    (hq : QuotesOk Gen.Registry.stringQuotes) (hedge : Gen.Registry.nwEdgeBlanks = [' ', '\n', '\t', '\r'])
    (pr : Char → Bool) (c : ClassId) (dflt : Val) (K : Kind) (B : Str) (t : TreeSpec Val) (cache0 : Cache)
    (hK : K.chanV = true ∨ (K.netV = true ∧ t.chans = [] ∧ ∀ ns ∈ t.nets, ns.chans = []))
    (h : Storable pr c dflt B t) :
    ∃ cache', saveLoad pr c dflt K B ⟨t.build, cache0⟩ = .up ⟨t.build, cache'⟩ ∧ cache'.map (·.1) = t.keys B := by
  obtain ⟨us, hnames, huok, htext, hzip⟩ := entries_units hq hedge pr c dflt (t.entries B) (by
    intro kv hkv
    refine ⟨h.names kv.1 ?_, h.rt kv hkv⟩
    rw [← TreeSpec.entries_keys]
    exact List.mem_map.mpr ⟨kv, hkv, rfl⟩)
  have hkeys : (us.map fun u => (u.name, u.text)).map (·.1) = t.keys B := by
    rw [List.map_map, ← TreeSpec.entries_keys, ← hnames]; rfl
  refine ⟨us.map fun u => (u.name, u.text), ?_, hkeys⟩
  unfold saveLoad
  simp only
  rw [TreeSpec.build_dump B t h.sorted]
  unfold saveText fileText
  rw [htext, read_units _ hh us huok]
  simp only
  have hlow : lowKeys (us.map fun u => (u.name, u.text)) = (t.keys B).map asciiLower := by
    rw [← hkeys]; simp [lowKeys, List.map_map, Function.comp_def]
  have hnd : (lowKeys (us.map fun u => (u.name, u.text))).Nodup := by rw [hlow]; exact h.distinct
  rw [cacheOf_distinct _ hnd]
  have hcached : ∀ kv ∈ t.entries B, Cached (c.cls pr dflt) (us.map fun u => (u.name, u.text)) kv.1 kv.2 := by
    intro kv hkv
    obtain ⟨u, hu, hz, hf⟩ := zip_of_maps (fun u : RUnit => u.name) (fun kv : Str × Val => kv.1) _ us hnames kv hkv
    refine ⟨u.text, ?_, hzip (kv, u) hz⟩
    rw [← hf]
    exact cacheGet_mem _ _ _ (List.mem_map.mpr ⟨u, hu, rfl⟩) hnd
  apply boot_rebuilds (c.cls pr dflt) K B _ t hK hkeys
  refine ⟨h.rt (B, t.base) (by simp [TreeSpec.entries]), hcached (B, t.base) (by simp [TreeSpec.entries]), ?_, ?_, h.netsDistinct⟩
  · refine ⟨fun cv hcv => ⟨h.chans.1 cv hcv, h.rt (childName B cv.1, cv.2) (mem_entries_chan B t cv hcv),
      hcached (childName B cv.1, cv.2) (mem_entries_chan B t cv hcv)⟩, h.chans.2⟩
  · intro ns hns
    obtain ⟨hco, hkd⟩ := h.nets ns hns
    refine ⟨?_, ?_, hkd⟩
    · cases hs : ns.set with
      | some w =>
        have hm : (netName B ns.name, w) ∈ t.entries B :=
          mem_entries_net B t ns hns _ (by simp [NetSpec.entries, hs])
        exact ⟨h.rt (netName B ns.name, w) hm, hcached (netName B ns.name, w) hm⟩
      | none =>
        have := h.unset ns hns hs
        exact ⟨cacheGet_none _ _ (by rw [hlow]; exact this.1), this.2⟩
    · intro cv hcv
      have hm : (childName (netName B ns.name) cv.1, cv.2) ∈ t.entries B :=
        mem_entries_net B t ns hns _ (by
          simp only [NetSpec.entries, List.mem_append, List.mem_map]
          right; exact ⟨cv, hcv, rfl⟩)
      exact ⟨hco cv hcv, h.rt (childName (netName B ns.name) cv.1, cv.2) hm, hcached (childName (netName B ns.name) cv.1, cv.2) hm⟩

end C15
