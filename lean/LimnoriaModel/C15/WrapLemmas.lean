/-
C15 — NormalizedString at file level: the wrapped continuation lines are read back, glued with
their indentation, and normalise to the text that was saved.
-/
import LimnoriaModel.C15.NormLemmas
import LimnoriaModel.C15.Wrap
namespace C15
open Py









theorem fillWords_spec (width : Nat) : ∀ (ws cur : List Str) (len : Nat),
    (fillWords width ws cur len).1 ++ (fillWords width ws cur len).2 = cur.reverse ++ ws ∧
    ((cur ≠ [] ∨ ws ≠ []) → (fillWords width ws cur len).1 ≠ []) ∧
    (fillWords width ws cur len).2.length ≤ ws.length ∧
    (cur = [] → ws ≠ [] → (fillWords width ws cur len).2.length < ws.length) := by
  intro ws
  induction ws with
  | nil =>
    intro cur len
    simp only [fillWords, List.append_nil, List.length_nil, Nat.le_refl, true_and]
    refine ⟨?_, fun _ h => absurd rfl h⟩
    intro h; rcases h with h | h
    · simpa using h
    · exact absurd rfl h
  | cons w rest ih =>
    intro cur len
    simp only [fillWords]
    by_cases hc : cur.isEmpty = true
    · have hcn : cur = [] := by cases cur <;> simp_all
      subst hcn
      simp only [List.isEmpty_nil, if_true]
      obtain ⟨h1, h2, h3, _⟩ := ih [w] w.length
      refine ⟨by rw [h1]; simp, fun _ => h2 (Or.inl (by simp)), by simp; omega, fun _ _ => by simp; omega⟩
    · simp only [hc, Bool.false_eq_true, if_false]
      have hcn : cur ≠ [] := by cases cur <;> simp_all
      by_cases hf : len + 1 + w.length ≤ width
      · rw [if_pos hf]
        obtain ⟨h1, h2, h3, _⟩ := ih (w :: cur) (len + 1 + w.length)
        refine ⟨by rw [h1]; simp, fun _ => h2 (Or.inl (by simp)), by simp; omega, fun h => absurd h hcn⟩
      · rw [if_neg hf]
        refine ⟨rfl, fun _ => by simpa using hcn, by simp, fun h => absurd h hcn⟩

theorem wrapWordsLoop_spec (width : Nat) : ∀ (fuel : Nat) (ws : List Str), ws.length ≤ fuel →
    (wrapWordsLoop width fuel ws).flatten = ws ∧ ∀ g ∈ wrapWordsLoop width fuel ws, g ≠ [] := by
  intro fuel
  induction fuel with
  | zero => intro ws h; have : ws = [] := by cases ws <;> simp_all
            subst this; simp [wrapWordsLoop]
  | succ f ih =>
    intro ws h
    cases ws with
    | nil => simp [wrapWordsLoop]
    | cons w rest =>
      simp only [wrapWordsLoop]
      obtain ⟨h1, h2, _, h4⟩ := fillWords_spec width (w :: rest) [] 0
      have hlt := h4 rfl (by simp)
      obtain ⟨i1, i2⟩ := ih (fillWords width (w :: rest) [] 0).2 (by simp at h hlt; omega)
      refine ⟨?_, ?_⟩
      · simp only [List.flatten_cons, i1]
        simpa using h1
      · intro g hg
        simp only [List.mem_cons] at hg
        rcases hg with rfl | hg
        · exact h2 (Or.inr (by simp))
        · exact i2 g hg

theorem wrapWords_spec (width : Nat) (ws : List Str) :
    (wrapWords width ws).flatten = ws ∧ ∀ g ∈ wrapWords width ws, g ≠ [] :=
  wrapWordsLoop_spec width ws.length ws (Nat.le_refl _)



def isSp (c : Char) : Bool := c = ' '

theorem wordsOf_join (ws : List Str) (hw : Words isSp ws) : wordsOf (joinChar ' ' ws) = ws := by
  unfold wordsOf
  cases ws with
  | nil => rfl
  | cons w rest =>
    have := splitP_join isSp (by decide) _ hw (by simp)
    unfold isSp at this
    rw [this]
    exact filter_words isSp _ hw

theorem encChar_no_space (c : Char) (hc : c ≠ ' ') : encChar c ≠ [] ∧ ∀ x ∈ encChar c, x ≠ ' ' := by
  unfold encChar
  simp only
  split
  · exact ⟨by simp, by intro x hx; simp at hx; subst hx; decide⟩
  · split
    · exact ⟨by simp, by intro x hx; simp at hx; rcases hx with rfl | rfl <;> decide⟩
    · split
      · exact ⟨by simp, by intro x hx; simp at hx; rcases hx with rfl | rfl <;> decide⟩
      · split
        · exact ⟨by simp, by intro x hx; simp at hx; rcases hx with rfl | rfl <;> decide⟩
        · split
          · refine ⟨by unfold hexEscape; split <;> (try split) <;> simp, ?_⟩
            intro x hx
            have := hexEscape_not_blank _ x hx
            unfold blank4 at this; simp at this; exact this.1.1.1
          · exact ⟨by simp, by intro x hx; simp at hx; subst hx; exact hc⟩

theorem encChar_space : encChar ' ' = [' '] := by decide

theorem words_map_encode (sw : List Str) (hw : Words isSp sw) : Words isSp (sw.map encodeUE) := by
  intro w hwm
  rw [List.mem_map] at hwm
  obtain ⟨w0, hw0, rfl⟩ := hwm
  obtain ⟨hne, hfree⟩ := hw w0 hw0
  have hns : ∀ c ∈ w0, c ≠ ' ' := fun c hc => by have := hfree c hc; unfold isSp at this; simpa using this
  constructor
  · cases w0 with
    | nil => exact absurd rfl hne
    | cons a as =>
      simp only [encodeUE, List.flatMap_cons]
      intro e
      exact (encChar_no_space a (hns a (by simp))).1 (List.append_eq_nil_iff.mp e).1
  · intro x hx
    simp only [encodeUE, List.mem_flatMap] at hx
    obtain ⟨c, hc, hxc⟩ := hx
    have := (encChar_no_space c (hns c hc)).2 x hxc
    unfold isSp; simpa using this

theorem encodeUE_join (sw : List Str) : encodeUE (joinChar ' ' sw) = joinChar ' ' (sw.map encodeUE) := by
  unfold encodeUE
  exact flatMap_joinChar encChar encChar_space sw

theorem encodeUE_append (a b : Str) : encodeUE (a ++ b) = encodeUE a ++ encodeUE b := by
  simp [encodeUE]

theorem encodeUE_spaces (k : Nat) : encodeUE (List.replicate k ' ') = List.replicate k ' ' := by
  induction k with
  | zero => rfl
  | succ k ih => simp only [List.replicate_succ, encodeUE, List.flatMap_cons, encChar_space] at ih ⊢; rw [ih]; rfl

/-- a partition of `sw.map f` is the image of a partition of `sw` -/
theorem unmap_partition {α β : Type} (f : α → β) : ∀ (groups : List (List β)) (sw : List α),
    groups.flatten = sw.map f → ∃ sg : List (List α), sg.flatten = sw ∧ groups = sg.map (List.map f) := by
  intro groups
  induction groups with
  | nil => intro sw h; simp at h; subst h; exact ⟨[], rfl, rfl⟩
  | cons g gs ih =>
    intro sw h
    simp only [List.flatten_cons] at h
    have hlen : g.length ≤ sw.length := by
      have := congrArg List.length h; simp at this; omega
    have h1 : g = (sw.take g.length).map f := by
      have := congrArg (List.take g.length) h
      rw [List.take_left' rfl, ← List.map_take] at this
      exact this
    have h2 : gs.flatten = (sw.drop g.length).map f := by
      have := congrArg (List.drop g.length) h
      rw [List.drop_left' rfl, ← List.map_drop] at this
      exact this
    obtain ⟨sg, hs1, hs2⟩ := ih _ h2
    refine ⟨sw.take g.length :: sg, ?_, ?_⟩
    · simp [hs1]
    · simp only [List.map_cons]; rw [← h1, ← hs2]



theorem splitP_append_sep (p : Char → Bool) (c : Char) (hc : p c = true) (a b : Str) :
    splitP p (a ++ c :: b) = splitP p a ++ splitP p b := by
  induction a with
  | nil => simp [splitP, hc]
  | cons x xs ih =>
    simp only [List.cons_append, splitP]
    by_cases hx : p x = true
    · simp only [hx, if_true, ih, List.cons_append]
    · simp only [hx, Bool.false_eq_true, if_false, ih]
      cases hs : splitP p xs with
      | nil => exact absurd hs (splitP_ne_nil p xs)
      | cons q qs => simp

theorem wordsOf_append_space (a b : Str) : wordsOf (a ++ ' ' :: b) = wordsOf a ++ wordsOf b := by
  unfold wordsOf
  rw [splitP_append_sep _ ' ' (by simp) a b, List.filter_append]

theorem wordsOf_nil : wordsOf [] = [] := by decide

theorem wordsOf_spaces (k : Nat) (b : Str) : wordsOf (List.replicate k ' ' ++ b) = wordsOf b := by
  induction k with
  | zero => simp
  | succ k ih =>
    rw [List.replicate_succ, List.cons_append]
    have := wordsOf_append_space [] (List.replicate k ' ' ++ b)
    simp only [List.nil_append] at this
    rw [this, wordsOf_nil, ih]; rfl

theorem wordsOf_gap (a b : Str) (k : Nat) : wordsOf (a ++ (List.replicate (k + 1) ' ' ++ b)) = wordsOf a ++ wordsOf b := by
  rw [List.replicate_succ, List.cons_append, wordsOf_append_space, wordsOf_spaces]

/-- the text the reader reassembles from the continuation lines: the groups of words, each joined by
single blanks, glued with the indentation -/
def gapJoin (P : Nat) (sg : List (List Str)) : Str := joinStr (List.replicate P ' ') (sg.map (joinChar ' '))

theorem wordsOf_gapJoin (P : Nat) (hP : 1 ≤ P) (sg : List (List Str)) (hw : ∀ g ∈ sg, Words isSp g) :
    wordsOf (gapJoin P sg) = sg.flatten := by
  induction sg with
  | nil => rfl
  | cons g rest ih =>
    have hg := wordsOf_join g (hw g (by simp))
    cases rest with
    | nil => simp [gapJoin, joinStr, hg]
    | cons g2 r2 =>
      have ih' := ih (fun x hx => hw x (by simp [hx]))
      obtain ⟨k, hk⟩ : ∃ k, P = k + 1 := ⟨P - 1, by omega⟩
      simp only [gapJoin, List.map_cons, joinStr, List.flatten_cons] at ih' ⊢
      rw [List.append_assoc, hk, wordsOf_gap, hg, ← hk, ih']

theorem encodeUE_gapJoin (P : Nat) (sg : List (List Str)) :
    encodeUE (gapJoin P sg) = gapJoin P (sg.map (List.map encodeUE)) := by
  induction sg with
  | nil => rfl
  | cons g rest ih =>
    cases rest with
    | nil => simp [gapJoin, joinStr, encodeUE_join]
    | cons g2 r2 =>
      simp only [gapJoin, List.map_cons, joinStr] at ih ⊢
      rw [encodeUE_append, encodeUE_append, encodeUE_join, encodeUE_spaces, ih]

theorem joinStr_head (sep : Str) (x : Str) (xs : List Str) (a : Char) (as : Str) (hx : x = a :: as) :
    (joinStr sep (x :: xs)).head? = some a := by
  subst hx; cases xs <;> simp [joinStr]

theorem joinStr_getLast (sep : Str) (xs : List Str) (q : Str) (b : Char) (hq : q.getLast? = some b) :
    (joinStr sep (xs ++ [q])).getLast? = some b := by
  induction xs with
  | nil => simpa [joinStr] using hq
  | cons x rest ih =>
    cases hr : rest ++ [q] with
    | nil => simp at hr
    | cons y ys =>
      simp only [List.cons_append, hr, joinStr]
      rw [hr] at ih
      have hne : joinStr sep (y :: ys) ≠ [] := by intro e; rw [e] at ih; simp at ih
      rw [List.getLast?_append]
      cases hj : joinStr sep (y :: ys) with
      | nil => exact absurd hj hne
      | cons j0 jr => rw [hj] at ih; rw [ih]; rfl



/-- groups of words: every group and every word non-empty -/
def Groups (sg : List (List Str)) : Prop := ∀ g ∈ sg, g ≠ [] ∧ Words blank4 g

theorem words_blank4_isSp {g : List Str} (h : Words blank4 g) : Words isSp g :=
  Words.mono (by intro c hc; unfold blank4 at hc; unfold isSp; simp at hc; simp [hc.1.1.1]) h

theorem gapJoin_head (P : Nat) (sg : List (List Str)) (hg : Groups sg) :
    (gapJoin P sg).head? = (joinChar ' ' sg.flatten).head? := by
  cases sg with
  | nil => rfl
  | cons g1 sgr =>
    obtain ⟨hne, hw⟩ := hg g1 (by simp)
    cases g1 with
    | nil => exact absurd rfl hne
    | cons w1 g1r =>
      have hw1 := (hw w1 (by simp)).1
      cases w1 with
      | nil => exact absurd rfl hw1
      | cons a w1r =>
        have e1 : joinChar ' ' ((a :: w1r) :: g1r) = a :: (joinChar ' ' ((a :: w1r) :: g1r)).tail := by
          cases g1r <;> simp [joinChar]
        unfold gapJoin
        simp only [List.map_cons, List.flatten_cons, List.cons_append]
        rw [joinStr_head _ _ _ a _ e1, joinChar_head _ _ a w1r rfl]

theorem gapJoin_last (P : Nat) (sg : List (List Str)) (hg : Groups sg) :
    (gapJoin P sg).getLast? = (joinChar ' ' sg.flatten).getLast? := by
  cases hsg : sg with
  | nil => rfl
  | cons g0 sgr =>
    rw [← hsg]
    have hne : sg ≠ [] := by rw [hsg]; simp
    have hsplit := (List.dropLast_concat_getLast hne).symm
    generalize sg.dropLast = init at hsplit
    generalize hgl : sg.getLast hne = gl at hsplit
    have hglm : gl ∈ sg := by rw [← hgl]; exact List.getLast_mem hne
    obtain ⟨hglne, hglw⟩ := hg gl hglm
    have hs2 := (List.dropLast_concat_getLast hglne).symm
    generalize gl.dropLast = ginit at hs2
    generalize hwl : gl.getLast hglne = wl at hs2
    have hwlm : wl ∈ gl := by rw [← hwl]; exact List.getLast_mem hglne
    have hwlne := (hglw wl hwlm).1
    obtain ⟨b, hb⟩ : ∃ b, wl.getLast? = some b := by
      cases h : wl.getLast? with
      | none => exact absurd (List.getLast?_eq_none_iff.mp h) hwlne
      | some b => exact ⟨b, rfl⟩
    have hq : (joinChar ' ' gl).getLast? = some b := by rw [hs2]; exact joinChar_getLast ginit wl b hb
    have h1 : (gapJoin P sg).getLast? = some b := by
      unfold gapJoin
      rw [hsplit, List.map_append, List.map_cons, List.map_nil]
      exact joinStr_getLast _ _ _ b hq
    have h2 : (joinChar ' ' sg.flatten).getLast? = some b := by
      rw [hsplit, List.flatten_append, hs2]
      simp only [List.flatten_cons, List.flatten_nil, List.append_nil]
      rw [← List.append_assoc]
      exact joinChar_getLast _ wl b hb
    rw [h1, h2]

theorem mem_joinStr (sep : Str) (xs : List Str) (c : Char) (h : c ∈ joinStr sep xs) : c ∈ sep ∨ ∃ x ∈ xs, c ∈ x := by
  induction xs with
  | nil => simp [joinStr] at h
  | cons x rest ih =>
    cases rest with
    | nil => simp only [joinStr] at h; exact Or.inr ⟨x, by simp, h⟩
    | cons y ys =>
      simp only [joinStr, List.mem_append] at h
      rcases h with (h | h) | h
      · exact Or.inr ⟨x, by simp, h⟩
      · exact Or.inl h
      · rcases ih h with h' | ⟨z, hz, hc⟩
        · exact Or.inl h'
        · exact Or.inr ⟨z, by simp [hz], hc⟩

/-- the reassembled text normalises to the text that was saved -/
theorem normalizeNS_gapJoin (hedge : Gen.Registry.nwEdgeBlanks = [' ', '\n', '\t', '\r'])
    (P : Nat) (hP : 1 ≤ P) (sg : List (List Str)) (hg : Groups sg)
    (hnorm : Norm (joinChar ' ' sg.flatten)) :
    normalizeNS (gapJoin P sg) = joinChar ' ' sg.flatten := by
  have hhead : ∀ c, (gapJoin P sg).head? = some c → isSpace c = false := by
    intro c hc; rw [gapJoin_head P sg hg] at hc; exact hnorm.2.1 c hc
  have hlast : ∀ c, (gapJoin P sg).getLast? = some c → isSpace c = false := by
    intro c hc; rw [gapJoin_last P sg hg] at hc; exact hnorm.2.2 c hc
  unfold normalizeNS strip
  rw [lstripP_id _ _ hhead, rstripP_id _ _ hlast]
  unfold normalizeWhitespace
  cases hh : (gapJoin P sg).head? with
  | none =>
    have : gapJoin P sg = [] := by cases h : gapJoin P sg <;> simp_all
    have h2 : (joinChar ' ' sg.flatten).head? = none := by rw [← gapJoin_head P sg hg, hh]
    have : joinChar ' ' sg.flatten = [] := by cases h : joinChar ' ' sg.flatten <;> simp_all
    simp [this]
  | some a =>
    cases hl : (gapJoin P sg).getLast? with
    | none => cases h : gapJoin P sg <;> simp_all
    | some b =>
      simp only
      have hfree : ∀ c ∈ gapJoin P sg, (c = '\r' || c = '\n') = false ∧ (c = '\t') = false := by
        intro c hc
        unfold gapJoin at hc
        rcases mem_joinStr _ _ c hc with h | ⟨x, hx, hcx⟩
        · have := List.eq_of_mem_replicate h; subst this; decide
        · rw [List.mem_map] at hx
          obtain ⟨g, hgm, rfl⟩ := hx
          rcases mem_joinChar g c hcx with rfl | ⟨w, hwm, hcw⟩
          · decide
          · have := ((hg g hgm).2 w hwm).2 c hcw
            have := not_blank4_of this
            exact ⟨this.1, this.2.1⟩
      rw [collapse_id_of_free (fun c => c = '\r' || c = '\n') (gapJoin P sg) (fun c hc => (hfree c hc).1)]
      rw [collapse_id_of_free (fun c => c = '\t') (gapJoin P sg) (fun c hc => by simpa using (hfree c hc).2)]
      have h3 : collapse (fun c => c = ' ') (gapJoin P sg) = joinChar ' ' sg.flatten := by
        have := wordsOf_gapJoin P hP sg (fun g hgm => words_blank4_isSp (hg g hgm).2)
        unfold wordsOf at this
        unfold collapse
        rw [this]
      rw [h3, hedge]
      have ha := not_blank4_of (blank4_isSpace (hhead a hh))
      have hb := not_blank4_of (blank4_isSpace (hlast b hl))
      simp at ha hb
      simp [ha, hb]



/-! ### the reader on continuation lines -/

def EvenTail (l : Str) : Prop := (l.reverse.takeWhile (· = '\\')).length % 2 = 0

theorem readLoop_cont (acc body : Str) (rest : List Str) (he : EvenTail body) :
    readLoop acc ((body ++ ['\\']) :: rest) = readLoop (acc ++ body) rest := by
  have h1 : rstripCRLF (body ++ ['\\']) = body ++ ['\\'] :=
    rstripP_id _ _ (by intro c hc; simp at hc; subst hc; decide)
  have h2 : oddTrailingBackslashes (body ++ ['\\']) = true := by
    unfold oddTrailingBackslashes
    unfold EvenTail at he
    simp only [List.reverse_append, List.reverse_cons, List.reverse_nil, List.nil_append, List.cons_append,
      List.takeWhile, decide_true, List.length_cons]
    simp; omega
  simp only [readLoop, h1, h2, if_true]
  simp

theorem readLoop_final (acc line : Str) (rest : List Str) (name ser t : Str) (hn : GoodName name)
    (hacc : acc ++ line = valueContent name ser) (hpl : ∀ x ∈ line, Plain x) (hne : line ≠ []) (he : EvenTail line)
    (hps : ∀ x ∈ ser, Plain x) (hd : decodeUE ser = .ok t) :
    readLoop acc (line :: rest) = (readLoop [] rest).cons (name, t) := by
  have h1 : rstripCRLF line = line := rstripP_id _ _ (fun c hc => plain_not_crlf (all_last hpl hc))
  have h2 : oddTrailingBackslashes line = false := by
    unfold oddTrailingBackslashes; unfold EvenTail at he; simp; omega
  have h3 : splitKV false (valueContent name ser) = some (name, ser) :=
    splitKV_name name ser false (fun x hx => (hn.2.1 x hx).2) hn.2.2.2
  have h4 : stripCRLF ser = ser := by
    unfold stripCRLF
    rw [lstripP_id _ _ (fun c hc => plain_not_crlf (all_head hps hc)),
        rstripP_id _ _ (fun c hc => plain_not_crlf (all_last hps hc))]
  have h5 : strip name = name := by
    unfold strip
    rw [lstripP_id _ _ (fun c hc => by have := all_head hn.2.1 hc; exact plain_nospace this.1 this.2),
        rstripP_id _ _ (fun c hc => by have := all_last hn.2.1 hc; exact plain_nospace this.1 this.2)]
  simp only [readLoop, h1, h2, Bool.false_eq_true, if_false, hacc, h3, h4, hd, h5]

theorem evenTail_prefix (pre l : Str) (hp : ∀ x, pre.getLast? = some x → x ≠ '\\') (hl : EvenTail l) : EvenTail (pre ++ l) := by
  unfold EvenTail at *
  rw [List.reverse_append, takeWhile_append_stop _ _ _ (by
    intro x hx; rw [List.head?_reverse] at hx; simpa using hp x hx)]
  exact hl

def tailPhys (ind : Str) : List Str → List Str
  | [] => []
  | [l] => [ind ++ l]
  | l :: rest => (ind ++ l ++ ['\\']) :: tailPhys ind rest

def physLines (name ind : Str) : List Str → List Str
  | [] => [name ++ [':', ' ']]
  | [l] => [name ++ ':' :: ' ' :: l]
  | l :: rest => (name ++ ':' :: ' ' :: l ++ ['\\']) :: tailPhys ind rest

def gapTail (ind : Str) (ls : List Str) : Str := (ls.map (ind ++ ·)).flatten

theorem joinStr_eq_gapTail (ind l : Str) (ls : List Str) : joinStr ind (l :: ls) = l ++ gapTail ind ls := by
  induction ls generalizing l with
  | nil => simp [joinStr, gapTail]
  | cons m ms ih => simp only [joinStr, gapTail, List.map_cons, List.flatten_cons] at ih ⊢; rw [ih]; simp

theorem encodeUE_evenTail' (t : Str) : EvenTail (encodeUE t) := encodeUE_evenTail t

theorem readLoop_tail (P : Nat) (hP : 1 ≤ P) (name : Str) (hn : GoodName name) (rest : List Str) :
    ∀ (ps : List Str) (preU : Str), ps ≠ [] →
    readLoop (name ++ ':' :: ' ' :: encodeUE preU) (tailPhys (List.replicate P ' ') (ps.map encodeUE) ++ rest) =
      (readLoop [] rest).cons (name, preU ++ gapTail (List.replicate P ' ') ps) := by
  have hindl : ∀ x, (List.replicate P ' ').getLast? = some x → x ≠ '\\' := by
    intro x hx
    have := List.mem_of_getLast? hx
    have := List.eq_of_mem_replicate this
    subst this; decide
  have hindp : ∀ x ∈ List.replicate P ' ', Plain x := by
    intro x hx; have := List.eq_of_mem_replicate hx; subst this; decide
  intro ps
  induction ps with
  | nil => intro _ h; exact absurd rfl h
  | cons p more ih =>
    intro preU _
    cases more with
    | nil =>
      simp only [List.map_cons, List.map_nil, tailPhys, List.cons_append, List.nil_append]
      have hser : encodeUE preU ++ (List.replicate P ' ' ++ encodeUE p) = encodeUE (preU ++ (List.replicate P ' ' ++ p)) := by
        rw [encodeUE_append, encodeUE_append, encodeUE_spaces]
      rw [readLoop_final _ (List.replicate P ' ' ++ encodeUE p) rest name (encodeUE (preU ++ (List.replicate P ' ' ++ p)))
        (preU ++ (List.replicate P ' ' ++ p)) hn
        (by simp only [valueContent, ← hser]; simp)
        (by intro x hx; rw [List.mem_append] at hx; rcases hx with hx | hx
            · exact hindp x hx
            · exact encodeUE_plain p x hx)
        (by intro e; have := congrArg List.length e; simp at this; omega)
        (evenTail_prefix _ _ hindl (encodeUE_evenTail' p))
        (encodeUE_plain _) (decodeUE_encodeUE _)]
      simp [gapTail]
    | cons q r =>
      simp only [List.map_cons, tailPhys, List.cons_append]
      rw [readLoop_cont _ (List.replicate P ' ' ++ encodeUE p) _ (evenTail_prefix _ _ hindl (encodeUE_evenTail' p))]
      have hacc : name ++ ':' :: ' ' :: encodeUE preU ++ (List.replicate P ' ' ++ encodeUE p) =
          name ++ ':' :: ' ' :: encodeUE (preU ++ (List.replicate P ' ' ++ p)) := by
        rw [encodeUE_append, encodeUE_append, encodeUE_spaces]; simp
      rw [hacc]
      have := ih (preU ++ (List.replicate P ' ' ++ p)) (by simp)
      simp only [List.map_cons] at this
      rw [this]
      simp [gapTail]

/-- the reader on the physical lines of one wrapped value: the cache text is the unescaped line
texts glued with the indentation -/
theorem readLoop_phys (P : Nat) (hP : 1 ≤ P) (name : Str) (hn : GoodName name) (rest : List Str) (ps : List Str) :
    readLoop [] (physLines name (List.replicate P ' ') (ps.map encodeUE) ++ rest) =
      (readLoop [] rest).cons (name, joinStr (List.replicate P ' ') ps) := by
  have hpre : ∀ x, (name ++ [':', ' ']).getLast? = some x → x ≠ '\\' := by
    intro x hx; rw [List.getLast?_append] at hx; simp at hx; subst hx; decide
  cases ps with
  | nil =>
    simp only [List.map_nil, physLines, List.cons_append, List.nil_append, joinStr]
    exact readLoop_final [] _ rest name [] [] hn (by simp [valueContent])
      (by intro x hx; simp only [List.mem_append, List.mem_cons, List.not_mem_nil, or_false] at hx
          rcases hx with hx | rfl | rfl
          · exact (hn.2.1 x hx).1
          · decide
          · decide)
      (by simp) (by unfold EvenTail; simp) (by intro x hx; simp at hx) (by decide)
  | cons p more =>
    cases more with
    | nil =>
      simp only [List.map_cons, List.map_nil, physLines, List.cons_append, List.nil_append, joinStr]
      exact readLoop_final [] _ rest name (encodeUE p) p hn (by simp [valueContent])
        (content_plain name (encodeUE p) hn (encodeUE_plain p))
        (by intro e; have := congrArg List.length e; simp at this)
        (by have := evenTail_prefix (name ++ [':', ' ']) _ hpre (encodeUE_evenTail' p); simpa using this)
        (encodeUE_plain p) (decodeUE_encodeUE p)
    | cons q r =>
      simp only [List.map_cons, physLines, List.cons_append]
      have hb : name ++ ':' :: ' ' :: encodeUE p ++ ['\\'] = (name ++ ':' :: ' ' :: encodeUE p) ++ ['\\'] := by simp
      rw [hb, readLoop_cont [] _ _ (by have := evenTail_prefix (name ++ [':', ' ']) _ hpre (encodeUE_evenTail' p); simpa using this)]
      simp only [List.nil_append]
      have := readLoop_tail P hP name hn rest (q :: r) p (by simp)
      simp only [List.map_cons] at this
      rw [this, joinStr_eq_gapTail]



/-! ### the file of one wrapped value -/

theorem decorate_tail (P : Nat) : ∀ (ls : List Str) (i : Nat),
    decorateLines P (i + 1) ls = tailPhys (List.replicate P ' ') ls := by
  intro ls
  induction ls with
  | nil => intro i; rfl
  | cons l rest ih =>
    intro i
    cases rest with
    | nil => simp [decorateLines, tailPhys]
    | cons m ms =>
      simp only [decorateLines, tailPhys]
      rw [ih (i + 1)]
      simp

theorem joinChar_nl (x : Str) (xs : List Str) : joinChar '\n' (x :: xs) ++ ['\n'] = linesText (x :: xs) := by
  induction xs generalizing x with
  | nil => simp [joinChar, linesText]
  | cons y ys ih =>
    simp only [joinChar, List.append_assoc, List.cons_append]
    rw [ih y]
    simp [linesText]

theorem valueLine_phys (name : Str) (P : Nat) (lines : List Str) :
    valueLine name (joinChar '\n' (decorateLines P 0 lines)) = linesText (physLines name (List.replicate P ' ') lines) := by
  unfold valueLine
  cases lines with
  | nil => simp [decorateLines, joinChar, physLines, linesText]
  | cons l rest =>
    cases rest with
    | nil => simp [decorateLines, joinChar, physLines, linesText]
    | cons m ms =>
      simp only [decorateLines, physLines]
      rw [decorate_tail P (m :: ms) 0]
      have := joinChar_nl (l ++ ['\\']) (tailPhys (List.replicate P ' ') (m :: ms))
      simp only [if_true] at this ⊢
      rw [this]
      simp [linesText]

theorem mem_dropWhile_of_not {α : Type} (p : α → Bool) (l : List α) (x : α) (hx : x ∈ l) (hp : p x = false) :
    x ∈ l.dropWhile p := by
  induction l with
  | nil => simp at hx
  | cons a as ih =>
    simp only [List.dropWhile]
    split
    · rename_i ha
      rcases List.mem_cons.mp hx with rfl | hx'
      · rw [hp] at ha; simp at ha
      · exact ih hx'
    · exact hx

theorem keepLine_of (l : Str) (h1 : l.head? ≠ some '#') (x : Char) (hx : x ∈ l) (hs : isSpace x = false) : keepLine l = true := by
  unfold keepLine
  have h2 : strip l ≠ [] := by
    unfold strip rstripP
    intro e
    have hm : x ∈ lstripP isSpace l := mem_dropWhile_of_not isSpace l x hx hs
    have := dropWhile_ne_nil isSpace (lstripP isSpace l).reverse x (by simpa using hm) hs
    apply this
    simpa using e
  simp [h1, h2]



/-- an encoded line: printable, with at least one non-blank character -/
def LineOk (l : Str) : Prop := (∀ x ∈ l, Plain x) ∧ ∃ x ∈ l, x ≠ ' '

theorem tailPhys_ok (P : Nat) (hP : 1 ≤ P) : ∀ (ls : List Str), (∀ l ∈ ls, LineOk l) →
    ∀ q ∈ tailPhys (List.replicate P ' ') ls, keepLine q = true ∧ NoNL q := by
  intro ls
  induction ls with
  | nil => intro _ q hq; simp [tailPhys] at hq
  | cons l rest ih =>
    intro hls q hq
    obtain ⟨hpl, x, hx, hxs⟩ := hls l (by simp)
    have hind : ∀ y ∈ List.replicate P ' ', Plain y := by
      intro y hy; have := List.eq_of_mem_replicate hy; subst this; decide
    have hhead : ∀ tail : Str, (List.replicate P ' ' ++ tail).head? ≠ some '#' := by
      intro tail
      obtain ⟨k, hk⟩ : ∃ k, P = k + 1 := ⟨P - 1, by omega⟩
      rw [hk, List.replicate_succ]; simp
    have key : ∀ suffix : Str, (∀ y ∈ suffix, Plain y) →
        keepLine (List.replicate P ' ' ++ l ++ suffix) = true ∧ NoNL (List.replicate P ' ' ++ l ++ suffix) := by
      intro suffix hsuf
      constructor
      · rw [List.append_assoc]
        exact keepLine_of _ (hhead _) x (by simp [hx]) (plain_nospace (hpl x hx) hxs)
      · apply noNL_of_plain
        intro y hy
        simp only [List.mem_append] at hy
        rcases hy with (hy | hy) | hy
        · exact hind y hy
        · exact hpl y hy
        · exact hsuf y hy
    cases rest with
    | nil =>
      simp only [tailPhys, List.mem_singleton] at hq
      subst hq
      have := key [] (by intro y hy; simp at hy)
      simpa using this
    | cons m ms =>
      simp only [tailPhys, List.mem_cons] at hq
      rcases hq with rfl | hq
      · exact key ['\\'] (by intro y hy; simp at hy; subst hy; decide)
      · exact ih (fun l' hl' => hls l' (by simp [hl'])) q (by simpa [tailPhys] using hq)

theorem physLines_ok (P : Nat) (hP : 1 ≤ P) (name : Str) (hn : GoodName name) (ls : List Str) (hls : ∀ l ∈ ls, LineOk l) :
    ∀ q ∈ physLines name (List.replicate P ' ') ls, keepLine q = true ∧ NoNL q := by
  have first : ∀ ser : Str, (∀ y ∈ ser, Plain y) →
      keepLine (valueContent name ser) = true ∧ NoNL (valueContent name ser) :=
    fun ser hs => ⟨keepLine_content name ser hn, noNL_of_plain _ (content_plain name ser hn hs)⟩
  intro q hq
  cases ls with
  | nil =>
    simp only [physLines, List.mem_singleton] at hq; subst hq
    have := first [] (by intro y hy; simp at hy)
    simpa [valueContent] using this
  | cons l rest =>
    have hl := (hls l (by simp)).1
    cases rest with
    | nil =>
      simp only [physLines, List.mem_singleton] at hq; subst hq
      exact first l hl
    | cons m ms =>
      simp only [physLines, List.mem_cons] at hq
      rcases hq with rfl | hq
      · have := first (l ++ ['\\']) (by
          intro y hy; simp only [List.mem_append, List.mem_singleton] at hy
          rcases hy with hy | rfl
          · exact hl y hy
          · decide)
        simpa [valueContent] using this
      · exact tailPhys_ok P hP (m :: ms) (fun l' hl' => hls l' (by simp [hl'])) q (by simpa [tailPhys] using hq)



theorem mem_joinChar_of_mem (ws : List Str) (w : Str) (c : Char) (hw : w ∈ ws) (hc : c ∈ w) : c ∈ joinChar ' ' ws := by
  induction ws with
  | nil => simp at hw
  | cons a rest ih =>
    cases rest with
    | nil => simp at hw; subst hw; simpa [joinChar] using hc
    | cons b bs =>
      simp only [joinChar, List.mem_append, List.mem_cons]
      rcases List.mem_cons.mp hw with rfl | hw'
      · exact Or.inl hc
      · exact Or.inr (Or.inr (ih hw'))

theorem normalized_file_roundtrip_aux (hh : HeaderOk Gen.Registry.confFileHeader)
    (hq : QuotesOk Gen.Registry.stringQuotes) (hedge : Gen.Registry.nwEdgeBlanks = [' ', '\n', '\t', '\r'])
    (pr : Char → Bool) (name : Str) (hn : GoodName name) (help : List Str) (hhelp : ∀ l ∈ help, SkipLine l) (v : Str) :
    ∃ T, readRegistry (fileText [⟨help.map (· ++ ['\n']), name, nsSerialize name (encodeUE (strStr pr (normalizeNS v)))⟩]) =
        .ok [(name, T)] ∧ StrClass.set .normalized pr T = .ok (normalizeNS v) := by
  have hx := norm_normalizeNS hedge v
  have hs := norm_strStr pr _ hx
  obtain ⟨⟨sw, hsw, hs_eq⟩, _, _⟩ := hs
  have hswsp := words_blank4_isSp hsw
  -- the escaped text and its words
  have he : encodeUE (strStr pr (normalizeNS v)) = joinChar ' ' (sw.map encodeUE) := by rw [hs_eq, encodeUE_join]
  have hwords : wordsOf (encodeUE (strStr pr (normalizeNS v))) = sw.map encodeUE := by
    rw [he]; exact wordsOf_join _ (words_map_encode sw hswsp)
  obtain ⟨hflat, hgne⟩ := wrapWords_spec (nsWidth name) (sw.map encodeUE)
  obtain ⟨sg, hsg1, hsg2⟩ := unmap_partition encodeUE _ sw hflat
  have hgroups : Groups sg := by
    intro g hg
    constructor
    · intro e
      have : g.map encodeUE ∈ wrapWords (nsWidth name) (sw.map encodeUE) := by
        rw [hsg2]; exact List.mem_map.mpr ⟨g, hg, rfl⟩
      exact hgne _ this (by rw [e]; rfl)
    · intro w hw
      exact hsw w (by rw [← hsg1]; exact List.mem_flatten.mpr ⟨g, hg, hw⟩)
  -- the lines
  have hlines : (wrapWords (nsWidth name) (sw.map encodeUE)).map (joinChar ' ') = (sg.map (joinChar ' ')).map encodeUE := by
    rw [hsg2, List.map_map, List.map_map]
    apply List.map_congr_left
    intro g _
    simp only [Function.comp]
    rw [encodeUE_join]
  have hP : 1 ≤ name.length + Gen.Registry.wrapPrefixExtra := by
    have := hn.1; cases name with
    | nil => exact absurd rfl this
    | cons a as => simp; omega
  have hser : nsSerialize name (encodeUE (strStr pr (normalizeNS v))) =
      joinChar '\n' (decorateLines (name.length + Gen.Registry.wrapPrefixExtra) 0 ((sg.map (joinChar ' ')).map encodeUE)) := by
    unfold nsSerialize
    simp only [hwords, hlines]
  refine ⟨gapJoin (name.length + Gen.Registry.wrapPrefixExtra) sg, ?_, ?_⟩
  · -- the reader
    have hlok : ∀ l ∈ (sg.map (joinChar ' ')).map encodeUE, LineOk l := by
      intro l hl
      simp only [List.mem_map] at hl
      obtain ⟨p, ⟨g, hg, rfl⟩, rfl⟩ := hl
      refine ⟨encodeUE_plain _, ?_⟩
      obtain ⟨hgne', hgw⟩ := hgroups g hg
      cases g with
      | nil => exact absurd rfl hgne'
      | cons w rest =>
        have hw := words_map_encode (w :: rest) (words_blank4_isSp hgw) (encodeUE w) (by simp)
        cases hew : encodeUE w with
        | nil => exact absurd hew hw.1
        | cons c cs =>
          refine ⟨c, ?_, ?_⟩
          · rw [encodeUE_join]
            exact mem_joinChar_of_mem _ (encodeUE w) c (by simp) (by rw [hew]; simp)
          · have := hw.2 c (by rw [hew]; simp); unfold isSp at this; simpa using this
    have hphys := physLines_ok _ hP name hn _ hlok
    unfold fileText
    simp only [List.map_cons, List.map_nil, List.flatten_cons, List.flatten_nil, List.append_nil, Entry.text]
    rw [hser, valueLine_phys]
    have htext : Gen.Registry.confFileHeader ++ ((help.map (· ++ ['\n'])).flatten ++
        linesText (physLines name (List.replicate (name.length + Gen.Registry.wrapPrefixExtra) ' ') ((sg.map (joinChar ' ')).map encodeUE))) =
        linesText (headerLines Gen.Registry.confFileHeader ++ (help ++
          physLines name (List.replicate (name.length + Gen.Registry.wrapPrefixExtra) ' ') ((sg.map (joinChar ' ')).map encodeUE))) := by
      rw [linesText_append, linesText_append, hh.1]
      rfl
    rw [htext]
    unfold readRegistry
    rw [fileLines_lines _ (by
      intro l hl
      simp only [List.mem_append] at hl
      rcases hl with hl | hl | hl
      · exact (hh.2 l hl).1
      · exact (hhelp l hl).1
      · exact (hphys l hl).2)]
    simp only [List.filter_append]
    have h1 : (headerLines Gen.Registry.confFileHeader).filter keepLine = [] := by
      rw [List.filter_eq_nil_iff]; intro l hl; simp [(hh.2 l hl).2]
    have h2 : help.filter keepLine = [] := by
      rw [List.filter_eq_nil_iff]; intro l hl; simp [(hhelp l hl).2]
    have h3 : (physLines name (List.replicate (name.length + Gen.Registry.wrapPrefixExtra) ' ') ((sg.map (joinChar ' ')).map encodeUE)).filter keepLine =
        physLines name (List.replicate (name.length + Gen.Registry.wrapPrefixExtra) ' ') ((sg.map (joinChar ' ')).map encodeUE) := by
      rw [List.filter_eq_self]; intro l hl; exact (hphys l hl).1
    have h4 : [([] : Str)].filter keepLine = [] := by decide
    rw [h1, h2, h3, h4]
    simp only [List.nil_append]
    have := readLoop_phys _ hP name hn [] (sg.map (joinChar ' '))
    rw [this]
    rfl
  · -- set() of the cached text
    have hnorm : Norm (joinChar ' ' sg.flatten) := by rw [hsg1, ← hs_eq]; exact norm_strStr pr _ hx
    unfold StrClass.set
    simp only [if_true]
    rw [normalizeNS_gapJoin hedge _ hP sg hgroups hnorm, hsg1, ← hs_eq, strSet_strStr hq]
    simp only [SetRes.bind, StrClass.setValue, normalizeNS_norm hedge _ hx]

end C15
