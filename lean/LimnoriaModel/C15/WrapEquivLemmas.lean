/-
C15 — the two models of `textwrap.wrap` agree: on a text made of blank-free words separated by
single blanks, the chunk-level `wrapText` (`_split_chunks` + `_wrap_chunks`) produces the lines of
the word-level `wrapWords`.  So `NormalizedString.serialize`, stated through `wrapWords`, is the
chunk-level algorithm on the texts it is applied to.
-/
import LimnoriaModel.C15.WrapLemmas
namespace C15
open Py



/-! ### `wrapText` (chunks, as `textwrap` does it) = `wrapWords` (words) on single-blank text -/

/-- words: non-empty, no blank of any kind inside -/
def WordsNS (ws : List Str) : Prop := ∀ w ∈ ws, w ≠ [] ∧ ∀ c ∈ w, isSpace c = false

/-- the chunks of a single-blank text: its words with one-blank chunks between them -/
def IS : List Str → List Str
  | [] => []
  | [w] => [w]
  | w :: rest => w :: [' '] :: IS rest

theorem chunkRuns_word (w R : Str) (L : List Str) (hw : w ≠ []) (hns : ∀ c ∈ w, c ≠ ' ')
    (hR : chunkRuns R = L) (hL : L = [] ∨ ∃ r rs, L = r :: rs ∧ r.head? = some ' ') :
    chunkRuns (w ++ R) = w :: L := by
  induction w with
  | nil => exact absurd rfl hw
  | cons x xs ih =>
    have hx : x ≠ ' ' := hns x (by simp)
    cases xs with
    | nil =>
      simp only [List.cons_append, List.nil_append, chunkRuns, hR]
      rcases hL with rfl | ⟨r, rs, rfl, hr⟩
      · rfl
      · have e1 : (x == ' ') = false := by simp [hx]
        simp [hr, e1]
    | cons y ys =>
      have := ih (by simp) (fun c hc => hns c (by simp [hc]))
      simp only [List.cons_append] at this ⊢
      rw [chunkRuns, this]
      have hy : y ≠ ' ' := hns y (by simp)
      have e1 : (x == ' ') = false := by simp [hx]
      have e2 : (y == ' ') = false := by simp [hy]
      simp [e1, e2]

theorem chunkRuns_blank (R : Str) (r : Str) (rs : List Str) (hR : chunkRuns R = r :: rs) (hr : ∀ c, r.head? = some c → c ≠ ' ') :
    chunkRuns (' ' :: R) = [' '] :: r :: rs := by
  simp only [chunkRuns, hR]
  cases hh : r.head? with
  | none => simp
  | some c => have := hr c hh; simp; exact fun e => this e

theorem chunkRuns_join (ws : List Str) (h : WordsNS ws) : chunkRuns (joinChar ' ' ws) = IS ws := by
  have hns : ∀ w ∈ ws, ∀ c ∈ w, c ≠ ' ' := by
    intro w hw c hc e; subst e
    have := (h w hw).2 ' ' hc; revert this; decide
  induction ws with
  | nil => rfl
  | cons w rest ih =>
    cases rest with
    | nil =>
      simp only [joinChar, IS]
      have := chunkRuns_word w [] [] (h w (by simp)).1 (hns w (by simp)) rfl (Or.inl rfl)
      simpa using this
    | cons u us =>
      have ih' := ih (fun x hx => h x (by simp [hx])) (fun x hx => hns x (by simp [hx]))
      simp only [joinChar, IS]
      -- the rest starts with a word
      have hIS : ∃ r rs, IS (u :: us) = r :: rs ∧ r = u := by cases us <;> exact ⟨u, _, rfl, rfl⟩
      obtain ⟨r, rs, hrs, hru⟩ := hIS
      have hb := chunkRuns_blank (joinChar ' ' (u :: us)) r rs (by rw [ih', hrs]) (by
        intro c hc
        rw [hru] at hc
        have hune := (h u (by simp)).1
        cases hu : u with
        | nil => exact absurd hu hune
        | cons a as =>
          rw [hu] at hc; simp at hc; subst hc
          exact hns u (by simp) a (by rw [hu]; simp))
      have := chunkRuns_word w (' ' :: joinChar ' ' (u :: us)) _ (h w (by simp)).1 (hns w (by simp)) hb
        (Or.inr ⟨[' '], r :: rs, rfl, rfl⟩)
      rw [this, hrs]



def tailChunks : List Str → List Str
  | [] => []
  | u :: us => [' '] :: IS (u :: us)

theorem IS_cons (w : Str) (rest : List Str) : IS (w :: rest) = w :: tailChunks rest := by
  cases rest <;> rfl

theorem IS_cons_cons (u : Str) (cwr : List Str) (h : cwr ≠ []) : IS (u :: cwr) = u :: [' '] :: IS cwr := by
  cases cwr with
  | nil => exact absurd rfl h
  | cons a as => rfl

/-- what `fillLine` does once the line has a word: per next word, take blank + word, or only the
blank, or nothing -/
def FLspec (width : Nat) : List Str → Nat → List Str → List Str × Nat × List Str
  | cwr, len, [] => (IS cwr, len, [])
  | cwr, len, u :: us =>
    if len + 1 + u.length ≤ width then FLspec width (u :: cwr) (len + 1 + u.length) us
    else if len + 1 ≤ width then ([' '] :: IS cwr, len + 1, IS (u :: us))
    else (IS cwr, len, [' '] :: IS (u :: us))

theorem fillLine_spec (width : Nat) : ∀ (us cwr : List Str) (len : Nat), cwr ≠ [] →
    fillLine width (tailChunks us) (IS cwr) len = FLspec width cwr len us := by
  intro us
  induction us with
  | nil => intro cwr len _; rfl
  | cons u us' ih =>
    intro cwr len hc
    simp only [tailChunks, FLspec]
    rw [IS_cons]
    by_cases h1 : len + 1 + u.length ≤ width
    · have h2 : len + 1 ≤ width := by omega
      simp only [fillLine, List.length_cons, List.length_nil, Nat.zero_add, h2, if_true, h1]
      have := ih (u :: cwr) (len + 1 + u.length) (by simp)
      rw [IS_cons_cons u cwr hc] at this
      exact this
    · by_cases h2 : len + 1 ≤ width
      · simp only [fillLine, List.length_cons, List.length_nil, Nat.zero_add, h2, if_true, h1, if_false]
      · simp only [fillLine, List.length_cons, List.length_nil, Nat.zero_add, h2, if_false, h1]

theorem FLspec_fillWords (width : Nat) : ∀ (us cwr : List Str) (len : Nat), cwr ≠ [] →
    ∃ cwr', cwr' ≠ [] ∧ (fillWords width us cwr len).1 = cwr'.reverse ∧
      (((FLspec width cwr len us).1 = IS cwr' ∧ (FLspec width cwr len us).2.2 = tailChunks (fillWords width us cwr len).2) ∨
       ((FLspec width cwr len us).1 = [' '] :: IS cwr' ∧ (FLspec width cwr len us).2.2 = IS (fillWords width us cwr len).2 ∧
          (fillWords width us cwr len).2 ≠ [])) := by
  intro us
  induction us with
  | nil => intro cwr len hc; exact ⟨cwr, hc, rfl, Or.inl ⟨rfl, rfl⟩⟩
  | cons u us' ih =>
    intro cwr len hc
    have hne : cwr.isEmpty = false := by cases cwr <;> simp_all
    simp only [fillWords, FLspec, hne, Bool.false_eq_true, if_false]
    by_cases h1 : len + 1 + u.length ≤ width
    · simp only [h1, if_true]
      exact ih (u :: cwr) _ (by simp)
    · simp only [h1, if_false]
      by_cases h2 : len + 1 ≤ width
      · rw [if_pos h2]
        exact ⟨cwr, hc, rfl, Or.inr ⟨rfl, rfl, by simp⟩⟩
      · rw [if_neg h2]
        exact ⟨cwr, hc, rfl, Or.inl ⟨rfl, rfl⟩⟩

theorem flatten_IS (l : List Str) : (IS l).flatten = joinChar ' ' l := by
  induction l with
  | nil => rfl
  | cons w rest ih =>
    cases rest with
    | nil => simp [IS, joinChar]
    | cons u us => simp only [IS, joinChar, List.flatten_cons] at ih ⊢; rw [ih]; simp

theorem IS_append_one (l : List Str) (w : Str) (h : l ≠ []) : IS (l ++ [w]) = IS l ++ [[' '], w] := by
  induction l with
  | nil => exact absurd rfl h
  | cons a rest ih =>
    cases rest with
    | nil => simp [IS]
    | cons b bs =>
      have := ih (by simp)
      simp only [List.cons_append, IS] at this ⊢
      rw [this]

theorem IS_reverse (l : List Str) : (IS l).reverse = IS l.reverse := by
  induction l with
  | nil => rfl
  | cons w rest ih =>
    cases rest with
    | nil => simp [IS]
    | cons u us =>
      simp only [IS, List.reverse_cons] at ih ⊢
      rw [ih]
      have : (us.reverse ++ [u]) ≠ [] := by simp
      rw [IS_append_one _ w this]
      simp


/-- one iteration of `_wrap_chunks` from the start of a line: the chunks of the line (reversed,
trailing blank dropped) and the chunks left -/
def lineOf (width : Nat) (chunks1 : List Str) : List Str × List Str :=
  match fillLine width chunks1 [] 0 with
  | (cur, _, rest1) =>
    let (cur2, rest2) : List Str × List Str :=
      match rest1 with
      | big :: more => if big.length > width ∧ cur.isEmpty then ([big], more) else (cur, rest1)
      | [] => (cur, rest1)
    let cur3 := match cur2 with
      | last :: before => if isBlankChunk last then before else cur2
      | [] => cur2
    (cur3, rest2)

theorem wrapLoop_succ (width fuel : Nat) (c : Str) (rest lines : List Str) :
    wrapLoop width (fuel + 1) (c :: rest) lines =
      wrapLoop width fuel (lineOf width (if isBlankChunk c ∧ ¬ lines.isEmpty then rest else c :: rest)).2
        (if (lineOf width (if isBlankChunk c ∧ ¬ lines.isEmpty then rest else c :: rest)).1.isEmpty then lines
         else (lineOf width (if isBlankChunk c ∧ ¬ lines.isEmpty then rest else c :: rest)).1.reverse.flatten :: lines) := by
  rfl

theorem word_not_blank (w : Str) (hw : w ≠ []) (hns : ∀ c ∈ w, isSpace c = false) : isBlankChunk w = false := by
  cases w with
  | nil => exact absurd rfl hw
  | cons a as =>
    simp only [isBlankChunk, List.all_cons, hns a (by simp), Bool.false_and]

theorem IS_top (cwr : List Str) (h : cwr ≠ []) (hw : WordsNS cwr) :
    (match IS cwr with
      | last :: before => if isBlankChunk last then before else IS cwr
      | [] => IS cwr) = IS cwr := by
  cases cwr with
  | nil => exact absurd rfl h
  | cons a as =>
    rw [IS_cons]
    have := word_not_blank a (hw a (by simp)).1 (hw a (by simp)).2
    simp only [this, Bool.false_eq_true, if_false]

theorem IS_ne_nil (l : List Str) (h : l ≠ []) : IS l ≠ [] := by
  cases l with
  | nil => exact absurd rfl h
  | cons a as => rw [IS_cons]; simp

theorem lineOf_IS (width : Nat) (w : Str) (rest : List Str) (hw : WordsNS (w :: rest)) :
    ∃ cwr' rest2, lineOf width (IS (w :: rest)) = (IS cwr', rest2) ∧ cwr' ≠ [] ∧
      (fillWords width (w :: rest) [] 0).1 = cwr'.reverse ∧
      (rest2 = tailChunks (fillWords width (w :: rest) [] 0).2 ∨
        (rest2 = IS (fillWords width (w :: rest) [] 0).2 ∧ (fillWords width (w :: rest) [] 0).2 ≠ [])) := by
  have hsp := fillWords_spec width (w :: rest) [] 0
  have hfw : fillWords width (w :: rest) [] 0 = fillWords width rest [w] w.length := by
    simp only [fillWords, List.isEmpty_nil, if_true]
  by_cases hfit : w.length ≤ width
  · -- the first word fits
    have hfl : fillLine width (IS (w :: rest)) [] 0 = FLspec width [w] (0 + w.length) rest := by
      rw [IS_cons]
      have : fillLine width (w :: tailChunks rest) [] 0 = fillLine width (tailChunks rest) [w] (0 + w.length) := by
        simp only [fillLine, Nat.zero_add, hfit, if_true]
      rw [this]
      exact fillLine_spec width rest [w] (0 + w.length) (by simp)
    obtain ⟨cwr', hne, hlw, hcase⟩ := FLspec_fillWords width rest [w] (0 + w.length) (by simp)
    rw [Nat.zero_add] at hfl hlw hcase
    rw [← hfw] at hlw hcase
    have hwc : WordsNS cwr' := by
      intro x hx
      have : x ∈ (fillWords width (w :: rest) [] 0).1 := by rw [hlw]; simpa using hx
      have : x ∈ (fillWords width (w :: rest) [] 0).1 ++ (fillWords width (w :: rest) [] 0).2 :=
        List.mem_append_left _ this
      rw [hsp.1] at this
      exact hw x (by simpa using this)
    rcases hF : FLspec width [w] w.length rest with ⟨c, l, r1⟩
    rw [hF] at hfl hcase
    simp only at hcase
    rcases hcase with ⟨hc, hr⟩ | ⟨hc, hr, hrn⟩
    · refine ⟨cwr', r1, ?_, hne, hlw, Or.inl hr⟩
      simp only [lineOf, hfl]
      subst hc
      have hce : (IS cwr').isEmpty = false := by
        have := IS_ne_nil cwr' hne
        cases h : IS cwr' <;> simp_all
      cases r1 with
      | nil => simp only [IS_top cwr' hne hwc]
      | cons big more =>
        simp only [hce, Bool.false_eq_true, and_false, if_false, IS_top cwr' hne hwc]
    · refine ⟨cwr', r1, ?_, hne, hlw, Or.inr ⟨hr, hrn⟩⟩
      simp only [lineOf, hfl]
      subst hc
      have hb : isBlankChunk [' '] = true := by decide
      cases r1 with
      | nil => simp only [hb, if_true]
      | cons big more =>
        simp only [List.isEmpty_cons, Bool.false_eq_true, and_false, if_false, hb, if_true]
  · -- a word longer than the width gets a line of its own
    have hfl : fillLine width (IS (w :: rest)) [] 0 = ([], 0, w :: tailChunks rest) := by
      rw [IS_cons]
      simp only [fillLine, Nat.zero_add, hfit, if_false]
    have hfw2 : fillWords width rest [w] w.length = ([w], rest) := by
      cases rest with
      | nil => rfl
      | cons u us =>
        have : ¬ (w.length + 1 + u.length ≤ width) := by omega
        simp only [fillWords, List.isEmpty_cons, Bool.false_eq_true, if_false, this, List.reverse_cons,
          List.reverse_nil, List.nil_append]
    refine ⟨[w], tailChunks rest, ?_, by simp, by rw [hfw, hfw2]; rfl, Or.inl (by rw [hfw, hfw2])⟩
    have hnb := word_not_blank w (hw w (by simp)).1 (hw w (by simp)).2
    have hgt : w.length > width := by omega
    simp only [lineOf, hfl, hgt, List.isEmpty_nil, and_self, if_true, hnb, Bool.false_eq_true, if_false]
    rfl


theorem wrapLoop_nil (width fuel : Nat) (lines : List Str) : wrapLoop width fuel [] lines = lines.reverse := by
  cases fuel <;> rfl

theorem WordsNS_of_fill (width : Nat) (w : Str) (rest : List Str) (hw : WordsNS (w :: rest)) :
    WordsNS (fillWords width (w :: rest) [] 0).2 := by
  intro x hx
  have hsp := (fillWords_spec width (w :: rest) [] 0).1
  have : x ∈ (fillWords width (w :: rest) [] 0).1 ++ (fillWords width (w :: rest) [] 0).2 :=
    List.mem_append_right _ hx
  rw [hsp] at this
  exact hw x (by simpa using this)

theorem wrapLoop_words (width : Nat) : ∀ (f2 f1 : Nat) (ws : List Str), f2 ≤ f1 → ws.length ≤ f2 → WordsNS ws →
    ∀ lines : List Str,
      wrapLoop width f1 (IS ws) lines = lines.reverse ++ (wrapWordsLoop width f2 ws).map (joinChar ' ') ∧
      (lines ≠ [] → wrapLoop width f1 (tailChunks ws) lines = lines.reverse ++ (wrapWordsLoop width f2 ws).map (joinChar ' ')) := by
  intro f2
  induction f2 with
  | zero =>
    intro f1 ws _ hl _ lines
    have : ws = [] := by cases ws <;> simp_all
    subst this
    simp only [IS, tailChunks, wrapLoop_nil, wrapWordsLoop, List.map_nil, List.append_nil, implies_true, and_self]
  | succ f ih =>
    intro f1 ws hf hl hw lines
    cases ws with
    | nil =>
      simp only [IS, tailChunks, wrapLoop_nil, wrapWordsLoop, List.map_nil, List.append_nil, implies_true, and_self]
    | cons w rest =>
      obtain ⟨g, rfl⟩ : ∃ g, f1 = g + 1 := ⟨f1 - 1, by omega⟩
      obtain ⟨cwr', rest2, hline, hne, hlw, hcase⟩ := lineOf_IS width w rest hw
      have hlt := (fillWords_spec width (w :: rest) [] 0).2.2.2 rfl (by simp)
      have hw' := WordsNS_of_fill width w rest hw
      have hIH := ih g (fillWords width (w :: rest) [] 0).2 (by omega) (by simp at hl hlt; omega) hw'
        (joinChar ' ' (fillWords width (w :: rest) [] 0).1 :: lines)
      have hce : (IS cwr').isEmpty = false := by
        have := IS_ne_nil cwr' hne
        cases h : IS cwr' <;> simp_all
      have hflat : (IS cwr').reverse.flatten = joinChar ' ' (fillWords width (w :: rest) [] 0).1 := by
        rw [IS_reverse, flatten_IS, hlw]
      have hrest : wrapLoop width g rest2 (joinChar ' ' (fillWords width (w :: rest) [] 0).1 :: lines) =
          lines.reverse ++ (wrapWordsLoop width (f + 1) (w :: rest)).map (joinChar ' ') := by
        have hww : wrapWordsLoop width (f + 1) (w :: rest) =
            (fillWords width (w :: rest) [] 0).1 :: wrapWordsLoop width f (fillWords width (w :: rest) [] 0).2 := by
          simp only [wrapWordsLoop]
        rw [hww]
        rcases hcase with h | ⟨h, _⟩
        · rw [h, (hIH).2 (by simp)]; simp
        · rw [h, (hIH).1]; simp
      have hnb := word_not_blank w (hw w (by simp)).1 (hw w (by simp)).2
      refine ⟨?_, ?_⟩
      · rw [IS_cons, wrapLoop_succ]
        simp only [hnb, Bool.false_eq_true, false_and, if_false]
        rw [← IS_cons, hline]
        simp only [hce, Bool.false_eq_true, if_false, hflat]
        exact hrest
      · intro hln
        have hb : isBlankChunk [' '] = true := by decide
        have hle : lines.isEmpty = false := by cases lines <;> simp_all
        simp only [tailChunks]
        rw [wrapLoop_succ]
        simp only [hb, hle, Bool.false_eq_true, not_false_eq_true, and_self, if_true]
        rw [hline]
        simp only [hce, Bool.false_eq_true, if_false, hflat]
        exact hrest

theorem IS_length (ws : List Str) : ws.length ≤ (IS ws).length := by
  induction ws with
  | nil => simp [IS]
  | cons w rest ih =>
    cases rest with
    | nil => simp [IS]
    | cons u us => simp only [IS, List.length_cons] at ih ⊢; omega

/-- on a text made of words separated by single blanks, the chunk-level model of `textwrap.wrap`
and the word-level one agree -/
theorem wrapText_eq_wrapWords (width : Nat) (ws : List Str) (hw : WordsNS ws) :
    wrapText width (joinChar ' ' ws) = (wrapWords width ws).map (joinChar ' ') := by
  unfold wrapText wrapWords
  simp only [chunkRuns_join ws hw]
  have := (wrapLoop_words width ws.length ((IS ws).length + 1) ws (by have := IS_length ws; omega)
    (Nat.le_refl _) hw []).1
  simpa using this


theorem plain_not_space (x : Char) (hp : Plain x) (hx : x ≠ ' ') : isSpace x = false := by
  have h32 : x.toNat ≠ 32 := by
    intro e
    apply hx
    apply Char.ext
    apply UInt32.toNat_inj.mp
    exact e
  unfold Plain at hp
  unfold isSpace
  simp only [Bool.or_eq_false_iff, Bool.and_eq_false_iff, decide_eq_false_iff_not]
  omega

/-- the escaped text of a normalised value: words of printable non-blank ASCII, single blanks -/
theorem escaped_words (hedge : Gen.Registry.nwEdgeBlanks = [' ', '\n', '\t', '\r']) (pr : Char → Bool) (v : Str) :
    ∃ ws, WordsNS ws ∧ encodeUE (strStr pr (normalizeNS v)) = joinChar ' ' ws ∧
      wordsOf (encodeUE (strStr pr (normalizeNS v))) = ws := by
  have hx := norm_normalizeNS hedge v
  have hs := norm_strStr pr _ hx
  obtain ⟨⟨sw, hsw, hs_eq⟩, _, _⟩ := hs
  have hswsp := words_blank4_isSp hsw
  have he : encodeUE (strStr pr (normalizeNS v)) = joinChar ' ' (sw.map encodeUE) := by rw [hs_eq, encodeUE_join]
  have hwe := words_map_encode sw hswsp
  refine ⟨sw.map encodeUE, ?_, he, by rw [he]; exact wordsOf_join _ hwe⟩
  intro w hwm
  refine ⟨(hwe w hwm).1, ?_⟩
  intro c hc
  have hns : c ≠ ' ' := by
    have := (hwe w hwm).2 c hc
    unfold isSp at this; simpa using this
  rw [List.mem_map] at hwm
  obtain ⟨w0, _, rfl⟩ := hwm
  exact plain_not_space c (encodeUE_plain w0 c hc) hns

theorem nsSerialize_chunk_level (hedge : Gen.Registry.nwEdgeBlanks = [' ', '\n', '\t', '\r']) (pr : Char → Bool)
    (name v : Str) :
    nsSerialize name (encodeUE (strStr pr (normalizeNS v))) =
      joinChar '\n' (decorateLines (name.length + Gen.Registry.wrapPrefixExtra) 0
        (wrapText (nsWidth name) (encodeUE (strStr pr (normalizeNS v))))) := by
  obtain ⟨ws, hws, he, hwo⟩ := escaped_words hedge pr v
  unfold nsSerialize
  simp only [hwo]
  rw [he, wrapText_eq_wrapWords _ ws hws]

end C15
