/-
C15 — the remaining value classes of src/registry.py and the validators of src/conf.py.
Each is a thin layer around something the model does not contain (a predicate on nicks or
hostmasks, the `re` engine, `json`, float parsing and printing): that part is a PARAMETER with a
stated contract, the registry layer around it is modelled and proved.

Shape shared by almost all of them ("check, then store"):
    def setValue(self, v):
        if not <ok>(v): self.error()
        <Parent>.setValue(self, v)
-/
import LimnoriaModel.C15.Values
namespace C15
open Py

/-- check, then store -/
def guardedSetValue {β : Type} (ok : β → Bool) (parent : β → SetRes β) (v : β) : SetRes β :=
  if ok v then parent v else .error

/-- a String subclass with a guarded `setValue` (ValidNick, ValidNickOrEmpty, ValidChannel,
ValidHostmask, SocksProxy, ValidPrefixChars, TemplatedString, …): `String.set` evaluates the text,
`setValue` checks the value and stores it unchanged -/
def guardedStrSet (pr : Char → Bool) (ok : Str → Bool) (s : Str) : SetRes Str :=
  (strSet pr s).bind (guardedSetValue ok .ok)

/-- `conf.ValidPrefixChars`: every character is in the extracted table -/
def prefixCharsOk (v : Str) : Bool := v.all fun c => Gen.Registry.validPrefixChars.contains c

/-- `conf.ValidQuotes` (a plain `registry.Value`: `set` hands the text to `setValue` unevaluated,
`__str__` is the value) -/
def quotesSet (s : Str) : SetRes Str :=
  guardedSetValue (fun v => v.all fun c => Gen.Registry.validQuotesChars.contains c) .ok s

/-! ### OnlySomeStrings -/

/-- `OnlySomeStrings.normalize`: the valid string equal to `s` up to case (first one), else `s` -/
def ossNormalize (valid : List Str) (s : Str) : Str :=
  match valid.find? (fun x => asciiLower x == asciiLower s) with
  | some x => x
  | none => s

/-- `OnlySomeStrings.setValue` (it tests `s in validStrings` on the text as given and stores the
normalised form) -/
def ossSetValue (valid : List Str) (s : Str) : SetRes Str :=
  if valid.contains s then .ok (ossNormalize valid s) else .error

def ossSet (pr : Char → Bool) (valid : List Str) (s : Str) : SetRes Str :=
  (strSet pr s).bind (ossSetValue valid)

/-- the `validStrings` of a conf.py class, from the extracted tables -/
def ossTable (cls : String) : List Str :=
  match Gen.Registry.onlySomeStringsTables.find? (fun p => p.1 == cls) with
  | some p => p.2
  | none => []

/-! ### Json (parameters: `json.loads`, `json.dumps`) -/

/-- `Json.set(text)`: the stored value is the canonical JSON text; `none` from `loads` = ValueError -/
def jsonSet {J : Type} (loads : Str → Option J) (dumps : J → Str) (text : Str) : SetRes Str :=
  match loads text with
  | some j => .ok (dumps j)
  | none => .error

/-! ### Float family (parameters: `float(s)`, `repr(x)`, the two order tests) -/

inductive FloatClass where
  | any | positive | probability
deriving DecidableEq, Repr

/-- `setValue` of Float / PositiveFloat (`v <= 0` rejected) / Probability (`0 <= v <= 1`) -/
def floatSetValue {F : Type} (leZero inUnit : F → Bool) : FloatClass → F → SetRes F
  | .any, x => .ok x
  | .positive, x => if leZero x then .error else .ok x
  | .probability, x => if inUnit x then .ok x else .error

def floatSet {F : Type} (parse : Str → Option F) (leZero inUnit : F → Bool) (k : FloatClass) (s : Str) : SetRes F :=
  match parse s with
  | some x => floatSetValue leZero inUnit k x
  | none => .error

/-! ### Regexp (parameter: `utils.str.perlReToPythonRe`) -/

/-- `Regexp.set(s)`: the value keeps the text next to the compiled pattern; the empty text is None -/
def regexpSet {R : Type} (compile : Str → Option R) (s : Str) : SetRes (Option (Str × R)) :=
  if s = [] then .ok none
  else match compile s with
    | some r => .ok (some (s, r))
    | none => .error

/-- `Regexp.__str__` -/
def regexpStr {R : Type} : Option (Str × R) → Str
  | none => []
  | some (s, _) => s

end C15
