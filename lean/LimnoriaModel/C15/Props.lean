/-
C15 — property theorems.  (Helper lemmas live in `Lemmas.lean`.)
-/
import LimnoriaModel.C15.Lemmas
namespace C15
open Py

/-! ### table obligations (re-checked by `decide` against what /repo says now) -/

/-- both characters `repr` can delimit a string with are quote characters for `String.set` -/
theorem quotes_table_ok : QuotesOk Gen.Registry.stringQuotes := by unfold QuotesOk; decide

/-! ### codecs -/

/-- `registry.decoder(registry.encoder(s)) == s` for every string: what `serialize` writes, the
reader decodes back. -/
theorem codec_roundtrip (s : Str) : decodeUE (encodeUE s) = .ok s := decodeUE_encodeUE s

/-- `safeEval(repr(s)) == s` for every string and every notion of "printable". -/
theorem repr_roundtrip (pr : Char → Bool) (s : Str) : evalLit (pyRepr pr s) = .ok s :=
  evalLit_pyRepr pr s

/-! ### String -/

/-- `String.set(str(node))` gives back the value, for every string (after the `_needsQuoting`
fix; before it the statement failed for `"`, `'`, `""`, `'a'`, …). -/
theorem string_roundtrip (pr : Char → Bool) (v : Str) : strSet pr (strStr pr v) = .ok v :=
  strSet_strStr quotes_table_ok pr v

end C15
