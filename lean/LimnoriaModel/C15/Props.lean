/-
C15 — property theorems.  (Helper lemmas live in `Lemmas.lean`.)
-/
import LimnoriaModel.C15.BootLemmas
import LimnoriaModel.C15.ValidatorLemmas
import LimnoriaModel.C15.NormLemmas
import LimnoriaModel.C15.WrapLemmas
import LimnoriaModel.C15.WrapEquivLemmas
import LimnoriaModel.C15.SaveLoadLemmas
import LimnoriaModel.C15.ListLemmas
namespace C15
open Py

/-! ### table obligations (re-checked by `decide` against what /repo says now) -/

/-- both characters `repr` can delimit a string with are quote characters for `String.set` -/
theorem quotes_table_ok : QuotesOk Gen.Registry.stringQuotes := by unfold QuotesOk; decide

/-! ### codecs -/

/-- `registry.decoder(registry.encoder(s)) == s` for every string: what `serialize` writes, the
reader decodes back. -/
theorem codec_roundtrip (s : Str) : decodeUE (encodeUE s) = .ok s := decodeUE_encodeUE s

/-- `safeEval(repr(s)) == s` for every string and every notion of "printable". -/
theorem repr_roundtrip (pr : Char → Bool) (s : Str) : evalLit (pyRepr pr s) = .ok s :=
  evalLit_pyRepr pr s

/-! ### String -/

/-- `String.set(str(node))` gives back the value, for every string (after the `_needsQuoting`
fix; before it the statement failed for `"`, `'`, `""`, `'a'`, …). -/
theorem string_roundtrip (pr : Char → Bool) (v : Str) : strSet pr (strStr pr v) = .ok v :=
  strSet_strStr quotes_table_ok pr v

/-- the blank characters `normalizeWhitespace` looks for at the ends are the four it collapses -/
theorem nw_table_ok : Gen.Registry.nwEdgeBlanks = [' ', '\n', '\t', '\r'] := by decide

/-- NormalizedString: what `setValue` stores (`normalize v`, for every string `v`) is a fixed point
of `normalize`, its `__str__` — quoted by `repr` or not — is one too, and a fresh node's
`set(str(node))` gives the stored value back.  (File level: `normalized_file_roundtrip` below.) -/
theorem normalized_value_roundtrip (pr : Char → Bool) (v : Str) :
    StrClass.set .normalized pr (strStr pr (StrClass.normalized.setValue v)) = .ok (StrClass.normalized.setValue v) :=
  normalized_roundtrip_aux quotes_table_ok nw_table_ok pr v

/-- `normalize` is idempotent -/
theorem normalize_idempotent (v : Str) : normalizeNS (normalizeNS v) = normalizeNS v :=
  normalizeNS_norm nw_table_ok _ (norm_normalizeNS nw_table_ok v)

/-! ### Boolean and the Integer family -/

/-- `'True'` / `'False'` (what `repr(bool)` writes) are in the extracted `toBool` tables -/
theorem bool_table_ok : toBool (boolStr true) = some true ∧ toBool (boolStr false) = some false := by
  decide

/-- a saved Boolean reloads to itself, whatever the value of the fresh node -/
theorem bool_roundtrip (cur b : Bool) : boolSet cur (boolStr b) = .ok b := by
  unfold boolSet
  cases b
  · rw [bool_table_ok.2]
  · rw [bool_table_ok.1]

/-- `int(repr(v)) == v` for every integer -/
theorem int_parse_print (v : Int) : pyInt (intStr v) = some v := pyInt_intStr v

/-- Integer / NonNegativeInteger / PositiveInteger: the saved text of a value is accepted exactly
when `setValue` accepts the value, and gives that value back.  (The bound keeps the text below
CPython's `int_max_str_digits`; `int()` itself is modelled for every text, Unicode decimal digits and
blanks included, with the interpreter's digit table extracted.) -/
theorem int_roundtrip (k : IntClass) (v : Int) (hlen : (intStr v).length ≤ 4000)
    (hacc : k.setValue v = .ok v) : k.set (intStr v) = .ok v := by
  unfold IntClass.set
  have hun : intUnmodelled (intStr v) = false := by
    unfold intUnmodelled; simp; omega
  rw [hun, pyInt_intStr]
  simpa using hacc

example : (IntClass.pos).setValue 7 = .ok 7 ∧ (intStr 7).length ≤ 4000 := by decide
example : (IntClass.pos).set (intStr 0) = .error := by decide

/-! ### lists -/

theorem lists_table_ok :
    Gen.Registry.spaceJoin = [' '] ∧ Gen.Registry.emptyListStr = [' '] ∧ Gen.Registry.commaJoin = [',', ' '] := by
  decide

/-- **Lists reload** (after the fix of `SeparatedListOf.setValue` and of the comma splitter): for
both list syntaxes and every list `setValue` accepts — the empty list included — `set(str(·))`
gives the list back.  `setValue` accepts exactly the items its own syntax reads back as
themselves; everything else is refused before anything is stored. -/
theorem list_roundtrip (k : ListClass) (xs : List Str) (hacc : k.setValue xs = .ok xs) :
    k.set (k.str xs) = .ok xs :=
  list_roundtrip_aux lists_table_ok.1 lists_table_ok.2.1 lists_table_ok.2.2 k xs hacc

example : ListClass.comma.setValue ["a b".toList, "c:d".toList] = .ok ["a b".toList, "c:d".toList] ∧
    ListClass.comma.setValue [] = .ok [] := by decide

/-- the empty comma separated list (formerly known finding C15-empty-comma-list) -/
theorem comma_list_empty : ListClass.set .comma (ListClass.str .comma []) = .ok [] := by decide

/-- items that could not be read back are refused (formerly C15-list-element-separator) -/
theorem list_items_refused :
    ListClass.space.setValue ["a b".toList, "c".toList] = .error ∧ ListClass.space.setValue [[]] = .error ∧
    ListClass.comma.setValue ["a,b".toList] = .error ∧ ListClass.comma.setValue [" a".toList] = .error := by
  decide

/-! ### the value tree: rejection is atomic, overrides are local, unset values follow -/

/-- `Extends x x'`: every node of `x` is in `x'` with the same value and the same `_wasSet`
(reaching a node through `get` may add unset children, nothing else).
A `set(text)` that is rejected — at any level, by any class — leaves exactly the tree that merely
reaching the node leaves: every value that was in force stays in force. -/
theorem reject_atomic {α : Type} (C : Cls α) (B : Str) (s : St α) (w : Where) (text : Str)
    (h : (setText C B s w text).2 = .invalid) :
    (setText C B s w text).1 = ⟨(s.var.reach C B s.cache w).1, s.cache⟩ ∧
      Extends s.var (setText C B s w text).1.var := by
  have h1 := setText_not_done C B s w text (by rw [h]; simp)
  refine ⟨h1, ?_⟩
  rw [h1]
  exact reach_extends C B s.cache s.var w

/-- the same for `setValue(v)` rejected by the class (range checks of the Integer family) -/
theorem reject_atomic_setValue {α : Type} (C : Cls α) (B : Str) (s : St α) (w : Where) :
    (setVal C B s w .error).1 = ⟨(s.var.reach C B s.cache w).1, s.cache⟩ ∧
      Extends s.var (setVal C B s w .error).1.var := by
  have h1 : (setVal C B s w .error).1 = ⟨(s.var.reach C B s.cache w).1, s.cache⟩ := by
    unfold setVal
    split
    · rename_i x1 hr; rw [hr]
    · rename_i x1 cur hr; rw [hr]
  refine ⟨h1, ?_⟩
  rw [h1]
  exact reach_extends C B s.cache s.var w

example : (setText (ClassId.cls (fun _ => false) (.int .pos) (.i 1)) "v".toList
    ⟨⟨.i 5, true, [], []⟩, []⟩ (.chan "#c".toList) "0".toList).2 = .invalid := by decide

/-- what `getSpecific(network, channel)()` answers is the pure lookup `resolve` on the tree it
leaves (`netOk` / `chanOk`: the network is known / the channel name is valid) -/
theorem getSpecific_sound {α : Type} (C : Cls α) (K : Kind) (B : Str) (s s' : St α)
    (network channel : Option Str) (netOk chanOk : Bool) (v : α)
    (h : getSpecific C K B s network channel netOk chanOk = (s', .val v)) :
    resolve s'.var (if netOk then network else none) (if chanOk then channel else none) = some v :=
  (getSpecific_resolve C K B s s' network channel netOk chanOk v h).1

/-- An accepted assignment at `w` (general value, `:network`, `#channel` or `:network.#channel`)
changes what `getSpecific` answers only for probes that concern that network / channel
(`affects`): for every other probe the answer on the tree after the assignment is the answer on
the tree in which the node was merely reached, and any answer available before is unchanged. -/
theorem override_local {α : Type} (C : Cls α) (B : Str) (s s' : St α) (w : Where) (text : Str)
    (h : setText C B s w text = (s', .done)) (n c : Option Str) (ha : affects w n c = false) :
    resolve s'.var n c = resolve (s.var.reach C B s.cache w).1 n c ∧
      ∀ a, resolve s.var n c = some a → resolve s'.var n c = some a := by
  obtain ⟨cur, v, _, _, rfl⟩ := setText_done C B s s' w text h
  have h1 := resolve_assign_local (s.var.reach C B s.cache w).1 w v false n c ha
  refine ⟨h1, fun a hr => ?_⟩
  simp only
  rw [h1]
  exact resolve_of_extends (reach_extends C B s.cache s.var w) n c a hr

example : affects (.chan "#a".toList) (some "net".toList) (some "#b".toList) = false := by decide

/-- Unset specific values follow later changes of the general value: after an accepted
`set(text)` on the general value, every probe whose path consists of unset nodes answers the new
general value. -/
theorem follow_general {α : Type} (C : Cls α) (B : Str) (s s' : St α) (text : Str)
    (h : setText C B s .base text = (s', .done)) (n c : Option Str) (hu : UnsetPath s.var n c) :
    ∃ v, C.set s.var.value text = .ok v ∧ s'.var.value = v ∧ resolve s'.var n c = some v := by
  obtain ⟨cur, v, h1, h2, rfl⟩ := setText_done C B s s' .base text h
  simp only [Var.reach] at h1 h2 ⊢
  cases h1
  exact ⟨v, h2, rfl, resolve_setV_follow s.var v false n c hu⟩

example : UnsetPath (⟨.b false, true, [("n".toList, ⟨.b false, false, [("#c".toList, ⟨.b false, false⟩)]⟩)],
    [("#c".toList, ⟨.b false, false⟩)]⟩ : Var Val) (some "N".toList) (some "#C".toList) := by
  refine ⟨⟨.b false, false, [("#c".toList, ⟨.b false, false⟩)]⟩, ⟨.b false, false⟩, ⟨.b false, false⟩, ?_⟩
  decide

/-- a freshly created `:network` / `#channel` child takes its parent's value whenever the class
re-reads its own `__str__` (`Reparses`, which `string_roundtrip`, `bool_roundtrip`, `int_roundtrip`
and the list theorems establish) and the loaded file has no line for it -/
theorem fresh_child_inherits {α : Type} (C : Cls α) (cache : Cache) (full : Str) (v : α)
    (hr : Reparses C v) (hc : cacheGet cache full = none) :
    mkValue C cache full v = .made (v, false) false := mkValue_inherits C cache full v hr hc

example : Reparses (ClassId.cls (fun _ => false) (.str .plain) (.s [])) (.s "\"".toList) := by
  unfold Reparses; decide

/-- `Config reset network`: afterwards the network value is the general value -/
theorem reset_network_follows {α : Type} (C : Cls α) (B : Str) (s s' : St α) (n : Str)
    (h : resetNetwork C B s n = (s', .done)) :
    s'.var.value = s.var.value ∧ resolve s'.var (some n) none = some s.var.value :=
  resetNetwork_follows C B s s' n h

/-- `Config reset channel <network> <channel>`: afterwards the channel answers the network value
when that one is set, the general value otherwise -/
theorem reset_channel_follows {α : Type} (C : Cls α) (B : Str) (s s' : St α) (n c : Str)
    (h : resetChannel C B s (some n) c = (s', .done)) :
    ∃ nv, findKey n s'.var.nets = some nv ∧ s'.var.value = s.var.value ∧
      resolve s'.var (some n) (some c) = some (if nv.wasSet then nv.value else s.var.value) :=
  resetChannel_follows C B s s' n c h

/-! ### a validator that depends on another variable (conf.SocketTimeout vs supybot.drivers.poll) -/

/-- `SocketTimeout.setValue(v)` while `supybot.drivers.poll = pn/pd`: the verdict is taken before
anything is stored — either the value itself is accepted (`v ≥ poll`, `v ≥ 1`) or the outcome is a
plain rejection; there is no "rejected but stored" outcome. -/
theorem socket_timeout_verdict (pn pd : Nat) (v : Int) :
    (socketTimeoutSetValue pn pd v = .ok v ∧ (pn : Int) ≤ v * pd ∧ 1 ≤ v) ∨
    (socketTimeoutSetValue pn pd v = .error ∧ (v * pd < pn ∨ v < 1)) := by
  unfold socketTimeoutSetValue
  by_cases h : v * (pd : Int) < (pn : Int) ∨ v < 1
  · right; rw [if_pos h]; exact ⟨rfl, h⟩
  · left
    rw [if_neg h]
    have h1 : ¬ (v * (pd : Int) < (pn : Int)) := fun x => h (Or.inl x)
    have h2 : ¬ (v < 1) := fun x => h (Or.inr x)
    refine ⟨?_, by omega, by omega⟩
    simp only [IntClass.setValue]
    rw [if_neg (by omega), if_neg (by omega)]

/-- … and, being an ordinary class for the value tree, a text it rejects (for the current value of
the other variable) leaves the whole tree as it was: instance of `reject_atomic`. -/
theorem socket_timeout_reject_atomic (pr : Char → Bool) (pn pd : Nat) (dflt : Val) (B : Str) (s : St Val)
    (text : Str) (h : socketTimeoutSet pn pd text = .error) :
    (setText (ClassId.cls pr (.sock pn pd) dflt) B s .base text).1 = s := by
  unfold setText
  simp only [Var.reach, ClassId.cls, ClassId.set, h, SetRes.map]

example : socketTimeoutSet 5 1 "3".toList = .error ∧ socketTimeoutSet 5 1 "7".toList = .ok 7 := by decide

/-! ### the other value classes and the conf.py validators (their engines are parameters) -/

/-- Every `set` / `setValue` of registry.py, conf.py and plugins/*/config.py finishes its checks
(`self.error(...)`) before it stores anything (extracted from the source on every run): a
rejected value is never in force, not even for a moment.  This is the structural fact behind
`reject_atomic` for the classes whose checks the model does not contain. -/
theorem validators_check_before_store : ∀ p ∈ Gen.Registry.checkThenStore, p.2 = true := by
  decide +kernel

/-- "check, then store" rejects without storing: the outcome is the parent's or a plain error -/
theorem guarded_verdict {β : Type} (ok : β → Bool) (parent : β → SetRes β) (v : β) :
    (ok v = true ∧ guardedSetValue ok parent v = parent v) ∨ (ok v = false ∧ guardedSetValue ok parent v = .error) := by
  unfold guardedSetValue
  cases h : ok v <;> simp

/-- guarded String classes (ValidNick, ValidNickOrEmpty, ValidNickAllowingPercentS, ValidHostmask,
SocksProxy, ValidPrefixChars, TemplatedString, IP, … — whatever the predicate is): an accepted
value reloads to itself -/
theorem guarded_string_roundtrip (pr : Char → Bool) (ok : Str → Bool) (v : Str) (h : ok v = true) :
    guardedStrSet pr ok (strStr pr v) = .ok v :=
  guarded_roundtrip_aux quotes_table_ok pr ok v h

example : prefixCharsOk "@!".toList = true := by decide

/-- OnlySomeStrings and its conf.py subclasses: what `setValue` stores for a valid string reloads
to itself -/
theorem only_some_strings_roundtrip (pr : Char → Bool) (valid : List Str) (s : Str) (hs : valid.contains s = true) :
    ossSet pr valid (strStr pr (ossNormalize valid s)) = .ok (ossNormalize valid s) :=
  oss_roundtrip_aux quotes_table_ok pr valid s hs

example : (ossTable "ValidBrackets").contains "[]".toList = true ∧ ossSetValue (ossTable "ValidBrackets") "[)".toList = .error := by
  decide

/-- Json, for any `loads` / `dumps` with `loads (dumps j) = j`: the stored canonical text reloads
to itself -/
theorem json_roundtrip {J : Type} (loads : Str → Option J) (dumps : J → Str)
    (h : ∀ j, loads (dumps j) = some j) (j : J) : jsonSet loads dumps (dumps j) = .ok (dumps j) := by
  unfold jsonSet; rw [h j]

/-- Float, PositiveFloat, Probability, for any parser / printer with `float(repr(x)) == x`: an
accepted value reloads to itself -/
theorem float_roundtrip {F : Type} (parse : Str → Option F) (print : F → Str) (leZero inUnit : F → Bool)
    (h : ∀ x, parse (print x) = some x) (k : FloatClass) (x : F) (hacc : floatSetValue leZero inUnit k x = .ok x) :
    floatSet parse leZero inUnit k (print x) = .ok x := by
  unfold floatSet; rw [h x]; exact hacc

/-- Regexp, for any (deterministic) `perlReToPythonRe`: a value that `set` produced reloads to
itself from its text -/
theorem regexp_roundtrip {R : Type} (compile : Str → Option R) (s : Str) (v : Option (Str × R))
    (h : regexpSet compile s = .ok v) : regexpSet compile (regexpStr v) = .ok v := by
  unfold regexpSet at h
  split at h
  · cases h; simp [regexpStr, regexpSet]
  · rename_i hne
    split at h
    · rename_i r hr
      cases h
      simp only [regexpStr, regexpSet, if_neg hne, hr]
    · cases h

/-- Regexp with its surface syntax (`perlRe`: delimiter, escapes, flags) modelled and only the `re`
engine a parameter: every text `set` accepts — `m/…/flags`, `/…/`, braces, any delimiter —
reloads to the same value from the text `__str__` prints -/
theorem regexp_text_roundtrip {R : Type} (engine : Str → Str → Option R) (s : Str) (v : Option (Str × R))
    (h : regexpSetSurface engine s = .ok v) : regexpSetSurface engine (regexpStr v) = .ok v := by
  unfold regexpSetSurface at h
  split at h
  · cases h; simp [regexpStr, regexpSetSurface]
  · rename_i hne
    split at h
    · rename_i pat fl hp
      split at h
      · rename_i r hr
        cases h
        simp only [regexpStr, regexpSetSurface, if_neg hne, hp, hr]
      · cases h
    · cases h
    · cases h

example : perlRe "m{a\\}b}i".toList = .ok "a\\}b".toList "I".toList ∧ perlRe "s/a/b/".toList = .bad ∧
    perlRe "/a\\/b/x/".toList = .ok "a/b/x".toList [] ∧ perlRe "m#a\\#b#".toList = .ok "a\\#b".toList [] := by decide

/-! ### the file always loads -/

/-- the extracted `CONF_FILE_HEADER` consists of complete comment / blank lines -/
theorem header_table_ok : HeaderOk Gen.Registry.confFileHeader := by
  unfold HeaderOk SkipLine NoNL; decide +kernel

/-- Whatever `registry.close` writes, `open_registry` reads back: for every list of values with
reader-safe names (`GoodName`: printable ASCII without blank, not starting with `#`, every backslash
escaping a character of the name — what `join` produces), every help text (wrapped into lines by `textwrap`, a parameter: lines without
CR/LF), every default and every value text, the file loads and the cache holds exactly the
`str()` text of every value, in order.  (After the fix of the `# Default value:` line, which
used to be written unescaped.) -/
theorem file_always_loads (vs : List VSpec) (h : ∀ v ∈ vs, VSpecOk v) :
    readRegistry (closeText (vs.map VSpec.spec)) = .ok (vs.map fun v => (v.name, v.text)) :=
  close_loads_aux header_table_ok vs h

example : VSpecOk ⟨some ["help".toList], some "a\nb".toList, "supybot.x.\\:net.#c".toList, "\"".toList⟩ := by
  unfold VSpecOk GoodName NoNL Plain; decide

/-- **NormalizedString through the file, wrapping included** (after the wrap fix): for every string
`v`, every reader-safe name (any length: the width never drops below 1) and any help block, the
file `registry.close` writes — the escaped text cut into continuation lines at blanks, each line
but the last ending in a backslash, each but the first indented — loads, and a fresh node set
from the cached text holds `normalize v` again.  Wherever `textwrap` puts the line breaks
(`wrapWords` is only used through "its lines are the words, in order, regrouped"). -/
theorem normalized_file_roundtrip (pr : Char → Bool) (name : Str) (hn : GoodName name) (help : List Str)
    (hhelp : ∀ l ∈ help, SkipLine l) (v : Str) :
    ∃ T, readRegistry (fileText [⟨help.map (· ++ ['\n']), name,
          nsSerialize name (encodeUE (strStr pr (StrClass.normalized.setValue v)))⟩]) = .ok [(name, T)] ∧
      StrClass.set .normalized pr T = .ok (StrClass.normalized.setValue v) :=
  normalized_file_roundtrip_aux header_table_ok quotes_table_ok nw_table_ok pr name hn help hhelp v

/-- **the two models of `textwrap.wrap` agree**: on a text made of non-empty blank-free words
joined by single blanks, the chunk-level algorithm (`_split_chunks` into runs, `_wrap_chunks` with
its dropped leading/trailing blank chunks and its long-word rule) yields exactly the lines of the
word-level `wrapWords`, for every width. -/
theorem wrap_models_agree (width : Nat) (ws : List Str)
    (hw : ∀ w ∈ ws, w ≠ [] ∧ ∀ c ∈ w, isSpace c = false) :
    wrapText width (joinChar ' ' ws) = (wrapWords width ws).map (joinChar ' ') :=
  wrapText_eq_wrapWords width ws hw

/-- hence `NormalizedString.serialize` — stated in the model through `wrapWords` — is the
chunk-level `textwrap.wrap` on every text it is applied to (the escaped text of a normalised
value: printable ASCII words, single blanks), for every name and value. -/
theorem normalized_serialize_is_textwrap (pr : Char → Bool) (name v : Str) :
    nsSerialize name (encodeUE (strStr pr (StrClass.normalized.setValue v))) =
      joinChar '\n' (decorateLines (name.length + Gen.Registry.wrapPrefixExtra) 0
        (wrapText (nsWidth name) (encodeUE (strStr pr (StrClass.normalized.setValue v))))) :=
  nsSerialize_chunk_level nw_table_ok pr name v

/-- end to end for the String class: the line written for `v` under a reader-safe name loads, and
`set` of the cached text gives `v` back -/
theorem string_file_roundtrip (pr : Char → Bool) (name : Str) (hn : GoodName name) (v : Str) :
    readRegistry (closeText [⟨none, none, name, strSerialize pr v⟩]) = .ok [(name, strStr pr v)] ∧
      strSet pr (strStr pr v) = .ok v := by
  refine ⟨?_, string_roundtrip pr v⟩
  have := file_always_loads [⟨none, none, name, strStr pr v⟩]
    (by intro x hx; simp at hx; subst hx; exact ⟨hn, by intro w hw; simp at hw⟩)
  simpa [VSpec.spec, strSerialize] using this

/-! ### the String variants -/

/-- String, StringSurroundedBySpaces, StringWithSpaceOnRight: whatever `setValue` stores reloads to
itself (`set(str(node))` of a fresh node of the same class), for every string.
NormalizedString (whose `serialize` wraps lines) is treated separately. -/
theorem string_variants_roundtrip (k : StrClass) (hk : k ≠ .normalized) (pr : Char → Bool) (v : Str) :
    k.set pr (strStr pr (k.setValue v)) = .ok (k.setValue v) := by
  unfold StrClass.set
  rw [if_neg hk]
  simp only [string_roundtrip, SetRes.bind, setValue_idem k hk]

example : StrClass.surrounded ≠ .normalized ∧ StrClass.surrounded.setValue "\"".toList = " \" ".toList := by decide

/-! ### end to end: save, read, start again -/

/-- **`boot(read(save(tree))) = tree`.**  A value tree in normal form (`TreeSpec`: the general
value, the set `#channel` values, per `:network` its value when set and its set channel values;
`build` adds the unset network nodes that exist only because one of their channels is set) is
written by `registry.close`, read by `open_registry` in a fresh process and rebuilt by
`registerChannelValue` (or, for a tree with network values only, by `registerNetworkValue`) — node for node, with the same values and `_wasSet` flags, under `Storable`:
the class reads back what it prints for every recorded value (`RT`, discharged below for String,
NormalizedString, Boolean, Integer; every class of the model is covered, NormalizedString with its
continuation lines), names are reader-safe and case-insensitively distinct, channel names are valid,
no network name ends in a backslash, children are in `_added.sort()` order.  The new cache has one
entry per saved node. -/
theorem save_load_roundtrip (pr : Char → Bool) (c : ClassId) (dflt : Val) (K : Kind) (B : Str)
    (t : TreeSpec Val) (cache0 : Cache)
    (hK : K.chanV = true ∨ (K.netV = true ∧ t.chans = [] ∧ ∀ ns ∈ t.nets, ns.chans = []))
    (h : Storable pr c dflt B t) :
    ∃ cache', saveLoad pr c dflt K B ⟨t.build, cache0⟩ = .up ⟨t.build, cache'⟩ ∧ cache'.map (·.1) = t.keys B :=
  saveLoad_normal_aux header_table_ok quotes_table_ok nw_table_ok pr c dflt K B t cache0 hK h

/-- the same for a global variable (`registerGlobalValue`: no children) -/
theorem save_load_global (pr : Char → Bool) (c : ClassId) (dflt v : Val) (B : Str) (cache0 : Cache)
    (hc : c ≠ .str .normalized) (hn : GoodName B) (hrt : RT (c.cls pr dflt) v) :
    saveLoad pr c dflt ⟨false, false⟩ B ⟨⟨v, true, [], []⟩, cache0⟩ = .up ⟨⟨v, true, [], []⟩, [(B, c.show pr v)]⟩ := by
  have hfile := file_always_loads [⟨none, none, B, c.show pr v⟩]
    (by intro x hx; simp at hx; subst hx; exact ⟨hn, by intro w hw; simp at hw⟩)
  have hdump : (⟨v, true, [], []⟩ : Var Val).dump B = [(B, v)] := by simp [Var.dump, sortKeys]
  unfold saveLoad
  simp only [hdump, saveText, List.map_cons, List.map_nil, ClassId.serializeAt, if_neg hc]
  have : fileText [⟨[], B, c.serialize pr v⟩] = closeText ([⟨none, none, B, c.show pr v⟩].map VSpec.spec) := by
    simp [closeText, renderSpecs, VSpec.spec, ClassId.serialize]
  rw [this, hfile]
  simp only [List.map_cons, List.map_nil, cacheOf, List.foldl_cons, List.foldl_nil, cacheSet, boot, cacheGet, if_true]
  have := hrt dflt
  simp only [ClassId.cls] at this ⊢
  rw [this]
  simp

/-- `RT` for the String class: every string -/
theorem rt_string (pr : Char → Bool) (dflt : Val) (x : Str) : RT (ClassId.cls pr (.str .plain) dflt) (.s x) := by
  intro cur
  show (StrClass.set .plain pr (strStr pr x)).map Val.s = .ok (.s x)
  have := string_variants_roundtrip .plain (by decide) pr x
  simp only [StrClass.setValue] at this
  rw [this]; rfl

/-- `RT` for NormalizedString: every stored value (`normalize v`) -/
theorem rt_normalized (pr : Char → Bool) (dflt : Val) (v : Str) :
    RT (ClassId.cls pr (.str .normalized) dflt) (.s (normalizeNS v)) := by
  intro cur
  show (StrClass.set .normalized pr (strStr pr (normalizeNS v))).map Val.s = .ok (.s (normalizeNS v))
  have := normalized_value_roundtrip pr v
  simp only [StrClass.setValue] at this
  rw [this]; rfl

/-- `RT` for Boolean: both values, whatever the node held -/
theorem rt_bool (pr : Char → Bool) (dflt : Val) (b : Bool) : RT (ClassId.cls pr .bool dflt) (.b b) := by
  intro cur
  show (boolSet _ (boolStr b)).map Val.b = .ok (.b b)
  rw [bool_roundtrip]; rfl

/-- `RT` for the Integer family: every accepted value of printable size -/
theorem rt_int (pr : Char → Bool) (dflt : Val) (k : IntClass) (v : Int) (hlen : (intStr v).length ≤ 4000)
    (hacc : k.setValue v = .ok v) : RT (ClassId.cls pr (.int k) dflt) (.i v) := by
  intro cur
  show (k.set (intStr v)).map Val.i = .ok (.i v)
  rw [int_roundtrip k v hlen hacc]; rfl

/-- a tree with a general value, an old-style channel value, a set network with a channel, and an
unset network that exists only through its channel meets `Storable` -/
example : Storable (fun _ => false) .bool (.b false) "supybot.x".toList
    ⟨.b true, [("#a".toList, .b false)],
      [⟨"libera".toList, some (.b false), [("#b".toList, .b true)]⟩, ⟨"oftc".toList, none, [("#c".toList, .b true)]⟩]⟩ where
  rt := by
    intro kv hkv
    obtain ⟨k, v⟩ := kv
    have : ∃ b, v = .b b := by
      simp [TreeSpec.entries, NetSpec.entries] at hkv
      rcases hkv with ⟨_, rfl⟩ | ⟨_, rfl⟩ | ⟨_, rfl⟩ | ⟨_, rfl⟩ | ⟨_, rfl⟩ <;> exact ⟨_, rfl⟩
    obtain ⟨b, rfl⟩ := this
    exact rt_bool _ _ b
  names := by unfold GoodName Plain; decide
  distinct := by decide
  unset := by decide
  chans := by unfold ChanOk KeysDistinct; decide
  nets := by unfold ChanOk KeysDistinct; decide
  netsDistinct := by decide
  sorted := by unfold TreeSpec.Sorted; decide

/-- counter-example outside the normal form: an unset `#channel` child (created by a `get`, never
assigned) is not written, so the tree that comes back lacks it (its value is still what
`getSpecific` answers, by `fresh_child_inherits`) -/
theorem save_load_counterexample :
    saveLoad (fun _ => false) .bool (.b false) ⟨true, true⟩ "v".toList
        ⟨⟨.b true, true, [], [("#a".toList, ⟨.b true, false⟩)]⟩, []⟩ =
      .up ⟨⟨.b true, true, [], []⟩, [("v".toList, "True".toList)]⟩ := by
  decide +kernel

/-! ### re-reading the file in the running process -/

/-- a node that was assigned (or created) after the last `open_registry` is never re-read: its
call answers its value and changes nothing -/
theorem call_fresh_noop {α : Type} (C : Cls α) (B : Str) (s : LSt α) (w : Where) (h : s.isStale w = false) :
    s.call C B w = (s, s.st.var.valueAt w) := call_fresh_aux C B s w h

/-- re-reading is idempotent on what was saved: a set channel value whose cached text is the text
the class prints for it answers the same value and leaves the tree and the cache as they were,
whether or not it is stale -/
theorem call_reread_same {α : Type} (C : Cls α) (B : Str) (s : LSt α) (c : Str) (v : α)
    (hnode : findKey c s.st.var.chans = some ⟨v, true⟩)
    (hcache : cacheGet s.st.cache (childName B c) = some (C.str v)) (hrt : RT C v) :
    (s.call C B (.chan c)).2 = some v ∧ (s.call C B (.chan c)).1.st = s.st :=
  call_reread_chan_aux C B s c v hnode hcache hrt

/-! ### `registry.close` while threaded plugin code uses the tree -/

/-- with nothing interleaved, the flush under interleaving is the ordinary save -/
theorem flush_quiet {α : Type} (C : Cls α) (strCalls : Bool) (B : Str) (s : LSt α) :
    s.saveInterleaved C strCalls B [] = s.save C strCalls B := saveInterleaved_nil_aux C strCalls B s

/-- Full statement (false, known finding C15-flush-interleaved-reset): every line written by a
flush is a line the node had when the flush began or has when it ends.  Counter-example: `#x` is
set to 5, the flush lists it, a `config reset channel * #x` of a threaded command runs before its
line is written: the file records `#x` as explicitly set to the general value 3 — a line it had
neither before (5), during, nor after (unset) — and a bot restarted from that file no longer lets `#x`
follow the general value. -/
theorem flush_interleaved_counterexample :
    let C := ClassId.cls (fun _ => false) (.int .any) (.i 3)
    let s0 : LSt Val := ⟨⟨⟨.i 3, true, [], [("#x".toList, ⟨.i 5, true⟩)]⟩, []⟩, false, []⟩
    let r := s0.saveInterleaved C true "v".toList [[], [TOp.resetChan none "#x".toList]]
    r.2 = [("v".toList, some (.i 3)), ("v.#x".toList, some (.i 3))] ∧
      r.1.st.var = ⟨.i 3, true, [], [("#x".toList, ⟨.i 3, false⟩)]⟩ := by
  decide

/-! ### names -/

/-- `registry.unescape(registry.escape(n)) == n` for every name component (dots, colons,
backslashes, non-ASCII, control characters) -/
theorem name_unescape_escape (n : Str) : unescapeName (escapeName n) = .ok n :=
  unescapeName_escapeName n

/-- **`split(join(ns)) = ns`** for every non-empty list of name components, whatever they contain —
dots, colons, trailing backslashes (after the fix of `registry.split`, which took the separator
after an ESCAPED backslash for an escaped separator). -/
theorem name_escape_roundtrip (ns : List Str) (hne : ns ≠ []) : splitName (joinName ns) = some ns :=
  splitName_joinName_aux ns hne

/-- the former counter-example (known finding C15-name-trailing-backslash) -/
theorem name_trailing_backslash :
    splitName (joinName ["a\\".toList, "b".toList]) = some ["a\\".toList, "b".toList] := by decide

/-- every name `join` makes ends unescaped: together with "no blank, not starting with `#`" that is
`GoodName`, the precondition of the file theorems — a name ending in a backslash (a channel called
`#foo\`) included -/
theorem joined_name_ends_unescaped (n : Str) : escEnd false (escapeName n) = false := escapeName_escEnd n

/-! ### the source constants the model implements by hand -/

/-- The regular expressions, format strings, strip sets and arithmetic constants of
`src/registry.py` / `utils.str.normalizeWhitespace` that the model implements as code are the ones
the source has now (extracted on every run): a change to any of them breaks this obligation. -/
theorem source_constants_ok :
    Gen.Registry.encoding = "unicode_escape" ∧
    Gen.Registry.slashEndRe = "\\\\*$" ∧
    Gen.Registry.kvSeparator = [':', ' '] ∧ Gen.Registry.nameSeparator = ['.'] ∧
    Gen.Registry.unescapedFindSrc =
      "i = start; while i < len(s): if s[i] == '\\\\': i += 2 elif s.startswith(sub, i): return i else: i += 1; return -1" ∧
    Gen.Registry.lineRstrip = ['\r', '\n'] ∧ Gen.Registry.valueStrip = ['\r', '\n'] ∧
    Gen.Registry.lineFormat = "%s: %s\n" ∧
    Gen.Registry.escapeReplace = [(".", "\\."), (":", "\\:")] ∧
    Gen.Registry.unescapeReplace = [("\\.", "."), ("\\:", ":")] ∧
    Gen.Registry.commaSplitRe = "\\s*,\\s*" ∧ Gen.Registry.commaSetSplitRe = "\\s*,\\s*" ∧
    Gen.Registry.commaSetJoin = [',', ' '] ∧
    Gen.Registry.toggleWord = "toggle".toList ∧
    Gen.Registry.nwEdgeBlanks = [' ', '\n', '\t', '\r'] ∧ Gen.Registry.nwNewlineRe = "[\r\n]+" ∧
    Gen.Registry.nwSplits = [['\t'], [' ']] ∧
    Gen.Registry.wrapWidth = 76 ∧ Gen.Registry.wrapPrefixExtra = 2 ∧ Gen.Registry.wrapMinWidth = 1 ∧
    Gen.Registry.wrapBreakLongWords = false ∧ Gen.Registry.wrapBreakOnHyphens = false ∧
    Gen.Registry.chanTypes = ['#', '&', '!'] ∧ Gen.Registry.chanLen = 50 ∧
    Gen.Registry.isChannelSrc =
      "s and ',' not in s and ('\\x07' not in s) and (s[0] in chantypes) and (len(s) <= channellen) and (s.split() == [s])" ∧
    Gen.Registry.needsQuotingSrc =
      "any([x not in self._printable for x in s]) and s.strip() != s or (len(s) > 0 and s[0] == s[-1] and (s[0] in '\\'\"'))" := by
  decide +kernel

end C15
