/-
C15 — property theorems.  (Helper lemmas live in `Lemmas.lean`.)
-/
import LimnoriaModel.C15.Lemmas
namespace C15
open Py

/-! ### table obligations (re-checked by `decide` against what /repo says now) -/

/-- both characters `repr` can delimit a string with are quote characters for `String.set` -/
theorem quotes_table_ok : QuotesOk Gen.Registry.stringQuotes := by unfold QuotesOk; decide

/-! ### codecs -/

/-- `registry.decoder(registry.encoder(s)) == s` for every string: what `serialize` writes, the
reader decodes back. -/
theorem codec_roundtrip (s : Str) : decodeUE (encodeUE s) = .ok s := decodeUE_encodeUE s

/-- `safeEval(repr(s)) == s` for every string and every notion of "printable". -/
theorem repr_roundtrip (pr : Char → Bool) (s : Str) : evalLit (pyRepr pr s) = .ok s :=
  evalLit_pyRepr pr s

/-! ### String -/

/-- `String.set(str(node))` gives back the value, for every string (after the `_needsQuoting`
fix; before it the statement failed for `"`, `'`, `""`, `'a'`, …). -/
theorem string_roundtrip (pr : Char → Bool) (v : Str) : strSet pr (strStr pr v) = .ok v :=
  strSet_strStr quotes_table_ok pr v

/-! ### Boolean and the Integer family -/

/-- `'True'` / `'False'` (what `repr(bool)` writes) are in the extracted `toBool` tables -/
theorem bool_table_ok : toBool (boolStr true) = some true ∧ toBool (boolStr false) = some false := by
  decide

/-- a saved Boolean reloads to itself, whatever the value of the fresh node -/
theorem bool_roundtrip (cur b : Bool) : boolSet cur (boolStr b) = .ok b := by
  unfold boolSet
  cases b
  · rw [bool_table_ok.2]
  · rw [bool_table_ok.1]

/-- `int(repr(v)) == v` for every integer -/
theorem int_parse_print (v : Int) : pyInt (intStr v) = some v := pyInt_intStr v

/-- Integer / NonNegativeInteger / PositiveInteger: the saved text of a value is accepted exactly
when `setValue` accepts the value, and gives that value back.  (The bound keeps the text below
CPython's `int_max_str_digits`.) -/
theorem int_roundtrip (k : IntClass) (v : Int) (hlen : (intStr v).length ≤ 4000)
    (hacc : k.setValue v = .ok v) : k.set (intStr v) = .ok v := by
  unfold IntClass.set
  have hun : intUnmodelled (intStr v) = false := by
    unfold intUnmodelled
    have hasc : (intStr v).any (fun c => decide (128 ≤ c.toNat)) = false := by
      rw [List.any_eq_false]
      intro c hc
      have : c = '-' ∨ IsDig c := by
        cases v with
        | ofNat n => right; exact natStr_isDig n c hc
        | negSucc n =>
          have hc' : c ∈ '-' :: natStr (n + 1) := hc
          rcases List.mem_cons.mp hc' with h | h
          · left; exact h
          · right; exact natStr_isDig _ c h
      rcases this with rfl | h
      · decide
      · unfold IsDig at h; simp; omega
    rw [hasc]; simp; omega
  rw [hun, pyInt_intStr]
  simpa using hacc

example : (IntClass.pos).setValue 7 = .ok 7 ∧ (intStr 7).length ≤ 4000 := by decide
example : (IntClass.pos).set (intStr 0) = .error := by decide

/-! ### lists -/

theorem lists_table_ok :
    Gen.Registry.spaceJoin = [' '] ∧ Gen.Registry.emptyListStr = [' '] ∧ Gen.Registry.commaJoin = [',', ' '] := by
  decide

/-- Full statement (false on the pinned tree, see the counter-examples below):
    `∀ k xs, ListClass.set k (ListClass.str k xs) = xs`.
Proved part, space separated: every list of non-empty blank-free words — including the empty
list — reloads to itself. -/
theorem space_list_roundtrip_partial (xs : List Str) (h : ∀ e ∈ xs, Word e) :
    ListClass.set .space (ListClass.str .space xs) = xs :=
  space_roundtrip_aux lists_table_ok.1 lists_table_ok.2.1 xs h

/-- Proved part, comma separated: every non-empty list whose elements contain no comma and no
blank at either end (empty elements and inner blanks are fine) reloads to itself. -/
theorem comma_list_roundtrip_partial (xs : List Str) (hne : xs ≠ []) (h : ∀ e ∈ xs, CommaElt e) :
    ListClass.set .comma (ListClass.str .comma xs) = xs :=
  comma_roundtrip_aux lists_table_ok.2.2 xs hne h

example : ∀ e ∈ ["#a".toList, "b\\".toList], Word e := by unfold Word; decide
example : ["a b".toList, [], "c".toList] ≠ [] ∧ ∀ e ∈ ["a b".toList, [], "c".toList], CommaElt e := by
  unfold CommaElt lstrip rstrip; decide

/-- counter-example (known finding C15-list-element-separator) -/
theorem space_list_counterexample :
    ListClass.set .space (ListClass.str .space ["a b".toList, "c".toList]) = ["a".toList, "b".toList, "c".toList] := by
  decide

/-- counter-example (known finding C15-empty-comma-list): the empty list reloads as `[' ']` -/
theorem comma_list_empty_counterexample :
    ListClass.set .comma (ListClass.str .comma []) = [" ".toList] := by
  decide

/-- counter-example (known finding C15-list-element-separator) -/
theorem comma_list_counterexample :
    ListClass.set .comma (ListClass.str .comma ["a,b".toList]) = ["a".toList, "b".toList] := by
  decide

end C15
