import LimnoriaModel.C15.Model
import LimnoriaModel.Driver.Core
namespace C15
open Py Wire

def encRes : Res → String
  | .ok s => "ok\t" ++ enc s
  | .bad => "bad"
  | .unm => "unm"

def prOf (f : String) : Option (Char → Bool) :=
  (dec f).map fun l => fun c => l.contains c

def strClassOf : String → Option StrClass
  | "plain" => some .plain
  | "surrounded" => some .surrounded
  | "spaceRight" => some .spaceRight
  | "normalized" => some .normalized
  | _ => none

def classOf : String → Option ClassId
  | "bool" => some .bool
  | "int" => some (.int .any)
  | "nonNeg" => some (.int .nonNeg)
  | "pos" => some (.int .pos)
  | "space" => some (.list .space)
  | "comma" => some (.list .comma)
  | s =>
    match s.splitOn "/" with
    | ["sock", pn, pd] => do
      let pn ← pn.toNat?
      let pd ← pd.toNat?
      if pd = 0 then none else pure (.sock pn pd)
    | _ => (strClassOf s).map ClassId.str

def encInt (v : Int) : String := String.ofList (intStr v)

def decInt (f : String) : Option Int :=
  match f.toList with
  | '-' :: ds => (String.ofList ds).toNat?.map fun n => - (Int.ofNat n)
  | ds => (String.ofList ds).toNat?.map Int.ofNat

def encVal : Val → String
  | .s x => "s:" ++ enc x
  | .b x => if x then "b:1" else "b:0"
  | .i x => "i:" ++ encInt x
  | .l x => "l:" ++ encList x

def decVal (f : String) : Option Val :=
  match f.splitOn ":" with
  | ["s", x] => (dec x).map Val.s
  | ["b", "1"] => some (.b true)
  | ["b", "0"] => some (.b false)
  | ["i", x] => (decInt x).map Val.i
  | ["l", x] => (decList x).map Val.l
  | _ => none

def encSet (r : SetRes Val) : String :=
  match r with
  | .ok v => "ok\t" ++ encVal v
  | .error => "error"
  | .unm => "unm"

def encPairs (l : List (Str × Str)) : String :=
  if l.isEmpty then "-" else ",".intercalate (l.map fun kv => enc kv.1 ++ ":" ++ enc kv.2)

def decPairs (f : String) : Option (List (Str × Str)) :=
  if f = "-" then some [] else
  (f.splitOn ",").mapM fun item =>
    match item.splitOn ":" with
    | [k, v] => do
      let k' ← dec k
      let v' ← dec v
      pure (k', v')
    | _ => none

def decWhere : List String → Option Where
  | ["base"] => some .base
  | ["net", n] => (dec n).map Where.net
  | ["chan", c] => (dec c).map Where.chan
  | ["netchan", n, c] => do
    let n' ← dec n
    let c' ← dec c
    pure (.netChan n' c')
  | _ => none

def encOut (show_ : Val → String) : Out Val → String
  | .val v => "val\t" ++ show_ v
  | .done => "done"
  | .invalid => "invalid"
  | .nonexistent => "nonexistent"
  | .unm => "unm"

def decBool : String → Option Bool
  | "1" => some true
  | "0" => some false
  | _ => none

/-- state of the tree part of the driver -/
structure TState where
  cid : ClassId
  pr : Char → Bool
  dflt : Val
  kind : Kind
  base : Str
  st : St Val

def TState.cls (t : TState) : Cls Val := t.cid.cls t.pr t.dflt

def encDump (l : List (Str × Val)) : String :=
  if l.isEmpty then "-" else ",".intercalate (l.map fun kv => enc kv.1 ++ "=" ++ encVal kv.2)

/-- the stateless operations -/
def drivePure : List String → Option String
  | ["ue_enc", s] => (dec s).map fun s => enc (encodeUE s)
  | ["ue_dec", s] => (dec s).map fun s => encRes (decodeUE s)
  | ["repr", p, s] => do
    let pr ← prOf p
    let s ← dec s
    pure (enc (pyRepr pr s))
  | ["evallit", s] => (dec s).map fun s => encRes (evalLit s)
  | ["str_set", k, p, s] => do
    let k ← strClassOf k
    let pr ← prOf p
    let s ← dec s
    pure (encSet ((k.set pr s).map Val.s))
  | ["str_sv", k, s] => do
    let k ← strClassOf k
    let s ← dec s
    pure (enc (k.setValue s))
  | ["str_str", p, s] => do
    let pr ← prOf p
    let s ← dec s
    pure (enc (strStr pr s))
  | ["str_ser", p, s] => do
    let pr ← prOf p
    let s ← dec s
    pure (enc (strSerialize pr s))
  | ["bool_set", cur, s] => do
    let cur ← decBool cur
    let s ← dec s
    pure (encSet ((boolSet cur s).map Val.b))
  | ["int_set", k, s] => do
    let c ← classOf k
    let s ← dec s
    match c with
    | .int k => pure (encSet ((k.set s).map Val.i))
    | _ => none
  | ["val_str", k, p, v] => do
    let c ← classOf k
    let pr ← prOf p
    let v ← decVal v
    pure (enc (c.show pr v))
  | ["val_ser", k, p, v] => do
    let c ← classOf k
    let pr ← prOf p
    let v ← decVal v
    pure (enc (c.serialize pr v))
  | ["val_setv", k, v] => do
    let c ← classOf k
    let v ← decVal v
    pure (encSet (c.setValue v))
  | ["val_set", k, p, cur, s] => do
    let c ← classOf k
    let pr ← prOf p
    let cur ← decVal cur
    let s ← dec s
    pure (encSet (c.set pr cur s))
  | ["read", t] => (dec t).map fun t =>
    match readRegistry t with
    | .ok l => "ok\t" ++ encPairs (cacheOf l)      -- what `_cache.items()` shows afterwards
    | .invalid => "invalid"
    | .unm => "unm"
  | ["close", p, specs] => do
    let pr ← prOf p
    let items ← (if specs = "-" then some [] else (specs.splitOn "|").mapM fun item =>
      match item.splitOn ";" with
      | [k, name, v, wrapped, dflt] => do
        let c ← classOf k
        let name ← dec name
        let v ← decVal v
        let wrapped ← (if wrapped = "~" then some none else (decList wrapped).map some)
        let dflt ← (if dflt = "~" then some none else (decVal dflt).map some)
        pure ({ wrapped := wrapped, dfltSer := dflt.map (c.serialize pr), name := name, ser := c.serialize pr v } : Spec)
      | _ => none)
    pure (enc (closeText items))
  | ["ns_ser", name, escaped] => do
    let name ← dec name
    let escaped ← dec escaped
    pure (enc (nsSerialize name escaped))
  | ["wrapw", w, text] => do
    let w ← w.toNat?
    let text ← dec text
    pure (encList ((wrapWords w (wordsOf text)).map (joinChar ' ')))
  | ["wrap", w, text] => do
    let w ← w.toNat?
    let text ← dec text
    pure (encList (wrapText w text))
  | ["oss_set", cls, p, s] => do
    let pr ← prOf p
    let s ← dec s
    pure (encSet ((ossSet pr (ossTable cls) s).map Val.s))
  | ["vpc_set", p, s] => do
    let pr ← prOf p
    let s ← dec s
    pure (encSet ((guardedStrSet pr prefixCharsOk s).map Val.s))
  | ["vq_set", s] => (dec s).map fun s => encSet ((quotesSet s).map Val.s)
  | ["guard_set", okvals, p, s] => do
    let okvals ← decList okvals
    let pr ← prOf p
    let s ← dec s
    pure (encSet ((guardedStrSet pr (fun v => okvals.contains v) s).map Val.s))
  | ["perlre", s] => (dec s).map fun s =>
    match perlRe s with
    | .ok pat fl => "ok\t" ++ enc pat ++ "\t" ++ enc fl
    | .bad => "bad"
    | .unm => "unm"
  | ["cache", l] => (decPairs l).map fun l => encPairs (cacheOf l)
  | ["esc", n] => (dec n).map fun n => enc (escapeName n)
  | ["unesc", n] => (dec n).map fun n => encRes (unescapeName n)
  | ["split", n] => (dec n).map fun n =>
    match splitName n with
    | some l => "ok\t" ++ encList l
    | none => "fail"
  | ["join", l] => (decList l).map fun l => enc (joinName l)
  | ["validname", n] => (dec n).map fun n => if isValidRegistryName n then "1" else "0"
  | ["ischannel", n] => (dec n).map fun n => if isChannel n then "1" else "0"
  | ["spaces", lo, hi] => do
    let lo ← lo.toNat?
    let hi ← hi.toNat?
    pure (" ".intercalate (((List.range (hi - lo)).map (· + lo)).filter (fun n => isSpace (Char.ofNat n)) |>.map toString))
  | ["normws", s] => (dec s).map fun s => enc (normalizeWhitespace s)
  | _ => none

def driveTree (t : Option TState) : List String → Option (Option TState × String)
  | ["t_boot", k, p, d, nv, cv, b, cache] => do
    let cid ← classOf k
    let pr ← prOf p
    let d ← decVal d
    let nv ← decBool nv
    let cv ← decBool cv
    let b ← dec b
    let cache ← decPairs cache
    match boot (cid.cls pr d) ⟨nv, cv⟩ b (cacheOf cache) with
    | .up s => pure (some ⟨cid, pr, d, ⟨nv, cv⟩, b, s⟩, "up")
    | .refused => pure (none, "refused")
    | .unm => pure (none, "unm")
  | "t_set" :: text :: w => do
    let t ← t
    let w ← decWhere w
    let text ← dec text
    let (s, o) := setText t.cls t.base t.st w text
    pure (some { t with st := s }, encOut encVal o)
  | "t_setv" :: v :: w => do
    let t ← t
    let w ← decWhere w
    let v ← decVal v
    let (s, o) := setVal t.cls t.base t.st w (t.cid.setValue v)
    pure (some { t with st := s }, encOut encVal o)
  | ["t_reset_chan", n, c] => do
    let t ← t
    let n ← decOpt n
    let c ← dec c
    let (s, o) := resetChannel t.cls t.base t.st n c
    pure (some { t with st := s }, encOut encVal o)
  | ["t_reset_net", n] => do
    let t ← t
    let n ← dec n
    let (s, o) := resetNetwork t.cls t.base t.st n
    pure (some { t with st := s }, encOut encVal o)
  | ["t_get", n, c, nok, cok] => do
    let t ← t
    let n ← decOpt n
    let c ← decOpt c
    let nok ← decBool nok
    let cok ← decBool cok
    let (s, o) := getSpecific t.cls t.kind t.base t.st n c nok cok
    pure (some { t with st := s }, encOut encVal o)
  | ["t_dump"] => do
    let t ← t
    pure (some t, encDump (t.st.var.dump t.base))
  | ["t_save"] => do
    let t ← t
    pure (some t, enc (saveText t.pr t.cid (t.st.var.dump t.base)))
  | ["t_saveload"] => do
    let t ← t
    match saveLoad t.pr t.cid t.dflt t.kind t.base t.st with
    | .up s => pure (some { t with st := s }, "up")
    | .refused => pure (none, "refused")
    | .unm => pure (none, "unm")
  | _ => none

/-- state of the lazy layer -/
structure LState where
  cid : ClassId
  pr : Char → Bool
  dflt : Val
  kind : Kind
  base : Str
  ls : LSt Val

def LState.cls (t : LState) : Cls Val := t.cid.cls t.pr t.dflt

def driveLazy (t : Option LState) : List String → Option (Option LState × String)
  | ["l_boot", k, p, d, nv, cv, b, cache] => do
    let cid ← classOf k
    let pr ← prOf p
    let d ← decVal d
    let nv ← decBool nv
    let cv ← decBool cv
    let b ← dec b
    let cache ← decPairs cache
    match boot (cid.cls pr d) ⟨nv, cv⟩ b (cacheOf cache) with
    | .up s => pure (some ⟨cid, pr, d, ⟨nv, cv⟩, b, ⟨s, false, []⟩⟩, "up")
    | .refused => pure (none, "refused")
    | .unm => pure (none, "unm")
  | "l_set" :: text :: w => do
    let t ← t
    let w ← decWhere w
    let text ← dec text
    let (s, o) := t.ls.setText t.cls t.cid.strCalls t.base w text
    pure (some { t with ls := s }, encOut encVal o)
  | "l_setv" :: v :: w => do
    let t ← t
    let w ← decWhere w
    let v ← decVal v
    let (s, o) := t.ls.setVal t.cls t.cid.strCalls t.base w (t.cid.setValue v)
    pure (some { t with ls := s }, encOut encVal o)
  | ["l_reset_chan", n, c] => do
    let t ← t
    let n ← decOpt n
    let c ← dec c
    let (s, o) := t.ls.resetChannel t.cls t.cid.strCalls t.base n c
    pure (some { t with ls := s }, encOut encVal o)
  | ["l_reset_net", n] => do
    let t ← t
    let n ← dec n
    let (s, o) := t.ls.resetNetwork t.cls t.cid.strCalls t.base n
    pure (some { t with ls := s }, encOut encVal o)
  | ["l_get", n, c, nok, cok] => do
    let t ← t
    let n ← decOpt n
    let c ← decOpt c
    let nok ← decBool nok
    let cok ← decBool cok
    let (s, o) := t.ls.getSpecific t.cls t.cid.strCalls t.kind t.base n c nok cok
    pure (some { t with ls := s }, encOut encVal o)
  | ["l_dump"] => do
    let t ← t
    pure (some t, encDump (t.ls.st.var.dump t.base))
  | ["l_save"] => do
    let t ← t
    let (s, written) := t.ls.save t.cls t.cid.strCalls t.base
    let entries : List Entry := written.filterMap fun nv => nv.2.map fun v => ⟨[], nv.1, t.cid.serializeAt t.pr nv.1 v⟩
    pure (some { t with ls := s }, enc (fileText entries))
  | "l_save_il" :: opsf => do
    -- one field per listed node: operations separated by '|', each 'set;<where fields ,>;<text>' / 'rnet;<n>' / 'rchan;<n|~>;<c>'
    let t ← t
    let ops ← opsf.mapM fun f =>
      if f = "-" then some ([] : List TOp) else
      (f.splitOn "|").mapM fun o =>
        match o.splitOn ";" with
        | ["set", w, text] => do
          let w ← decWhere (w.splitOn ",")
          let text ← dec text
          pure (TOp.set w text)
        | ["rnet", n] => (dec n).map TOp.resetNet
        | ["rchan", n, c] => do
          let n ← decOpt n
          let c ← dec c
          pure (TOp.resetChan n c)
        | _ => none
    let (s, written) := t.ls.saveInterleaved t.cls t.cid.strCalls t.base ops
    let entries : List Entry := written.filterMap fun nv => nv.2.map fun v => ⟨[], nv.1, t.cid.serializeAt t.pr nv.1 v⟩
    pure (some { t with ls := s }, enc (fileText entries))
  | ["l_reopen", text, clear] => do
    let t ← t
    let text ← dec text
    let clear ← decBool clear
    match readRegistry text with
    | .ok as => pure (some { t with ls := t.ls.reopen as clear }, "ok")
    | .invalid => pure (some t, "invalid")
    | .unm => pure (some t, "unm")
  | _ => none

structure DState where
  tree : Option TState
  lz : Option LState

def step (d : DState) (fs : List String) : DState × String :=
  match drivePure fs with
  | some o => (d, o)
  | none =>
    match driveTree d.tree fs with
    | some (t, o) => ({ d with tree := t }, o)
    | none =>
      match driveLazy d.lz fs with
      | some (l, o) => ({ d with lz := l }, o)
      | none => (d, "bad-op")

def handler : Driver.Handler := { σ := DState, init := ⟨none, none⟩, step := step }
end C15
