/-
C15 — separated lists after the item check of `SeparatedListOf.setValue`: an accepted list is
written and read back unchanged.
-/
import LimnoriaModel.C15.WrapLemmas
namespace C15
open Py

/-! ### space separated -/

theorem splitWs_go_pieces : ∀ (s acc : Str), (∀ c ∈ acc, isSpace c = false) →
    ∀ w ∈ splitWs.go s acc, ∀ c ∈ w, isSpace c = false := by
  intro s
  induction s with
  | nil =>
    intro acc hacc w hw c hc
    simp only [splitWs.go] at hw
    split at hw
    · simp at hw
    · simp at hw; subst hw; exact hacc c (by simpa using hc)
  | cons x xs ih =>
    intro acc hacc w hw c hc
    simp only [splitWs.go] at hw
    by_cases hx : isSpace x = true
    · simp only [hx, if_true] at hw
      split at hw
      · exact ih [] (by intro c hc; simp at hc) w hw c hc
      · simp only [List.mem_cons] at hw
        rcases hw with rfl | hw
        · exact hacc c (by simpa using hc)
        · exact ih [] (by intro c hc; simp at hc) w hw c hc
    · simp only [hx, Bool.false_eq_true, if_false] at hw
      exact ih (x :: acc) (by
        intro c hc; simp only [List.mem_cons] at hc
        rcases hc with rfl | hc
        · simpa using hx
        · exact hacc c hc) w hw c hc

/-- an item `SpaceSeparatedListOf.setValue` accepts is a non-empty blank-free word -/
theorem word_of_accepted (x : Str) (h : splitWs x = [x]) : Word x := by
  constructor
  · intro e; subst e; revert h; decide
  · intro c hc
    have := splitWs_go_pieces x [] (by intro c hc; simp at hc) x (by unfold splitWs at h; rw [h]; simp) c hc
    exact this

/-! ### comma separated -/

theorem dropWhile_eq_of_length {α : Type} (p : α → Bool) (l : List α) (h : (l.dropWhile p).length = l.length) :
    l.dropWhile p = l := by
  cases l with
  | nil => rfl
  | cons a as =>
    simp only [List.dropWhile] at h ⊢
    split
    · rename_i ha
      rw [ha] at h
      have := dropWhile_length_le p as
      simp at h; omega
    · rfl

theorem rstripP_length_le (p : Char → Bool) (s : Str) : (rstripP p s).length ≤ s.length := by
  unfold rstripP
  have := dropWhile_length_le p s.reverse
  simpa using this

theorem strip_fixed (x : Str) (h : strip x = x) : lstrip x = x ∧ rstrip x = x := by
  unfold strip at h
  have h1 := rstripP_length_le isSpace (lstripP isSpace x)
  have h2 : (lstripP isSpace x).length ≤ x.length := dropWhile_length_le isSpace x
  have h3 := congrArg List.length h
  have hl : lstripP isSpace x = x := dropWhile_eq_of_length isSpace x (by unfold lstripP at h2 h1 h3; omega)
  refine ⟨hl, ?_⟩
  rw [hl] at h
  exact h

theorem splitChar_pieces (c : Char) (s : Str) : ∀ w ∈ splitChar c s, ∀ x ∈ w, x ≠ c := by
  induction s with
  | nil => intro w hw x hx; simp [splitChar] at hw; subst hw; simp at hx
  | cons a as ih =>
    intro w hw x hx
    simp only [splitChar] at hw
    split at hw
    · simp only [List.mem_cons] at hw
      rcases hw with rfl | hw
      · simp at hx
      · exact ih w hw x hx
    · rename_i ha
      cases hs : splitChar c as with
      | nil => rw [hs] at hw; simp at hw; subst hw; simp at hx; subst hx; exact ha
      | cons q qs =>
        rw [hs] at hw ih
        simp only [List.mem_cons] at hw
        rcases hw with rfl | hw
        · simp only [List.mem_cons] at hx
          rcases hx with rfl | hx
          · exact ha
          · exact ih q (by simp) x hx
        · exact ih w (by simp [hw]) x hx

theorem dropWhile_sub {α : Type} (p : α → Bool) (l : List α) : ∀ x ∈ l.dropWhile p, x ∈ l := by
  intro x hx
  obtain ⟨pre, h⟩ := dropWhile_suffix' p l
  rw [h]; simp [hx]

theorem rstripP_sub (p : Char → Bool) (s : Str) : ∀ x ∈ rstripP p s, x ∈ s := by
  intro x hx
  unfold rstripP at hx
  have := dropWhile_sub p s.reverse x (by simpa using hx)
  simpa using this

theorem strip_sub (s : Str) : ∀ x ∈ strip s, x ∈ s := by
  intro x hx
  unfold strip at hx
  exact dropWhile_sub isSpace s x (rstripP_sub isSpace _ x hx)

theorem commaPieces_nocomma : ∀ (first : Bool) (ps : List Str), (∀ w ∈ ps, ∀ x ∈ w, x ≠ ',') →
    ∀ w ∈ commaPieces first ps, ∀ x ∈ w, x ≠ ',' := by
  intro first ps
  induction ps generalizing first with
  | nil => intro _ w hw; simp [commaPieces] at hw
  | cons p rest ih =>
    intro h w hw x hx
    have hp := h p (by simp)
    have hsub : ∀ y ∈ (if first then p else lstrip p), y ∈ p := by
      intro y hy; split at hy
      · exact hy
      · exact dropWhile_sub isSpace p y hy
    cases rest with
    | nil =>
      simp only [commaPieces, List.mem_singleton] at hw; subst hw
      exact hp x (hsub x hx)
    | cons q qs =>
      simp only [commaPieces, List.mem_cons] at hw
      rcases hw with rfl | hw
      · exact hp x (hsub x (rstripP_sub isSpace _ x hx))
      · exact ih false (fun w' hw' => h w' (by simp [hw'])) w (by simpa [commaPieces] using hw) x hx

/-- what `CommaSeparatedListOfStrings.setValue` accepts: non-empty, no comma, no blank at either end -/
def CommaOk (x : Str) : Prop := x ≠ [] ∧ CommaElt x

theorem commaOk_of_accepted (x : Str) (h : ListClass.splitter .comma x = [x]) : CommaOk x := by
  unfold ListClass.splitter at h
  simp only at h
  have hxm : x ∈ (commaPieces true (splitChar ',' (strip x))).filter (fun y => !y.isEmpty) := by rw [h]; simp
  rw [List.mem_filter] at hxm
  have hne : x ≠ [] := by intro e; subst e; simp at hxm
  have hnc : ∀ c ∈ x, c ≠ ',' := commaPieces_nocomma true _ (splitChar_pieces ',' _) x hxm.1
  -- strip x has no comma either, so there is one piece: strip x itself
  have hsn : ∀ c ∈ strip x, c ≠ ',' := fun c hc => hnc c (strip_sub x c hc)
  rw [splitChar_no ',' (strip x) hsn] at h
  simp only [commaPieces, if_true] at h
  have hs : strip x = x := by
    cases hsx : (strip x).isEmpty with
    | true => simp [List.filter, hsx] at h
    | false => simp [List.filter, hsx] at h; exact h
  exact ⟨hne, hnc, strip_fixed x hs⟩

theorem filter_nonempty_id (xs : List Str) (h : ∀ x ∈ xs, x ≠ []) : xs.filter (fun x => !x.isEmpty) = xs := by
  rw [List.filter_eq_self]
  intro x hx
  have := h x hx
  cases x with
  | nil => exact absurd rfl this
  | cons a as => rfl

theorem comma_splitter_str (hj : Gen.Registry.commaJoin = [',', ' ']) (he : Gen.Registry.emptyListStr = [' '])
    (xs : List Str) (h : ∀ x ∈ xs, CommaOk x) :
    ListClass.splitter .comma (ListClass.str .comma xs) = xs := by
  unfold ListClass.splitter ListClass.str
  cases xs with
  | nil => simp only [List.isEmpty_nil, if_true, he]; decide
  | cons e es =>
    simp only [List.isEmpty_cons, Bool.false_eq_true, if_false, ListClass.joiner, hj]
    have hce : ∀ x ∈ e :: es, CommaElt x := fun x hx => (h x hx).2
    -- the joined text has no blank at either end
    have hstrip : strip (joinStr [',', ' '] (e :: es)) = joinStr [',', ' '] (e :: es) := by
      have hhead : ∀ c, (joinStr [',', ' '] (e :: es)).head? = some c → isSpace c = false := by
        intro c hc
        have hene := (h e (by simp)).1
        cases e with
        | nil => exact absurd rfl hene
        | cons a as =>
          rw [joinStr_head _ _ _ a as rfl] at hc
          have hac : a = c := Option.some.inj hc
          have := (hce (a :: as) (by simp)).2.1
          rw [lstrip_eq_iff] at this; rw [← hac]; exact this
      have hlast : ∀ c, (joinStr [',', ' '] (e :: es)).getLast? = some c → isSpace c = false := by
        intro c hc
        have hne' : e :: es ≠ [] := by simp
        have hsplit := (List.dropLast_concat_getLast hne').symm
        generalize (e :: es).dropLast = init at hsplit
        generalize hlw : (e :: es).getLast hne' = lw at hsplit
        have hlwm : lw ∈ e :: es := by rw [← hlw]; exact List.getLast_mem hne'
        obtain ⟨b, hb⟩ : ∃ b, lw.getLast? = some b := by
          cases hq : lw.getLast? with
          | none => exact absurd (List.getLast?_eq_none_iff.mp hq) (h lw hlwm).1
          | some b => exact ⟨b, rfl⟩
        rw [hsplit, joinStr_getLast _ init lw b hb] at hc
        have hbc : b = c := Option.some.inj hc
        have := (hce lw hlwm).2.2
        rw [rstrip_eq_iff lw b hb] at this; rw [← hbc]; exact this
      unfold strip
      rw [lstripP_id _ _ hhead, rstripP_id _ _ hlast]
    rw [hstrip, commaPieces_join e es hce]
    exact filter_nonempty_id _ (fun x hx => (h x hx).1)

/-- **lists reload**: whatever `setValue` accepts, `set(str(·))` gives back -/
theorem list_roundtrip_aux (hs : Gen.Registry.spaceJoin = [' ']) (he : Gen.Registry.emptyListStr = [' '])
    (hj : Gen.Registry.commaJoin = [',', ' ']) (k : ListClass) (xs : List Str) (hacc : k.setValue xs = .ok xs) :
    k.set (k.str xs) = .ok xs := by
  have hall : ∀ x ∈ xs, k.splitter x = [x] := by
    unfold ListClass.setValue at hacc
    split at hacc
    · rename_i hh
      intro x hx
      have := List.all_eq_true.mp hh x hx
      simpa using this
    · cases hacc
  unfold ListClass.set
  cases k with
  | space =>
    rw [space_roundtrip_aux hs he xs (fun x hx => word_of_accepted x (hall x hx))]
    exact hacc
  | comma =>
    rw [comma_splitter_str hj he xs (fun x hx => commaOk_of_accepted x (hall x hx))]
    exact hacc

end C15
