/-
C15 — helper lemmas: the escape machine undoes the encoder and `repr`.
-/
import LimnoriaModel.C15.Model
namespace C15
open Py

/-! ### characters and hex digits -/

theorem hexVal_hexDigit : ∀ k, k < 16 → hexVal (hexDigit k) = some k := by decide
theorem hexDigit_toNat : ∀ k, k < 16 → 48 ≤ (hexDigit k).toNat ∧ (hexDigit k).toNat < 103 := by decide

theorem char_valid (c : Char) : c.toNat < 0xD800 ∨ (0xDFFF < c.toNat ∧ c.toNat < 0x110000) := by
  have h := c.valid
  unfold UInt32.isValidChar Nat.isValidChar at h
  unfold Char.toNat
  omega

theorem char_eq_of_toNat {a b : Char} (h : a.toNat = b.toNat) : a = b := by
  rw [← Char.ofNat_toNat a, ← Char.ofNat_toNat b, h]

theorem char_ne_toNat {a b : Char} (h : a ≠ b) : a.toNat ≠ b.toNat := fun e => h (char_eq_of_toNat e)

theorem Res.emit_ok (c : Char) (s : Str) : (Res.ok s).emit c = .ok (c :: s) := rfl

theorem emitNat_toNat (c : Char) (r : Res) : emitNat c.toNat r = r.emit c := by
  unfold emitNat
  have := char_valid c
  rw [if_neg (by omega), if_neg (by omega), Char.ofNat_toNat]

/-! ### decoding the hexadecimal escapes -/

theorem unesc_hex2 (q : Option Char) (n : Nat) (h : n < 256) (rest : Str) :
    unesc q (.hex 2 0) (hex2 n ++ rest) = emitNat n (unesc q .norm rest) := by
  simp only [hex2, List.cons_append, List.nil_append, unesc]
  rw [hexVal_hexDigit _ (by omega), hexVal_hexDigit _ (by omega)]
  simp only [show ¬ (2 ≤ 1) by omega, if_false, Nat.le_refl, if_true]
  congr 1
  omega

theorem unesc_hex4 (q : Option Char) (n : Nat) (h : n < 65536) (rest : Str) :
    unesc q (.hex 4 0) (hex4 n ++ rest) = emitNat n (unesc q .norm rest) := by
  simp only [hex4, List.cons_append, List.nil_append, unesc]
  rw [hexVal_hexDigit _ (by omega), hexVal_hexDigit _ (by omega), hexVal_hexDigit _ (by omega),
    hexVal_hexDigit _ (by omega)]
  simp only [show ¬ (4 ≤ 1) by omega, show ¬ (4 - 1 ≤ 1) by omega, show ¬ (4 - 1 - 1 ≤ 1) by omega,
    show (4 - 1 - 1 - 1 ≤ 1) by omega, if_false, if_true]
  congr 1
  omega

theorem unesc_hex8 (q : Option Char) (n : Nat) (h : n < 4294967296) (rest : Str) :
    unesc q (.hex 8 0) (hex8 n ++ rest) = emitNat n (unesc q .norm rest) := by
  simp only [hex8, List.cons_append, List.nil_append, unesc]
  rw [hexVal_hexDigit _ (by omega), hexVal_hexDigit _ (by omega), hexVal_hexDigit _ (by omega),
    hexVal_hexDigit _ (by omega), hexVal_hexDigit _ (by omega), hexVal_hexDigit _ (by omega),
    hexVal_hexDigit _ (by omega), hexVal_hexDigit _ (by omega)]
  simp only [show ¬ (8 ≤ 1) by omega, show ¬ (8 - 1 ≤ 1) by omega, show ¬ (8 - 1 - 1 ≤ 1) by omega,
    show ¬ (8 - 1 - 1 - 1 ≤ 1) by omega, show ¬ (8 - 1 - 1 - 1 - 1 ≤ 1) by omega,
    show ¬ (8 - 1 - 1 - 1 - 1 - 1 ≤ 1) by omega, show ¬ (8 - 1 - 1 - 1 - 1 - 1 - 1 ≤ 1) by omega,
    show (8 - 1 - 1 - 1 - 1 - 1 - 1 - 1 ≤ 1) by omega, if_false, if_true]
  congr 1
  omega

/-- a backslash followed by `hexEscape n` decodes to the character `n` -/
theorem unesc_hexEscape (q : Option Char) (c : Char) (rest : Str) :
    unesc q .norm (hexEscape c.toNat ++ rest) = (unesc q .norm rest).emit c := by
  have hv := char_valid c
  unfold hexEscape
  split
  · rename_i h
    simp only [List.cons_append, unesc, normStep, escStep]
    simp only [show ('x' : Char) = '\\' ↔ False by decide, show ('x' : Char) = '\n' ↔ False by decide,
      show ('x' : Char) = '\'' ↔ False by decide, show ('x' : Char) = '"' ↔ False by decide,
      show ('x' : Char) = 'a' ↔ False by decide, show ('x' : Char) = 'b' ↔ False by decide,
      show ('x' : Char) = 'f' ↔ False by decide, show ('x' : Char) = 'n' ↔ False by decide,
      show ('x' : Char) = 'r' ↔ False by decide, show ('x' : Char) = 't' ↔ False by decide,
      show ('x' : Char) = 'v' ↔ False by decide, or_self, if_false, if_true]
    rw [unesc_hex2 q _ h, emitNat_toNat]
  · split
    · rename_i h
      simp only [List.cons_append, unesc, normStep, escStep]
      simp only [show ('u' : Char) = '\\' ↔ False by decide, show ('u' : Char) = '\n' ↔ False by decide,
        show ('u' : Char) = '\'' ↔ False by decide, show ('u' : Char) = '"' ↔ False by decide,
        show ('u' : Char) = 'a' ↔ False by decide, show ('u' : Char) = 'b' ↔ False by decide,
        show ('u' : Char) = 'f' ↔ False by decide, show ('u' : Char) = 'n' ↔ False by decide,
        show ('u' : Char) = 'r' ↔ False by decide, show ('u' : Char) = 't' ↔ False by decide,
        show ('u' : Char) = 'v' ↔ False by decide, show ('u' : Char) = 'x' ↔ False by decide,
        or_self, if_false, if_true]
      rw [unesc_hex4 q _ h, emitNat_toNat]
    · simp only [List.cons_append, unesc, normStep, escStep]
      simp only [show ('U' : Char) = '\\' ↔ False by decide, show ('U' : Char) = '\n' ↔ False by decide,
        show ('U' : Char) = '\'' ↔ False by decide, show ('U' : Char) = '"' ↔ False by decide,
        show ('U' : Char) = 'a' ↔ False by decide, show ('U' : Char) = 'b' ↔ False by decide,
        show ('U' : Char) = 'f' ↔ False by decide, show ('U' : Char) = 'n' ↔ False by decide,
        show ('U' : Char) = 'r' ↔ False by decide, show ('U' : Char) = 't' ↔ False by decide,
        show ('U' : Char) = 'v' ↔ False by decide, show ('U' : Char) = 'x' ↔ False by decide,
        show ('U' : Char) = 'u' ↔ False by decide, or_self, if_false, if_true]
      rw [unesc_hex8 q _ (by omega), emitNat_toNat]

/-! ### the encoder's output decodes to its input -/


theorem unesc_encChar (c : Char) (rest : Str) :
    unesc none .norm (encChar c ++ rest) = (unesc none .norm rest).emit c := by
  unfold encChar
  simp only
  split
  · rename_i h; subst h
    simp [unesc, normStep, escStep]
  · split
    · rename_i h; subst h
      simp [unesc, normStep, escStep]
    · split
      · rename_i h; subst h
        simp [unesc, normStep, escStep]
      · split
        · rename_i h; subst h
          simp [unesc, normStep, escStep]
        · split
          · exact unesc_hexEscape none c rest
          · rename_i h1 h2 h3 h4 h5
            simp [unesc, normStep, h1]

theorem decode_encode_aux (s : Str) : unesc none .norm (encodeUE s) = .ok s := by
  induction s with
  | nil => simp [encodeUE, unesc]
  | cons c cs ih =>
    have : encodeUE (c :: cs) = encChar c ++ encodeUE cs := by simp [encodeUE]
    rw [this, unesc_encChar, ih]; rfl



/-- the characters the encoder writes: printable ASCII -/
def Plain (x : Char) : Prop := 32 ≤ x.toNat ∧ x.toNat < 127
instance (x : Char) : Decidable (Plain x) := by unfold Plain; infer_instance

theorem hexDigit_plain (k : Nat) (h : k < 16) : Plain (hexDigit k) := by
  have := hexDigit_toNat k h
  unfold Plain; omega

theorem hexEscape_plain (n : Nat) : ∀ x ∈ hexEscape n, Plain x := by
  intro x hx
  unfold hexEscape at hx
  split at hx
  · simp only [hex2, List.mem_cons, List.not_mem_nil, or_false] at hx
    rcases hx with rfl | rfl | rfl | rfl
    · decide
    · decide
    · exact hexDigit_plain _ (by omega)
    · exact hexDigit_plain _ (by omega)
  · split at hx
    · simp only [hex4, List.mem_cons, List.not_mem_nil, or_false] at hx
      rcases hx with rfl | rfl | rfl | rfl | rfl | rfl
      · decide
      · decide
      all_goals exact hexDigit_plain _ (by omega)
    · simp only [hex8, List.mem_cons, List.not_mem_nil, or_false] at hx
      rcases hx with rfl | rfl | rfl | rfl | rfl | rfl | rfl | rfl | rfl | rfl
      · decide
      · decide
      all_goals exact hexDigit_plain _ (by omega)

theorem encChar_plain (c : Char) : ∀ x ∈ encChar c, Plain x := by
  intro x hx
  unfold encChar at hx
  simp only at hx
  split at hx
  · simp at hx; rcases hx with rfl; decide
  · split at hx
    · simp at hx; rcases hx with rfl | rfl <;> decide
    · split at hx
      · simp at hx; rcases hx with rfl | rfl <;> decide
      · split at hx
        · simp at hx; rcases hx with rfl | rfl <;> decide
        · split at hx
          · exact hexEscape_plain _ x hx
          · rename_i h
            simp at hx; subst hx
            unfold Plain; omega

theorem encodeUE_plain (s : Str) : ∀ x ∈ encodeUE s, Plain x := by
  intro x hx
  simp only [encodeUE, List.mem_flatMap] at hx
  obtain ⟨c, _, hc⟩ := hx
  exact encChar_plain c x hc

theorem latin1Bytes_ascii (s : Str) (h : ∀ x ∈ s, x.toNat < 128) : latin1Bytes s = s := by
  induction s with
  | nil => rfl
  | cons c cs ih =>
    have hc := h c (by simp)
    have := ih (fun x hx => h x (by simp [hx]))
    simp only [latin1Bytes, List.flatMap_cons] at this ⊢
    rw [this, if_pos hc]; rfl


/-- `registry.decoder(registry.encoder(s))` is `s`, for every string -/
theorem decodeUE_encodeUE (s : Str) : decodeUE (encodeUE s) = .ok s := by
  unfold decodeUE
  rw [latin1Bytes_ascii _ (fun x hx => by have := encodeUE_plain s x hx; unfold Plain at this; omega)]
  exact decode_encode_aux s

/-! ### `repr` followed by literal evaluation -/



theorem unesc_reprChar (pr : Char → Bool) (q c : Char) (hq : q = '\'' ∨ q = '"') (rest : Str) :
    unesc (some q) .norm (reprChar pr q c ++ rest) = (unesc (some q) .norm rest).emit c := by
  have hqn : q.toNat = 39 ∨ q.toNat = 34 := by rcases hq with rfl | rfl <;> decide
  unfold reprChar
  simp only
  split
  · rename_i h
    rcases h with h | h
    · subst h
      rcases hq with rfl | rfl <;> simp [unesc, normStep, escStep]
    · subst h
      simp [unesc, normStep, escStep]
  · rename_i h0
    have hcq : c ≠ q := fun e => h0 (Or.inl e)
    have hcb : c ≠ '\\' := fun e => h0 (Or.inr e)
    split
    · rename_i h; subst h
      simp [unesc, normStep, escStep]
    · split
      · rename_i h; subst h
        simp [unesc, normStep, escStep]
      · split
        · rename_i h; subst h
          simp [unesc, normStep, escStep]
        · rename_i ht hn hr
          have key : unesc (some q) .norm (c :: rest) = (unesc (some q) .norm rest).emit c := by
            simp only [unesc, normStep, if_neg hcb]
            rw [if_neg (by intro e; exact hcq (Option.some.inj e).symm)]
            rw [if_neg (by simp [hn])]
          split
          · exact unesc_hexEscape (some q) c rest
          · split
            · exact key
            · split
              · exact key
              · exact unesc_hexEscape (some q) c rest


/-- characters that survive the tokenizer's newline translation and the NUL check -/
def Safe (x : Char) : Prop := x ≠ '\r' ∧ x ≠ Char.ofNat 0

theorem Plain.safe {x : Char} (h : Plain x) : Safe x := by
  unfold Plain at h
  constructor
  · intro e; subst e; revert h; decide
  · intro e; subst e; revert h; decide

theorem safe_of_ge {x : Char} (h : 32 ≤ x.toNat) : Safe x := by
  constructor
  · intro e; subst e; revert h; decide
  · intro e; subst e; revert h; decide

theorem reprChar_safe (pr : Char → Bool) (q c : Char) (hq : q = '\'' ∨ q = '"') :
    ∀ x ∈ reprChar pr q c, Safe x := by
  intro x hx
  unfold reprChar at hx
  simp only at hx
  split at hx
  · rename_i h
    simp at hx
    rcases hx with rfl | rfl
    · exact safe_of_ge (by decide)
    · rcases h with h | h
      · subst h; rcases hq with rfl | rfl <;> exact safe_of_ge (by decide)
      · subst h; exact safe_of_ge (by decide)
  · split at hx
    · simp at hx; rcases hx with rfl | rfl <;> exact safe_of_ge (by decide)
    · split at hx
      · simp at hx; rcases hx with rfl | rfl <;> exact safe_of_ge (by decide)
      · split at hx
        · simp at hx; rcases hx with rfl | rfl <;> exact safe_of_ge (by decide)
        · split at hx
          · exact (hexEscape_plain _ x hx).safe
          · rename_i h
            split at hx
            · simp at hx; subst hx; exact safe_of_ge (by omega)
            · split at hx
              · simp at hx; subst hx; exact safe_of_ge (by omega)
              · exact (hexEscape_plain _ x hx).safe

theorem normNLAux_safe (s : Str) (h : ∀ x ∈ s, Safe x) : normNLAux false s = s := by
  induction s with
  | nil => rfl
  | cons c cs ih =>
    have hc := (h c (by simp)).1
    simp only [normNLAux, if_neg hc]
    rw [if_neg (by simp), ih (fun x hx => h x (by simp [hx]))]

theorem contains_false_of_ne (s : Str) (a : Char) (h : ∀ x ∈ s, x ≠ a) : s.contains a = false := by
  induction s with
  | nil => rfl
  | cons c cs ih =>
    simp only [List.contains_cons, Bool.or_eq_false_iff]
    constructor
    · have := h c (by simp); simp; exact fun e => this e.symm
    · exact ih (fun x hx => h x (by simp [hx]))

theorem reprQuote_cases (s : Str) : reprQuote s = '\'' ∨ reprQuote s = '"' := by
  unfold reprQuote; split <;> simp

theorem unesc_reprBody (pr : Char → Bool) (q : Char) (hq : q = '\'' ∨ q = '"') (s : Str) :
    unesc (some q) .norm (s.flatMap (reprChar pr q) ++ [q]) = .ok s := by
  induction s with
  | nil =>
    rcases hq with rfl | rfl <;> simp [unesc, normStep]
  | cons c cs ih =>
    rw [List.flatMap_cons, List.append_assoc, unesc_reprChar pr q c hq, ih]; rfl

/-- `safeEval(repr(s)) == s` for every string, whatever the Unicode database calls printable -/
theorem evalLit_pyRepr (pr : Char → Bool) (s : Str) : evalLit (pyRepr pr s) = .ok s := by
  have hq := reprQuote_cases s
  have hsafe : ∀ x ∈ s.flatMap (reprChar pr (reprQuote s)) ++ [reprQuote s], Safe x := by
    intro x hx
    rw [List.mem_append] at hx
    rcases hx with hx | hx
    · rw [List.mem_flatMap] at hx
      obtain ⟨c, _, hc⟩ := hx
      exact reprChar_safe pr _ c hq x hc
    · simp at hx; subst hx
      rcases hq with h | h <;> rw [h] <;> exact safe_of_ge (by decide)
  unfold pyRepr evalLit
  simp only
  have hiq : isQuote (reprQuote s) = true := by
    rcases hq with h | h <;> rw [h] <;> decide
  rw [if_neg (by simp [hiq])]
  rw [if_neg]
  · unfold normNL
    rw [normNLAux_safe _ hsafe]
    exact unesc_reprBody pr _ hq s
  · have : (reprQuote s :: (s.flatMap (reprChar pr (reprQuote s)) ++ [reprQuote s])).contains (Char.ofNat 0) = false := by
      apply contains_false_of_ne
      intro x hx
      simp only [List.mem_cons] at hx
      rcases hx with rfl | hx
      · rcases hq with h | h <;> rw [h] <;> decide
      · exact (hsafe x hx).2
    rw [this]; simp

/-! ### `String.set` undoes `String.__str__` -/


/-- what the String round trip needs from the extracted quote table -/
def QuotesOk (qs : Str) : Prop := qs.contains '\'' = true ∧ qs.contains '"' = true

theorem head_pyRepr (pr : Char → Bool) (s : Str) : (pyRepr pr s).head? = some (reprQuote s) := rfl

theorem getLast_pyRepr (pr : Char → Bool) (s : Str) : (pyRepr pr s).getLast? = some (reprQuote s) := by
  unfold pyRepr
  simp only
  rw [List.getLast?_cons, List.getLast?_append]
  simp

theorem evalLit_empty_quotes : evalLit ['"', '"'] = .ok [] := by decide

theorem strSet_strStr (hq : QuotesOk Gen.Registry.stringQuotes) (pr : Char → Bool) (v : Str) :
    strSet pr (strStr pr v) = .ok v := by
  unfold strSet strStr
  by_cases hn : needsQuoting v = true
  · rw [if_pos hn]
    unfold strSetText
    rw [head_pyRepr, getLast_pyRepr]
    simp only
    have hc : Gen.Registry.stringQuotes.contains (reprQuote v) = true := by
      rcases reprQuote_cases v with h | h <;> rw [h]
      · exact hq.1
      · exact hq.2
    rw [if_neg (by simp; exact List.contains_iff_mem.mp hc |> fun h => by simpa using h)]
    rw [evalLit_pyRepr]; rfl
  · rw [if_neg hn]
    unfold strSetText
    cases hh : v.head? with
    | none =>
      have : v = [] := by cases v <;> simp_all
      subst this
      rw [evalLit_empty_quotes]; rfl
    | some a =>
      cases hl : v.getLast? with
      | none => cases v <;> simp_all
      | some b =>
        simp only
        have : a ≠ b ∨ ¬ Gen.Registry.stringQuotes.contains a = true := by
          by_cases hab : a = b
          · right
            intro hc
            apply hn
            unfold needsQuoting
            rw [hh, hl]
            subst hab
            simp
            right
            simpa using hc
          · left; exact hab
        rw [if_pos this, evalLit_pyRepr]; rfl




/-! ### integers -/

def IsDig (c : Char) : Prop := 48 ≤ c.toNat ∧ c.toNat ≤ 57

theorem digitChar_toNat (d : Nat) (h : d < 10) : (digitChar d).toNat = 48 + d := by
  unfold digitChar
  have : ∀ d, d < 10 → (Char.ofNat (48 + d)).toNat = 48 + d := by decide
  exact this d h

theorem digitChar_isDig (d : Nat) (h : d < 10) : IsDig (digitChar d) := by
  unfold IsDig; rw [digitChar_toNat d h]; omega

theorem isDigit_of_isDig {c : Char} (h : IsDig c) : isDigit c = true := by
  unfold IsDig at h
  unfold isDigit
  have h1 : ('0' : Char) ≤ c := by
    show ('0' : Char).val ≤ c.val
    have : ('0' : Char).val.toNat = 48 := by decide
    rw [UInt32.le_iff_toNat_le]; unfold Char.toNat at h; omega
  have h2 : c ≤ ('9' : Char) := by
    show c.val ≤ ('9' : Char).val
    have : ('9' : Char).val.toNat = 57 := by decide
    rw [UInt32.le_iff_toNat_le]; unfold Char.toNat at h; omega
  simp [h1, h2]

theorem digitsVal_digits (xs : Str) (h : ∀ x ∈ xs, IsDig x) (b : Bool) (acc : Nat) :
    digitsVal b acc xs =
      if xs = [] then (if b then some acc else none)
      else some (xs.foldl (fun a d => a * 10 + (d.toNat - 48)) acc) := by
  induction xs generalizing b acc with
  | nil => simp [digitsVal]
  | cons c cs ih =>
    have hc := h c (by simp)
    simp only [digitsVal, isDigit_of_isDig hc, if_true]
    rw [ih (fun x hx => h x (by simp [hx]))]
    by_cases hcs : cs = []
    · subst hcs; simp
    · simp [hcs]

theorem natDigitsRev_isDig (f n : Nat) : ∀ x ∈ natDigitsRev f n, IsDig x := by
  induction f generalizing n with
  | zero => simp [natDigitsRev]
  | succ f ih =>
    intro x hx
    simp only [natDigitsRev, List.mem_cons] at hx
    rcases hx with rfl | hx
    · exact digitChar_isDig _ (by omega)
    · split at hx
      · simp at hx
      · exact ih _ x hx

theorem natDigitsRev_val (f n : Nat) (h : n < f) :
    (natDigitsRev f n).foldr (fun d a => a * 10 + (d.toNat - 48)) 0 = n := by
  induction f generalizing n with
  | zero => omega
  | succ f ih =>
    simp only [natDigitsRev, List.foldr_cons]
    rw [digitChar_toNat _ (by omega)]
    split
    · rename_i h0; simp; omega
    · rename_i h0
      rw [ih (n / 10) (by omega)]; omega

theorem natDigitsRev_ne_nil (f n : Nat) : natDigitsRev (f + 1) n ≠ [] := by
  simp [natDigitsRev]

theorem natStr_isDig (n : Nat) : ∀ x ∈ natStr n, IsDig x := by
  intro x hx
  unfold natStr at hx
  rw [List.mem_reverse] at hx
  exact natDigitsRev_isDig _ _ x hx

theorem natStr_ne_nil (n : Nat) : natStr n ≠ [] := by
  unfold natStr
  simp [natDigitsRev]

theorem digitsVal_natStr (n : Nat) : digitsVal false 0 (natStr n) = some n := by
  rw [digitsVal_digits _ (natStr_isDig n), if_neg (natStr_ne_nil n)]
  unfold natStr
  rw [List.foldl_reverse, natDigitsRev_val _ _ (by omega)]


/-! ### stripping -/

theorem dropWhile_id {α : Type} (p : α → Bool) (l : List α) (h : ∀ c, l.head? = some c → p c = false) :
    l.dropWhile p = l := by
  cases l with
  | nil => rfl
  | cons c cs => simp [List.dropWhile, h c rfl]

theorem lstripP_id (p : Char → Bool) (s : Str) (h : ∀ c, s.head? = some c → p c = false) :
    lstripP p s = s := dropWhile_id p s h

theorem rstripP_id (p : Char → Bool) (s : Str) (h : ∀ c, s.getLast? = some c → p c = false) :
    rstripP p s = s := by
  unfold rstripP
  rw [dropWhile_id p s.reverse (by intro c hc; rw [List.head?_reverse] at hc; exact h c hc)]
  simp

theorem isDig_not_intBlank {c : Char} (h : IsDig c) : isIntBlank c = false := by
  unfold IsDig at h; unfold isIntBlank
  simp; omega

theorem all_head {P : Char → Prop} {s : Str} (h : ∀ x ∈ s, P x) {c : Char} (hc : s.head? = some c) : P c := by
  cases s with
  | nil => simp at hc
  | cons a as => simp at hc; subst hc; exact h a (by simp)

theorem all_last {P : Char → Prop} {s : Str} (h : ∀ x ∈ s, P x) {c : Char} (hc : s.getLast? = some c) : P c :=
  h c (List.mem_of_getLast? hc)

theorem pyInt_ascii (s : Str) (h : ∀ c ∈ s, c.toNat < 128) : pyInt s = pyIntAscii s := by
  unfold pyInt
  rw [if_pos (by rw [List.all_eq_true]; intro c hc; simpa using h c hc)]

theorem isDig_ascii {c : Char} (h : IsDig c) : c.toNat < 128 := by unfold IsDig at h; omega

theorem pyInt_natStr (n : Nat) : pyInt (natStr n) = some (Int.ofNat n) := by
  rw [pyInt_ascii _ (fun c hc => isDig_ascii (natStr_isDig n c hc))]
  unfold pyIntAscii
  have hd := natStr_isDig n
  rw [lstripP_id _ _ (fun c hc => isDig_not_intBlank (all_head hd hc)),
      rstripP_id _ _ (fun c hc => isDig_not_intBlank (all_last hd hc))]
  cases hs : natStr n with
  | nil => exact absurd hs (natStr_ne_nil n)
  | cons c cs =>
    have hc : IsDig c := hd c (by rw [hs]; simp)
    have h1 : c ≠ '-' := by intro e; subst e; revert hc; unfold IsDig; decide
    have h2 : c ≠ '+' := by intro e; subst e; revert hc; unfold IsDig; decide
    simp only
    split
    · rename_i heq; simp at heq; exact absurd heq.1 h1
    · rename_i heq; simp at heq; exact absurd heq.1 h2
    · rename_i ds _ _ 
      rw [← hs, digitsVal_natStr]; rfl

theorem pyInt_neg_natStr (n : Nat) : pyInt ('-' :: natStr n) = some (- Int.ofNat n) := by
  rw [pyInt_ascii _ (by
    intro c hc
    rcases List.mem_cons.mp hc with rfl | hc
    · decide
    · exact isDig_ascii (natStr_isDig n c hc))]
  unfold pyIntAscii
  have hd := natStr_isDig n
  rw [lstripP_id _ _ (by intro c hc; simp at hc; subst hc; decide),
      rstripP_id _ _ (by
        intro c hc
        rw [List.getLast?_cons] at hc
        cases hl : (natStr n).getLast? with
        | none => rw [hl] at hc; simp at hc; subst hc; decide
        | some d => rw [hl] at hc; simp at hc; subst hc; exact isDig_not_intBlank (all_last hd hl))]
  simp only
  rw [digitsVal_natStr]; rfl

theorem pyInt_intStr (v : Int) : pyInt (intStr v) = some v := by
  cases v with
  | ofNat n => exact pyInt_natStr n
  | negSucc n =>
    show pyInt ('-' :: natStr (n + 1)) = _
    rw [pyInt_neg_natStr]; rfl




/-! ### lists -/

theorem splitChar_no (c : Char) (a : Str) (h : ∀ x ∈ a, x ≠ c) : splitChar c a = [a] := by
  induction a with
  | nil => rfl
  | cons x xs ih =>
    have hx := h x (by simp)
    simp only [splitChar, if_neg hx, ih (fun y hy => h y (by simp [hy]))]

theorem splitChar_append (c : Char) (a rest : Str) (h : ∀ x ∈ a, x ≠ c) :
    splitChar c (a ++ c :: rest) = a :: splitChar c rest := by
  induction a with
  | nil => simp [splitChar]
  | cons x xs ih =>
    have hx := h x (by simp)
    simp only [List.cons_append, splitChar, if_neg hx, ih (fun y hy => h y (by simp [hy]))]

/-- a word: no blank inside, not empty -/
def Word (e : Str) : Prop := e ≠ [] ∧ ∀ c ∈ e, isSpace c = false

theorem splitWs_go_word (w rest acc : Str) (h : ∀ c ∈ w, isSpace c = false) :
    splitWs.go (w ++ rest) acc = splitWs.go rest (w.reverse ++ acc) := by
  induction w generalizing acc with
  | nil => rfl
  | cons c cs ih =>
    have hc := h c (by simp)
    simp only [List.cons_append, splitWs.go, hc]
    have := ih (c :: acc) (fun x hx => h x (by simp [hx]))
    rw [this]; simp

theorem splitWs_go_words (xs : List Str) (h : ∀ e ∈ xs, Word e) (hne : xs ≠ []) :
    splitWs.go (joinStr [' '] xs) [] = xs := by
  induction xs with
  | nil => exact absurd rfl hne
  | cons e es ih =>
    have he := h e (by simp)
    cases es with
    | nil =>
      simp only [joinStr]
      have := splitWs_go_word e [] [] he.2
      simp only [List.append_nil] at this
      rw [this]
      simp only [splitWs.go]
      have hne' : e.reverse ≠ [] := by simpa using he.1
      simp [he.1]
    | cons e2 es2 =>
      simp only [joinStr]
      rw [List.append_assoc, splitWs_go_word e _ [] he.2]
      simp only [List.append_nil, List.cons_append, List.nil_append, splitWs.go]
      have hsp : isSpace ' ' = true := by decide
      have hne' : e.reverse ≠ [] := by simpa using he.1
      simp only [hsp, if_true]
      rw [ih (fun x hx => h x (by simp [hx])) (by simp)]
      simp [he.1]

theorem space_roundtrip_aux (hj : Gen.Registry.spaceJoin = [' ']) (he : Gen.Registry.emptyListStr = [' '])
    (xs : List Str) (h : ∀ e ∈ xs, Word e) :
    ListClass.splitter .space (ListClass.str .space xs) = xs := by
  unfold ListClass.splitter ListClass.str
  cases xs with
  | nil => simp [he, splitWs, splitWs.go]; decide
  | cons e es =>
    simp only [List.isEmpty_cons, Bool.false_eq_true, if_false, ListClass.joiner, hj]
    exact splitWs_go_words (e :: es) h (by simp)


/-- an element a comma separated list can carry: no comma, no blank at either end -/
def CommaElt (e : Str) : Prop := (∀ c ∈ e, c ≠ ',') ∧ lstrip e = e ∧ rstrip e = e

theorem lstrip_space_cons (e : Str) : lstrip (' ' :: e) = lstrip e := by
  unfold lstrip lstripP
  have : isSpace ' ' = true := by decide
  simp [List.dropWhile, this]

/-- the pieces of `', '.join(xs)` split at the commas -/
theorem splitChar_commaJoin (e : Str) (es : List Str) (h : ∀ x ∈ e :: es, CommaElt x) :
    splitChar ',' (joinStr [',', ' '] (e :: es)) = e :: es.map (' ' :: ·) := by
  induction es generalizing e with
  | nil =>
    simp only [joinStr, List.map_nil]
    exact splitChar_no ',' e (h e (by simp)).1
  | cons e2 es2 ih =>
    simp only [joinStr, List.map_cons]
    rw [List.append_assoc]
    simp only [List.cons_append, List.nil_append]
    rw [splitChar_append ',' e _ (h e (by simp)).1]
    have h2 : ∀ x ∈ e2 :: es2, CommaElt x := fun x hx => h x (by simp [hx])
    have := ih e2 h2
    -- splitChar on ' ' :: joinStr … : the blank is not a comma
    have hsp : splitChar ',' (' ' :: joinStr [',', ' '] (e2 :: es2)) = (' ' :: e2) :: es2.map (' ' :: ·) := by
      simp only [splitChar, show ¬ ((' ' : Char) = ',') by decide, if_false, this]
    rw [hsp]

theorem commaPieces_rest (es : List Str) (h : ∀ x ∈ es, CommaElt x) :
    commaPieces false (es.map (' ' :: ·)) = es := by
  induction es with
  | nil => rfl
  | cons e es ih =>
    have he := h e (by simp)
    have ih' := ih (fun x hx => h x (by simp [hx]))
    cases es with
    | nil => simp [commaPieces, lstrip_space_cons, he.2.1]
    | cons e2 es2 =>
      simp only [List.map_cons] at ih' ⊢
      simp only [commaPieces, Bool.false_eq_true, if_false, lstrip_space_cons, he.2.1, he.2.2, ih']

theorem commaPieces_join (e : Str) (es : List Str) (h : ∀ x ∈ e :: es, CommaElt x) :
    commaPieces true (splitChar ',' (joinStr [',', ' '] (e :: es))) = e :: es := by
  rw [splitChar_commaJoin e es h]
  have hr := commaPieces_rest es (fun x hx => h x (by simp [hx]))
  cases es with
  | nil => simp [commaPieces]
  | cons e2 es2 =>
    simp only [List.map_cons] at hr ⊢
    simp only [commaPieces, if_true, (h e (by simp)).2.2, hr]




/-! ### the value tree: pure lookup, locality of assignments, inheritance -/

/-- what `getSpecific(network, channel)()` returns, read off a tree in which the nodes exist -/
def resolve {α : Type} (x : Var α) : Option Str → Option Str → Option α
  | some n, some c =>
    match findKey n x.nets, findKey c x.chans with
    | some nv, some cv =>
      (match findKey c nv.chans with
       | some ncv => some (if nv.wasSet || ncv.wasSet then ncv.value else cv.value)
       | none => none)
    | _, _ => none
  | some n, none => (findKey n x.nets).map (·.value)
  | none, some c => (findKey c x.chans).map (·.value)
  | none, none => some x.value

theorem keyEq_trans {a b c : Str} (h1 : keyEq a b = true) (h2 : keyEq a c = true) : keyEq b c = true := by
  unfold keyEq at *
  simp at *
  rw [← h1, h2]

theorem findKey_updKey_ne {β : Type} (k q : Str) (f : β → β) (l : List (Str × β))
    (h : keyEq k q = false) : findKey q (updKey k f l) = findKey q l := by
  induction l with
  | nil => rfl
  | cons kv rest ih =>
    obtain ⟨k', v⟩ := kv
    simp only [updKey]
    by_cases hk : keyEq k' k = true
    · rw [if_pos hk]
      simp only [findKey]
      have : keyEq k' q = false := by
        cases hq : keyEq k' q with
        | false => rfl
        | true => rw [keyEq_trans hk hq] at h; exact absurd h (by simp)
      simp [this]
    · rw [if_neg hk]
      simp only [findKey]
      split
      · rfl
      · exact ih

theorem findKey_updKey_eq {β : Type} (k q : Str) (f : β → β) (l : List (Str × β))
    (h : keyEq k q = true) : findKey q (updKey k f l) = (findKey q l).map f := by
  induction l with
  | nil => rfl
  | cons kv rest ih =>
    obtain ⟨k', v⟩ := kv
    simp only [updKey]
    by_cases hk : keyEq k' k = true
    · rw [if_pos hk]
      have hq : keyEq k' q = true := by
        unfold keyEq at *; simp at *; rw [hk, h]
      simp [findKey, hq]
    · rw [if_neg hk]
      have hq : keyEq k' q = false := by
        cases hq : keyEq k' q with
        | false => rfl
        | true =>
          exfalso; apply hk
          unfold keyEq at *; simp at *; rw [hq, h]
      simp [findKey, hq, ih]

theorem findKey_map {β : Type} (q : Str) (g : β → β) (l : List (Str × β)) :
    findKey q (l.map fun kv => (kv.1, g kv.2)) = (findKey q l).map g := by
  induction l with
  | nil => rfl
  | cons kv rest ih =>
    obtain ⟨k', v⟩ := kv
    simp only [List.map_cons, findKey]
    split
    · rfl
    · exact ih

/-- does an assignment at `w` concern the probe `(n, c)`? -/
def affects : Where → Option Str → Option Str → Bool
  | .base, _, _ => true
  | .net n, some n', _ => keyEq n n'
  | .net _, none, _ => false
  | .chan c, _, some c' => keyEq c c'
  | .chan _, _, none => false
  | .netChan n c, some n', some c' => keyEq n n' && keyEq c c'
  | .netChan _ _, _, _ => false



theorem resolve_assign_local {α : Type} (x : Var α) (w : Where) (v : α) (inh : Bool)
    (n c : Option Str) (h : affects w n c = false) :
    resolve (x.assign w v inh) n c = resolve x n c := by
  cases w with
  | base => simp [affects] at h
  | net n0 =>
    cases n with
    | none => cases c <;> simp [Var.assign, resolve]
    | some n' =>
      have hk : keyEq n0 n' = false := by simpa [affects] using h
      cases c <;> simp [Var.assign, resolve, findKey_updKey_ne _ _ _ _ hk]
  | chan c0 =>
    cases c with
    | none => cases n <;> simp [Var.assign, resolve]
    | some c' =>
      have hk : keyEq c0 c' = false := by simpa [affects] using h
      cases n <;> simp [Var.assign, resolve, findKey_updKey_ne _ _ _ _ hk]
  | netChan n0 c0 =>
    cases n with
    | none => cases c <;> simp [Var.assign, resolve]
    | some n' =>
      by_cases hn : keyEq n0 n' = true
      · cases c with
        | none =>
          simp only [Var.assign, resolve, findKey_updKey_eq _ _ _ _ hn, Option.map_map]
          rfl
        | some c' =>
          have hk : keyEq c0 c' = false := by
            cases hc : keyEq c0 c' with
            | false => rfl
            | true => simp [affects, hn, hc] at h
          simp only [Var.assign, resolve, findKey_updKey_eq _ _ _ _ hn]
          cases findKey n' x.nets with
          | none => rfl
          | some nv =>
            cases findKey c' x.chans with
            | none => rfl
            | some cv => simp only [Option.map_some, findKey_updKey_ne _ _ _ _ hk]
      · have hn' : keyEq n0 n' = false := by simpa using hn
        cases c <;> simp [Var.assign, resolve, findKey_updKey_ne _ _ _ _ hn']

/-- every node on the path of the probe exists and none of them was set explicitly -/
def UnsetPath {α : Type} (x : Var α) : Option Str → Option Str → Prop
  | some n, some c =>
    ∃ nv ncv cv, findKey n x.nets = some nv ∧ findKey c nv.chans = some ncv ∧ findKey c x.chans = some cv ∧
      nv.wasSet = false ∧ ncv.wasSet = false ∧ cv.wasSet = false
  | some n, none => ∃ nv, findKey n x.nets = some nv ∧ nv.wasSet = false
  | none, some c => ∃ cv, findKey c x.chans = some cv ∧ cv.wasSet = false
  | none, none => True

theorem findKey_inherit_chans {α : Type} (q : Str) (v : α) (l : List (Str × Leaf α)) :
    findKey q (l.map fun kl => (kl.1, kl.2.inherit v)) = (findKey q l).map (Leaf.inherit v) :=
  findKey_map q (Leaf.inherit v) l

theorem findKey_inherit_nets {α : Type} (q : Str) (v : α) (l : List (Str × Net α)) :
    findKey q (l.map fun kn => (kn.1, kn.2.inherit v)) = (findKey q l).map (Net.inherit v) :=
  findKey_map q (Net.inherit v) l

theorem resolve_setV_follow {α : Type} (x : Var α) (v : α) (inh : Bool) (n c : Option Str)
    (h : UnsetPath x n c) : resolve (x.setV v inh) n c = some v := by
  cases n with
  | none =>
    cases c with
    | none => rfl
    | some c' =>
      obtain ⟨cv, h1, h2⟩ := h
      simp only [resolve, Var.setV, findKey_inherit_chans, h1, Option.map_some]
      simp [Leaf.inherit, h2, Leaf.setV]
  | some n' =>
    cases c with
    | none =>
      obtain ⟨nv, h1, h2⟩ := h
      simp only [resolve, Var.setV, findKey_inherit_nets, h1, Option.map_some]
      simp [Net.inherit, h2, Net.setV]
    | some c' =>
      obtain ⟨nv, ncv, cv, h1, h2, h3, h4, h5, h6⟩ := h
      simp only [resolve, Var.setV, findKey_inherit_nets, findKey_inherit_chans, h1, h3, Option.map_some]
      simp only [Net.inherit, h4, Bool.false_eq_true, if_false, Net.setV, findKey_inherit_chans, h2, Option.map_some]
      simp [Leaf.inherit, h5, h6, Leaf.setV]




theorem keyEq_refl (a : Str) : keyEq a a = true := by simp [keyEq]

theorem findKey_append {β : Type} (q k : Str) (v : β) (l : List (Str × β)) :
    findKey q (l ++ [(k, v)]) =
      match findKey q l with
      | some r => some r
      | none => if keyEq k q then some v else none := by
  induction l with
  | nil => simp [findKey]
  | cons kv rest ih =>
    obtain ⟨k', v'⟩ := kv
    simp only [List.cons_append, findKey]
    split
    · rfl
    · exact ih

/-- `base.get(c)` returning a node: it is the node now stored under `c`; nothing else moved -/
theorem getChan_spec {α : Type} (C : Cls α) (B : Str) (cache : Cache) (x x' : Var α) (c : Str) (l : Leaf α)
    (h : x.getChan C B cache c = (x', some l)) :
    findKey c x'.chans = some l ∧ x'.nets = x.nets ∧ x'.value = x.value ∧ x'.wasSet = x.wasSet ∧
      (∀ q r, findKey q x.chans = some r → findKey q x'.chans = some r) := by
  unfold Var.getChan at h
  split at h
  · rename_i l0 h0
    simp only [Prod.mk.injEq, Option.some.injEq] at h
    obtain ⟨rfl, rfl⟩ := h
    exact ⟨h0, rfl, rfl, rfl, fun _ _ hq => hq⟩
  · rename_i h0
    split at h
    · simp at h
    · rename_i v w raised _
      simp only [Prod.mk.injEq] at h
      obtain ⟨rfl, h2⟩ := h
      split at h2
      · simp at h2
      · simp only [Option.some.injEq] at h2
        subst h2
        refine ⟨?_, rfl, rfl, rfl, ?_⟩
        · simp [findKey_append, h0, keyEq_refl]
        · intro q r hq
          simp [findKey_append, hq]

theorem getNet_spec {α : Type} (C : Cls α) (B : Str) (cache : Cache) (x x' : Var α) (n : Str) (nv : Net α)
    (h : x.getNet C B cache n = (x', some nv)) :
    findKey n x'.nets = some nv ∧ x'.chans = x.chans ∧ x'.value = x.value ∧ x'.wasSet = x.wasSet ∧
      (∀ q r, findKey q x.nets = some r → findKey q x'.nets = some r) := by
  unfold Var.getNet at h
  split at h
  · rename_i l0 h0
    simp only [Prod.mk.injEq, Option.some.injEq] at h
    obtain ⟨rfl, rfl⟩ := h
    exact ⟨h0, rfl, rfl, rfl, fun _ _ hq => hq⟩
  · rename_i h0
    split at h
    · simp at h
    · rename_i v w raised _
      simp only [Prod.mk.injEq] at h
      obtain ⟨rfl, h2⟩ := h
      split at h2
      · simp at h2
      · simp only [Option.some.injEq] at h2
        subst h2
        refine ⟨?_, rfl, rfl, rfl, ?_⟩
        · simp [findKey_append, h0, keyEq_refl]
        · intro q r hq
          simp [findKey_append, hq]

theorem netGetChan_spec {α : Type} (C : Cls α) (NB : Str) (cache : Cache) (nv nv' : Net α) (c : Str) (l : Leaf α)
    (h : nv.getChan C NB cache c = (nv', some l)) :
    findKey c nv'.chans = some l ∧ nv'.value = nv.value ∧ nv'.wasSet = nv.wasSet ∧
      (∀ q r, findKey q nv.chans = some r → findKey q nv'.chans = some r) := by
  unfold Net.getChan at h
  split at h
  · rename_i l0 h0
    simp only [Prod.mk.injEq, Option.some.injEq] at h
    obtain ⟨rfl, rfl⟩ := h
    exact ⟨h0, rfl, rfl, fun _ _ hq => hq⟩
  · rename_i h0
    split at h
    · simp at h
    · rename_i v w raised _
      simp only [Prod.mk.injEq] at h
      obtain ⟨rfl, h2⟩ := h
      split at h2
      · simp at h2
      · simp only [Option.some.injEq] at h2
        subst h2
        refine ⟨?_, rfl, rfl, ?_⟩
        · simp [findKey_append, h0, keyEq_refl]
        · intro q r hq
          simp [findKey_append, hq]



theorem getNetChan_spec {α : Type} (C : Cls α) (B : Str) (cache : Cache) (x x' : Var α) (n c : Str)
    (nv : Net α) (l : Leaf α) (h : x.getNetChan C B cache n c = (x', some (nv, l))) :
    findKey n x'.nets = some nv ∧ findKey c nv.chans = some l ∧ x'.chans = x.chans ∧
      x'.value = x.value ∧ x'.wasSet = x.wasSet := by
  unfold Var.getNetChan at h
  split at h
  · simp at h
  · rename_i x1 nv0 h1
    have s1 := getNet_spec C B cache x x1 n nv0 h1
    split at h
    rename_i nv1 r h2
    simp only [Prod.mk.injEq] at h
    obtain ⟨rfl, h3⟩ := h
    cases r with
    | none => simp at h3
    | some l0 =>
      simp only [Option.map_some, Option.some.injEq, Prod.mk.injEq] at h3
      obtain ⟨rfl, rfl⟩ := h3
      have s2 := netGetChan_spec C _ cache nv0 nv1 c l0 h2
      refine ⟨?_, s2.1, s1.2.1, s1.2.2.1, s1.2.2.2.1⟩
      simp only
      rw [findKey_updKey_eq n n _ _ (keyEq_refl n), s1.1]; rfl

/-- `getSpecific(network, channel)()` returning a value: that value is what the pure lookup reads
off the resulting tree (in which the nodes on the path now exist). -/
theorem getSpecific_resolve {α : Type} (C : Cls α) (K : Kind) (B : Str) (s s' : St α)
    (network channel : Option Str) (netOk chanOk : Bool) (v : α)
    (h : getSpecific C K B s network channel netOk chanOk = (s', .val v)) :
    resolve s'.var (if netOk then network else none) (if chanOk then channel else none) = some v ∧
      s'.cache = s.cache := by
  unfold getSpecific at h
  split at h
  · simp at h
  · split at h
    · simp at h
    · simp only at h
      generalize (if chanOk = true then channel else none) = ch at h ⊢
      generalize (if netOk = true then network else none) = nw at h ⊢
      cases nw with
      | none =>
        cases ch with
        | none =>
          simp only [Prod.mk.injEq, Out.val.injEq] at h
          obtain ⟨rfl, rfl⟩ := h
          exact ⟨rfl, rfl⟩
        | some c =>
          simp only at h
          split at h
          · simp at h
          · rename_i x1 l h1
            simp only [Prod.mk.injEq, Out.val.injEq] at h
            obtain ⟨rfl, rfl⟩ := h
            have sp := getChan_spec C B s.cache s.var x1 c l h1
            exact ⟨by simp [resolve, sp.1], rfl⟩
      | some n =>
        cases ch with
        | none =>
          simp only at h
          split at h
          · simp at h
          · rename_i x1 nv h1
            simp only [Prod.mk.injEq, Out.val.injEq] at h
            obtain ⟨rfl, rfl⟩ := h
            have sp := getNet_spec C B s.cache s.var x1 n nv h1
            exact ⟨by simp [resolve, sp.1], rfl⟩
        | some c =>
          simp only at h
          split at h
          · simp at h
          · rename_i x1 nv ncv h1
            split at h
            · simp at h
            · rename_i x2 cv h2
              simp only [Prod.mk.injEq, Out.val.injEq] at h
              obtain ⟨rfl, rfl⟩ := h
              have sp1 := getNetChan_spec C B s.cache s.var x1 n c nv ncv h1
              have sp2 := getChan_spec C B s.cache x1 x2 c cv h2
              refine ⟨?_, rfl⟩
              simp only [resolve, sp2.2.1, sp1.1, sp2.1, sp1.2.1]



/-! ### reaching a node only adds children -/

def ExtL {β : Type} (l l' : List (Str × β)) : Prop := ∀ q r, findKey q l = some r → findKey q l' = some r

/-- `x'` has every node of `x`, with the same value and `_wasSet` -/
def Extends {α : Type} (x x' : Var α) : Prop :=
  x'.value = x.value ∧ x'.wasSet = x.wasSet ∧ ExtL x.chans x'.chans ∧
  (∀ q nv, findKey q x.nets = some nv → ∃ nv', findKey q x'.nets = some nv' ∧
      nv'.value = nv.value ∧ nv'.wasSet = nv.wasSet ∧ ExtL nv.chans nv'.chans)

theorem findKey_congr {β : Type} (n q : Str) (l : List (Str × β)) (h : keyEq n q = true) :
    findKey n l = findKey q l := by
  induction l with
  | nil => rfl
  | cons kv rest ih =>
    obtain ⟨k', v'⟩ := kv
    have : keyEq k' n = keyEq k' q := by
      unfold keyEq at h ⊢; simp at h ⊢; rw [h]
    simp only [findKey, this, ih]

theorem ExtL.refl {β : Type} (l : List (Str × β)) : ExtL l l := fun _ _ h => h

theorem ExtL.append {β : Type} (l : List (Str × β)) (k : Str) (v : β) : ExtL l (l ++ [(k, v)]) := by
  intro q r h; simp [findKey_append, h]

theorem Extends.refl {α : Type} (x : Var α) : Extends x x :=
  ⟨rfl, rfl, ExtL.refl _, fun _ nv h => ⟨nv, h, rfl, rfl, ExtL.refl _⟩⟩

theorem Extends.trans {α : Type} {x y z : Var α} (h1 : Extends x y) (h2 : Extends y z) : Extends x z := by
  refine ⟨h2.1.trans h1.1, h2.2.1.trans h1.2.1, fun q r h => h2.2.2.1 q r (h1.2.2.1 q r h), ?_⟩
  intro q nv h
  obtain ⟨nv', a1, a2, a3, a4⟩ := h1.2.2.2 q nv h
  obtain ⟨nv'', b1, b2, b3, b4⟩ := h2.2.2.2 q nv' a1
  exact ⟨nv'', b1, b2.trans a2, b3.trans a3, fun q' r hr => b4 q' r (a4 q' r hr)⟩

theorem getChan_extends {α : Type} (C : Cls α) (B : Str) (cache : Cache) (x : Var α) (c : Str) :
    Extends x (x.getChan C B cache c).1 := by
  unfold Var.getChan
  split
  · exact Extends.refl x
  · split
    · exact Extends.refl x
    · exact ⟨rfl, rfl, ExtL.append _ _ _, fun _ nv h => ⟨nv, h, rfl, rfl, ExtL.refl _⟩⟩

theorem getNet_extends {α : Type} (C : Cls α) (B : Str) (cache : Cache) (x : Var α) (n : Str) :
    Extends x (x.getNet C B cache n).1 := by
  unfold Var.getNet
  split
  · exact Extends.refl x
  · split
    · exact Extends.refl x
    · refine ⟨rfl, rfl, ExtL.refl _, fun q nv h => ⟨nv, ?_, rfl, rfl, ExtL.refl _⟩⟩
      simp [findKey_append, h]

theorem netGetChan_ext {α : Type} (C : Cls α) (NB : Str) (cache : Cache) (nv : Net α) (c : Str) :
    (nv.getChan C NB cache c).1.value = nv.value ∧ (nv.getChan C NB cache c).1.wasSet = nv.wasSet ∧
      ExtL nv.chans (nv.getChan C NB cache c).1.chans := by
  unfold Net.getChan
  split
  · exact ⟨rfl, rfl, ExtL.refl _⟩
  · split
    · exact ⟨rfl, rfl, ExtL.refl _⟩
    · exact ⟨rfl, rfl, ExtL.append _ _ _⟩

theorem getNetChan_extends {α : Type} (C : Cls α) (B : Str) (cache : Cache) (x : Var α) (n c : Str) :
    Extends x (x.getNetChan C B cache n c).1 := by
  unfold Var.getNetChan
  have e1 := getNet_extends C B cache x n
  split
  · rename_i x1 h1
    rw [h1] at e1; exact e1
  · rename_i x1 nv0 h1
    rw [h1] at e1
    have s1 := getNet_spec C B cache x x1 n nv0 h1
    split
    rename_i nv1 r h2
    have e2 := netGetChan_ext C (childName B (':' :: n)) cache nv0 c
    rw [h2] at e2
    simp only at e2 ⊢
    refine Extends.trans e1 ⟨rfl, rfl, ExtL.refl _, ?_⟩
    intro q nvq hq
    by_cases hk : keyEq n q = true
    · have hq0 : findKey q x1.nets = some nv0 := by rw [← findKey_congr n q _ hk]; exact s1.1
      rw [hq] at hq0; cases hq0
      refine ⟨nv1, ?_, e2.1, e2.2.1, e2.2.2⟩
      simp only; rw [findKey_updKey_eq n q _ _ hk, hq]; rfl
    · have hk' : keyEq n q = false := by simpa using hk
      exact ⟨nvq, by simp only; rw [findKey_updKey_ne n q _ _ hk']; exact hq, rfl, rfl, ExtL.refl _⟩



theorem reach_extends {α : Type} (C : Cls α) (B : Str) (cache : Cache) (x : Var α) (w : Where) :
    Extends x (x.reach C B cache w).1 := by
  cases w with
  | base => exact Extends.refl x
  | net n =>
    have := getNet_extends C B cache x n
    simp only [Var.reach]; exact this
  | chan c =>
    have := getChan_extends C B cache x c
    simp only [Var.reach]; exact this
  | netChan n c =>
    have := getNetChan_extends C B cache x n c
    simp only [Var.reach]; exact this

theorem resolve_of_extends {α : Type} {x x' : Var α} (h : Extends x x') (n c : Option Str) (a : α)
    (hr : resolve x n c = some a) : resolve x' n c = some a := by
  obtain ⟨hv, _, hc, hn⟩ := h
  cases n with
  | none =>
    cases c with
    | none => simp only [resolve] at hr ⊢; rw [hv]; exact hr
    | some c' =>
      simp only [resolve] at hr ⊢
      cases hf : findKey c' x.chans with
      | none => rw [hf] at hr; simp at hr
      | some l => rw [hf] at hr; rw [hc c' l hf]; exact hr
  | some n' =>
    cases c with
    | none =>
      simp only [resolve] at hr ⊢
      cases hf : findKey n' x.nets with
      | none => rw [hf] at hr; simp at hr
      | some nv =>
        rw [hf] at hr
        obtain ⟨nv', h1, h2, _, _⟩ := hn n' nv hf
        rw [h1]; simp only [Option.map_some] at hr ⊢; rw [h2]; exact hr
    | some c' =>
      simp only [resolve] at hr ⊢
      cases hf : findKey n' x.nets with
      | none => rw [hf] at hr; simp at hr
      | some nv =>
        cases hg : findKey c' x.chans with
        | none => rw [hf, hg] at hr; simp at hr
        | some cv =>
          cases hh : findKey c' nv.chans with
          | none => rw [hf, hg] at hr; simp only [hh] at hr; simp at hr
          | some ncv =>
            rw [hf, hg] at hr; simp only [hh] at hr
            obtain ⟨nv', h1, _, h3, h4⟩ := hn n' nv hf
            rw [h1, hc c' cv hg]; simp only [h4 c' ncv hh, h3]; exact hr

/-- shape of an accepted `set` -/
theorem setText_done {α : Type} (C : Cls α) (B : Str) (s s' : St α) (w : Where) (text : Str)
    (h : setText C B s w text = (s', .done)) :
    ∃ cur v, (s.var.reach C B s.cache w).2 = some cur ∧ C.set cur text = .ok v ∧
      s' = ⟨(s.var.reach C B s.cache w).1.assign w v false, s.cache⟩ := by
  unfold setText at h
  split at h
  · simp at h
  · rename_i x1 cur hr
    split at h
    · rename_i v hv
      simp only [Prod.mk.injEq, and_true] at h
      exact ⟨cur, v, by rw [hr], hv, by rw [hr]; exact h.symm⟩
    · simp at h
    · simp at h

/-- a `set` that does not succeed leaves exactly the tree that reaching the node leaves -/
theorem setText_not_done {α : Type} (C : Cls α) (B : Str) (s : St α) (w : Where) (text : Str)
    (h : (setText C B s w text).2 ≠ .done) :
    (setText C B s w text).1 = ⟨(s.var.reach C B s.cache w).1, s.cache⟩ := by
  unfold setText at h ⊢
  split
  · rename_i x1 hr; rw [hr]
  · rename_i x1 cur hr
    rw [hr] at h ⊢
    simp only at h ⊢
    split
    · rename_i v hv; rw [hv] at h; simp at h
    · rfl
    · rfl



/-- a class whose `set` undoes its `__str__` on the value `v` -/
def Reparses {α : Type} (C : Cls α) (v : α) : Prop := C.set C.dflt (C.str v) = .ok v

theorem mkValue_inherits {α : Type} (C : Cls α) (cache : Cache) (full : Str) (v : α)
    (hr : Reparses C v) (hc : cacheGet cache full = none) :
    mkValue C cache full v = .made (v, false) false := by
  unfold mkValue
  unfold Reparses at hr
  rw [hr]
  simp only [hc]

theorem resetNetwork_follows {α : Type} (C : Cls α) (B : Str) (s s' : St α) (n : Str)
    (h : resetNetwork C B s n = (s', .done)) :
    s'.var.value = s.var.value ∧ resolve s'.var (some n) none = some s.var.value := by
  unfold resetNetwork at h
  split at h
  · simp at h
  · rename_i x1 nv hg
    simp only [Prod.mk.injEq, and_true] at h
    subst h
    have sp := getNet_spec C B s.cache s.var x1 n nv hg
    refine ⟨by simp [Var.assign, sp.2.2.1], ?_⟩
    simp only [resolve, Var.assign]
    rw [findKey_updKey_eq n n _ _ (keyEq_refl n), sp.1]
    simp [Net.setV, sp.2.2.1]



/-! ### the file: lines -/

def NoNL (l : Str) : Prop := ∀ x ∈ l, x ≠ '\n' ∧ x ≠ '\r'

/-- text of a list of lines, each terminated by LF -/
def linesText (ls : List Str) : Str := (ls.map (· ++ ['\n'])).flatten

theorem splitChar_lines (ls : List Str) (h : ∀ l ∈ ls, NoNL l) :
    splitChar '\n' (linesText ls) = ls ++ [[]] := by
  induction ls with
  | nil => rfl
  | cons l rest ih =>
    have hl := h l (by simp)
    simp only [linesText, List.map_cons, List.flatten_cons] at ih ⊢
    rw [List.append_assoc]
    simp only [List.cons_append, List.nil_append]
    rw [splitChar_append '\n' l _ (fun x hx => (hl x hx).1)]
    rw [ih (fun l' hl' => h l' (by simp [hl']))]

theorem normNLAux_noCR (s : Str) (h : ∀ x ∈ s, x ≠ '\r') : normNLAux false s = s := by
  induction s with
  | nil => rfl
  | cons c cs ih =>
    have hc := h c (by simp)
    simp only [normNLAux, if_neg hc]
    rw [if_neg (by simp), ih (fun x hx => h x (by simp [hx]))]

theorem linesText_noCR (ls : List Str) (h : ∀ l ∈ ls, NoNL l) : ∀ x ∈ linesText ls, x ≠ '\r' := by
  intro x hx
  simp only [linesText, List.mem_flatten, List.mem_map] at hx
  obtain ⟨_, ⟨l, hl, rfl⟩, hx⟩ := hx
  rw [List.mem_append] at hx
  rcases hx with hx | hx
  · exact (h l hl x hx).2
  · simp at hx; subst hx; decide

theorem fileLines_lines (ls : List Str) (h : ∀ l ∈ ls, NoNL l) : fileLines (linesText ls) = ls ++ [[]] := by
  unfold fileLines normNL
  rw [normNLAux_noCR _ (linesText_noCR ls h), splitChar_lines ls h]

theorem linesText_append (a b : List Str) : linesText (a ++ b) = linesText a ++ linesText b := by
  simp [linesText]

/-! ### trailing backslashes of the encoder's output -/

theorem takeWhile_append_stop {α : Type} (p : α → Bool) (a b : List α)
    (hb : ∀ x, b.head? = some x → p x = false) :
    ((a ++ b).takeWhile p).length = (a.takeWhile p).length := by
  induction a with
  | nil =>
    cases b with
    | nil => rfl
    | cons x xs => simp [List.takeWhile, hb x rfl]
  | cons x xs ih =>
    simp only [List.cons_append, List.takeWhile]
    split
    · simp [ih]
    · rfl

/-- the last character of the encoding of a non-backslash character is not a backslash -/
theorem encChar_last (c : Char) (h : c ≠ '\\') : ∃ init z, encChar c = init ++ [z] ∧ z ≠ '\\' := by
  unfold encChar
  simp only [if_neg h]
  split
  · exact ⟨['\\'], 't', rfl, by decide⟩
  · split
    · exact ⟨['\\'], 'n', rfl, by decide⟩
    · split
      · exact ⟨['\\'], 'r', rfl, by decide⟩
      · split
        · unfold hexEscape
          have hd : ∀ k, k < 16 → hexDigit k ≠ '\\' := by decide
          split
          · exact ⟨['\\', 'x', hexDigit (c.toNat / 16 % 16)], hexDigit (c.toNat % 16), rfl, hd _ (by omega)⟩
          · split
            · exact ⟨['\\', 'u', hexDigit (c.toNat / 4096 % 16), hexDigit (c.toNat / 256 % 16), hexDigit (c.toNat / 16 % 16)],
                hexDigit (c.toNat % 16), rfl, hd _ (by omega)⟩
            · exact ⟨['\\', 'U', hexDigit (c.toNat / 268435456 % 16), hexDigit (c.toNat / 16777216 % 16),
                hexDigit (c.toNat / 1048576 % 16), hexDigit (c.toNat / 65536 % 16), hexDigit (c.toNat / 4096 % 16),
                hexDigit (c.toNat / 256 % 16), hexDigit (c.toNat / 16 % 16)], hexDigit (c.toNat % 16), rfl, hd _ (by omega)⟩
        · exact ⟨[], c, rfl, h⟩

/-- the number of trailing backslashes of `encodeUE t` is even: a saved value never ends in a
line continuation -/
theorem encodeUE_evenTail (t : Str) :
    ((encodeUE t).reverse.takeWhile (· = '\\')).length % 2 = 0 := by
  -- induction on the reversed input
  have key : ∀ r : Str, ((encodeUE r.reverse).reverse.takeWhile (· = '\\')).length % 2 = 0 := by
    intro r
    induction r with
    | nil => rfl
    | cons c cs ih =>
      have : encodeUE (c :: cs).reverse = encodeUE cs.reverse ++ encChar c := by
        simp [encodeUE]
      rw [this, List.reverse_append]
      by_cases hc : c = '\\'
      · subst hc
        have : (encChar '\\').reverse = ['\\', '\\'] := by decide
        rw [this]
        simp only [List.cons_append, List.nil_append, List.takeWhile, decide_true, List.length_cons]
        omega
      · obtain ⟨init, z, he, hz⟩ := encChar_last c hc
        rw [he, List.reverse_append]
        simp [hz]
  have := key t.reverse
  simpa using this





/-- is the position after the text escaped?  (a backslash escapes exactly the next character) -/
def escEnd : Bool → Str → Bool
  | esc, [] => esc
  | esc, c :: cs => escEnd (!esc && c = '\\') cs

/-- names `registry.close` can write without confusing the reader: printable ASCII without blank,
not starting with `#`, every backslash escaping a character of the name (what `escape` produces) -/
def GoodName (n : Str) : Prop :=
  n ≠ [] ∧ (∀ x ∈ n, Plain x ∧ x ≠ ' ') ∧ n.head? ≠ some '#' ∧ escEnd false n = false

theorem plain_not_crlf {x : Char} (h : Plain x) : isCRLF x = false := by
  unfold Plain at h; unfold isCRLF
  have h1 : x ≠ '\r' := by intro e; subst e; revert h; decide
  have h2 : x ≠ '\n' := by intro e; subst e; revert h; decide
  simp [h1, h2]

theorem plain_nospace {x : Char} (h : Plain x) (h2 : x ≠ ' ') : isSpace x = false := by
  unfold Plain at h
  have hn : x.toNat ≠ 32 := fun e => h2 (char_eq_of_toNat (by rw [e]; decide))
  unfold isSpace
  simp
  omega

theorem splitKV_name (nm ser : Str) (pb : Bool) (h1 : ∀ x ∈ nm, x ≠ ' ') (h2 : escEnd pb nm = false) :
    splitKV pb (nm ++ ':' :: ' ' :: ser) = some (nm, ser) := by
  induction nm generalizing pb with
  | nil =>
    simp only [escEnd] at h2
    subst h2
    simp [splitKV]
  | cons c cs ih =>
    simp only [List.cons_append, splitKV]
    have hnext : (cs ++ ':' :: ' ' :: ser).head? ≠ some ' ' := by
      cases cs with
      | nil => simp
      | cons d ds => simp; exact h1 d (by simp)
    rw [if_neg (by intro hh; exact hnext hh.2.2)]
    simp only [escEnd] at h2
    rw [ih _ (fun x hx => h1 x (by simp [hx])) h2]

/-- a value line without its LF -/
def valueContent (name ser : Str) : Str := name ++ ':' :: ' ' :: ser

theorem valueLine_eq (name ser : Str) : valueLine name ser = valueContent name ser ++ ['\n'] := by
  simp [valueLine, valueContent]

theorem dropWhile_ne_nil {α : Type} (p : α → Bool) (l : List α) (x : α) (hx : x ∈ l) (hp : p x = false) :
    l.dropWhile p ≠ [] := by
  induction l with
  | nil => simp at hx
  | cons a as ih =>
    simp only [List.dropWhile]
    split
    · rename_i ha
      rcases List.mem_cons.mp hx with h | h
      · subst h; rw [hp] at ha; simp at ha
      · exact ih h
    · simp

theorem content_plain (name ser : Str) (hn : GoodName name) (hp : ∀ x ∈ ser, Plain x) :
    ∀ x ∈ valueContent name ser, Plain x := by
  intro x hx
  simp only [valueContent, List.mem_append, List.mem_cons] at hx
  rcases hx with hx | rfl | rfl | hx
  · exact (hn.2.1 x hx).1
  · decide
  · decide
  · exact hp x hx

theorem keepLine_content (name ser : Str) (hn : GoodName name) :
    keepLine (valueContent name ser) = true := by
  obtain ⟨hne, hall, hh, _⟩ := hn
  cases name with
  | nil => exact absurd rfl hne
  | cons c cs =>
    have hc := hall c (by simp)
    have hsp : isSpace c = false := plain_nospace hc.1 hc.2
    unfold keepLine
    have h1 : (valueContent (c :: cs) ser).head? ≠ some '#' := by simpa [valueContent] using hh
    have h2 : strip (valueContent (c :: cs) ser) ≠ [] := by
      unfold strip
      rw [lstripP_id _ _ (by intro d hd; simp [valueContent] at hd; subst hd; exact hsp)]
      unfold rstripP
      intro e
      have := dropWhile_ne_nil isSpace (valueContent (c :: cs) ser).reverse c (by simp [valueContent]) hsp
      apply this
      simpa using e
    simp [h1, h2]

theorem readLoop_value (name ser t : Str) (rest : List Str) (hn : GoodName name)
    (hp : ∀ x ∈ ser, Plain x) (he : (ser.reverse.takeWhile (· = '\\')).length % 2 = 0)
    (hd : decodeUE ser = .ok t) :
    readLoop [] (valueContent name ser :: rest) = (readLoop [] rest).cons (name, t) := by
  have hpl := content_plain name ser hn hp
  have h1 : rstripCRLF (valueContent name ser) = valueContent name ser :=
    rstripP_id _ _ (fun c hc => plain_not_crlf (all_last hpl hc))
  have h2 : oddTrailingBackslashes (valueContent name ser) = false := by
    unfold oddTrailingBackslashes
    have : (valueContent name ser).reverse = ser.reverse ++ (' ' :: ':' :: name.reverse) := by
      simp [valueContent]
    rw [this, takeWhile_append_stop _ _ _ (by intro x hx; simp at hx; subst hx; decide)]
    simp; omega
  have h3 : splitKV false (valueContent name ser) = some (name, ser) :=
    splitKV_name name ser false (fun x hx => (hn.2.1 x hx).2) hn.2.2.2
  have h4 : stripCRLF ser = ser := by
    unfold stripCRLF
    rw [lstripP_id _ _ (fun c hc => plain_not_crlf (all_head hp hc)),
        rstripP_id _ _ (fun c hc => plain_not_crlf (all_last hp hc))]
  have h5 : strip name = name := by
    unfold strip
    rw [lstripP_id _ _ (fun c hc => by have := all_head hn.2.1 hc; exact plain_nospace this.1 this.2),
        rstripP_id _ _ (fun c hc => by have := all_last hn.2.1 hc; exact plain_nospace this.1 this.2)]
  simp only [readLoop, h1, h2, List.nil_append, h3, h4, hd, h5]
  simp



/-- a line of the file the reader skips (a `#` comment or a blank line), without its LF -/
def SkipLine (l : Str) : Prop := NoNL l ∧ keepLine l = false

def headerLines (h : Str) : List Str := (splitChar '\n' h).dropLast

/-- the extracted `CONF_FILE_HEADER` consists of complete comment / blank lines -/
def HeaderOk (h : Str) : Prop := linesText (headerLines h) = h ∧ ∀ l ∈ headerLines h, SkipLine l

/-- one variable as `registry.close` writes it: help block lines (without LF), name, the text the
value serialises (`str(value)`) -/
structure Saved where
  help : List Str
  name : Str
  text : Str

def Saved.entry (e : Saved) : Entry := ⟨e.help.map (· ++ ['\n']), e.name, encodeUE e.text⟩
def Saved.lines (e : Saved) : List Str := e.help ++ [valueContent e.name (encodeUE e.text)]

def SavedOk (e : Saved) : Prop := GoodName e.name ∧ ∀ l ∈ e.help, SkipLine l

theorem Saved.text_eq (e : Saved) : e.entry.text = linesText e.lines := by
  simp [Saved.entry, Entry.text, Saved.lines, linesText, valueLine_eq]

theorem fileText_eq (hdr : Str) (hh : HeaderOk hdr) (es : List Saved) :
    hdr ++ ((es.map Saved.entry).map Entry.text).flatten = linesText (headerLines hdr ++ es.flatMap Saved.lines) := by
  rw [linesText_append, hh.1]
  congr 1
  induction es with
  | nil => rfl
  | cons e rest ih =>
    simp only [List.map_cons, List.flatten_cons, List.flatMap_cons, linesText_append, Saved.text_eq]
    rw [ih]

theorem content_noNL (e : Saved) (h : SavedOk e) : NoNL (valueContent e.name (encodeUE e.text)) := by
  intro x hx
  have := content_plain e.name (encodeUE e.text) h.1 (encodeUE_plain e.text) x hx
  unfold Plain at this
  constructor
  · intro e; subst e; revert this; decide
  · intro e; subst e; revert this; decide

theorem filter_lines (es : List Saved) (h : ∀ e ∈ es, SavedOk e) :
    (es.flatMap Saved.lines).filter keepLine = es.map fun e => valueContent e.name (encodeUE e.text) := by
  induction es with
  | nil => rfl
  | cons e rest ih =>
    have he := h e (by simp)
    simp only [List.flatMap_cons, List.filter_append, List.map_cons, Saved.lines]
    have h1 : e.help.filter keepLine = [] := by
      rw [List.filter_eq_nil_iff]
      intro l hl
      simp [(he.2 l hl).2]
    rw [h1, ih (fun e' he' => h e' (by simp [he']))]
    simp [List.filter, keepLine_content _ _ he.1]

theorem readLoop_all (es : List Saved) (h : ∀ e ∈ es, SavedOk e) :
    readLoop [] (es.map fun e => valueContent e.name (encodeUE e.text)) = .ok (es.map fun e => (e.name, e.text)) := by
  induction es with
  | nil => rfl
  | cons e rest ih =>
    simp only [List.map_cons]
    rw [readLoop_value e.name (encodeUE e.text) e.text _ (h e (by simp)).1 (encodeUE_plain e.text)
      (encodeUE_evenTail e.text) (decodeUE_encodeUE e.text)]
    rw [ih (fun e' he' => h e' (by simp [he']))]
    rfl

theorem readRegistry_saved (hdr : Str) (hh : HeaderOk hdr) (es : List Saved) (h : ∀ e ∈ es, SavedOk e) :
    readRegistry (hdr ++ ((es.map Saved.entry).map Entry.text).flatten) = .ok (es.map fun e => (e.name, e.text)) := by
  rw [fileText_eq hdr hh es]
  unfold readRegistry
  have hall : ∀ l ∈ headerLines hdr ++ es.flatMap Saved.lines, NoNL l := by
    intro l hl
    rw [List.mem_append] at hl
    rcases hl with hl | hl
    · exact (hh.2 l hl).1
    · rw [List.mem_flatMap] at hl
      obtain ⟨e, he, hl⟩ := hl
      simp only [Saved.lines, List.mem_append, List.mem_singleton] at hl
      rcases hl with hl | rfl
      · exact ((h e he).2 l hl).1
      · exact content_noNL e (h e he)
  rw [fileLines_lines _ hall]
  simp only [List.filter_append]
  have h1 : (headerLines hdr).filter keepLine = [] := by
    rw [List.filter_eq_nil_iff]
    intro l hl
    simp [(hh.2 l hl).2]
  have h2 : [([] : Str)].filter keepLine = [] := by decide
  rw [h1, h2, filter_lines es h]
  simp only [List.nil_append, List.append_nil]
  exact readLoop_all es h



theorem skip_of_hash (l : Str) (h : NoNL l) (hh : l.head? = some '#') : SkipLine l := by
  refine ⟨h, ?_⟩
  unfold keepLine; simp [hh]

theorem noNL_of_plain (l : Str) (h : ∀ x ∈ l, Plain x) : NoNL l := by
  intro x hx
  have := h x hx
  unfold Plain at this
  constructor
  · intro e; subst e; revert this; decide
  · intro e; subst e; revert this; decide

theorem helpBlock_skip (first : Bool) (wrapped : List Str) (d : Option Str)
    (hw : ∀ l ∈ wrapped, NoNL l) (hd : ∀ s, d = some s → ∀ x ∈ s, Plain x) :
    ∀ l ∈ helpBlock first wrapped d, SkipLine l := by
  intro l hl
  simp only [helpBlock, List.mem_append, List.mem_cons, List.mem_map] at hl
  rcases hl with ((hl | hl | hl) | hl) | hl
  · split at hl
    · simp at hl
    · simp at hl; subst hl; exact ⟨by intro x hx; simp at hx, by decide⟩
  · subst hl; exact skip_of_hash _ (noNL_of_plain _ (by decide)) rfl
  · obtain ⟨w, hw', rfl⟩ := hl
    refine skip_of_hash _ ?_ rfl
    intro x hx
    simp only [List.mem_cons] at hx
    rcases hx with rfl | rfl | hx
    · decide
    · decide
    · exact hw w hw' x hx
  · cases d with
    | none => simp at hl
    | some s =>
      simp only [List.mem_cons, List.not_mem_nil, or_false] at hl
      rcases hl with rfl | rfl
      · exact skip_of_hash _ (noNL_of_plain _ (by decide)) rfl
      · refine skip_of_hash _ (noNL_of_plain _ ?_) rfl
        intro x hx
        rw [List.mem_append] at hx
        rcases hx with hx | hx
        · revert x; decide
        · exact hd s rfl x hx
  · simp at hl; subst hl; exact skip_of_hash _ (noNL_of_plain _ (by decide)) rfl

/-- a listed value: wrapped help (if any), the `str()` text of its default (if shown), its name and
the `str()` text of its value -/
structure VSpec where
  wrapped : Option (List Str)
  dflt : Option Str
  name : Str
  text : Str

def VSpec.spec (v : VSpec) : Spec := ⟨v.wrapped, v.dflt.map encodeUE, v.name, encodeUE v.text⟩

def VSpecOk (v : VSpec) : Prop := GoodName v.name ∧ ∀ w, v.wrapped = some w → ∀ l ∈ w, NoNL l

def savedOf : Bool → List VSpec → List Saved
  | _, [] => []
  | first, v :: rest =>
    match v.wrapped with
    | some w => ⟨helpBlock first w (v.dflt.map encodeUE), v.name, v.text⟩ :: savedOf false rest
    | none => ⟨[], v.name, v.text⟩ :: savedOf first rest

theorem renderSpecs_saved (first : Bool) (vs : List VSpec) :
    renderSpecs first (vs.map VSpec.spec) = (savedOf first vs).map Saved.entry := by
  induction vs generalizing first with
  | nil => rfl
  | cons v rest ih =>
    simp only [List.map_cons, renderSpecs, savedOf, VSpec.spec]
    cases hw : v.wrapped with
    | none => simp only [List.map_cons, ih first, Saved.entry, List.map_nil]
    | some w => simp only [List.map_cons, ih false, Saved.entry]

theorem savedOf_ok (first : Bool) (vs : List VSpec) (h : ∀ v ∈ vs, VSpecOk v) :
    ∀ e ∈ savedOf first vs, SavedOk e := by
  induction vs generalizing first with
  | nil => intro e he; simp [savedOf] at he
  | cons v rest ih =>
    intro e he
    have hv := h v (by simp)
    simp only [savedOf] at he
    cases hw : v.wrapped with
    | none =>
      rw [hw] at he
      simp only [List.mem_cons] at he
      rcases he with rfl | he
      · exact ⟨hv.1, by intro l hl; simp at hl⟩
      · exact ih first (fun v' hv' => h v' (by simp [hv'])) e he
    | some w =>
      rw [hw] at he
      simp only [List.mem_cons] at he
      rcases he with rfl | he
      · refine ⟨hv.1, helpBlock_skip first w _ (hv.2 w hw) ?_⟩
        intro s hs x hx
        cases hd : v.dflt with
        | none => rw [hd] at hs; simp at hs
        | some d => rw [hd] at hs; simp at hs; subst hs; exact encodeUE_plain d x hx
      · exact ih false (fun v' hv' => h v' (by simp [hv'])) e he

theorem savedOf_names (first : Bool) (vs : List VSpec) :
    (savedOf first vs).map (fun e => (e.name, e.text)) = vs.map fun v => (v.name, v.text) := by
  induction vs generalizing first with
  | nil => rfl
  | cons v rest ih =>
    simp only [savedOf]
    cases v.wrapped <;> simp [ih]

theorem close_loads_aux (hh : HeaderOk Gen.Registry.confFileHeader) (vs : List VSpec) (h : ∀ v ∈ vs, VSpecOk v) :
    readRegistry (closeText (vs.map VSpec.spec)) = .ok (vs.map fun v => (v.name, v.text)) := by
  unfold closeText fileText
  rw [renderSpecs_saved]
  rw [readRegistry_saved _ hh _ (savedOf_ok true vs h), savedOf_names]



/-! ### the space-padding String variants -/

theorem dropWhile_length_le {α : Type} (p : α → Bool) (l : List α) : (l.dropWhile p).length ≤ l.length := by
  induction l with
  | nil => simp
  | cons a as ih => simp only [List.dropWhile]; split <;> simp <;> omega

theorem lstrip_eq_iff (c : Char) (cs : Str) : lstrip (c :: cs) = c :: cs ↔ isSpace c = false := by
  unfold lstrip lstripP
  simp only [List.dropWhile]
  constructor
  · intro h
    cases hc : isSpace c with
    | false => rfl
    | true =>
      rw [hc] at h
      have := dropWhile_length_le isSpace cs
      have h2 := congrArg List.length h
      simp at h2; omega
  · intro h; simp [h]

theorem rstrip_eq_iff (s : Str) (c : Char) (hl : s.getLast? = some c) : rstrip s = s ↔ isSpace c = false := by
  constructor
  · intro h
    cases hc : isSpace c with
    | false => rfl
    | true =>
      unfold rstrip rstripP at h
      have hr : s.reverse.head? = some c := by rw [List.head?_reverse]; exact hl
      cases hs : s.reverse with
      | nil => rw [hs] at hr; simp at hr
      | cons d ds =>
        rw [hs] at hr h; simp at hr; subst hr
        simp only [List.dropWhile, hc] at h
        have h2 := congrArg List.length h
        have := dropWhile_length_le isSpace ds
        have h3 : s.length = (d :: ds).length := by rw [← hs]; simp
        simp at h2 h3; omega
  · intro h
    exact rstripP_id _ _ (fun d hd => by rw [hl] at hd; cases hd; exact h)

/-- non-empty, blank at both ends -/
def Padded (w : Str) : Prop :=
  (∃ c, w.head? = some c ∧ isSpace c = true) ∧ (∃ c, w.getLast? = some c ∧ isSpace c = true)

theorem surroundSV_of_padded (w : Str) (h : Padded w) : surroundSV w = w := by
  obtain ⟨⟨c, hc, hsc⟩, ⟨d, hd, hsd⟩⟩ := h
  cases w with
  | nil => simp at hc
  | cons a as =>
    simp at hc; subst hc
    unfold surroundSV
    have h1 : ¬ (lstrip (a :: as) = a :: as) := by rw [lstrip_eq_iff]; simp [hsc]
    simp only [h1, and_false, if_false]
    have h2 : ¬ (rstrip (a :: as) = a :: as) := by rw [rstrip_eq_iff _ d hd]; simp [hsd]
    simp [h2]

theorem isSpace_space : isSpace ' ' = true := by decide

theorem surroundSV_padded (v : Str) : Padded (surroundSV v) := by
  unfold surroundSV
  cases v with
  | nil =>
    simp only [ne_eq, not_true_eq_false, false_and, if_false]
    have : rstrip ([] : Str) = [] := by decide
    simp only [this, if_true]
    exact ⟨⟨' ', rfl, isSpace_space⟩, ⟨' ', rfl, isSpace_space⟩⟩
  | cons a as =>
    -- v1 starts with a blank
    have hv1 : ∃ b bs, (if (a :: as) ≠ [] ∧ lstrip (a :: as) = a :: as then ' ' :: a :: as else a :: as) = b :: bs ∧ isSpace b = true := by
      by_cases hl : lstrip (a :: as) = a :: as
      · exact ⟨' ', a :: as, by simp [hl], isSpace_space⟩
      · refine ⟨a, as, by simp [hl], ?_⟩
        rw [lstrip_eq_iff] at hl; simpa using hl
    obtain ⟨b, bs, hv, hb⟩ := hv1
    simp only [hv]
    by_cases hr : rstrip (b :: bs) = b :: bs
    · simp only [hr, if_true]
      exact ⟨⟨b, rfl, hb⟩, ⟨' ', by rw [List.getLast?_append]; simp, isSpace_space⟩⟩
    · simp only [hr, if_false]
      refine ⟨⟨b, rfl, hb⟩, ?_⟩
      cases hl : (b :: bs).getLast? with
      | none => simp at hl
      | some d =>
        refine ⟨d, rfl, ?_⟩
        rw [rstrip_eq_iff _ d hl] at hr; simpa using hr

theorem surroundSV_idem (v : Str) : surroundSV (surroundSV v) = surroundSV v :=
  surroundSV_of_padded _ (surroundSV_padded v)

theorem spaceRightSV_idem (v : Str) : spaceRightSV (spaceRightSV v) = spaceRightSV v := by
  unfold spaceRightSV
  by_cases h : v ≠ [] ∧ rstrip v = v
  · rw [if_pos h]
    have : ¬ (rstrip (v ++ [' ']) = v ++ [' ']) := by
      rw [rstrip_eq_iff _ ' ' (by simp)]; simp [isSpace_space]
    rw [if_neg (by intro hh; exact this hh.2)]
  · simp only [h, if_false]

theorem setValue_idem (k : StrClass) (hk : k ≠ .normalized) (v : Str) : k.setValue (k.setValue v) = k.setValue v := by
  cases k with
  | plain => rfl
  | surrounded => exact surroundSV_idem v
  | spaceRight => exact spaceRightSV_idem v
  | normalized => exact absurd rfl hk




/-! ### names: escape / unescape -/

/-- escape one character `d` with a backslash -/
def escD (d : Char) (c : Char) : Str := if c = d then ['\\', d] else [c]

theorem escNameChar_eq (c : Char) : escNameChar c = (escD ':' c).flatMap (escD '.') := by
  unfold escNameChar escD
  by_cases h1 : c = ':'
  · subst h1; decide
  · by_cases h2 : c = '.'
    · subst h2; decide
    · simp [h1, h2]

theorem escapeName_eq (n : Str) : escapeName n = ((encodeUE n).flatMap (escD ':')).flatMap (escD '.') := by
  unfold escapeName
  rw [List.flatMap_assoc]
  congr 1
  funext c
  exact escNameChar_eq c

/-- every backslash is followed by a character that is not in `bad`, and that character is skipped -/
def Esc (bad : Char → Bool) : Str → Prop
  | [] => True
  | [x] => x ≠ '\\'
  | x :: y :: rest => if x = '\\' then (bad y = false ∧ Esc bad rest) else Esc bad (y :: rest)

theorem replace2_cons_ne (d x : Char) (rest : Str) (hx : x ≠ '\\') :
    replace2 '\\' d d (x :: rest) = x :: replace2 '\\' d d rest := by
  cases rest with
  | nil => simp [replace2]
  | cons y r => simp [replace2, hx]

theorem replace2_bs (d : Char) (rest : Str) (h : rest.head? ≠ some d) :
    replace2 '\\' d d ('\\' :: rest) = '\\' :: replace2 '\\' d d rest := by
  cases rest with
  | nil => simp [replace2]
  | cons y r =>
    have : y ≠ d := by intro e; apply h; simp [e]
    simp [replace2, this]

theorem head_flatMap_escD (d : Char) (hd : d ≠ '\\') (s : Str) : (s.flatMap (escD d)).head? ≠ some d := by
  cases s with
  | nil => simp
  | cons c cs =>
    simp only [List.flatMap_cons, escD]
    split
    · simp; exact fun e => hd e.symm
    · rename_i h; simp; exact h

theorem replace2_escD (d : Char) (hd : d ≠ '\\') :
    ∀ e : Str, Esc (fun y => y = d) e → replace2 '\\' d d (e.flatMap (escD d)) = e
  | [], _ => rfl
  | [x], h => by
    have hx : x ≠ '\\' := h
    simp only [List.flatMap_cons, List.flatMap_nil, List.append_nil, escD]
    split
    · rename_i hxd; subst hxd; simp [replace2]
    · simp [replace2]
  | x :: y :: rest, h => by
    simp only [Esc] at h
    by_cases hx : x = '\\'
    · subst hx
      simp only [if_true] at h
      have hy : y ≠ d := by simpa using h.1
      have hbd : ¬ ('\\' = d) := fun e => hd e.symm
      simp only [List.flatMap_cons, escD, if_neg hbd, if_neg hy, List.cons_append, List.nil_append]
      have ihr := replace2_escD d hd rest h.2
      rw [replace2_bs d _ (by simp; exact fun e => hy e)]
      by_cases hyb : y = '\\'
      · subst hyb
        rw [replace2_bs d _ (head_flatMap_escD d hd rest), ihr]
      · rw [replace2_cons_ne d y _ hyb, ihr]
    · simp only [if_neg hx] at h
      have ihr := replace2_escD d hd (y :: rest) h
      simp only [List.flatMap_cons] at ihr ⊢
      by_cases hxd : x = d
      · subst hxd
        have e1 : escD x x = ['\\', x] := by simp [escD]
        rw [e1]
        simp only [List.cons_append, List.nil_append]
        have : replace2 '\\' x x ('\\' :: x :: (escD x y ++ List.flatMap (escD x) rest)) =
            x :: replace2 '\\' x x (escD x y ++ List.flatMap (escD x) rest) := by
          simp [replace2]
        rw [this, ihr]
      · have e1 : escD d x = [x] := by simp [escD, hxd]
        rw [e1]
        simp only [List.cons_append, List.nil_append]
        rw [replace2_cons_ne d x _ hx, ihr]



theorem Esc_cons_ne (bad : Char → Bool) (x : Char) (rest : Str) (hx : x ≠ '\\') (h : Esc bad rest) :
    Esc bad (x :: rest) := by
  cases rest with
  | nil => exact hx
  | cons y r => simp only [Esc, if_neg hx]; exact h

theorem Esc_bs (bad : Char → Bool) (y : Char) (rest : Str) (hy : bad y = false) (h : Esc bad rest) :
    Esc bad ('\\' :: y :: rest) := by
  simp only [Esc, if_true]; exact ⟨hy, h⟩

theorem Esc_append_plain (bad : Char → Bool) (w rest : Str) (hw : ∀ x ∈ w, x ≠ '\\') (h : Esc bad rest) :
    Esc bad (w ++ rest) := by
  induction w with
  | nil => exact h
  | cons x xs ih =>
    exact Esc_cons_ne bad x _ (hw x (by simp)) (ih (fun y hy => hw y (by simp [hy])))

def bad2 (y : Char) : Bool := y = '.' || y = ':'

theorem hexDigit_ne_bs : ∀ k, k < 16 → hexDigit k ≠ '\\' := by decide

theorem Esc_hexEscape (n : Nat) (rest : Str) (h : Esc bad2 rest) : Esc bad2 (hexEscape n ++ rest) := by
  unfold hexEscape
  split
  · simp only [List.cons_append]
    refine Esc_bs bad2 'x' _ (by decide) (Esc_append_plain bad2 _ rest ?_ h)
    intro x hx; simp [hex2] at hx
    rcases hx with rfl | rfl <;> exact hexDigit_ne_bs _ (by omega)
  · split
    · simp only [List.cons_append]
      refine Esc_bs bad2 'u' _ (by decide) (Esc_append_plain bad2 _ rest ?_ h)
      intro x hx; simp [hex4] at hx
      rcases hx with rfl | rfl | rfl | rfl <;> exact hexDigit_ne_bs _ (by omega)
    · simp only [List.cons_append]
      refine Esc_bs bad2 'U' _ (by decide) (Esc_append_plain bad2 _ rest ?_ h)
      intro x hx; simp [hex8] at hx
      rcases hx with rfl | rfl | rfl | rfl | rfl | rfl | rfl | rfl <;> exact hexDigit_ne_bs _ (by omega)

theorem Esc_encChar (c : Char) (rest : Str) (h : Esc bad2 rest) : Esc bad2 (encChar c ++ rest) := by
  unfold encChar
  simp only
  split
  · exact Esc_bs bad2 '\\' _ (by decide) h
  · split
    · exact Esc_bs bad2 't' _ (by decide) h
    · split
      · exact Esc_bs bad2 'n' _ (by decide) h
      · split
        · exact Esc_bs bad2 'r' _ (by decide) h
        · split
          · exact Esc_hexEscape _ rest h
          · rename_i h1 _ _ _ _
            exact Esc_cons_ne bad2 c rest h1 h

theorem Esc_encodeUE (n : Str) : Esc bad2 (encodeUE n) := by
  induction n with
  | nil => exact True.intro
  | cons c cs ih =>
    have : encodeUE (c :: cs) = encChar c ++ encodeUE cs := by simp [encodeUE]
    rw [this]; exact Esc_encChar c _ ih

theorem Esc_mono (bad bad' : Char → Bool) (hb : ∀ y, bad y = false → bad' y = false) :
    ∀ e : Str, Esc bad e → Esc bad' e
  | [], _ => True.intro
  | [_], h => h
  | x :: y :: rest, h => by
    simp only [Esc] at h ⊢
    by_cases hx : x = '\\'
    · simp only [hx, if_true] at h ⊢
      exact ⟨hb y h.1, Esc_mono bad bad' hb rest h.2⟩
    · simp only [hx, if_false] at h ⊢
      exact Esc_mono bad bad' hb (y :: rest) h

theorem Esc_flatMap_colon : ∀ e : Str, Esc bad2 e → Esc (fun y => y = '.') (e.flatMap (escD ':'))
  | [], _ => True.intro
  | [x], h => by
    have hx : x ≠ '\\' := h
    simp only [List.flatMap_cons, List.flatMap_nil, List.append_nil, escD]
    split
    · exact Esc_bs _ ':' [] (by decide) True.intro
    · exact hx
  | x :: y :: rest, h => by
    simp only [Esc] at h
    by_cases hx : x = '\\'
    · subst hx
      simp only [if_true] at h
      have hy1 : y ≠ ':' := by have := h.1; unfold bad2 at this; simp at this; exact this.2
      have hy2 : y ≠ '.' := by have := h.1; unfold bad2 at this; simp at this; exact this.1
      have e0 : escD ':' '\\' = ['\\'] := by decide
      have e1 : escD ':' y = [y] := by simp [escD, hy1]
      simp only [List.flatMap_cons, e0, e1, List.cons_append, List.nil_append]
      exact Esc_bs _ y _ (by simp [hy2]) (Esc_flatMap_colon rest h.2)
    · simp only [if_neg hx] at h
      have ih := Esc_flatMap_colon (y :: rest) h
      rw [List.flatMap_cons]
      by_cases hxc : x = ':'
      · subst hxc
        have e1 : escD ':' ':' = ['\\', ':'] := by decide
        rw [e1]
        exact Esc_bs _ ':' _ (by decide) ih
      · have e1 : escD ':' x = [x] := by simp [escD, hxc]
        rw [e1]
        exact Esc_cons_ne _ x _ hx ih

/-- `registry.unescape(registry.escape(n)) == n` for every name component -/
theorem unescapeName_escapeName (n : Str) : unescapeName (escapeName n) = .ok n := by
  unfold unescapeName
  rw [escapeName_eq]
  rw [replace2_escD '.' (by decide) _ (Esc_flatMap_colon _ (Esc_encodeUE n))]
  rw [replace2_escD ':' (by decide) _ (Esc_mono bad2 _ (by intro y hy; unfold bad2 at hy; simp at hy; simp [hy.2]) _ (Esc_encodeUE n))]
  exact decodeUE_encodeUE n



/-- no unescaped dot inside; the Bool is "this character is escaped" -/
def NoSplit : Bool → Str → Prop
  | _, [] => True
  | esc, c :: cs => (c = '.' → esc = true) ∧ NoSplit (!esc && c = '\\') cs

theorem NoSplit_append (a b : Str) : ∀ esc, NoSplit esc a → NoSplit (escEnd esc a) b → NoSplit esc (a ++ b) := by
  induction a with
  | nil => intro esc _ hb; exact hb
  | cons c cs ih => intro esc ha hb; exact ⟨ha.1, ih _ ha.2 hb⟩

theorem escEnd_append (a b : Str) : ∀ esc, escEnd esc (a ++ b) = escEnd (escEnd esc a) b := by
  induction a with
  | nil => intro esc; rfl
  | cons c cs ih => intro esc; simp only [List.cons_append, escEnd, ih]

theorem splitDots_ne_nil (esc : Bool) (s : Str) : splitDots esc s ≠ [] := by
  cases s with
  | nil => simp [splitDots]
  | cons c cs =>
    simp only [splitDots]
    split
    · simp
    · split <;> simp

/-- prepend `w` to the first piece -/
def consHead (w : Str) : List Str → List Str
  | [] => [w]
  | p :: ps => (w ++ p) :: ps

theorem splitDots_append (w rest : Str) : ∀ esc, NoSplit esc w →
    splitDots esc (w ++ rest) = consHead w (splitDots (escEnd esc w) rest) := by
  induction w with
  | nil =>
    intro esc _
    simp only [List.nil_append, escEnd]
    cases h : splitDots esc rest with
    | nil => exact absurd h (splitDots_ne_nil esc rest)
    | cons p ps => simp [consHead]
  | cons c cs ih =>
    intro esc h
    simp only [List.cons_append, splitDots, escEnd]
    rw [if_neg (by intro hh; have := h.1 hh.2; rw [this] at hh; exact hh.1 rfl)]
    rw [ih _ h.2]
    cases hs : splitDots (escEnd (!esc && decide (c = '\\')) cs) rest with
    | nil => exact absurd hs (splitDots_ne_nil _ rest)
    | cons p ps => simp [consHead]

/-- a run without dot and without backslash -/
theorem plainRun (w : Str) (h : ∀ x ∈ w, x ≠ '.' ∧ x ≠ '\\') : NoSplit false w ∧ escEnd false w = false := by
  induction w with
  | nil => exact ⟨True.intro, rfl⟩
  | cons c cs ih =>
    have hc := h c (by simp)
    have := ih (fun x hx => h x (by simp [hx]))
    simp only [NoSplit, escEnd, hc.2, decide_false, Bool.and_false]
    exact ⟨⟨fun e => absurd e hc.1, this.1⟩, this.2⟩

theorem escNameChar_id (c : Char) (h1 : c ≠ ':') (h2 : c ≠ '.') : escNameChar c = [c] := by
  simp [escNameChar, h1, h2]

theorem hexDigit_name : ∀ k, k < 16 → hexDigit k ≠ ':' ∧ hexDigit k ≠ '.' ∧ hexDigit k ≠ '\\' := by decide

theorem flatMap_escNameChar_id (w : Str) (h : ∀ x ∈ w, x ≠ ':' ∧ x ≠ '.') : w.flatMap escNameChar = w := by
  induction w with
  | nil => rfl
  | cons c cs ih =>
    have hc := h c (by simp)
    simp only [List.flatMap_cons, escNameChar_id c hc.1 hc.2, ih (fun x hx => h x (by simp [hx]))]
    rfl

/-- the escaped form of one character, scanned from an unescaped position, contains no separator and
ends unescaped -/
theorem nameBlock_ok (c : Char) :
    NoSplit false ((encChar c).flatMap escNameChar) ∧ escEnd false ((encChar c).flatMap escNameChar) = false := by
  have hex : ∀ (l : Char) (ds : Str), l ≠ ':' → l ≠ '.' → l ≠ '\\' → (∀ x ∈ ds, x ≠ ':' ∧ x ≠ '.' ∧ x ≠ '\\') →
      NoSplit false (('\\' :: l :: ds).flatMap escNameChar) ∧ escEnd false (('\\' :: l :: ds).flatMap escNameChar) = false := by
    intro l ds h1 h2 h3 hds
    have e : ('\\' :: l :: ds).flatMap escNameChar = '\\' :: l :: ds :=
      flatMap_escNameChar_id _ (by
        intro x hx; simp only [List.mem_cons] at hx
        rcases hx with rfl | rfl | hx
        · decide
        · exact ⟨h1, h2⟩
        · exact ⟨(hds x hx).1, (hds x hx).2.1⟩)
    rw [e]
    have := plainRun ds (fun x hx => ⟨(hds x hx).2.1, (hds x hx).2.2⟩)
    simp only [NoSplit, escEnd, Bool.not_false, Bool.true_and, decide_true, Bool.not_true, Bool.false_and]
    exact ⟨⟨by decide, fun _ => trivial, this.1⟩, this.2⟩
  unfold encChar
  simp only
  split
  · simp [NoSplit, escEnd, escNameChar]
  · split
    · simp [NoSplit, escEnd, escNameChar]
    · split
      · simp [NoSplit, escEnd, escNameChar]
      · split
        · simp [NoSplit, escEnd, escNameChar]
        · split
          · unfold hexEscape
            split
            · exact hex 'x' _ (by decide) (by decide) (by decide) (by
                intro x hx; simp [hex2] at hx
                rcases hx with rfl | rfl <;> exact hexDigit_name _ (by omega))
            · split
              · exact hex 'u' _ (by decide) (by decide) (by decide) (by
                  intro x hx; simp [hex4] at hx
                  rcases hx with rfl | rfl | rfl | rfl <;> exact hexDigit_name _ (by omega))
              · exact hex 'U' _ (by decide) (by decide) (by decide) (by
                  intro x hx; simp [hex8] at hx
                  rcases hx with rfl | rfl | rfl | rfl | rfl | rfl | rfl | rfl <;> exact hexDigit_name _ (by omega))
          · rename_i hbs _ _ _ _
            by_cases h1 : c = ':'
            · subst h1; simp [NoSplit, escEnd, escNameChar]
            · by_cases h2 : c = '.'
              · subst h2; simp [NoSplit, escEnd, escNameChar]
              · simp only [List.flatMap_cons, List.flatMap_nil, List.append_nil, escNameChar_id c h1 h2]
                simp only [NoSplit, escEnd, hbs, decide_false, Bool.and_false]
                exact ⟨⟨fun e => absurd e h2, trivial⟩, trivial⟩

theorem escapeName_ok (n : Str) : NoSplit false (escapeName n) ∧ escEnd false (escapeName n) = false := by
  induction n with
  | nil => exact ⟨True.intro, rfl⟩
  | cons c cs ih =>
    have e : escapeName (c :: cs) = (encChar c).flatMap escNameChar ++ escapeName cs := by
      simp [escapeName, encodeUE]
    have hb := nameBlock_ok c
    rw [e]
    constructor
    · exact NoSplit_append _ _ false hb.1 (by rw [hb.2]; exact ih.1)
    · rw [escEnd_append, hb.2]; exact ih.2

theorem splitDots_join (ns : List Str) (hne : ns ≠ []) :
    splitDots false (joinChar '.' (ns.map escapeName)) = ns.map escapeName := by
  induction ns with
  | nil => exact absurd rfl hne
  | cons n rest ih =>
    have hn := escapeName_ok n
    cases rest with
    | nil =>
      simp only [List.map_cons, List.map_nil, joinChar]
      have := splitDots_append (escapeName n) [] false hn.1
      simp only [List.append_nil, hn.2, splitDots, consHead] at this
      exact this
    | cons m ms =>
      simp only [List.map_cons, joinChar]
      rw [splitDots_append _ _ false hn.1, hn.2]
      simp only [splitDots, Bool.not_false, true_and, if_true]
      have := ih (by simp)
      simp only [List.map_cons] at this
      rw [this]
      simp [consHead]

theorem resAll_ok (ns : List Str) : resAll (ns.map fun n => Res.ok n) = some ns := by
  induction ns with
  | nil => rfl
  | cons n rest ih => simp [resAll, ih]

theorem splitName_joinName_aux (ns : List Str) (hne : ns ≠ []) : splitName (joinName ns) = some ns := by
  unfold splitName joinName
  rw [splitDots_join ns hne, List.map_map]
  have : (unescapeName ∘ escapeName) = fun n => Res.ok n := by
    funext n; exact unescapeName_escapeName n
  rw [this, resAll_ok]

/-- a name made by `join` is reader-safe as soon as it has no blank and does not start with `#` -/
theorem escapeName_escEnd (n : Str) : escEnd false (escapeName n) = false := (escapeName_ok n).2

theorem resetChannel_follows {α : Type} (C : Cls α) (B : Str) (s s' : St α) (n c : Str)
    (h : resetChannel C B s (some n) c = (s', .done)) :
    ∃ nv, findKey n s'.var.nets = some nv ∧ s'.var.value = s.var.value ∧
      resolve s'.var (some n) (some c) = some (if nv.wasSet then nv.value else s.var.value) := by
  unfold resetChannel at h
  simp only at h
  split at h
  · simp at h
  · rename_i x1 hstep
    split at hstep
    · simp at hstep
    · rename_i x0 nv ncv hg
      simp only [Prod.mk.injEq, and_true] at hstep
      subst hstep
      have sp := getNetChan_spec C B s.cache s.var x0 n c nv ncv hg
      split at h
      · simp at h
      · rename_i x2 cv hc
        simp only [Prod.mk.injEq, and_true] at h
        subst h
        have sp2 := getChan_spec C B s.cache _ x2 c cv hc
        -- nets of x2 are those of the tree after the first assignment
        have hnets : x2.nets = updKey n (fun m => { m with chans := updKey c (fun l => l.setV nv.value true) m.chans }) x0.nets := by
          rw [sp2.2.1]; rfl
        have hval : x2.value = s.var.value := by rw [sp2.2.2.1]; simp [Var.assign, sp.2.2.2.1]
        refine ⟨{ nv with chans := updKey c (fun l => l.setV nv.value true) nv.chans }, ?_, ?_, ?_⟩
        · simp only [Var.assign, hnets]
          rw [findKey_updKey_eq n n _ _ (keyEq_refl n), sp.1]; rfl
        · simp [Var.assign, hval]
        · simp only [resolve, Var.assign, hnets]
          rw [findKey_updKey_eq n n _ _ (keyEq_refl n), sp.1]
          simp only [Option.map_some]
          rw [findKey_updKey_eq c c _ _ (keyEq_refl c), sp2.1]
          simp only [Option.map_some]
          rw [findKey_updKey_eq c c _ _ (keyEq_refl c), sp.2.1]
          simp [Leaf.setV, hval]

end C15
