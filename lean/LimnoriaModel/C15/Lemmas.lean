/-
C15 — helper lemmas: the escape machine undoes the encoder and `repr`.
-/
import LimnoriaModel.C15.Model
namespace C15
open Py

/-! ### characters and hex digits -/

theorem hexVal_hexDigit : ∀ k, k < 16 → hexVal (hexDigit k) = some k := by decide
theorem hexDigit_toNat : ∀ k, k < 16 → 48 ≤ (hexDigit k).toNat ∧ (hexDigit k).toNat < 103 := by decide

theorem char_valid (c : Char) : c.toNat < 0xD800 ∨ (0xDFFF < c.toNat ∧ c.toNat < 0x110000) := by
  have h := c.valid
  unfold UInt32.isValidChar Nat.isValidChar at h
  unfold Char.toNat
  omega

theorem char_eq_of_toNat {a b : Char} (h : a.toNat = b.toNat) : a = b := by
  rw [← Char.ofNat_toNat a, ← Char.ofNat_toNat b, h]

theorem char_ne_toNat {a b : Char} (h : a ≠ b) : a.toNat ≠ b.toNat := fun e => h (char_eq_of_toNat e)

theorem Res.emit_ok (c : Char) (s : Str) : (Res.ok s).emit c = .ok (c :: s) := rfl

theorem emitNat_toNat (c : Char) (r : Res) : emitNat c.toNat r = r.emit c := by
  unfold emitNat
  have := char_valid c
  rw [if_neg (by omega), if_neg (by omega), Char.ofNat_toNat]

/-! ### decoding the hexadecimal escapes -/

theorem unesc_hex2 (q : Option Char) (n : Nat) (h : n < 256) (rest : Str) :
    unesc q (.hex 2 0) (hex2 n ++ rest) = emitNat n (unesc q .norm rest) := by
  simp only [hex2, List.cons_append, List.nil_append, unesc]
  rw [hexVal_hexDigit _ (by omega), hexVal_hexDigit _ (by omega)]
  simp only [show ¬ (2 ≤ 1) by omega, if_false, Nat.le_refl, if_true]
  congr 1
  omega

theorem unesc_hex4 (q : Option Char) (n : Nat) (h : n < 65536) (rest : Str) :
    unesc q (.hex 4 0) (hex4 n ++ rest) = emitNat n (unesc q .norm rest) := by
  simp only [hex4, List.cons_append, List.nil_append, unesc]
  rw [hexVal_hexDigit _ (by omega), hexVal_hexDigit _ (by omega), hexVal_hexDigit _ (by omega),
    hexVal_hexDigit _ (by omega)]
  simp only [show ¬ (4 ≤ 1) by omega, show ¬ (4 - 1 ≤ 1) by omega, show ¬ (4 - 1 - 1 ≤ 1) by omega,
    show (4 - 1 - 1 - 1 ≤ 1) by omega, if_false, if_true]
  congr 1
  omega

theorem unesc_hex8 (q : Option Char) (n : Nat) (h : n < 4294967296) (rest : Str) :
    unesc q (.hex 8 0) (hex8 n ++ rest) = emitNat n (unesc q .norm rest) := by
  simp only [hex8, List.cons_append, List.nil_append, unesc]
  rw [hexVal_hexDigit _ (by omega), hexVal_hexDigit _ (by omega), hexVal_hexDigit _ (by omega),
    hexVal_hexDigit _ (by omega), hexVal_hexDigit _ (by omega), hexVal_hexDigit _ (by omega),
    hexVal_hexDigit _ (by omega), hexVal_hexDigit _ (by omega)]
  simp only [show ¬ (8 ≤ 1) by omega, show ¬ (8 - 1 ≤ 1) by omega, show ¬ (8 - 1 - 1 ≤ 1) by omega,
    show ¬ (8 - 1 - 1 - 1 ≤ 1) by omega, show ¬ (8 - 1 - 1 - 1 - 1 ≤ 1) by omega,
    show ¬ (8 - 1 - 1 - 1 - 1 - 1 ≤ 1) by omega, show ¬ (8 - 1 - 1 - 1 - 1 - 1 - 1 ≤ 1) by omega,
    show (8 - 1 - 1 - 1 - 1 - 1 - 1 - 1 ≤ 1) by omega, if_false, if_true]
  congr 1
  omega

/-- a backslash followed by `hexEscape n` decodes to the character `n` -/
theorem unesc_hexEscape (q : Option Char) (c : Char) (rest : Str) :
    unesc q .norm (hexEscape c.toNat ++ rest) = (unesc q .norm rest).emit c := by
  have hv := char_valid c
  unfold hexEscape
  split
  · rename_i h
    simp only [List.cons_append, unesc, normStep, escStep]
    simp only [show ('x' : Char) = '\\' ↔ False by decide, show ('x' : Char) = '\n' ↔ False by decide,
      show ('x' : Char) = '\'' ↔ False by decide, show ('x' : Char) = '"' ↔ False by decide,
      show ('x' : Char) = 'a' ↔ False by decide, show ('x' : Char) = 'b' ↔ False by decide,
      show ('x' : Char) = 'f' ↔ False by decide, show ('x' : Char) = 'n' ↔ False by decide,
      show ('x' : Char) = 'r' ↔ False by decide, show ('x' : Char) = 't' ↔ False by decide,
      show ('x' : Char) = 'v' ↔ False by decide, or_self, if_false, if_true]
    rw [unesc_hex2 q _ h, emitNat_toNat]
  · split
    · rename_i h
      simp only [List.cons_append, unesc, normStep, escStep]
      simp only [show ('u' : Char) = '\\' ↔ False by decide, show ('u' : Char) = '\n' ↔ False by decide,
        show ('u' : Char) = '\'' ↔ False by decide, show ('u' : Char) = '"' ↔ False by decide,
        show ('u' : Char) = 'a' ↔ False by decide, show ('u' : Char) = 'b' ↔ False by decide,
        show ('u' : Char) = 'f' ↔ False by decide, show ('u' : Char) = 'n' ↔ False by decide,
        show ('u' : Char) = 'r' ↔ False by decide, show ('u' : Char) = 't' ↔ False by decide,
        show ('u' : Char) = 'v' ↔ False by decide, show ('u' : Char) = 'x' ↔ False by decide,
        or_self, if_false, if_true]
      rw [unesc_hex4 q _ h, emitNat_toNat]
    · simp only [List.cons_append, unesc, normStep, escStep]
      simp only [show ('U' : Char) = '\\' ↔ False by decide, show ('U' : Char) = '\n' ↔ False by decide,
        show ('U' : Char) = '\'' ↔ False by decide, show ('U' : Char) = '"' ↔ False by decide,
        show ('U' : Char) = 'a' ↔ False by decide, show ('U' : Char) = 'b' ↔ False by decide,
        show ('U' : Char) = 'f' ↔ False by decide, show ('U' : Char) = 'n' ↔ False by decide,
        show ('U' : Char) = 'r' ↔ False by decide, show ('U' : Char) = 't' ↔ False by decide,
        show ('U' : Char) = 'v' ↔ False by decide, show ('U' : Char) = 'x' ↔ False by decide,
        show ('U' : Char) = 'u' ↔ False by decide, or_self, if_false, if_true]
      rw [unesc_hex8 q _ (by omega), emitNat_toNat]

/-! ### the encoder's output decodes to its input -/


theorem unesc_encChar (c : Char) (rest : Str) :
    unesc none .norm (encChar c ++ rest) = (unesc none .norm rest).emit c := by
  unfold encChar
  simp only
  split
  · rename_i h; subst h
    simp [unesc, normStep, escStep]
  · split
    · rename_i h; subst h
      simp [unesc, normStep, escStep]
    · split
      · rename_i h; subst h
        simp [unesc, normStep, escStep]
      · split
        · rename_i h; subst h
          simp [unesc, normStep, escStep]
        · split
          · exact unesc_hexEscape none c rest
          · rename_i h1 h2 h3 h4 h5
            simp [unesc, normStep, h1]

theorem decode_encode_aux (s : Str) : unesc none .norm (encodeUE s) = .ok s := by
  induction s with
  | nil => simp [encodeUE, unesc]
  | cons c cs ih =>
    have : encodeUE (c :: cs) = encChar c ++ encodeUE cs := by simp [encodeUE]
    rw [this, unesc_encChar, ih]; rfl



/-- the characters the encoder writes: printable ASCII -/
def Plain (x : Char) : Prop := 32 ≤ x.toNat ∧ x.toNat < 127
instance (x : Char) : Decidable (Plain x) := by unfold Plain; infer_instance

theorem hexDigit_plain (k : Nat) (h : k < 16) : Plain (hexDigit k) := by
  have := hexDigit_toNat k h
  unfold Plain; omega

theorem hexEscape_plain (n : Nat) : ∀ x ∈ hexEscape n, Plain x := by
  intro x hx
  unfold hexEscape at hx
  split at hx
  · simp only [hex2, List.mem_cons, List.not_mem_nil, or_false] at hx
    rcases hx with rfl | rfl | rfl | rfl
    · decide
    · decide
    · exact hexDigit_plain _ (by omega)
    · exact hexDigit_plain _ (by omega)
  · split at hx
    · simp only [hex4, List.mem_cons, List.not_mem_nil, or_false] at hx
      rcases hx with rfl | rfl | rfl | rfl | rfl | rfl
      · decide
      · decide
      all_goals exact hexDigit_plain _ (by omega)
    · simp only [hex8, List.mem_cons, List.not_mem_nil, or_false] at hx
      rcases hx with rfl | rfl | rfl | rfl | rfl | rfl | rfl | rfl | rfl | rfl
      · decide
      · decide
      all_goals exact hexDigit_plain _ (by omega)

theorem encChar_plain (c : Char) : ∀ x ∈ encChar c, Plain x := by
  intro x hx
  unfold encChar at hx
  simp only at hx
  split at hx
  · simp at hx; rcases hx with rfl; decide
  · split at hx
    · simp at hx; rcases hx with rfl | rfl <;> decide
    · split at hx
      · simp at hx; rcases hx with rfl | rfl <;> decide
      · split at hx
        · simp at hx; rcases hx with rfl | rfl <;> decide
        · split at hx
          · exact hexEscape_plain _ x hx
          · rename_i h
            simp at hx; subst hx
            unfold Plain; omega

theorem encodeUE_plain (s : Str) : ∀ x ∈ encodeUE s, Plain x := by
  intro x hx
  simp only [encodeUE, List.mem_flatMap] at hx
  obtain ⟨c, _, hc⟩ := hx
  exact encChar_plain c x hc

theorem latin1Bytes_ascii (s : Str) (h : ∀ x ∈ s, x.toNat < 128) : latin1Bytes s = s := by
  induction s with
  | nil => rfl
  | cons c cs ih =>
    have hc := h c (by simp)
    have := ih (fun x hx => h x (by simp [hx]))
    simp only [latin1Bytes, List.flatMap_cons] at this ⊢
    rw [this, if_pos hc]; rfl


/-- `registry.decoder(registry.encoder(s))` is `s`, for every string -/
theorem decodeUE_encodeUE (s : Str) : decodeUE (encodeUE s) = .ok s := by
  unfold decodeUE
  rw [latin1Bytes_ascii _ (fun x hx => by have := encodeUE_plain s x hx; unfold Plain at this; omega)]
  exact decode_encode_aux s

/-! ### `repr` followed by literal evaluation -/



theorem unesc_reprChar (pr : Char → Bool) (q c : Char) (hq : q = '\'' ∨ q = '"') (rest : Str) :
    unesc (some q) .norm (reprChar pr q c ++ rest) = (unesc (some q) .norm rest).emit c := by
  have hqn : q.toNat = 39 ∨ q.toNat = 34 := by rcases hq with rfl | rfl <;> decide
  unfold reprChar
  simp only
  split
  · rename_i h
    rcases h with h | h
    · subst h
      rcases hq with rfl | rfl <;> simp [unesc, normStep, escStep]
    · subst h
      simp [unesc, normStep, escStep]
  · rename_i h0
    have hcq : c ≠ q := fun e => h0 (Or.inl e)
    have hcb : c ≠ '\\' := fun e => h0 (Or.inr e)
    split
    · rename_i h; subst h
      simp [unesc, normStep, escStep]
    · split
      · rename_i h; subst h
        simp [unesc, normStep, escStep]
      · split
        · rename_i h; subst h
          simp [unesc, normStep, escStep]
        · rename_i ht hn hr
          have key : unesc (some q) .norm (c :: rest) = (unesc (some q) .norm rest).emit c := by
            simp only [unesc, normStep, if_neg hcb]
            rw [if_neg (by intro e; exact hcq (Option.some.inj e).symm)]
            rw [if_neg (by simp [hn])]
          split
          · exact unesc_hexEscape (some q) c rest
          · split
            · exact key
            · split
              · exact key
              · exact unesc_hexEscape (some q) c rest


/-- characters that survive the tokenizer's newline translation and the NUL check -/
def Safe (x : Char) : Prop := x ≠ '\r' ∧ x ≠ Char.ofNat 0

theorem Plain.safe {x : Char} (h : Plain x) : Safe x := by
  unfold Plain at h
  constructor
  · intro e; subst e; revert h; decide
  · intro e; subst e; revert h; decide

theorem safe_of_ge {x : Char} (h : 32 ≤ x.toNat) : Safe x := by
  constructor
  · intro e; subst e; revert h; decide
  · intro e; subst e; revert h; decide

theorem reprChar_safe (pr : Char → Bool) (q c : Char) (hq : q = '\'' ∨ q = '"') :
    ∀ x ∈ reprChar pr q c, Safe x := by
  intro x hx
  unfold reprChar at hx
  simp only at hx
  split at hx
  · rename_i h
    simp at hx
    rcases hx with rfl | rfl
    · exact safe_of_ge (by decide)
    · rcases h with h | h
      · subst h; rcases hq with rfl | rfl <;> exact safe_of_ge (by decide)
      · subst h; exact safe_of_ge (by decide)
  · split at hx
    · simp at hx; rcases hx with rfl | rfl <;> exact safe_of_ge (by decide)
    · split at hx
      · simp at hx; rcases hx with rfl | rfl <;> exact safe_of_ge (by decide)
      · split at hx
        · simp at hx; rcases hx with rfl | rfl <;> exact safe_of_ge (by decide)
        · split at hx
          · exact (hexEscape_plain _ x hx).safe
          · rename_i h
            split at hx
            · simp at hx; subst hx; exact safe_of_ge (by omega)
            · split at hx
              · simp at hx; subst hx; exact safe_of_ge (by omega)
              · exact (hexEscape_plain _ x hx).safe

theorem normNLAux_safe (s : Str) (h : ∀ x ∈ s, Safe x) : normNLAux false s = s := by
  induction s with
  | nil => rfl
  | cons c cs ih =>
    have hc := (h c (by simp)).1
    simp only [normNLAux, if_neg hc]
    rw [if_neg (by simp), ih (fun x hx => h x (by simp [hx]))]

theorem contains_false_of_ne (s : Str) (a : Char) (h : ∀ x ∈ s, x ≠ a) : s.contains a = false := by
  induction s with
  | nil => rfl
  | cons c cs ih =>
    simp only [List.contains_cons, Bool.or_eq_false_iff]
    constructor
    · have := h c (by simp); simp; exact fun e => this e.symm
    · exact ih (fun x hx => h x (by simp [hx]))

theorem reprQuote_cases (s : Str) : reprQuote s = '\'' ∨ reprQuote s = '"' := by
  unfold reprQuote; split <;> simp

theorem unesc_reprBody (pr : Char → Bool) (q : Char) (hq : q = '\'' ∨ q = '"') (s : Str) :
    unesc (some q) .norm (s.flatMap (reprChar pr q) ++ [q]) = .ok s := by
  induction s with
  | nil =>
    rcases hq with rfl | rfl <;> simp [unesc, normStep]
  | cons c cs ih =>
    rw [List.flatMap_cons, List.append_assoc, unesc_reprChar pr q c hq, ih]; rfl

/-- `safeEval(repr(s)) == s` for every string, whatever the Unicode database calls printable -/
theorem evalLit_pyRepr (pr : Char → Bool) (s : Str) : evalLit (pyRepr pr s) = .ok s := by
  have hq := reprQuote_cases s
  have hsafe : ∀ x ∈ s.flatMap (reprChar pr (reprQuote s)) ++ [reprQuote s], Safe x := by
    intro x hx
    rw [List.mem_append] at hx
    rcases hx with hx | hx
    · rw [List.mem_flatMap] at hx
      obtain ⟨c, _, hc⟩ := hx
      exact reprChar_safe pr _ c hq x hc
    · simp at hx; subst hx
      rcases hq with h | h <;> rw [h] <;> exact safe_of_ge (by decide)
  unfold pyRepr evalLit
  simp only
  have hiq : isQuote (reprQuote s) = true := by
    rcases hq with h | h <;> rw [h] <;> decide
  rw [if_neg (by simp [hiq])]
  rw [if_neg]
  · unfold normNL
    rw [normNLAux_safe _ hsafe]
    exact unesc_reprBody pr _ hq s
  · have : (reprQuote s :: (s.flatMap (reprChar pr (reprQuote s)) ++ [reprQuote s])).contains (Char.ofNat 0) = false := by
      apply contains_false_of_ne
      intro x hx
      simp only [List.mem_cons] at hx
      rcases hx with rfl | hx
      · rcases hq with h | h <;> rw [h] <;> decide
      · exact (hsafe x hx).2
    rw [this]; simp

/-! ### `String.set` undoes `String.__str__` -/


/-- what the String round trip needs from the extracted quote table -/
def QuotesOk (qs : Str) : Prop := qs.contains '\'' = true ∧ qs.contains '"' = true

theorem head_pyRepr (pr : Char → Bool) (s : Str) : (pyRepr pr s).head? = some (reprQuote s) := rfl

theorem getLast_pyRepr (pr : Char → Bool) (s : Str) : (pyRepr pr s).getLast? = some (reprQuote s) := by
  unfold pyRepr
  simp only
  rw [List.getLast?_cons, List.getLast?_append]
  simp

theorem evalLit_empty_quotes : evalLit ['"', '"'] = .ok [] := by decide

theorem strSet_strStr (hq : QuotesOk Gen.Registry.stringQuotes) (pr : Char → Bool) (v : Str) :
    strSet pr (strStr pr v) = .ok v := by
  unfold strSet strStr
  by_cases hn : needsQuoting v = true
  · rw [if_pos hn]
    unfold strSetText
    rw [head_pyRepr, getLast_pyRepr]
    simp only
    have hc : Gen.Registry.stringQuotes.contains (reprQuote v) = true := by
      rcases reprQuote_cases v with h | h <;> rw [h]
      · exact hq.1
      · exact hq.2
    rw [if_neg (by simp; exact List.contains_iff_mem.mp hc |> fun h => by simpa using h)]
    rw [evalLit_pyRepr]; rfl
  · rw [if_neg hn]
    unfold strSetText
    cases hh : v.head? with
    | none =>
      have : v = [] := by cases v <;> simp_all
      subst this
      rw [evalLit_empty_quotes]; rfl
    | some a =>
      cases hl : v.getLast? with
      | none => cases v <;> simp_all
      | some b =>
        simp only
        have : a ≠ b ∨ ¬ Gen.Registry.stringQuotes.contains a = true := by
          by_cases hab : a = b
          · right
            intro hc
            apply hn
            unfold needsQuoting
            rw [hh, hl]
            subst hab
            simp
            right
            simpa using hc
          · left; exact hab
        rw [if_pos this, evalLit_pyRepr]; rfl




/-! ### integers -/

def IsDig (c : Char) : Prop := 48 ≤ c.toNat ∧ c.toNat ≤ 57

theorem digitChar_toNat (d : Nat) (h : d < 10) : (digitChar d).toNat = 48 + d := by
  unfold digitChar
  have : ∀ d, d < 10 → (Char.ofNat (48 + d)).toNat = 48 + d := by decide
  exact this d h

theorem digitChar_isDig (d : Nat) (h : d < 10) : IsDig (digitChar d) := by
  unfold IsDig; rw [digitChar_toNat d h]; omega

theorem isDigit_of_isDig {c : Char} (h : IsDig c) : isDigit c = true := by
  unfold IsDig at h
  unfold isDigit
  have h1 : ('0' : Char) ≤ c := by
    show ('0' : Char).val ≤ c.val
    have : ('0' : Char).val.toNat = 48 := by decide
    rw [UInt32.le_iff_toNat_le]; unfold Char.toNat at h; omega
  have h2 : c ≤ ('9' : Char) := by
    show c.val ≤ ('9' : Char).val
    have : ('9' : Char).val.toNat = 57 := by decide
    rw [UInt32.le_iff_toNat_le]; unfold Char.toNat at h; omega
  simp [h1, h2]

theorem digitsVal_digits (xs : Str) (h : ∀ x ∈ xs, IsDig x) (b : Bool) (acc : Nat) :
    digitsVal b acc xs =
      if xs = [] then (if b then some acc else none)
      else some (xs.foldl (fun a d => a * 10 + (d.toNat - 48)) acc) := by
  induction xs generalizing b acc with
  | nil => simp [digitsVal]
  | cons c cs ih =>
    have hc := h c (by simp)
    simp only [digitsVal, isDigit_of_isDig hc, if_true]
    rw [ih (fun x hx => h x (by simp [hx]))]
    by_cases hcs : cs = []
    · subst hcs; simp
    · simp [hcs]

theorem natDigitsRev_isDig (f n : Nat) : ∀ x ∈ natDigitsRev f n, IsDig x := by
  induction f generalizing n with
  | zero => simp [natDigitsRev]
  | succ f ih =>
    intro x hx
    simp only [natDigitsRev, List.mem_cons] at hx
    rcases hx with rfl | hx
    · exact digitChar_isDig _ (by omega)
    · split at hx
      · simp at hx
      · exact ih _ x hx

theorem natDigitsRev_val (f n : Nat) (h : n < f) :
    (natDigitsRev f n).foldr (fun d a => a * 10 + (d.toNat - 48)) 0 = n := by
  induction f generalizing n with
  | zero => omega
  | succ f ih =>
    simp only [natDigitsRev, List.foldr_cons]
    rw [digitChar_toNat _ (by omega)]
    split
    · rename_i h0; simp; omega
    · rename_i h0
      rw [ih (n / 10) (by omega)]; omega

theorem natDigitsRev_ne_nil (f n : Nat) : natDigitsRev (f + 1) n ≠ [] := by
  simp [natDigitsRev]

theorem natStr_isDig (n : Nat) : ∀ x ∈ natStr n, IsDig x := by
  intro x hx
  unfold natStr at hx
  rw [List.mem_reverse] at hx
  exact natDigitsRev_isDig _ _ x hx

theorem natStr_ne_nil (n : Nat) : natStr n ≠ [] := by
  unfold natStr
  simp [natDigitsRev]

theorem digitsVal_natStr (n : Nat) : digitsVal false 0 (natStr n) = some n := by
  rw [digitsVal_digits _ (natStr_isDig n), if_neg (natStr_ne_nil n)]
  unfold natStr
  rw [List.foldl_reverse, natDigitsRev_val _ _ (by omega)]


/-! ### stripping -/

theorem dropWhile_id {α : Type} (p : α → Bool) (l : List α) (h : ∀ c, l.head? = some c → p c = false) :
    l.dropWhile p = l := by
  cases l with
  | nil => rfl
  | cons c cs => simp [List.dropWhile, h c rfl]

theorem lstripP_id (p : Char → Bool) (s : Str) (h : ∀ c, s.head? = some c → p c = false) :
    lstripP p s = s := dropWhile_id p s h

theorem rstripP_id (p : Char → Bool) (s : Str) (h : ∀ c, s.getLast? = some c → p c = false) :
    rstripP p s = s := by
  unfold rstripP
  rw [dropWhile_id p s.reverse (by intro c hc; rw [List.head?_reverse] at hc; exact h c hc)]
  simp

theorem isDig_not_intBlank {c : Char} (h : IsDig c) : isIntBlank c = false := by
  unfold IsDig at h; unfold isIntBlank
  simp; omega

theorem all_head {P : Char → Prop} {s : Str} (h : ∀ x ∈ s, P x) {c : Char} (hc : s.head? = some c) : P c := by
  cases s with
  | nil => simp at hc
  | cons a as => simp at hc; subst hc; exact h a (by simp)

theorem all_last {P : Char → Prop} {s : Str} (h : ∀ x ∈ s, P x) {c : Char} (hc : s.getLast? = some c) : P c :=
  h c (List.mem_of_getLast? hc)

theorem pyInt_natStr (n : Nat) : pyInt (natStr n) = some (Int.ofNat n) := by
  unfold pyInt
  have hd := natStr_isDig n
  rw [lstripP_id _ _ (fun c hc => isDig_not_intBlank (all_head hd hc)),
      rstripP_id _ _ (fun c hc => isDig_not_intBlank (all_last hd hc))]
  cases hs : natStr n with
  | nil => exact absurd hs (natStr_ne_nil n)
  | cons c cs =>
    have hc : IsDig c := hd c (by rw [hs]; simp)
    have h1 : c ≠ '-' := by intro e; subst e; revert hc; unfold IsDig; decide
    have h2 : c ≠ '+' := by intro e; subst e; revert hc; unfold IsDig; decide
    simp only
    split
    · rename_i heq; simp at heq; exact absurd heq.1 h1
    · rename_i heq; simp at heq; exact absurd heq.1 h2
    · rename_i ds _ _ 
      rw [← hs, digitsVal_natStr]; rfl

theorem pyInt_neg_natStr (n : Nat) : pyInt ('-' :: natStr n) = some (- Int.ofNat n) := by
  unfold pyInt
  have hd := natStr_isDig n
  rw [lstripP_id _ _ (by intro c hc; simp at hc; subst hc; decide),
      rstripP_id _ _ (by
        intro c hc
        rw [List.getLast?_cons] at hc
        cases hl : (natStr n).getLast? with
        | none => rw [hl] at hc; simp at hc; subst hc; decide
        | some d => rw [hl] at hc; simp at hc; subst hc; exact isDig_not_intBlank (all_last hd hl))]
  simp only
  rw [digitsVal_natStr]; rfl

theorem pyInt_intStr (v : Int) : pyInt (intStr v) = some v := by
  cases v with
  | ofNat n => exact pyInt_natStr n
  | negSucc n =>
    show pyInt ('-' :: natStr (n + 1)) = _
    rw [pyInt_neg_natStr]; rfl




/-! ### lists -/

theorem splitChar_no (c : Char) (a : Str) (h : ∀ x ∈ a, x ≠ c) : splitChar c a = [a] := by
  induction a with
  | nil => rfl
  | cons x xs ih =>
    have hx := h x (by simp)
    simp only [splitChar, if_neg hx, ih (fun y hy => h y (by simp [hy]))]

theorem splitChar_append (c : Char) (a rest : Str) (h : ∀ x ∈ a, x ≠ c) :
    splitChar c (a ++ c :: rest) = a :: splitChar c rest := by
  induction a with
  | nil => simp [splitChar]
  | cons x xs ih =>
    have hx := h x (by simp)
    simp only [List.cons_append, splitChar, if_neg hx, ih (fun y hy => h y (by simp [hy]))]

/-- a word: no blank inside, not empty -/
def Word (e : Str) : Prop := e ≠ [] ∧ ∀ c ∈ e, isSpace c = false

theorem splitWs_go_word (w rest acc : Str) (h : ∀ c ∈ w, isSpace c = false) :
    splitWs.go (w ++ rest) acc = splitWs.go rest (w.reverse ++ acc) := by
  induction w generalizing acc with
  | nil => rfl
  | cons c cs ih =>
    have hc := h c (by simp)
    simp only [List.cons_append, splitWs.go, hc]
    have := ih (c :: acc) (fun x hx => h x (by simp [hx]))
    rw [this]; simp

theorem splitWs_go_words (xs : List Str) (h : ∀ e ∈ xs, Word e) (hne : xs ≠ []) :
    splitWs.go (joinStr [' '] xs) [] = xs := by
  induction xs with
  | nil => exact absurd rfl hne
  | cons e es ih =>
    have he := h e (by simp)
    cases es with
    | nil =>
      simp only [joinStr]
      have := splitWs_go_word e [] [] he.2
      simp only [List.append_nil] at this
      rw [this]
      simp only [splitWs.go]
      have hne' : e.reverse ≠ [] := by simpa using he.1
      simp [he.1]
    | cons e2 es2 =>
      simp only [joinStr]
      rw [List.append_assoc, splitWs_go_word e _ [] he.2]
      simp only [List.append_nil, List.cons_append, List.nil_append, splitWs.go]
      have hsp : isSpace ' ' = true := by decide
      have hne' : e.reverse ≠ [] := by simpa using he.1
      simp only [hsp, if_true]
      rw [ih (fun x hx => h x (by simp [hx])) (by simp)]
      simp [he.1]

theorem space_roundtrip_aux (hj : Gen.Registry.spaceJoin = [' ']) (he : Gen.Registry.emptyListStr = [' '])
    (xs : List Str) (h : ∀ e ∈ xs, Word e) :
    ListClass.set .space (ListClass.str .space xs) = xs := by
  unfold ListClass.set ListClass.splitter ListClass.str
  cases xs with
  | nil => simp [he, splitWs, splitWs.go]; decide
  | cons e es =>
    simp only [List.isEmpty_cons, Bool.false_eq_true, if_false, ListClass.joiner, hj]
    exact splitWs_go_words (e :: es) h (by simp)


/-- an element a comma separated list can carry: no comma, no blank at either end -/
def CommaElt (e : Str) : Prop := (∀ c ∈ e, c ≠ ',') ∧ lstrip e = e ∧ rstrip e = e

theorem lstrip_space_cons (e : Str) : lstrip (' ' :: e) = lstrip e := by
  unfold lstrip lstripP
  have : isSpace ' ' = true := by decide
  simp [List.dropWhile, this]

/-- the pieces of `', '.join(xs)` split at the commas -/
theorem splitChar_commaJoin (e : Str) (es : List Str) (h : ∀ x ∈ e :: es, CommaElt x) :
    splitChar ',' (joinStr [',', ' '] (e :: es)) = e :: es.map (' ' :: ·) := by
  induction es generalizing e with
  | nil =>
    simp only [joinStr, List.map_nil]
    exact splitChar_no ',' e (h e (by simp)).1
  | cons e2 es2 ih =>
    simp only [joinStr, List.map_cons]
    rw [List.append_assoc]
    simp only [List.cons_append, List.nil_append]
    rw [splitChar_append ',' e _ (h e (by simp)).1]
    have h2 : ∀ x ∈ e2 :: es2, CommaElt x := fun x hx => h x (by simp [hx])
    have := ih e2 h2
    -- splitChar on ' ' :: joinStr … : the blank is not a comma
    have hsp : splitChar ',' (' ' :: joinStr [',', ' '] (e2 :: es2)) = (' ' :: e2) :: es2.map (' ' :: ·) := by
      simp only [splitChar, show ¬ ((' ' : Char) = ',') by decide, if_false, this]
    rw [hsp]

theorem commaPieces_rest (es : List Str) (h : ∀ x ∈ es, CommaElt x) :
    commaPieces false (es.map (' ' :: ·)) = es := by
  induction es with
  | nil => rfl
  | cons e es ih =>
    have he := h e (by simp)
    have ih' := ih (fun x hx => h x (by simp [hx]))
    cases es with
    | nil => simp [commaPieces, lstrip_space_cons, he.2.1]
    | cons e2 es2 =>
      simp only [List.map_cons] at ih' ⊢
      simp only [commaPieces, Bool.false_eq_true, if_false, lstrip_space_cons, he.2.1, he.2.2, ih']

theorem comma_roundtrip_aux (hj : Gen.Registry.commaJoin = [',', ' ']) (xs : List Str) (hne : xs ≠ [])
    (h : ∀ e ∈ xs, CommaElt e) :
    ListClass.set .comma (ListClass.str .comma xs) = xs := by
  unfold ListClass.set ListClass.splitter ListClass.str
  cases xs with
  | nil => exact absurd rfl hne
  | cons e es =>
    simp only [List.isEmpty_cons, Bool.false_eq_true, if_false, ListClass.joiner, hj]
    rw [splitChar_commaJoin e es h]
    have hr := commaPieces_rest es (fun x hx => h x (by simp [hx]))
    cases es with
    | nil => simp [commaPieces]
    | cons e2 es2 =>
      simp only [List.map_cons] at hr ⊢
      simp only [commaPieces, if_true, (h e (by simp)).2.2, hr]

end C15
