/-
C15 — helper lemmas: the escape machine undoes the encoder and `repr`.
-/
import LimnoriaModel.C15.Model
namespace C15
open Py

/-! ### characters and hex digits -/

theorem hexVal_hexDigit : ∀ k, k < 16 → hexVal (hexDigit k) = some k := by decide
theorem hexDigit_toNat : ∀ k, k < 16 → 48 ≤ (hexDigit k).toNat ∧ (hexDigit k).toNat < 103 := by decide

theorem char_valid (c : Char) : c.toNat < 0xD800 ∨ (0xDFFF < c.toNat ∧ c.toNat < 0x110000) := by
  have h := c.valid
  unfold UInt32.isValidChar Nat.isValidChar at h
  unfold Char.toNat
  omega

theorem char_eq_of_toNat {a b : Char} (h : a.toNat = b.toNat) : a = b := by
  rw [← Char.ofNat_toNat a, ← Char.ofNat_toNat b, h]

theorem char_ne_toNat {a b : Char} (h : a ≠ b) : a.toNat ≠ b.toNat := fun e => h (char_eq_of_toNat e)

theorem Res.emit_ok (c : Char) (s : Str) : (Res.ok s).emit c = .ok (c :: s) := rfl

theorem emitNat_toNat (c : Char) (r : Res) : emitNat c.toNat r = r.emit c := by
  unfold emitNat
  have := char_valid c
  rw [if_neg (by omega), if_neg (by omega), Char.ofNat_toNat]

/-! ### decoding the hexadecimal escapes -/

theorem unesc_hex2 (q : Option Char) (n : Nat) (h : n < 256) (rest : Str) :
    unesc q (.hex 2 0) (hex2 n ++ rest) = emitNat n (unesc q .norm rest) := by
  simp only [hex2, List.cons_append, List.nil_append, unesc]
  rw [hexVal_hexDigit _ (by omega), hexVal_hexDigit _ (by omega)]
  simp only [show ¬ (2 ≤ 1) by omega, if_false, Nat.le_refl, if_true]
  congr 1
  omega

theorem unesc_hex4 (q : Option Char) (n : Nat) (h : n < 65536) (rest : Str) :
    unesc q (.hex 4 0) (hex4 n ++ rest) = emitNat n (unesc q .norm rest) := by
  simp only [hex4, List.cons_append, List.nil_append, unesc]
  rw [hexVal_hexDigit _ (by omega), hexVal_hexDigit _ (by omega), hexVal_hexDigit _ (by omega),
    hexVal_hexDigit _ (by omega)]
  simp only [show ¬ (4 ≤ 1) by omega, show ¬ (4 - 1 ≤ 1) by omega, show ¬ (4 - 1 - 1 ≤ 1) by omega,
    show (4 - 1 - 1 - 1 ≤ 1) by omega, if_false, if_true]
  congr 1
  omega

theorem unesc_hex8 (q : Option Char) (n : Nat) (h : n < 4294967296) (rest : Str) :
    unesc q (.hex 8 0) (hex8 n ++ rest) = emitNat n (unesc q .norm rest) := by
  simp only [hex8, List.cons_append, List.nil_append, unesc]
  rw [hexVal_hexDigit _ (by omega), hexVal_hexDigit _ (by omega), hexVal_hexDigit _ (by omega),
    hexVal_hexDigit _ (by omega), hexVal_hexDigit _ (by omega), hexVal_hexDigit _ (by omega),
    hexVal_hexDigit _ (by omega), hexVal_hexDigit _ (by omega)]
  simp only [show ¬ (8 ≤ 1) by omega, show ¬ (8 - 1 ≤ 1) by omega, show ¬ (8 - 1 - 1 ≤ 1) by omega,
    show ¬ (8 - 1 - 1 - 1 ≤ 1) by omega, show ¬ (8 - 1 - 1 - 1 - 1 ≤ 1) by omega,
    show ¬ (8 - 1 - 1 - 1 - 1 - 1 ≤ 1) by omega, show ¬ (8 - 1 - 1 - 1 - 1 - 1 - 1 ≤ 1) by omega,
    show (8 - 1 - 1 - 1 - 1 - 1 - 1 - 1 ≤ 1) by omega, if_false, if_true]
  congr 1
  omega

/-- a backslash followed by `hexEscape n` decodes to the character `n` -/
theorem unesc_hexEscape (q : Option Char) (c : Char) (rest : Str) :
    unesc q .norm (hexEscape c.toNat ++ rest) = (unesc q .norm rest).emit c := by
  have hv := char_valid c
  unfold hexEscape
  split
  · rename_i h
    simp only [List.cons_append, unesc, normStep, escStep]
    simp only [show ('x' : Char) = '\\' ↔ False by decide, show ('x' : Char) = '\n' ↔ False by decide,
      show ('x' : Char) = '\'' ↔ False by decide, show ('x' : Char) = '"' ↔ False by decide,
      show ('x' : Char) = 'a' ↔ False by decide, show ('x' : Char) = 'b' ↔ False by decide,
      show ('x' : Char) = 'f' ↔ False by decide, show ('x' : Char) = 'n' ↔ False by decide,
      show ('x' : Char) = 'r' ↔ False by decide, show ('x' : Char) = 't' ↔ False by decide,
      show ('x' : Char) = 'v' ↔ False by decide, or_self, if_false, if_true]
    rw [unesc_hex2 q _ h, emitNat_toNat]
  · split
    · rename_i h
      simp only [List.cons_append, unesc, normStep, escStep]
      simp only [show ('u' : Char) = '\\' ↔ False by decide, show ('u' : Char) = '\n' ↔ False by decide,
        show ('u' : Char) = '\'' ↔ False by decide, show ('u' : Char) = '"' ↔ False by decide,
        show ('u' : Char) = 'a' ↔ False by decide, show ('u' : Char) = 'b' ↔ False by decide,
        show ('u' : Char) = 'f' ↔ False by decide, show ('u' : Char) = 'n' ↔ False by decide,
        show ('u' : Char) = 'r' ↔ False by decide, show ('u' : Char) = 't' ↔ False by decide,
        show ('u' : Char) = 'v' ↔ False by decide, show ('u' : Char) = 'x' ↔ False by decide,
        or_self, if_false, if_true]
      rw [unesc_hex4 q _ h, emitNat_toNat]
    · simp only [List.cons_append, unesc, normStep, escStep]
      simp only [show ('U' : Char) = '\\' ↔ False by decide, show ('U' : Char) = '\n' ↔ False by decide,
        show ('U' : Char) = '\'' ↔ False by decide, show ('U' : Char) = '"' ↔ False by decide,
        show ('U' : Char) = 'a' ↔ False by decide, show ('U' : Char) = 'b' ↔ False by decide,
        show ('U' : Char) = 'f' ↔ False by decide, show ('U' : Char) = 'n' ↔ False by decide,
        show ('U' : Char) = 'r' ↔ False by decide, show ('U' : Char) = 't' ↔ False by decide,
        show ('U' : Char) = 'v' ↔ False by decide, show ('U' : Char) = 'x' ↔ False by decide,
        show ('U' : Char) = 'u' ↔ False by decide, or_self, if_false, if_true]
      rw [unesc_hex8 q _ (by omega), emitNat_toNat]

/-! ### the encoder's output decodes to its input -/


theorem unesc_encChar (c : Char) (rest : Str) :
    unesc none .norm (encChar c ++ rest) = (unesc none .norm rest).emit c := by
  unfold encChar
  simp only
  split
  · rename_i h; subst h
    simp [unesc, normStep, escStep]
  · split
    · rename_i h; subst h
      simp [unesc, normStep, escStep]
    · split
      · rename_i h; subst h
        simp [unesc, normStep, escStep]
      · split
        · rename_i h; subst h
          simp [unesc, normStep, escStep]
        · split
          · exact unesc_hexEscape none c rest
          · rename_i h1 h2 h3 h4 h5
            simp [unesc, normStep, h1]

theorem decode_encode_aux (s : Str) : unesc none .norm (encodeUE s) = .ok s := by
  induction s with
  | nil => simp [encodeUE, unesc]
  | cons c cs ih =>
    have : encodeUE (c :: cs) = encChar c ++ encodeUE cs := by simp [encodeUE]
    rw [this, unesc_encChar, ih]; rfl



/-- the characters the encoder writes: printable ASCII -/
def Plain (x : Char) : Prop := 32 ≤ x.toNat ∧ x.toNat < 127
instance (x : Char) : Decidable (Plain x) := by unfold Plain; infer_instance

theorem hexDigit_plain (k : Nat) (h : k < 16) : Plain (hexDigit k) := by
  have := hexDigit_toNat k h
  unfold Plain; omega

theorem hexEscape_plain (n : Nat) : ∀ x ∈ hexEscape n, Plain x := by
  intro x hx
  unfold hexEscape at hx
  split at hx
  · simp only [hex2, List.mem_cons, List.not_mem_nil, or_false] at hx
    rcases hx with rfl | rfl | rfl | rfl
    · decide
    · decide
    · exact hexDigit_plain _ (by omega)
    · exact hexDigit_plain _ (by omega)
  · split at hx
    · simp only [hex4, List.mem_cons, List.not_mem_nil, or_false] at hx
      rcases hx with rfl | rfl | rfl | rfl | rfl | rfl
      · decide
      · decide
      all_goals exact hexDigit_plain _ (by omega)
    · simp only [hex8, List.mem_cons, List.not_mem_nil, or_false] at hx
      rcases hx with rfl | rfl | rfl | rfl | rfl | rfl | rfl | rfl | rfl | rfl
      · decide
      · decide
      all_goals exact hexDigit_plain _ (by omega)

theorem encChar_plain (c : Char) : ∀ x ∈ encChar c, Plain x := by
  intro x hx
  unfold encChar at hx
  simp only at hx
  split at hx
  · simp at hx; rcases hx with rfl; decide
  · split at hx
    · simp at hx; rcases hx with rfl | rfl <;> decide
    · split at hx
      · simp at hx; rcases hx with rfl | rfl <;> decide
      · split at hx
        · simp at hx; rcases hx with rfl | rfl <;> decide
        · split at hx
          · exact hexEscape_plain _ x hx
          · rename_i h
            simp at hx; subst hx
            unfold Plain; omega

theorem encodeUE_plain (s : Str) : ∀ x ∈ encodeUE s, Plain x := by
  intro x hx
  simp only [encodeUE, List.mem_flatMap] at hx
  obtain ⟨c, _, hc⟩ := hx
  exact encChar_plain c x hc

theorem latin1Bytes_ascii (s : Str) (h : ∀ x ∈ s, x.toNat < 128) : latin1Bytes s = s := by
  induction s with
  | nil => rfl
  | cons c cs ih =>
    have hc := h c (by simp)
    have := ih (fun x hx => h x (by simp [hx]))
    simp only [latin1Bytes, List.flatMap_cons] at this ⊢
    rw [this, if_pos hc]; rfl


/-- `registry.decoder(registry.encoder(s))` is `s`, for every string -/
theorem decodeUE_encodeUE (s : Str) : decodeUE (encodeUE s) = .ok s := by
  unfold decodeUE
  rw [latin1Bytes_ascii _ (fun x hx => by have := encodeUE_plain s x hx; unfold Plain at this; omega)]
  exact decode_encode_aux s

/-! ### `repr` followed by literal evaluation -/



theorem unesc_reprChar (pr : Char → Bool) (q c : Char) (hq : q = '\'' ∨ q = '"') (rest : Str) :
    unesc (some q) .norm (reprChar pr q c ++ rest) = (unesc (some q) .norm rest).emit c := by
  have hqn : q.toNat = 39 ∨ q.toNat = 34 := by rcases hq with rfl | rfl <;> decide
  unfold reprChar
  simp only
  split
  · rename_i h
    rcases h with h | h
    · subst h
      rcases hq with rfl | rfl <;> simp [unesc, normStep, escStep]
    · subst h
      simp [unesc, normStep, escStep]
  · rename_i h0
    have hcq : c ≠ q := fun e => h0 (Or.inl e)
    have hcb : c ≠ '\\' := fun e => h0 (Or.inr e)
    split
    · rename_i h; subst h
      simp [unesc, normStep, escStep]
    · split
      · rename_i h; subst h
        simp [unesc, normStep, escStep]
      · split
        · rename_i h; subst h
          simp [unesc, normStep, escStep]
        · rename_i ht hn hr
          have key : unesc (some q) .norm (c :: rest) = (unesc (some q) .norm rest).emit c := by
            simp only [unesc, normStep, if_neg hcb]
            rw [if_neg (by intro e; exact hcq (Option.some.inj e).symm)]
            rw [if_neg (by simp [hn])]
          split
          · exact unesc_hexEscape (some q) c rest
          · split
            · exact key
            · split
              · exact key
              · exact unesc_hexEscape (some q) c rest


/-- characters that survive the tokenizer's newline translation and the NUL check -/
def Safe (x : Char) : Prop := x ≠ '\r' ∧ x ≠ Char.ofNat 0

theorem Plain.safe {x : Char} (h : Plain x) : Safe x := by
  unfold Plain at h
  constructor
  · intro e; subst e; revert h; decide
  · intro e; subst e; revert h; decide

theorem safe_of_ge {x : Char} (h : 32 ≤ x.toNat) : Safe x := by
  constructor
  · intro e; subst e; revert h; decide
  · intro e; subst e; revert h; decide

theorem reprChar_safe (pr : Char → Bool) (q c : Char) (hq : q = '\'' ∨ q = '"') :
    ∀ x ∈ reprChar pr q c, Safe x := by
  intro x hx
  unfold reprChar at hx
  simp only at hx
  split at hx
  · rename_i h
    simp at hx
    rcases hx with rfl | rfl
    · exact safe_of_ge (by decide)
    · rcases h with h | h
      · subst h; rcases hq with rfl | rfl <;> exact safe_of_ge (by decide)
      · subst h; exact safe_of_ge (by decide)
  · split at hx
    · simp at hx; rcases hx with rfl | rfl <;> exact safe_of_ge (by decide)
    · split at hx
      · simp at hx; rcases hx with rfl | rfl <;> exact safe_of_ge (by decide)
      · split at hx
        · simp at hx; rcases hx with rfl | rfl <;> exact safe_of_ge (by decide)
        · split at hx
          · exact (hexEscape_plain _ x hx).safe
          · rename_i h
            split at hx
            · simp at hx; subst hx; exact safe_of_ge (by omega)
            · split at hx
              · simp at hx; subst hx; exact safe_of_ge (by omega)
              · exact (hexEscape_plain _ x hx).safe

theorem normNLAux_safe (s : Str) (h : ∀ x ∈ s, Safe x) : normNLAux false s = s := by
  induction s with
  | nil => rfl
  | cons c cs ih =>
    have hc := (h c (by simp)).1
    simp only [normNLAux, if_neg hc]
    rw [if_neg (by simp), ih (fun x hx => h x (by simp [hx]))]

theorem contains_false_of_ne (s : Str) (a : Char) (h : ∀ x ∈ s, x ≠ a) : s.contains a = false := by
  induction s with
  | nil => rfl
  | cons c cs ih =>
    simp only [List.contains_cons, Bool.or_eq_false_iff]
    constructor
    · have := h c (by simp); simp; exact fun e => this e.symm
    · exact ih (fun x hx => h x (by simp [hx]))

theorem reprQuote_cases (s : Str) : reprQuote s = '\'' ∨ reprQuote s = '"' := by
  unfold reprQuote; split <;> simp

theorem unesc_reprBody (pr : Char → Bool) (q : Char) (hq : q = '\'' ∨ q = '"') (s : Str) :
    unesc (some q) .norm (s.flatMap (reprChar pr q) ++ [q]) = .ok s := by
  induction s with
  | nil =>
    rcases hq with rfl | rfl <;> simp [unesc, normStep]
  | cons c cs ih =>
    rw [List.flatMap_cons, List.append_assoc, unesc_reprChar pr q c hq, ih]; rfl

/-- `safeEval(repr(s)) == s` for every string, whatever the Unicode database calls printable -/
theorem evalLit_pyRepr (pr : Char → Bool) (s : Str) : evalLit (pyRepr pr s) = .ok s := by
  have hq := reprQuote_cases s
  have hsafe : ∀ x ∈ s.flatMap (reprChar pr (reprQuote s)) ++ [reprQuote s], Safe x := by
    intro x hx
    rw [List.mem_append] at hx
    rcases hx with hx | hx
    · rw [List.mem_flatMap] at hx
      obtain ⟨c, _, hc⟩ := hx
      exact reprChar_safe pr _ c hq x hc
    · simp at hx; subst hx
      rcases hq with h | h <;> rw [h] <;> exact safe_of_ge (by decide)
  unfold pyRepr evalLit
  simp only
  have hiq : isQuote (reprQuote s) = true := by
    rcases hq with h | h <;> rw [h] <;> decide
  rw [if_neg (by simp [hiq])]
  rw [if_neg]
  · unfold normNL
    rw [normNLAux_safe _ hsafe]
    exact unesc_reprBody pr _ hq s
  · have : (reprQuote s :: (s.flatMap (reprChar pr (reprQuote s)) ++ [reprQuote s])).contains (Char.ofNat 0) = false := by
      apply contains_false_of_ne
      intro x hx
      simp only [List.mem_cons] at hx
      rcases hx with rfl | hx
      · rcases hq with h | h <;> rw [h] <;> decide
      · exact (hsafe x hx).2
    rw [this]; simp

/-! ### `String.set` undoes `String.__str__` -/


/-- what the String round trip needs from the extracted quote table -/
def QuotesOk (qs : Str) : Prop := qs.contains '\'' = true ∧ qs.contains '"' = true

theorem head_pyRepr (pr : Char → Bool) (s : Str) : (pyRepr pr s).head? = some (reprQuote s) := rfl

theorem getLast_pyRepr (pr : Char → Bool) (s : Str) : (pyRepr pr s).getLast? = some (reprQuote s) := by
  unfold pyRepr
  simp only
  rw [List.getLast?_cons, List.getLast?_append]
  simp

theorem evalLit_empty_quotes : evalLit ['"', '"'] = .ok [] := by decide

theorem strSet_strStr (hq : QuotesOk Gen.Registry.stringQuotes) (pr : Char → Bool) (v : Str) :
    strSet pr (strStr pr v) = .ok v := by
  unfold strSet strStr
  by_cases hn : needsQuoting v = true
  · rw [if_pos hn]
    unfold strSetText
    rw [head_pyRepr, getLast_pyRepr]
    simp only
    have hc : Gen.Registry.stringQuotes.contains (reprQuote v) = true := by
      rcases reprQuote_cases v with h | h <;> rw [h]
      · exact hq.1
      · exact hq.2
    rw [if_neg (by simp; exact List.contains_iff_mem.mp hc |> fun h => by simpa using h)]
    rw [evalLit_pyRepr]; rfl
  · rw [if_neg hn]
    unfold strSetText
    cases hh : v.head? with
    | none =>
      have : v = [] := by cases v <;> simp_all
      subst this
      rw [evalLit_empty_quotes]; rfl
    | some a =>
      cases hl : v.getLast? with
      | none => cases v <;> simp_all
      | some b =>
        simp only
        have : a ≠ b ∨ ¬ Gen.Registry.stringQuotes.contains a = true := by
          by_cases hab : a = b
          · right
            intro hc
            apply hn
            unfold needsQuoting
            rw [hh, hl]
            subst hab
            simp
            right
            simpa using hc
          · left; exact hab
        rw [if_pos this, evalLit_pyRepr]; rfl

end C15
