/-
C15 — lazy re-reading after a second `open_registry` in the same process (`Config reload`,
SIGHUP): `registry._lastModified` moves past every node's `_lastModified`, and from then on
`Value.__call__` of a node that has not been assigned since re-reads its text from `_cache`
(src/registry.py:546-550) — when the node is called, not before.

A layer over `Tree.lean`: the tree itself is unchanged; the layer records which nodes were
assigned (or created) since the last re-read.
-/
import LimnoriaModel.C15.Tree
namespace C15
open Py

def Where.same : Where → Where → Bool
  | .base, .base => true
  | .net a, .net b => keyEq a b
  | .chan a, .chan b => keyEq a b
  | .netChan a c, .netChan b d => keyEq a b && keyEq c d
  | _, _ => false

structure LSt (α : Type) where
  st : St α
  reread : Bool            -- some `open_registry` happened after the nodes were built
  fresh : List Where       -- nodes assigned or created since the last `open_registry`
deriving Repr

def LSt.isStale {α : Type} (s : LSt α) (w : Where) : Bool := s.reread && !(s.fresh.any (·.same w))

/-- full (escaped) name of a node -/
def whereName (B : Str) : Where → Str
  | .base => B
  | .net n => childName B (':' :: n)
  | .chan c => childName B c
  | .netChan n c => childName (childName B (':' :: n)) c

def Var.exists {α : Type} (x : Var α) : Where → Bool
  | .base => true
  | .net n => (findKey n x.nets).isSome
  | .chan c => (findKey c x.chans).isSome
  | .netChan n c => match findKey n x.nets with
    | some nv => (findKey c nv.chans).isSome
    | none => false

def Var.valueAt {α : Type} (x : Var α) : Where → Option α
  | .base => some x.value
  | .net n => (findKey n x.nets).map (·.value)
  | .chan c => (findKey c x.chans).map (·.value)
  | .netChan n c => (findKey n x.nets).bind fun nv => (findKey c nv.chans).map (·.value)

/-- the nodes an assignment at `w` also writes (`_setValue` pushes the value to unset children) -/
def Var.pushed {α : Type} (x : Var α) : Where → List Where
  | .base =>
    (x.chans.filter (fun kl => !kl.2.wasSet)).map (fun kl => Where.chan kl.1) ++
    (x.nets.filter (fun kn => !kn.2.wasSet)).flatMap fun kn =>
      Where.net kn.1 :: (kn.2.chans.filter (fun kl => !kl.2.wasSet)).map fun kl => Where.netChan kn.1 kl.1
  | .net n =>
    match findKey n x.nets with
    | some nv => (nv.chans.filter (fun kl => !kl.2.wasSet)).map fun kl => Where.netChan n kl.1
    | none => []
  | _ => []

/-- assign at an existing node and record what became fresh -/
def LSt.assign {α : Type} (s : LSt α) (w : Where) (v : α) (inherited : Bool) : LSt α :=
  { s with st := { s.st with var := s.st.var.assign w v inherited },
           fresh := w :: (s.st.var.pushed w ++ s.fresh) }

/-- `node()` on an existing node: a stale node whose name is in the cache is `set` from it first.
`none` = the cached text is rejected (InvalidRegistryValue leaves `__call__`) -/
def LSt.call {α : Type} (C : Cls α) (B : Str) (s : LSt α) (w : Where) : LSt α × Option α :=
  match s.st.var.valueAt w with
  | none => (s, none)
  | some cur =>
    if s.isStale w then
      match cacheGet s.st.cache (whereName B w) with
      | some raw =>
        (match C.set cur raw with
         | .ok v => (s.assign w v false, some v)
         | _ => (s, none))
      | none => (s, some cur)
    else (s, some cur)

/-- `parent.get(child)`: `str(parent)` is evaluated first, which for every class but the String
family goes through `parent()`; the child, when created, is fresh -/
def LSt.getChild {α : Type} (C : Cls α) (strCalls : Bool) (B : Str) (s : LSt α) (parent child : Where)
    (mk : St α → St α × Bool) : LSt α × Bool :=
  if s.st.var.exists child then (s, true)
  else
    let (s1, okp) := if strCalls then
        (match s.call C B parent with | (s', r) => (s', r.isSome))
      else (s, true)
    if ¬ okp then (s1, false)
    else
      match mk s1.st with
      | (st2, ok) =>
        ({ s1 with st := st2, fresh := if st2.var.exists child then child :: s1.fresh else s1.fresh }, ok)

def mkChan {α : Type} (C : Cls α) (B : Str) (c : Str) (st : St α) : St α × Bool :=
  match st.var.getChan C B st.cache c with
  | (x, r) => ({ st with var := x }, r.isSome)

def mkNet {α : Type} (C : Cls α) (B : Str) (n : Str) (st : St α) : St α × Bool :=
  match st.var.getNet C B st.cache n with
  | (x, r) => ({ st with var := x }, r.isSome)

def mkNetChan {α : Type} (C : Cls α) (B : Str) (n c : Str) (st : St α) : St α × Bool :=
  match st.var.getNetChan C B st.cache n c with
  | (x, r) => ({ st with var := x }, r.isSome)

/-- reach a node the way `group.get(...)` chains do -/
def LSt.reach {α : Type} (C : Cls α) (strCalls : Bool) (B : Str) (s : LSt α) : Where → LSt α × Bool
  | .base => (s, true)
  | .net n => s.getChild C strCalls B .base (.net n) (mkNet C B n)
  | .chan c => s.getChild C strCalls B .base (.chan c) (mkChan C B c)
  | .netChan n c =>
    match s.getChild C strCalls B .base (.net n) (mkNet C B n) with
    | (s1, false) => (s1, false)
    | (s1, true) => s1.getChild C strCalls B (.net n) (.netChan n c) (mkNetChan C B n c)

/-- the node `getSpecific` answers with, once the nodes on the path exist -/
def resultWhere {α : Type} (x : Var α) (network channel : Option Str) : Where :=
  match network, channel with
  | some n, some c =>
    (match findKey n x.nets with
     | some nv =>
       (match findKey c nv.chans with
        | some ncv => if nv.wasSet || ncv.wasSet then .netChan n c else .chan c
        | none => .chan c)
     | none => .chan c)
  | some n, none => .net n
  | none, some c => .chan c
  | none, none => .base

/-- `getSpecific(network, channel)()` -/
def LSt.getSpecific {α : Type} (C : Cls α) (strCalls : Bool) (K : Kind) (B : Str) (s : LSt α)
    (network channel : Option Str) (netOk chanOk : Bool) : LSt α × Out α :=
  if network.isSome ∧ ¬ K.netV then (s, .nonexistent)
  else if channel.isSome ∧ ¬ K.chanV then (s, .nonexistent)
  else
    let channel := if chanOk then channel else none
    let network := if netOk then network else none
    let path : List Where :=
      match network, channel with
      | some n, some c => [.netChan n c, .chan c]
      | some n, none => [.net n]
      | none, some c => [.chan c]
      | none, none => []
    let step (acc : LSt α × Bool) (w : Where) : LSt α × Bool :=
      if acc.2 then acc.1.reach C strCalls B w else acc
    match path.foldl step (s, true) with
    | (s1, false) => (s1, .invalid)
    | (s1, true) =>
      match s1.call C B (resultWhere s1.st.var network channel) with
      | (s2, some v) => (s2, .val v)
      | (s2, none) => (s2, .invalid)

/-- `<node>.set(text)` -/
def LSt.setText {α : Type} (C : Cls α) (strCalls : Bool) (B : Str) (s : LSt α) (w : Where) (text : Str) : LSt α × Out α :=
  match s.reach C strCalls B w with
  | (s1, false) => (s1, .invalid)
  | (s1, true) =>
    match s1.st.var.valueAt w with
    | none => (s1, .invalid)
    | some cur =>
      match C.set cur text with
      | .ok v => (s1.assign w v false, .done)
      | .error => (s1, .invalid)
      | .unm => (s1, .unm)

/-- `registry.open_registry(file)` in the running process: the assignments of the file go into the
cache (on top of what it held unless `clear`), every existing node becomes stale -/
def LSt.reopen {α : Type} (s : LSt α) (assignments : List (Str × Str)) (clear : Bool) : LSt α :=
  { st := { s.st with cache := assignments.foldl (fun c kv => cacheSet c kv.1 kv.2) (if clear then [] else s.st.cache) },
    reread := true, fresh := [] }

/-- the nodes `registry.close` lists, in its order -/
def Var.listed {α : Type} (x : Var α) : List Where :=
  let kids : List (Str × (Str ⊕ (Str × Net α))) :=
    sortKeys (x.chans.map (fun kl => (kl.1, Sum.inl kl.1)) ++ x.nets.map (fun kn => (':' :: kn.1, Sum.inr (kn.1, kn.2))))
  (if x.wasSet then [Where.base] else []) ++
    kids.flatMap fun kc =>
      match kc.2 with
      | .inl c => (match findKey c x.chans with | some l => if l.wasSet then [Where.chan c] else [] | none => [])
      | .inr (n, nv) =>
        (if nv.wasSet then [Where.net n] else []) ++
          (sortKeys nv.chans).flatMap fun kl => if kl.2.wasSet then [Where.netChan n kl.1] else []

/-- `registry.close`: every listed node is serialized in turn, which (outside the String family)
calls it; returns the `(name, value)` pairs written (`none`: a cached text was rejected) -/
def LSt.save {α : Type} (C : Cls α) (strCalls : Bool) (B : Str) (s : LSt α) : LSt α × List (Str × Option α) :=
  s.st.var.listed.foldl (fun acc w =>
      let (s1, r) : LSt α × Option α := if strCalls then acc.1.call C B w else (acc.1, acc.1.st.var.valueAt w)
      (s1, acc.2 ++ [(whereName B w, r)])) (s, [])

/-- `<node>.setValue(v)`; `r` = what the class's `setValue` makes of `v` -/
def LSt.setVal {α : Type} (C : Cls α) (strCalls : Bool) (B : Str) (s : LSt α) (w : Where) (r : SetRes α) : LSt α × Out α :=
  match s.reach C strCalls B w with
  | (s1, false) => (s1, .invalid)
  | (s1, true) =>
    match r with
    | .ok v => (s1.assign w v false, .done)
    | .error => (s1, .invalid)
    | .unm => (s1, .unm)

/-- `Config reset network <network>`: the general value is called first (so that a re-read file
takes effect), then copied -/
def LSt.resetNetwork {α : Type} (C : Cls α) (strCalls : Bool) (B : Str) (s : LSt α) (n : Str) : LSt α × Out α :=
  match s.reach C strCalls B (.net n) with
  | (s1, false) => (s1, .invalid)
  | (s1, true) =>
    match s1.call C B .base with
    | (s2, none) => (s2, .invalid)
    | (s2, some _) => (s2.assign (.net n) s2.st.var.value true, .done)

/-- `Config reset channel <network> <channel>` (`network = none` is the literal `*`) -/
def LSt.resetChannel {α : Type} (C : Cls α) (strCalls : Bool) (B : Str) (s : LSt α) (network : Option Str) (c : Str) :
    LSt α × Out α :=
  let step1 : LSt α × Bool :=
    match network with
    | none => (s, true)
    | some n =>
      (match s.reach C strCalls B (.netChan n c) with
       | (s1, false) => (s1, false)
       | (s1, true) =>
         (match s1.call C B (.net n) with
          | (s2, none) => (s2, false)
          | (s2, some _) =>
            (match s2.st.var.valueAt (.net n) with
             | some nvv => (s2.assign (.netChan n c) nvv true, true)
             | none => (s2, false))))
  match step1 with
  | (s1, false) => (s1, .invalid)
  | (s1, true) =>
    match s1.reach C strCalls B (.chan c) with
    | (s2, false) => (s2, .invalid)
    | (s2, true) =>
      match s2.call C B .base with
      | (s3, none) => (s3, .invalid)
      | (s3, some _) => (s3.assign (.chan c) s3.st.var.value true, .done)

/-! ### `registry.close` while other threads use the tree

`close` first builds the list of set nodes (`getValues`, no Python-level callbacks inside), then
serializes them one by one; a thread switch can happen between any two of those steps, so commands
of threaded plugins may assign or reset nodes in between.  `saveInterleaved` runs the operations
`ops[i]` just before the `i`-th listed node is written. -/

inductive TOp where
  | set (w : Where) (text : Str)
  | resetNet (n : Str)
  | resetChan (n : Option Str) (c : Str)
deriving Repr

def LSt.applyOp {α : Type} (C : Cls α) (strCalls : Bool) (B : Str) (s : LSt α) : TOp → LSt α
  | .set w text => (s.setText C strCalls B w text).1
  | .resetNet n => (s.resetNetwork C strCalls B n).1
  | .resetChan n c => (s.resetChannel C strCalls B n c).1

/-- the listed nodes with the operations that run before each is written -/
def LSt.saveInterleaved {α : Type} (C : Cls α) (strCalls : Bool) (B : Str) (s : LSt α) (ops : List (List TOp)) :
    LSt α × List (Str × Option α) :=
  (s.st.var.listed.zip (ops ++ List.replicate s.st.var.listed.length [])).foldl (fun acc wo =>
      let s0 := wo.2.foldl (fun st op => st.applyOp C strCalls B op) acc.1
      let (s1, r) : LSt α × Option α := if strCalls then s0.call C B wo.1 else (s0, s0.st.var.valueAt wo.1)
      (s1, acc.2 ++ [(whereName B wo.1, r)])) (s, [])

end C15
