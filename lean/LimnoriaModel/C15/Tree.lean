/-
C15 — the live value tree of one configuration variable (src/registry.py:331-550, src/conf.py:86-125,
plugins/Config/plugin.py:295-524): the general value, its lazily created `:network` and `#channel`
children and the `:network.#channel` grandchildren, `_wasSet`, `_setValue(v, inherited)`,
`_makeChild`, `getSpecific`, `Config reset`, `registry.close` (which nodes are written) and the
start-up registration that re-creates the children named in the loaded file.

The value type is abstract: a class is given by `set` (text → value or rejection), `str`
(`__str__`) and its default.
-/
import LimnoriaModel.C15.File
namespace C15
open Py

structure Cls (α : Type) where
  set : α → Str → SetRes α        -- `node.set(text)` on a node whose value is the first argument
  str : α → Str                   -- `str(node)`
  dflt : α                        -- the value right after `cls(default, help)`

/-- `registerGlobalValue` / `registerNetworkValue` / `registerChannelValue` flags -/
structure Kind where
  netV : Bool
  chanV : Bool
deriving DecidableEq, Repr

structure Leaf (α : Type) where
  value : α
  wasSet : Bool
deriving DecidableEq, Repr

structure Net (α : Type) where
  value : α
  wasSet : Bool
  chans : List (Str × Leaf α)
deriving DecidableEq, Repr

structure Var (α : Type) where
  value : α
  wasSet : Bool
  nets : List (Str × Net α)
  chans : List (Str × Leaf α)
deriving DecidableEq, Repr

/-- one variable of the running bot: its tree, and the raw `_cache` of the file read at start-up -/
structure St (α : Type) where
  var : Var α
  cache : Cache
deriving DecidableEq, Repr

/-! ### child dictionaries (`InsensitivePreservingDict`) -/

def keyEq (a b : Str) : Bool := asciiLower a = asciiLower b

def findKey {β : Type} (k : Str) : List (Str × β) → Option β
  | [] => none
  | (k', v) :: rest => if keyEq k' k then some v else findKey k rest

def updKey {β : Type} (k : Str) (f : β → β) : List (Str × β) → List (Str × β)
  | [] => []
  | (k', v) :: rest => if keyEq k' k then (k', f v) :: rest else (k', v) :: updKey k f rest

/-! ### `_setValue(v, inherited)` -/

def Leaf.setV {α : Type} (_l : Leaf α) (v : α) (inherited : Bool) : Leaf α := ⟨v, !inherited⟩

def Leaf.inherit {α : Type} (v : α) (l : Leaf α) : Leaf α := if l.wasSet then l else l.setV v true

def Net.setV {α : Type} (n : Net α) (v : α) (inherited : Bool) : Net α :=
  { value := v, wasSet := !inherited, chans := n.chans.map fun kl => (kl.1, kl.2.inherit v) }

def Net.inherit {α : Type} (v : α) (n : Net α) : Net α := if n.wasSet then n else n.setV v true

def Var.setV {α : Type} (x : Var α) (v : α) (inherited : Bool) : Var α :=
  { value := v, wasSet := !inherited,
    nets := x.nets.map fun kn => (kn.1, kn.2.inherit v),
    chans := x.chans.map fun kl => (kl.1, kl.2.inherit v) }

/-! ### `_makeChild` + `register` -/

/-- full (escaped) name of a child -/
def childName (parent child : Str) : Str := parent ++ '.' :: escapeName child

/-- outcome of `parent.get(attr)` for a missing child: `fail` — `v.set(str(parent))` raised, nothing
registered; `made x raised` — the child is registered; `raised` when its cached text was rejected
(the exception leaves `register`, the child stays, unset, with the inherited value). -/
inductive Mk (β : Type) where
  | fail
  | made (x : β) (raised : Bool)
deriving DecidableEq, Repr

/-- value and `_wasSet` of a freshly made child -/
def mkValue {α : Type} (C : Cls α) (cache : Cache) (full : Str) (parentVal : α) : Mk (α × Bool) :=
  match C.set C.dflt (C.str parentVal) with
  | .ok x =>
    (match cacheGet cache full with
     | none => .made (x, false) false
     | some raw =>
       (match C.set x raw with
        | .ok y => .made (y, true) false
        | _ => .made (x, false) true))
  | _ => .fail

/-! ### access paths -/

/-- result of an operation that may raise -/
inductive Out (α : Type) where
  | val (v : α)                 -- a value was produced
  | done                        -- no value to report
  | invalid                     -- InvalidRegistryValue
  | nonexistent                 -- NonExistentRegistryEntry
  | unm
deriving DecidableEq, Repr

/-- `base.get(c)` for a channel child: the tree afterwards and the node (none: raised) -/
def Var.getChan {α : Type} (C : Cls α) (B : Str) (cache : Cache) (x : Var α) (c : Str) :
    Var α × Option (Leaf α) :=
  match findKey c x.chans with
  | some l => (x, some l)
  | none =>
    match mkValue C cache (childName B c) x.value with
    | .fail => (x, none)
    | .made (v, w) raised =>
      let l : Leaf α := ⟨v, w⟩
      ({ x with chans := x.chans ++ [(c, l)] }, if raised then none else some l)

/-- `base.get(':' + n)` -/
def Var.getNet {α : Type} (C : Cls α) (B : Str) (cache : Cache) (x : Var α) (n : Str) :
    Var α × Option (Net α) :=
  match findKey n x.nets with
  | some nv => (x, some nv)
  | none =>
    match mkValue C cache (childName B (':' :: n)) x.value with
    | .fail => (x, none)
    | .made (v, w) raised =>
      let nv : Net α := ⟨v, w, []⟩
      ({ x with nets := x.nets ++ [(n, nv)] }, if raised then none else some nv)

/-- `netNode.get(c)` -/
def Net.getChan {α : Type} (C : Cls α) (NB : Str) (cache : Cache) (nv : Net α) (c : Str) :
    Net α × Option (Leaf α) :=
  match findKey c nv.chans with
  | some l => (nv, some l)
  | none =>
    match mkValue C cache (childName NB c) nv.value with
    | .fail => (nv, none)
    | .made (v, w) raised =>
      let l : Leaf α := ⟨v, w⟩
      ({ nv with chans := nv.chans ++ [(c, l)] }, if raised then none else some l)

/-- `base.get(':' + n).get(c)` -/
def Var.getNetChan {α : Type} (C : Cls α) (B : Str) (cache : Cache) (x : Var α) (n c : Str) :
    Var α × Option (Net α × Leaf α) :=
  match x.getNet C B cache n with
  | (x1, none) => (x1, none)
  | (x1, some nv) =>
    match nv.getChan C (childName B (':' :: n)) cache c with
    | (nv1, r) =>
      ({ x1 with nets := updKey n (fun _ => nv1) x1.nets }, r.map fun l => (nv1, l))

/-! ### `getSpecific(network, channel)()` -/

/-- `network` / `channel`: `none` when absent or empty; `netOk` = `world.getIrc(network)` is an Irc;
`chanOk` = `ircutils.isChannel(channel)` -/
def getSpecific {α : Type} (C : Cls α) (K : Kind) (B : Str) (s : St α)
    (network channel : Option Str) (netOk chanOk : Bool) : St α × Out α :=
  if network.isSome ∧ ¬ K.netV then (s, .nonexistent)
  else if channel.isSome ∧ ¬ K.chanV then (s, .nonexistent)
  else
    let channel := if chanOk then channel else none
    let network := if netOk then network else none
    match network, channel with
    | some n, some c =>
      (match s.var.getNetChan C B s.cache n c with
       | (x1, none) => ({ s with var := x1 }, .invalid)
       | (x1, some (nv, ncv)) =>
         (match x1.getChan C B s.cache c with
          | (x2, none) => ({ s with var := x2 }, .invalid)
          | (x2, some cv) =>
            ({ s with var := x2 },
             .val (if nv.wasSet || ncv.wasSet then ncv.value else cv.value))))
    | some n, none =>
      (match s.var.getNet C B s.cache n with
       | (x1, none) => ({ s with var := x1 }, .invalid)
       | (x1, some nv) => ({ s with var := x1 }, .val nv.value))
    | none, some c =>
      (match s.var.getChan C B s.cache c with
       | (x1, none) => ({ s with var := x1 }, .invalid)
       | (x1, some l) => ({ s with var := x1 }, .val l.value))
    | none, none => (s, .val s.var.value)

/-! ### setting (`Config config|network|channel`), `setValue`, `Config reset` -/

inductive Where where
  | base
  | net (n : Str)
  | chan (c : Str)
  | netChan (n c : Str)
deriving DecidableEq, Repr

/-- assign `v` at a node that exists (`node._setValue(v, inherited)`) -/
def Var.assign {α : Type} (x : Var α) (w : Where) (v : α) (inherited : Bool) : Var α :=
  match w with
  | .base => x.setV v inherited
  | .net n => { x with nets := updKey n (fun nv => nv.setV v inherited) x.nets }
  | .chan c => { x with chans := updKey c (fun l => l.setV v inherited) x.chans }
  | .netChan n c =>
    { x with nets := updKey n (fun nv => { nv with chans := updKey c (fun l => l.setV v inherited) nv.chans }) x.nets }

/-- reach the node (creating what `get` creates) and return its current value -/
def Var.reach {α : Type} (C : Cls α) (B : Str) (cache : Cache) (x : Var α) (w : Where) :
    Var α × Option α :=
  match w with
  | .base => (x, some x.value)
  | .net n => (match x.getNet C B cache n with | (x1, r) => (x1, r.map (·.value)))
  | .chan c => (match x.getChan C B cache c with | (x1, r) => (x1, r.map (·.value)))
  | .netChan n c => (match x.getNetChan C B cache n c with | (x1, r) => (x1, r.map (·.2.value)))

/-- `<node>.set(text)` -/
def setText {α : Type} (C : Cls α) (B : Str) (s : St α) (w : Where) (text : Str) : St α × Out α :=
  match s.var.reach C B s.cache w with
  | (x1, none) => ({ s with var := x1 }, .invalid)
  | (x1, some cur) =>
    match C.set cur text with
    | .ok v => ({ s with var := x1.assign w v false }, .done)
    | .error => ({ s with var := x1 }, .invalid)
    | .unm => ({ s with var := x1 }, .unm)

/-- `<node>.setValue(v)`; `r` is what the class's `setValue` makes of `v` (normalised value or rejection) -/
def setVal {α : Type} (C : Cls α) (B : Str) (s : St α) (w : Where) (r : SetRes α) : St α × Out α :=
  match s.var.reach C B s.cache w with
  | (x1, none) => ({ s with var := x1 }, .invalid)
  | (x1, some _) =>
    match r with
    | .ok v => ({ s with var := x1.assign w v false }, .done)
    | .error => ({ s with var := x1 }, .invalid)
    | .unm => ({ s with var := x1 }, .unm)

/-- `Config reset channel <network> <channel>` (`network = none` is the literal `*`) -/
def resetChannel {α : Type} (C : Cls α) (B : Str) (s : St α) (network : Option Str) (c : Str) :
    St α × Out α :=
  let step1 : Var α × Bool :=
    match network with
    | none => (s.var, true)
    | some n =>
      (match s.var.getNetChan C B s.cache n c with
       | (x1, none) => (x1, false)
       | (x1, some (nv, _)) => (x1.assign (.netChan n c) nv.value true, true))
  match step1 with
  | (x1, false) => ({ s with var := x1 }, .invalid)
  | (x1, true) =>
    match x1.getChan C B s.cache c with
    | (x2, none) => ({ s with var := x2 }, .invalid)
    | (x2, some _) => ({ s with var := x2.assign (.chan c) x2.value true }, .done)

/-- `Config reset network <network>` -/
def resetNetwork {α : Type} (C : Cls α) (B : Str) (s : St α) (n : Str) : St α × Out α :=
  match s.var.getNet C B s.cache n with
  | (x1, none) => ({ s with var := x1 }, .invalid)
  | (x1, some _) => ({ s with var := x1.assign (.net n) x1.value true }, .done)

/-! ### `registry.close`: which nodes are written -/

def strLe : Str → Str → Bool
  | [], _ => true
  | _ :: _, [] => false
  | a :: as, b :: bs => a.toNat < b.toNat || (a = b && strLe as bs)

def insertSorted {β : Type} (kv : Str × β) : List (Str × β) → List (Str × β)
  | [] => [kv]
  | x :: xs => if strLe kv.1 x.1 then kv :: x :: xs else x :: insertSorted kv xs

/-- `_added.sort()` -/
def sortKeys {β : Type} (l : List (Str × β)) : List (Str × β) := l.foldr insertSorted []

def Leaf.dump {α : Type} (full : Str) (l : Leaf α) : List (Str × α) :=
  if l.wasSet then [(full, l.value)] else []

def Net.dump {α : Type} (full : Str) (nv : Net α) : List (Str × α) :=
  (if nv.wasSet then [(full, nv.value)] else []) ++
    (sortKeys nv.chans).flatMap fun kl => kl.2.dump (childName full kl.1)

/-- `(name, value)` of every node `getValues(getChildren=True)` lists for this variable, in order -/
def Var.dump {α : Type} (B : Str) (x : Var α) : List (Str × α) :=
  let kids : List (Str × (Leaf α ⊕ Net α)) :=
    sortKeys (x.chans.map (fun kl => (kl.1, Sum.inl kl.2)) ++
              x.nets.map (fun kn => (':' :: kn.1, Sum.inr kn.2)))
  (if x.wasSet then [(B, x.value)] else []) ++
    kids.flatMap fun kc =>
      match kc.2 with
      | .inl l => l.dump (childName B kc.1)
      | .inr nv => nv.dump (childName B kc.1)

/-! ### start-up: `register` + `registerChannelValue` / `registerNetworkValue` -/

/-- `ircutils.isChannel(s)` with its default `chantypes` / `channellen` (extracted) -/
def isChannel (s : Str) : Bool :=
  match s with
  | [] => false
  | c :: _ =>
    !s.contains ',' && !s.contains (Char.ofNat 7) && Gen.Registry.chanTypes.contains c &&
      s.length ≤ Gen.Registry.chanLen && splitWs s == [s]

/-- the part of a cache key below the variable: `name[len(gname)+1:]` when
`name.lower().startswith(gname)` and it is longer -/
def keyRest (B key : Str) : Option Str :=
  if (asciiLower B).isPrefixOf (asciiLower key) ∧ B.length < key.length then some (key.drop (B.length + 1))
  else none

inductive Eager (α : Type) where
  | cont (x : Var α)
  | raised                      -- InvalidRegistryValue leaves the registration
  | unm                         -- `registry.split` of the key is outside the model
deriving DecidableEq, Repr

/-- the children a cache key makes `registerChannelValue` / `registerNetworkValue` instantiate -/
def eagerStep {α : Type} (C : Cls α) (K : Kind) (B : Str) (cache : Cache) (x : Var α) (key : Str) :
    Eager α :=
  match keyRest B key with
  | none => .cont x
  | some rest =>
    match splitName rest with
    | none => .unm
    | some parts =>
      match parts with
      | [p] =>
        if K.chanV ∧ p ≠ [] ∧ isChannel p then
          (match x.getChan C B cache p with
           | (x1, some _) => .cont x1
           | (_, none) => .raised)
        else if p.head? = some ':' then
          (match x.getNet C B cache (p.drop 1) with
           | (x1, some _) => .cont x1
           | (_, none) => .raised)
        else .cont x
      | [p, c] =>
        if K.chanV ∧ p.head? = some ':' ∧ c ≠ [] ∧ isChannel c then
          (match x.getNetChan C B cache (p.drop 1) c with
           | (x1, some _) => .cont x1
           | (_, none) => .raised)
        else .cont x
      | _ => .cont x

def eagerLoop {α : Type} (C : Cls α) (K : Kind) (B : Str) (cache : Cache) : Var α → List Str → Eager α
  | x, [] => .cont x
  | x, key :: keys =>
    match eagerStep C K B cache x key with
    | .cont x1 => eagerLoop C K B cache x1 keys
    | r => r

inductive Boot (α : Type) where
  | up (s : St α)
  | refused                    -- the stored text of the variable itself is rejected: the bot does not start
  | unm
deriving DecidableEq, Repr

/-- a fresh process reading `cache`: `group.register(name, cls(default))` then the eager loop -/
def boot {α : Type} (C : Cls α) (K : Kind) (B : Str) (cache : Cache) : Boot α :=
  let v0 : SetRes α :=
    match cacheGet cache B with
    | none => .ok C.dflt
    | some raw => C.set C.dflt raw
  match v0 with
  | .error => .refused
  | .unm => .unm
  | .ok v =>
    let x0 : Var α := ⟨v, true, [], []⟩
    if ¬ (K.netV ∨ K.chanV) then .up ⟨x0, cache⟩ else
    match eagerLoop C K B cache x0 (cache.map (·.1)) with
    | .cont x => .up ⟨x, cache⟩
    | .raised => .refused
    | .unm => .unm

end C15
