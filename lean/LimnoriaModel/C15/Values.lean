/-
C15 — the value classes of src/registry.py: `set` (text → value, may reject), `setValue`
(normalisation / range checks), `__str__`, `serialize`.
-/
import LimnoriaModel.C15.Codec
import LimnoriaModel.Gen.Registry
namespace C15
open Py

/-- result of `Value.set(text)` / `setValue(v)`:
`ok v` — accepted, new value `v`; `error` — `InvalidRegistryValue` raised (nothing assigned);
`unm` — the text leaves the modelled fragment (see `Codec.evalLit`). -/
inductive SetRes (α : Type) where
  | ok (v : α)
  | error
  | unm
deriving DecidableEq, Repr

def SetRes.bind {α β : Type} (r : SetRes α) (f : α → SetRes β) : SetRes β :=
  match r with
  | .ok v => f v
  | .error => .error
  | .unm => .unm

def Res.toSet : Res → SetRes Str
  | .ok s => .ok s
  | .bad => .error
  | .unm => .unm

/-! ### String -/

def lstrip (s : Str) : Str := lstripP isSpace s
def rstrip (s : Str) : Str := rstripP isSpace s

/-- `String._needsQuoting` (after the C15 fix: also when the text would be taken for a quoted
literal by `String.set`) -/
def needsQuoting (s : Str) : Bool :=
  (s.any (fun c => !Gen.Registry.stringPrintable.contains c) && strip s != s) ||
  (match s.head?, s.getLast? with
   | some a, some b => a == b && Gen.Registry.stringQuotes.contains a
   | _, _ => false)

/-- `String.__str__` -/
def strStr (pr : Char → Bool) (v : Str) : Str :=
  if needsQuoting v then pyRepr pr v else v

/-- the text handed to `safeEval` by `String.set` -/
def strSetText (pr : Char → Bool) (s : Str) : Str :=
  match s.head?, s.getLast? with
  | some a, some b =>
    if a ≠ b ∨ ¬ Gen.Registry.stringQuotes.contains a then pyRepr pr s else s
  | _, _ => ['"', '"']

/-- `String.set(s)` up to the call of `self.setValue` -/
def strSet (pr : Char → Bool) (s : Str) : SetRes Str := (evalLit (strSetText pr s)).toSet

/-- `StringSurroundedBySpaces.setValue` -/
def surroundSV (v : Str) : Str :=
  let v1 := if v ≠ [] ∧ lstrip v = v then ' ' :: v else v
  if rstrip v1 = v1 then v1 ++ [' '] else v1

/-- `StringWithSpaceOnRight.setValue` -/
def spaceRightSV (v : Str) : Str :=
  if v ≠ [] ∧ rstrip v = v then v ++ [' '] else v

/-- split at every character satisfying `p` (like `re.split('[..]', s)`) -/
def splitP (p : Char → Bool) : Str → List Str
  | [] => [[]]
  | x :: xs =>
    if p x then [] :: splitP p xs
    else match splitP p xs with
      | [] => [[x]]
      | q :: qs => (x :: q) :: qs

/-- `' '.join(filter(bool, <split at p>))` -/
def collapse (p : Char → Bool) (s : Str) : Str :=
  joinChar ' ' ((splitP p s).filter (fun x => !x.isEmpty))

/-- `utils.str.normalizeWhitespace(s)` -/
def normalizeWhitespace (s : Str) : Str :=
  match s.head?, s.getLast? with
  | some a, some b =>
    let edge := Gen.Registry.nwEdgeBlanks
    let s1 := collapse (fun c => c = '\r' || c = '\n') s
    let s2 := collapse (fun c => c = '\t') s1
    let s3 := collapse (fun c => c = ' ') s2
    let s4 := if edge.contains a then ' ' :: s3 else s3
    if edge.contains b then s4 ++ [' '] else s4
  | _, _ => []

/-- `NormalizedString.normalize` -/
def normalizeNS (s : Str) : Str := normalizeWhitespace (strip s)

inductive StrClass where
  | plain | surrounded | spaceRight | normalized
deriving DecidableEq, Repr

def StrClass.setValue : StrClass → Str → Str
  | .plain, v => v
  | .surrounded, v => surroundSV v
  | .spaceRight, v => spaceRightSV v
  | .normalized, v => normalizeNS v

/-- `<class>.set(s)`: the new value, or the rejection -/
def StrClass.set (k : StrClass) (pr : Char → Bool) (s : Str) : SetRes Str :=
  let s' := if k = .normalized then normalizeNS s else s
  (strSet pr s').bind fun v => .ok (k.setValue v)

/-- `Value.serialize` for the String family except NormalizedString -/
def strSerialize (pr : Char → Bool) (v : Str) : Str := encodeUE (strStr pr v)

/-! ### Boolean -/

/-- `utils.str.toBool`; `none` = ValueError -/
def toBool (s : Str) : Option Bool :=
  let w := asciiLower (strip s)
  if Gen.Registry.toBoolTrue.contains w then some true
  else if Gen.Registry.toBoolFalse.contains w then some false
  else none

def boolSet (cur : Bool) (s : Str) : SetRes Bool :=
  match toBool s with
  | some b => .ok b
  | none => if asciiLower (strip s) = Gen.Registry.toggleWord then .ok (!cur) else .error

/-- `repr(True)` / `repr(False)` -/
def boolStr (b : Bool) : Str := if b then "True".toList else "False".toList

/-! ### Integer family -/

/-- the blanks `int()` strips from an ASCII string -/
def isIntBlank (c : Char) : Bool := (9 ≤ c.toNat && c.toNat ≤ 13) || c.toNat = 32

/-- digits with single underscores between them; the Bool says "previous character was a digit" -/
def digitsVal : Bool → Nat → Str → Option Nat
  | prevDigit, acc, [] => if prevDigit then some acc else none
  | prevDigit, acc, c :: cs =>
    if isDigit c then digitsVal true (acc * 10 + (c.toNat - 48)) cs
    else if c = '_' ∧ prevDigit then digitsVal false acc cs
    else none

/-- `int(s)` for an ASCII `s`; `none` = ValueError -/
def pyIntAscii (s : Str) : Option Int :=
  let t := rstripP isIntBlank (lstripP isIntBlank s)
  match t with
  | '-' :: ds => (digitsVal false 0 ds).map fun n => - (Int.ofNat n)
  | '+' :: ds => (digitsVal false 0 ds).map Int.ofNat
  | ds => (digitsVal false 0 ds).map Int.ofNat

/-- `_PyUnicode_TransformDecimalAndSpaceToASCII` on one character: ASCII stays, a Unicode blank
becomes a space, a Unicode decimal digit its ASCII digit (table extracted from the interpreter),
anything else `?` -/
def toAsciiDigit (c : Char) : Char :=
  let n := c.toNat
  if n < 127 then c
  else if isSpace c then ' '
  else match Gen.Registry.decimalZeros.find? (fun z => z ≤ n && n < z + 10) with
    | some z => Char.ofNat (48 + (n - z))
    | none => '?'

/-- `int(s)`; `none` = ValueError -/
def pyInt (s : Str) : Option Int :=
  if s.all (fun c => c.toNat < 128) then pyIntAscii s else pyIntAscii (s.map toAsciiDigit)

inductive IntClass where
  | any | nonNeg | pos
deriving DecidableEq, Repr

/-- `setValue` of Integer / NonNegativeInteger / PositiveInteger -/
def IntClass.setValue : IntClass → Int → SetRes Int
  | .any, v => .ok v
  | .nonNeg, v => if v < 0 then .error else .ok v
  | .pos, v => if v = 0 then .error else if v < 0 then .error else .ok v

/-- texts outside the modelled fragment of `int()`: more digits than
`sys.get_int_max_str_digits()` tolerates -/
def intUnmodelled (s : Str) : Bool := 4000 < s.length

def IntClass.set (k : IntClass) (s : Str) : SetRes Int :=
  if intUnmodelled s then .unm else
  match pyInt s with
  | some v => k.setValue v
  | none => .error

/-- `conf.SocketTimeout.setValue(v)`: a validator whose verdict depends on ANOTHER variable,
`supybot.drivers.poll` (a float, given exactly as `pn / pd`, `pd > 0`): rejected when `v < poll` or
`v < 1`, before anything is stored; otherwise `PositiveInteger.setValue`. -/
def socketTimeoutSetValue (pn pd : Nat) (v : Int) : SetRes Int :=
  if v * (pd : Int) < (pn : Int) ∨ v < 1 then .error else IntClass.pos.setValue v

/-- `SocketTimeout.set(s)` (= `Integer.set`: `self.setValue(int(s))`) -/
def socketTimeoutSet (pn pd : Nat) (s : Str) : SetRes Int :=
  if intUnmodelled s then .unm else
  match pyInt s with
  | some v => socketTimeoutSetValue pn pd v
  | none => .error

def digitChar (d : Nat) : Char := Char.ofNat (48 + d)

/-- decimal digits, least significant first (`fuel` > number of digits) -/
def natDigitsRev : Nat → Nat → Str
  | 0, _ => []
  | f + 1, n => digitChar (n % 10) :: (if n / 10 = 0 then [] else natDigitsRev f (n / 10))

/-- `repr(n)` for a natural number -/
def natStr (n : Nat) : Str := (natDigitsRev (n + 1) n).reverse

/-- `repr(int)` -/
def intStr (v : Int) : Str :=
  match v with
  | .ofNat n => natStr n
  | .negSucc n => '-' :: natStr (n + 1)

/-! ### lists -/

inductive ListClass where
  | space | comma
deriving DecidableEq, Repr

/-- pieces of `re.split(r'\s*,\s*', s)` given the pieces of `s.split(',')`: blanks next to a comma
belong to the separator -/
def commaPieces : Bool → List Str → List Str
  | _, [] => []
  | first, [p] => [if first then p else lstrip p]
  | first, p :: ps => rstrip (if first then p else lstrip p) :: commaPieces false ps

def ListClass.splitter : ListClass → Str → List Str
  | .space, s => splitWs s
  | .comma, s => (commaPieces true (splitChar ',' (strip s))).filter (fun x => !x.isEmpty)

/-- `SeparatedListOf.setValue(v)`: an item its own list syntax would split or alter is refused -/
def ListClass.setValue (k : ListClass) (xs : List Str) : SetRes (List Str) :=
  if xs.all (fun x => k.splitter x == [x]) then .ok xs else .error

/-- `SeparatedListOf.set(s)`: every piece goes through `String(piece, '')()`, which is the piece -/
def ListClass.set (k : ListClass) (s : Str) : SetRes (List Str) := k.setValue (k.splitter s)

def ListClass.joiner : ListClass → List Str → Str
  | .space, xs => joinStr Gen.Registry.spaceJoin xs
  | .comma, xs => joinStr Gen.Registry.commaJoin xs

/-- `SeparatedListOf.__str__` -/
def ListClass.str (k : ListClass) (xs : List Str) : Str :=
  if xs.isEmpty then Gen.Registry.emptyListStr else k.joiner xs

end C15
