/-
C15 — NormalizedString: normal forms, `normalize` is idempotent, `repr` keeps the normal form.
-/
import LimnoriaModel.C15.Lemmas
namespace C15
open Py






/-! ### NormalizedString: normal forms -/

theorem splitP_no (p : Char → Bool) (a : Str) (h : ∀ x ∈ a, p x = false) : splitP p a = [a] := by
  induction a with
  | nil => rfl
  | cons x xs ih =>
    have hx := h x (by simp)
    simp only [splitP, hx, Bool.false_eq_true, if_false, ih (fun y hy => h y (by simp [hy]))]

theorem splitP_append (p : Char → Bool) (a rest : Str) (c : Char) (hc : p c = true) (h : ∀ x ∈ a, p x = false) :
    splitP p (a ++ c :: rest) = a :: splitP p rest := by
  induction a with
  | nil => simp [splitP, hc]
  | cons x xs ih =>
    have hx := h x (by simp)
    simp only [List.cons_append, splitP, hx, Bool.false_eq_true, if_false, ih (fun y hy => h y (by simp [hy]))]

/-- the pieces of `splitP` contain no separator -/
theorem splitP_pieces (p : Char → Bool) (s : Str) : ∀ w ∈ splitP p s, ∀ c ∈ w, p c = false := by
  induction s with
  | nil => intro w hw c hc; simp [splitP] at hw; subst hw; simp at hc
  | cons x xs ih =>
    intro w hw c hc
    simp only [splitP] at hw
    split at hw
    · simp only [List.mem_cons] at hw
      rcases hw with rfl | hw
      · simp at hc
      · exact ih w hw c hc
    · rename_i hx
      cases hsp : splitP p xs with
      | nil =>
        rw [hsp] at hw; simp at hw; subst hw
        simp at hc; subst hc; simpa using hx
      | cons q qs =>
        rw [hsp] at hw ih
        simp only [List.mem_cons] at hw
        rcases hw with rfl | hw
        · simp only [List.mem_cons] at hc
          rcases hc with rfl | hc
          · simpa using hx
          · exact ih q (by simp) c hc
        · exact ih w (by simp [hw]) c hc

/-- words: non-empty, free of the characters in `sep` -/
def Words (sep : Char → Bool) (ws : List Str) : Prop := ∀ w ∈ ws, w ≠ [] ∧ ∀ c ∈ w, sep c = false

theorem splitP_join (p : Char → Bool) (hp : p ' ' = true) (ws : List Str) (hw : Words p ws) (hne : ws ≠ []) :
    splitP p (joinChar ' ' ws) = ws := by
  induction ws with
  | nil => exact absurd rfl hne
  | cons w rest ih =>
    cases rest with
    | nil => simp only [joinChar]; exact splitP_no p w (hw w (by simp)).2
    | cons w2 rest2 =>
      simp only [joinChar]
      rw [splitP_append p w _ ' ' hp (hw w (by simp)).2]
      have := ih (fun x hx => hw x (by simp [hx])) (by simp)
      rw [this]

theorem filter_words (p : Char → Bool) (ws : List Str) (hw : Words p ws) :
    ws.filter (fun x => !x.isEmpty) = ws := by
  rw [List.filter_eq_self]
  intro w hwm
  have := (hw w hwm).1
  cases w with
  | nil => exact absurd rfl this
  | cons a as => rfl

/-- `collapse` is the identity on words joined by single blanks -/
theorem collapse_join (p : Char → Bool) (hp : p ' ' = true) (ws : List Str) (hw : Words p ws) :
    collapse p (joinChar ' ' ws) = joinChar ' ' ws := by
  unfold collapse
  cases ws with
  | nil => rfl
  | cons w rest =>
    rw [splitP_join p hp _ hw (by simp), filter_words p _ hw]

/-- the pieces `collapse` joins are words -/
theorem collapse_words (p : Char → Bool) (s : Str) : Words p ((splitP p s).filter (fun x => !x.isEmpty)) := by
  intro w hw
  rw [List.mem_filter] at hw
  refine ⟨?_, splitP_pieces p s w hw.1⟩
  intro e; subst e; simp at hw



def blank4 (c : Char) : Bool := c = ' ' || c = '\n' || c = '\t' || c = '\r'

theorem blank4_isSpace {c : Char} (h : isSpace c = false) : blank4 c = false := by
  unfold blank4
  have h1 : c ≠ ' ' := by intro e; subst e; revert h; decide
  have h2 : c ≠ '\n' := by intro e; subst e; revert h; decide
  have h3 : c ≠ '\t' := by intro e; subst e; revert h; decide
  have h4 : c ≠ '\r' := by intro e; subst e; revert h; decide
  simp [h1, h2, h3, h4]

/-- a normalised text: words free of blank, TAB, CR, LF joined by single blanks, and no Unicode
blank at either end -/
def Norm (y : Str) : Prop :=
  (∃ ws, Words blank4 ws ∧ y = joinChar ' ' ws) ∧
  (∀ c, y.head? = some c → isSpace c = false) ∧ (∀ c, y.getLast? = some c → isSpace c = false)

theorem mem_joinChar (ws : List Str) (c : Char) (h : c ∈ joinChar ' ' ws) : c = ' ' ∨ ∃ w ∈ ws, c ∈ w := by
  induction ws with
  | nil => simp [joinChar] at h
  | cons w rest ih =>
    cases rest with
    | nil => simp only [joinChar] at h; exact Or.inr ⟨w, by simp, h⟩
    | cons w2 r2 =>
      simp only [joinChar, List.mem_append, List.mem_cons] at h
      rcases h with h | h | h
      · exact Or.inr ⟨w, by simp, h⟩
      · exact Or.inl h
      · rcases ih h with h' | ⟨x, hx, hc⟩
        · exact Or.inl h'
        · exact Or.inr ⟨x, by simp [hx], hc⟩

theorem Words.mono {p q : Char → Bool} (h : ∀ c, p c = false → q c = false) {ws : List Str} (hw : Words p ws) : Words q ws :=
  fun w hwm => ⟨(hw w hwm).1, fun c hc => h c ((hw w hwm).2 c hc)⟩

theorem collapse_id_of_free (p : Char → Bool) (y : Str) (h : ∀ c ∈ y, p c = false) : collapse p y = y := by
  unfold collapse
  rw [splitP_no p y h]
  cases y with
  | nil => rfl
  | cons a as => rfl

theorem normalizeWhitespace_norm (hedge : Gen.Registry.nwEdgeBlanks = [' ', '\n', '\t', '\r']) (y : Str) (h : Norm y) :
    normalizeWhitespace y = y := by
  obtain ⟨⟨ws, hw, hy⟩, hhead, hlast⟩ := h
  unfold normalizeWhitespace
  cases hh : y.head? with
  | none => cases y <;> simp_all
  | some a =>
    cases hl : y.getLast? with
    | none => cases y <;> simp_all
    | some b =>
      simp only
      have hfree : ∀ c ∈ y, (c = '\r' || c = '\n') = false ∧ (c = '\t') = false := by
        intro c hc
        rw [hy] at hc
        rcases mem_joinChar ws c hc with rfl | ⟨w, hwm, hcw⟩
        · decide
        · have := (hw w hwm).2 c hcw
          unfold blank4 at this
          simp at this
          simp [this]
      rw [collapse_id_of_free _ y (fun c hc => (hfree c hc).1)]
      rw [collapse_id_of_free _ y (fun c hc => by simpa using (hfree c hc).2)]
      have h3 : collapse (fun c => c = ' ') y = y := by
        rw [hy]
        exact collapse_join _ (by simp) ws (Words.mono (by intro c hc; unfold blank4 at hc; simp at hc; simp [hc.1.1.1]) hw)
      rw [h3, hedge]
      have ha : blank4 a = false := blank4_isSpace (hhead a hh)
      have hb : blank4 b = false := blank4_isSpace (hlast b hl)
      unfold blank4 at ha hb
      simp at ha hb
      simp [ha, hb]

theorem normalizeNS_norm (hedge : Gen.Registry.nwEdgeBlanks = [' ', '\n', '\t', '\r']) (y : Str) (h : Norm y) :
    normalizeNS y = y := by
  unfold normalizeNS strip
  rw [lstripP_id _ _ h.2.1, rstripP_id _ _ h.2.2]
  exact normalizeWhitespace_norm hedge y h



theorem splitP_ne_nil (p : Char → Bool) (s : Str) : splitP p s ≠ [] := by
  cases s with
  | nil => simp [splitP]
  | cons x xs =>
    simp only [splitP]
    split
    · simp
    · split <;> simp

theorem splitP_sub (p : Char → Bool) (s : Str) : ∀ w ∈ splitP p s, ∀ c ∈ w, c ∈ s := by
  induction s with
  | nil => intro w hw c hc; simp [splitP] at hw; subst hw; simp at hc
  | cons x xs ih =>
    intro w hw c hc
    simp only [splitP] at hw
    split at hw
    · simp only [List.mem_cons] at hw
      rcases hw with rfl | hw
      · simp at hc
      · exact List.mem_cons_of_mem _ (ih w hw c hc)
    · cases hsp : splitP p xs with
      | nil => exact absurd hsp (splitP_ne_nil p xs)
      | cons q qs =>
        rw [hsp] at hw ih
        simp only [List.mem_cons] at hw
        rcases hw with rfl | hw
        · simp only [List.mem_cons] at hc
          rcases hc with rfl | hc
          · simp
          · exact List.mem_cons_of_mem _ (ih q (by simp) c hc)
        · exact List.mem_cons_of_mem _ (ih w (by simp [hw]) c hc)

/-- the characters of `collapse p s`: blanks, and characters of `s` that are not separators -/
theorem mem_collapse (p : Char → Bool) (s : Str) (c : Char) (h : c ∈ collapse p s) : c = ' ' ∨ (c ∈ s ∧ p c = false) := by
  unfold collapse at h
  rcases mem_joinChar _ c h with rfl | ⟨w, hw, hc⟩
  · exact Or.inl rfl
  · rw [List.mem_filter] at hw
    exact Or.inr ⟨splitP_sub p s w hw.1 c hc, splitP_pieces p s w hw.1 c hc⟩

theorem joinChar_head (w : Str) (rest : List Str) (a : Char) (as : Str) (hw : w = a :: as) :
    (joinChar ' ' (w :: rest)).head? = some a := by
  subst hw
  cases rest <;> simp [joinChar]

theorem collapse_head (p : Char → Bool) (a : Char) (r : Str) (ha : p a = false) :
    (collapse p (a :: r)).head? = some a := by
  unfold collapse
  simp only [splitP, ha, Bool.false_eq_true, if_false]
  cases hsp : splitP p r with
  | nil => exact absurd hsp (splitP_ne_nil p r)
  | cons q qs =>
    simp only [List.filter, List.isEmpty_cons, Bool.not_false]
    exact joinChar_head _ _ a q rfl

theorem joinChar_getLast (xs : List Str) (q : Str) (b : Char) (hq : q.getLast? = some b) :
    (joinChar ' ' (xs ++ [q])).getLast? = some b := by
  induction xs with
  | nil => simpa [joinChar] using hq
  | cons x rest ih =>
    cases hr : rest ++ [q] with
    | nil => simp at hr
    | cons y ys =>
      simp only [List.cons_append, hr, joinChar]
      rw [hr] at ih
      rw [List.getLast?_append]
      have hne : joinChar ' ' (y :: ys) ≠ [] := by
        intro e; rw [e] at ih; simp at ih
      cases hj : joinChar ' ' (y :: ys) with
      | nil => exact absurd hj hne
      | cons j0 jr =>
        rw [hj] at ih
        rw [List.getLast?_cons_cons, ih]
        rfl

theorem splitP_last (p : Char → Bool) (b : Char) (hb : p b = false) : ∀ s : Str, s.getLast? = some b →
    ∃ init q, splitP p s = init ++ [q] ∧ q.getLast? = some b := by
  intro s
  induction s with
  | nil => intro h; simp at h
  | cons x xs ih =>
    intro h
    cases xs with
    | nil =>
      simp at h; subst h
      exact ⟨[], [x], by simp [splitP, hb], by simp⟩
    | cons y r =>
      rw [List.getLast?_cons_cons] at h
      obtain ⟨init, q, hs, hq⟩ := ih h
      simp only [splitP] at hs ⊢
      by_cases hx : p x = true
      · rw [if_pos hx]
        exact ⟨[] :: init, q, by rw [hs]; simp, hq⟩
      · rw [if_neg hx, hs]
        cases init with
        | nil =>
          refine ⟨[], x :: q, by simp, ?_⟩
          cases q with
          | nil => simp at hq
          | cons q0 qr => rw [List.getLast?_cons_cons]; exact hq
        | cons i0 ir => exact ⟨(x :: i0) :: ir, q, by simp, hq⟩

theorem collapse_last (p : Char → Bool) (s : Str) (b : Char) (hl : s.getLast? = some b) (hb : p b = false) :
    (collapse p s).getLast? = some b := by
  obtain ⟨init, q, hs, hq⟩ := splitP_last p b hb s hl
  unfold collapse
  rw [hs, List.filter_append]
  have hqne : q.isEmpty = false := by cases q <;> simp_all
  simp only [List.filter, hqne, Bool.not_false]
  exact joinChar_getLast _ q b hq



theorem dropWhile_head_not {α : Type} (p : α → Bool) (l : List α) (c : α) (h : (l.dropWhile p).head? = some c) : p c = false := by
  induction l with
  | nil => simp at h
  | cons a as ih =>
    simp only [List.dropWhile] at h
    split at h
    · exact ih h
    · rename_i hp; simp at h; subst h; simpa using hp

theorem rstripP_last (p : Char → Bool) (s : Str) (c : Char) (h : (rstripP p s).getLast? = some c) : p c = false := by
  unfold rstripP at h
  rw [List.getLast?_reverse] at h
  exact dropWhile_head_not p _ c h

theorem dropWhile_suffix' {α : Type} (p : α → Bool) (l : List α) : ∃ pre, l = pre ++ l.dropWhile p := by
  induction l with
  | nil => exact ⟨[], rfl⟩
  | cons a as ih =>
    simp only [List.dropWhile]
    split
    · obtain ⟨pre, h⟩ := ih; exact ⟨a :: pre, by rw [List.cons_append, ← h]⟩
    · exact ⟨[], rfl⟩

theorem rstripP_prefix (p : Char → Bool) (s : Str) : ∃ suf, s = rstripP p s ++ suf := by
  unfold rstripP
  obtain ⟨pre, h⟩ := dropWhile_suffix' p s.reverse
  refine ⟨pre.reverse, ?_⟩
  have := congrArg List.reverse h
  simp only [List.reverse_reverse, List.reverse_append] at this
  exact this

theorem rstripP_head (p : Char → Bool) (s : Str) (c : Char) (h : (rstripP p s).head? = some c) : s.head? = some c := by
  obtain ⟨suf, hs⟩ := rstripP_prefix p s
  rw [hs]
  cases hr : rstripP p s with
  | nil => rw [hr] at h; simp at h
  | cons a as => rw [hr] at h; simp at h ⊢; exact h

theorem strip_head (v : Str) (c : Char) (h : (strip v).head? = some c) : isSpace c = false := by
  unfold strip at h
  exact dropWhile_head_not isSpace v c (rstripP_head isSpace _ c h)

theorem strip_last (v : Str) (c : Char) (h : (strip v).getLast? = some c) : isSpace c = false :=
  rstripP_last isSpace _ c h

theorem not_blank4_of {c : Char} (h : blank4 c = false) :
    (c = '\r' || c = '\n') = false ∧ (c = '\t') = false ∧ (c = ' ') = false := by
  unfold blank4 at h; simp at h; simp [h]

/-- whatever the input, `NormalizedString.normalize` produces a normalised text -/
theorem norm_normalizeNS (hedge : Gen.Registry.nwEdgeBlanks = [' ', '\n', '\t', '\r']) (v : Str) : Norm (normalizeNS v) := by
  unfold normalizeNS normalizeWhitespace
  cases hh : (strip v).head? with
  | none =>
    simp only
    exact ⟨⟨[], by intro w hw; simp at hw, rfl⟩, by simp, by simp⟩
  | some a =>
    cases hl : (strip v).getLast? with
    | none => cases hs : strip v <;> simp_all
    | some b =>
      simp only
      have ha := not_blank4_of (blank4_isSpace (strip_head v a hh))
      have hb := not_blank4_of (blank4_isSpace (strip_last v b hl))
      obtain ⟨r, hr⟩ : ∃ r, strip v = a :: r := by
        cases hs : strip v with
        | nil => rw [hs] at hh; simp at hh
        | cons x xs => rw [hs] at hh; simp at hh; subst hh; exact ⟨xs, rfl⟩
      -- the three passes
      let s1 := collapse (fun c => c = '\r' || c = '\n') (strip v)
      let s2 := collapse (fun c => c = '\t') s1
      let s3 := collapse (fun c => c = ' ') s2
      have h1head : s1.head? = some a := by
        show (collapse _ (strip v)).head? = some a
        rw [hr]; exact collapse_head _ a r ha.1
      have h1last : s1.getLast? = some b := collapse_last _ _ b hl hb.1
      obtain ⟨r1, hr1⟩ : ∃ r1, s1 = a :: r1 := by
        cases hs : s1 with
        | nil => rw [hs] at h1head; simp at h1head
        | cons x xs => rw [hs] at h1head; simp at h1head; subst h1head; exact ⟨xs, rfl⟩
      have h2head : s2.head? = some a := by
        show (collapse _ s1).head? = some a
        rw [hr1]; exact collapse_head _ a r1 (by simpa using ha.2.1)
      have h2last : s2.getLast? = some b := collapse_last _ _ b h1last (by simpa using hb.2.1)
      obtain ⟨r2, hr2⟩ : ∃ r2, s2 = a :: r2 := by
        cases hs : s2 with
        | nil => rw [hs] at h2head; simp at h2head
        | cons x xs => rw [hs] at h2head; simp at h2head; subst h2head; exact ⟨xs, rfl⟩
      have h3head : s3.head? = some a := by
        show (collapse _ s2).head? = some a
        rw [hr2]; exact collapse_head _ a r2 (by simpa using ha.2.2)
      have h3last : s3.getLast? = some b := collapse_last _ _ b h2last (by simpa using hb.2.2)
      -- characters
      have c1 : ∀ c ∈ s1, (c = '\r' || c = '\n') = false := by
        intro c hc
        rcases mem_collapse _ _ c hc with rfl | ⟨_, h⟩
        · decide
        · exact h
      have c2 : ∀ c ∈ s2, (c = '\r' || c = '\n') = false ∧ (c = '\t') = false := by
        intro c hc
        rcases mem_collapse _ _ c hc with rfl | ⟨hm, h⟩
        · decide
        · exact ⟨c1 c hm, by simpa using h⟩
      have hedgeA : Gen.Registry.nwEdgeBlanks.contains a = false := by
        rw [hedge]; simp at ha ⊢; simp [ha]
      have hedgeB : Gen.Registry.nwEdgeBlanks.contains b = false := by
        rw [hedge]; simp at hb ⊢; simp [hb]
      show Norm (if Gen.Registry.nwEdgeBlanks.contains b = true then
          (if Gen.Registry.nwEdgeBlanks.contains a = true then ' ' :: s3 else s3) ++ [' ']
        else (if Gen.Registry.nwEdgeBlanks.contains a = true then ' ' :: s3 else s3))
      simp only [hedgeA, hedgeB, Bool.false_eq_true, if_false]
      refine ⟨⟨(splitP (fun c => c = ' ') s2).filter (fun x => !x.isEmpty), ?_, rfl⟩, ?_, ?_⟩
      · intro w hw
        have hwords := collapse_words (fun c => decide (c = ' ')) s2 w hw
        refine ⟨hwords.1, ?_⟩
        intro c hc
        have hsp := hwords.2 c hc
        rw [List.mem_filter] at hw
        have hm := splitP_sub _ s2 w hw.1 c hc
        have := c2 c hm
        unfold blank4
        simp at hsp this ⊢
        simp [hsp, this]
      · intro c hc; rw [h3head] at hc; cases hc; exact strip_head v a hh
      · intro c hc; rw [h3last] at hc; cases hc; exact strip_last v b hl



theorem flatMap_joinChar (f : Char → Str) (hf : f ' ' = [' ']) (ws : List Str) :
    (joinChar ' ' ws).flatMap f = joinChar ' ' (ws.map (List.flatMap f)) := by
  induction ws with
  | nil => rfl
  | cons w rest ih =>
    cases rest with
    | nil => simp [joinChar]
    | cons w2 r2 =>
      simp only [joinChar, List.map_cons, List.flatMap_append, List.flatMap_cons, hf] at ih ⊢
      rw [ih]; simp

theorem joinChar_cons_head (q : Char) (w : Str) (rest : List Str) :
    q :: joinChar ' ' (w :: rest) = joinChar ' ' ((q :: w) :: rest) := by
  cases rest <;> simp [joinChar]

theorem joinChar_snoc_last (q : Char) (init : List Str) (w : Str) :
    joinChar ' ' (init ++ [w]) ++ [q] = joinChar ' ' (init ++ [w ++ [q]]) := by
  induction init with
  | nil => simp [joinChar]
  | cons x rest ih =>
    cases hr : rest ++ [w] with
    | nil => simp at hr
    | cons y ys =>
      cases hr2 : rest ++ [w ++ [q]] with
      | nil => simp at hr2
      | cons y2 ys2 =>
        simp only [List.cons_append, hr, hr2, joinChar]
        rw [hr, hr2] at ih
        rw [← ih]; simp

theorem hexEscape_not_blank (n : Nat) : ∀ x ∈ hexEscape n, blank4 x = false := by
  intro x hx
  have hd : ∀ k, k < 16 → blank4 (hexDigit k) = false := by decide
  unfold hexEscape at hx
  split at hx
  · simp only [hex2, List.mem_cons, List.not_mem_nil, or_false] at hx
    rcases hx with rfl | rfl | rfl | rfl
    · decide
    · decide
    all_goals exact hd _ (by omega)
  · split at hx
    · simp only [hex4, List.mem_cons, List.not_mem_nil, or_false] at hx
      rcases hx with rfl | rfl | rfl | rfl | rfl | rfl
      · decide
      · decide
      all_goals exact hd _ (by omega)
    · simp only [hex8, List.mem_cons, List.not_mem_nil, or_false] at hx
      rcases hx with rfl | rfl | rfl | rfl | rfl | rfl | rfl | rfl | rfl | rfl
      · decide
      · decide
      all_goals exact hd _ (by omega)

theorem reprChar_word (pr : Char → Bool) (q c : Char) (hq : q = '\'' ∨ q = '"') (hc : blank4 c = false) :
    reprChar pr q c ≠ [] ∧ ∀ x ∈ reprChar pr q c, blank4 x = false := by
  have hqb : blank4 q = false := by rcases hq with rfl | rfl <;> decide
  unfold reprChar
  simp only
  split
  · refine ⟨by simp, ?_⟩
    intro x hx; simp at hx
    rcases hx with rfl | rfl
    · decide
    · exact hc
  · split
    · refine ⟨by simp, ?_⟩; intro x hx; simp at hx; rcases hx with rfl | rfl <;> decide
    · split
      · refine ⟨by simp, ?_⟩; intro x hx; simp at hx; rcases hx with rfl | rfl <;> decide
      · split
        · refine ⟨by simp, ?_⟩; intro x hx; simp at hx; rcases hx with rfl | rfl <;> decide
        · have hne : ∀ n, hexEscape n ≠ [] := by intro n; unfold hexEscape; split <;> (try split) <;> simp
          split
          · exact ⟨hne _, hexEscape_not_blank _⟩
          · split
            · exact ⟨by simp, by intro x hx; simp at hx; subst hx; exact hc⟩
            · split
              · exact ⟨by simp, by intro x hx; simp at hx; subst hx; exact hc⟩
              · exact ⟨hne _, hexEscape_not_blank _⟩

theorem reprChar_space (pr : Char → Bool) (q : Char) (hq : q = '\'' ∨ q = '"') : reprChar pr q ' ' = [' '] := by
  rcases hq with rfl | rfl <;> simp [reprChar]

theorem words_map_repr (pr : Char → Bool) (q : Char) (hq : q = '\'' ∨ q = '"') (ws : List Str) (hw : Words blank4 ws) :
    Words blank4 (ws.map (List.flatMap (reprChar pr q))) := by
  intro w hwm
  rw [List.mem_map] at hwm
  obtain ⟨w0, hw0, rfl⟩ := hwm
  obtain ⟨hne, hfree⟩ := hw w0 hw0
  constructor
  · cases w0 with
    | nil => exact absurd rfl hne
    | cons a as =>
      simp only [List.flatMap_cons]
      intro e
      have := (reprChar_word pr q a hq (hfree a (by simp))).1
      exact this (List.append_eq_nil_iff.mp e).1
  · intro x hx
    rw [List.mem_flatMap] at hx
    obtain ⟨c, hc, hxc⟩ := hx
    exact (reprChar_word pr q c hq (hfree c hc)).2 x hxc

theorem norm_pyRepr (pr : Char → Bool) (x : Str) (h : Norm x) : Norm (pyRepr pr x) := by
  obtain ⟨⟨ws, hw, hx⟩, _, _⟩ := h
  have hq := reprQuote_cases x
  have hqb : blank4 (reprQuote x) = false := by rcases hq with h | h <;> rw [h] <;> decide
  have hqs : isSpace (reprQuote x) = false := by rcases hq with h | h <;> rw [h] <;> decide
  refine ⟨?_, ?_, ?_⟩
  · unfold pyRepr
    simp only
    generalize reprQuote x = q at hq hqb hqs ⊢
    rw [hx, flatMap_joinChar _ (reprChar_space pr q hq)]
    have hw' := words_map_repr pr q hq ws hw
    generalize ws.map (List.flatMap (reprChar pr q)) = ws' at hw'
    cases ws' with
    | nil =>
      exact ⟨[[q, q]], by
        intro w hwm; simp at hwm; subst hwm
        exact ⟨by simp, by intro c hc; simp at hc; subst hc; exact hqb⟩, by simp [joinChar]⟩
    | cons w1 rest =>
      -- split the word list into init ++ [last]
      obtain ⟨init, lastw, hil⟩ : ∃ init lastw, w1 :: rest = init ++ [lastw] :=
        ⟨(w1 :: rest).dropLast, (w1 :: rest).getLast (by simp), (List.dropLast_concat_getLast (by simp)).symm⟩
      rw [hil, joinChar_snoc_last]
      cases init with
      | nil =>
        simp only [List.nil_append, joinChar]
        have hl : lastw = w1 := by simp at hil; exact hil.1.symm
        refine ⟨[q :: (lastw ++ [q])], ?_, by simp [joinChar]⟩
        intro w hwm; simp at hwm; subst hwm
        refine ⟨by simp, ?_⟩
        intro c hc
        simp only [List.mem_cons, List.mem_append, List.not_mem_nil, or_false] at hc
        rcases hc with rfl | hc | rfl
        · exact hqb
        · exact (hw' lastw (by rw [hl]; simp)).2 c hc
        · exact hqb
      | cons i0 ir =>
        simp only [List.cons_append]
        rw [joinChar_cons_head]
        refine ⟨(q :: i0) :: (ir ++ [lastw ++ [q]]), ?_, rfl⟩
        have hmem : ∀ w, w ∈ i0 :: ir ++ [lastw] → w ∈ w1 :: rest := by intro w hwm; rw [hil]; exact hwm
        intro w hwm
        simp only [List.mem_cons, List.mem_append, List.not_mem_nil, or_false] at hwm
        rcases hwm with rfl | hwm | rfl
        · refine ⟨by simp, ?_⟩
          intro c hc; simp only [List.mem_cons] at hc
          rcases hc with rfl | hc
          · exact hqb
          · exact (hw' i0 (hmem i0 (by simp))).2 c hc
        · exact hw' w (hmem w (by simp [hwm]))
        · refine ⟨by simp, ?_⟩
          intro c hc; simp only [List.mem_append, List.mem_cons, List.not_mem_nil, or_false] at hc
          rcases hc with hc | rfl
          · exact (hw' lastw (hmem lastw (by simp))).2 c hc
          · exact hqb
  · intro c hc; rw [head_pyRepr] at hc; cases hc; exact hqs
  · intro c hc; rw [getLast_pyRepr] at hc; cases hc; exact hqs

theorem norm_strStr (pr : Char → Bool) (x : Str) (h : Norm x) : Norm (strStr pr x) := by
  unfold strStr
  split
  · exact norm_pyRepr pr x h
  · exact h

theorem normalized_roundtrip_aux (hq : QuotesOk Gen.Registry.stringQuotes)
    (hedge : Gen.Registry.nwEdgeBlanks = [' ', '\n', '\t', '\r']) (pr : Char → Bool) (v : Str) :
    StrClass.set .normalized pr (strStr pr (normalizeNS v)) = .ok (normalizeNS v) := by
  have hn := norm_normalizeNS hedge v
  unfold StrClass.set
  simp only [if_true]
  rw [normalizeNS_norm hedge _ (norm_strStr pr _ hn), strSet_strStr hq]
  simp only [SetRes.bind, StrClass.setValue, normalizeNS_norm hedge _ hn]

end C15
