/-
C15 — text codecs used by the configuration registry (src/registry.py):

* `encodeUE` / `decodeUE` : the `unicode_escape` codec (`registry.encoder` / `registry.decoder`,
  i.e. CPython's `PyUnicode_AsUnicodeEscapeString` / `_PyUnicode_DecodeUnicodeEscapeInternal`);
* `pyRepr`               : `repr()` of a `str` (CPython `unicode_repr`); which non-ASCII characters
  are printable comes from the Unicode database and is a parameter `pr`;
* `evalLit`              : `utils.safeEval` on a text that is one plain (non-raw, non-triple-quoted)
  string literal — the only shape `String.set` produces itself; any other text is `unm`
  (outside the model: it would need the whole Python expression grammar).

One character-at-a-time machine `unesc` serves both decoders (their escape tables coincide).
Mathlib-free, structural recursion only.
-/
import LimnoriaModel.Py.Basic
namespace C15
open Py

/-! ### hexadecimal -/

def hexDigit (n : Nat) : Char :=
  if n < 10 then Char.ofNat (48 + n) else Char.ofNat (87 + n)

def hexVal (c : Char) : Option Nat :=
  let n := c.toNat
  if 48 ≤ n ∧ n ≤ 57 then some (n - 48)
  else if 97 ≤ n ∧ n ≤ 102 then some (n - 87)
  else if 65 ≤ n ∧ n ≤ 70 then some (n - 55)
  else none

def octVal (c : Char) : Option Nat :=
  let n := c.toNat
  if 48 ≤ n ∧ n ≤ 55 then some (n - 48) else none

def hex2 (n : Nat) : Str := [hexDigit (n / 16 % 16), hexDigit (n % 16)]
def hex4 (n : Nat) : Str :=
  [hexDigit (n / 4096 % 16), hexDigit (n / 256 % 16), hexDigit (n / 16 % 16), hexDigit (n % 16)]
def hex8 (n : Nat) : Str :=
  [hexDigit (n / 268435456 % 16), hexDigit (n / 16777216 % 16), hexDigit (n / 1048576 % 16),
   hexDigit (n / 65536 % 16), hexDigit (n / 4096 % 16), hexDigit (n / 256 % 16),
   hexDigit (n / 16 % 16), hexDigit (n % 16)]

/-- `\xhh`, `\uhhhh` or `\Uhhhhhhhh` according to the size of the code point -/
def hexEscape (n : Nat) : Str :=
  if n < 256 then '\\' :: 'x' :: hex2 n
  else if n < 65536 then '\\' :: 'u' :: hex4 n
  else '\\' :: 'U' :: hex8 n

/-! ### the `unicode_escape` encoder -/

def encChar (c : Char) : Str :=
  let n := c.toNat
  if c = '\\' then ['\\', '\\']
  else if c = '\t' then ['\\', 't']
  else if c = '\n' then ['\\', 'n']
  else if c = '\r' then ['\\', 'r']
  else if n < 32 ∨ 127 ≤ n then hexEscape n
  else [c]

/-- `registry.encoder(s)[0].decode()` -/
def encodeUE (s : Str) : Str := s.flatMap encChar

/-! ### results -/

/-- outcome of a decoder: a string, an error (`UnicodeDecodeError` / `SyntaxError`, both reach the
caller as `ValueError`), or "outside the model" (`\N{…}` needs the Unicode name table; a lone
surrogate is not a Lean `Char`; a text that is not one plain literal). -/
inductive Res where
  | ok (s : Str)
  | bad
  | unm
deriving DecidableEq, Repr

def Res.emit (c : Char) : Res → Res
  | .ok s => .ok (c :: s)
  | .bad => .bad
  | .unm => .unm

/-- append the character with code point `v` -/
def emitNat (v : Nat) (r : Res) : Res :=
  if 0xD800 ≤ v ∧ v < 0xE000 then .unm          -- lone surrogate: a Python str, not a Lean one
  else if 0x110000 ≤ v then .bad                -- "illegal Unicode character"
  else r.emit (Char.ofNat v)

/-! ### the escape machine -/

inductive Mode where
  | norm
  | esc                       -- just after a backslash
  | oct (v k : Nat)           -- inside `\ooo`: value so far, digits read (1 or 2)
  | hex (need v : Nat)        -- inside `\x`, `\u`, `\U`: digits still needed, value so far
deriving DecidableEq, Repr

/-- an ordinary position.  `q = some c`: we are inside a Python literal delimited by `c`
(`last` says whether this is the last character of the text); `q = none`: codec. -/
def normStep (q : Option Char) (c : Char) (last : Bool) (k : Mode → Res) : Res :=
  if c = '\\' then k .esc
  else if q = some c then (if last then .ok [] else .unm)
  else if q.isSome ∧ c = '\n' then .bad                    -- unterminated string literal
  else (k .norm).emit c

/-- the character after a backslash -/
def escStep (c : Char) (k : Mode → Res) : Res :=
  if c = '\n' then k .norm
  else if c = '\\' ∨ c = '\'' ∨ c = '"' then (k .norm).emit c
  else if c = 'a' then (k .norm).emit (Char.ofNat 7)
  else if c = 'b' then (k .norm).emit (Char.ofNat 8)
  else if c = 'f' then (k .norm).emit (Char.ofNat 12)
  else if c = 'n' then (k .norm).emit '\n'
  else if c = 'r' then (k .norm).emit '\r'
  else if c = 't' then (k .norm).emit '\t'
  else if c = 'v' then (k .norm).emit (Char.ofNat 11)
  else if c = 'x' then k (.hex 2 0)
  else if c = 'u' then k (.hex 4 0)
  else if c = 'U' then k (.hex 8 0)
  else if c = 'N' then .unm
  else match octVal c with
    | some d => k (.oct d 1)
    | none => ((k .norm).emit c).emit '\\'                 -- unknown escape: kept as written

def unesc (q : Option Char) : Mode → Str → Res
  | .norm, [] => if q.isSome then .bad else .ok []
  | .esc, [] => .bad                                       -- "\ at end of string"
  | .oct v _, [] => if q.isSome then .bad else emitNat v (.ok [])
  | .hex _ _, [] => .bad                                   -- truncated \xXX escape
  | .norm, c :: cs => normStep q c cs.isEmpty (fun m => unesc q m cs)
  | .esc, c :: cs => escStep c (fun m => unesc q m cs)
  | .oct v k, c :: cs =>
    match octVal c with
    | some d => if 2 ≤ k then emitNat (v * 8 + d) (unesc q .norm cs)
                else unesc q (.oct (v * 8 + d) (k + 1)) cs
    | none => emitNat v (normStep q c cs.isEmpty (fun m => unesc q m cs))
  | .hex need v, c :: cs =>
    match hexVal c with
    | some d => if need ≤ 1 then emitNat (v * 16 + d) (unesc q .norm cs)
                else unesc q (.hex (need - 1) (v * 16 + d)) cs
    | none => .bad

/-! ### the `unicode_escape` decoder -/

/-- the decoder is given a `str`: it is encoded to UTF-8 and every byte that is not part of an
escape is read as a Latin-1 character -/
def latin1Bytes (s : Str) : Str :=
  s.flatMap fun c => if c.toNat < 128 then [c]
    else (String.utf8EncodeChar c).map fun b => Char.ofNat b.toNat

/-- `registry.decoder(s)[0]` -/
def decodeUE (s : Str) : Res := unesc none .norm (latin1Bytes s)

/-! ### `repr` of a `str` -/

def reprQuote (s : Str) : Char :=
  if s.contains '\'' ∧ ¬ s.contains '"' then '"' else '\''

def reprChar (pr : Char → Bool) (q : Char) (c : Char) : Str :=
  let n := c.toNat
  if c = q ∨ c = '\\' then ['\\', c]
  else if c = '\t' then ['\\', 't']
  else if c = '\n' then ['\\', 'n']
  else if c = '\r' then ['\\', 'r']
  else if n < 32 ∨ n = 127 then hexEscape n
  else if n < 127 then [c]
  else if pr c then [c]
  else hexEscape n

/-- `repr(s)`; `pr c` = "`c` (non-ASCII) is printable" (`str.isprintable`) -/
def pyRepr (pr : Char → Bool) (s : Str) : Str :=
  let q := reprQuote s
  q :: (s.flatMap (reprChar pr q) ++ [q])

/-! ### evaluating one string literal -/

/-- newline translation done by the tokenizer on a source string: `\r\n` and `\r` become `\n` -/
def normNLAux : Bool → Str → Str
  | _, [] => []
  | prevCR, c :: cs =>
    if c = '\r' then '\n' :: normNLAux true cs
    else if c = '\n' ∧ prevCR then normNLAux false cs
    else c :: normNLAux false cs

def normNL (s : Str) : Str := normNLAux false s

def isQuote (c : Char) : Bool := c = '\'' || c = '"'

/-- `utils.safeEval(t)` restricted to "the value is a str": `ok s` — it evaluates to the string
`s`; `bad` — `ValueError` (syntax error, NUL in the source); `unm` — not a single plain literal. -/
def evalLit (t : Str) : Res :=
  match t with
  | [] => .unm
  | q :: rest =>
    if ¬ isQuote q then .unm
    else if t.contains (Char.ofNat 0) then .bad
    else unesc (some q) .norm (normNL rest)

end C15
