/-
C15 — lemmas for the end-to-end theorem: a tree in normal form, saved and read by a fresh
process, is rebuilt by the start-up registration loop.
-/
import LimnoriaModel.C15.Lemmas
import LimnoriaModel.C15.Lazy
namespace C15
open Py

/-! ### cache keys of the children -/

theorem asciiLower_append (a b : Str) : asciiLower (a ++ b) = asciiLower a ++ asciiLower b := by
  simp [asciiLower]

theorem asciiLower_length (a : Str) : (asciiLower a).length = a.length := by simp [asciiLower]

theorem keyRest_self (B : Str) : keyRest B B = none := by
  unfold keyRest; simp

theorem keyRest_child (B tail : Str) : keyRest B (B ++ '.' :: tail) = some tail := by
  unfold keyRest
  rw [asciiLower_append]
  have h1 : (asciiLower B).isPrefixOf (asciiLower B ++ asciiLower ('.' :: tail)) = true := by
    rw [List.isPrefixOf_iff_prefix]; exact List.prefix_append _ _
  have h2 : B.length < (B ++ '.' :: tail).length := by simp
  rw [if_pos ⟨h1, h2⟩]
  congr 1
  have : B.length + 1 = (B ++ ['.']).length := by simp
  rw [this, show B ++ '.' :: tail = (B ++ ['.']) ++ tail by simp, List.drop_left]

theorem splitName_one (p : Str) : splitName (escapeName p) = some [p] := by
  have := splitName_joinName_aux [p] (by simp)
  simpa [joinName, joinChar] using this

theorem splitName_two (p c : Str) :
    splitName (escapeName p ++ '.' :: escapeName c) = some [p, c] := by
  have := splitName_joinName_aux [p, c] (by simp)
  simpa [joinName, joinChar] using this

/-- table obligation: `:` is not a channel prefix (a `:network` name is never taken for a channel) -/
theorem chantypes_no_colon : Gen.Registry.chanTypes.contains ':' = false := by decide

theorem isChannel_colon (n : Str) : isChannel (':' :: n) = false := by
  unfold isChannel
  simp only [chantypes_no_colon]
  simp

/-! ### one step of the start-up loop -/

/-- the class re-reads the text it prints for `v`, whatever the node held before -/
def RT {α : Type} (C : Cls α) (v : α) : Prop := ∀ cur, C.set cur (C.str v) = .ok v

/-- the cache holds, under `name`, a text that the class reads as `v` whatever the node held -/
def Cached {α : Type} (C : Cls α) (cache : Cache) (name : Str) (v : α) : Prop :=
  ∃ raw, cacheGet cache name = some raw ∧ ∀ cur, C.set cur raw = .ok v

theorem mkValue_cached {α : Type} (C : Cls α) (cache : Cache) (full : Str) (pv v : α)
    (hp : RT C pv) (hc : Cached C cache full v) :
    mkValue C cache full pv = .made (v, true) false := by
  obtain ⟨raw, h1, h2⟩ := hc
  unfold mkValue
  rw [hp C.dflt]
  simp only [h1, h2 pv]

theorem mkValue_plain {α : Type} (C : Cls α) (cache : Cache) (full : Str) (pv : α)
    (hp : RT C pv) (hc : cacheGet cache full = none) :
    mkValue C cache full pv = .made (pv, false) false := by
  unfold mkValue
  rw [hp C.dflt]
  simp only [hc]

theorem getChan_new {α : Type} (C : Cls α) (B : Str) (cache : Cache) (x : Var α) (c : Str) (v : α)
    (hf : findKey c x.chans = none) (hp : RT C x.value)
    (hc : Cached C cache (childName B c) v) :
    x.getChan C B cache c = ({ x with chans := x.chans ++ [(c, ⟨v, true⟩)] }, some ⟨v, true⟩) := by
  unfold Var.getChan
  simp only [hf, mkValue_cached C cache _ x.value v hp hc]
  rfl

theorem getNet_new {α : Type} (C : Cls α) (B : Str) (cache : Cache) (x : Var α) (n : Str) (v : α)
    (hf : findKey n x.nets = none) (hp : RT C x.value)
    (hc : Cached C cache (childName B (':' :: n)) v) :
    x.getNet C B cache n = ({ x with nets := x.nets ++ [(n, ⟨v, true, []⟩)] }, some ⟨v, true, []⟩) := by
  unfold Var.getNet
  simp only [hf, mkValue_cached C cache _ x.value v hp hc]
  rfl

theorem getNet_new_unset {α : Type} (C : Cls α) (B : Str) (cache : Cache) (x : Var α) (n : Str)
    (hf : findKey n x.nets = none) (hp : RT C x.value)
    (hc : cacheGet cache (childName B (':' :: n)) = none) :
    x.getNet C B cache n = ({ x with nets := x.nets ++ [(n, ⟨x.value, false, []⟩)] }, some ⟨x.value, false, []⟩) := by
  unfold Var.getNet
  simp only [hf, mkValue_plain C cache _ x.value hp hc]
  rfl

theorem netGetChan_new {α : Type} (C : Cls α) (NB : Str) (cache : Cache) (nv : Net α) (c : Str) (v : α)
    (hf : findKey c nv.chans = none) (hp : RT C nv.value)
    (hc : Cached C cache (childName NB c) v) :
    nv.getChan C NB cache c = ({ nv with chans := nv.chans ++ [(c, ⟨v, true⟩)] }, some ⟨v, true⟩) := by
  unfold Net.getChan
  simp only [hf, mkValue_cached C cache _ nv.value v hp hc]
  rfl

/-- a channel name the start-up loop recognises -/
def ChanOk (c : Str) : Prop := c ≠ [] ∧ isChannel c = true

theorem eagerStep_base {α : Type} (C : Cls α) (K : Kind) (B : Str) (cache : Cache) (x : Var α) :
    eagerStep C K B cache x B = .cont x := by
  unfold eagerStep; rw [keyRest_self]

theorem eagerStep_chan {α : Type} (C : Cls α) (K : Kind) (B : Str) (cache : Cache) (x : Var α) (c : Str) (v : α)
    (hK : K.chanV = true) (hc : ChanOk c) (hf : findKey c x.chans = none) (hp : RT C x.value)
    (hcache : Cached C cache (childName B c) v) :
    eagerStep C K B cache x (childName B c) = .cont { x with chans := x.chans ++ [(c, ⟨v, true⟩)] } := by
  have := getChan_new C B cache x c v hf hp hcache
  simp only [eagerStep, childName, keyRest_child, splitName_one] at this ⊢
  rw [if_pos ⟨hK, hc.1, hc.2⟩, this]

theorem eagerStep_net {α : Type} (C : Cls α) (K : Kind) (B : Str) (cache : Cache) (x : Var α) (n : Str) (v : α)
    (hf : findKey n x.nets = none) (hp : RT C x.value)
    (hcache : Cached C cache (childName B (':' :: n)) v) :
    eagerStep C K B cache x (childName B (':' :: n)) = .cont { x with nets := x.nets ++ [(n, ⟨v, true, []⟩)] } := by
  have := getNet_new C B cache x n v hf hp hcache
  simp only [eagerStep, childName, keyRest_child, splitName_one] at this ⊢
  rw [if_neg (by rw [isChannel_colon]; simp), if_pos (by simp)]
  simp only [List.drop_succ_cons, List.drop_zero]
  rw [this]

theorem findKey_append_none {β : Type} (q : Str) (l : List (Str × β)) (k : Str) (v : β)
    (h : findKey q l = none) (hk : keyEq k q = false) : findKey q (l ++ [(k, v)]) = none := by
  simp [findKey_append, h, hk]

theorem findKey_append_last {β : Type} (n : Str) (l : List (Str × β)) (a : β) (h : findKey n l = none) :
    findKey n (l ++ [(n, a)]) = some a := by
  simp [findKey_append, h, keyEq_refl]

theorem updKey_append_last {β : Type} (n : Str) (f : β → β) (l : List (Str × β)) (a : β)
    (h : findKey n l = none) : updKey n f (l ++ [(n, a)]) = l ++ [(n, f a)] := by
  induction l with
  | nil => simp [updKey, keyEq_refl]
  | cons kv rest ih =>
    obtain ⟨k, v⟩ := kv
    simp only [findKey] at h
    split at h
    · simp at h
    · rename_i hk
      simp only [List.cons_append, updKey, hk, if_false, Bool.false_eq_true]
      rw [ih h]

theorem childName_netchan (B n c : Str) :
    childName (childName B (':' :: n)) c = B ++ '.' :: (escapeName (':' :: n) ++ '.' :: escapeName c) := by
  simp [childName]

theorem eagerStep_netchan_existing {α : Type} (C : Cls α) (K : Kind) (B : Str) (cache : Cache) (x : Var α)
    (l : List (Str × Net α)) (n c : Str) (nv : Net α) (v : α)
    (hK : K.chanV = true) (hc : ChanOk c)
    (hx : x.nets = l ++ [(n, nv)]) (hl : findKey n l = none) (hf : findKey c nv.chans = none)
    (hp : RT C nv.value) (hcache : Cached C cache (childName (childName B (':' :: n)) c) v) :
    eagerStep C K B cache x (childName (childName B (':' :: n)) c) =
      .cont { x with nets := l ++ [(n, { nv with chans := nv.chans ++ [(c, ⟨v, true⟩)] })] } := by
  have hfind : findKey n x.nets = some nv := by rw [hx]; exact findKey_append_last n l nv hl
  have h1 : x.getNet C B cache n = (x, some nv) := by unfold Var.getNet; simp only [hfind]
  have h2 := netGetChan_new C (childName B (':' :: n)) cache nv c v hf hp hcache
  have h3 : x.getNetChan C B cache n c =
      ({ x with nets := l ++ [(n, { nv with chans := nv.chans ++ [(c, ⟨v, true⟩)] })] },
        some ({ nv with chans := nv.chans ++ [(c, ⟨v, true⟩)] }, ⟨v, true⟩)) := by
    unfold Var.getNetChan
    simp only [h1, h2, Option.map_some]
    rw [hx, updKey_append_last n _ l nv hl]
  rw [childName_netchan]
  simp only [eagerStep, keyRest_child, splitName_two _ c]
  rw [if_pos ⟨hK, by simp, hc.1, hc.2⟩]
  simp only [List.drop_succ_cons, List.drop_zero]
  rw [h3]

theorem eagerStep_netchan_fresh {α : Type} (C : Cls α) (K : Kind) (B : Str) (cache : Cache) (x : Var α)
    (n c : Str) (v : α)
    (hK : K.chanV = true) (hc : ChanOk c)
    (hl : findKey n x.nets = none) (hpx : RT C x.value)
    (hnone : cacheGet cache (childName B (':' :: n)) = none)
    (hcache : Cached C cache (childName (childName B (':' :: n)) c) v) :
    eagerStep C K B cache x (childName (childName B (':' :: n)) c) =
      .cont { x with nets := x.nets ++ [(n, ⟨x.value, false, [(c, ⟨v, true⟩)]⟩)] } := by
  have h1 := getNet_new_unset C B cache x n hl hpx hnone
  have h2 := netGetChan_new C (childName B (':' :: n)) cache ⟨x.value, false, []⟩ c v rfl hpx hcache
  have h3 : x.getNetChan C B cache n c =
      ({ x with nets := x.nets ++ [(n, ⟨x.value, false, [(c, ⟨v, true⟩)]⟩)] },
        some (⟨x.value, false, [(c, ⟨v, true⟩)]⟩, ⟨v, true⟩)) := by
    unfold Var.getNetChan
    simp only [h1, h2, Option.map_some]
    rw [updKey_append_last n _ x.nets _ hl]
    rfl
  rw [childName_netchan]
  simp only [eagerStep, keyRest_child, splitName_two _ c]
  rw [if_pos ⟨hK, by simp, hc.1, hc.2⟩]
  simp only [List.drop_succ_cons, List.drop_zero]
  rw [h3]

/-! ### trees in normal form -/

/-- a `:network` child in normal form: its name, its value when it was set, its set `#channel`s -/
structure NetSpec (α : Type) where
  name : Str
  set : Option α
  chans : List (Str × α)

/-- a value tree in normal form: only what the file records -/
structure TreeSpec (α : Type) where
  base : α
  chans : List (Str × α)
  nets : List (NetSpec α)

def leafs {α : Type} (cs : List (Str × α)) : List (Str × Leaf α) := cs.map fun cv => (cv.1, ⟨cv.2, true⟩)

def NetSpec.build {α : Type} (v0 : α) (ns : NetSpec α) : Net α :=
  ⟨ns.set.getD v0, ns.set.isSome, leafs ns.chans⟩

/-- the live tree of a spec: set nodes as recorded, an unset network node (present because one of
its channels is set) holding the general value -/
def TreeSpec.build {α : Type} (t : TreeSpec α) : Var α :=
  ⟨t.base, true, t.nets.map fun ns => (ns.name, ns.build t.base), leafs t.chans⟩

def netName (B n : Str) : Str := childName B (':' :: n)

def NetSpec.keys {α : Type} (B : Str) (ns : NetSpec α) : List Str :=
  (if ns.set.isSome then [netName B ns.name] else []) ++ ns.chans.map fun cv => childName (netName B ns.name) cv.1

def TreeSpec.keys {α : Type} (B : Str) (t : TreeSpec α) : List Str :=
  B :: (t.chans.map (fun cv => childName B cv.1) ++ t.nets.flatMap (NetSpec.keys B))

def KeysDistinct {α : Type} (cs : List (Str × α)) : Prop := cs.Pairwise fun a b => keyEq a.1 b.1 = false

/-- every recorded channel value is recognised, re-read by the class and present in the cache -/
def ChansOk {α : Type} (C : Cls α) (cache : Cache) (P : Str) (cs : List (Str × α)) : Prop :=
  (∀ cv ∈ cs, ChanOk cv.1 ∧ RT C cv.2 ∧ Cached C cache (childName P cv.1) cv.2) ∧ KeysDistinct cs

def NetOk {α : Type} (C : Cls α) (cache : Cache) (B : Str) (ns : NetSpec α) : Prop :=
  (match ns.set with
   | some w => RT C w ∧ Cached C cache (netName B ns.name) w
   | none => cacheGet cache (netName B ns.name) = none ∧ ns.chans ≠ []) ∧
  ChansOk C cache (netName B ns.name) ns.chans

theorem loop_chans {α : Type} (C : Cls α) (K : Kind) (B : Str) (cache : Cache)
    (todo : List (Str × α)) (hK : K.chanV = true ∨ todo = []) (rest : List Str) : ∀ (x : Var α),
    (∀ cv ∈ todo, findKey cv.1 x.chans = none) → ChansOk C cache B todo → RT C x.value →
    eagerLoop C K B cache x (todo.map (fun cv => childName B cv.1) ++ rest) =
      eagerLoop C K B cache { x with chans := x.chans ++ leafs todo } rest := by
  induction todo with
  | nil => intro x _ _ _; simp [leafs]
  | cons cv tail ih =>
    have hK : K.chanV = true := by rcases hK with h | h; exact h; simp at h
    have ih := ih (Or.inl hK)
    intro x hfree hok hp
    obtain ⟨hall, hpw⟩ := hok
    have hcv := hall cv (by simp)
    have hpw' := List.pairwise_cons.mp hpw
    simp only [List.map_cons, List.cons_append, eagerLoop]
    rw [eagerStep_chan C K B cache x cv.1 cv.2 hK hcv.1 (hfree cv (by simp)) hp hcv.2.2]
    simp only
    have := ih { x with chans := x.chans ++ [(cv.1, ⟨cv.2, true⟩)] } (by
        intro cv' h'
        exact findKey_append_none _ _ _ _ (hfree cv' (by simp [h'])) (hpw'.1 cv' h'))
      ⟨fun cv' h' => hall cv' (by simp [h']), hpw'.2⟩ hp
    rw [this]
    simp [leafs]

theorem loop_netchans {α : Type} (C : Cls α) (K : Kind) (B : Str) (cache : Cache)
    (n : Str)
    (todo : List (Str × α)) (hK : K.chanV = true ∨ todo = []) (rest : List Str) : ∀ (x : Var α) (l : List (Str × Net α)) (nv : Net α),
    x.nets = l ++ [(n, nv)] → findKey n l = none →
    (∀ cv ∈ todo, findKey cv.1 nv.chans = none) → ChansOk C cache (netName B n) todo → RT C nv.value →
    eagerLoop C K B cache x (todo.map (fun cv => childName (netName B n) cv.1) ++ rest) =
      eagerLoop C K B cache { x with nets := l ++ [(n, { nv with chans := nv.chans ++ leafs todo })] } rest := by
  induction todo with
  | nil =>
    intro x l nv hx _ _ _ _
    simp only [List.map_nil, List.nil_append, leafs, List.append_nil]
    rw [← hx]
  | cons cv tail ih =>
    have hK : K.chanV = true := by rcases hK with h | h; exact h; simp at h
    have ih := ih (Or.inl hK)
    intro x l nv hx hl hfree hok hp
    obtain ⟨hall, hpw⟩ := hok
    have hcv := hall cv (by simp)
    have hpw' := List.pairwise_cons.mp hpw
    simp only [List.map_cons, List.cons_append, eagerLoop]
    rw [show netName B n = childName B (':' :: n) from rfl] at hcv ⊢
    rw [eagerStep_netchan_existing C K B cache x l n cv.1 nv cv.2 hK hcv.1 hx hl (hfree cv (by simp)) hp hcv.2.2]
    simp only
    have := ih { x with nets := l ++ [(n, { nv with chans := nv.chans ++ [(cv.1, ⟨cv.2, true⟩)] })] } l
      { nv with chans := nv.chans ++ [(cv.1, ⟨cv.2, true⟩)] } rfl hl
      (by
        intro cv' h'
        exact findKey_append_none _ _ _ _ (hfree cv' (by simp [h'])) (hpw'.1 cv' h'))
      ⟨fun cv' h' => hall cv' (by simp [h']), hpw'.2⟩ hp
    rw [show netName B n = childName B (':' :: n) from rfl] at this
    rw [this]
    simp [leafs]

theorem loop_net {α : Type} (C : Cls α) (K : Kind) (B : Str) (cache : Cache)
    (ns : NetSpec α) (hK : K.chanV = true ∨ ns.chans = []) (rest : List Str) (x : Var α)
    (hfree : findKey ns.name x.nets = none) (hok : NetOk C cache B ns) (hp : RT C x.value) :
    eagerLoop C K B cache x (ns.keys B ++ rest) =
      eagerLoop C K B cache { x with nets := x.nets ++ [(ns.name, ns.build x.value)] } rest := by
  obtain ⟨hset, hch⟩ := hok
  unfold NetSpec.keys NetSpec.build
  cases hs : ns.set with
  | some w =>
    rw [hs] at hset
    simp only [Option.isSome_some, if_true, List.cons_append, List.nil_append, eagerLoop, Option.getD_some]
    rw [show netName B ns.name = childName B (':' :: ns.name) from rfl]
    rw [eagerStep_net C K B cache x ns.name w hfree hp hset.2]
    simp only
    have := loop_netchans C K B cache ns.name ns.chans hK rest
      { x with nets := x.nets ++ [(ns.name, ⟨w, true, []⟩)] } x.nets ⟨w, true, []⟩ rfl hfree
      (by intro cv _; rfl) hch hset.1
    rw [show netName B ns.name = childName B (':' :: ns.name) from rfl] at this
    rw [this]
    simp
  | none =>
    rw [hs] at hset
    obtain ⟨hnone, hne⟩ := hset
    cases hcs : ns.chans with
    | nil => exact absurd hcs hne
    | cons cv tail =>
      have hK : K.chanV = true := by rcases hK with h | h; exact h; rw [hcs] at h; simp at h
      rw [hcs] at hch
      obtain ⟨hall, hpw⟩ := hch
      have hcv := hall cv (by simp)
      have hpw' := List.pairwise_cons.mp hpw
      simp only [Option.isSome_none, Bool.false_eq_true, if_false, List.nil_append, List.map_cons, List.cons_append,
        eagerLoop, Option.getD_none]
      rw [show netName B ns.name = childName B (':' :: ns.name) from rfl] at hcv hnone ⊢
      rw [eagerStep_netchan_fresh C K B cache x ns.name cv.1 cv.2 hK hcv.1 hfree hp hnone hcv.2.2]
      simp only
      have := loop_netchans C K B cache ns.name tail (Or.inl hK) rest
        { x with nets := x.nets ++ [(ns.name, ⟨x.value, false, [(cv.1, ⟨cv.2, true⟩)]⟩)] } x.nets
        ⟨x.value, false, [(cv.1, ⟨cv.2, true⟩)]⟩ rfl hfree
        (by
          intro cv' h'
          simp only [findKey, hpw'.1 cv' h', Bool.false_eq_true, if_false])
        ⟨fun cv' h' => hall cv' (by simp [h']), hpw'.2⟩ hp
      rw [show netName B ns.name = childName B (':' :: ns.name) from rfl] at this
      rw [this]
      simp [leafs]

theorem loop_nets {α : Type} (C : Cls α) (K : Kind) (B : Str) (cache : Cache)
    (todo : List (NetSpec α)) (hK : ∀ ns ∈ todo, K.chanV = true ∨ ns.chans = []) : ∀ (x : Var α),
    (∀ ns ∈ todo, findKey ns.name x.nets = none) → (∀ ns ∈ todo, NetOk C cache B ns) →
    todo.Pairwise (fun a b => keyEq a.name b.name = false) → RT C x.value →
    eagerLoop C K B cache x (todo.flatMap (NetSpec.keys B)) =
      .cont { x with nets := x.nets ++ todo.map fun ns => (ns.name, ns.build x.value) } := by
  induction todo with
  | nil => intro x _ _ _ _; simp [eagerLoop]
  | cons ns tail ih =>
    have ih := ih (fun ns' h' => hK ns' (by simp [h']))
    intro x hfree hok hpw hp
    have hpw' := List.pairwise_cons.mp hpw
    rw [List.flatMap_cons, loop_net C K B cache ns (hK ns (by simp)) _ x (hfree ns (by simp)) (hok ns (by simp)) hp]
    have := ih { x with nets := x.nets ++ [(ns.name, ns.build x.value)] }
      (by
        intro ns' h'
        exact findKey_append_none _ _ _ _ (hfree ns' (by simp [h'])) (hpw'.1 ns' h'))
      (fun ns' h' => hok ns' (by simp [h'])) hpw'.2 hp
    rw [this]
    simp

/-- the spec is recognised by the start-up loop -/
def BootOk {α : Type} (C : Cls α) (cache : Cache) (B : Str) (t : TreeSpec α) : Prop :=
  RT C t.base ∧ Cached C cache B t.base ∧ ChansOk C cache B t.chans ∧
  (∀ ns ∈ t.nets, NetOk C cache B ns) ∧ t.nets.Pairwise (fun a b => keyEq a.name b.name = false)

/-- a fresh process whose cache holds the lines of a tree in normal form rebuilds that tree -/
theorem boot_rebuilds {α : Type} (C : Cls α) (K : Kind) (B : Str) (cache : Cache) (t : TreeSpec α)
    (hK : K.chanV = true ∨ (K.netV = true ∧ t.chans = [] ∧ ∀ ns ∈ t.nets, ns.chans = []))
    (hkeys : cache.map (·.1) = t.keys B) (h : BootOk C cache B t) :
    boot C K B cache = .up ⟨t.build, cache⟩ := by
  obtain ⟨hb, ⟨raw0, hcb, hraw0⟩, hch, hnets, hpw⟩ := h
  unfold boot
  simp only [hcb, hraw0 C.dflt]
  rw [if_neg (by rcases hK with h | h; simp [h]; simp [h.1])]
  rw [hkeys]
  unfold TreeSpec.keys
  simp only [eagerLoop, eagerStep_base]
  rw [loop_chans C K B cache t.chans (by rcases hK with h | h; exact Or.inl h; exact Or.inr h.2.1) _
    ⟨t.base, true, [], []⟩ (by intro cv _; rfl) hch hb]
  rw [loop_nets C K B cache t.nets (by intro ns hns; rcases hK with h | h; exact Or.inl h; exact Or.inr (h.2.2 ns hns)) _
    (by intro ns _; rfl) hnets hpw hb]
  simp [TreeSpec.build]

/-! ### the cache read from a file whose keys are distinct -/

def lowKeys (l : List (Str × Str)) : List Str := l.map fun kv => asciiLower kv.1

theorem cacheSet_fresh (c : Cache) (k v : Str) (h : asciiLower k ∉ lowKeys c) : cacheSet c k v = c ++ [(k, v)] := by
  induction c with
  | nil => rfl
  | cons kv rest ih =>
    obtain ⟨k', v'⟩ := kv
    simp only [lowKeys, List.map_cons, List.mem_cons, not_or] at h
    have hne : ¬ (asciiLower k' = asciiLower k) := fun e => h.1 e.symm
    simp only [cacheSet, if_neg hne, List.cons_append]
    rw [ih h.2]

theorem foldl_cacheSet (l : List (Str × Str)) : ∀ acc : Cache, (lowKeys (acc ++ l)).Nodup →
    l.foldl (fun c kv => cacheSet c kv.1 kv.2) acc = acc ++ l := by
  induction l with
  | nil => intro acc _; simp
  | cons kv rest ih =>
    intro acc hnd
    simp only [List.foldl_cons]
    have hfresh : asciiLower kv.1 ∉ lowKeys acc := by
      simp only [lowKeys, List.map_append, List.map_cons] at hnd
      have := (List.nodup_append.mp hnd).2.2
      intro hm
      exact this _ hm _ (by simp) rfl
    rw [cacheSet_fresh acc kv.1 kv.2 hfresh]
    rw [ih (acc ++ [(kv.1, kv.2)]) (by simpa using hnd)]
    simp

theorem cacheOf_distinct (l : List (Str × Str)) (h : (lowKeys l).Nodup) : cacheOf l = l := by
  unfold cacheOf
  have := foldl_cacheSet l [] (by simpa using h)
  simpa using this

theorem cacheGet_none (l : Cache) (k : Str) (h : asciiLower k ∉ lowKeys l) : cacheGet l k = none := by
  induction l with
  | nil => rfl
  | cons kv rest ih =>
    obtain ⟨k', v'⟩ := kv
    simp only [lowKeys, List.map_cons, List.mem_cons, not_or] at h
    have hne : ¬ (asciiLower k' = asciiLower k) := fun e => h.1 e.symm
    simp only [cacheGet, if_neg hne]
    exact ih h.2

theorem cacheGet_mem (l : Cache) (k v : Str) (hm : (k, v) ∈ l) (h : (lowKeys l).Nodup) : cacheGet l k = some v := by
  induction l with
  | nil => simp at hm
  | cons kv rest ih =>
    obtain ⟨k', v'⟩ := kv
    simp only [lowKeys, List.map_cons, List.nodup_cons] at h
    rcases List.mem_cons.mp hm with e | hm'
    · cases e; simp [cacheGet]
    · have hne : asciiLower k' ≠ asciiLower k := by
        intro e
        apply h.1
        rw [e]
        exact List.mem_map.mpr ⟨(k, v), hm', rfl⟩
      simp only [cacheGet, if_neg hne]
      exact ih hm' h.2

/-! ### what `registry.close` lists for a tree in normal form -/

theorem flatMap_congr' {α β : Type} (l : List α) (f g : α → List β) (h : ∀ a ∈ l, f a = g a) :
    l.flatMap f = l.flatMap g := by
  induction l with
  | nil => rfl
  | cons a rest ih =>
    simp only [List.flatMap_cons]
    rw [h a (by simp), ih (fun b hb => h b (by simp [hb]))]

def NetSpec.entries {α : Type} (B : Str) (ns : NetSpec α) : List (Str × α) :=
  (match ns.set with
   | some w => [(netName B ns.name, w)]
   | none => []) ++ ns.chans.map fun cv => (childName (netName B ns.name) cv.1, cv.2)

def TreeSpec.entries {α : Type} (B : Str) (t : TreeSpec α) : List (Str × α) :=
  (B, t.base) :: (t.chans.map (fun cv => (childName B cv.1, cv.2)) ++ t.nets.flatMap (NetSpec.entries B))

theorem NetSpec.entries_keys {α : Type} (B : Str) (ns : NetSpec α) : (ns.entries B).map (·.1) = ns.keys B := by
  unfold NetSpec.entries NetSpec.keys
  cases ns.set <;> simp

theorem TreeSpec.entries_keys {α : Type} (B : Str) (t : TreeSpec α) : (t.entries B).map (·.1) = t.keys B := by
  unfold TreeSpec.entries TreeSpec.keys
  simp only [List.map_cons, List.map_append, List.map_map, List.map_flatMap]
  congr 2
  · congr 1
    funext ns
    exact NetSpec.entries_keys B ns

/-- the children are stored in the order `_added.sort()` gives -/
def TreeSpec.Sorted {α : Type} (t : TreeSpec α) : Prop :=
  sortKeys ((leafs t.chans).map (fun kl => (kl.1, (Sum.inl kl.2 : Leaf α ⊕ Net α))) ++
      (t.nets.map fun ns => (ns.name, ns.build t.base)).map (fun kn => (':' :: kn.1, Sum.inr kn.2))) =
    ((leafs t.chans).map (fun kl => (kl.1, (Sum.inl kl.2 : Leaf α ⊕ Net α))) ++
      (t.nets.map fun ns => (ns.name, ns.build t.base)).map (fun kn => (':' :: kn.1, Sum.inr kn.2))) ∧
  ∀ ns ∈ t.nets, sortKeys (leafs ns.chans) = leafs ns.chans

theorem leafs_dump {α : Type} (P : Str) (cs : List (Str × α)) :
    (leafs cs).flatMap (fun kl => kl.2.dump (childName P kl.1)) = cs.map fun cv => (childName P cv.1, cv.2) := by
  induction cs with
  | nil => rfl
  | cons cv rest ih =>
    simp only [leafs, List.map_cons, List.flatMap_cons] at ih ⊢
    rw [ih]; simp [Leaf.dump]

theorem NetSpec.build_dump {α : Type} (B : Str) (v0 : α) (ns : NetSpec α)
    (hs : sortKeys (leafs ns.chans) = leafs ns.chans) :
    (ns.build v0).dump (netName B ns.name) = ns.entries B := by
  unfold Net.dump NetSpec.build NetSpec.entries
  simp only [hs, leafs_dump]
  cases ns.set <;> simp

theorem TreeSpec.build_dump {α : Type} (B : Str) (t : TreeSpec α) (hs : t.Sorted) :
    t.build.dump B = t.entries B := by
  unfold Var.dump TreeSpec.entries
  simp only [TreeSpec.build]
  rw [hs.1]
  simp only [if_true, List.flatMap_append, List.cons_append, List.nil_append]
  congr 1
  congr 1
  · have := leafs_dump B t.chans
    simp only [List.flatMap_map] at this ⊢
    exact this
  · simp only [List.flatMap_map]
    apply flatMap_congr'
    intro ns hns
    exact NetSpec.build_dump B t.base ns (hs.2 ns hns)

/-! ### save, read, start again -/

theorem renderSpecs_plain (first : Bool) (l : List (Str × Str)) :
    renderSpecs first (l.map fun ns => (⟨none, none, ns.1, ns.2⟩ : Spec)) = l.map fun ns => (⟨[], ns.1, ns.2⟩ : Entry) := by
  induction l generalizing first with
  | nil => rfl
  | cons a rest ih => simp only [List.map_cons, renderSpecs, ih first]

/-- everything the end-to-end theorem asks of a tree in normal form -/
structure Storable (pr : Char → Bool) (c : ClassId) (dflt : Val) (B : Str) (t : TreeSpec Val) : Prop where
  /-- the class reads back what it prints, for every recorded value -/
  rt : ∀ kv ∈ t.entries B, RT (c.cls pr dflt) kv.2
  /-- the names are reader-safe and distinct (case-insensitively) -/
  names : ∀ k ∈ t.keys B, GoodName k
  distinct : ((t.keys B).map asciiLower).Nodup
  /-- an unset network node is recorded only through its channels -/
  unset : ∀ ns ∈ t.nets, ns.set = none → asciiLower (netName B ns.name) ∉ (t.keys B).map asciiLower ∧ ns.chans ≠ []
  chans : (∀ cv ∈ t.chans, ChanOk cv.1) ∧ KeysDistinct t.chans
  nets : ∀ ns ∈ t.nets, (∀ cv ∈ ns.chans, ChanOk cv.1) ∧ KeysDistinct ns.chans
  netsDistinct : t.nets.Pairwise (fun a b => keyEq a.name b.name = false)
  sorted : t.Sorted

theorem mem_entries_chan {α : Type} (B : Str) (t : TreeSpec α) (cv : Str × α) (h : cv ∈ t.chans) :
    (childName B cv.1, cv.2) ∈ t.entries B := by
  unfold TreeSpec.entries
  simp only [List.mem_cons, List.mem_append, List.mem_map]
  right; left; exact ⟨cv, h, rfl⟩

theorem mem_entries_net {α : Type} (B : Str) (t : TreeSpec α) (ns : NetSpec α) (h : ns ∈ t.nets) (kv : Str × α)
    (hk : kv ∈ ns.entries B) : kv ∈ t.entries B := by
  unfold TreeSpec.entries
  simp only [List.mem_cons, List.mem_append, List.mem_flatMap]
  right; right; exact ⟨ns, h, hk⟩

/-! ### lazy re-reading -/


theorem updKey_id {β : Type} (k : Str) (f : β → β) (l : List (Str × β))
    (h : ∀ b, findKey k l = some b → f b = b) : updKey k f l = l := by
  induction l with
  | nil => rfl
  | cons kv rest ih =>
    obtain ⟨k', v⟩ := kv
    simp only [updKey]
    by_cases hk : keyEq k' k = true
    · rw [if_pos hk, h v (by simp [findKey, hk])]
    · rw [if_neg hk, ih (fun b hb => h b (by simp [findKey, hk, hb]))]

theorem call_fresh_aux {α : Type} (C : Cls α) (B : Str) (s : LSt α) (w : Where) (h : s.isStale w = false) :
    s.call C B w = (s, s.st.var.valueAt w) := by
  unfold LSt.call
  cases s.st.var.valueAt w with
  | none => rfl
  | some cur => simp [h]

theorem call_reread_chan_aux {α : Type} (C : Cls α) (B : Str) (s : LSt α) (c : Str) (v : α)
    (hnode : findKey c s.st.var.chans = some ⟨v, true⟩)
    (hcache : cacheGet s.st.cache (childName B c) = some (C.str v)) (hrt : RT C v) :
    (s.call C B (.chan c)).2 = some v ∧ (s.call C B (.chan c)).1.st = s.st := by
  unfold LSt.call
  simp only [Var.valueAt, hnode, Option.map_some]
  by_cases hst : s.isStale (.chan c) = true
  · simp only [hst, if_true, whereName, hcache, hrt v]
    refine ⟨trivial, ?_⟩
    simp only [LSt.assign, Var.assign]
    have : updKey c (fun l : Leaf α => l.setV v false) s.st.var.chans = s.st.var.chans :=
      updKey_id c _ _ (by intro b hb; rw [hnode] at hb; cases hb; rfl)
    rw [this]
  · simp [hst]

/-! ### flush under interleaving -/


theorem foldl_zip_replicate_nil {α β γ : Type} (F : γ → α × List β → γ) (G : γ → α → γ)
    (h : ∀ acc a, F acc (a, []) = G acc a) : ∀ (l : List α) (n : Nat) (acc : γ), l.length ≤ n →
    (l.zip (List.replicate n [])).foldl F acc = l.foldl G acc := by
  intro l
  induction l with
  | nil => intro n acc _; simp
  | cons a as ih =>
    intro n acc hn
    cases n with
    | zero => simp at hn
    | succ m =>
      simp only [List.replicate_succ, List.zip_cons_cons, List.foldl_cons, h]
      exact ih m _ (by simp at hn; omega)

theorem saveInterleaved_nil_aux {α : Type} (C : Cls α) (strCalls : Bool) (B : Str) (s : LSt α) :
    s.saveInterleaved C strCalls B [] = s.save C strCalls B := by
  unfold LSt.saveInterleaved LSt.save
  simp only [List.nil_append]
  exact foldl_zip_replicate_nil _ _ (by intro acc a; simp) _ _ _ (Nat.le_refl _)

end C15
