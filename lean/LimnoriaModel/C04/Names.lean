/-
C04 — account names: which operations leave the (id, name) signature of the records alone, and
what `register` / the second half of `changename` add to it.  `C04/PluginLemmas.lean` turns this
into an invariant of the User plugin: names never look like hostmasks and no two accounts share
one (ASCII case-insensitively, as `getUserId` compares them).
-/
import LimnoriaModel.C04.Overlap
namespace C04
open Py C03

/-- `setUser(u)` of a record that is stored under that id and name already (the plugins change
the live object and then call `setUser`) leaves the signature alone, whether it succeeds or not -/
theorem setUser_sig_same {st : St} (hr : RecInv st) {u : User} (live : Bool)
    (hmem : ∃ v ∈ st.db.users, v.id = u.id ∧ v.name = u.name) :
    sig (setUser st u live).1.db.users = sig st.db.users := by
  have hr1 : RecInv { st with hc := {}, nc := {}, nextId := max st.nextId u.id } := by
    refine ⟨hr.nodup, hr.names, ?_⟩
    intro v hv
    have := hr.ids v hv
    simp only
    omega
  have hg := getUserId_sig { st with hc := {}, nc := {}, nextId := max st.nextId u.id } u.name hr1
  have hi2 : RecInv (getUserId { st with hc := {}, nc := {}, nextId := max st.nextId u.id } u.name).1 :=
    recInv_of_sig hr1 hg (by rw [(getUserId_frame _ _).2.2]; exact Nat.le_refl _)
  unfold setUser
  split
  · rfl
  · simp only
    split
    · exact hg
    · split
      · exact hg
      · simp only [Db.putUser]
        rw [← hg]
        refine sig_putUser_same ?_ hi2.nodup
        obtain ⟨v, hv, hvid, hvn⟩ := hmem
        have hm : (u.id, u.name) ∈
            sig (getUserId { st with hc := {}, nc := {}, nextId := max st.nextId u.id } u.name).1.db.users := by
          rw [hg, ← hvid, ← hvn]; exact mem_sig hv
        unfold finalRecord
        cases live
        · obtain ⟨w, hw, h1, h2⟩ := of_mem_sig hm
          exact ⟨w, hw, h1, h2⟩
        · simp only [if_true]
          split
          · rename_i w hw
            exact ⟨w, (getUserById_spec hw).1, rfl, rfl⟩
          · obtain ⟨w, hw, h1, h2⟩ := of_mem_sig hm
            exact ⟨w, hw, h1, h2⟩

/-- store a changed copy of a stored record under the same id and name, then `setUser` -/
theorem put_setUser_sig {st : St} (hi : Inv st) {u u1 : User} (hu : u ∈ st.db.users)
    (hid : u1.id = u.id) (hnm : u1.name = u.name) :
    sig (setUser { st with db := st.db.putUser u1 } u1).1.db.users = sig st.db.users := by
  have hrec := recInv_put_same (u := u1) hi.recs ⟨u, hu, hid.symm, hnm.symm⟩
  rw [setUser_sig_same hrec true ⟨u1, mem_putUser_self _ _, rfl, rfl⟩]
  exact sig_putUser_same ⟨u, hu, hid.symm, hnm.symm⟩ hi.recs.nodup

theorem withUser_sig {st : St} (id : Nat) (f : User → St × Out)
    (hf : ∀ u, u ∈ st.db.users → u.id = id → sig (f u).1.db.users = sig st.db.users) :
    sig (withUser st id f).1.db.users = sig st.db.users := by
  unfold withUser
  split
  · rename_i u hu
    obtain ⟨hm, hid⟩ := getUserById_spec hu
    exact hf u hm hid
  · rfl

/-- the operations the plugin (and `Irc.doNick`) runs that touch no name -/
def Op.keepsNames : Op → Bool
  | .addHost _ _ | .rmHost _ _ | .clearHosts _ | .identify _ _ | .unidentify _ | .secure _ _ | .tick _
  | .followNick _ _ _ => true
  | _ => false

theorem step_sig_same {st : St} (hi : Inv st) (op : Op) (hk : op.keepsNames = true) :
    sig (step st op).1.db.users = sig st.db.users := by
  cases op with
  | addHost id h =>
    simp only [step]
    apply withUser_sig
    intro u hu huid
    cases ha : addHostmask u h with
    | error e => rfl
    | ok u1 =>
      simp only
      obtain ⟨hid, hnm⟩ := addHostmask_same ha
      have hs := put_setUser_sig hi hu hid hnm
      have hinv : Inv (setUser { st with db := st.db.putUser u1 } u1).1 :=
        setUser_inv (recInv_put_same (u := u1) hi.recs ⟨u, hu, hid.symm, hnm.symm⟩) u1
          (by rw [hnm]; exact hi.recs.names u hu)
      split
      · exact hs
      · split
        · exact hs
        · rename_i u' hu'
          obtain ⟨hm', _⟩ := getUserById_spec hu'
          split
          · rename_i u2 hr
            obtain ⟨h1, h2, _, _⟩ := removeHostmask_spec hr
            exact (sig_putUser_same ⟨u', hm', h1.symm, h2.symm⟩ hinv.recs.nodup).trans hs
          · exact hs
  | rmHost id h =>
    simp only [step]
    apply withUser_sig
    intro u hu huid
    cases ha : removeHostmask u h with
    | error e => rfl
    | ok u1 =>
      simp only
      obtain ⟨h1, h2, _, _⟩ := removeHostmask_spec ha
      exact put_setUser_sig hi hu h1 h2
  | clearHosts id =>
    simp only [step]
    apply withUser_sig
    intro u hu huid
    exact put_setUser_sig hi hu rfl rfl
  | identify id h =>
    simp only [step]
    apply withUser_sig
    intro u hu huid
    cases ha : addAuth u st.db.timeout st.now h with
    | error e => rfl
    | ok u1 =>
      simp only
      have hsame : u1.id = u.id ∧ u1.name = u.name := by
        unfold addAuth at ha
        split at ha
        · injection ha with ha; subst ha; exact ⟨rfl, rfl⟩
        · cases ha
      exact put_setUser_sig hi hu hsame.1 hsame.2
  | unidentify id =>
    simp only [step]
    apply withUser_sig
    intro u hu huid
    simp only [clearAuth]
    obtain ⟨h1, h2, _⟩ := clearAuth_fold_inv hi u.auth
    have hu' : u ∈ (u.auth.foldl (fun s e => invalidateHost s e.2) st).db.users := by rw [h2]; exact hu
    have := put_setUser_sig (u1 := { u with auth := [] }) h1 hu' rfl rfl
    rw [h2] at this
    rw [← this, h2]
  | secure id b =>
    simp only [step]
    apply withUser_sig
    intro u hu huid
    exact put_setUser_sig hi hu rfl rfl
  | tick dt => rfl
  | register _ _ => cases hk
  | rename _ _ => cases hk
  | logout _ => cases hk
  | pruned _ _ => cases hk
  | setName _ _ => cases hk
  | load _ _ _ _ => cases hk
  | followNick id old new =>
    simp only [step]
    apply withUser_sig
    intro u hu huid
    split
    · rfl
    · split
      · exact put_setUser_sig hi hu rfl rfl
      · exact put_setUser_sig hi hu rfl rfl
  | delUser _ => cases hk
  | lookup _ => cases hk
  | order _ _ => cases hk

/-- the second half of `changename`: the signature afterwards is the one with the record renamed -/
theorem step_setName_sig {st : St} (hi : Inv st) (id : Nat) (name : Str) :
    sig (step st (.setName id name)).1.db.users = sig st.db.users ∨
    ∃ u ∈ st.db.users, u.id = id ∧
      sig (step st (.setName id name)).1.db.users = sig (putUser st.db.users { u with name := name }) := by
  simp only [step]
  unfold withUser
  split
  · rename_i u hu
    obtain ⟨hm, hid⟩ := getUserById_spec hu
    split
    · exact Or.inl rfl
    · rename_i hlb
      have hn : hasLineBreak name = false := by simpa using hlb
      right
      refine ⟨u, hm, hid, ?_⟩
      have hrec : RecInv { st with db := st.db.putUser { u with name := name } } := by
        refine ⟨putUser_nodup hi.recs.nodup, ?_, ?_⟩
        · intro v hv
          rcases mem_putUser' hi.recs.nodup hv with e | e
          · rw [e]; exact hn
          · exact hi.recs.names v e.1
        · intro v hv
          rcases mem_putUser' hi.recs.nodup hv with e | e
          · rw [e]; exact hi.recs.ids u hm
          · exact hi.recs.ids v e.1
      exact setUser_sig_same hrec true ⟨{ u with name := name }, mem_putUser_self _ _, rfl, rfl⟩
  · exact Or.inl rfl

theorem delUser_sig_sub (st : St) (id : Nat) :
    ∀ p ∈ sig (delUser st id).1.db.users, p ∈ sig st.db.users := by
  unfold delUser
  split
  · intro p hp; exact hp
  · dsimp only
    rw [(invalidateId_db _ id).1]
    intro p hp
    obtain ⟨v, hv, h1, h2⟩ := of_mem_sig hp
    have := mem_sig (List.mem_filter.1 hv).1
    rw [h1, h2] at this
    exact this

/-- `registerTail` adds no record: it keeps the signature, or deletes the new account again -/
theorem registerTail_sig {st1 : St} (hi1 : Inv st1) (u0 : User) (hu0 : u0 ∈ st1.db.users) (h : Option Str) :
    ∀ p ∈ sig (registerTail st1 u0 h).1.db.users, p ∈ sig st1.db.users := by
  unfold registerTail
  cases h with
  | none =>
    dsimp only
    have hs := setUser_sig_same hi1.recs (u := u0) true ⟨u0, hu0, rfl, rfl⟩
    split
    · intro p hp; rw [hs] at hp; exact hp
    · intro p hp
      have := delUser_sig_sub _ _ p hp
      rw [hs] at this; exact this
  | some hm =>
    dsimp only
    cases ha : addHostmask u0 hm with
    | error e =>
      dsimp only
      intro p hp
      exact delUser_sig_sub _ _ p hp
    | ok u1 =>
      dsimp only
      obtain ⟨hid, hnm⟩ := addHostmask_same ha
      have hs := put_setUser_sig hi1 hu0 hid hnm
      split
      · intro p hp; rw [hs] at hp; exact hp
      · intro p hp
        have := delUser_sig_sub _ _ p hp
        rw [hs] at this; exact this

/-- `user register`: every record afterwards is an old one, or the new account -/
theorem step_register_sig {st : St} (hi : Inv st) (name : Str) (h : Option Str) :
    ∀ p ∈ sig (step st (.register name h)).1.db.users,
      p ∈ sig st.db.users ∨ p = (st.nextId + 1, name) := by
  simp only [step]
  split
  · intro p hp; exact Or.inl hp
  · rename_i hlb
    have hn : hasLineBreak name = false := by simpa using hlb
    have hfresh : st.nextId + 1 ∉ st.db.users.map (fun u => u.id) := by
      intro hm
      obtain ⟨v, hv, e⟩ := List.mem_map.1 hm
      have := hi.recs.ids v hv
      omega
    have hst1 : ({ (newUser st).1 with db := (newUser st).1.db.putUser { id := (newUser st).2, name := name } } : St) =
        { st with nextId := st.nextId + 1,
                  db := { st.db with users := st.db.users ++ [{ id := st.nextId + 1, name := name }] } } := by
      simp only [newUser, Db.putUser]
      rw [putUser_fresh (u := { id := st.nextId + 1 }) hfresh,
        putUser_append_same (x := { id := st.nextId + 1 }) (u := { id := st.nextId + 1, name := name }) hfresh rfl]
    have hi1 := inv_append_blank hi name hn
    have hid2 : (newUser st).2 = st.nextId + 1 := rfl
    rw [hst1, hid2]
    intro p hp
    have hp1 := registerTail_sig hi1 { id := st.nextId + 1, name := name }
      (List.mem_append_right _ (List.mem_singleton.2 rfl)) h p hp
    simp only [sig, List.map_append, List.map_cons, List.map_nil, List.mem_append, List.mem_singleton] at hp1
    rcases hp1 with hp1 | hp1
    · exact Or.inl hp1
    · exact Or.inr hp1

/-! ### the invariant -/

/-- names never look like hostmasks, and no two accounts share one (compared as `getUserId`
compares names: ASCII case-insensitively) -/
def NamesOK (l : List User) : Prop :=
  (∀ p ∈ sig l, isUserHostmask p.2 = false) ∧
  (∀ p ∈ sig l, ∀ q ∈ sig l, asciiLower p.2 = asciiLower q.2 → p.1 = q.1)

/-- `name` can be given to an account: it does not look like a hostmask and nobody has it -/
def NameFresh (l : List User) (name : Str) : Prop :=
  isUserHostmask name = false ∧ ∀ q ∈ sig l, asciiLower q.2 ≠ asciiLower name

theorem namesOK_of_sig {l l' : List User} (h : NamesOK l) (hs : sig l' = sig l) : NamesOK l' := by
  unfold NamesOK; rw [hs]; exact h

theorem nameFresh_of_sig {l l' : List User} {n : Str} (h : NameFresh l n) (hs : sig l' = sig l) :
    NameFresh l' n := by
  unfold NameFresh; rw [hs]; exact h

/-- a name lookup that raises KeyError: nobody has the name -/
theorem getUserId_key_fresh {st : St} {name : Str} (hh : isUserHostmask name = false)
    (hk : (getUserId st name).2 = .error .key) : NameFresh st.db.users name := by
  refine ⟨hh, ?_⟩
  unfold getUserId at hk
  simp only [hh, Bool.false_eq_true, if_false] at hk
  unfold getUserIdName at hk
  simp only at hk
  split at hk
  · cases hk
  · split at hk
    · cases hk
    · rename_i hf
      intro q hq heq
      obtain ⟨u, hu, _, h2⟩ := of_mem_sig hq
      have := List.find?_eq_none.1 hf u hu
      rw [h2] at this
      simp only [beq_iff_eq] at this
      exact this heq

theorem namesOK_register {st : St} (hi : Inv st) (hok : NamesOK st.db.users) {name : Str}
    (hf : NameFresh st.db.users name) (h : Option Str) :
    NamesOK (step st (.register name h)).1.db.users := by
  have hsub := step_register_sig hi name h
  have hnew : ∀ q ∈ sig st.db.users, q.1 ≠ st.nextId + 1 := by
    intro q hq e
    obtain ⟨u, hu, h1, _⟩ := of_mem_sig hq
    have := hi.recs.ids u hu
    omega
  refine ⟨?_, ?_⟩
  · intro p hp
    rcases hsub p hp with h1 | h1
    · exact hok.1 p h1
    · rw [h1]; exact hf.1
  · intro p hp q hq heq
    rcases hsub p hp with h1 | h1 <;> rcases hsub q hq with h2 | h2
    · exact hok.2 p h1 q h2 heq
    · rw [h2] at heq; exact absurd heq (hf.2 p h1)
    · rw [h1] at heq; exact absurd heq.symm (hf.2 q h2)
    · rw [h1, h2]

theorem namesOK_setName {st : St} (hi : Inv st) (hok : NamesOK st.db.users) (id : Nat) {name : Str}
    (hf : NameFresh st.db.users name) :
    NamesOK (step st (.setName id name)).1.db.users := by
  rcases step_setName_sig hi id name with hs | ⟨u, hu, huid, hs⟩
  · exact namesOK_of_sig hok hs
  · refine namesOK_of_sig ?_ hs
    have hmem : ∀ p ∈ sig (putUser st.db.users { u with name := name }),
        p = (u.id, name) ∨ (p ∈ sig st.db.users ∧ p.1 ≠ u.id) := by
      intro p hp
      obtain ⟨v, hv, h1, h2⟩ := of_mem_sig hp
      rcases mem_putUser' hi.recs.nodup hv with e | e
      · left; rw [e] at h1 h2; exact Prod.ext h1.symm h2.symm
      · right
        have := mem_sig e.1
        rw [h1, h2] at this
        exact ⟨this, by rw [← h1]; exact e.2⟩
    refine ⟨?_, ?_⟩
    · intro p hp
      rcases hmem p hp with h1 | h1
      · rw [h1]; exact hf.1
      · exact hok.1 p h1.1
    · intro p hp q hq heq
      rcases hmem p hp with h1 | h1 <;> rcases hmem q hq with h2 | h2
      · rw [h1, h2]
      · rw [h1] at heq; exact absurd heq.symm (hf.2 q h2.1)
      · rw [h2] at heq; exact absurd heq (hf.2 p h1.1)
      · exact hok.2 p h1.1 q h2.1 heq

end C04
