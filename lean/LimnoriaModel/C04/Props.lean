/-
C04 — property theorems: a sender is recognised as an account only via its own hostmasks or
login; the answer is the one a cache-free recomputation would give.
(The model is `C04/Model.lean`; the cache-free, effect-free lookup `Db.lookup` / `Db.recognise`
is the one of `C03/Model.lean`; invariants and their preservation are in `C04/Lemmas.lean`.)
-/
import LimnoriaModel.C04.Lemmas
import LimnoriaModel.C04.Glob
import LimnoriaModel.C04.PluginLemmas
import LimnoriaModel.C04.Overlap
namespace C04
open Py C03

/-- **Every reachable state satisfies the invariant**: distinct ids, no line break in a stored
name, and — for the caches — a cached hostmask is a user hostmask matched by no other user, a
cached name finds its user first, reverse name entries exist.  `step_inv` (Lemmas) proves the
preservation for each of the twelve operations. -/
theorem inv_step (st : St) (hi : Inv st) (op : Op) : Inv (step st op).1 := step_inv hi op

theorem inv_run (t : Int) (ops : List Op) : Inv (run { db := { timeout := t } } ops) :=
  run_inv (init_inv t) ops

/-- the states the bot can be in: any history from an empty database with any login timeout -/
def Reachable (st : St) : Prop := ∃ (t : Int) (ops : List Op), st = run { db := { timeout := t } } ops

theorem reachable_inv {st : St} (hr : Reachable st) : Inv st := by
  obtain ⟨t, ops, e⟩ := hr
  rw [e]; exact inv_run t ops

theorem reachable_step {st : St} (hr : Reachable st) (op : Op) : Reachable (step st op).1 := by
  obtain ⟨t, ops, e⟩ := hr
  refine ⟨t, ops ++ [op], ?_⟩
  rw [e]
  simp [run, List.foldl_append]

/-- **Cache transparency.**  After *any* history of register / hostmask add / hostmask remove /
identify / unidentify / changename / set secure / users.conf load / delUser / clock ticks /
lookups, started from an empty database with any login timeout, `getUserId(s)` — with whatever
the two caches hold at that point — answers what the cache-free, effect-free lookup answers on
the current records at the current time: the same id, KeyError for nobody, and
DuplicateHostmask (or the KeyError that `removeHostmask(True)` raises inside the removal loop)
exactly when two users match. -/
theorem cache_transparent {st : St} (hr : Reachable st) (s : Str) :
    agrees (st.db.lookup st.now s) (getUserId st s).2 :=
  getUserId_agrees (reachable_inv hr).recs (reachable_inv hr).cache s

example : Reachable (run { db := { timeout := 10 } } [.register ['a', 'l'] none, .tick 3]) := ⟨10, _, rfl⟩

/-- non-vacuity: a history that warms the cache, then lets the login expire; the cached answer
is dropped (this is the design-time defect, after its repair) -/
example :
    (step (run { db := { timeout := 10 } }
      [.register ['a', 'l'] none, .identify 1 ['a', '!', 'x', '@', 'y'], .lookup ['a', '!', 'x', '@', 'y'], .tick 100])
      (.lookup ['a', '!', 'x', '@', 'y'])).2 = .err .key := by decide

example :
    (step (run { db := { timeout := 10 } }
      [.register ['a', 'l'] none, .identify 1 ['a', '!', 'x', '@', 'y'], .tick 5])
      (.lookup ['a', '!', 'x', '@', 'y'])).2 = .id 1 := by decide

/-- what "the user matches the hostmask" means: one of the registered patterns globs it, or there
is an unexpired login from exactly this hostmask -/
def MatchesUser (st : St) (u : User) (s : Str) : Prop :=
  (∃ p ∈ u.hostmasks, glob p s = true) ∨
  (∃ e ∈ u.auth, authLive st.db.timeout st.now e = true ∧ e.2 = s)

theorem matchesUser_of_check {st : St} {u : User} {s : Str} (hs : isUserHostmask s = true)
    (h : u.checkHostmask st.db.timeout st.now s true = true) : MatchesUser st u s := by
  rw [checkHostmask_any hs] at h
  simp only [Bool.true_and, Bool.or_eq_true] at h
  rcases h with h | h
  · right
    unfold User.authMatch at h
    rw [List.any_eq_true] at h
    obtain ⟨e, he, hp⟩ := h
    simp only [Bool.and_eq_true, beq_iff_eq] at hp
    exact ⟨e, he, hp.1, hp.2⟩
  · left
    rw [List.any_eq_true] at h
    exact h

theorem lookup_found_host {db : Db} {now : Int} {s : Str} {u : User} (hs : isUserHostmask s = true)
    (h : db.lookup now s = .found u) :
    db.users.filter (fun u => u.checkHostmask db.timeout now s true) = [u] := by
  unfold Db.lookup at h
  simp only [hs, if_true] at h
  generalize db.users.filter (fun u => u.checkHostmask db.timeout now s true) = l at h
  match l, h with
  | [v], h => injection h with h; rw [h]

/-- **Soundness of recognition.**  In every reachable state, when `getUserId` resolves a user
hostmask to an id, that id is a stored user who matches the hostmask: by a registered pattern
(IRC glob, rfc1459 case pairs) or by an unexpired login from exactly that hostmask — and
(**uniqueness**) no other stored user matches it.  When two users match, the answer is an
exception (`cache_transparent`): a hostmask never resolves to two accounts. -/
theorem getUserId_sound {st : St} (hr : Reachable st) (s : Str) (id : Nat)
    (hs : isUserHostmask s = true) (h : (getUserId st s).2 = .ok id) :
    ∃ u ∈ st.db.users, u.id = id ∧ MatchesUser st u s := by
  have ha := cache_transparent hr s
  rw [h] at ha
  cases hl : st.db.lookup st.now s with
  | found u =>
    rw [hl] at ha
    have hf := lookup_found_host hs hl
    have hm : u ∈ st.db.users.filter (fun u => u.checkHostmask st.db.timeout st.now s true) := by
      rw [hf]; simp
    obtain ⟨h1, h2⟩ := List.mem_filter.1 hm
    exact ⟨u, h1, ha, matchesUser_of_check hs h2⟩
  | missing => rw [hl] at ha; cases ha
  | duplicate => rw [hl] at ha; cases ha

theorem getUserId_unique {st : St} (hr : Reachable st) (s : Str) (id : Nat)
    (hs : isUserHostmask s = true) (h : (getUserId st s).2 = .ok id) :
    ∀ v ∈ st.db.users, v.id ≠ id → v.checkHostmask st.db.timeout st.now s true = false := by
  have ha := cache_transparent hr s
  rw [h] at ha
  cases hl : st.db.lookup st.now s with
  | found u =>
    rw [hl] at ha
    have hf := lookup_found_host hs hl
    intro v hv hne
    cases hc : v.checkHostmask st.db.timeout st.now s true with
    | false => rfl
    | true =>
      have hm : v ∈ st.db.users.filter (fun u => u.checkHostmask st.db.timeout st.now s true) :=
        List.mem_filter.2 ⟨hv, hc⟩
      rw [hf, List.mem_singleton] at hm
      rw [hm] at hne
      exact absurd ha hne
  | missing => rw [hl] at ha; cases ha
  | duplicate => rw [hl] at ha; cases ha

/-- **A secure account additionally needs a registered mask**: the recognition used by
`checkCapability` (`C03.Db.recognise`) accepts a secure user only when one of the user's own
patterns matches the sender, whatever logins exist. -/
theorem recognise_secure (db : Db) (now : Int) (h : Str) (u : User)
    (hr : db.recognise now h = some u) (hsec : u.secure = true) :
    ∃ p ∈ u.hostmasks, glob p h = true := by
  unfold Db.recognise at hr
  split at hr
  · cases hr
  cases hl : db.lookup now h with
  | found v =>
    rw [hl] at hr
    simp only at hr
    split at hr
    · cases hr
    · rename_i hc
      injection hr with hr; subst hr
      simp only [hsec, Bool.true_and, Bool.not_eq_true', Bool.not_eq_false] at hc
      unfold User.checkHostmask at hc
      simp only [Bool.false_and, Bool.false_or] at hc
      unfold User.patMatch at hc
      cases hf : v.hostmasks.find? (fun p => glob p h) with
      | none => rw [hf] at hc; cases hc
      | some p =>
        exact ⟨p, List.mem_of_find?_eq_some hf, by have := List.find?_some hf; simpa using this⟩
  | missing => rw [hl] at hr; cases hr
  | duplicate => rw [hl] at hr; cases hr

/-- **No overlap after an accepted `setUser`**: when `setUser(u)` succeeds, the record `w` it
stores under `u.id` (the stored object itself when the caller modified it in place) has no mask
that matches, as a pattern, a mask of another stored user read as a string, none for which
`hostmaskPatternsIntersect` finds a common hostmask with a mask of another user (so, by
`intersect_complete`, none that shares a hostmask with it: `setUser_no_common_instance`), and no
other user's `checkHostmask` accepts a mask of `w` read as a hostmask. -/
theorem setUser_no_literal_overlap (st : St) (u : User) (live : Bool)
    (h : (setUser st u live).2 = .ok ()) :
    ∃ w ∈ (setUser st u live).1.db.users, w.id = u.id ∧
      ∀ hm ∈ w.hostmasks, ∀ v ∈ (setUser st u live).1.db.users, v.id ≠ u.id →
        (∀ o ∈ v.hostmasks, glob hm o = false ∧ intersect hm o = false) ∧
        maskHitsUser v (setUser st u live).1.db.timeout (setUser st u live).1.now hm = false := by
  obtain ⟨r, hr, hov⟩ := setUser_ok_spec h
  have hwid : (finalRecord r u live).id = u.id := by
    unfold finalRecord
    cases live
    · rfl
    · simp only [if_true]
      cases hg : r.db.getUserById u.id with
      | none => rfl
      | some w => exact (getUserById_spec hg).2
  rw [hr]
  refine ⟨finalRecord r u live, mem_putUser_self _ _, hwid, ?_⟩
  intro hm hhm v hv hne
  have hv' : v ∈ r.db.users := by
    rcases C03.mem_putUser hv with e | e
    · rw [e, hwid] at hne; exact absurd rfl hne
    · exact e
  unfold overlaps at hov
  rw [List.any_eq_false] at hov
  have h1 := hov hm hhm
  simp only [Bool.not_eq_true] at h1
  rw [List.any_eq_false] at h1
  have h2 := h1 v hv'
  have hne' : (v.id != (finalRecord r u live).id) = true := by rw [hwid]; simpa using hne
  simp only [hne', Bool.true_and, Bool.not_eq_true, Bool.or_eq_false_iff] at h2
  refine ⟨?_, h2.1⟩
  have := h2.2
  rw [List.any_eq_false] at this
  intro o ho
  simpa using this o ho

/-- **Two accounts never come to own masks with a hostmask in common through `setUser`**: after
an accepted `setUser(u)`, no hostmask (without LF) is matched by a mask of the stored record of
`u.id` and by a mask of another account. -/
theorem setUser_no_common_instance (st : St) (u : User) (live : Bool)
    (h : (setUser st u live).2 = .ok ()) :
    ∃ w ∈ (setUser st u live).1.db.users, w.id = u.id ∧
      ∀ hm ∈ w.hostmasks, ∀ v ∈ (setUser st u live).1.db.users, v.id ≠ u.id → ∀ o ∈ v.hostmasks,
        ∀ s, '\n' ∉ s → ¬ (glob hm s = true ∧ glob o s = true) := by
  obtain ⟨w, hw, hid, hall⟩ := setUser_no_literal_overlap st u live h
  refine ⟨w, hw, hid, ?_⟩
  intro hm hhm v hv hne o ho s hs ⟨h1, h2⟩
  have := ((hall hm hhm v hv hne).1 o ho).2
  rw [intersect_complete hs h1 h2] at this
  cases this

/-- **Two accounts can never own overlapping masks.**  In every state reachable by any history
of dictionary operations (register, hostmask add/remove, identify, unidentify, changename, set
secure, users.conf load, delUser, ticks, lookups), no hostmask (without LF — IRC prefixes contain
none) is matched by masks of two different accounts.  (`step_noCommon`, `C04/Overlap.lean`: an
accepted `setUser` tested the stored record against everybody else with
`hostmaskPatternsIntersect`, which is complete; a refused one is rolled back or adds no mask.) -/
theorem no_overlapping_masks {st : St} (hr : Reachable st) : NoCommon st.db.users := by
  obtain ⟨t, ops, e⟩ := hr
  subst e
  have key : ∀ (st : St), Inv st → NoCommon st.db.users → Inv (run st ops) ∧ NoCommon (run st ops).db.users := by
    induction ops with
    | nil => intro st h1 h2; exact ⟨h1, h2⟩
    | cons o os ih =>
      intro st h1 h2
      unfold run
      simp only [List.foldl_cons]
      exact ih _ (step_inv h1 o) (step_noCommon h1 h2 o)
  refine (key _ (init_inv t) ?_).2
  intro u hu; cases hu

/-- … and so a sender's hostmask can match two accounts only through a *login* (an `identify`
with the other account's password from a host that the first account's mask matches): pattern
matches alone never collide. -/
theorem two_pattern_matches_same_account {st : St} (hr : Reachable st) (s : Str) (hs : '\n' ∉ s)
    (u v : User) (hu : u ∈ st.db.users) (hv : v ∈ st.db.users)
    (hmu : ∃ p ∈ u.hostmasks, glob p s = true) (hmv : ∃ q ∈ v.hostmasks, glob q s = true) :
    u.id = v.id := by
  obtain ⟨p, hp, hgp⟩ := hmu
  obtain ⟨q, hq, hgq⟩ := hmv
  cases Nat.decEq u.id v.id with
  | isTrue h => exact h
  | isFalse h => exact absurd ⟨hgp, hgq⟩ (no_overlapping_masks hr u hu v hv h p hp q hq s hs)

/-! ## The design-time finding "masks with a common instance are accepted", after its repair -/

def annMask : Str := ['a', 'n', 'n', '*', '!', '*', '@', '*']
def beaMask : Str := ['*', 'b', 'e', 'a', '!', '*', '@', '*']
def abHost : Str := ['a', 'n', 'n', 'b', 'e', 'a', '!', 'x', '@', 'y']
def overlapHistory : List Op :=
  [.register ['a', 'n', 'n'] (some annMask), .register ['b', 'e', 'a'] (some beaMask)]

/-- `annbea!x@y` is an instance of both masks; the second registration is now refused (and rolled
back), and that sender resolves to the first account -/
theorem semantic_overlap_refused :
    glob annMask abHost = true ∧ glob beaMask abHost = true ∧ intersect annMask beaMask = true ∧
    (step (run {} [.register ['a', 'n', 'n'] (some annMask)]) (.register ['b', 'e', 'a'] (some beaMask))).2 = .err .value ∧
    (run {} overlapHistory).db.users.map (fun u => (u.id, u.hostmasks)) = [(1, [annMask])] ∧
    (step (run {} overlapHistory) (.lookup abHost)).2 = .id 1 := by
  decide

/-- **The tolerant step of the model is never taken**: in every reachable state each cached
hostmask is listed in the reverse entry of its id, so `invalidateCache(hostmask=h)` cannot raise
KeyError at `self._hostmaskCache[id].remove(h)` (where the model, unlike the code, would just go
on). -/
theorem revOK_reachable {st : St} (hr : Reachable st) : RevOK st.hc := by
  obtain ⟨t, ops, e⟩ := hr
  rw [e]; exact revOK_run revOK_empty ops

/-- **Capability decisions never depend on the lookup caches** (the C03 clause): in every
reachable state, `ircdb.checkCapability` as the bot runs it — recognition through
`UsersDictionary.getUser` with both caches, hit re-validation and duplicate removal, then the
`secure` re-check and the decision stages — returns exactly what the cache-free
`C03.Db.checkCapability` returns on the current records at the current time (to which
`C03.check_eq_spec` applies). -/
theorem checkCapability_cache_free {st : St} (hr : Reachable st) (h cap : Str) (fl : Flags) :
    (checkCapabilityS st h cap fl).2 = st.db.checkCapability st.now h cap fl :=
  checkCapabilityS_eq (reachable_inv hr) h cap fl

/-! ## the glob matcher (`C04/Glob.lean`)
* `glob_iff_matches : glob p h = true ↔ Matches p h` — the matcher computes the declarative
  relation (`*` any run without LF, `?` one character, rfc1459 pairs and ASCII case collapsed,
  anchored at both ends, one trailing LF tolerated);
* `glob_case : glob (toLower p) (toLower h) = glob p h` — matching is IRC-case-insensitive;
* `rfc1459_table_classes` — the obligation on the extracted case table both rest on. -/

/-! ## the User plugin: a login is always backed by the account's password
`C04/Plugin.lean` models `register`, `identify`, `unidentify`, `hostmask add`, `hostmask remove`,
`set secure`, `whoami` with their converters and guards; `pwOk` is the password test
(`IrcUser.checkPassword`), a parameter.  The ghost log records every `identify` whose password
test succeeded. -/

/-- the states the bot reaches from a database without accounts through commands of the User
plugin and NICK messages, with `supybot.followIdentificationThroughNickChanges` on or off: every
command is processed as the live bot does (`pstepA`: the sender is remembered, the bot's own
lookups of the sender run before and after, for any numbers of them), every NICK message as
`Irc.doNick` and `IrcState.doNick` do (`nickStep`) -/
def PReachable (pwOk : Str → Str → Bool) (pst : PSt) : Prop :=
  ∃ (db : Db) (amb : Ambient) (follow : Bool) (evs : List Ev),
    db.users = [] ∧ pst = erun amb pwOk { st := { db := db }, follow := follow } evs

theorem preachable_pinv {pwOk : Str → Str → Bool} {pst : PSt} (hr : PReachable pwOk pst) :
    PInv pwOk pst := by
  obtain ⟨db, amb, follow, evs, hdb, e⟩ := hr
  rw [e]; exact erun_pinv amb (pinit pwOk db hdb follow) evs

/-- **No dictionary operation but `identify` and `followNick` writes a login** (`step_auth`),
**the plugin runs `identify` only for `identify <name> <password>` from that exact sender after
the password test** (`guard_identify`) **and never `followNick`** (`guard_not_follow`), **and
`Irc.doNick` moves a login only from the NICK message's own sender to that sender's new
hostmask** (`nickStep_pinv`).  Hence: in every reachable state, every login entry `(t, h)` of
every account goes back to an `identify` command sent at time `t` from `l.origin` with a password
that the account's password test accepted, where `h` is `l.origin` itself — or, when the bot is
configured to follow nick changes, is reached from `l.origin` by NICK messages each sent by
exactly the hostmask reached so far (`Follows`). -/
theorem auth_backed_by_password {pwOk : Str → Str → Bool} {pst : PSt} (hr : PReachable pwOk pst) :
    ∀ u ∈ pst.st.db.users, ∀ e ∈ u.auth,
      ∃ l ∈ pst.log, l.uid = u.id ∧ l.t = e.1 ∧ l.host = e.2 ∧
        (∃ stored, pst.pws.lookup u.id = some stored ∧ pwOk stored l.pw = true) ∧
        Follows pst.events l.origin l.host ∧ (pst.follow = false → l.host = l.origin) := by
  have hp := preachable_pinv hr
  intro u hu e he
  obtain ⟨l, hl, h1, h2, h3⟩ := hp.backed u hu e he
  obtain ⟨s, hs, hok⟩ := hp.logOK l hl
  exact ⟨l, hl, h1, h2, h3, ⟨s, h1 ▸ hs, hok⟩, hp.linked l hl⟩

/-- every NICK message that moved a login came from a user hostmask and changed only the nick:
the new hostmask is the new nick followed by the sender's own `!user@host` -/
theorem followed_nick_only {pwOk : Str → Str → Bool} {pst : PSt} (hr : PReachable pwOk pst) :
    ∀ e ∈ pst.events, isUserHostmask e.1 = true ∧ ∃ nn, e.2 = newHost e.1 nn :=
  (preachable_pinv hr).events

/-- **Recognition, complete statement.**  In every state reachable through the User plugin, when
`getUserId` (caches and all) resolves a user hostmask `s` to an id, that id is a stored account
and either one of its registered patterns matches `s` (IRC glob and case rules), or somebody
identified WITH THE ACCOUNT'S PASSWORD from `l.origin` and that login has not timed out, where
`l.origin` is exactly `s` — or, only when the bot follows nick changes, `s` is what the server's
NICK messages turned `l.origin` into. -/
theorem recognised_by_mask_or_password {pwOk : Str → Str → Bool} {pst : PSt}
    (hr : PReachable pwOk pst) (s : Str) (id : Nat) (hs : isUserHostmask s = true)
    (h : (getUserId pst.st s).2 = .ok id) :
    ∃ u ∈ pst.st.db.users, u.id = id ∧
      ((∃ p ∈ u.hostmasks, glob p s = true) ∨
       (∃ l ∈ pst.log, l.uid = id ∧ l.host = s ∧
          authLive pst.st.db.timeout pst.st.now (l.t, s) = true ∧
          (∃ stored, pst.pws.lookup id = some stored ∧ pwOk stored l.pw = true) ∧
          Follows pst.events l.origin s ∧ (pst.follow = false → l.origin = s))) := by
  have hp := preachable_pinv hr
  have ha := getUserId_agrees hp.inv.recs hp.inv.cache s
  rw [h] at ha
  cases hl : pst.st.db.lookup pst.st.now s with
  | found u =>
    rw [hl] at ha
    have hf := lookup_found_host hs hl
    have hm : u ∈ pst.st.db.users.filter (fun u => u.checkHostmask pst.st.db.timeout pst.st.now s true) := by
      rw [hf]; simp
    obtain ⟨h1, h2⟩ := List.mem_filter.1 hm
    refine ⟨u, h1, ha, ?_⟩
    rcases matchesUser_of_check hs h2 with hpat | ⟨e, he, hlive, hes⟩
    · exact Or.inl hpat
    · right
      obtain ⟨l, hl', h3, h4, h5, ⟨stored, h6, h7⟩, h8, h9⟩ := auth_backed_by_password hr u h1 e he
      have hhs : l.host = s := h5.trans hes
      refine ⟨l, hl', h3.trans ha, hhs, ?_, ⟨stored, ha ▸ h6, h7⟩, hhs ▸ h8, fun hf => (h9 hf).symm.trans hhs⟩
      rw [h4, ← hes]; exact hlive
  | missing => rw [hl] at ha; cases ha
  | duplicate => rw [hl] at ha; cases ha

/-- **Account names.**  In every state reachable through the User plugin and NICK messages no
account name looks like a hostmask — so every account can be addressed by its name — and no two
accounts have the same name (compared ASCII case-insensitively, as `getUserId` compares names):
`register` and `changename` look the new name up first and refuse hostmask-like names
(`guard_names`), and no other command's operation touches a name (`step_sig_same`). -/
theorem account_names_unique {pwOk : Str → Str → Bool} {pst : PSt} (hr : PReachable pwOk pst) :
    (∀ u ∈ pst.st.db.users, isUserHostmask u.name = false) ∧
    ∀ u ∈ pst.st.db.users, ∀ v ∈ pst.st.db.users, asciiLower u.name = asciiLower v.name → u.id = v.id := by
  have h := (preachable_pinv hr).names
  exact ⟨fun u hu => h.1 _ (mem_sig hu), fun u hu v hv e => h.2 _ (mem_sig hu) _ (mem_sig hv) e⟩

/-- **A name never resolves to two accounts either**: when `getUserId` (name cache and all)
resolves an account name to an id, that id is the one stored account of that name -/
theorem name_resolves_to_the_account {pwOk : Str → Str → Bool} {pst : PSt} (hr : PReachable pwOk pst)
    (s : Str) (id : Nat) (hs : isUserHostmask s = false) (h : (getUserId pst.st s).2 = .ok id) :
    ∃ u ∈ pst.st.db.users, u.id = id ∧ asciiLower u.name = asciiLower s ∧
      ∀ v ∈ pst.st.db.users, asciiLower v.name = asciiLower s → v.id = id := by
  have hp := preachable_pinv hr
  have ha := getUserId_agrees hp.inv.recs hp.inv.cache s
  rw [h] at ha
  unfold Db.lookup at ha
  simp only [hs, Bool.false_eq_true, if_false] at ha
  cases hf : pst.st.db.users.find? (fun u => asciiLower u.name == asciiLower s) with
  | none => rw [hf] at ha; cases ha
  | some u =>
    rw [hf] at ha
    have hu := List.mem_of_find?_eq_some hf
    have hn : asciiLower u.name = asciiLower s := by
      have := List.find?_some hf
      simpa using this
    refine ⟨u, hu, ha, hn, ?_⟩
    intro v hv hvn
    rw [← ha]
    exact (account_names_unique hr).2 v hv u hu (hvn.trans hn.symm)

/-- the same through the User plugin: accounts never own masks with a hostmask in common -/
theorem plugin_no_overlapping_masks {pwOk : Str → Str → Bool} {pst : PSt} (hr : PReachable pwOk pst) :
    NoCommon pst.st.db.users := (preachable_pinv hr).disjoint

/-- a `secure` account only accepts a login from a hostmask one of its masks matches
(`IrcUser.addAuth`, checked WITHOUT the existing logins) -/
theorem addAuth_secure (u u1 : User) (t now : Int) (h : Str) (hsec : u.secure = true)
    (ha : addAuth u t now h = .ok u1) : ∃ p ∈ u.hostmasks, glob p h = true := by
  unfold addAuth at ha
  split at ha
  · rename_i hc
    simp only [hsec, Bool.not_true, Bool.or_false] at hc
    unfold checkHostmask at hc
    simp only [Bool.false_and, Bool.false_eq_true, if_false] at hc
    unfold User.patMatch at hc
    cases hf : u.hostmasks.find? (fun p => glob p h) with
    | none => rw [hf] at hc; cases hc
    | some p => exact ⟨p, List.mem_of_find?_eq_some hf, by have := List.find?_some hf; simpa using this⟩
  · cases ha

/-- non-vacuity, and the scenario behind the seeded change C04-m4: with equality as password
test, `identify alice wrong` from a host that a broad mask of alice matches is refused and
creates no login; after the mask is removed the sender is a stranger -/
example :
    let A : Str := ['n', 'a', '!', 'u', '@', 'h', '.', 'a']
    let M : Str := ['n', 'm', '!', 'u', '@', 'd', '.', 'i', 's', 'p']
    let alice : Str := ['a', 'l', 'i', 'c', 'e']
    let pw : Str := ['p', 'w', '1']
    let broad : Str := ['*', '!', '*', '@', '*', '.', 'i', 's', 'p']
    let pst := prun (fun s a => s == a) { st := { db := Db.initial } }
      [.register A alice pw, .hostAdd A (some alice) broad pw, .identify M alice ['x'],
       .hostRemove A (some alice) broad pw]
    (pstep (fun s a => s == a) pst (.whoami M)).2 = .stranger ∧ pst.log = [] := by
  decide

/-- non-vacuity for the names: `changename` to a name that looks like a hostmask or that somebody
has is refused, to a free one it succeeds -/
example :
    let A : Str := ['n', 'a', '!', 'u', '@', 'h', '.', 'a']
    let B : Str := ['n', 'b', '!', 'u', '@', 'h', '.', 'b']
    let alice : Str := ['a', 'l', 'i', 'c', 'e']
    let bobby : Str := ['B', 'o', 'b']
    let pw : Str := ['p', 'w', '1']
    let pst := prun (fun s a => s == a) { st := { db := Db.initial } } [.register A alice pw, .register B bobby pw]
    (pstep (fun s a => s == a) pst (.changename A alice ['x', '!', 'y', '@', 'z'] pw)).2 = .invalid ∧
    (pstep (fun s a => s == a) pst (.changename A alice ['b', 'O', 'B'] pw)).2 = .nameTaken ∧
    (pstep (fun s a => s == a) pst (.changename A alice ['e', 'v', 'e'] pw)).2 = .success ∧
    pst.st.db.users.map (fun u => u.name) = [alice, bobby] := by
  decide

/-- non-vacuity for NICK following: alice identifies from `na!u@h.a` and changes her nick to
`nb`; with the option on the login moves to `nb!u@h.a` (and the log says where the password came
from), with the option off it stays where it was -/
example :
    let A : Str := ['n', 'a', '!', 'u', '@', 'h', '.', 'a']
    let B : Str := ['n', 'b', '!', 'u', '@', 'h', '.', 'a']
    let alice : Str := ['a', 'l', 'i', 'c', 'e']
    let pw : Str := ['p', 'w', '1']
    let evs : List Ev := [.cmd (.register A alice pw), .cmd (.hostRemove A none A []),
      .cmd (.identify A alice pw), .nick A ['n', 'b']]
    let on := erun {} (fun s a => s == a) { st := { db := Db.initial }, follow := true } evs
    let off := erun {} (fun s a => s == a) { st := { db := Db.initial } } evs
    (pstep (fun s a => s == a) on (.whoami B)).2 = .iam alice ∧
    (pstep (fun s a => s == a) on (.whoami A)).2 = .stranger ∧
    on.log.map (fun l => (l.origin, l.host)) = [(A, A), (A, B)] ∧
    (pstep (fun s a => s == a) off (.whoami B)).2 = .stranger ∧
    (pstep (fun s a => s == a) off (.whoami A)).2 = .iam alice := by
  decide

end C04
