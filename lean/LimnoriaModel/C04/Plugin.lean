/-
C04 — the User plugin's commands that create, remove or use what recognition rests on:
`register`, `identify`, `unidentify`, `hostmask add`, `hostmask remove`, `set secure`, `whoami`
(plugins/User/plugin.py) with their `wrap` converters (`private`, `otherUser`, `user`,
`first('otherUser', 'user')`; src/commands.py:412-453), on top of the dictionary model of
`C04/Model.lean`.

Every command is a *guard* — lookups with their cache and duplicate-removal effects, password
and hostmask tests — that ends in a reply or in exactly one dictionary operation `Op` of
`C04/Model.lean`.

* Password checking (`IrcUser.checkPassword`, salted hashes) is the parameter
  `pwOk : stored → attempt → Bool`; the state keeps the secret each account was registered with.
* Ghost state: `log` records every `identify` whose password test succeeded (account, time,
  the sender's exact hostmask, the password given).  It exists only for the theorems
  (`auth_backed_by_password`) and for the harness oracle, which keeps the same log from the
  commands it sends.
* `nicks` is `irc.state.nicksToHostmasks` restricted to what this layer feeds it: every incoming
  message records its sender's nick (the nick fallback of the `otherUser` converter reads it).
* `nickStep` is `Irc.doNick` under `supybot.followIdentificationThroughNickChanges` (`follow`):
  the logins of the sender's account that were made from the sender's hostmask move to the new
  hostmask.  The ghost log follows (`followLog`) and `events` records the NICK message.
* `pstepA` adds what the bot does around every command: its own lookups of the sender
  (`checkIgnored` in `Owner.__call__` and `Owner.doPrivmsg`, which abort the dispatch when the
  sender matches two accounts; the command-capability checks; one `checkIgnored` per other loaded
  plugin afterwards).  How many there are depends on the loaded plugins: the numbers are
  parameters (`Ambient`), measured by the harness on the live bot.
-/
import LimnoriaModel.C04.Model
namespace C04
open Py C03

/-- kinds of replies (the harness classifies the bot's reply texts into these) -/
inductive Reply
  | success            -- replySuccess / "Secure flag set to …"
  | incorrectAuth      -- supybot.replies.incorrectAuthentication
  | notRegistered      -- supybot.replies.notRegistered
  | noUser             -- supybot.replies.noUser
  | secureError        -- "Your secure flag is true and your hostmask doesn't match …"
  | nameTaken          -- "That name is already assigned to someone."
  | hostmaskTaken      -- "Your hostmask is already registered to …" / "That hostmask is already registered…"
  | invalid            -- errorInvalid (user name / hostmask)
  | invalidMask        -- ValueError text of addHostmask
  | noSuchHostmask     -- "There was no such hostmask."
  | usage              -- ArgumentError: the command's help
  | generic            -- "An error has occurred and has been logged."
  | iam (name : Str)   -- whoami: the account name
  | stranger           -- whoami: not recognised
  | silent             -- no reply at all
deriving DecidableEq, Repr

structure LogEntry where
  uid : Nat
  t : Int
  /-- the hostmask of the login entry this backs -/
  host : Str
  pw : Str
  /-- the sender of the `identify` command that carried `pw` (differs from `host` only after
  `Irc.doNick` followed a nick change) -/
  origin : Str
deriving DecidableEq, Repr

structure PSt where
  st : St := {}
  /-- the secret each account was registered with (`IrcUser.password`, before hashing) -/
  pws : List (Nat × Str) := []
  /-- ghost: the identifications whose password test succeeded -/
  log : List LogEntry := []
  /-- `irc.state.nicksToHostmasks` (an IrcDict: keys compared after `toLower`) -/
  nicks : List (Str × Str) := []
  /-- `supybot.followIdentificationThroughNickChanges` (default False) -/
  follow : Bool := false
  /-- ghost: the NICK messages that made `Irc.doNick` rewrite logins, as (sender, new hostmask) -/
  events : List (Str × Str) := []
deriving Repr

inductive Cmd
  | register (p name pw : Str)
  | identify (p name pw : Str)
  | unidentify (p : Str)
  /-- `hostmask add <name> <mask> <password>` (`some name`) or `hostmask add <mask>` (`none`) -/
  | hostAdd (p : Str) (name : Option Str) (mask pw : Str)
  /-- `hostmask remove <name> <mask> <password>` or `hostmask remove <mask>` -/
  | hostRemove (p : Str) (name : Option Str) (mask pw : Str)
  | setSecure (p pw : Str) (b : Bool)
  /-- `changename <name> <new name> <password>` -/
  | changename (p name newname pw : Str)
  | whoami (p : Str)
  | tick (dt : Nat)
deriving Repr

/-- `user.checkPassword(attempt)` -/
def checkPassword (pwOk : Str → Str → Bool) (pst : PSt) (id : Nat) (attempt : Str) : Bool :=
  match pst.pws.lookup id with
  | some s => pwOk s attempt
  | none => false

/-- the stored record of account `id` now (the plugin holds the live object) -/
def liveUser (st : St) (u : User) : User :=
  match st.db.getUserById u.id with
  | some w => w
  | none => u

/-- converter `'user'`: the sender's account -/
def convUser (st : St) (p : Str) : St × Except Reply User :=
  let g := getUser st p
  (g.1, match g.2 with
    | .ok u => .ok u
    | .error .key => .error .notRegistered
    | .error _ => .error .generic)

/-- `s.rsplit(c, 1)` of a string that contains `c`: what is before the last `c`, and what is after -/
def splitLast (c : Char) (s : Str) : Str × Str :=
  let r := s.reverse
  (((r.dropWhile (fun x => x != c)).drop 1).reverse, (r.takeWhile (fun x => x != c)).reverse)

/-- `ircutils.splitHostmask(p)` of a user hostmask: the host is what follows the last `@`, the user
what follows the last `!` before that, the nick all the rest (`a!!b@c` has the nick `a!`) -/
def splitHostmask (p : Str) : Str × Str × Str :=
  let a := splitLast '@' p
  let b := splitLast '!' a.1
  (b.1, b.2, a.2)

/-- `msg.nick` of a prefix `nick!user@host` -/
def nickOf (p : Str) : Str := (splitHostmask p).1

/-- `irc.state.nickToHostmask(n)` -/
def nickLookup (nicks : List (Str × Str)) (n : Str) : Option Str := nicks.lookup (toLower n)

/-- `IrcState.addMsg`: remember the sender -/
def noteSender (nicks : List (Str × Str)) (p : Str) : List (Str × Str) :=
  dset nicks (toLower (nickOf p)) p

/-- converter `'otherUser'`: an account name, or the nick of somebody the bot has seen whose
hostmask is recognised; a hostmask is refused outright -/
def convOther (nicks : List (Str × Str)) (st : St) (a : Str) : St × Except Reply User :=
  if isUserHostmask a then (st, .error .noUser)
  else
    let g := getUser st a
    match g.2 with
    | .ok u => (g.1, .ok u)
    | .error .key =>
      (match nickLookup nicks a with
       | none => (g.1, .error .noUser)
       | some hm =>
         let g2 := getUser g.1 hm
         (g2.1, match g2.2 with
           | .ok u => .ok u
           | .error .key => .error .noUser
           | .error _ => .error .generic))
    | .error _ => (g.1, .error .generic)

/-- converter `first('otherUser', 'user')` applied to the first argument `a`; the Bool says
whether `a` was consumed as an account name.  Whatever makes `otherUser` fail, `user` is tried. -/
def convFirst (nicks : List (Str × Str)) (st : St) (p a : Str) : St × Except Reply (User × Bool) :=
  let o := convOther nicks st a
  match o.2 with
  | .ok u => (o.1, .ok (u, true))
  | .error _ =>
    let c := convUser o.1 p
    (c.1, c.2.map (fun u => (u, false)))

/-- outcome of a guard: a reply, or one dictionary operation to run -/
inductive Decision
  | reply (r : Reply)
  | run (op : Op)

def replyOfRegister : Out → Reply
  | .done => .success
  | _ => .generic

def replyOfIdentify : Out → Reply
  | .done => .success
  | .err .value => .secureError
  | _ => .generic

def replyOfUnit : Out → Reply
  | .done => .success
  | _ => .generic

def replyOfHostAdd : Out → Reply
  | .done => .success
  | .rolledBack => .hostmaskTaken
  | .err .value => .invalidMask
  | _ => .generic

def replyOfHostRemove : Out → Reply
  | .done => .success
  | .err .key => .noSuchHostmask
  | _ => .generic

/-- `ircdb.checkCapability(msg.prefix, 'owner')` -/
def callerIsOwner (st : St) (p : Str) : St × Bool :=
  let c := checkCapabilityS st p ownerS
  (c.1, match c.2 with | .ok b => b | .error _ => false)

/-- the body of `hostmask add` once the account `u`, the mask and the password are fixed -/
def hostAddCore (pwOk : Str → Str → Bool) (pst : PSt) (st : St) (p : Str) (u : User) (hm pw : Str) :
    St × Decision :=
  let o := callerIsOwner st p
  if !isUserHostmask hm then (o.1, .reply .invalid)
  else
    let g := getUserId o.1 hm
    let taken : Option Reply :=
      match g.2 with
      | .ok id => if id != u.id then some .hostmaskTaken else none
      | .error .key => none
      | .error _ => some .generic
    match taken with
    | some r => (g.1, .reply r)
    | none =>
      let w := liveUser g.1 u
      if !checkPassword pwOk pst u.id pw && !w.checkHostmask g.1.db.timeout g.1.now p true && !o.2 then
        (g.1, .reply .incorrectAuth)
      else (g.1, .run (.addHost u.id hm))

/-- `if not hostmask: hostmask = msg.prefix` -/
def hostAddBody (pwOk : Str → Str → Bool) (pst : PSt) (st : St) (p : Str) (u : User) (hm pw : Str) :
    St × Decision :=
  hostAddCore pwOk pst st p u (if hm.isEmpty then p else hm) pw

/-- the body of `hostmask remove` (mask already defaulted) -/
def allS : Str := ['a', 'l', 'l']

/-- `hostmask remove <mask>` / `hostmask remove all` once the caller is entitled -/
def removeOp (id : Nat) (hm : Str) : Op := if hm == allS then .clearHosts id else .rmHost id hm

def hostRemoveCore (pwOk : Str → Str → Bool) (pst : PSt) (st : St) (p : Str) (u : User) (hm pw : Str) :
    St × Decision :=
  let w := liveUser st u
  if !checkPassword pwOk pst u.id pw && !w.checkHostmask st.db.timeout st.now p true then
    let o := callerIsOwner st p
    if !o.2 then (o.1, .reply .incorrectAuth) else (o.1, .run (removeOp u.id hm))
  else (st, .run (removeOp u.id hm))

def hostRemoveBody (pwOk : Str → Str → Bool) (pst : PSt) (st : St) (p : Str) (u : User) (hm pw : Str) :
    St × Decision :=
  hostRemoveCore pwOk pst st p u (if hm.isEmpty then p else hm) pw

/-- the guard of each command -/
def guard (pwOk : Str → Str → Bool) (pst : PSt) : Cmd → St × Decision
  | .register p name _ =>
    let g1 := getUserId pst.st name
    match g1.2 with
    | .ok _ => (g1.1, .reply .nameTaken)
    | .error .key =>
      if isUserHostmask name || hasLineBreak name then (g1.1, .reply .invalid)
      else
        let g2 := getUser g1.1 p
        (g2.1, match g2.2 with
          | .ok u =>
            (match u.checkCapability ownerS with
             | .ok true => .run (.register name none)
             | _ => .reply .hostmaskTaken)
          | .error .key => .run (.register name (some p))
          | .error _ => .reply .generic)
    | .error _ => (g1.1, .reply .generic)
  | .identify p name pw =>
    let c := convOther pst.nicks pst.st name
    (c.1, match c.2 with
      | .ok u => if checkPassword pwOk pst u.id pw then .run (.identify u.id p) else .reply .incorrectAuth
      | .error r => .reply r)
  | .unidentify p =>
    let c := convUser pst.st p
    (c.1, match c.2 with
      | .ok u => .run (.unidentify u.id)
      | .error r => .reply r)
  | .hostAdd p name mask pw =>
    (match name with
     | some n =>
       -- three arguments: <name> <mask> <password>
       let c := convFirst pst.nicks pst.st p n
       (match c.2 with
        | .error r => (c.1, .reply r)
        | .ok (u, true) => hostAddBody pwOk pst c.1 p u mask pw
        | .ok (_, false) => (c.1, .reply .usage))     -- the name was not one: an argument is left over
     | none =>
       -- one argument
       let c := convFirst pst.nicks pst.st p mask
       (match c.2 with
        | .error r => (c.1, .reply r)
        | .ok (u, true) => hostAddBody pwOk pst c.1 p u [] []
        | .ok (u, false) => hostAddBody pwOk pst c.1 p u mask []))
  | .hostRemove p name mask pw =>
    (match name with
     | some n =>
       let c := convFirst pst.nicks pst.st p n
       (match c.2 with
        | .error r => (c.1, .reply r)
        | .ok (u, true) => hostRemoveBody pwOk pst c.1 p u mask pw
        | .ok (_, false) => (c.1, .reply .usage))
     | none =>
       let c := convFirst pst.nicks pst.st p mask
       (match c.2 with
        | .error r => (c.1, .reply r)
        | .ok (u, true) => hostRemoveBody pwOk pst c.1 p u [] []
        | .ok (u, false) => hostRemoveBody pwOk pst c.1 p u mask []))
  | .setSecure p pw b =>
    let c := convUser pst.st p
    (c.1, match c.2 with
      | .error r => .reply r
      | .ok u =>
        if checkPassword pwOk pst u.id pw && u.checkHostmask c.1.db.timeout c.1.now p false then
          .run (.secure u.id b)
        else .reply .incorrectAuth)
  | .changename p name newname pw =>
    let c := convOther pst.nicks pst.st name
    (match c.2 with
     | .error r => (c.1, .reply r)
     | .ok u =>
       let g := getUserId c.1 newname
       (g.1, match g.2 with
         | .ok _ => .reply .nameTaken
         | .error .key =>
           if isUserHostmask newname || hasLineBreak newname then .reply .invalid
           else if (liveUser g.1 u).checkHostmask g.1.db.timeout g.1.now p true || checkPassword pwOk pst u.id pw
             then .run (.setName u.id newname)
           else .reply .silent          -- the command has no `else:` branch
         | .error _ => .reply .generic))
  | .whoami p =>
    let g := getUser pst.st p
    (g.1, .reply (match g.2 with
      | .ok u => .iam u.name
      | .error .key => .stranger
      | .error _ => .generic))
  | .tick dt => (pst.st, .run (.tick dt))

def replyOf : Cmd → Out → Reply
  | .register _ _ _, o => replyOfRegister o
  | .identify _ _ _, o => replyOfIdentify o
  | .unidentify _, o => replyOfUnit o
  | .hostAdd _ _ _ _, o => replyOfHostAdd o
  | .hostRemove _ _ _ _, o => replyOfHostRemove o
  | .setSecure _ _ _, o => replyOfUnit o
  | .changename _ _ _ _, o => replyOfUnit o
  | .whoami _, _ => .generic
  | .tick _, _ => .success

/-- bookkeeping that is not part of the dictionary: a new account's secret -/
def bookPws (pst : PSt) (c : Cmd) (op : Op) (nextId : Nat) : List (Nat × Str) :=
  match c, op with
  | .register _ _ pw, .register _ _ => pst.pws ++ [(nextId + 1, pw)]
  | _, _ => pst.pws

/-- the ghost log: an `identify` that passed the password test -/
def bookLog (pst : PSt) (c : Cmd) (op : Op) (now : Int) : List LogEntry :=
  match c, op with
  | .identify p _ pw, .identify id _ => pst.log ++ [{ uid := id, t := now, host := p, pw := pw, origin := p }]
  | _, _ => pst.log

/-- one command of the User plugin -/
def pstep (pwOk : Str → Str → Bool) (pst : PSt) (c : Cmd) : PSt × Reply :=
  match guard pwOk pst c with
  | (st1, .reply r) => ({ pst with st := st1 }, r)
  | (st1, .run op) =>
    ({ pst with st := (step st1 op).1, pws := bookPws pst c op st1.nextId, log := bookLog pst c op st1.now },
      replyOf c (step st1 op).2)

/-- the sender of a command -/
def Cmd.sender : Cmd → Option Str
  | .register p _ _ => some p
  | .identify p _ _ => some p
  | .unidentify p => some p
  | .hostAdd p _ _ _ => some p
  | .hostRemove p _ _ _ => some p
  | .setSecure p _ _ => some p
  | .changename p _ _ _ => some p
  | .whoami p => some p
  | .tick _ => none

/-- how many lookups of the sender the bot makes around a command (depends on the loaded plugins) -/
structure Ambient where
  /-- `checkIgnored` in `Owner.__call__` and `Owner.doPrivmsg`: DuplicateHostmask escapes and the
  dispatch is abandoned -/
  aborting : Nat := 2
  /-- `checkCommandCapability`: `ircdb.checkCapability` swallows DuplicateHostmask -/
  pre : Nat := 3
  /-- `checkIgnored` in the `__call__` of every other plugin, after the command has run -/
  post : Nat := 6

/-- `n` lookups of `p`, whatever they answer -/
def lookups (st : St) (p : Str) : Nat → St
  | 0 => st
  | n + 1 => lookups (getUserId st p).1 p n

/-- `n` lookups of `p`; stops (`true`) at the first one that raises DuplicateHostmask -/
def lookupsAbort (st : St) (p : Str) : Nat → St × Bool
  | 0 => (st, false)
  | n + 1 =>
    let g := getUserId st p
    match g.2 with
    | .error .value => (g.1, true)
    | _ => lookupsAbort g.1 p n

/-- one incoming command as the live bot processes it: the sender is remembered, the bot's own
lookups of the sender run (a sender that matches two accounts raises DuplicateHostmask in the
first of them: the offending masks are deleted and the command is NOT executed), the command, and
the other plugins' lookups -/
def pstepA (amb : Ambient) (pwOk : Str → Str → Bool) (pst : PSt) (c : Cmd) : PSt × Reply :=
  match c.sender with
  | none => pstep pwOk pst c
  | some p =>
    let pst0 := { pst with nicks := noteSender pst.nicks p }
    let a := lookupsAbort pst0.st p amb.aborting
    if a.2 then ({ pst0 with st := lookups a.1 p amb.post }, .silent)
    else
      let r := pstep pwOk { pst0 with st := lookups a.1 p amb.pre } c
      ({ r.1 with st := lookups r.1.st p amb.post }, r.2)

/-! ### NICK messages: `Irc.doNick` and `IrcState.doNick`

A NICK message is no command: no plugin looks the sender up.  `Irc.doNick` (src/irclib.py), when
`supybot.followIdentificationThroughNickChanges` is on, looks the sender up and moves every
login of that account whose hostmask is the sender's (IRC case rules) to the sender's new
hostmask — the one other place besides `identify` where a login entry is written. -/

/-- `joinHostmask(newnick, user, host)` with `(_, user, host) = splitHostmask(p)`, for a user
hostmask `p` -/
def newHost (p nn : Str) : Str :=
  nn ++ '!' :: (splitHostmask p).2.1 ++ '@' :: (splitHostmask p).2.2

/-- `IrcState.doNick`: forget the old nick, remember the new one with the new hostmask -/
def moveNick (nicks : List (Str × Str)) (p nn : Str) : List (Str × Str) :=
  dset (ddel nicks (toLower (nickOf p))) (toLower nn) (newHost p nn)

/-- the login entries account `id` holds -/
def authOf (st : St) (id : Nat) : List (Int × Str) :=
  match st.db.getUserById id with
  | some w => w.auth
  | none => []

/-- ghost: the log entries that follow a rewritten login (`auth`: the logins the account holds) -/
def followLog (log : List LogEntry) (id : Nat) (old new : Str) (auth : List (Int × Str)) : List LogEntry :=
  (log.filter (fun l => l.uid == id && strEqual old l.host && auth.contains (l.t, l.host))).map
    (fun l => { l with host := new })

/-- one incoming `NICK nn` from `p`.  `.generic` stands for an exception that escapes
`Irc.doNick`: `feedMsg` is firewalled, the exception is logged and the rest of `feedMsg` — the
update of `irc.state` included — is skipped. -/
def nickStep (pst : PSt) (p nn : Str) : PSt × Reply :=
  if !pst.follow then ({ pst with nicks := moveNick pst.nicks p nn }, .silent) else
  let g := getUser pst.st p
  match g.2 with
  | .error .key => ({ pst with st := g.1, nicks := moveNick pst.nicks p nn }, .silent)
  | .error _ => ({ pst with st := g.1 }, .generic)
  | .ok u =>
    -- `if u.auth:` — what the lookup's own scan has left of it
    if (pruneScan g.1.db.timeout g.1.now p u.auth).isEmpty then
      ({ pst with st := g.1, nicks := moveNick pst.nicks p nn }, .silent) else
    -- `splitHostmask` and `joinHostmask` assert
    if !isUserHostmask p || nn.isEmpty then ({ pst with st := g.1 }, .generic) else
    let s := step g.1 (.followNick u.id p (newHost p nn))
    ({ pst with st := s.1, log := pst.log ++ followLog pst.log u.id p (newHost p nn) (authOf g.1 u.id),
                events := pst.events ++ [(p, newHost p nn)],
                nicks := if s.2 == .done then moveNick pst.nicks p nn else pst.nicks },
      if s.2 == .done then .silent else .generic)

/-- what reaches the bot: a command of the User plugin, or a NICK message -/
inductive Ev
  | cmd (c : Cmd)
  | nick (p nn : Str)
deriving Repr

def estep (amb : Ambient) (pwOk : Str → Str → Bool) (pst : PSt) : Ev → PSt × Reply
  | .cmd c => pstepA amb pwOk pst c
  | .nick p nn => nickStep pst p nn

def erun (amb : Ambient) (pwOk : Str → Str → Bool) (pst : PSt) (evs : List Ev) : PSt :=
  evs.foldl (fun s e => (estep amb pwOk s e).1) pst

def prunA (amb : Ambient) (pwOk : Str → Str → Bool) (pst : PSt) (cs : List Cmd) : PSt :=
  cs.foldl (fun s c => (pstepA amb pwOk s c).1) pst

def prun (pwOk : Str → Str → Bool) (pst : PSt) (cs : List Cmd) : PSt :=
  cs.foldl (fun s c => (pstep pwOk s c).1) pst

end C04
