/-
C04 — line-protocol driver: a `C04.St` driven by the operation sequence the harness applies to a
real `UsersDictionary`; after every operation the harness compares the outcome and (on `dump`)
the user records and both lookup caches.
-/
import LimnoriaModel.C04.Plugin
import LimnoriaModel.Driver.Core
namespace C04
open Py Wire C03

def encErr : Err → String
  | .assertion => "err\tassertion"
  | .key => "err\tkey"
  | .value => "err\tvalue"

def encOut : Out → String
  | .done => "ok"
  | .id n => "id\t" ++ toString n
  | .err e => encErr e
  | .exists_ => "exists"
  | .noUser => "nouser"
  | .rolledBack => "rolledback"

def sortStrs (xs : List String) : List String := xs.mergeSort (fun a b => decide (a ≤ b))
def joinOr (sep : String) (xs : List String) : String := if xs.isEmpty then "-" else sep.intercalate xs
def encSet (s : List Str) : String := joinOr "," (sortStrs (s.map enc))
def encB (b : Bool) : String := if b then "1" else "0"
def decBool (f : String) : Option Bool :=
  if f = "1" then some true else if f = "0" then some false else none

def dumpUser (timeout now : Int) (u : User) : String :=
  toString u.id ++ ":" ++ enc u.name ++ ":" ++ encB u.secure ++ ":" ++ encSet u.hostmasks ++ ":" ++
    joinOr "," (sortStrs ((u.auth.filter (authLive timeout now)).map (fun e => toString e.1 ++ "." ++ enc e.2)))

def dump (st : St) : String :=
  "U=" ++ joinOr ";" (sortStrs (st.db.users.map (dumpUser st.db.timeout st.now))) ++
  "|HF=" ++ joinOr "," (sortStrs (st.hc.fwd.map (fun p => enc p.1 ++ ":" ++ toString p.2))) ++
  "|HR=" ++ joinOr ";" (sortStrs (st.hc.rev.map (fun p => toString p.1 ++ ":" ++ encSet p.2))) ++
  "|NF=" ++ joinOr "," (sortStrs (st.nc.fwd.map (fun p => enc p.1 ++ ":" ++ toString p.2))) ++
  "|NR=" ++ joinOr "," (sortStrs (st.nc.rev.map (fun p => toString p.1 ++ ":" ++ enc p.2))) ++
  "|N=" ++ toString st.nextId

def encLookup : Lookup → String
  | .found u => "id\t" ++ toString u.id
  | .missing => "err\tkey"
  | .duplicate => "dup"

def doOp (st : St) (o : Option Op) : St × String :=
  match o with
  | some o => let r := step st o; (r.1, encOut r.2)
  | none => (st, "bad-op")

def encReply : Reply → String
  | .success => "success"
  | .incorrectAuth => "incorrectAuth"
  | .notRegistered => "notRegistered"
  | .noUser => "noUser"
  | .secureError => "secureError"
  | .nameTaken => "nameTaken"
  | .hostmaskTaken => "hostmaskTaken"
  | .invalid => "invalid"
  | .invalidMask => "invalidMask"
  | .noSuchHostmask => "noSuchHostmask"
  | .usage => "usage"
  | .generic => "generic"
  | .iam n => "iam\t" ++ enc n
  | .stranger => "stranger"
  | .silent => "silent"

/-- the driver instantiates the password test with equality of the secrets (the harness uses the
bot's real salted hashes) -/
def pwEq (stored attempt : Str) : Bool := stored == attempt

structure DSt where
  pst : PSt := {}
  amb : Ambient := {}

def doCmd (d : DSt) (c : Option Cmd) : DSt × String :=
  match c with
  | some c => let r := pstepA d.amb pwEq d.pst c; ({ d with pst := r.1 }, encReply r.2)
  | none => (d, "bad-op")

def dumpLog (pst : PSt) : String :=
  -- the entries whose login would still be valid
  joinOr "," (sortStrs ((pst.log.filter (fun l => authLive pst.st.db.timeout pst.st.now (l.t, l.host))).map (fun l => toString l.uid ++ ":" ++ toString l.t ++ ":" ++ enc l.host ++ ":" ++ enc l.origin)).eraseDups)

/-- logins on the wire: the times ("-" or comma-separated) and the hostmasks, in step -/
def decAuth (ts hs : String) : Option (List (Int × Str)) := do
  let hs ← decList hs
  let ts ← if ts = "-" then some [] else (ts.splitOn ",").mapM (fun t => t.toInt?)
  if ts.length = hs.length then some (ts.zip hs) else none

def dstep (st : St) : List String → St × String
  | ["reset", t] =>
    match t.toInt? with
    | some t => ({ db := { timeout := t } }, "ok")
    | none => (st, "bad-op")
  | ["register", n, h] => doOp st (do
      let n ← dec n
      let h ← decOpt h
      pure (Op.register n h))
  | ["addhost", id, h] => doOp st (do pure (Op.addHost (← id.toNat?) (← dec h)))
  | ["rmhost", id, h] => doOp st (do pure (Op.rmHost (← id.toNat?) (← dec h)))
  | ["identify", id, h] => doOp st (do pure (Op.identify (← id.toNat?) (← dec h)))
  | ["pruned", id, ts, hs] => doOp st (do pure (Op.pruned (← id.toNat?) (← decAuth ts hs)))
  | ["logout", id] => doOp st (do pure (Op.logout (← id.toNat?)))
  | ["unidentify", id] => doOp st (do pure (Op.unidentify (← id.toNat?)))
  | ["rename", id, n] => doOp st (do pure (Op.rename (← id.toNat?) (← dec n)))
  | ["secure", id, b] => doOp st (do pure (Op.secure (← id.toNat?) (← decBool b)))
  | ["load", id, n, s, ms] => doOp st (do pure (Op.load (← id.toNat?) (← dec n) (← decBool s) (← decList ms)))
  | ["follownick", id, a, b] => doOp st (do pure (Op.followNick (← id.toNat?) (← dec a) (← dec b)))
  | ["deluser", id] => doOp st (do pure (Op.delUser (← id.toNat?)))
  | ["tick", dt] => doOp st (do pure (Op.tick (← dt.toNat?)))
  | ["lookup", s] => doOp st (do pure (Op.lookup (← dec s)))
  | ["order", id, ms] => doOp st (do pure (Op.order (← id.toNat?) (← decList ms)))
  | ["pure", s] =>
    -- the cache-free, effect-free lookup of C03 on the current records
    (st, match dec s with | some s => encLookup (st.db.lookup st.now s) | none => "bad-op")
  | ["dump"] => (st, dump st)
  | ["glob", p, h] =>
    (st, match dec p, dec h with | some p, some h => encB (glob p h) | _, _ => "bad-op")
  | ["intersect", p, q] =>
    (st, match dec p, dec q with | some p, some q => encB (intersect p q) | _, _ => "bad-op")
  | ["isUserHostmask", s] => (st, match dec s with | some s => encB (isUserHostmask s) | none => "bad-op")
  | _ => (st, "bad-op")

def pdstep (d : DSt) : List String → DSt × String
  | ["reset", t] =>
    match t.toInt? with
    | some t => ({ d with pst := { st := { db := { Db.initial with timeout := t } } } }, "ok")   -- shipped default capabilities
    | none => (d, "bad-op")
  | ["p_ambient", a, b, c] =>
    match a.toNat?, b.toNat?, c.toNat? with
    | some a, some b, some c => ({ d with amb := { aborting := a, pre := b, post := c } }, "ok")
    | _, _, _ => (d, "bad-op")
  | ["p_register", p, n, pw] => doCmd d (do pure (Cmd.register (← dec p) (← dec n) (← dec pw)))
  | ["p_identify", p, n, pw] => doCmd d (do pure (Cmd.identify (← dec p) (← dec n) (← dec pw)))
  | ["p_unidentify", p] => doCmd d (do pure (Cmd.unidentify (← dec p)))
  | ["p_hostadd", p, n, m, pw] => doCmd d (do pure (Cmd.hostAdd (← dec p) (← decOpt n) (← dec m) (← dec pw)))
  | ["p_hostrm", p, n, m, pw] => doCmd d (do pure (Cmd.hostRemove (← dec p) (← decOpt n) (← dec m) (← dec pw)))
  | ["p_secure", p, pw, b] => doCmd d (do pure (Cmd.setSecure (← dec p) (← dec pw) (← decBool b)))
  | ["p_changename", p, n, nn, pw] => doCmd d (do pure (Cmd.changename (← dec p) (← dec n) (← dec nn) (← dec pw)))
  | ["p_whoami", p] => doCmd d (do pure (Cmd.whoami (← dec p)))
  | ["p_tick", dt] => doCmd d (do pure (Cmd.tick (← dt.toNat?)))
  | ["p_follow", b] =>
    match decBool b with
    | some b => ({ d with pst := { d.pst with follow := b } }, "ok")
    | none => (d, "bad-op")
  | ["p_nick", p, nn] =>
    match dec p, dec nn with
    | some p, some nn => let r := nickStep d.pst p nn; ({ d with pst := r.1 }, encReply r.2)
    | _, _ => (d, "bad-op")
  | ["p_events"] =>
    (d, joinOr "," (sortStrs (d.pst.events.map (fun e => enc e.1 ++ ":" ++ enc e.2)).eraseDups))
  | ["p_log"] => (d, dumpLog d.pst)
  | ["p_dump"] =>
    (d, "U=" ++ joinOr ";" (sortStrs (d.pst.st.db.users.map (dumpUser d.pst.st.db.timeout d.pst.st.now))) ++
      "|N=" ++ toString d.pst.st.nextId)
  | fs => let r := dstep d.pst.st fs; ({ d with pst := { d.pst with st := r.1 } }, r.2)

def handler : Driver.Handler := { σ := DSt, init := {}, step := pdstep }
end C04
