/-
C04 — model of sender recognition: `ircdb.UsersDictionary` with its two lookup caches
(`_hostmaskCache`, `_nameCache`, both `CacheDict(1000)`), `IrcUser.checkHostmask / addAuth /
clearAuth / addHostmask / removeHostmask`, `getUserId`, `getUser`, `setUser`, `delUser`,
`newUser`, `invalidateCache` (src/ircdb.py), on top of the records, the glob matcher and the
cache-free lookup of `C03.Model`.

Conventions
* a Python dict is an association list in insertion order with distinct keys (`dset`, `ddel`);
  `UsersDictionary.users` is `Db.users` (`C03.putUser` = dict assignment);
* `IrcUser.hostmasks` (an `IrcSet`) is a list without two elements equal under `toLower`, in the
  enumeration order the harness reports (the theorems hold for every order);
* `IrcUser.auth` keeps expired logins: the code removes an expired entry lazily when a scan
  happens to pass it, the model never does.  No read can tell — every read filters by `authLive`,
  time does not run backwards within a history and the timeout is fixed — and the harness
  compares live logins.  The one reader of the raw list is `Irc.doNick` (`Op.followNick`), right
  after `getUserId` has scanned it: there the scan's pruning is modelled (`pruneScan`), which
  leaves the same live entries and the same decision whether `setUser` runs;
* exceptions: `Err.key` = KeyError, `Err.value` = ValueError / DuplicateHostmask,
  `Err.assertion` = AssertionError.
* `invalidateCache(hostmask=h)` would raise KeyError if the reverse entry of a cached hostmask
  were missing; the model is tolerant there and `C04.RevOK` (an invariant of every reachable
  state) shows the case never arises.
-/
import LimnoriaModel.C03.Model
import LimnoriaModel.Gen.IrcDbUsers
namespace C04
open Py C03

/-! ## dictionaries -/

/-- `d[k] = v` -/
def dset {κ ν} [BEq κ] : List (κ × ν) → κ → ν → List (κ × ν)
  | [], k, v => [(k, v)]
  | (k', v') :: r, k, v => if k' == k then (k, v) :: r else (k', v') :: dset r k v

/-- `d.pop(k, None)` -/
def ddel {κ ν} [BEq κ] (l : List (κ × ν)) (k : κ) : List (κ × ν) := l.filter (fun p => !(p.1 == k))

/-- `_hostmaskCache`: string keys `hostmask ↦ id` and integer keys `id ↦ {hostmasks}` share one
CacheDict -/
structure HCache where
  fwd : List (Str × Nat) := []
  rev : List (Nat × List Str) := []
deriving Repr

/-- `_nameCache`: `lowered name ↦ id` and `id ↦ lowered name` -/
structure NCache where
  fwd : List (Str × Nat) := []
  rev : List (Nat × Str) := []
deriving Repr

/-- `CacheDict.__setitem__` first empties the dict when it is full -/
def HCache.room (c : HCache) : HCache :=
  if c.fwd.length + c.rev.length ≥ Gen.usersCacheMax then {} else c

def HCache.setFwd (c : HCache) (k : Str) (v : Nat) : HCache :=
  { c.room with fwd := dset c.room.fwd k v }

def HCache.setRev (c : HCache) (k : Nat) (v : List Str) : HCache :=
  { c.room with rev := dset c.room.rev k v }

def NCache.room (c : NCache) : NCache :=
  if c.fwd.length + c.rev.length ≥ Gen.usersCacheMax then {} else c

def NCache.setFwd (c : NCache) (k : Str) (v : Nat) : NCache :=
  { c.room with fwd := dset c.room.fwd k v }

def NCache.setRev (c : NCache) (k : Nat) (v : Str) : NCache :=
  { c.room with rev := dset c.room.rev k v }

/-! ## state -/

structure St where
  db : Db := {}
  /-- `time.time()` -/
  now : Int := 0
  hc : HCache := {}
  nc : NCache := {}
  nextId : Nat := 0
deriving Repr

/-! ## IrcUser -/

/-- what `IrcUser.checkHostmask` returns: `True` (a login), the matching pattern, or `False` -/
inductive CH
  | auth
  | pat (p : Str)
  | no
deriving DecidableEq, Repr

def CH.truthy : CH → Bool
  | .auth => true
  | .pat p => !p.isEmpty
  | .no => false

/-- `IrcUser.checkHostmask(h, useAuth)` -/
def checkHostmask (u : User) (timeout now : Int) (h : Str) (useAuth : Bool) : CH :=
  if useAuth && u.authMatch timeout now h then .auth
  else match u.patMatch h with
    | some p => .pat p
    | none => .no

/-- equality of `IrcString`s -/
def maskEq (a b : Str) : Bool := toLower a == toLower b

/-- `IrcSet.add` -/
def masksAdd (ms : List Str) (m : Str) : List Str :=
  if ms.any (fun x => maskEq x m) then ms else ms ++ [m]

/-- `IrcSet.remove` (`none` = KeyError) -/
def masksRemove (ms : List Str) (m : Str) : Option (List Str) :=
  if ms.any (fun x => maskEq x m) then some (ms.filter (fun x => !maskEq x m)) else none

/-- `ircdb.unWildcardHostmask` -/
def unWildcard (m : Str) : Str := m.filter (fun c => !Gen.unWildcardChars.contains c)

/-- `IrcUser.addHostmask` -/
def addHostmask (u : User) (m : Str) : R User :=
  if !isUserHostmask m then .error .assertion
  else if (unWildcard m).length < Gen.minNonWildcard then .error .value
  else .ok { u with hostmasks := masksAdd u.hostmasks m }

/-- `IrcUser.removeHostmask` -/
def removeHostmask (u : User) (m : Str) : R User :=
  match masksRemove u.hostmasks m with
  | some ms => .ok { u with hostmasks := ms }
  | none => .error .key

/-- the de-duplication of `addAuth`: of several logins from the same hostmask the last one stays -/
def dedupLast : List (Int × Str) → List (Int × Str)
  | [] => []
  | e :: rest => if rest.any (fun x => x.2 == e.2) then dedupLast rest else e :: dedupLast rest

/-- `IrcUser.addAuth(h)` at time `now` -/
def addAuth (u : User) (timeout now : Int) (h : Str) : R User :=
  if (checkHostmask u timeout now h false).truthy || !u.secure then
    .ok { u with auth := dedupLast (u.auth ++ [(now, h)]) }
  else .error .value

/-! ## UsersDictionary -/

/-- `invalidateCache(id)` -/
def invalidateId (st : St) (id : Nat) : St :=
  let nc : NCache :=
    match st.nc.rev.lookup id with
    | some n => { fwd := ddel st.nc.fwd n, rev := ddel st.nc.rev id }
    | none => st.nc
  let hc : HCache :=
    match st.hc.rev.lookup id with
    | some set => { fwd := st.hc.fwd.filter (fun p => !set.contains p.1), rev := ddel st.hc.rev id }
    | none => st.hc
  { st with nc := nc, hc := hc }

/-- `invalidateCache(hostmask=h)`: drop the entry, its reverse entry, and then (the local `id`
having been assigned) everything cached for that id -/
def invalidateHost (st : St) (h : Str) : St :=
  match st.hc.fwd.lookup h with
  | none => st
  | some id =>
    let rev :=
      match st.hc.rev.lookup id with
      | some set =>
        let set' := set.filter (fun x => x != h)
        if set'.isEmpty then ddel st.hc.rev id else dset st.hc.rev id set'
      | none => st.hc.rev
    invalidateId { st with hc := { fwd := ddel st.hc.fwd h, rev := rev } } id

/-- the dict `ids` of the slow path: every user whose `checkHostmask` accepts `s`, in dict order -/
def scan (st : St) (s : Str) : List (Nat × CH) :=
  st.db.users.filterMap fun u =>
    let r := checkHostmask u st.db.timeout st.now s true
    if r.truthy then some (u.id, r) else none

/-- `_hostmaskCache[s] = id` and `_hostmaskCache[id].add(s)` (creating the set when absent) -/
def cacheInsert (hc : HCache) (s : Str) (id : Nat) : HCache :=
  let hc1 := hc.setFwd s id
  match hc1.rev.lookup id with
  | some set => { hc1 with rev := dset hc1.rev id (if s ∈ set then set else set ++ [s]) }
  | none => hc1.setRev id [s]

/-- the string `str(True)`, which `removeHostmask(True)` looks for -/
def trueS : Str := ['T', 'r', 'u', 'e']

/-- "Removing the offending hostmasks": for every matching user remove what `checkHostmask`
returned — the pattern, or `True` for a login, which raises KeyError unless the user happens to
own a mask spelled `true`.  The Bool says whether the loop completed. -/
def removeOffending (users : List User) : List (Nat × CH) → List User × Bool
  | [] => (users, true)
  | (id, x) :: rest =>
    let target := match x with
      | .pat p => p
      | _ => trueS
    match users.find? (fun u => u.id == id) with
    | none => (users, false)
    | some u =>
      match masksRemove u.hostmasks target with
      | none => (users, false)
      | some ms => removeOffending (putUser users { u with hostmasks := ms }) rest

/-- the `except KeyError:` branch of `getUserId` for a hostmask: scan all users -/
def slowPath (st : St) (s : Str) : St × R Nat :=
  match scan st s with
  | [] => (st, .error .key)
  | [(id, _)] => ({ st with hc := cacheInsert st.hc s id }, .ok id)
  | ids =>
    let r := removeOffending st.db.users ids
    ({ st with hc := {}, db := { st.db with users := r.1 } },
      if r.2 then .error .value else .error .key)

/-- `getUserId(s)` for a user hostmask: a cached answer is re-validated -/
def getUserIdHost (st : St) (s : Str) : St × R Nat :=
  match st.hc.fwd.lookup s with
  | some id =>
    match st.db.getUserById id with
    | some u =>
      if (checkHostmask u st.db.timeout st.now s true).truthy then (st, .ok id)
      else slowPath (invalidateHost st s) s
    | none => slowPath st s
  | none => slowPath st s

/-- `getUserId(s)` for anything else: a user name, compared with `str.lower()` -/
def getUserIdName (st : St) (s : Str) : St × R Nat :=
  let n := asciiLower s
  match st.nc.fwd.lookup n with
  | some id => (st, .ok id)
  | none =>
    match st.db.users.find? (fun u => asciiLower u.name == n) with
    | some u => ({ st with nc := (st.nc.setFwd n u.id).setRev u.id n }, .ok u.id)
    | none => (st, .error .key)

/-- `UsersDictionary.getUserId(s)` -/
def getUserId (st : St) (s : Str) : St × R Nat :=
  if isUserHostmask s then getUserIdHost st s else getUserIdName st s

/-- `UsersDictionary.getUser(s)` for a string -/
def getUser (st : St) (s : Str) : St × R User :=
  match getUserId st s with
  | (st', .ok id) =>
    (match st'.db.getUserById id with
     | some u => (st', .ok u)
     | none => (st', .error .key))
  | (st', .error e) => (st', .error e)

def hasLineBreak (s : Str) : Bool := s.contains '\n' || s.contains '\r'

/-- `v.checkHostmask(hm)` as `setUser` calls it: `hm` is an element of an IrcSet, i.e. an
`IrcString`, whose `==` compares IRC-lowered strings — so here a login matches up to case -/
def maskHitsUser (v : User) (timeout now : Int) (hm : Str) : Bool :=
  v.auth.any (fun e => authLive timeout now e && maskEq hm e.2) ||
    (match v.patMatch hm with
     | some p => !p.isEmpty
     | none => false)

/-- the overlap loops of `setUser`: some mask of `u`, read as a hostmask, is accepted by another
user's `checkHostmask`, or, read as a pattern, matches another user's mask read as a string, or has
a hostmask in common with it (`hostmaskPatternsIntersect`) -/
def overlaps (users : List User) (timeout now : Int) (u : User) : Bool :=
  u.hostmasks.any fun hm =>
    users.any fun v =>
      v.id != u.id &&
        (maskHitsUser v timeout now hm || v.hostmasks.any (fun o => glob hm o || intersect hm o))

/-- the record `setUser(u)` works with after its name lookup: the stored one when `u` is the
stored object itself (`live`), else `u` as passed -/
def finalRecord (r : St) (u : User) (live : Bool) : User :=
  if live then (match r.db.getUserById u.id with | some w => w | none => u) else u

/-- `UsersDictionary.setUser(u)`.  `live` says that `u` is the very object stored in `users`
(the plugins fetch a user, change it in place and then call `setUser`): whatever the name lookup
inside `setUser` does to the stored record — it may delete duplicate hostmasks — has then
happened to `u` as well, so the overlap test and the final assignment see the stored record.
The users.conf loader passes a fresh object (`live = false`). -/
def setUser (st : St) (u : User) (live : Bool := true) : St × R Unit :=
  if hasLineBreak u.name then (st, .error .value)
  else
    -- both caches are emptied first: the caller may have changed the stored record already
    let st1 := { st with hc := {}, nc := {}, nextId := max st.nextId u.id }
    let r := getUserId st1 u.name
    let clash : Option Err :=
      match r.2 with
      | .ok id => if id != u.id then some .value else none
      | .error .key => none
      | .error e => some e
    match clash with
    | some e => (r.1, .error e)
    | none =>
      let u' : User := finalRecord r.1 u live
      if overlaps r.1.db.users r.1.db.timeout r.1.now u' then (r.1, .error .value)
      else ({ r.1 with hc := {}, nc := {}, db := r.1.db.putUser u' }, .ok ())

/-- `UsersDictionary.delUser(id)` -/
def delUser (st : St) (id : Nat) : St × R Unit :=
  match st.db.getUserById id with
  | none => (st, .error .key)
  | some _ =>
    let st1 := { st with db := { st.db with users := st.db.users.filter (fun u => u.id != id) }, hc := {} }
    (invalidateId st1 id, .ok ())

/-- `UsersDictionary.newUser()`: returns the new id -/
def newUser (st : St) : St × Nat :=
  let id := st.nextId + 1
  ({ st with nextId := id, db := st.db.putUser { id := id } }, id)

/-- `IrcUser.clearAuth()` of user `id`: invalidate every login's hostmask, forget the logins -/
def clearAuth (st : St) (u : User) : St :=
  let st1 := u.auth.foldl (fun s e => invalidateHost s e.2) st
  { st1 with db := st1.db.putUser { u with auth := [] } }

/-! ## `checkCapability` on the stateful dictionary -/

/-- the `try:` block of `ircdb.checkCapability`: `users.getUser(hostmask)` with its caches and
effects, then the `secure` re-check -/
def recogniseS (st : St) (h : Str) : St × Option User :=
  if !isUserHostmask h then (st, none) else     -- not a user's prefix: nobody (no lookup at all)
  let g := getUser st h
  (g.1, match g.2 with
    | .ok u => if u.secure && !u.checkHostmask g.1.db.timeout g.1.now h false then none else some u
    | .error _ => none)

/-- `ircdb.checkCapability(hostmask, capability, …)` as the bot runs it: recognition through
`UsersDictionary.getUser` (caches, duplicate removal), then the decision stages of `C03` -/
def checkCapabilityS (st : St) (h cap : Str) (fl : Flags := {}) : St × R Bool :=
  let r := recogniseS st h
  (r.1, match r.2 with
    | none => r.1.db.checkUnknown cap fl.ignoreDefaultAllow
    | some u => r.1.db.checkKnown u cap fl)

/-! ## operations: the call sequences of the User plugin / the users.conf loader on this API -/

inductive Op
  /-- `user register`: `newUser()`, set the name, `addHostmask(h)`, `setUser` -/
  | register (name : Str) (h : Option Str)
  /-- `user hostmask add`: `addHostmask`, `setUser`, and `removeHostmask` again on DuplicateHostmask -/
  | addHost (id : Nat) (h : Str)
  /-- `user hostmask remove`: `removeHostmask`, `setUser` -/
  | rmHost (id : Nat) (h : Str)
  /-- `user identify`: `addAuth(h)`, `setUser(flush=False)` -/
  | identify (id : Nat) (h : Str)
  /-- `user unidentify`: `clearAuth()`, `setUser` -/
  | unidentify (id : Nat)
  /-- `IrcUser.clearAuth()` on the stored record and nothing else (the method invalidates the cached
  lookups of its login hostmasks itself; `user unidentify` calls `setUser` afterwards) -/
  | logout (id : Nat)
  /-- `user changename`: refuse when `getUserId(new)` finds somebody, else rename and `setUser` -/
  | rename (id : Nat) (name : Str)
  /-- `user set secure`: flip the flag, `setUser` -/
  | secure (id : Nat) (b : Bool)
  /-- `user hostmask remove … all`: `user.hostmasks.clear()`, `setUser` -/
  | clearHosts (id : Nat)
  /-- the second half of `user changename`: `user.name = name`, `setUser` (no lookup of the new name) -/
  | setName (id : Nat) (name : Str)
  /-- users.conf loader: `setUser(fresh record)`; on DuplicateHostmask drop its masks and retry -/
  | load (id : Nat) (name : Str) (secure : Bool) (masks : List Str)
  /-- `Irc.doNick` under `supybot.followIdentificationThroughNickChanges`: every login entry of
  account `id` whose hostmask equals `old` under IRC case folding is rewritten to `new`
  (`u.auth[i] = (when, newhostmask)`), then `setUser` -/
  | followNick (id : Nat) (old new : Str)
  | delUser (id : Nat)
  /-- the clock advances -/
  | tick (dt : Nat)
  /-- `getUserId(s)` -/
  | lookup (s : Str)
  /-- the harness reports which logins account `id` still holds physically: expired logins are
  removed lazily, whenever a scan passes them, and the model does not follow that (no read of the
  property can tell) — but `IrcUser.clearAuth()` invalidates the cache for exactly the entries
  that are still there.  Only expired entries may be reported gone. -/
  | pruned (id : Nat) (kept : List (Int × Str))
  /-- the harness reports the enumeration order of a user's hostmask set -/
  | order (id : Nat) (masks : List Str)
deriving Repr

/-- result of an operation as the harness prints it -/
inductive Out
  | done
  | id (n : Nat)
  | err (e : Err)
  | exists_       -- changename: the new name is taken
  | noUser        -- the harness addressed an id that does not exist
  | rolledBack    -- hostmask add: DuplicateHostmask, mask removed again
deriving DecidableEq, Repr

def outOfUnit : R Unit → Out
  | .ok _ => .done
  | .error e => .err e

def withUser (st : St) (id : Nat) (f : User → St × Out) : St × Out :=
  match st.db.getUserById id with
  | some u => f u
  | none => (st, .noUser)

/-- `user register` after `newUser()` and `user.name = name`: add the sender's hostmask, `setUser`;
`except Exception: ircdb.users.delUser(user.id); raise` -/
def registerTail (st1 : St) (u0 : User) (h : Option Str) : St × Out :=
  match h with
  | none =>
    let s := setUser st1 u0
    (match s.2 with
     | .ok _ => (s.1, .done)
     | .error e => ((delUser s.1 u0.id).1, .err e))
  | some h =>
    match addHostmask u0 h with
    | .error e => ((delUser st1 u0.id).1, .err e)
    | .ok u1 =>
      let s := setUser { st1 with db := st1.db.putUser u1 } u1
      (match s.2 with
       | .ok _ => (s.1, .done)
       | .error e => ((delUser s.1 u0.id).1, .err e))

/-- the login entries after `Irc.doNick` followed a nick change `old → new` -/
def followAuth (old new : Str) (auth : List (Int × Str)) : List (Int × Str) :=
  auth.map (fun a => if strEqual old a.2 then (a.1, new) else a)

/-- what `checkHostmask(h)` leaves of the login list it scans: expired entries are dropped up to
the first unexpired login from exactly `h`, where the scan returns.  (Elsewhere the model keeps
expired logins, which no read can tell; `Irc.doNick` reads the list right after `getUserId` has
run this scan on it, and whether an entry is left decides whether `setUser` runs.) -/
def pruneScan (timeout now : Int) (h : Str) : List (Int × Str) → List (Int × Str)
  | [] => []
  | e :: rest =>
    if !authLive timeout now e then pruneScan timeout now h rest
    else if e.2 == h then e :: rest
    else e :: pruneScan timeout now h rest

/-- … and after the first pass of that loop only -/
def followFirst (old new : Str) : List (Int × Str) → List (Int × Str)
  | [] => []
  | a :: rest => if strEqual old a.2 then (a.1, new) :: rest else a :: followFirst old new rest

def step (st : St) : Op → St × Out
  | .register name h =>
    if hasLineBreak name then (st, .err .value) else      -- the plugin refuses such names first
    let r := newUser st
    let u0 : User := { id := r.2, name := name }
    let st1 := { r.1 with db := r.1.db.putUser u0 }
    registerTail st1 u0 h
  | .addHost id h => withUser st id fun u =>
      match addHostmask u h with
      | .error e => (st, .err e)
      | .ok u1 =>
        let st1 := { st with db := st.db.putUser u1 }
        let s := setUser st1 u1
        match s.2 with
        | .ok _ => (s.1, .done)
        | .error _ =>
          -- `except DuplicateHostmask: user.removeHostmask(hostmask)` on the live object, i.e.
          -- on the record as it is stored now (a plain ValueError is reported without rollback,
          -- but setUser raises none for a name without line breaks)
          (match s.1.db.getUserById id with
           | none => (s.1, .noUser)
           | some u' =>
             match removeHostmask u' h with
             | .ok u2 => ({ s.1 with db := s.1.db.putUser u2 }, .rolledBack)
             | .error e => (s.1, .err e))
  | .rmHost id h => withUser st id fun u =>
      match removeHostmask u h with
      | .error e => (st, .err e)
      | .ok u1 =>
        let st1 := { st with db := st.db.putUser u1 }
        let s := setUser st1 u1
        (s.1, outOfUnit s.2)
  | .identify id h => withUser st id fun u =>
      match addAuth u st.db.timeout st.now h with
      | .error e => (st, .err e)
      | .ok u1 =>
        let st1 := { st with db := st.db.putUser u1 }
        let s := setUser st1 u1
        (s.1, outOfUnit s.2)
  | .unidentify id => withUser st id fun u =>
      let st1 := clearAuth st u
      let s := setUser st1 { u with auth := [] }
      (s.1, outOfUnit s.2)
  | .logout id => withUser st id fun u => (clearAuth st u, .done)
  | .rename id name => withUser st id fun _ =>
      let g := getUserId st name
      match g.2 with
      | .ok _ => (g.1, .exists_)
      | .error .key =>
        if hasLineBreak name then (g.1, .err .value) else    -- checked by the plugin before renaming
        -- the live object, as stored after the lookup
        withUser g.1 id fun u =>
          let u1 := { u with name := name }
          let st1 := { g.1 with db := g.1.db.putUser u1 }
          let s := setUser st1 u1
          (s.1, outOfUnit s.2)
      | .error e => (g.1, .err e)
  | .secure id b => withUser st id fun u =>
      let u1 := { u with secure := b }
      let st1 := { st with db := st.db.putUser u1 }
      let s := setUser st1 u1
      (s.1, outOfUnit s.2)
  | .clearHosts id => withUser st id fun u =>
      let u1 := { u with hostmasks := [] }
      let st1 := { st with db := st.db.putUser u1 }
      let s := setUser st1 u1
      (s.1, outOfUnit s.2)
  | .setName id name => withUser st id fun u =>
      if hasLineBreak name then (st, .err .value) else
      let u1 := { u with name := name }
      let st1 := { st with db := st.db.putUser u1 }
      let s := setUser st1 u1
      (s.1, outOfUnit s.2)
  | .load id name sec masks =>
    let u : User := { id := id, name := name, secure := sec, hostmasks := masks.foldl masksAdd [] }
    let s := setUser st u false
    match s.2 with
    | .ok _ => (s.1, .done)
    | .error _ =>
      let s2 := setUser s.1 { u with hostmasks := [] } false
      (s2.1, outOfUnit s2.2)
  | .followNick id old new => withUser st id fun u =>
      -- `setUser` runs inside the loop, after each rewritten entry: not at all when none matches,
      -- and when it raises (another account holds a login equal to one of this account's masks)
      -- only the first matching entry has been rewritten
      let a0 := pruneScan st.db.timeout st.now old u.auth      -- `getUserId(old)` has just scanned it
      if !(a0.any (fun a => strEqual old a.2)) then (st, .done) else
      let uF := { u with auth := followFirst old new a0 }
      let sF := setUser { st with db := st.db.putUser uF } uF
      match sF.2 with
      | .error e => (sF.1, .err e)
      | .ok _ =>
        let u1 := { u with auth := followAuth old new a0 }
        let st1 := { st with db := st.db.putUser u1 }
        let s := setUser st1 u1
        (s.1, outOfUnit s.2)
  | .delUser id => let s := delUser st id; (s.1, outOfUnit s.2)
  | .tick dt => ({ st with now := st.now + dt }, .done)
  | .lookup s =>
    let g := getUserId st s
    (g.1, match g.2 with | .ok id => .id id | .error e => .err e)
  | .pruned id kept => withUser st id fun u =>
      if u.auth.all (fun e => kept.contains e || !authLive st.db.timeout st.now e) then
        ({ st with db := st.db.putUser { u with auth := u.auth.filter (fun e => kept.contains e) } }, .done)
      else (st, .noUser)
  | .order id masks => withUser st id fun u =>
      -- only a permutation of the same set is accepted
      if masks.length == u.hostmasks.length && masks.all (fun m => u.hostmasks.contains m) &&
          u.hostmasks.all (fun m => masks.contains m) then
        ({ st with db := st.db.putUser { u with hostmasks := masks } }, .done)
      else (st, .noUser)

def run (st : St) (ops : List Op) : St := ops.foldl (fun s o => (step s o).1) st

end C04
