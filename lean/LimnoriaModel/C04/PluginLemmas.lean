/-
C04 — where login entries come from: no dictionary operation other than `identify` creates one
(`step_auth`), lookups create none, and the plugin only runs `identify` after the password test.
-/
import LimnoriaModel.C04.Plugin
import LimnoriaModel.C04.Overlap
import LimnoriaModel.C04.Names
namespace C04
open Py C03

/-- every login entry of `b` is a login entry of the same account in `a`, or one of `extra` -/
def AuthFrom (a : List User) (extra : List (Nat × (Int × Str))) (b : List User) : Prop :=
  ∀ u' ∈ b, ∀ e ∈ u'.auth, (∃ u ∈ a, u.id = u'.id ∧ e ∈ u.auth) ∨ (u'.id, e) ∈ extra

theorem authFrom_refl (a : List User) (x : List (Nat × (Int × Str))) : AuthFrom a x a :=
  fun u' hu e he => Or.inl ⟨u', hu, rfl, he⟩

theorem authFrom_trans {a b c : List User} {x : List (Nat × (Int × Str))}
    (h1 : AuthFrom a x b) (h2 : AuthFrom b [] c) : AuthFrom a x c := by
  intro u' hu e he
  rcases h2 u' hu e he with ⟨v, hv, hid, hev⟩ | h
  · rcases h1 v hv e hev with ⟨w, hw, hid', hew⟩ | h
    · exact Or.inl ⟨w, hw, hid'.trans hid, hew⟩
    · exact Or.inr (hid ▸ h)
  · cases h

theorem authFrom_trans' {a b c : List User} {x : List (Nat × (Int × Str))}
    (h1 : AuthFrom a [] b) (h2 : AuthFrom b x c) : AuthFrom a x c := by
  intro u' hu e he
  rcases h2 u' hu e he with ⟨v, hv, hid, hev⟩ | h
  · rcases h1 v hv e hev with ⟨w, hw, hid', hew⟩ | h
    · exact Or.inl ⟨w, hw, hid'.trans hid, hew⟩
    · cases h
  · exact Or.inr h

theorem authFrom_weaken {a b : List User} {x : List (Nat × (Int × Str))} (h : AuthFrom a [] b) :
    AuthFrom a x b := fun u' hu e he =>
  match h u' hu e he with
  | Or.inl h => Or.inl h
  | Or.inr h => by cases h

/-- storing a record whose logins all come from the old record of that id, or from `extra` -/
theorem authFrom_put {l : List User} {u : User} {x : List (Nat × (Int × Str))}
    (h : ∀ e ∈ u.auth, (∃ v ∈ l, v.id = u.id ∧ e ∈ v.auth) ∨ (u.id, e) ∈ x) :
    AuthFrom l x (putUser l u) := by
  intro u' hu e he
  rcases C03.mem_putUser hu with e1 | e1
  · subst e1; exact h e he
  · exact Or.inl ⟨u', e1, rfl, he⟩

theorem removeOffending_auth (us : List User) (ids : List (Nat × CH)) :
    AuthFrom us [] (removeOffending us ids).1 := by
  induction ids generalizing us with
  | nil => exact authFrom_refl _ _
  | cons x rest ih =>
    obtain ⟨id, c⟩ := x
    simp only [removeOffending]
    cases hf : us.find? (fun u => u.id == id) with
    | none => exact authFrom_refl _ _
    | some u =>
      simp only
      split
      · exact authFrom_refl _ _
      · rename_i ms _
        have hm : u ∈ us := List.mem_of_find?_eq_some hf
        have h1 : AuthFrom us [] (putUser us { u with hostmasks := ms }) :=
          authFrom_put (fun e he => Or.inl ⟨u, hm, rfl, he⟩)
        exact authFrom_trans h1 (ih _)

theorem slowPath_auth (st : St) (s : Str) : AuthFrom st.db.users [] (slowPath st s).1.db.users := by
  unfold slowPath
  split
  · exact authFrom_refl _ _
  · exact authFrom_refl _ _
  · exact removeOffending_auth _ _

theorem getUserId_auth (st : St) (s : Str) : AuthFrom st.db.users [] (getUserId st s).1.db.users := by
  unfold getUserId
  split
  · unfold getUserIdHost
    split
    · split
      · split
        · exact authFrom_refl _ _
        · have := slowPath_auth (invalidateHost st s) s
          rw [(invalidateHost_db st s).1] at this
          exact this
      · exact slowPath_auth st s
    · exact slowPath_auth st s
  · unfold getUserIdName
    simp only
    split
    · exact authFrom_refl _ _
    · split <;> exact authFrom_refl _ _

theorem getUser_auth (st : St) (s : Str) : AuthFrom st.db.users [] (getUser st s).1.db.users := by
  unfold getUser
  have := getUserId_auth st s
  split
  · rename_i st' id h
    have e : st' = (getUserId st s).1 := by rw [h]
    split <;> (rw [e]; exact this)
  · rename_i st' er h
    have e : st' = (getUserId st s).1 := by rw [h]
    rw [e]; exact this

theorem checkCapabilityS_state' (st : St) (h cap : Str) (fl : Flags) :
    (checkCapabilityS st h cap fl).1 = st ∨ (checkCapabilityS st h cap fl).1 = (getUser st h).1 := by
  unfold checkCapabilityS recogniseS
  split
  · exact Or.inl rfl
  · exact Or.inr rfl

theorem checkCapabilityS_auth (st : St) (h cap : Str) (fl : Flags) :
    AuthFrom st.db.users [] (checkCapabilityS st h cap fl).1.db.users := by
  rcases checkCapabilityS_state' st h cap fl with e | e <;> rw [e]
  · exact authFrom_refl _ _
  · exact getUser_auth st h

theorem finalRecord_auth (r : St) (u : User) (live : Bool) :
    ∀ e ∈ (finalRecord r u live).auth,
      (∃ v ∈ r.db.users, v.id = (finalRecord r u live).id ∧ e ∈ v.auth) ∨ e ∈ u.auth := by
  intro e he
  unfold finalRecord at he ⊢
  cases live
  · exact Or.inr he
  · simp only [if_true] at he ⊢
    cases hg : r.db.getUserById u.id with
    | none => rw [hg] at he; exact Or.inr he
    | some w =>
      rw [hg] at he
      exact Or.inl ⟨w, (getUserById_spec hg).1, rfl, he⟩

theorem finalRecord_id (r : St) (u : User) (live : Bool) : (finalRecord r u live).id = u.id := by
  unfold finalRecord
  cases live
  · rfl
  · simp only [if_true]
    cases hg : r.db.getUserById u.id with
    | none => rfl
    | some w => exact (getUserById_spec hg).2

/-- `setUser(u)`: afterwards every login is an old login of the same account or one `u` carried -/
theorem setUser_auth (st : St) (u : User) (live : Bool) :
    ∀ u' ∈ (setUser st u live).1.db.users, ∀ e ∈ u'.auth,
      (∃ v ∈ st.db.users, v.id = u'.id ∧ e ∈ v.auth) ∨ (u'.id = u.id ∧ e ∈ u.auth) := by
  have hg := getUserId_auth { st with hc := {}, nc := {}, nextId := max st.nextId u.id } u.name
  have lift : ∀ u' ∈ (getUserId { st with hc := {}, nc := {}, nextId := max st.nextId u.id } u.name).1.db.users,
      ∀ e ∈ u'.auth, (∃ v ∈ st.db.users, v.id = u'.id ∧ e ∈ v.auth) ∨ (u'.id = u.id ∧ e ∈ u.auth) := by
    intro u' hu e he
    rcases hg u' hu e he with h | h
    · exact Or.inl h
    · cases h
  unfold setUser
  split
  · intro u' hu e he; exact Or.inl ⟨u', hu, rfl, he⟩
  · simp only
    split
    · exact lift
    · split
      · exact lift
      · intro u' hu e he
        rcases C03.mem_putUser hu with e1 | e1
        · subst e1
          rcases finalRecord_auth _ u live e he with ⟨v, hv, hid, hev⟩ | h
          · rcases lift v hv e hev with h' | h'
            · obtain ⟨w, hw, hwid, hwe⟩ := h'
              exact Or.inl ⟨w, hw, hwid.trans hid, hwe⟩
            · exact Or.inr ⟨finalRecord_id _ u live, h'.2⟩
          · exact Or.inr ⟨finalRecord_id _ u live, h⟩
        · exact lift u' e1 e he

theorem setUser_auth_from {l : List User} {st' : St} {u1 : User} {live : Bool}
    {x : List (Nat × (Int × Str))} (hl : AuthFrom l x st'.db.users)
    (h : ∀ e ∈ u1.auth, (∃ v ∈ l, v.id = u1.id ∧ e ∈ v.auth) ∨ (u1.id, e) ∈ x) :
    AuthFrom l x (setUser st' u1 live).1.db.users := by
  intro u' hu e he
  rcases setUser_auth st' u1 live u' hu e he with ⟨v, hv, hid, hev⟩ | ⟨hid, hev⟩
  · rcases hl v hv e hev with ⟨w, hw, hwid, hwe⟩ | hx
    · exact Or.inl ⟨w, hw, hwid.trans hid, hwe⟩
    · exact Or.inr (hid ▸ hx)
  · rcases h e hev with ⟨w, hw, hwid, hwe⟩ | hx
    · exact Or.inl ⟨w, hw, hwid.trans hid.symm, hwe⟩
    · exact Or.inr (hid.symm ▸ hx)

theorem mem_dedupLast {l : List (Int × Str)} {e : Int × Str} (h : e ∈ dedupLast l) : e ∈ l := by
  induction l with
  | nil => cases h
  | cons x xs ih =>
    simp only [dedupLast] at h
    split at h
    · exact List.mem_cons_of_mem _ (ih h)
    · rcases List.mem_cons.1 h with e1 | e1
      · exact e1 ▸ List.mem_cons_self
      · exact List.mem_cons_of_mem _ (ih e1)

theorem withUser_auth {st : St} {x : List (Nat × (Int × Str))} (id : Nat) (f : User → St × Out)
    (hf : ∀ u, u ∈ st.db.users → u.id = id → AuthFrom st.db.users x (f u).1.db.users) :
    AuthFrom st.db.users x (withUser st id f).1.db.users := by
  unfold withUser
  split
  · rename_i u hu
    obtain ⟨hm, hid⟩ := getUserById_spec hu
    exact hf u hm hid
  · exact authFrom_refl _ _

theorem invalidate_fold_users (st : St) (l : List (Int × Str)) :
    (l.foldl (fun s e => invalidateHost s e.2) st).db = st.db := by
  induction l generalizing st with
  | nil => rfl
  | cons e es ih => simp only [List.foldl_cons]; rw [ih, (invalidateHost_db st e.2).1]

theorem delUser_auth (st : St) (id : Nat) : AuthFrom st.db.users [] (delUser st id).1.db.users := by
  unfold delUser
  split
  · exact authFrom_refl _ _
  · dsimp only
    rw [(invalidateId_db _ id).1]
    intro u' hu e he
    exact Or.inl ⟨u', (List.mem_filter.1 hu).1, rfl, he⟩

theorem registerTail_auth {l : List User} {st1 : St} {u0 : User} (hl : AuthFrom l [] st1.db.users)
    (hu0 : u0.auth = []) (h : Option Str) : AuthFrom l [] (registerTail st1 u0 h).1.db.users := by
  unfold registerTail
  cases h with
  | none =>
    dsimp only
    have hs : AuthFrom l [] (setUser st1 u0).1.db.users :=
      setUser_auth_from hl (fun e he => by rw [hu0] at he; cases he)
    split
    · exact hs
    · exact authFrom_trans hs (delUser_auth _ _)
  | some h =>
    dsimp only
    cases ha : addHostmask u0 h with
    | error e => exact authFrom_trans hl (delUser_auth _ _)
    | ok u1 =>
      dsimp only
      have hau : u1.auth = [] := by
        unfold addHostmask at ha
        split at ha
        · cases ha
        · split at ha
          · cases ha
          · injection ha with ha; subst ha; exact hu0
      have hs : AuthFrom l [] (setUser { st1 with db := st1.db.putUser u1 } u1).1.db.users := by
        refine setUser_auth_from (authFrom_trans hl (authFrom_put ?_)) ?_
        · intro e he; rw [hau] at he; cases he
        · intro e he; rw [hau] at he; cases he
      split
      · exact hs
      · exact authFrom_trans hs (delUser_auth _ _)

theorem pruneScan_sub (timeout now : Int) (h : Str) (l : List (Int × Str)) :
    ∀ e ∈ pruneScan timeout now h l, e ∈ l := by
  induction l with
  | nil => intro e he; cases he
  | cons a rest ih =>
    intro e he
    unfold pruneScan at he
    split at he
    · exact List.mem_cons_of_mem _ (ih e he)
    · split at he
      · exact he
      · rcases List.mem_cons.1 he with h1 | h1
        · exact h1 ▸ List.mem_cons_self
        · exact List.mem_cons_of_mem _ (ih e h1)

theorem followAuth_mem (old new : Str) (l : List (Int × Str)) :
    ∀ e ∈ followAuth old new l, e ∈ l ∨ ∃ a ∈ l, strEqual old a.2 = true ∧ e = (a.1, new) := by
  intro e he
  simp only [followAuth, List.mem_map] at he
  obtain ⟨a, ha, hea⟩ := he
  by_cases hm : strEqual old a.2 = true
  · rw [if_pos hm] at hea
    exact Or.inr ⟨a, ha, hm, hea.symm⟩
  · rw [if_neg hm] at hea
    exact Or.inl (hea ▸ ha)

theorem followFirst_mem (old new : Str) (l : List (Int × Str)) :
    ∀ e ∈ followFirst old new l, e ∈ l ∨ ∃ a ∈ l, strEqual old a.2 = true ∧ e = (a.1, new) := by
  induction l with
  | nil => intro e he; cases he
  | cons a rest ih =>
    intro e he
    unfold followFirst at he
    by_cases hm : strEqual old a.2 = true
    · rw [if_pos hm] at he
      rcases List.mem_cons.1 he with h | h
      · exact Or.inr ⟨a, List.mem_cons_self, hm, h⟩
      · exact Or.inl (List.mem_cons_of_mem _ h)
    · rw [if_neg hm] at he
      rcases List.mem_cons.1 he with h | h
      · exact Or.inl (h ▸ List.mem_cons_self)
      · rcases ih e h with h1 | ⟨b, hb, hbm, hbe⟩
        · exact Or.inl (List.mem_cons_of_mem _ h1)
        · exact Or.inr ⟨b, List.mem_cons_of_mem _ hb, hbm, hbe⟩

/-- the logins an operation may add: `identify` one, `followNick` the moved ones, every other
operation none -/
def extraOf (st : St) : Op → List (Nat × (Int × Str))
  | .identify id h => [(id, (st.now, h))]
  | .followNick id old new =>
    match st.db.getUserById id with
    | some u => (u.auth.filter (fun a => strEqual old a.2)).map (fun a => (id, (a.1, new)))
    | none => []
  | _ => []

/-- **No dictionary operation other than `identify` and `followNick` writes a login entry**:
`identify id h` creates at most the entry `(now, h)` for account `id`, and `followNick id old new`
at most `(t, new)` for the entries `(t, m)` of account `id` with `m` equal to `old` (IRC case). -/
theorem step_auth (st : St) (op : Op) : AuthFrom st.db.users (extraOf st op) (step st op).1.db.users := by
  cases op with
  | register name h =>
    simp only [step, extraOf]
    split
    · exact authFrom_refl _ _
    · -- the new blank record (twice `putUser`) carries no login
      have hblank : AuthFrom st.db.users []
          ({ (newUser st).1 with db := (newUser st).1.db.putUser { id := (newUser st).2, name := name } } : St).db.users := by
        simp only [newUser, Db.putUser]
        refine authFrom_trans (b := putUser st.db.users { id := st.nextId + 1 }) ?_ ?_
        · exact authFrom_put (fun e he => by cases he)
        · exact authFrom_put (fun e he => by cases he)
      exact registerTail_auth hblank rfl h
  | addHost id h =>
    simp only [step, extraOf]
    apply withUser_auth
    intro u hu huid
    cases ha : addHostmask u h with
    | error e => exact authFrom_refl _ _
    | ok u1 =>
      dsimp only
      have hau : u1.auth = u.auth ∧ u1.id = u.id := by
        unfold addHostmask at ha
        split at ha
        · cases ha
        · split at ha
          · cases ha
          · injection ha with ha; subst ha; exact ⟨rfl, rfl⟩
      have hput : ∀ e ∈ u1.auth, (∃ v ∈ st.db.users, v.id = u1.id ∧ e ∈ v.auth) ∨ (u1.id, e) ∈ ([] : List (Nat × (Int × Str))) :=
        fun e he => Or.inl ⟨u, hu, hau.2.symm, hau.1 ▸ he⟩
      have hs : AuthFrom st.db.users [] (setUser { st with db := st.db.putUser u1 } u1).1.db.users :=
        setUser_auth_from (authFrom_put hput) hput
      split
      · exact hs
      · split
        · exact hs
        · rename_i u' hu'
          split
          · rename_i u2 hr
            obtain ⟨h1, _, h3, _⟩ := removeHostmask_spec hr
            obtain ⟨hm', _⟩ := getUserById_spec hu'
            dsimp only
            exact authFrom_trans hs (authFrom_put (fun e he => Or.inl ⟨u', hm', h1.symm, h3 ▸ he⟩))
          · exact hs
  | rmHost id h =>
    simp only [step, extraOf]
    apply withUser_auth
    intro u hu huid
    cases ha : removeHostmask u h with
    | error e => exact authFrom_refl _ _
    | ok u1 =>
      dsimp only
      obtain ⟨h1, _, h3, _⟩ := removeHostmask_spec ha
      have hput : ∀ e ∈ u1.auth, (∃ v ∈ st.db.users, v.id = u1.id ∧ e ∈ v.auth) ∨ (u1.id, e) ∈ ([] : List (Nat × (Int × Str))) :=
        fun e he => Or.inl ⟨u, hu, h1.symm, h3 ▸ he⟩
      exact setUser_auth_from (authFrom_put hput) hput
  | identify id h =>
    simp only [step, extraOf]
    apply withUser_auth
    intro u hu huid
    cases ha : addAuth u st.db.timeout st.now h with
    | error e => exact authFrom_refl _ _
    | ok u1 =>
      dsimp only
      have hput : ∀ e ∈ u1.auth, (∃ v ∈ st.db.users, v.id = u1.id ∧ e ∈ v.auth) ∨
          (u1.id, e) ∈ [(id, (st.now, h))] := by
        unfold addAuth at ha
        split at ha
        · injection ha with ha; subst ha
          intro e he
          have := mem_dedupLast he
          rcases List.mem_append.1 this with e1 | e1
          · exact Or.inl ⟨u, hu, rfl, e1⟩
          · rw [List.mem_singleton] at e1
            right; simp only; rw [huid, e1]; exact List.mem_singleton.2 rfl
        · cases ha
      exact setUser_auth_from (authFrom_put hput) hput
  | unidentify id =>
    simp only [step, extraOf]
    apply withUser_auth
    intro u hu huid
    dsimp only [clearAuth]
    have hdb := invalidate_fold_users st u.auth
    have hpre : AuthFrom st.db.users []
        ({ (u.auth.foldl (fun s e => invalidateHost s e.2) st) with
            db := (u.auth.foldl (fun s e => invalidateHost s e.2) st).db.putUser { u with auth := [] } } : St).db.users := by
      simp only [hdb, Db.putUser]
      exact authFrom_put (fun e he => by cases he)
    exact setUser_auth_from hpre (fun e he => by cases he)
  | logout id =>
    simp only [step, extraOf]
    apply withUser_auth
    intro u hu huid
    dsimp only [clearAuth]
    have hdb := invalidate_fold_users st u.auth
    simp only [hdb, Db.putUser]
    exact authFrom_put (fun e he => by cases he)
  | rename id name =>
    simp only [step, extraOf]
    apply withUser_auth
    intro _ _ _
    have hg := getUserId_auth st name
    split
    · exact hg
    · split
      · exact hg
      · refine authFrom_trans hg ?_
        apply withUser_auth
        intro u hu huid
        dsimp only
        have hput : ∀ e ∈ ({ u with name := name } : User).auth,
            (∃ v ∈ (getUserId st name).1.db.users, v.id = u.id ∧ e ∈ v.auth) ∨ (u.id, e) ∈ ([] : List (Nat × (Int × Str))) :=
          fun e he => Or.inl ⟨u, hu, rfl, he⟩
        exact setUser_auth_from (authFrom_put hput) hput
    · exact hg
  | secure id b =>
    simp only [step, extraOf]
    apply withUser_auth
    intro u hu huid
    dsimp only
    have hput : ∀ e ∈ ({ u with secure := b } : User).auth,
        (∃ v ∈ st.db.users, v.id = u.id ∧ e ∈ v.auth) ∨ (u.id, e) ∈ ([] : List (Nat × (Int × Str))) :=
      fun e he => Or.inl ⟨u, hu, rfl, he⟩
    exact setUser_auth_from (authFrom_put hput) hput
  | followNick id old new =>
    simp only [step, extraOf]
    unfold withUser
    cases hg : st.db.getUserById id with
    | none => exact authFrom_refl _ _
    | some u =>
      dsimp only
      obtain ⟨hu, huid⟩ := getUserById_spec hg
      split
      · exact authFrom_refl _ _
      · have key : ∀ auth' : List (Int × Str),
            (∀ e ∈ auth', e ∈ u.auth ∨ ∃ a ∈ u.auth, strEqual old a.2 = true ∧ e = (a.1, new)) →
            ∀ e ∈ ({ u with auth := auth' } : User).auth,
              (∃ v ∈ st.db.users, v.id = u.id ∧ e ∈ v.auth) ∨
              (u.id, e) ∈ (u.auth.filter (fun a => strEqual old a.2)).map (fun a => (id, (a.1, new))) := by
          intro auth' h e he
          rcases h e he with h1 | ⟨a, ha, hm, hea⟩
          · exact Or.inl ⟨u, hu, rfl, h1⟩
          · right
            rw [List.mem_map]
            exact ⟨a, List.mem_filter.2 ⟨ha, hm⟩, by rw [hea, huid]⟩
        have sub_follow : ∀ {auth' : List (Int × Str)},
            (∀ e ∈ auth', e ∈ pruneScan st.db.timeout st.now old u.auth ∨
              ∃ a ∈ pruneScan st.db.timeout st.now old u.auth, strEqual old a.2 = true ∧ e = (a.1, new)) →
            ∀ e ∈ auth', e ∈ u.auth ∨ ∃ a ∈ u.auth, strEqual old a.2 = true ∧ e = (a.1, new) := by
          intro auth' h e he
          rcases h e he with h1 | ⟨a, ha, hm, hea⟩
          · exact Or.inl (pruneScan_sub _ _ _ _ _ h1)
          · exact Or.inr ⟨a, pruneScan_sub _ _ _ _ _ ha, hm, hea⟩
        split
        · have hput := key (followFirst old new (pruneScan st.db.timeout st.now old u.auth))
            (sub_follow (followFirst_mem old new _))
          exact setUser_auth_from (authFrom_put hput) hput
        · have hput := key (followAuth old new (pruneScan st.db.timeout st.now old u.auth))
            (sub_follow (followAuth_mem old new _))
          exact setUser_auth_from (authFrom_put hput) hput
  | clearHosts id =>
    simp only [step, extraOf]
    apply withUser_auth
    intro u hu huid
    dsimp only
    have hput : ∀ e ∈ ({ u with hostmasks := [] } : User).auth,
        (∃ v ∈ st.db.users, v.id = u.id ∧ e ∈ v.auth) ∨ (u.id, e) ∈ ([] : List (Nat × (Int × Str))) :=
      fun e he => Or.inl ⟨u, hu, rfl, he⟩
    exact setUser_auth_from (authFrom_put hput) hput
  | setName id name =>
    simp only [step, extraOf]
    apply withUser_auth
    intro u hu huid
    split
    · exact authFrom_refl _ _
    · dsimp only
      have hput : ∀ e ∈ ({ u with name := name } : User).auth,
          (∃ v ∈ st.db.users, v.id = u.id ∧ e ∈ v.auth) ∨ (u.id, e) ∈ ([] : List (Nat × (Int × Str))) :=
        fun e he => Or.inl ⟨u, hu, rfl, he⟩
      exact setUser_auth_from (authFrom_put hput) hput
  | load id name sec masks =>
    simp only [step, extraOf]
    have h1 : AuthFrom st.db.users []
        (setUser st { id := id, name := name, secure := sec, hostmasks := masks.foldl masksAdd [] } false).1.db.users :=
      setUser_auth_from (authFrom_refl _ _) (fun e he => by cases he)
    split
    · exact h1
    · exact authFrom_trans h1 (setUser_auth_from (authFrom_refl _ _) (fun e he => by cases he))
  | delUser id =>
    simp only [step, extraOf, delUser]
    split
    · exact authFrom_refl _ _
    · dsimp only
      rw [(invalidateId_db _ id).1]
      intro u' hu e he
      exact Or.inl ⟨u', (List.mem_filter.1 hu).1, rfl, he⟩
  | tick dt => exact authFrom_refl _ _
  | lookup s =>
    simp only [step, extraOf]
    exact getUserId_auth st s
  | pruned id kept =>
    simp only [step, extraOf]
    apply withUser_auth
    intro u hu huid
    split
    · exact authFrom_put (fun e he => Or.inl ⟨u, hu, rfl, (List.mem_filter.1 he).1⟩)
    · exact authFrom_refl _ _
  | order id masks =>
    simp only [step, extraOf]
    apply withUser_auth
    intro u hu huid
    split
    · exact authFrom_put (fun e he => Or.inl ⟨u, hu, rfl, he⟩)
    · exact authFrom_refl _ _

/-! ### guards are lookups -/

theorem getUser_state (st : St) (s : Str) : (getUser st s).1 = (getUserId st s).1 := by
  unfold getUser
  split
  · rename_i st' id h
    have e : st' = (getUserId st s).1 := by rw [h]
    split <;> exact e
  · rename_i st' er h
    rw [h]

theorem getUser_inv {st : St} (hi : Inv st) (s : Str) : Inv (getUser st s).1 := by
  rw [getUser_state]; exact getUserId_inv hi s

theorem convUser_state (st : St) (p : Str) : (convUser st p).1 = (getUserId st p).1 := by
  unfold convUser; exact getUser_state st p

/-- a state reached from `st` by lookups only -/
structure Quiet (st st' : St) : Prop where
  inv : Inv st → Inv st'
  auth : AuthFrom st.db.users [] st'.db.users
  masks : MasksFrom st.db.users st'.db.users
  now : st'.now = st.now
  /-- ids and names of the records are untouched -/
  sig : Inv st → sig st'.db.users = sig st.db.users

theorem quiet_refl (st : St) : Quiet st st := ⟨id, authFrom_refl _ _, masksFrom_refl _, rfl, fun _ => rfl⟩

theorem quiet_trans {a b c : St} (h1 : Quiet a b) (h2 : Quiet b c) : Quiet a c :=
  ⟨fun hi => h2.inv (h1.inv hi), authFrom_trans h1.auth h2.auth, masksFrom_trans h1.masks h2.masks, h2.now.trans h1.now,
    fun hi => (h2.sig (h1.inv hi)).trans (h1.sig hi)⟩

theorem quiet_getUserId (st : St) (s : Str) : Quiet st (getUserId st s).1 :=
  ⟨fun hi => getUserId_inv hi s, getUserId_auth st s, getUserId_masks st s, (getUserId_frame st s).1,
    fun hi => getUserId_sig st s hi.recs⟩

theorem quiet_getUser (st : St) (s : Str) : Quiet st (getUser st s).1 := by
  rw [getUser_state]; exact quiet_getUserId st s

theorem quiet_convUser (st : St) (p : Str) : Quiet st (convUser st p).1 := by
  rw [convUser_state]; exact quiet_getUserId st p

theorem quiet_callerIsOwner (st : St) (p : Str) : Quiet st (callerIsOwner st p).1 := by
  unfold callerIsOwner
  dsimp only
  rcases checkCapabilityS_state' st p ownerS {} with e | e <;> rw [e]
  · exact quiet_refl st
  · exact quiet_getUser st p

theorem convOther_state (nicks : List (Str × Str)) (st : St) (a : Str) :
    (convOther nicks st a).1 = st ∨ (convOther nicks st a).1 = (getUser st a).1 ∨
    (∃ hm, (convOther nicks st a).1 = (getUser (getUser st a).1 hm).1) := by
  unfold convOther
  split
  · exact Or.inl rfl
  · dsimp only
    split
    · exact Or.inr (Or.inl rfl)
    · split
      · exact Or.inr (Or.inl rfl)
      · exact Or.inr (Or.inr ⟨_, rfl⟩)
    · exact Or.inr (Or.inl rfl)

theorem quiet_convOther (nicks : List (Str × Str)) (st : St) (a : Str) : Quiet st (convOther nicks st a).1 := by
  rcases convOther_state nicks st a with e | e | ⟨hm, e⟩ <;> rw [e]
  · exact quiet_refl st
  · exact quiet_getUser st a
  · exact quiet_trans (quiet_getUser st a) (quiet_getUser _ hm)

theorem convFirst_state (nicks : List (Str × Str)) (st : St) (p a : Str) :
    (convFirst nicks st p a).1 = (convOther nicks st a).1 ∨
    (convFirst nicks st p a).1 = (convUser (convOther nicks st a).1 p).1 := by
  unfold convFirst
  dsimp only
  split
  · exact Or.inl rfl
  · exact Or.inr rfl

theorem quiet_convFirst (nicks : List (Str × Str)) (st : St) (p a : Str) : Quiet st (convFirst nicks st p a).1 := by
  rcases convFirst_state nicks st p a with e | e <;> rw [e]
  · exact quiet_convOther nicks st a
  · exact quiet_trans (quiet_convOther nicks st a) (quiet_convUser _ p)

theorem hostAddBody_state (pwOk : Str → Str → Bool) (pst : PSt) (st : St) (p : Str) (u : User) (hm pw : Str) :
    (hostAddBody pwOk pst st p u hm pw).1 = (callerIsOwner st p).1 ∨
    (hostAddBody pwOk pst st p u hm pw).1 =
      (getUserId (callerIsOwner st p).1 (if hm.isEmpty then p else hm)).1 := by
  unfold hostAddBody hostAddCore
  generalize (if hm.isEmpty then p else hm) = hm'
  dsimp only
  split
  · exact Or.inl rfl
  · split
    · exact Or.inr rfl
    · split <;> exact Or.inr rfl

theorem quiet_hostAddBody (pwOk : Str → Str → Bool) (pst : PSt) (st : St) (p : Str) (u : User) (hm pw : Str) :
    Quiet st (hostAddBody pwOk pst st p u hm pw).1 := by
  rcases hostAddBody_state pwOk pst st p u hm pw with e | e <;> rw [e]
  · exact quiet_callerIsOwner st p
  · exact quiet_trans (quiet_callerIsOwner st p) (quiet_getUserId _ _)

theorem hostRemoveBody_state (pwOk : Str → Str → Bool) (pst : PSt) (st : St) (p : Str) (u : User) (hm pw : Str) :
    (hostRemoveBody pwOk pst st p u hm pw).1 = (callerIsOwner st p).1 ∨
    (hostRemoveBody pwOk pst st p u hm pw).1 = st := by
  unfold hostRemoveBody hostRemoveCore
  generalize (if hm.isEmpty then p else hm) = hm'
  dsimp only
  split
  · split <;> exact Or.inl rfl
  · exact Or.inr rfl

theorem quiet_hostRemoveBody (pwOk : Str → Str → Bool) (pst : PSt) (st : St) (p : Str) (u : User) (hm pw : Str) :
    Quiet st (hostRemoveBody pwOk pst st p u hm pw).1 := by
  rcases hostRemoveBody_state pwOk pst st p u hm pw with e | e <;> rw [e]
  · exact quiet_callerIsOwner st p
  · exact quiet_refl st

theorem quiet_guard (pwOk : Str → Str → Bool) (pst : PSt) (c : Cmd) : Quiet pst.st (guard pwOk pst c).1 := by
  cases c with
  | register p name pw =>
    simp only [guard]
    have h1 := quiet_getUserId pst.st name
    split
    · exact h1
    · split
      · exact h1
      · exact quiet_trans h1 (quiet_getUser _ p)
    · exact h1
  | identify p name pw => simp only [guard]; exact quiet_convOther _ _ name
  | changename p name newname pw =>
    simp only [guard]
    have h1 := quiet_convOther pst.nicks pst.st name
    split
    · exact h1
    · exact quiet_trans h1 (quiet_getUserId _ newname)
  | unidentify p => simp only [guard]; exact quiet_convUser _ p
  | hostAdd p name mask pw =>
    simp only [guard]
    cases name with
    | some n =>
      dsimp only
      have h1 := quiet_convFirst pst.nicks pst.st p n
      split
      · exact h1
      · exact quiet_trans h1 (quiet_hostAddBody pwOk pst _ p _ mask pw)
      · exact h1
    | none =>
      dsimp only
      have h1 := quiet_convFirst pst.nicks pst.st p mask
      split
      · exact h1
      · exact quiet_trans h1 (quiet_hostAddBody pwOk pst _ p _ [] [])
      · exact quiet_trans h1 (quiet_hostAddBody pwOk pst _ p _ mask [])
  | hostRemove p name mask pw =>
    simp only [guard]
    cases name with
    | some n =>
      dsimp only
      have h1 := quiet_convFirst pst.nicks pst.st p n
      split
      · exact h1
      · exact quiet_trans h1 (quiet_hostRemoveBody pwOk pst _ p _ mask pw)
      · exact h1
    | none =>
      dsimp only
      have h1 := quiet_convFirst pst.nicks pst.st p mask
      split
      · exact h1
      · exact quiet_trans h1 (quiet_hostRemoveBody pwOk pst _ p _ [] [])
      · exact quiet_trans h1 (quiet_hostRemoveBody pwOk pst _ p _ mask [])
  | setSecure p pw b => simp only [guard]; exact quiet_convUser _ p
  | whoami p => simp only [guard]; exact quiet_getUser _ p
  | tick dt => simp only [guard]; exact quiet_refl _

/-! ### the ghost log -/

/-- every login entry of every account is in the log of password-checked identifications -/
def AuthBacked (pst : PSt) : Prop :=
  ∀ u ∈ pst.st.db.users, ∀ e ∈ u.auth, ∃ l ∈ pst.log, l.uid = u.id ∧ l.t = e.1 ∧ l.host = e.2

/-- every logged identification passed the account's password test -/
def LogOK (pwOk : Str → Str → Bool) (pst : PSt) : Prop :=
  ∀ l ∈ pst.log, ∃ s, pst.pws.lookup l.uid = some s ∧ pwOk s l.pw = true

theorem hostAddBody_not_identify (pwOk : Str → Str → Bool) (pst : PSt) (st : St) (p : Str) (u : User)
    (hm pw : Str) (id : Nat) (h : Str) : (hostAddBody pwOk pst st p u hm pw).2 ≠ .run (.identify id h) := by
  unfold hostAddBody hostAddCore
  generalize (if hm.isEmpty then p else hm) = hm'
  dsimp only
  split
  · intro e; cases e
  · split
    · intro e; cases e
    · split <;> (intro e; cases e)

theorem hostRemoveBody_not_identify (pwOk : Str → Str → Bool) (pst : PSt) (st : St) (p : Str) (u : User)
    (hm pw : Str) (id : Nat) (h : Str) : (hostRemoveBody pwOk pst st p u hm pw).2 ≠ .run (.identify id h) := by
  have hro : ∀ i m, removeOp i m ≠ .identify id h := by
    intro i m; unfold removeOp; split <;> (intro e; cases e)
  unfold hostRemoveBody hostRemoveCore
  generalize (if hm.isEmpty then p else hm) = hm'
  dsimp only
  split
  · split
    · intro e; cases e
    · intro e; injection e with e; exact hro _ _ e
  · intro e; injection e with e; exact hro _ _ e

/-- **the plugin runs `identify` only after the password test**: the guard hands the dictionary
an `identify id h` only for the command `identify <name> <password>` sent from exactly `h`, and
only when the password test of account `id` accepted `<password>` -/
theorem guard_identify {pwOk : Str → Str → Bool} {pst : PSt} {c : Cmd} {id : Nat} {h : Str}
    (hg : (guard pwOk pst c).2 = .run (.identify id h)) :
    ∃ name pw, c = .identify h name pw ∧ checkPassword pwOk pst id pw = true := by
  cases c with
  | register p name pw =>
    simp only [guard] at hg
    split at hg
    · cases hg
    · split at hg
      · cases hg
      · dsimp only at hg
        split at hg
        · split at hg <;> cases hg
        · cases hg
        · cases hg
    · cases hg
  | identify p name pw =>
    simp only [guard] at hg
    split at hg
    · rename_i u hu
      split at hg
      · rename_i hpw
        injection hg with hg; injection hg with h1 h2
        subst h1 h2
        exact ⟨name, pw, rfl, hpw⟩
      · cases hg
    · cases hg
  | changename p name newname pw =>
    simp only [guard] at hg
    split at hg
    · cases hg
    · dsimp only at hg
      split at hg
      · cases hg
      · split at hg
        · cases hg
        · split at hg <;> cases hg
      · cases hg
  | unidentify p =>
    simp only [guard] at hg
    split at hg <;> cases hg
  | hostAdd p name mask pw =>
    simp only [guard] at hg
    cases name with
    | some n =>
      dsimp only at hg
      split at hg
      · cases hg
      · exact absurd hg (hostAddBody_not_identify _ _ _ _ _ _ _ _ _)
      · cases hg
    | none =>
      dsimp only at hg
      split at hg
      · cases hg
      · exact absurd hg (hostAddBody_not_identify _ _ _ _ _ _ _ _ _)
      · exact absurd hg (hostAddBody_not_identify _ _ _ _ _ _ _ _ _)
  | hostRemove p name mask pw =>
    simp only [guard] at hg
    cases name with
    | some n =>
      dsimp only at hg
      split at hg
      · cases hg
      · exact absurd hg (hostRemoveBody_not_identify _ _ _ _ _ _ _ _ _)
      · cases hg
    | none =>
      dsimp only at hg
      split at hg
      · cases hg
      · exact absurd hg (hostRemoveBody_not_identify _ _ _ _ _ _ _ _ _)
      · exact absurd hg (hostRemoveBody_not_identify _ _ _ _ _ _ _ _ _)
  | setSecure p pw b =>
    simp only [guard] at hg
    split at hg
    · cases hg
    · split at hg <;> cases hg
  | whoami p => simp only [guard] at hg; cases hg
  | tick dt => simp only [guard] at hg; cases hg

/-- dictionary operations that rewrite logins after a nick change -/
def Op.isFollow : Op → Bool
  | .followNick _ _ _ => true
  | _ => false

theorem removeOp_not_follow (i : Nat) (m : Str) : (removeOp i m).isFollow = false := by
  unfold removeOp; split <;> rfl

theorem hostAddBody_not_follow (pwOk : Str → Str → Bool) (pst : PSt) (st : St) (p : Str) (u : User)
    (hm pw : Str) (op : Op) (hg : (hostAddBody pwOk pst st p u hm pw).2 = .run op) : op.isFollow = false := by
  unfold hostAddBody hostAddCore at hg
  generalize (if hm.isEmpty then p else hm) = hm' at hg
  dsimp only at hg
  split at hg
  · cases hg
  · split at hg
    · cases hg
    · split at hg
      · cases hg
      · injection hg with hg; subst hg; rfl

theorem hostRemoveBody_not_follow (pwOk : Str → Str → Bool) (pst : PSt) (st : St) (p : Str) (u : User)
    (hm pw : Str) (op : Op) (hg : (hostRemoveBody pwOk pst st p u hm pw).2 = .run op) : op.isFollow = false := by
  unfold hostRemoveBody hostRemoveCore at hg
  generalize (if hm.isEmpty then p else hm) = hm' at hg
  dsimp only at hg
  split at hg
  · split at hg
    · cases hg
    · injection hg with hg; subst hg; exact removeOp_not_follow _ _
  · injection hg with hg; subst hg; exact removeOp_not_follow _ _

/-- **no command of the User plugin rewrites logins**: `followNick` is never what a guard hands
to the dictionary -/
theorem guard_not_follow {pwOk : Str → Str → Bool} {pst : PSt} {c : Cmd} {op : Op}
    (hg : (guard pwOk pst c).2 = .run op) : op.isFollow = false := by
  cases c with
  | register p name pw =>
    simp only [guard] at hg
    split at hg
    · cases hg
    · split at hg
      · cases hg
      · dsimp only at hg
        split at hg
        · split at hg
          · injection hg with hg; subst hg; rfl
          · cases hg
        · injection hg with hg; subst hg; rfl
        · cases hg
    · cases hg
  | identify p name pw =>
    simp only [guard] at hg
    split at hg
    · split at hg
      · injection hg with hg; subst hg; rfl
      · cases hg
    · cases hg
  | changename p name newname pw =>
    simp only [guard] at hg
    split at hg
    · cases hg
    · dsimp only at hg
      split at hg
      · cases hg
      · split at hg
        · cases hg
        · split at hg
          · injection hg with hg; subst hg; rfl
          · cases hg
      · cases hg
  | unidentify p =>
    simp only [guard] at hg
    split at hg
    · injection hg with hg; subst hg; rfl
    · cases hg
  | hostAdd p name mask pw =>
    simp only [guard] at hg
    cases name with
    | some n =>
      dsimp only at hg
      split at hg
      · cases hg
      · exact hostAddBody_not_follow _ _ _ _ _ _ _ _ hg
      · cases hg
    | none =>
      dsimp only at hg
      split at hg
      · cases hg
      · exact hostAddBody_not_follow _ _ _ _ _ _ _ _ hg
      · exact hostAddBody_not_follow _ _ _ _ _ _ _ _ hg
  | hostRemove p name mask pw =>
    simp only [guard] at hg
    cases name with
    | some n =>
      dsimp only at hg
      split at hg
      · cases hg
      · exact hostRemoveBody_not_follow _ _ _ _ _ _ _ _ hg
      · cases hg
    | none =>
      dsimp only at hg
      split at hg
      · cases hg
      · exact hostRemoveBody_not_follow _ _ _ _ _ _ _ _ hg
      · exact hostRemoveBody_not_follow _ _ _ _ _ _ _ _ hg
  | setSecure p pw b =>
    simp only [guard] at hg
    split at hg
    · cases hg
    · split at hg
      · injection hg with hg; subst hg; rfl
      · cases hg
  | whoami p => simp only [guard] at hg; cases hg
  | tick dt => simp only [guard] at hg; injection hg with hg; subst hg; rfl

/-- what a guard's operation may do to account names, in terms of the state the command met:
`register` and the renaming half of `changename` come with a name that does not look like a
hostmask and that nobody has; nothing else the plugin runs touches a name -/
def OpNamesOK (st : St) : Op → Prop
  | .register name _ => NameFresh st.db.users name
  | .setName _ name => NameFresh st.db.users name
  | op => op.keepsNames = true

theorem removeOp_keeps (i : Nat) (m : Str) : (removeOp i m).keepsNames = true := by
  unfold removeOp; split <;> rfl

theorem opNamesOK_of_keeps {st : St} {op : Op} (h : op.keepsNames = true) : OpNamesOK st op := by
  cases op <;> first | exact h | cases h

theorem hostAddBody_names (pwOk : Str → Str → Bool) (pst : PSt) (st0 st : St) (p : Str) (u : User)
    (hm pw : Str) (op : Op) (hg : (hostAddBody pwOk pst st p u hm pw).2 = .run op) : OpNamesOK st0 op := by
  unfold hostAddBody hostAddCore at hg
  generalize (if hm.isEmpty then p else hm) = hm' at hg
  dsimp only at hg
  split at hg
  · cases hg
  · split at hg
    · cases hg
    · split at hg
      · cases hg
      · injection hg with hg; subst hg; exact opNamesOK_of_keeps rfl

theorem hostRemoveBody_names (pwOk : Str → Str → Bool) (pst : PSt) (st0 st : St) (p : Str) (u : User)
    (hm pw : Str) (op : Op) (hg : (hostRemoveBody pwOk pst st p u hm pw).2 = .run op) : OpNamesOK st0 op := by
  unfold hostRemoveBody hostRemoveCore at hg
  generalize (if hm.isEmpty then p else hm) = hm' at hg
  dsimp only at hg
  split at hg
  · split at hg
    · cases hg
    · injection hg with hg; subst hg; exact opNamesOK_of_keeps (removeOp_keeps _ _)
  · injection hg with hg; subst hg; exact opNamesOK_of_keeps (removeOp_keeps _ _)

theorem not_or_false {a b : Bool} (h : ¬ (a || b) = true) : a = false := by
  cases a
  · rfl
  · exact absurd rfl h

/-- **the plugin names accounts only with names that are free and do not look like hostmasks**:
`register` and `changename` look the name up first (`getUserId` raising KeyError) and refuse
hostmask-like names; no other command's operation touches a name -/
theorem guard_names {pwOk : Str → Str → Bool} {pst : PSt} {c : Cmd} {op : Op} (hi : Inv pst.st)
    (hg : (guard pwOk pst c).2 = .run op) : OpNamesOK pst.st op := by
  cases c with
  | register p name pw =>
    simp only [guard] at hg
    split at hg
    · cases hg
    · rename_i hkey
      split at hg
      · cases hg
      · rename_i hshape
        have hfresh : NameFresh pst.st.db.users name := getUserId_key_fresh (not_or_false hshape) hkey
        dsimp only at hg
        split at hg
        · split at hg
          · injection hg with hg; subst hg; exact hfresh
          · cases hg
        · injection hg with hg; subst hg; exact hfresh
        · cases hg
    · cases hg
  | identify p name pw =>
    simp only [guard] at hg
    split at hg
    · split at hg
      · injection hg with hg; subst hg; exact opNamesOK_of_keeps rfl
      · cases hg
    · cases hg
  | changename p name newname pw =>
    simp only [guard] at hg
    split at hg
    · cases hg
    · dsimp only at hg
      split at hg
      · cases hg
      · rename_i hkey
        split at hg
        · cases hg
        · rename_i hshape
          split at hg
          · injection hg with hg; subst hg
            have hf := getUserId_key_fresh (not_or_false hshape) hkey
            exact nameFresh_of_sig hf ((quiet_convOther pst.nicks pst.st name).sig hi).symm
          · cases hg
      · cases hg
  | unidentify p =>
    simp only [guard] at hg
    split at hg
    · injection hg with hg; subst hg; exact opNamesOK_of_keeps rfl
    · cases hg
  | hostAdd p name mask pw =>
    simp only [guard] at hg
    cases name with
    | some n =>
      dsimp only at hg
      split at hg
      · cases hg
      · exact hostAddBody_names _ _ _ _ _ _ _ _ _ hg
      · cases hg
    | none =>
      dsimp only at hg
      split at hg
      · cases hg
      · exact hostAddBody_names _ _ _ _ _ _ _ _ _ hg
      · exact hostAddBody_names _ _ _ _ _ _ _ _ _ hg
  | hostRemove p name mask pw =>
    simp only [guard] at hg
    cases name with
    | some n =>
      dsimp only at hg
      split at hg
      · cases hg
      · exact hostRemoveBody_names _ _ _ _ _ _ _ _ _ hg
      · cases hg
    | none =>
      dsimp only at hg
      split at hg
      · cases hg
      · exact hostRemoveBody_names _ _ _ _ _ _ _ _ _ hg
      · exact hostRemoveBody_names _ _ _ _ _ _ _ _ _ hg
  | setSecure p pw b =>
    simp only [guard] at hg
    split at hg
    · cases hg
    · split at hg
      · injection hg with hg; subst hg; exact opNamesOK_of_keeps rfl
      · cases hg
  | whoami p => simp only [guard] at hg; cases hg
  | tick dt => simp only [guard] at hg; injection hg with hg; subst hg; exact opNamesOK_of_keeps rfl

/-- one dictionary operation that meets `OpNamesOK` keeps the names in order -/
theorem step_namesOK {st0 st : St} (hi : Inv st) (hs : sig st.db.users = sig st0.db.users)
    (hok : NamesOK st.db.users) {op : Op} (hop : OpNamesOK st0 op) : NamesOK (step st op).1.db.users := by
  cases op with
  | register name h => exact namesOK_register hi hok (nameFresh_of_sig hop hs) h
  | setName id name => exact namesOK_setName hi hok id (nameFresh_of_sig hop hs)
  | addHost id h => exact namesOK_of_sig hok (step_sig_same hi _ rfl)
  | rmHost id h => exact namesOK_of_sig hok (step_sig_same hi _ rfl)
  | clearHosts id => exact namesOK_of_sig hok (step_sig_same hi _ rfl)
  | identify id h => exact namesOK_of_sig hok (step_sig_same hi _ rfl)
  | unidentify id => exact namesOK_of_sig hok (step_sig_same hi _ rfl)
  | secure id b => exact namesOK_of_sig hok (step_sig_same hi _ rfl)
  | tick dt => exact namesOK_of_sig hok (step_sig_same hi _ rfl)
  | rename _ _ => cases hop
  | logout _ => cases hop
  | pruned _ _ => cases hop
  | load _ _ _ _ => cases hop
  | followNick id a b => exact namesOK_of_sig hok (step_sig_same hi _ rfl)
  | delUser _ => cases hop
  | lookup _ => cases hop
  | order _ _ => cases hop

theorem lookup_append_of_some {κ ν} [BEq κ] {l m : List (κ × ν)} {k : κ} {v : ν}
    (h : l.lookup k = some v) : (l ++ m).lookup k = some v := by
  induction l with
  | nil => cases h
  | cons q qs ih =>
    obtain ⟨k', v'⟩ := q
    simp only [List.cons_append, List.lookup] at h ⊢
    split
    · rename_i hk; simp only [hk] at h; exact h
    · rename_i hk; simp only [hk] at h; exact ih h

/-- shape of one plugin step -/
theorem pstep_cases (pwOk : Str → Str → Bool) (pst : PSt) (c : Cmd) :
    ((∃ r, (guard pwOk pst c).2 = .reply r) ∧ (pstep pwOk pst c).1.st = (guard pwOk pst c).1 ∧
      (pstep pwOk pst c).1.pws = pst.pws ∧ (pstep pwOk pst c).1.log = pst.log) ∨
    (∃ op, (guard pwOk pst c).2 = .run op ∧ (pstep pwOk pst c).1.st = (step (guard pwOk pst c).1 op).1 ∧
      (∃ extra, (pstep pwOk pst c).1.pws = pst.pws ++ extra) ∧
      (((pstep pwOk pst c).1.log = pst.log ∧ ∀ id h, op ≠ .identify id h) ∨
       (∃ id p name pw, op = .identify id p ∧ c = .identify p name pw ∧
          (pstep pwOk pst c).1.log = pst.log ++ [{ uid := id, t := (guard pwOk pst c).1.now, host := p, pw := pw, origin := p }]))) := by
  unfold pstep
  cases hgd : guard pwOk pst c with
  | mk st1 d =>
    cases d with
    | reply r => exact Or.inl ⟨⟨r, rfl⟩, rfl, rfl, rfl⟩
    | run op =>
      right
      have hg : (guard pwOk pst c).2 = .run op := by rw [hgd]
      refine ⟨op, rfl, rfl, ?_, ?_⟩
      · dsimp only [bookPws]
        split
        · exact ⟨_, rfl⟩
        · exact ⟨[], (List.append_nil _).symm⟩
      · by_cases hid : ∃ id h, op = .identify id h
        · obtain ⟨id, h, e⟩ := hid
          subst e
          obtain ⟨name, pw, hc, _⟩ := guard_identify hg
          subst hc
          exact Or.inr ⟨id, h, name, pw, rfl, rfl, rfl⟩
        · left
          refine ⟨?_, fun id h e => hid ⟨id, h, e⟩⟩
          dsimp only [bookLog]
          split
          · exact absurd ⟨_, _, rfl⟩ hid
          · rfl

/-- `b` is reached from `a` through NICK messages, each one sent by exactly (IRC case rules) the
hostmask reached so far -/
inductive Follows (ev : List (Str × Str)) : Str → Str → Prop
  | refl (a : Str) : Follows ev a a
  | step {a b p c : Str} : Follows ev a b → (p, c) ∈ ev → strEqual p b = true → Follows ev a c

theorem follows_mono {ev ev' : List (Str × Str)} (h : ∀ e ∈ ev, e ∈ ev') {a b : Str}
    (hf : Follows ev a b) : Follows ev' a b := by
  induction hf with
  | refl => exact Follows.refl _
  | step _ hm hs ih => exact Follows.step ih (h _ hm) hs

/-- the hostmask of every logged identification is the one the password came from, or follows
from it through NICK messages — and is the very same when the bot does not follow nick changes -/
def Linked (pst : PSt) : Prop :=
  ∀ l ∈ pst.log, Follows pst.events l.origin l.host ∧ (pst.follow = false → l.host = l.origin)

/-- every recorded NICK message came from a user hostmask and changed only the nick -/
def EventsOK (pst : PSt) : Prop :=
  ∀ e ∈ pst.events, isUserHostmask e.1 = true ∧ ∃ nn, e.2 = newHost e.1 nn

structure PInv (pwOk : Str → Str → Bool) (pst : PSt) : Prop where
  inv : Inv pst.st
  backed : AuthBacked pst
  logOK : LogOK pwOk pst
  disjoint : NoCommon pst.st.db.users
  linked : Linked pst
  events : EventsOK pst
  /-- account names never look like hostmasks and are pairwise different -/
  names : NamesOK pst.st.db.users

theorem pstep_frame (pwOk : Str → Str → Bool) (pst : PSt) (c : Cmd) :
    (pstep pwOk pst c).1.events = pst.events ∧ (pstep pwOk pst c).1.follow = pst.follow := by
  unfold pstep
  split <;> exact ⟨rfl, rfl⟩

theorem pstep_pinv {pwOk : Str → Str → Bool} {pst : PSt} (hi : PInv pwOk pst) (c : Cmd) :
    PInv pwOk (pstep pwOk pst c).1 := by
  have hq := quiet_guard pwOk pst c
  rcases pstep_cases pwOk pst c with ⟨_, hst, hpws, hlog⟩ | ⟨op, hg, hst, ⟨extra, hpws⟩, hlogc⟩
  · -- the guard answered: only lookups happened
    refine ⟨by rw [hst]; exact hq.inv hi.inv, ?_, ?_, ?_, ?_, ?_,
      by rw [hst]; exact namesOK_of_sig hi.names (hq.sig hi.inv)⟩
    · intro u hu e he
      rw [hst] at hu
      rcases hq.auth u hu e he with ⟨v, hv, hid, hev⟩ | hx
      · obtain ⟨l, hl, h1, h2, h3⟩ := hi.backed v hv e hev
        exact ⟨l, by rw [hlog]; exact hl, h1.trans hid, h2, h3⟩
      · cases hx
    · intro l hl
      rw [hlog] at hl
      rw [hpws]
      exact hi.logOK l hl
    · rw [hst]; exact noCommon_of_masksFrom hi.disjoint hq.masks
    · intro l hl
      rw [hlog] at hl
      rw [(pstep_frame pwOk pst c).1, (pstep_frame pwOk pst c).2]
      exact hi.linked l hl
    · intro e he
      rw [(pstep_frame pwOk pst c).1] at he
      exact hi.events e he
  · -- one dictionary operation ran
    have hsa := step_auth (guard pwOk pst c).1 op
    refine ⟨by rw [hst]; exact step_inv (hq.inv hi.inv) op, ?_, ?_, ?_, ?_, ?_,
      by rw [hst]; exact step_namesOK (hq.inv hi.inv) (hq.sig hi.inv)
           (namesOK_of_sig hi.names (hq.sig hi.inv)) (guard_names hi.inv hg)⟩
    · intro u hu e he
      rw [hst] at hu
      have hsub : ∀ l, l ∈ pst.log → l ∈ (pstep pwOk pst c).1.log := by
        intro l hl
        rcases hlogc with ⟨e1, _⟩ | ⟨_, _, _, _, _, _, e1⟩
        · rw [e1]; exact hl
        · rw [e1]; exact List.mem_append_left _ hl
      rcases hsa u hu e he with ⟨v, hv, hid, hev⟩ | hx
      · rcases hq.auth v hv e hev with ⟨w, hw, hwid, hwe⟩ | hx'
        · obtain ⟨l, hl, h1, h2, h3⟩ := hi.backed w hw e hwe
          exact ⟨l, hsub l hl, h1.trans (hwid.trans hid), h2, h3⟩
        · cases hx'
      · -- a new login: the operation is `identify`, and the command logged it
        rcases hlogc with ⟨_, hno⟩ | ⟨id, p, name, pw, hop, _, hlg⟩
        · cases op with
          | identify id' h' => exact absurd rfl (hno id' h')
          | followNick id' a b => have := guard_not_follow hg; cases this
          | _ => simp only [extraOf] at hx; cases hx
        · subst hop
          simp only [extraOf, List.mem_singleton, Prod.mk.injEq] at hx
          refine ⟨{ uid := id, t := (guard pwOk pst c).1.now, host := p, pw := pw, origin := p }, ?_, hx.1.symm, ?_, ?_⟩
          · rw [hlg]; exact List.mem_append_right _ (List.mem_singleton.2 rfl)
          · rw [hx.2]
          · rw [hx.2]
    · intro l hl
      rw [hpws]
      rcases hlogc with ⟨e1, _⟩ | ⟨id, p, name, pw, hop, hc, hlg⟩
      · rw [e1] at hl
        obtain ⟨s', hs', hok⟩ := hi.logOK l hl
        exact ⟨s', lookup_append_of_some hs', hok⟩
      · rw [hlg] at hl
        rcases List.mem_append.1 hl with hl' | hl'
        · obtain ⟨s', hs', hok⟩ := hi.logOK l hl'
          exact ⟨s', lookup_append_of_some hs', hok⟩
        · rw [List.mem_singleton] at hl'
          subst hl'
          subst hop
          obtain ⟨name', pw', hc', hpw⟩ := guard_identify hg
          rw [hc] at hc'
          injection hc' with _ _ hpweq
          subst hpweq
          unfold checkPassword at hpw
          cases hlk : pst.pws.lookup id with
          | none => rw [hlk] at hpw; cases hpw
          | some s' =>
            rw [hlk] at hpw
            exact ⟨s', lookup_append_of_some hlk, hpw⟩
    · rw [hst]
      exact step_noCommon (hq.inv hi.inv) (noCommon_of_masksFrom hi.disjoint hq.masks) op
    · intro l hl
      rw [(pstep_frame pwOk pst c).1, (pstep_frame pwOk pst c).2]
      rcases hlogc with ⟨e1, _⟩ | ⟨id, p, name, pw, _, _, hlg⟩
      · rw [e1] at hl; exact hi.linked l hl
      · rw [hlg] at hl
        rcases List.mem_append.1 hl with hl' | hl'
        · exact hi.linked l hl'
        · rw [List.mem_singleton] at hl'
          subst hl'
          exact ⟨Follows.refl _, fun _ => rfl⟩
    · intro e he
      rw [(pstep_frame pwOk pst c).1] at he
      exact hi.events e he

theorem prun_pinv {pwOk : Str → Str → Bool} {pst : PSt} (hi : PInv pwOk pst) (cs : List Cmd) :
    PInv pwOk (prun pwOk pst cs) := by
  induction cs generalizing pst with
  | nil => exact hi
  | cons c cs ih =>
    unfold prun
    simp only [List.foldl_cons]
    exact ih (pstep_pinv hi c)

theorem pinit (pwOk : Str → Str → Bool) (db : Db) (h : db.users = []) (follow : Bool := false) :
    PInv pwOk { st := { db := db }, follow := follow } := by
  refine ⟨⟨⟨by rw [h]; simp, ?_, ?_⟩, cacheInv_empty rfl rfl⟩, ?_, ?_, ?_, ?_, ?_, ?_⟩
  · intro u hu; rw [h] at hu; cases hu
  · intro u hu; rw [h] at hu; cases hu
  · intro u hu; simp only at hu; rw [h] at hu; cases hu
  · intro l hl; cases hl
  · intro u hu; simp only at hu; rw [h] at hu; cases hu
  · intro l hl; cases hl
  · intro e he; cases he
  · refine ⟨?_, ?_⟩ <;> (intro p hp; simp only [sig, h, List.map_nil] at hp; cases hp)

/-! ### the bot's own lookups around a command -/

theorem quiet_lookups (st : St) (p : Str) (n : Nat) : Quiet st (lookups st p n) := by
  induction n generalizing st with
  | zero => exact quiet_refl st
  | succ n ih => unfold lookups; exact quiet_trans (quiet_getUserId st p) (ih _)

theorem quiet_lookupsAbort (st : St) (p : Str) (n : Nat) : Quiet st (lookupsAbort st p n).1 := by
  induction n generalizing st with
  | zero => exact quiet_refl st
  | succ n ih =>
    unfold lookupsAbort
    dsimp only
    split
    · exact quiet_getUserId st p
    · exact quiet_trans (quiet_getUserId st p) (ih _)

theorem pinv_quiet {pwOk : Str → Str → Bool} {pst : PSt} {st' : St} (hi : PInv pwOk pst)
    (hq : Quiet pst.st st') : PInv pwOk { pst with st := st' } := by
  refine ⟨hq.inv hi.inv, ?_, hi.logOK, noCommon_of_masksFrom hi.disjoint hq.masks, hi.linked, hi.events,
    namesOK_of_sig hi.names (hq.sig hi.inv)⟩
  intro u hu e he
  rcases hq.auth u hu e he with ⟨v, hv, hid, hev⟩ | hx
  · obtain ⟨l, hl, h1, h2, h3⟩ := hi.backed v hv e hev
    exact ⟨l, hl, h1.trans hid, h2, h3⟩
  · cases hx

theorem pinv_nicks {pwOk : Str → Str → Bool} {pst : PSt} (hi : PInv pwOk pst) (n : List (Str × Str)) :
    PInv pwOk { pst with nicks := n } := ⟨hi.inv, hi.backed, hi.logOK, hi.disjoint, hi.linked, hi.events, hi.names⟩

/-- the invariants survive a command as the live bot processes it, for any number of
surrounding lookups -/
theorem pstepA_pinv {pwOk : Str → Str → Bool} {pst : PSt} (amb : Ambient) (hi : PInv pwOk pst) (c : Cmd) :
    PInv pwOk (pstepA amb pwOk pst c).1 := by
  unfold pstepA
  split
  · exact pstep_pinv hi c
  · rename_i p _
    dsimp only
    have h0 := pinv_nicks hi (noteSender pst.nicks p)
    split
    · exact pinv_quiet h0 (quiet_trans (quiet_lookupsAbort _ p _) (quiet_lookups _ p _))
    · have h1 := pinv_quiet h0 (quiet_trans (quiet_lookupsAbort _ p amb.aborting) (quiet_lookups _ p amb.pre))
      have h2 := pstep_pinv h1 c
      exact pinv_quiet h2 (quiet_lookups _ p _)

theorem prunA_pinv {pwOk : Str → Str → Bool} {pst : PSt} (amb : Ambient) (hi : PInv pwOk pst) (cs : List Cmd) :
    PInv pwOk (prunA amb pwOk pst cs) := by
  induction cs generalizing pst with
  | nil => exact hi
  | cons c cs ih =>
    unfold prunA
    simp only [List.foldl_cons]
    exact ih (pstepA_pinv amb hi c)

/-! ### NICK messages -/

theorem mem_followLog {log : List LogEntry} {id : Nat} {old new : Str} {auth : List (Int × Str)} {l : LogEntry}
    (h : l ∈ followLog log id old new auth) :
    ∃ l0 ∈ log, l0.uid = id ∧ strEqual old l0.host = true ∧ l = { l0 with host := new } := by
  unfold followLog at h
  rw [List.mem_map] at h
  obtain ⟨l0, h0, e⟩ := h
  obtain ⟨hm, hc⟩ := List.mem_filter.1 h0
  simp only [Bool.and_eq_true, beq_iff_eq] at hc
  exact ⟨l0, hm, hc.1.1, hc.1.2, e.symm⟩

/-- the invariants survive a NICK message, followed or not -/
theorem nickStep_pinv {pwOk : Str → Str → Bool} {pst : PSt} (hi : PInv pwOk pst) (p nn : Str) :
    PInv pwOk (nickStep pst p nn).1 := by
  unfold nickStep
  split
  · exact pinv_nicks hi _
  · rename_i hfo
    have hfollow : pst.follow = true := by
      cases hf : pst.follow with
      | true => rfl
      | false => rw [hf] at hfo; exact absurd rfl hfo
    dsimp only
    have h1 := pinv_quiet hi (quiet_getUser pst.st p)
    split
    · exact pinv_nicks h1 _
    · exact h1
    · rename_i u hu
      split
      · exact pinv_nicks h1 _
      · split
        · exact h1
        · rename_i hshape
          have hp : isUserHostmask p = true := by
            cases hh : isUserHostmask p with
            | true => rfl
            | false => rw [hh] at hshape; exact absurd rfl hshape
          have hsa := step_auth (getUser pst.st p).1 (.followNick u.id p (newHost p nn))
          refine ⟨step_inv h1.inv _, ?_, ?_, step_noCommon h1.inv h1.disjoint _, ?_, ?_,
            namesOK_of_sig h1.names (step_sig_same h1.inv _ rfl)⟩
          · intro u' hu' e he
            rcases hsa u' hu' e he with ⟨v, hv, hid, hev⟩ | hx
            · obtain ⟨l, hl, a1, a2, a3⟩ := h1.backed v hv e hev
              exact ⟨l, List.mem_append_left _ hl, a1.trans hid, a2, a3⟩
            · simp only [extraOf] at hx
              split at hx
              · rename_i w hw
                obtain ⟨hwm, hwid⟩ := getUserById_spec hw
                rw [List.mem_map] at hx
                obtain ⟨a, ha, hea⟩ := hx
                obtain ⟨ham, hac⟩ := List.mem_filter.1 ha
                injection hea with e1 e2
                obtain ⟨l, hl, a1, a2, a3⟩ := h1.backed w hwm a ham
                refine ⟨{ l with host := newHost p nn }, List.mem_append_right _ ?_, ?_, ?_, ?_⟩
                · unfold followLog
                  rw [List.mem_map]
                  refine ⟨l, List.mem_filter.2 ⟨hl, ?_⟩, rfl⟩
                  simp only [Bool.and_eq_true, beq_iff_eq]
                  refine ⟨⟨a1.trans hwid, by rw [a3]; exact hac⟩, ?_⟩
                  unfold authOf
                  rw [hw, a2, a3]
                  exact List.elem_eq_true_of_mem ham
                · exact (a1.trans hwid).trans e1
                · rw [← e2]; exact a2
                · rw [← e2]
              · cases hx
          · intro l hl
            rcases List.mem_append.1 hl with hl' | hl'
            · exact hi.logOK l hl'
            · obtain ⟨l0, h0, _, _, e⟩ := mem_followLog hl'
              subst e
              exact hi.logOK l0 h0
          · intro l hl
            have hmono : ∀ e ∈ pst.events, e ∈ pst.events ++ [(p, newHost p nn)] :=
              fun e he => List.mem_append_left _ he
            refine ⟨?_, fun hf => by rw [hfollow] at hf; cases hf⟩
            rcases List.mem_append.1 hl with hl' | hl'
            · exact follows_mono hmono (hi.linked l hl').1
            · obtain ⟨l0, h0, _, hse, e⟩ := mem_followLog hl'
              subst e
              exact Follows.step (follows_mono hmono (hi.linked l0 h0).1)
                (List.mem_append_right _ (List.mem_singleton.2 rfl)) hse
          · intro e he
            rcases List.mem_append.1 he with he' | he'
            · exact hi.events e he'
            · rw [List.mem_singleton] at he'
              subst he'
              exact ⟨hp, nn, rfl⟩

theorem estep_pinv {pwOk : Str → Str → Bool} {pst : PSt} (amb : Ambient) (hi : PInv pwOk pst) (ev : Ev) :
    PInv pwOk (estep amb pwOk pst ev).1 := by
  cases ev with
  | cmd c => exact pstepA_pinv amb hi c
  | nick p nn => exact nickStep_pinv hi p nn

theorem erun_pinv {pwOk : Str → Str → Bool} {pst : PSt} (amb : Ambient) (hi : PInv pwOk pst) (evs : List Ev) :
    PInv pwOk (erun amb pwOk pst evs) := by
  induction evs generalizing pst with
  | nil => exact hi
  | cons e es ih =>
    unfold erun
    simp only [List.foldl_cons]
    exact ih (estep_pinv amb hi e)

/-- **a sender that matches two accounts gets nothing done**: when the bot's first lookup of the
sender raises DuplicateHostmask, the command is not executed — no reply, no new login, no new
account; only lookups happened (which delete the offending masks) -/
theorem ambiguous_sender_runs_nothing (amb : Ambient) (pwOk : Str → Str → Bool) (pst : PSt) (c : Cmd) (p : Str)
    (hp : c.sender = some p) (hpos : 0 < amb.aborting)
    (hdup : (getUserId pst.st p).2 = .error .value) :
    (pstepA amb pwOk pst c).2 = .silent ∧ (pstepA amb pwOk pst c).1.log = pst.log ∧
    (pstepA amb pwOk pst c).1.pws = pst.pws ∧ Quiet pst.st (pstepA amb pwOk pst c).1.st := by
  unfold pstepA
  rw [hp]
  dsimp only
  have habort : (lookupsAbort pst.st p amb.aborting).2 = true := by
    cases ha : amb.aborting with
    | zero => rw [ha] at hpos; cases hpos
    | succ n => unfold lookupsAbort; dsimp only; rw [hdup]
  rw [habort]
  simp only [if_true, true_and]
  exact quiet_trans (quiet_lookupsAbort _ p _) (quiet_lookups _ p _)

end C04
