/-
C04 — the glob matcher `C03.glob` (= `ircutils.hostmaskPatternEqual`): equivalence with a
declarative match relation, invariance under IRC case folding.
-/
import LimnoriaModel.C03.Lemmas
namespace C04
open Py C03

/-- declarative semantics of a hostmask pattern: `*` matches any run of characters other than
LF, `?` one such character, any other pattern character one character of its class
(`patCharMatch`: the four rfc1459 pairs, ASCII letters up to case, else identity); the whole
hostmask must be consumed, except that one final LF is tolerated (the `$` of the regexp). -/
inductive Matches : Str → Str → Prop
  | nil : Matches [] []
  | nilLF : Matches [] ['\n']
  | starSkip {ps h} : Matches ps h → Matches ('*' :: ps) h
  | starEat {ps c cs} : c ≠ '\n' → Matches ('*' :: ps) cs → Matches ('*' :: ps) (c :: cs)
  | qmark {ps c cs} : c ≠ '\n' → Matches ps cs → Matches ('?' :: ps) (c :: cs)
  | char {p ps c cs} : p ≠ '*' → p ≠ '?' → patCharMatch p c = true → Matches ps cs →
      Matches (p :: ps) (c :: cs)

theorem starAux_iff {k : Str → Bool} {ps : Str} (hk : ∀ h, k h = true ↔ Matches ps h) (h : Str) :
    starAux k h = true ↔ Matches ('*' :: ps) h := by
  induction h with
  | nil =>
    simp only [starAux]
    constructor
    · intro hh; exact .starSkip ((hk []).1 hh)
    · intro hm
      cases hm with
      | starSkip hm' => exact (hk []).2 hm'
  | cons c cs ih =>
    simp only [starAux, Bool.or_eq_true, Bool.and_eq_true, bne_iff_ne, ne_eq]
    constructor
    · rintro (hh | ⟨hc, hh⟩)
      · exact .starSkip ((hk _).1 hh)
      · exact .starEat hc (ih.1 hh)
    · intro hm
      cases hm with
      | starSkip hm' => exact Or.inl ((hk _).2 hm')
      | starEat hc hm' => exact Or.inr ⟨hc, ih.2 hm'⟩
      | char h1 _ _ _ => exact absurd rfl h1

/-- **the matcher computes the declarative relation** -/
theorem glob_iff_matches (p h : Str) : glob p h = true ↔ Matches p h := by
  induction p generalizing h with
  | nil =>
    simp only [glob, Bool.or_eq_true, beq_iff_eq]
    constructor
    · rintro (e | e)
      · rw [e]; exact .nil
      · rw [e]; exact .nilLF
    · intro hm
      cases hm with
      | nil => exact Or.inl rfl
      | nilLF => exact Or.inr rfl
  | cons x xs ih =>
    simp only [glob]
    by_cases hx : x = '*'
    · subst hx
      simp only [beq_self_eq_true, if_true]
      exact starAux_iff ih h
    · have hx' : (x == '*') = false := by simp [hx]
      simp only [hx', Bool.false_eq_true, if_false]
      cases h with
      | nil =>
        simp only [Bool.false_eq_true, false_iff]
        intro hm
        cases hm with
        | starSkip _ => exact hx rfl
      | cons c cs =>
        simp only
        by_cases hq : x = '?'
        · subst hq
          simp only [beq_self_eq_true, if_true, Bool.and_eq_true, bne_iff_ne, ne_eq]
          constructor
          · rintro ⟨hc, hh⟩; exact .qmark hc ((ih cs).1 hh)
          · intro hm
            cases hm with
            | qmark hc hm' => exact ⟨hc, (ih cs).2 hm'⟩
            | char _ h2 _ _ => exact absurd rfl h2
        · have hq' : (x == '?') = false := by simp [hq]
          simp only [hq', Bool.false_eq_true, if_false, Bool.and_eq_true]
          constructor
          · rintro ⟨hc, hh⟩; exact .char hx hq hc ((ih cs).1 hh)
          · intro hm
            cases hm with
            | starSkip _ => exact absurd rfl hx
            | starEat _ _ => exact absurd rfl hx
            | qmark _ _ => exact absurd rfl hq
            | char _ _ hc hm' => exact ⟨hc, (ih cs).2 hm'⟩

example : Matches ['a', '*', '[', '?'] ['A', 'x', 'y', '{', 'z'] := by
  rw [← glob_iff_matches]; decide

/-! ### case folding -/

theorem upper_enum (x : Char) (h : 'A' ≤ x ∧ x ≤ 'Z') : x.toNat = 65 ∨ x.toNat = 66 ∨ x.toNat = 67 ∨ x.toNat = 68 ∨ x.toNat = 69 ∨ x.toNat = 70 ∨ x.toNat = 71 ∨ x.toNat = 72 ∨ x.toNat = 73 ∨ x.toNat = 74 ∨ x.toNat = 75 ∨ x.toNat = 76 ∨ x.toNat = 77 ∨ x.toNat = 78 ∨ x.toNat = 79 ∨ x.toNat = 80 ∨ x.toNat = 81 ∨ x.toNat = 82 ∨ x.toNat = 83 ∨ x.toNat = 84 ∨ x.toNat = 85 ∨ x.toNat = 86 ∨ x.toNat = 87 ∨ x.toNat = 88 ∨ x.toNat = 89 ∨ x.toNat = 90 := by
  obtain ⟨h1, h2⟩ := h
  rw [Char.le_def] at h1 h2
  simp only [UInt32.le_iff_toNat_le] at h1 h2
  have e1 : 65 ≤ x.toNat := h1
  have e2 : x.toNat ≤ 90 := h2
  omega

/-- ASCII lowering of an upper-case letter is a lower-case letter -/
theorem asciiLowerChar_upper (x : Char) (h : 'A' ≤ x ∧ x ≤ 'Z') :
    ('a' ≤ asciiLowerChar x ∧ asciiLowerChar x ≤ 'z') ∧ ¬ ('a' ≤ x ∧ x ≤ 'z') := by
  have hx : x = Char.ofNat x.toNat := (Char.ofNat_toNat x).symm
  rcases upper_enum x h with h | h | h | h | h | h | h | h | h | h | h | h | h | h | h | h | h | h | h | h | h | h | h | h | h | h <;> (rw [hx, h]; decide)

/-- a character that is not a lower-case ASCII letter is the ASCII-lowering of itself only -/
theorem asciiLowerChar_eq_of_not_lower {x k : Char} (hk : ¬ ('a' ≤ k ∧ k ≤ 'z'))
    (h : asciiLowerChar x = k) : x = k := by
  by_cases hu : 'A' ≤ x ∧ x ≤ 'Z'
  · have := (asciiLowerChar_upper x hu).1
    rw [h] at this
    exact absurd this hk
  · unfold asciiLowerChar at h
    simp only [hu, if_false] at h
    exact h

theorem asciiLowerChar_fix {k : Char} (hk : ¬ ('A' ≤ k ∧ k ≤ 'Z')) : asciiLowerChar k = k := by
  unfold asciiLowerChar; simp only [hk, if_false]

/-- the class of a character under the pattern language (`C03.patClass`) -/
abbrev cls := C03.patClass

theorem cls_special_rep {k : Char} (hk : k = '{' ∨ k = '}' ∨ k = '|' ∨ k = '^') (c : Char)
    (h : asciiLowerChar c = k) : c = k := by
  apply asciiLowerChar_eq_of_not_lower _ h
  rcases hk with e | e | e | e <;> (subst e; decide)

theorem patCharMatch_eq_cls (p c : Char) : patCharMatch p c = (cls p == cls c) := by
  have fixB : ∀ k : Char, (k = '[' ∨ k = '{' ∨ k = '}' ∨ k = ']' ∨ k = '|' ∨ k = '\\' ∨ k = '^' ∨ k = '~') →
      asciiLowerChar k = k ∧ ¬ ('a' ≤ k ∧ k ≤ 'z') := by
    intro k hk
    rcases hk with e | e | e | e | e | e | e | e <;> (subst e; decide)
  unfold patCharMatch cls C03.patClass
  by_cases p1 : (p == '[' || p == '{') = true
  · simp only [p1, if_true]
    by_cases c1 : (c == '[' || c == '{') = true
    · simp [c1]
    · simp only [c1, Bool.false_eq_true, if_false]
      by_cases c2 : (c == '}' || c == ']') = true
      · simp [c2]
      · by_cases c3 : (c == '|' || c == '\\') = true
        · simp [c2, c3]
        · by_cases c4 : (c == '^' || c == '~') = true
          · simp [c2, c3, c4]
          · simp only [c2, c3, c4, Bool.false_eq_true, if_false]
            symm
            rw [beq_eq_false_iff_ne]
            intro e
            have := cls_special_rep (Or.inl rfl) c e.symm
            subst this
            simp at c1
  · simp only [p1, Bool.false_eq_true, if_false]
    by_cases p2 : (p == '}' || p == ']') = true
    · simp only [p2, if_true]
      by_cases c1 : (c == '[' || c == '{') = true
      · have : (c == '}' || c == ']') = false := by
          simp only [Bool.or_eq_true, beq_iff_eq] at c1
          rcases c1 with e | e <;> (subst e; decide)
        simp [c1, this]
      · by_cases c2 : (c == '}' || c == ']') = true
        · simp [c1, c2]
        · by_cases c3 : (c == '|' || c == '\\') = true
          · simp [c1, c2, c3]
          · by_cases c4 : (c == '^' || c == '~') = true
            · simp [c1, c2, c3, c4]
            · simp only [c1, c2, c3, c4, Bool.false_eq_true, if_false]
              symm
              rw [beq_eq_false_iff_ne]
              intro e
              have := cls_special_rep (Or.inr (Or.inl rfl)) c e.symm
              subst this
              simp at c2
    · simp only [p2, Bool.false_eq_true, if_false]
      by_cases p3 : (p == '|' || p == '\\') = true
      · simp only [p3, if_true]
        by_cases c1 : (c == '[' || c == '{') = true
        · have : (c == '|' || c == '\\') = false := by
            simp only [Bool.or_eq_true, beq_iff_eq] at c1
            rcases c1 with e | e <;> (subst e; decide)
          simp [c1, this]
        · by_cases c2 : (c == '}' || c == ']') = true
          · have : (c == '|' || c == '\\') = false := by
              simp only [Bool.or_eq_true, beq_iff_eq] at c2
              rcases c2 with e | e <;> (subst e; decide)
            simp [c1, c2, this]
          · by_cases c3 : (c == '|' || c == '\\') = true
            · simp [c1, c2, c3]
            · by_cases c4 : (c == '^' || c == '~') = true
              · simp [c1, c2, c3, c4]
              · simp only [c1, c2, c3, c4, Bool.false_eq_true, if_false]
                symm
                rw [beq_eq_false_iff_ne]
                intro e
                have := cls_special_rep (Or.inr (Or.inr (Or.inl rfl))) c e.symm
                subst this
                simp at c3
      · simp only [p3, Bool.false_eq_true, if_false]
        by_cases p4 : (p == '^' || p == '~') = true
        · simp only [p4, if_true]
          have flip : (c == '~' || c == '^') = (c == '^' || c == '~') := Bool.or_comm _ _
          rw [flip]
          by_cases c1 : (c == '[' || c == '{') = true
          · have : (c == '^' || c == '~') = false := by
              simp only [Bool.or_eq_true, beq_iff_eq] at c1
              rcases c1 with e | e <;> (subst e; decide)
            simp [c1, this]
          · by_cases c2 : (c == '}' || c == ']') = true
            · have : (c == '^' || c == '~') = false := by
                simp only [Bool.or_eq_true, beq_iff_eq] at c2
                rcases c2 with e | e <;> (subst e; decide)
              simp [c1, c2, this]
            · by_cases c3 : (c == '|' || c == '\\') = true
              · have : (c == '^' || c == '~') = false := by
                  simp only [Bool.or_eq_true, beq_iff_eq] at c3
                  rcases c3 with e | e <;> (subst e; decide)
                simp [c1, c2, c3, this]
              · by_cases c4 : (c == '^' || c == '~') = true
                · simp [c1, c2, c3, c4]
                · simp only [c1, c2, c3, c4, Bool.false_eq_true, if_false]
                  symm
                  rw [beq_eq_false_iff_ne]
                  intro e
                  have := cls_special_rep (Or.inr (Or.inr (Or.inr rfl))) c e.symm
                  subst this
                  simp at c4
        · simp only [p4, Bool.false_eq_true, if_false]
          -- `p` is an ordinary character
          have pne : ∀ k : Char, (k = '[' ∨ k = '{' ∨ k = '}' ∨ k = ']' ∨ k = '|' ∨ k = '\\' ∨ k = '^' ∨ k = '~') →
              asciiLowerChar p ≠ k := by
            intro k hk e
            have := asciiLowerChar_eq_of_not_lower (fixB k hk).2 e
            subst this
            rcases hk with e | e | e | e | e | e | e | e <;> (subst e; simp at p1 p2 p3 p4)
          have classCase : ∀ (k r : Char),
              (k = '[' ∨ k = '{' ∨ k = '}' ∨ k = ']' ∨ k = '|' ∨ k = '\\' ∨ k = '^' ∨ k = '~') →
              (r = '{' ∨ r = '}' ∨ r = '|' ∨ r = '^') →
              (asciiLowerChar p == asciiLowerChar k) = (asciiLowerChar p == r) := by
            intro k r hk hr
            rw [(fixB k hk).1]
            have h1 : (asciiLowerChar p == k) = false := by rw [beq_eq_false_iff_ne]; exact pne k hk
            have h2 : (asciiLowerChar p == r) = false := by
              rw [beq_eq_false_iff_ne]
              apply pne r
              rcases hr with e | e | e | e <;> (subst e; simp)
            rw [h1, h2]
          by_cases c1 : (c == '[' || c == '{') = true
          · simp only [c1, if_true]
            simp only [Bool.or_eq_true, beq_iff_eq] at c1
            rcases c1 with e | e <;> (subst e; exact classCase _ _ (by simp) (by simp))
          · simp only [c1, Bool.false_eq_true, if_false]
            by_cases c2 : (c == '}' || c == ']') = true
            · simp only [c2, if_true]
              simp only [Bool.or_eq_true, beq_iff_eq] at c2
              rcases c2 with e | e <;> (subst e; exact classCase _ _ (by simp) (by simp))
            · simp only [c2, Bool.false_eq_true, if_false]
              by_cases c3 : (c == '|' || c == '\\') = true
              · simp only [c3, if_true]
                simp only [Bool.or_eq_true, beq_iff_eq] at c3
                rcases c3 with e | e <;> (subst e; exact classCase _ _ (by simp) (by simp))
              · simp only [c3, Bool.false_eq_true, if_false]
                by_cases c4 : (c == '^' || c == '~') = true
                · simp only [c4, if_true]
                  simp only [Bool.or_eq_true, beq_iff_eq] at c4
                  rcases c4 with e | e <;> (subst e; exact classCase _ _ (by simp) (by simp))
                · simp only [c4, Bool.false_eq_true, if_false]

/-- obligation on the extracted case table: both characters of every pair are in the same
pattern class (this is what makes hostmask matching IRC-case-insensitive) -/
theorem rfc1459_table_classes : Gen.rfc1459Table.all (fun p => cls p.1 == cls p.2) = true := by decide

theorem cls_toLowerChar (c : Char) : cls (toLowerChar c) = cls c := by
  rcases toLowerChar_cases c with h | h
  · rw [h]
  · have := rfc1459_table_classes
    rw [List.all_eq_true] at this
    have := this _ h
    simp only [beq_iff_eq] at this
    exact this.symm

theorem patCharMatch_toLower (p c : Char) :
    patCharMatch (toLowerChar p) (toLowerChar c) = patCharMatch p c := by
  rw [patCharMatch_eq_cls, patCharMatch_eq_cls, cls_toLowerChar, cls_toLowerChar]

theorem mem_special_star : '*' ∈ specialChars := by decide
theorem mem_special_qmark : '?' ∈ specialChars := by decide
theorem mem_special_lf : '\n' ∈ specialChars := by decide

theorem beq_special_toLowerChar {k : Char} (hk : k ∈ specialChars) (c : Char) :
    (toLowerChar c == k) = (c == k) := by
  by_cases h : c = k
  · subst h; rw [toLowerChar_special hk]
  · have : toLowerChar c ≠ k := fun e => h ((toLowerChar_eq_special hk).1 e)
    have e1 : (toLowerChar c == k) = false := by simp [this]
    have e2 : (c == k) = false := by simp [h]
    rw [e1, e2]

theorem bne_special_toLowerChar {k : Char} (hk : k ∈ specialChars) (c : Char) :
    (toLowerChar c != k) = (c != k) := by
  simp only [bne, beq_special_toLowerChar hk]

theorem starAux_toLower {k k' : Str → Bool} (hk : ∀ h, k' (toLower h) = k h) (h : Str) :
    starAux k' (toLower h) = starAux k h := by
  induction h with
  | nil => simp only [toLower_nil, starAux]; exact hk []
  | cons c cs ih =>
    simp only [toLower_cons, starAux]
    have := hk (c :: cs)
    simp only [toLower_cons] at this
    rw [this, bne_special_toLowerChar mem_special_lf, ih]

/-- **hostmask matching is IRC-case-insensitive**: a pattern matches a hostmask iff the
IRC-lowered pattern matches the IRC-lowered hostmask (ASCII letters, `[]\~` ↔ `{}|^`) -/
theorem glob_case (p h : Str) : glob (toLower p) (toLower h) = glob p h := by
  induction p generalizing h with
  | nil =>
    simp only [toLower_nil, glob]
    cases h with
    | nil => rfl
    | cons c cs =>
      cases cs with
      | nil =>
        simp only [toLower_cons, toLower_nil]
        by_cases hc : c = '\n'
        · subst hc; simp [toLowerChar_special mem_special_lf]
        · simp
          exact beq_special_toLowerChar mem_special_lf c
      | cons d ds => simp [toLower_cons]
  | cons x xs ih =>
    simp only [toLower_cons, glob, beq_special_toLowerChar mem_special_star,
      beq_special_toLowerChar mem_special_qmark]
    split
    · exact starAux_toLower ih h
    · cases h with
      | nil => rfl
      | cons c cs =>
        simp only [toLower_cons, bne_special_toLowerChar mem_special_lf, patCharMatch_toLower, ih]

/-! ### `hostmaskPatternsIntersect` decides whether two patterns have a hostmask in common -/

theorem intersect_nil (q : Str) : intersect [] q = interRowNil q := rfl
theorem intersect_cons_nil (a : Char) (p : Str) : intersect (a :: p) [] = (a == '*' && intersect p []) := rfl
theorem intersect_cons_cons (a b : Char) (p q : Str) :
    intersect (a :: p) (b :: q) =
      if a == '*' then intersect p (b :: q) || intersect (a :: p) q || intersect p q
      else if b == '*' then intersect (a :: p) q || intersect p (b :: q) || intersect p q
      else if a == '?' || b == '?' then intersect p q
      else intersect p q && cls a == cls b := rfl

theorem intersect_nil_of_matches {q : Str} (h : Matches q []) : intersect [] q = true := by
  induction q with
  | nil => rfl
  | cons b qs ih =>
    cases h with
    | starSkip h' => rw [intersect_nil]; simp only [interRowNil, beq_self_eq_true, Bool.true_and]; exact ih h'

theorem intersect_of_matches_nil {p : Str} (h : Matches p []) : intersect p [] = true := by
  induction p with
  | nil => rfl
  | cons a ps ih =>
    cases h with
    | starSkip h' => rw [intersect_cons_nil]; simp only [beq_self_eq_true, Bool.true_and]; exact ih h'

theorem intersect_star_left {ps q : Str} (h : intersect ps q = true) : intersect ('*' :: ps) q = true := by
  cases q with
  | nil => rw [intersect_cons_nil, h]; rfl
  | cons b qs => rw [intersect_cons_cons]; simp [h]

theorem intersect_star_right {p qs : Str} (h : intersect p qs = true) : intersect p ('*' :: qs) = true := by
  cases p with
  | nil => rw [intersect_nil] at h ⊢; simp only [interRowNil, beq_self_eq_true, Bool.true_and]; exact h
  | cons a ps =>
    rw [intersect_cons_cons]
    by_cases ha : a = '*'
    · subst ha; simp [h]
    · have : (a == '*') = false := by simp [ha]
      simp [this, h]

/-- **completeness of the overlap test**: if some hostmask (without LF — IRC prefixes have none)
is matched by both patterns, `hostmaskPatternsIntersect` says so -/
theorem intersect_complete_aux (n : Nat) : ∀ (p q h : Str), p.length + q.length + h.length ≤ n →
    '\n' ∉ h → Matches p h → Matches q h → intersect p q = true := by
  induction n with
  | zero =>
    intro p q h hn _ hp hq
    have hp0 : p = [] := by cases p <;> simp_all
    have hq0 : q = [] := by cases q <;> simp_all
    subst hp0 hq0; rfl
  | succ n ih =>
    intro p q h hn hlf hp hq
    cases hp with
    | nil => exact intersect_nil_of_matches hq
    | nilLF => simp at hlf
    | @starSkip ps _ hp' =>
      exact intersect_star_left (ih ps q h (by simp at hn ⊢; omega) hlf hp' hq)
    | @starEat ps c cs hc hp' =>
      have hlf' : '\n' ∉ cs := fun hm => hlf (List.mem_cons_of_mem _ hm)
      cases hq with
      | nilLF => simp at hlf
      | @starSkip qs _ hq' =>
        exact intersect_star_right (ih ('*' :: ps) qs (c :: cs) (by simp at hn ⊢; omega) hlf (.starEat hc hp') hq')
      | @starEat qs _ _ _ hq' =>
        exact ih ('*' :: ps) ('*' :: qs) cs (by simp at hn ⊢; omega) hlf' hp' hq'
      | @qmark qs _ _ _ hq' =>
        have := ih ('*' :: ps) qs cs (by simp at hn ⊢; omega) hlf' hp' hq'
        rw [intersect_cons_cons]; simp [this]
      | @char b qs _ _ _ _ _ hq' =>
        have := ih ('*' :: ps) qs cs (by simp at hn ⊢; omega) hlf' hp' hq'
        rw [intersect_cons_cons]; simp [this]
    | @qmark ps c cs hc hp' =>
      have hlf' : '\n' ∉ cs := fun hm => hlf (List.mem_cons_of_mem _ hm)
      cases hq with
      | nilLF => simp at hlf
      | @starSkip qs _ hq' =>
        exact intersect_star_right (ih ('?' :: ps) qs (c :: cs) (by simp at hn ⊢; omega) hlf (.qmark hc hp') hq')
      | @starEat qs _ _ _ hq' =>
        have := ih ps ('*' :: qs) cs (by simp at hn ⊢; omega) hlf' hp' hq'
        rw [intersect_cons_cons]; simp [this]
      | @qmark qs _ _ _ hq' =>
        have := ih ps qs cs (by simp at hn ⊢; omega) hlf' hp' hq'
        rw [intersect_cons_cons]; simp [this]
      | @char b qs _ _ h1 h2 _ hq' =>
        have := ih ps qs cs (by simp at hn ⊢; omega) hlf' hp' hq'
        have e1 : (b == '*') = false := by simp [h1]
        rw [intersect_cons_cons]; simp [this, e1]
    | @char a ps c cs ha1 ha2 hac hp' =>
      have hlf' : '\n' ∉ cs := fun hm => hlf (List.mem_cons_of_mem _ hm)
      have ea1 : (a == '*') = false := by simp [ha1]
      have ea2 : (a == '?') = false := by simp [ha2]
      cases hq with
      | nilLF => simp at hlf
      | @starSkip qs _ hq' =>
        exact intersect_star_right (ih (a :: ps) qs (c :: cs) (by simp at hn ⊢; omega) hlf (.char ha1 ha2 hac hp') hq')
      | @starEat qs _ _ _ hq' =>
        have := ih ps ('*' :: qs) cs (by simp at hn ⊢; omega) hlf' hp' hq'
        rw [intersect_cons_cons]; simp [this, ea1]
      | @qmark qs _ _ _ hq' =>
        have := ih ps qs cs (by simp at hn ⊢; omega) hlf' hp' hq'
        rw [intersect_cons_cons]; simp [this, ea1]
      | @char b qs _ _ hb1 hb2 hbc hq' =>
        have := ih ps qs cs (by simp at hn ⊢; omega) hlf' hp' hq'
        have eb1 : (b == '*') = false := by simp [hb1]
        have eb2 : (b == '?') = false := by simp [hb2]
        rw [patCharMatch_eq_cls] at hac hbc
        have hcls : (cls a == cls b) = true := by
          have e1 : cls a = cls c := by simpa using hac
          have e2 : cls b = cls c := by simpa using hbc
          simp [e1, e2]
        rw [intersect_cons_cons]; simp [this, ea1, ea2, eb1, eb2, hcls]

theorem intersect_complete {p q h : Str} (hlf : '\n' ∉ h) (hp : glob p h = true) (hq : glob q h = true) :
    intersect p q = true :=
  intersect_complete_aux _ p q h (Nat.le_refl _) hlf ((glob_iff_matches p h).1 hp) ((glob_iff_matches q h).1 hq)

theorem patCharMatch_refl (a : Char) : patCharMatch a a = true := by
  rw [patCharMatch_eq_cls]; simp

theorem matches_nil_of_rowNil {q : Str} (h : interRowNil q = true) : Matches q [] := by
  induction q with
  | nil => exact .nil
  | cons b qs ih =>
    simp only [interRowNil, Bool.and_eq_true, beq_iff_eq] at h
    rw [h.1]; exact .starSkip (ih h.2)

theorem matches_cons_of_head {a : Char} {ps h : Str} {c : Char} (hstar : a ≠ '*') (hc : c ≠ '\n')
    (hac : a = '?' ∨ patCharMatch a c = true) (hm : Matches ps h) : Matches (a :: ps) (c :: h) := by
  by_cases hq : a = '?'
  · subst hq; exact .qmark hc hm
  · rcases hac with e | e
    · exact absurd e hq
    · exact .char hstar hq e hm

/-- prepend one character to a common instance of `p` (whose head may be `*`) and `qs`, so that
`b :: qs` matches -/
theorem extend_right {p qs h : Str} {b : Char} (hb : b ≠ '\n') (hp : ∃ ps, p = '*' :: ps)
    (hmp : Matches p h) (hmq : Matches qs h) (hlf : '\n' ∉ h) :
    ∃ h', '\n' ∉ h' ∧ Matches p h' ∧ Matches (b :: qs) h' := by
  obtain ⟨ps, e⟩ := hp
  subst e
  by_cases hs : b = '*'
  · subst hs; exact ⟨h, hlf, hmp, .starSkip hmq⟩
  · by_cases hq : b = '?'
    · subst hq
      refine ⟨'x' :: h, ?_, .starEat (by decide) hmp, .qmark (by decide) hmq⟩
      intro hm; rcases List.mem_cons.1 hm with e | e
      · exact absurd e (by decide)
      · exact hlf e
    · refine ⟨b :: h, ?_, .starEat hb hmp, .char hs hq (patCharMatch_refl b) hmq⟩
      intro hm; rcases List.mem_cons.1 hm with e | e
      · exact hb e.symm
      · exact hlf e

theorem extend_left {ps q h : Str} {a : Char} (ha : a ≠ '\n') (hq : ∃ qs, q = '*' :: qs)
    (hmp : Matches ps h) (hmq : Matches q h) (hlf : '\n' ∉ h) :
    ∃ h', '\n' ∉ h' ∧ Matches (a :: ps) h' ∧ Matches q h' := by
  obtain ⟨h', h1, h2, h3⟩ := extend_right (p := q) (qs := ps) (b := a) ha hq hmq hmp hlf
  exact ⟨h', h1, h3, h2⟩

/-- **soundness of the overlap test**: when `hostmaskPatternsIntersect` says yes (for patterns
without LF), some hostmask is matched by both — the test refuses nothing it need not refuse -/
theorem intersect_sound : ∀ (p q : Str), '\n' ∉ p → '\n' ∉ q → intersect p q = true →
    ∃ h, '\n' ∉ h ∧ Matches p h ∧ Matches q h := by
  intro p
  induction p with
  | nil =>
    intro q _ _ h
    exact ⟨[], by simp, .nil, matches_nil_of_rowNil h⟩
  | cons a ps ihp =>
    intro q
    have hpa : '\n' ∉ a :: ps → a ≠ '\n' ∧ '\n' ∉ ps := by
      intro h; exact ⟨fun e => h (e ▸ List.mem_cons_self), fun hm => h (List.mem_cons_of_mem _ hm)⟩
    induction q with
    | nil =>
      intro hp _ h
      rw [intersect_cons_nil] at h
      simp only [Bool.and_eq_true, beq_iff_eq] at h
      obtain ⟨hh, hl, h1, h2⟩ := ihp [] (hpa hp).2 (by simp) h.2
      rw [h.1]
      exact ⟨hh, hl, .starSkip h1, h2⟩
    | cons b qs ihq =>
      intro hp hq h
      obtain ⟨ha, hps⟩ := hpa hp
      have hb : b ≠ '\n' := fun e => hq (e ▸ List.mem_cons_self)
      have hqs : '\n' ∉ qs := fun hm => hq (List.mem_cons_of_mem _ hm)
      rw [intersect_cons_cons] at h
      by_cases sa : a = '*'
      · subst sa
        simp only [beq_self_eq_true, if_true, Bool.or_eq_true] at h
        rcases h with (h | h) | h
        · obtain ⟨hh, hl, h1, h2⟩ := ihp (b :: qs) hps hq h
          exact ⟨hh, hl, .starSkip h1, h2⟩
        · obtain ⟨hh, hl, h1, h2⟩ := ihq hp hqs h
          exact extend_right hb ⟨ps, rfl⟩ h1 h2 hl
        · obtain ⟨hh, hl, h1, h2⟩ := ihp qs hps hqs h
          exact extend_right hb ⟨ps, rfl⟩ (.starSkip h1) h2 hl
      · have ea : (a == '*') = false := by simp [sa]
        simp only [ea, Bool.false_eq_true, if_false] at h
        by_cases sb : b = '*'
        · subst sb
          simp only [beq_self_eq_true, if_true, Bool.or_eq_true] at h
          rcases h with (h | h) | h
          · obtain ⟨hh, hl, h1, h2⟩ := ihq hp hqs h
            exact ⟨hh, hl, h1, .starSkip h2⟩
          · obtain ⟨hh, hl, h1, h2⟩ := ihp ('*' :: qs) hps hq h
            exact extend_left ha ⟨qs, rfl⟩ h1 h2 hl |> fun ⟨h', e1, e2, e3⟩ => ⟨h', e1, by
              -- `extend_left` built `a :: ps` through `extend_right`, whose head rule covers `?` and literals
              exact e2, e3⟩
          · obtain ⟨hh, hl, h1, h2⟩ := ihp qs hps hqs h
            obtain ⟨h', e1, e2, e3⟩ := extend_left ha ⟨qs, rfl⟩ h1 (.starSkip h2) hl
            exact ⟨h', e1, e2, e3⟩
        · have eb : (b == '*') = false := by simp [sb]
          simp only [eb, Bool.false_eq_true, if_false] at h
          -- neither head is a star: one character for both
          have key : ∀ c : Char, c ≠ '\n' → (a = '?' ∨ patCharMatch a c = true) →
              (b = '?' ∨ patCharMatch b c = true) → intersect ps qs = true →
              ∃ h, '\n' ∉ h ∧ Matches (a :: ps) h ∧ Matches (b :: qs) h := by
            intro c hc hac hbc hi
            obtain ⟨hh, hl, h1, h2⟩ := ihp qs hps hqs hi
            refine ⟨c :: hh, ?_, matches_cons_of_head sa hc hac h1, matches_cons_of_head sb hc hbc h2⟩
            intro hm; rcases List.mem_cons.1 hm with e | e
            · exact hc e.symm
            · exact hl e
          by_cases qa : a = '?'
          · subst qa
            simp only [beq_self_eq_true, Bool.true_or, if_true] at h
            by_cases qb : b = '?'
            · exact key 'x' (by decide) (Or.inl rfl) (Or.inl qb) h
            · exact key b hb (Or.inl rfl) (Or.inr (patCharMatch_refl b)) h
          · have eqa : (a == '?') = false := by simp [qa]
            by_cases qb : b = '?'
            · subst qb
              simp only [beq_self_eq_true, Bool.or_true, if_true] at h
              exact key a ha (Or.inr (patCharMatch_refl a)) (Or.inl rfl) h
            · have eqb : (b == '?') = false := by simp [qb]
              simp only [eqa, eqb, Bool.or_self, Bool.false_eq_true, if_false, Bool.and_eq_true] at h
              refine key a ha (Or.inr (patCharMatch_refl a)) (Or.inr ?_) h.1
              rw [patCharMatch_eq_cls]
              have : cls a = cls b := by simpa using h.2
              simp [this]

end C04
